(** FormatBondingSpec: theorems about the GENERATED [format_bonding] (Gen/WriterGen.v, translated from
    write_cgsmiles.py statement by statement on every run). *)
From Coq Require Import String.
From Coq Require Import List Ascii ZArith Bool Lia.
From CGV Require Import Base.PyBase Base.PyVal Base.PyGen Gen.WriterGen.
Import ListNotations.
Open Scope Z_scope.

(** a stored descriptor: kind and label [kl], then the order as one digit *)
Definition mk_descr (kl : pystr) (o : nat) : pystr := kl ++ [digit_char o].
(** the symbol write_cgsmiles.order_to_symbol gives for an integer order *)
Definition sym_of (o : nat) : pystr :=
  match o with 0%nat => S "." | 1%nat => S "-" | 2%nat => S "=" | 3%nat => S "#" | _ => S "$" end.
Definition wrap (kl : pystr) : pystr := S "[" ++ kl ++ S "]".

(** what one iteration of the loop does to the accumulated text: a non-single order REPLACES it *)
Definition fb_step (acc : pystr) (klo : pystr * nat) : pystr :=
  (if Nat.eqb (snd klo) 1 then acc else sym_of (snd klo)) ++ wrap (fst klo).
Definition fb_spec (L : list (pystr * nat)) : pystr := fold_left fb_step L [].

Lemma py_index_last kl c : py_index (kl ++ [c]) (-1) = Ok [c].
Proof.
  unfold py_index. rewrite app_length. cbn [length].
  replace (Z.of_nat (length kl + 1)) with (Z.of_nat (length kl) + 1) by lia.
  cbn [Z.ltb Z.compare]. 
  replace (Z.of_nat (length kl) + 1 + -1) with (Z.of_nat (length kl)) by lia.
  destruct (Z.ltb_spec (Z.of_nat (length kl)) 0); [lia|].
  destruct (Z.leb_spec (Z.of_nat (length kl) + 1) (Z.of_nat (length kl))); [lia|]. cbn [orb].
  rewrite Nat2Z.id. rewrite nth_error_app2 by lia. rewrite Nat.sub_diag. reflexivity.
Qed.
Lemma drop_last_snoc kl c : py_drop_last (kl ++ [c]) = kl.
Proof. unfold py_drop_last. apply removelast_last. Qed.
Lemma small_digit o : (o <= 4)%nat ->
  py_int [digit_char o] = Ok (Z.of_nat o) /\ order_to_symbol_lookup (Z.of_nat o) = Ok (sym_of o).
Proof.
  intros H. destruct o as [|[|[|[|[|o]]]]]; try lia; split; reflexivity.
Qed.
Lemma sym_is_dash o : (o <= 4)%nat -> str_eqb (sym_of o) (S "-") = Nat.eqb o 1.
Proof. intros H. destruct o as [|[|[|[|[|o]]]]]; try lia; reflexivity. Qed.

(** the generated function computes [fb_spec] on every list of descriptors with orders 0..4 *)
Theorem format_bonding_spec : forall L : list (pystr * nat),
  Forall (fun klo => (snd klo <= 4)%nat) L ->
  format_bonding (map (fun klo => mk_descr (fst klo) (snd klo)) L) = Ok (fb_spec L).
Proof.
  intros L HL. unfold format_bonding, fb_spec, unwrap_return.
  cbn [bind ret id].
  match goal with |- context [py_for _ _ ?f] => set (body := f) end.
  change (S "") with (@nil ascii).
  assert (G : forall acc, py_for (map (fun klo => mk_descr (fst klo) (snd klo)) L) acc body
                          = Ok (RNext (fold_left fb_step L acc))).
  { induction HL as [|[kl o] L Ho HL IH]; intros acc.
    - reflexivity.
    - cbn [map py_for fst snd fold_left]. unfold body at 1. unfold mk_descr at 1 2 3.
      cbn [bind ret]. rewrite py_index_last. cbn [bind].
      destruct (small_digit o Ho) as [E1 E2]. rewrite E1. cbn [bind]. rewrite E2. cbn [bind].
      unfold py_ne. cbn [bind ret pyeqb PyEq_str]. rewrite sym_is_dash by assumption.
      unfold fb_step at 2. cbn [fst snd].
      destruct (Nat.eqb o 1); cbn [negb]; unfold py_concat; cbn [bind ret]; rewrite drop_last_snoc;
        cbn [bind ret]; unfold wrap; rewrite <- ?app_assoc; apply IH. }
  rewrite G. reflexivity.
Qed.

(** ---------------------------------------------------------------- consequences *)
Definition symtext (o : nat) : pystr := if Nat.eqb o 1 then [] else sym_of o.
(** the writing Appendix A asks for: every descriptor keeps its own symbol *)
Definition fb_expected (L : list (pystr * nat)) : pystr :=
  concat (map (fun klo => symtext (snd klo) ++ wrap (fst klo)) L).

Lemma fold_fb_single_orders L : Forall (fun klo => snd klo = 1%nat) L ->
  forall acc, fold_left fb_step L acc = acc ++ concat (map (fun klo => wrap (fst klo)) L).
Proof.
  induction 1 as [|[kl o] L Ho HL IH]; intros acc; cbn [fold_left map concat].
  - now rewrite app_nil_r.
  - cbn in Ho. subst o. unfold fb_step at 2. cbn [fst snd Nat.eqb]. rewrite IH, <- app_assoc. reflexivity.
Qed.

(** exact output for lists of order-1 descriptors: "[d1][d2]..." *)
Theorem format_bonding_order1 : forall kls : list pystr,
  format_bonding (map (fun kl => mk_descr kl 1) kls) = Ok (concat (map wrap kls)).
Proof.
  intros kls.
  replace (map (fun kl => mk_descr kl 1) kls)
    with (map (fun klo => mk_descr (fst klo) (snd klo)) (map (fun kl => (kl, 1%nat)) kls))
    by (rewrite map_map; reflexivity).
  rewrite format_bonding_spec.
  - unfold fb_spec. rewrite fold_fb_single_orders.
    + cbn [app]. rewrite map_map. reflexivity.
    + apply Forall_forall. intros x Hx. apply in_map_iff in Hx as [kl [<- _]]. reflexivity.
  - apply Forall_forall. intros x Hx. apply in_map_iff in Hx as [kl [<- _]]. cbn. lia.
Qed.

(** one descriptor of any order 0..4 is written sym[kind label] (no symbol for order 1) *)
Theorem format_bonding_single : forall kl o, (o <= 4)%nat ->
  format_bonding [mk_descr kl o] = Ok (symtext o ++ wrap kl).
Proof.
  intros kl o Ho. change [mk_descr kl o] with (map (fun klo => mk_descr (fst klo) (snd klo)) [(kl, o)]).
  rewrite format_bonding_spec by (constructor; [assumption|constructor]).
  unfold fb_spec, fb_step, symtext. cbn [fold_left fst snd]. reflexivity.
Qed.

(** partial correctness: when only the FIRST descriptor may have an order other than 1 the output is the
    expected writing *)
Theorem format_bonding_first_only_partial : forall kl o rest, (o <= 4)%nat ->
  Forall (fun klo => snd klo = 1%nat) rest ->
  format_bonding (map (fun klo => mk_descr (fst klo) (snd klo)) ((kl, o) :: rest)) = Ok (fb_expected ((kl, o) :: rest)).
Proof.
  intros kl o rest Ho Hr. rewrite format_bonding_spec.
  - f_equal. unfold fb_spec. cbn [fold_left]. rewrite fold_fb_single_orders by assumption.
    unfold fb_expected. cbn [map concat fst snd]. unfold fb_step at 1, symtext at 1. cbn [fst snd app].
    f_equal. f_equal.
    apply map_ext_in. intros [k p] Hin. rewrite Forall_forall in Hr. specialize (Hr _ Hin). cbn in Hr. subst p. reflexivity.
  - constructor; [assumption|]. eapply Forall_impl; [|exact Hr]. intros a Ha. rewrite Ha. lia.
Qed.

(** the defect, universally: everything written before a non-single descriptor is dropped *)
Theorem format_bonding_drops_prefix : forall L1 kl o L2, o <> 1%nat ->
  fb_spec (L1 ++ (kl, o) :: L2) = fb_spec ((kl, o) :: L2).
Proof.
  intros L1 kl o L2 Ho. unfold fb_spec. rewrite fold_left_app. cbn [fold_left].
  f_equal. unfold fb_step. cbn [fst snd]. destruct (Nat.eqb_spec o 1); [contradiction|]. reflexivity.
Qed.

(** refutation of the full statement "format_bonding writes every descriptor with its symbol":
    ["$a1"; "$b2"] is written "=[$b]" *)
Theorem format_bonding_refuted : exists L : list (pystr * nat),
  Forall (fun klo => (1 <= snd klo <= 3)%nat) L /\
  exists out, format_bonding (map (fun klo => mk_descr (fst klo) (snd klo)) L) = Ok out /\ out <> fb_expected L
              /\ out = S "=[$b]".
Proof.
  exists [(S "$a", 1%nat); (S "$b", 2%nat)]. split; [repeat constructor|].
  eexists. split; [vm_compute; reflexivity|]. split; [vm_compute; discriminate|reflexivity].
Qed.
Example format_bonding_examples :
  format_bonding [S "$a1"; S "$b2"] = Ok (S "=[$b]") /\ format_bonding [S "$2"; S ">x1"] = Ok (S "=[$][>x]")
  /\ format_bonding [S "$0"] = Ok (S ".[$]") /\ format_bonding [S "$"] = Err EValue /\ format_bonding [S "$7"] = Err EKey.
Proof. repeat split; reflexivity. Qed.
