(** WriteImpl: executable model of cgsmiles/write_cgsmiles.py [write_graph] (and of the three
    wrappers [write_cgsmiles_graph], [write_cgsmiles_fragments], [write_cgsmiles]) together with the
    third-party pieces it calls: networkx [dfs_successors] (recursive DFS in adjacency order),
    pysmiles [_get_ring_marker], [_write_edge_symbol], [format_atom] (subset).
    NO proofs here.  The model mirrors the Python code construct by construct:

      start = min(molecule); dfs_successors; predecessors; ring_edges = list(total_edges - edges);
      atom_to_ring_idx / ring_idx_to_bond; the to_visit stack, the branches set, branch_depth.

    One thing is NOT modelled: the iteration order of a Python set of frozensets
    ([list(total_edges - edges)] and the unpacking [(n_idx, n_jdx)] of each frozenset).  That list
    is a TRANSCRIPT: the harness records it in the interpreter that runs the implementation and
    hands it to the model as part of the input.  Its contract ([ring_contract]) is decidable and
    evaluated on every case: it is a permutation (up to orientation) of the non-tree edges.
    [format_bonding] and the order table are the definitions GENERATED from write_cgsmiles.py. *)
From Coq Require Import String.
From Coq Require Import List Ascii ZArith Bool.
From CGV Require Import Base.PyBase Base.PyVal Base.PyGen Base.NxGraph Gen.WriterGen.
Import ListNotations.
Open Scope Z_scope.

Definition memz (x : Z) (l : list Z) : bool := existsb (Z.eqb x) l.
Definition memn (x : nat) (l : list nat) : bool := existsb (Nat.eqb x) l.

(** min(molecule): ValueError on the empty graph *)
Definition min_node (g : graph) : res Z :=
  match node_keys g with [] => Err EValue | k :: r => Ok (fold_left Z.min r k) end.

(** ------------------------------------------------------------------ networkx dfs_successors *)
(** visited nodes (latest first), tree edges (latest first) *)
Definition dfs_state := (list Z * list (Z * Z))%type.
(** nx.dfs_edges is the iterative form of: for v in adj[u]: if v not visited: visit v, yield (u,v), recurse.
    The depth limit len(G) of networkx is never reached (depth <= number of nodes). *)
Fixpoint dfs_visit (fuel : nat) (g : graph) (u : Z) (st : dfs_state) : res dfs_state :=
  match fuel with
  | O => Err EOutOfFuel
  | Datatypes.S f =>
      fold_left (fun acc v =>
                   st' <- acc ;;
                   if memz v (fst st') then Ok st'
                   else dfs_visit f g v (v :: fst st', (u, v) :: snd st'))
                (neighbors g u) (Ok st)
  end.
(** the (parent, child) pairs in the order networkx yields them *)
Definition dfs_edges (g : graph) (start : Z) : res (list (Z * Z)) :=
  st <- dfs_visit (Datatypes.S (length g)) g start ([start], []) ;; Ok (rev (snd st)).
Definition dfs_visited (g : graph) (start : Z) : res (list Z) :=
  st <- dfs_visit (Datatypes.S (length g)) g start ([start], []) ;; Ok (rev (fst st)).

(** defaultdict(list) with integer keys, insertion ordered *)
Fixpoint dl_append {A} (k : Z) (v : A) (d : list (Z * list A)) : list (Z * list A) :=
  match d with
  | [] => [(k, [v])]
  | (k', l) :: r => if Z.eqb k k' then (k', l ++ [v]) :: r else (k', l) :: dl_append k v r
  end.
Fixpoint dl_get {A} (k : Z) (d : list (Z * list A)) : option (list A) :=
  match d with [] => None | (k', l) :: r => if Z.eqb k k' then Some l else dl_get k r end.

(** d[s].append(t) for s, t in dfs_edges *)
Definition succ_of (es : list (Z * Z)) : list (Z * list Z) :=
  fold_left (fun d e => dl_append (fst e) (snd e) d) es [].
(** for node_key, successors in dfs_successors.items(): for s in successors: predecessors[s].append(node_key) *)
Definition pred_of (succ : list (Z * list Z)) : list (Z * list Z) :=
  fold_left (fun d ks => fold_left (fun d2 s => dl_append s (fst ks) d2) (snd ks) d) succ [].

(** unordered pair equality (frozenset) *)
Definition same_edge (a b : Z * Z) : bool :=
  (Z.eqb (fst a) (fst b) && Z.eqb (snd a) (snd b)) || (Z.eqb (fst a) (snd b) && Z.eqb (snd a) (fst b)).
Definition edge_mem (e : Z * Z) (l : list (Z * Z)) : bool := existsb (same_edge e) l.
(** total_edges - edges, in G.edges order (the ORDER the implementation uses is the transcript) *)
Definition nontree_edges (g : graph) (tree : list (Z * Z)) : list (Z * Z) :=
  filter (fun e => negb (edge_mem e tree)) (edges_list g).
Fixpoint nodup_edges (l : list (Z * Z)) : bool :=
  match l with [] => true | e :: r => negb (edge_mem e r) && nodup_edges r end.
(** contract of the transcript [tr] = list(total_edges - edges): a permutation of the non-tree edges
    (each as an unordered pair, in either orientation); no self loops *)
Definition ring_contract (g : graph) (tree tr : list (Z * Z)) : bool :=
  let nt := nontree_edges g tree in
  Nat.eqb (length tr) (length nt) && nodup_edges tr
  && forallb (fun e => edge_mem e nt && negb (Z.eqb (fst e) (snd e))) tr
  && forallb (fun e => edge_mem e tr) nt.

(** atom_to_ring_idx: for ring_idx, (i, j) in enumerate(ring_edges, 1): d[i].append(ring_idx); d[j].append(ring_idx) *)
Definition ring_tables (tr : list (Z * Z)) : list (Z * list nat) :=
  fold_left (fun d ie => dl_append (snd (snd ie)) (fst ie) (dl_append (fst (snd ie)) (fst ie) d))
            (combine (seq 1 (length tr)) tr) [].

(** ------------------------------------------------------------------ pysmiles helpers *)
(** _get_ring_marker(used): new_marker = 1; while new_marker in used: new_marker += 1 *)
Fixpoint first_free (fuel m : nat) (used : list nat) : nat :=
  match fuel with
  | O => m
  | Datatypes.S f => if memn m used then first_free f (Datatypes.S m) used else m
  end.
Definition get_ring_marker (used : list nat) : nat := first_free (Datatypes.S (length used)) 1 used.
(** '%{:02d}'.format(marker) *)
Definition pct_text (m : nat) : pystr :=
  "%"%char :: (if (m <? 10)%nat then "0"%char :: str_of_nat m else str_of_nat m).
(** if marker < 10 and not after_pct: str(marker)  else: '%{:02d}'.format(marker)   (fix b681517) *)
Definition marker_text (after_pct : bool) (m : nat) : pystr :=
  if (m <? 10)%nat && negb after_pct then str_of_nat m else pct_text m.
(** the flag after_pct of the ring loop at one node, as a function of the markers written on the node so far:
    it is set by the first marker written in the % form, and that one is the first marker >= 10 *)
Definition after_pct (trc : list nat) : bool := existsb (fun m => (10 <=? m)%nat) trc.

(** Python numeric equality of an attribute value with a small integer (1 == 1.0 == True) *)
Definition num_is (v : pyval) (k : Z) : bool :=
  match v with
  | VInt z => Z.eqb z k
  | VBool b => Z.eqb (if b then 1 else 0) k
  | VFlt r => str_eqb r (str_of_Z k ++ S ".0")
  | _ => false
  end.
Definition is_one_half (v : pyval) : bool := match v with VFlt r => str_eqb r (S "1.5") | _ => false end.
(** molecule.edges[i, j].get('order', 1) *)
Definition edge_order (g : graph) (i j : Z) : res pyval :=
  d <- edge_attrs g i j ;; Ok (match aget (S "order") d with Some o => o | None => VInt 1 end).
(** molecule.nodes[k].get(name, False), as a truth value *)
Definition node_flag (g : graph) (k : Z) (name : pystr) : res bool :=
  a <- node_attrs g k ;; Ok (match aget name a with Some v => truthy v | None => false end).
(** pysmiles.write_smiles._write_edge_symbol *)
Definition write_edge_symbol (g : graph) (i j : Z) : res bool :=
  o <- edge_order g i j ;;
  ai <- node_flag g i (S "aromatic") ;;
  aj <- (if ai then node_flag g j (S "aromatic") else Ok false) ;;
  let aromatic_atoms := ai && aj in
  let aromatic_bond := aromatic_atoms && is_one_half o in
  let cross_aromatic := aromatic_atoms && num_is o 1 in
  let single_bond := num_is o 1 in
  Ok (cross_aromatic || negb (aromatic_bond || single_bond)).

(** order_to_symbol[order] with Python's dict-key equality on numbers (2 == 2.0, 1 == True);
    anything that is not a key is KeyError *)
Definition order_key (o : pyval) : pyval :=
  match o with
  | VBool b => VInt (if b then 1 else 0)
  | VFlt r => match find (fun k => str_eqb r (str_of_Z k ++ S ".0")) [0; 1; 2; 3; 4] with
              | Some k => VInt k | None => o end
  | _ => o
  end.
Definition order_symbol (o : pyval) : res pystr :=
  match find (fun kv => pyval_eqb (order_key o) (fst kv)) order_to_symbol_full with
  | Some kv => Ok (snd kv)
  | None => Err EKey
  end.
(** what is written for a crossed edge: the symbol if _write_edge_symbol says so, else nothing *)
Definition edge_text (g : graph) (i j : Z) : res pystr :=
  b <- write_edge_symbol g i j ;;
  if b then o <- edge_order g i j ;; order_symbol o else Ok [].

(** "{}".format(v) for the attribute values that can be a name *)
Definition py_format (v : pyval) : res pystr :=
  match v with
  | VStr s => Ok s
  | VInt z => Ok (str_of_Z z)
  | VFlt r => Ok r
  | VNone => Ok (S "None")
  | VBool b => Ok (if b then S "True" else S "False")
  | _ => Err EType   (* containers: their repr is not modelled (outside every generator) *)
  end.
(** write_cgsmiles.format_node(molecule, current, name_attr): the default of .get is evaluated first, so a node
    without fragname is a KeyError whatever name_attr is (fix 6d8cc68) *)
Definition format_node_by (name_attr : pystr) (g : graph) (k : Z) : res pystr :=
  a <- node_attrs g k ;;
  dflt <- of_option (aget (S "fragname") a) EKey ;;
  t <- py_format (match aget name_attr a with Some v => v | None => dflt end) ;;
  Ok (S "[#" ++ t ++ S "]").
(** name_attr='fragname', the default *)
Definition format_node (g : graph) (k : Z) : res pystr := format_node_by (S "fragname") g k.
Lemma format_node_eq g k :
  format_node g k = (a <- node_attrs g k ;; v <- of_option (aget (S "fragname") a) EKey ;; t <- py_format v ;;
                     Ok (S "[#" ++ t ++ S "]")).
Proof.
  unfold format_node, format_node_by. destruct (node_attrs g k) as [a|e]; [|reflexivity]. cbn [bind].
  destruct (aget (S "fragname") a); reflexivity.
Qed.

(** if molecule.nodes[current].get('bonding', False): smiles += format_bonding(...) *)
Fixpoint strs_of (l : list pyval) : res (list pystr) :=
  match l with [] => Ok [] | v :: r => s <- as_str v ;; t <- strs_of r ;; Ok (s :: t) end.
Definition bonding_suffix (g : graph) (k : Z) : res pystr :=
  a <- node_attrs g k ;;
  match aget (S "bonding") a with
  | None => Ok []
  | Some v => if truthy v then l <- as_list v ;; ds <- strs_of l ;; format_bonding ds else Ok []
  end.

(** pysmiles.smiles_helper.format_atom for the attribute subset the fragment reader produces:
    element, charge (int), hcount (int), aromatic; isotope/class/rs_isomer absent.
    has_default_h_count is NOT modelled here: it is part of the transcript [dh] (see WriteCheck). *)
Definition AROMATIC_ATOMS : list pystr := map S ["B"; "C"; "N"; "O"; "P"; "S"; "Se"; "As"; "*"]%string.
Definition lower_char (c : ascii) : ascii :=
  let n := nat_of_ascii c in if ((65 <=? n) && (n <=? 90))%nat then ascii_of_nat (n + 32) else c.
Definition py_lower (s : pystr) : pystr := map lower_char s.
Definition format_atom (g : graph) (default_h : Z -> bool) (k : Z) : res pystr :=
  a <- node_attrs g k ;;
  name <- match aget (S "element") a with Some v => as_str v | None => Ok (S "*") end ;;
  charge <- match aget (S "charge") a with Some v => as_int v | None => Ok 0 end ;;
  hcount <- match aget (S "hcount") a with Some v => as_int v | None => Ok 0 end ;;
  let aromatic := match aget (S "aromatic") a with Some v => truthy v | None => false end in
  let plain := negb (ahas (S "rs_isomer") a && negb (match aget (S "rs_isomer") a with Some VNone => true | _ => false end))
               && match aget (S "isotope") a with None => true | Some (VStr []) => true | _ => false end
               && match aget (S "class") a with None => true | Some (VStr []) => true | _ => false end in
  if negb plain then Err EType (* isotope / class / stereo: outside the modelled subset *) else
  let name := if aromatic && str_in name AROMATIC_ATOMS then py_lower name else name in
  if Z.eqb charge 0 && default_h k
     && (str_in (py_lower name) (map S ["b"; "c"; "n"; "o"; "p"; "s"; "*"]%string)
         || str_in name (map S ["F"; "Cl"; "Br"; "I"]%string))
  then Ok name else
  let hs := if Z.eqb hcount 0 then [] else if (hcount >? 1) then S "H" ++ str_of_Z hcount else S "H" in
  let cs := if (charge >? 0) then (if (charge >? 1) then S "+" ++ str_of_Z charge else S "+")
            else if (charge <? 0) then (if (charge <? -1) then S "-" ++ str_of_Z (- charge) else S "-")
            else [] in
  Ok (S "[" ++ name ++ hs ++ cs ++ S "]").

(** ------------------------------------------------------------------ the serialisation loop *)
Record wenv := {
  e_smiles : bool;                 (* smiles_format *)
  e_fmt : Z -> res pystr;          (* node text, bonding descriptors included *)
  e_sym : Z -> Z -> res pystr;     (* text written for the tree edge (previous, current) *)
  e_rsym : Z -> Z -> res pystr;    (* text written before an OPENING ring marker *)
  e_succ : list (Z * list Z);
  e_pred : list (Z * list Z);
  e_rings : list (Z * list nat);   (* atom_to_ring_idx *)
  e_tr : list (Z * Z)              (* ring_idx_to_bond, ring_idx = position + 1 *)
}.
Record wst := {
  w_stack : list Z;                (* to_visit, top of the stack first *)
  w_branches : list Z;
  w_depth : nat;
  w_out : pystr;
  w_marks : list (nat * nat);      (* ring_idx_to_marker *)
  w_visit : list Z;                (* nodes in the order written (latest first) *)
  w_mtrace : list (Z * list nat)   (* markers written after each node that has any (latest first) *)
}.

Fixpoint mk_get (ri : nat) (m : list (nat * nat)) : option nat :=
  match m with [] => None | (r, x) :: t => if Nat.eqb r ri then Some x else mk_get ri t end.
Definition mk_del (ri : nat) (m : list (nat * nat)) : list (nat * nat) :=
  filter (fun p => negb (Nat.eqb (fst p) ri)) m.

Definition ring_step (env : wenv) (st : list (nat * nat) * pystr * list nat) (ri : nat)
  : res (list (nat * nat) * pystr * list nat) :=
  let '(marks, out, trc) := st in
  bond <- of_option (nth_error (e_tr env) (ri - 1)) EKey ;;
  sym <- e_rsym env (fst bond) (snd bond) ;;
  match mk_get ri marks with
  | None => let m := get_ring_marker (map snd marks) in
            Ok (marks ++ [(ri, m)], out ++ sym ++ marker_text (after_pct trc) m, trc ++ [m])
  | Some m => Ok (mk_del ri marks, out ++ marker_text (after_pct trc) m, trc ++ [m])
  end.
Fixpoint ring_loop (env : wenv) (st : list (nat * nat) * pystr * list nat) (ris : list nat) :=
  match ris with
  | [] => Ok st
  | ri :: r => st' <- ring_step env st ri ;; ring_loop env st' r
  end.

(** one iteration of `while to_visit:` after `current = to_visit.pop()` *)
Definition wstep (env : wenv) (current : Z) (st : wst) : res wst :=
  let in_branch := memz current (w_branches st) in
  let depth := if in_branch then Datatypes.S (w_depth st) else w_depth st in
  (* SMILES puts the bond symbol inside the parenthesis, CGsmiles in front of it (fix be4ff6e) *)
  let out := if in_branch && e_smiles env then w_out st ++ S "(" else w_out st in
  let branches := if in_branch then filter (fun x => negb (Z.eqb x current)) (w_branches st) else w_branches st in
  sym <- match dl_get current (e_pred env) with
         | None => Ok []
         | Some [previous] => e_sym env previous current
         | Some _ => Err EAssert
         end ;;
  node <- e_fmt env current ;;
  let out := out ++ sym ++ (if in_branch && negb (e_smiles env) then S "(" else []) ++ node in
  '(marks, out, trc) <- match dl_get current (e_rings env) with
                        | None => Ok (w_marks st, out, [])
                        | Some ris => ring_loop env (w_marks st, out, []) ris
                        end ;;
  let mtrace := match trc with [] => w_mtrace st | _ => (current, trc) :: w_mtrace st end in
  match dl_get current (e_succ env) with
  | Some next_nodes =>
      (* branches.update(next_nodes[1:]); to_visit.extend(next_nodes) *)
      Ok {| w_stack := rev next_nodes ++ w_stack st;
            w_branches := branches ++ tl next_nodes;
            w_depth := depth; w_out := out; w_marks := marks;
            w_visit := current :: w_visit st; w_mtrace := mtrace |}
  | None =>
      Ok {| w_stack := w_stack st; w_branches := branches;
            w_depth := (if (0 <? depth)%nat then depth - 1 else depth)%nat;
            w_out := (if (0 <? depth)%nat then out ++ S ")" else out);
            w_marks := marks; w_visit := current :: w_visit st; w_mtrace := mtrace |}
  end.

Fixpoint wloop (fuel : nat) (env : wenv) (st : wst) : res wst :=
  match fuel with
  | O => match w_stack st with [] => Ok st | _ => Err EOutOfFuel end
  | Datatypes.S f =>
      match w_stack st with
      | [] => Ok st
      | current :: rest =>
          st' <- wstep env current {| w_stack := rest; w_branches := w_branches st; w_depth := w_depth st;
                                      w_out := w_out st; w_marks := w_marks st; w_visit := w_visit st;
                                      w_mtrace := w_mtrace st |} ;;
          wloop f env st'
      end
  end.

Definition winit (start : Z) : wst :=
  {| w_stack := [start]; w_branches := []; w_depth := 0; w_out := []; w_marks := []; w_visit := []; w_mtrace := [] |}.

(** result of a run: the text, the nodes in the order written, the marker trace *)
Record wres := { r_text : pystr; r_visit : list Z; r_mtrace : list (Z * list nat) }.

(** the loop and the final `smiles += ')' * branch_depth`; [n] bounds the number of iterations
    (every node is pushed at most once) *)
Definition run_writer (n : nat) (env : wenv) (start : Z) : res wres :=
  st <- wloop (Datatypes.S n) env (winit start) ;;
  Ok {| r_text := w_out st ++ concat (repeat (S ")") (w_depth st));
        r_visit := rev (w_visit st); r_mtrace := rev (w_mtrace st) |}.

(** the tables write_graph computes before the loop *)
Definition mk_env (sf : bool) (fmt : Z -> res pystr) (sym rsym : Z -> Z -> res pystr) (tree tr : list (Z * Z)) : wenv :=
  let succ := succ_of tree in
  {| e_smiles := sf; e_fmt := fmt; e_sym := sym; e_rsym := rsym; e_succ := succ; e_pred := pred_of succ;
     e_rings := ring_tables tr; e_tr := tr |}.

(** write_graph(molecule, smiles_format, name_attr=...) given the transcript [tr] of list(total_edges - edges);
    [default_h] is only consulted when smiles_format is true, [name_attr] only when it is false *)
Definition node_text_by (name_attr : pystr) (smiles_format : bool) (default_h : Z -> bool) (g : graph) (k : Z) : res pystr :=
  t <- (if smiles_format then format_atom g default_h k else format_node_by name_attr g k) ;;
  b <- bonding_suffix g k ;; Ok (t ++ b).
Definition write_graph_full_by (name_attr : pystr) (smiles_format : bool) (default_h : Z -> bool) (g : graph)
    (tr : list (Z * Z)) : res wres :=
  start <- min_node g ;;
  tree <- dfs_edges g start ;;
  run_writer (length g)
    (mk_env smiles_format (node_text_by name_attr smiles_format default_h g) (edge_text g) (edge_text g) tree tr)
    start.
Definition write_graph_by (name_attr : pystr) (smiles_format : bool) (default_h : Z -> bool) (g : graph)
    (tr : list (Z * Z)) : res pystr :=
  r <- write_graph_full_by name_attr smiles_format default_h g tr ;; Ok (r_text r).
(** name_attr='fragname', the default *)
Definition node_text (smiles_format : bool) (default_h : Z -> bool) (g : graph) (k : Z) : res pystr :=
  t <- (if smiles_format then format_atom g default_h k else format_node g k) ;;
  b <- bonding_suffix g k ;; Ok (t ++ b).
Definition write_graph_full (smiles_format : bool) (default_h : Z -> bool) (g : graph) (tr : list (Z * Z)) : res wres :=
  start <- min_node g ;;
  tree <- dfs_edges g start ;;
  run_writer (length g)
    (mk_env smiles_format (node_text smiles_format default_h g) (edge_text g) (edge_text g) tree tr)
    start.
Definition write_graph (smiles_format : bool) (default_h : Z -> bool) (g : graph) (tr : list (Z * Z)) : res pystr :=
  r <- write_graph_full smiles_format default_h g tr ;; Ok (r_text r).
Lemma node_text_default sf dh g k : node_text_by (S "fragname") sf dh g k = node_text sf dh g k.
Proof. reflexivity. Qed.
Lemma write_graph_full_default sf dh g tr : write_graph_full_by (S "fragname") sf dh g tr = write_graph_full sf dh g tr.
Proof. reflexivity. Qed.
Lemma write_graph_default sf dh g tr : write_graph_by (S "fragname") sf dh g tr = write_graph sf dh g tr.
Proof. reflexivity. Qed.
(** CGsmiles nodes (smiles_format=False) *)
Definition write_graph_cg (g : graph) (tr : list (Z * Z)) : res pystr := write_graph false (fun _ => true) g tr.
(** write_cgsmiles_graph *)
Definition write_cgsmiles_graph (g : graph) (tr : list (Z * Z)) : res pystr :=
  t <- write_graph_cg g tr ;; Ok (S "{" ++ t ++ S "}").

(** write_cgsmiles_fragments(fragment_dict, smiles_format): one (name, graph, transcripts) per entry.
    fragment_str[:-1] on the empty dict gives "{}" *)
Definition frag_entry := (pystr * graph * list (Z * Z) * list Z)%type.  (* name, graph, ring transcript, nodes with default H count *)
Fixpoint write_fragments_body (smiles_format : bool) (l : list frag_entry) : res pystr :=
  match l with
  | [] => Ok []
  | (name, g, tr, dh) :: r =>
      t <- write_graph_by (S "atomname") smiles_format (fun k => memz k dh) g tr ;;
      rest <- write_fragments_body smiles_format r ;;
      Ok (S "#" ++ name ++ S "=" ++ t ++ S "," ++ rest)
  end.
Definition write_cgsmiles_fragments (smiles_format : bool) (l : list frag_entry) : res pystr :=
  body <- write_fragments_body smiles_format l ;; Ok (S "{" ++ py_drop_last body ++ S "}").
(** write_cgsmiles(molecule_graph, fragments, last_all_atom) *)
Fixpoint write_layers (last_all_atom : bool) (layers : list (list frag_entry)) : res pystr :=
  match layers with
  | [] => Ok []
  | l :: r =>
      let all_atom := match r with [] => last_all_atom | _ => false end in
      t <- write_cgsmiles_fragments all_atom l ;;
      rest <- write_layers last_all_atom r ;;
      Ok (S "." ++ t ++ rest)
  end.
Definition write_cgsmiles (g : graph) (tr : list (Z * Z)) (layers : list (list frag_entry)) (last_all_atom : bool) : res pystr :=
  t <- write_cgsmiles_graph g tr ;; rest <- write_layers last_all_atom layers ;; Ok (t ++ rest).
