(** TreeRound: the UNBOUNDED round trip for trees.
    (a) transcript level [tree_transcript_roundtrip]: for every rose tree T with distinct keys, what the writer's
        loop writes on T's tables is read by the reader model as T renumbered in the order of writing ([gtree]);
    (b) graph level [tree_graph_roundtrip]: for every "plain" networkx graph g (names, integer orders 0..4 on every
        adjacency entry, no bonding) without non-tree edges, write_cgsmiles_graph g [] is read
        back as [gtree] of g's own DFS tree, with g's names and orders.
    Reader half: reader_sim_lin (component Reader) + [machine_tree]; writer half: write_tree_transcript +
    dfs_shape.  No class is excluded: the writer never closes two branches in a row and a tree has no rings. *)
From Coq Require Import String.
From Coq Require Import List Ascii ZArith Bool Lia.
From CGV Require Import Base.PyBase Base.PyVal Base.PyGen Base.NxGraph Gen.WriterGen Dialect.DialectImpl.
From CGV Require Import Write.WriteImpl Write.WriteDefs Write.WriteProofs Write.TreeDefs Write.TreeWrite Write.TreeTables
     Write.DfsProofs Write.WfFacts Write.TreeRead Write.PathRound Write.WriteRound.
From CGV Require Import Reader.ReaderImpl Reader.Grammar Reader.Lin Reader.ReaderSim.
Import ListNotations.
Open Scope Z_scope.

(** ------------------------------------------------------------------ (a) transcript level *)
Theorem tree_transcript_roundtrip : forall fo name esym A T fmt sym rsym n,
  NoDup (rkeys T) -> (rsize T <= n)%nat ->
  (forall k, In k (rkeys T) -> fmt k = Ok (ntext name k)) ->
  (forall e, In e (redges T) -> sym (fst e) (snd e) = Ok (stext esym (fst e) (snd e))) ->
  (forall k, In k (rkeys T) -> name_ok fo (name k) = true) ->
  (forall k, parse_graph_base_node fo (name k) = Ok (A k)) ->
  exists txt, run_writer n (mk_env false fmt sym rsym (redges T) []) (rkey T)
              = Ok {| r_text := txt; r_visit := worder T; r_mtrace := [] |}
              /\ read_cgsmiles fo (S "{" ++ txt ++ S "}") = Ok (gtree esym A gempty 0 None 1 T).
Proof.
  intros fo name esym A T fmt sym rsym n ND Hn Hf Hs Hok Hp.
  exists (wtext false (ntext name) (stext esym) None false 0 T). split.
  - now apply write_tree_transcript.
  - pose proof (wtext_lins name esym T None false 0%nat None) as E. cbn [insym app osym_str] in E. rewrite app_nil_r in E.
    rewrite <- E. cbn [S list_ascii_of_string app].
    rewrite reader_sim_lin.
    + unfold denote_lin. change m_init with (mkm gempty 0 None 1 [] []).
      rewrite (machine_tree fo name esym A Hp T false 0%nat None gempty 0 None 1 [] [] eq_refl). reflexivity.
    + unfold lins_ok. rewrite (tlins_ok fo name esym T false 0%nat None Hok).
      pose proof (tlins_depth name esym T false 0%nat None []) as Hd. rewrite app_nil_r in Hd. rewrite Hd.
      cbn [dout Nat.sub lin_depth andb]. destruct T as [k [|c1 bs]]; reflexivity.
Qed.

(** ------------------------------------------------------------------ (b) graph level *)
Definition order_ok (a : attrs) : bool :=
  match aget (S "order") a with Some (VInt z) => (0 <=? z) && (z <=? 4) | _ => false end.
(** "plain" graph: node keys distinct, adjacency lists mention only nodes, every node has a string fragname and
    no `bonding`, every adjacency entry carries an integer order 0..4.  An `aromatic` attribute is allowed: it only
    makes pysmiles' _write_edge_symbol write a single bond between two aromatic nodes explicitly ('-') *)
Definition plain_graph (g : graph) : bool :=
  graph_wf g
  && forallb (fun n => match aget (S "fragname") (na n) with Some (VStr _) => true | _ => false end
                       && negb (ahas (S "bonding") (na n))
                       && forallb (fun wa => order_ok (snd wa)) (nadj n)) g.
Definition name_of (g : graph) (k : Z) : pystr := match node_name g k with Some s => s | None => [] end.
Definition order_of (g : graph) (p k : Z) : Z := match edge_get g p k (S "order") with Some (VInt z) => z | _ => 1 end.
(** molecule.nodes[k].get('aromatic', False), as a truth value *)
Definition arom_of (g : graph) (k : Z) : bool := match node_get g k (S "aromatic") with Some v => truthy v | None => false end.
(** the symbol written on an edge: by the order, and '-' for a single bond between two aromatic nodes *)
Definition esym_of (g : graph) (p k : Z) : option sym :=
  if arom_of g p && arom_of g k && Z.eqb (order_of g p k) 1 then Some SSingle else osym_of (order_of g p k).

Lemma in_keys_gfind g k : In k (node_keys g) -> exists n, gfind k g = Some n /\ In n g.
Proof.
  induction g as [|m g IH]; [intros []|]. cbn [node_keys map gfind]. destruct (Z.eqb_spec (nk m) k) as [E|N].
  - intros _. exists m. split; [reflexivity|now left].
  - intros [E|H]; [contradiction|]. destruct (IH H) as [n [H1 H2]]. exists n. split; [assumption|now right].
Qed.
Lemma adj_get_in v l : In v (map fst l) -> exists a, adj_get v l = Some a /\ In (v, a) l.
Proof.
  induction l as [|[w b] l IH]; [intros []|]. cbn [map fst adj_get]. destruct (Z.eqb_spec w v) as [->|N].
  - intros _. exists b. split; [reflexivity|now left].
  - intros [E|H]; [contradiction|]. destruct (IH H) as [a [H1 H2]]. exists a. split; [assumption|now right].
Qed.

Section Plain.
  Variable g : graph.
  Hypothesis Hp : plain_graph g = true.

  Lemma plain_node k : In k (node_keys g) ->
    node_text false (fun _ => true) g k = Ok (ntext (name_of g) k).
  Proof.
    intros Hk. destruct (in_keys_gfind g k Hk) as [n [Hf Hn]].
    unfold plain_graph in Hp. apply andb_prop in Hp as [_ H]. rewrite forallb_forall in H. specialize (H n Hn).
    apply andb_prop in H as [H _]. apply andb_prop in H as [Hname Hb].
    destruct (aget (S "fragname") (na n)) as [[| | | |s| | |]|] eqn:E; try discriminate.
    apply negb_true_iff in Hb. unfold ahas in Hb. destruct (aget (S "bonding") (na n)) eqn:Eb; [discriminate|].
    unfold node_text. rewrite format_node_eq. unfold bonding_suffix, node_attrs, ntext, name_of, node_name, node_get. rewrite Hf.
    cbn [bind]. rewrite E, Eb. cbn [bind of_option py_format]. now rewrite app_nil_r.
  Qed.
  Lemma plain_edge p k : In k (neighbors g p) -> edge_text g p k = Ok (stext (esym_of g) p k).
  Proof.
    intros Hk. pose proof Hp as Hp'. unfold neighbors in Hk. destruct (gfind p g) as [n|] eqn:Hf; [|contradiction].
    destruct (gfind_some p g n Hf) as [Hn _].
    destruct (adj_get_in k (nadj n) Hk) as [ea [Hg Hin]].
    unfold plain_graph in Hp. apply andb_prop in Hp as [_ H]. rewrite forallb_forall in H. specialize (H n Hn).
    apply andb_prop in H as [_ Hord].
    rewrite forallb_forall in Hord. specialize (Hord (k, ea) Hin). cbn [snd] in Hord. unfold order_ok in Hord.
    destruct (aget (S "order") ea) as [[| |z| | | | |]|] eqn:Eo; try discriminate.
    apply andb_prop in Hord as [H0 H4]. apply Z.leb_le in H0. apply Z.leb_le in H4.
    (* the neighbour is a node *)
    assert (Hm : exists m, gfind k g = Some m).
    { unfold plain_graph in Hp'. apply andb_prop in Hp' as [Hw _]. unfold graph_wf in Hw. apply andb_prop in Hw as [_ Hw].
      rewrite forallb_forall in Hw. specialize (Hw n Hn). apply andb_prop in Hw as [_ Hw]. rewrite forallb_forall in Hw.
      specialize (Hw (k, ea) Hin). apply andb_prop in Hw as [_ Hw]. cbn [fst] in Hw. unfold edge_attrs in Hw.
      destruct (gfind k g) as [m|]; [eauto|discriminate]. }
    destruct Hm as [m Hm].
    unfold edge_text, write_edge_symbol, edge_order, edge_attrs, node_flag, node_attrs, stext, esym_of, arom_of, node_get, order_of, edge_get, edge_attrs.
    rewrite Hf, Hg, Hm. cbn [bind]. rewrite Eo.
    assert (C : z = 0 \/ z = 1 \/ z = 2 \/ z = 3 \/ z = 4) by lia.
    destruct (aget (S "aromatic") (na n)) as [vp|]; [destruct (truthy vp)|]; cbn [bind andb];
      rewrite ?Hm; cbn [bind];
      try (destruct (aget (S "aromatic") (na m)) as [vk|]; [destruct (truthy vk)|]);
      cbn [bind andb]; destruct C as [->|[->|[->|[->| ->]]]]; reflexivity.
  Qed.
End Plain.

Theorem tree_graph_roundtrip : forall fo A g start,
  plain_graph g = true -> min_node g = Ok start ->
  nontree_edges g (dfs_tree g) = [] ->
  (forall k, In k (node_keys g) -> name_ok fo (name_of g k) = true) ->
  (forall k, parse_graph_base_node fo (name_of g k) = Ok (A k)) ->
  exists s T, write_cgsmiles_graph g [] = Ok s
              /\ rkey T = start /\ dfs_edges g start = Ok (redges T) /\ NoDup (rkeys T)
              /\ (forall x, reachable g start x -> In x (rkeys T))
              /\ read_cgsmiles fo s = Ok (gtree (esym_of g) A gempty 0 None 1 T).
Proof.
  intros fo A g start Hp Hmin Hnt Hok Hparse.
  assert (Hwf : graph_wf g = true) by (unfold plain_graph in Hp; now apply andb_prop in Hp as [H _]).
  destruct (graph_wf_facts g Hwf) as [Hc Hnd]. destruct (min_node_in g start Hmin) as [Hs _].
  destruct (dfs_total g start Hc Hnd Hs) as [es Ees].
  destruct (dfs_reaches_all g start es Ees) as [T (A1 & A2 & A3 & A4 & A5)]. subst es.
  destruct (dfs_shape g start _ Ees) as [T' (B1 & B2 & _ & _ & B5 & _)].
  assert (Hkeys : forall k, In k (rkeys T) -> In k (node_keys g)).
  { intros k Hk. destruct T as [k0 cs]. cbn [rkey] in A1. subst k0. destruct Hk as [<-|Hk]; [assumption|].
    change (flat_map rkeys cs) with (tl (rkeys (RNode start cs))) in Hk. rewrite <- redges_snd in Hk.
    apply in_map_iff in Hk as [e [<- He]]. rewrite B2 in He. apply (Hc (fst e)). now apply B5. }
  destruct (tree_transcript_roundtrip fo (name_of g) (esym_of g) A T
              (node_text false (fun _ => true) g) (edge_text g) (edge_text g) (length g) A4) as [txt [W R]].
  - pose proof (NoDup_incl_length A4 Hkeys) as Hl. unfold rsize, node_keys in *. now rewrite map_length in Hl.
  - intros k Hk. apply plain_node; [assumption|now apply Hkeys].
  - intros e He. apply plain_edge; [assumption|]. rewrite B2 in He. now apply B5.
  - intros k Hk. apply Hok. now apply Hkeys.
  - exact Hparse.
  - exists (S "{" ++ txt ++ S "}"), T. repeat split; try assumption.
    unfold write_cgsmiles_graph, write_graph_cg, write_graph, write_graph_full.
    rewrite Hmin. cbn [bind]. rewrite Ees. cbn [bind]. subst start. rewrite W. reflexivity.
Qed.

(** non-vacuity: a branched tree with nested branches and every order; the hypotheses hold and the graph read
    back is the input renumbered in the order of writing (checked by the executable isomorphism test) *)
Definition ex_tree : graph :=
  WriteRound.mkg [(4, "A"); (7, "B"); (2, "C"); (9, "D"); (5, "E"); (3, "PEO")]%string
                 [(2, 4, 2); (2, 7, 0); (2, 9, 1); (9, 5, 3); (9, 3, 4)].
Example tree_roundtrip_example :
  let fo : float_oracle := fun _ => None in
  plain_graph ex_tree = true /\ min_node ex_tree = Ok 2 /\ nontree_edges ex_tree (dfs_tree ex_tree) = []
  /\ forallb (fun k => name_ok fo (name_of ex_tree k)) (node_keys ex_tree) = true
  /\ write_cgsmiles_graph ex_tree [] = Ok (S "{[#C]([#D]$([#PEO])#[#E]).([#B])=[#A]}")
  /\ WriteRound.roundtrip_code ex_tree [] = 0%nat.
Proof. cbv zeta. repeat split; vm_compute; reflexivity. Qed.
