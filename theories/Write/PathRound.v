(** PathRound: the UNBOUNDED round trip for path graphs, composed from
    - [write_path_text] (this component): a path of any length is written "{[#n0]s1[#n1]...}", and
    - [reader_sim_lin] (component Reader): the model of read_cgsmiles on a flat string of the grammar equals the
      token machine's denotation,
    plus an induction over the token machine on the path's tokens.  The graph read back is [nx_build]: the path
    with keys 0..n in the order of writing, the attributes the node parser gives for each name, and the orders
    o1..on -- built by the networkx operations add_node / add_edge. *)
From Coq Require Import String.
From Coq Require Import List Ascii ZArith Bool Lia.
From CGV Require Import Base.PyBase Base.PyVal Base.PyGen Base.NxGraph Gen.WriterGen Dialect.DialectImpl.
From CGV Require Import Write.WriteImpl Write.WriteDefs Write.WriteProofs.
From CGV Require Import Reader.ReaderImpl Reader.Grammar Reader.Lin Reader.ReaderSim.
Import ListNotations.
Open Scope Z_scope.

Definition osym_of (o : Z) : option sym :=
  if Z.eqb o 0 then Some SDot else if Z.eqb o 2 then Some SDouble else if Z.eqb o 3 then Some STriple
  else if Z.eqb o 4 then Some SQuad else None.
Definition plin (nm : pystr) (b : option sym) : lin :=
  {| l_open := false; l_name := nm; l_mult := None; l_rings := []; l_bond := b; l_close := None |}.
Fixpoint path_lins (nm : pystr) (l : list (Z * Z * pystr)) : list lin :=
  match l with
  | [] => [plin nm None]
  | (o, _, nm') :: r => plin nm (osym_of o) :: path_lins nm' r
  end.
Definition path_names (nm0 : pystr) (l : list (Z * Z * pystr)) : list pystr := nm0 :: map snd l.

Lemma zsym_osym o : 0 <= o <= 4 -> zsym o = osym_str (osym_of o).
Proof. intros H. assert (C : o = 0 \/ o = 1 \/ o = 2 \/ o = 3 \/ o = 4) by lia. destruct C as [->|[->|[->|[->| ->]]]]; reflexivity. Qed.
Lemma sym_ord_osym o : 0 <= o <= 4 -> oord (osym_of o) = o.
Proof. intros H. assert (C : o = 0 \/ o = 1 \/ o = 2 \/ o = 3 \/ o = 4) by lia. destruct C as [->|[->|[->|[->| ->]]]]; reflexivity. Qed.

Lemma lin_str_plin nm b : lin_str (plin nm b) = S "[#" ++ nm ++ S "]" ++ osym_str b.
Proof.
  unfold lin_str, lin_tail_str. cbn [plin l_open l_name l_mult l_rings l_bond l_close mult_str rings_str close_str app].
  rewrite app_nil_r. cbn [S list_ascii_of_string app]. reflexivity.
Qed.
(** the text the writer produces is the flat string of [path_lins] *)
Lemma path_text_lins : forall l nm sprev, Forall (fun x => 0 <= fst (fst x) <= 4) l ->
  path_text sprev nm l = sprev ++ lins_str (path_lins nm l).
Proof.
  induction l as [|[[o k] nm'] r IH]; intros nm sprev Ho.
  - cbn [path_text path_lins lins_str flat_map]. rewrite lin_str_plin. cbn [osym_str]. now rewrite !app_nil_r.
  - pose proof (Forall_inv Ho) as H1. pose proof (Forall_inv_tail Ho) as H2. cbn [fst] in H1.
    cbn [path_text path_lins]. rewrite IH by assumption. rewrite zsym_osym by assumption.
    unfold lins_str. cbn [flat_map]. rewrite lin_str_plin. rewrite <- !app_assoc. reflexivity.
Qed.

Lemma path_lins_ok fo : forall l nm, Forall (fun n => name_ok fo n = true) (path_names nm l) ->
  forallb (lin_ok fo) (path_lins nm l) = true /\ (forall d, lin_depth d (path_lins nm l) = true)
  /\ match path_lins nm l with i :: _ => l_open i = false | [] => True end.
Proof.
  induction l as [|[[o k] nm'] r IH]; intros nm Hn; unfold path_names in Hn.
  - pose proof (Forall_inv Hn) as H1. cbn. unfold lin_ok. cbn. rewrite H1. repeat split.
  - pose proof (Forall_inv Hn) as H1. pose proof (Forall_inv_tail Hn) as H2. cbn [map snd] in H2.
    destruct (IH nm' H2) as [A [B _]]. cbn [path_lins forallb]. split; [|split].
    + rewrite A. unfold lin_ok. cbn [plin l_name l_rings l_mult l_close l_bond forallb]. rewrite H1. reflexivity.
    + intros d. cbn [lin_depth plin l_open l_close]. apply B.
    + reflexivity.
Qed.

(** the graph the reader builds for the path: keys 0..n in the order of writing *)
Fixpoint nx_build_from (A : pystr -> attrs) (g : graph) (next prevk : Z) (l : list (Z * Z * pystr)) : graph :=
  match l with
  | [] => g
  | (o, _, nm) :: r => nx_build_from A (add_edge (add_node g next (A nm)) prevk next (eorder o)) (next + 1) next r
  end.
Definition nx_build (A : pystr -> attrs) (nm0 : pystr) (l : list (Z * Z * pystr)) : graph :=
  nx_build_from A (add_node gempty 0 (A nm0)) 1 0 l.

Lemma m_run_path fo A : forall l nm x,
  Forall (fun n => parse_graph_base_node fo n = Ok (A n)) (path_names nm l) ->
  Forall (fun y => 0 <= fst (fst y) <= 4) l ->
  m_run fo (lins_toks (path_lins nm l)) x
  = Ok {| m_g := nx_build_from A (let g1 := add_node (m_g x) (m_next x) (A nm) in
                                  match m_prev x with Some p => add_edge g1 p (m_next x) (eorder (m_pend x)) | None => g1 end)
                               (m_next x + 1) (m_next x) l;
          m_next := m_next x + 1 + Z.of_nat (length l); m_prev := Some (m_next x + Z.of_nat (length l));
          m_pend := 1; m_stack := m_stack x; m_rings := m_rings x |}.
Proof.
  induction l as [|[[o k] nm'] r IH]; intros nm x Hp Ho; unfold path_names in Hp.
  - pose proof (Forall_inv Hp) as H1.
    cbn [path_lins lins_toks flat_map lin_toks plin l_open l_name l_mult l_rings l_bond l_close mult_val map osym_tok app m_run m_step].
    rewrite H1. cbn [bind m_copies nx_build_from length Z.of_nat]. rewrite !Z.add_0_r. reflexivity.
  - pose proof (Forall_inv Hp) as H1. pose proof (Forall_inv_tail Hp) as H2. cbn [map snd] in H2.
    pose proof (Forall_inv Ho) as O1. pose proof (Forall_inv_tail Ho) as O2. cbn [fst] in O1.
    cbn [path_lins lins_toks flat_map]. fold (lins_toks (path_lins nm' r)).
    unfold lin_toks at 1. cbn [plin l_open l_name l_mult l_rings l_bond l_close mult_val map app].
    cbn [m_run m_step]. rewrite H1. cbn [bind m_copies].
    set (g2 := match m_prev x with Some p => add_edge (add_node (m_g x) (m_next x) (A nm)) p (m_next x) (eorder (m_pend x))
                               | None => add_node (m_g x) (m_next x) (A nm) end).
    (* the optional symbol token sets the pending order to o *)
    assert (E : m_run fo (osym_tok (osym_of o) ++ lins_toks (path_lins nm' r))
                      {| m_g := g2; m_next := m_next x + 1; m_prev := Some (m_next x); m_pend := 1;
                         m_stack := m_stack x; m_rings := m_rings x |}
                = m_run fo (lins_toks (path_lins nm' r))
                      {| m_g := g2; m_next := m_next x + 1; m_prev := Some (m_next x); m_pend := o;
                         m_stack := m_stack x; m_rings := m_rings x |}).
    { assert (C : o = 0 \/ o = 1 \/ o = 2 \/ o = 3 \/ o = 4) by lia. destruct C as [->|[->|[->|[->| ->]]]]; reflexivity. }
    rewrite app_nil_r. rewrite E. rewrite (IH nm' _ H2 O2). cbn [m_g m_next m_prev m_pend m_stack m_rings nx_build_from length].
    f_equal. f_equal; [|f_equal]; lia.
Qed.

(** C07 for paths of ANY length: what the writer (model) writes for a path graph is read (reader model, via the
    reader's simulation theorem) as the same path, numbered 0..n along the path, with the same names' attributes
    and the same orders.  Hypotheses on names: the reader's grammar accepts them ([name_ok]) and the node parser
    returns [A name] (for plain names: fragname = name plus the default weight and charge; see the Example). *)
Theorem path_roundtrip : forall fo A k0 nm0 (l : list (Z * Z * pystr)),
  NoDup (k0 :: rest_keys (mk_rest l)) -> (forall x, In x (rest_keys (mk_rest l)) -> k0 <= x) ->
  Forall (fun x => 0 <= fst (fst x) <= 4) l ->
  Forall (fun n => name_ok fo n = true) (path_names nm0 l) ->
  Forall (fun n => parse_graph_base_node fo n = Ok (A n)) (path_names nm0 l) ->
  exists s, write_cgsmiles_graph (path_graph k0 (name_attrs nm0) (mk_rest l)) [] = Ok s
            /\ read_cgsmiles fo s = Ok (nx_build A nm0 l).
Proof.
  intros fo A k0 nm0 l ND Hmin Ho Hn Hp.
  exists (S "{" ++ path_text [] nm0 l ++ S "}"). split; [now apply write_path_text|].
  rewrite path_text_lins by assumption. cbn [app S list_ascii_of_string].
  destruct (path_lins_ok fo l nm0 Hn) as [A1 [A2 A3]].
  rewrite reader_sim_lin.
  - unfold denote_lin. rewrite (m_run_path fo A l nm0 m_init Hp Ho). reflexivity.
  - unfold lins_ok. rewrite A1, A2. cbn [andb]. destruct (path_lins nm0 l) as [|i t]; [reflexivity|]. now rewrite A3.
Qed.

Definition plain_attrs (nm : pystr) : attrs := [(S "fragname", VStr nm); (S "charge", VFlt (S "0.0")); (S "weight", VFlt (S "1.0"))].
Example path_roundtrip_example :
  let fo : float_oracle := fun _ => None in
  let l := [(2, 5, S "B"); (1, 3, S "PEO"); (0, 9, S "x_1")] in
  Forall (fun n => name_ok fo n = true) (path_names (S "A") l)
  /\ Forall (fun n => parse_graph_base_node fo n = Ok (plain_attrs n)) (path_names (S "A") l)
  /\ read_cgsmiles fo (S "{[#A]=[#B][#PEO].[#x_1]}") = Ok (nx_build plain_attrs (S "A") l)
  /\ observe_named (nx_build plain_attrs (S "A") l)
     = Some ([(0, S "A"); (1, S "B"); (2, S "PEO"); (3, S "x_1")], [(0, 1, 2); (1, 2, 1); (2, 3, 0)]).
Proof.
  cbv zeta. split; [|split; [|split]].
  - unfold path_names. cbn [map snd]. repeat (apply Forall_cons; [vm_compute; reflexivity|]). apply Forall_nil.
  - unfold path_names. cbn [map snd]. repeat (apply Forall_cons; [vm_compute; reflexivity|]). apply Forall_nil.
  - vm_compute. reflexivity.
  - vm_compute. reflexivity.
Qed.
