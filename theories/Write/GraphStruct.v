(** GraphStruct: structure of the graph a log of node/edge additions builds ([GraphOps.replay]): its node list is the
    log's node list, it is a well-formed graph ([graph_wf]) whose edge dicts are {order: z}; and, for every
    well-formed graph, what G.edges lists: each adjacency entry from one of its ends, no unordered pair twice. *)
From Coq Require Import String.
From Coq Require Import List Ascii ZArith Bool Lia.
From CGV Require Import Base.PyBase Base.PyVal Base.NxGraph.
From CGV Require Import Write.WriteImpl Write.WriteDefs Write.TreeWrite Write.RingMarkers Write.WfFacts Write.ConnFacts Write.TreeRound Write.GraphOps Write.RingInv Write.FullIso Write.FullRound Write.ContractBridge.
From CGV Require Import Reader.Grammar Reader.GraphLemmas.
Import ListNotations.
Open Scope Z_scope.

Lemma NoDup_nodupz l : NoDup l -> nodupz l = true.
Proof.
  induction 1 as [|x l Hx _ IH]; [reflexivity|]. cbn [nodupz]. rewrite IH, andb_true_r. apply negb_true_iff.
  destruct (memz x l) eqn:E; [|reflexivity]. exfalso. apply Hx. now apply memz_true.
Qed.

(** ------------------------------------------------------------------ adjacency and [ea] *)
Lemma adj_get_of_in v a l : NoDup (map fst l) -> In (v, a) l -> adj_get v l = Some a.
Proof.
  induction l as [|[w b] l IH]; intros ND H; [contradiction|]. cbn [map fst] in ND. inversion ND as [|? ? Hw ND']; subst. cbn [adj_get].
  destruct H as [E|H]; [inversion E; subst; now rewrite Z.eqb_refl|].
  destruct (Z.eqb_spec w v) as [->|N]; [exfalso; apply Hw; change v with (fst (v, a)); now apply in_map|now apply IH].
Qed.
Lemma ea_of_in G n v a : NoDup (node_keys G) -> In n G -> NoDup (map fst (nadj n)) -> In (v, a) (nadj n) -> ea G (nk n) v = Some a.
Proof. intros ND Hn Ha Hv. unfold ea, edge_attrs. now rewrite (gfind_unique G n ND Hn), (adj_get_of_in v a _ Ha Hv). Qed.
Lemma in_of_ea G x y a : ea G x y = Some a -> exists n, In n G /\ nk n = x /\ In (y, a) (nadj n).
Proof.
  unfold ea, edge_attrs. destruct (gfind x G) as [n|] eqn:E; [|discriminate]. destruct (adj_get y (nadj n)) as [d|] eqn:Ed; [|discriminate].
  intros [= <-]. destruct (gfind_some x G n E) as [H1 H2]. exists n. split; [exact H1|]. split; [exact H2|]. now apply adj_get_in'.
Qed.

Definition single_order (a : attrs) : Prop := exists z, a = eorder z.
Record GWo (G : graph) : Prop := {
  gw_keys : NoDup (node_keys G);
  gw_adj : forall n, In n G -> NoDup (map fst (nadj n));
  gw_sym : forall x y a, ea G x y = Some a -> x <> y /\ ea G y x = Some a /\ single_order a }.

Lemma GWo_bool G : GWo G -> graph_wf G = true.
Proof.
  intros [K A Sy]. unfold graph_wf. rewrite (NoDup_nodupz _ K). cbn [andb]. apply forallb_forall. intros n Hn.
  rewrite (NoDup_nodupz _ (A n Hn)). cbn [andb]. apply forallb_forall. intros [v a] Hv. cbn [fst snd].
  destruct (Sy (nk n) v a (ea_of_in G n v a K Hn (A n Hn) Hv)) as (N & E & [z ->]).
  apply andb_true_intro. split; [apply negb_true_iff; apply Z.eqb_neq; congruence|].
  unfold ea in E. destruct (edge_attrs G v (nk n)) as [d|]; [|discriminate]. inversion E; subst d.
  cbn. now rewrite Z.eqb_refl.
Qed.

Lemma GWo_empty : GWo gempty.
Proof. constructor; [constructor|intros n []|intros x y a H; discriminate]. Qed.

Lemma node_keys_gupdate k f g : keeps_key f -> node_keys (gupdate k f g) = node_keys g.
Proof.
  intros Hf. unfold node_keys. induction g as [|n r IH]; [reflexivity|]. cbn [gupdate]. destruct (Z.eqb (nk n) k); cbn [map]; [now rewrite Hf|now rewrite IH].
Qed.
Lemma in_gupdate k f g n' : In n' (gupdate k f g) -> In n' g \/ exists n, In n g /\ n' = f n.
Proof.
  induction g as [|n r IH]; [intros []|]. cbn [gupdate]. destruct (Z.eqb (nk n) k).
  - intros [<-|H]; [right; exists n; split; [now left|reflexivity]|left; now right].
  - intros [<-|H]; [left; now left|]. destruct (IH H) as [H1|[m [H1 H2]]]; [left; now right|right; exists m; split; [now right|exact H2]].
Qed.
Lemma adj_set_nodup v d l : NoDup (map fst l) -> NoDup (map fst (adj_set v d l)).
Proof.
  induction l as [|[w b] l IH]; intros ND; cbn [adj_set].
  - cbn. constructor; [tauto|constructor].
  - cbn [map fst] in ND. inversion ND as [|? ? Hw ND']; subst. destruct (Z.eqb_spec w v) as [->|N]; cbn [map fst].
    + constructor; assumption.
    + constructor; [|now apply IH]. intros Hin. apply in_map_iff in Hin as [[x e] [Ex Hx]]. cbn [fst] in Ex. subst x.
      assert (Hk : In w (map fst l) \/ w = v).
      { clear - Hx. induction l as [|[w2 b2] l IHl]; cbn [adj_set] in Hx.
        - destruct Hx as [E|[]]. inversion E. now right.
        - destruct (Z.eqb_spec w2 v) as [->|N2].
          + destruct Hx as [E|Hx]; [inversion E; subst; left; now left|left; right; change w with (fst (w, e)); now apply in_map].
          + destruct Hx as [E|Hx]; [inversion E; subst; left; now left|]. destruct (IHl Hx) as [H|H]; [left; now right|now right]. }
      destruct Hk as [Hk|Hk]; [contradiction|congruence].
Qed.

Lemma GWo_add_node G k a : GWo G -> has_node G k = false ->
  GWo (add_node G k a) /\ node_keys (add_node G k a) = node_keys G ++ [k].
Proof.
  intros [K A Sy] Hk. assert (E : add_node G k a = G ++ [{| nk := k; na := a; nadj := [] |}]) by (unfold add_node; now rewrite Hk).
  assert (Hnk : ~ In k (node_keys G)).
  { intros Hin. destruct (in_keys_gfind G k Hin) as [n [Hf _]]. unfold has_node in Hk. now rewrite Hf in Hk. }
  split; [|rewrite E; unfold node_keys; now rewrite map_app].
  constructor.
  - rewrite E. unfold node_keys. rewrite map_app. cbn [map nk]. fold (node_keys G).
    apply nodup_snoc; assumption.
  - rewrite E. intros n Hn. apply in_app_or in Hn as [Hn|[<-|[]]]; [now apply A|constructor].
  - intros x y d. rewrite !ea_add_node. apply Sy.
Qed.

Lemma aupdate_single old o : old = [] \/ single_order old -> aupdate old (eorder o) = eorder o.
Proof. intros [->|[z ->]]; reflexivity. Qed.

Lemma GWo_add_edge G u v o : GWo G -> has_node G u = true -> has_node G v = true -> u <> v ->
  GWo (add_edge G u v (eorder o)) /\ node_keys (add_edge G u v (eorder o)) = node_keys G.
Proof.
  intros [K A Sy] Hu Hv Huv.
  assert (Ek : node_keys (add_edge G u v (eorder o)) = node_keys G).
  { unfold add_edge. rewrite Hu, Hv. rewrite !node_keys_gupdate by (intros n; reflexivity). reflexivity. }
  assert (Ea : forall n, In n (add_edge G u v (eorder o)) -> NoDup (map fst (nadj n))).
  { unfold add_edge. rewrite Hu, Hv. intros n Hn.
    apply in_gupdate in Hn as [Hn|[m [Hm ->]]].
    - apply in_gupdate in Hn as [Hn|[m [Hm ->]]]; [now apply A|]. cbn [nadj]. apply adj_set_nodup. now apply A.
    - cbn [nadj]. apply adj_set_nodup. apply in_gupdate in Hm as [Hm|[m2 [Hm2 ->]]]; [now apply A|]. cbn [nadj]. apply adj_set_nodup. now apply A. }
  split; [|exact Ek]. constructor.
  - now rewrite Ek.
  - exact Ea.
  - intros x y a. rewrite !(ea_add_edge G u v (eorder o)) by assumption.
    assert (Eo : aupdate (match ea G u v with Some d => d | None => [] end) (eorder o) = eorder o).
    { apply aupdate_single. destruct (ea G u v) as [d|] eqn:E; [right; exact (proj2 (proj2 (Sy u v d E)))|now left]. }
    rewrite Eo. assert (Ess : same_edge (y, x) (u, v) = same_edge (x, y) (u, v)).
    { unfold same_edge. cbn [fst snd]. destruct (Z.eqb x u), (Z.eqb y v), (Z.eqb x v), (Z.eqb y u); reflexivity. }
    rewrite Ess. destruct (same_edge (x, y) (u, v)) eqn:Es.
    + intros [= <-]. split; [|split; [reflexivity|now exists o]].
      unfold same_edge in Es. cbn [fst snd] in Es. apply orb_prop in Es as [Es|Es]; apply andb_prop in Es as [E1 E2];
        apply Z.eqb_eq in E1, E2; subst; congruence.
    + apply Sy.
Qed.

(** the graph a well-formed log builds *)
Theorem replay_struct : forall L G seen, GWo G -> (forall z, has_node G z = memz z seen) -> log_wf seen L ->
  GWo (replay L G) /\ node_keys (replay L G) = node_keys G ++ log_nodes L.
Proof.
  induction L as [|op L IH]; intros G seen HG Hs HL; cbn [replay fold_left log_nodes flat_map].
  - now rewrite app_nil_r.
  - fold (replay L (apply_op G op)). destruct op as [k a|u v o]; cbn [log_wf] in HL; cbn [apply_op].
    + destruct HL as [Hk HL]. assert (Hn : has_node G k = false).
      { rewrite Hs. destruct (memz k seen) eqn:E; [|reflexivity]. exfalso. apply Hk. now apply memz_true. }
      destruct (GWo_add_node G k a HG Hn) as [HG' Ek].
      destruct (IH (add_node G k a) (k :: seen) HG') as [H1 H2].
      * intros z. rewrite has_node_add_node, Hs, memz_cons. rewrite (Z.eqb_sym z k). apply orb_comm.
      * exact HL.
      * split; [exact H1|]. rewrite H2, Ek, <- app_assoc. reflexivity.
    + destruct HL as (Iu & Iv & Nuv & HL).
      assert (Hu : has_node G u = true) by (rewrite Hs; now apply memz_true).
      assert (Hv : has_node G v = true) by (rewrite Hs; now apply memz_true).
      destruct (GWo_add_edge G u v o HG Hu Hv Nuv) as [HG' Ek].
      destruct (IH (add_edge G u v (eorder o)) seen HG') as [H1 H2].
      * intros z. rewrite has_node_add_edge, Hs.
        destruct (Z.eqb_spec u z) as [<-|]; [rewrite (proj2 (memz_true u seen) Iu); reflexivity|].
        destruct (Z.eqb_spec v z) as [<-|]; [rewrite (proj2 (memz_true v seen) Iv); reflexivity|].
        now rewrite !orb_false_r.
      * exact HL.
      * split; [exact H1|]. now rewrite H2, Ek.
Qed.

(** ------------------------------------------------------------------ G.edges lists no unordered pair twice *)
Lemma nodup_edges_app a b : nodup_edges a = true -> nodup_edges b = true -> (forall x, In x a -> edge_mem x b = false) ->
  nodup_edges (a ++ b) = true.
Proof.
  induction a as [|e a IH]; intros Ha Hb Hx; [exact Hb|]. cbn [app nodup_edges] in *. apply andb_prop in Ha as [H1 H2].
  apply andb_true_intro. split.
  - apply negb_true_iff. unfold edge_mem in *. rewrite existsb_app. apply negb_true_iff in H1. rewrite H1. apply (Hx e). now left.
  - apply IH; auto. intros x Hin. apply Hx. now right.
Qed.
Lemma edges_from_not_seen : forall l seen u w a, In (u, w, a) (edges_from l seen) -> ~ In w seen.
Proof.
  induction l as [|n l IH]; intros seen u w a H; [contradiction|]. cbn [edges_from] in H. apply in_app_or in H as [H|H].
  - apply in_flat_map in H as [[w' a'] [_ H]]. cbn [fst snd] in H. destruct (existsb (Z.eqb w') seen) eqn:E; [contradiction|].
    destruct H as [H|[]]. inversion H; subst. intros Hin. assert (existsb (Z.eqb w) seen = true); [|congruence].
    apply existsb_exists. exists w. split; [exact Hin|apply Z.eqb_refl].
  - intros Hin. apply (IH _ _ _ _ H). now right.
Qed.
Definition epair (e : Z * Z * attrs) : Z * Z := (fst (fst e), snd (fst e)).
Lemma entries_nodup k seen : forall r, NoDup (map fst r) -> (forall w a, In (w, a) r -> w <> k) ->
  nodup_edges (map epair (flat_map (fun wa : Z * attrs => if existsb (Z.eqb (fst wa)) seen then [] else [(k, fst wa, snd wa)]) r)) = true.
Proof.
  induction r as [|[w a] r IHr]; intros Hnd Hs; [reflexivity|]. cbn [flat_map]. rewrite map_app.
  cbn [map fst] in Hnd. inversion Hnd as [|? ? Hw Hnd']; subst.
  apply nodup_edges_app.
  - cbn [fst snd]. destruct (existsb (Z.eqb w) seen); reflexivity.
  - apply IHr; [exact Hnd'|intros w' a' H'; apply (Hs w' a'); now right].
  - intros x Hx. cbn [fst snd] in Hx. destruct (existsb (Z.eqb w) seen); [contradiction|]. destruct Hx as [<-|[]]. cbn [epair fst snd].
    unfold edge_mem. destruct (existsb _ _) eqn:E; [|reflexivity]. exfalso. apply existsb_exists in E as [y [Hy Sy]].
    apply in_map_iff in Hy as [[[u' w'] a'] [<- Hy]]. cbn [epair fst snd] in Sy. apply in_flat_map in Hy as [[w2 a2] [Hw2 Hy]].
    cbn [fst snd] in Hy. destruct (existsb (Z.eqb w2) seen); [contradiction|]. destruct Hy as [Hy|[]].
    injection Hy as E1 E2 E3. subst u' w' a'. unfold epair in Sy. cbn [fst snd] in Sy.
    destruct (same_edge_touch _ _ _ _ Sy) as [[_ Ew]|[_ Ew]].
    + apply Hw. rewrite Ew. change w2 with (fst (w2, a2)). now apply in_map.
    + apply (Hs w a); [now left|exact Ew].
Qed.
Lemma edges_from_nodup : forall l seen, NoDup (map nk l) -> (forall n, In n l -> NoDup (map fst (nadj n))) ->
  (forall n w a, In n l -> In (w, a) (nadj n) -> w <> nk n) ->
  nodup_edges (map epair (edges_from l seen)) = true.
Proof.
  induction l as [|n l IH]; intros seen ND HA HS; [reflexivity|]. cbn [edges_from]. rewrite map_app.
  cbn [map] in ND. inversion ND as [|? ? Hn ND']; subst.
  apply nodup_edges_app.
  - apply entries_nodup; [apply HA; now left|intros w a; apply HS; now left].
  - apply IH; [exact ND'|intros m Hm; apply HA; now right|intros m w a Hm; apply HS; now right].
  - intros x Hx. apply in_map_iff in Hx as [[[u w] a] [<- Hx]]. apply in_flat_map in Hx as [[w2 a2] [Hw2 Hx]].
    cbn [fst snd] in Hx. destruct (existsb (Z.eqb w2) seen); [contradiction|]. destruct Hx as [Hx|[]].
    injection Hx as E1 E2 E3. subst u w a. unfold epair at 1. cbn [fst snd].
    unfold edge_mem. destruct (existsb _ _) eqn:E; [|reflexivity]. exfalso. apply existsb_exists in E as [y [Hy Sy]].
    apply in_map_iff in Hy as [[[u' w'] a'] [<- Hy]]. unfold epair in Sy. cbn [fst snd] in Sy.
    destruct (edges_from_sound _ _ _ _ _ Hy) as [m (Hm & Em & _)]. pose proof (edges_from_not_seen _ _ _ _ _ Hy) as Hns.
    destruct (same_edge_touch _ _ _ _ Sy) as [[E1 _]|[E1 _]].
    + apply Hn. rewrite E1, <- Em. now apply in_map.
    + apply Hns. left. exact E1.
Qed.
Lemma edges_list_nodup G : graph_wf G = true -> nodup_edges (edges_list G) = true.
Proof.
  intros Hwf. destruct (graph_wf_facts G Hwf) as [_ ND]. unfold edges_list, edges_data.
  change (fun e : Z * Z * attrs => (fst (fst e), snd (fst e))) with epair. apply edges_from_nodup; [exact ND| |];
    unfold graph_wf in Hwf; apply andb_prop in Hwf as [_ H]; rewrite forallb_forall in H.
  - intros n Hn. specialize (H n Hn). apply andb_prop in H as [H _]. now apply nodupz_NoDup.
  - intros n w a Hn Hw. specialize (H n Hn). apply andb_prop in H as [_ H]. rewrite forallb_forall in H. specialize (H (w, a) Hw).
    apply andb_prop in H as [H _]. apply negb_true_iff in H. now apply Z.eqb_neq in H.
Qed.

(** counting unordered pairs *)
Lemma nodup_edges_le : forall l1 l2, nodup_edges l1 = true ->
  (forall e, In e l1 -> exists e', In e' l2 /\ same_edge e e' = true) -> (length l1 <= length l2)%nat.
Proof.
  induction l1 as [|e r IH]; intros l2 Hn H; [cbn; lia|]. cbn [nodup_edges] in Hn. apply andb_prop in Hn as [H1 H2].
  destruct (H e (or_introl eq_refl)) as [e' [He' Se]]. apply in_split in He' as [p [q ->]].
  assert (length r <= length (p ++ q))%nat.
  { apply IH; [exact H2|]. intros x Hx. destruct (H x (or_intror Hx)) as [x' [Hx' Sx]]. exists x'. split; [|exact Sx].
    apply in_app_or in Hx' as [Hx'|[<-|Hx']]; [apply in_or_app; now left| |apply in_or_app; now right].
    exfalso. apply negb_true_iff in H1. assert (edge_mem e r = true); [|congruence]. apply existsb_exists. exists x. split; [exact Hx|].
    apply (same_edge_trans e x e'); assumption. }
  rewrite app_length in *. cbn [length]. lia.
Qed.
