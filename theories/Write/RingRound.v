(** RingRound: graph level.  For every plain graph (rings allowed) and every ring transcript whose bonds are graph
    edges: write_cgsmiles_graph g tr is read by the reader model as the token machine's denotation of the writer's
    own item list (DFS tree + ring items in the order of writing).  No pattern is excluded any more: the former
    exception (a `%nn` marker followed by a one-digit marker on one node) is not written since fix b681517.
    The last step "denote_lin items is isomorphic to g" is FullRound.C07_roundtrip. *)
From Coq Require Import String.
From Coq Require Import List Ascii ZArith Bool Lia.
From CGV Require Import Base.PyBase Base.PyVal Base.PyGen Base.NxGraph Gen.WriterGen Dialect.DialectImpl.
From CGV Require Import Write.WriteImpl Write.WriteDefs Write.TreeDefs Write.TreeWrite Write.TreeTables Write.DfsProofs Write.WfFacts
     Write.TreeRead Write.PathRound Write.TreeRound Write.RingDefs Write.RingWrite Write.RingTables Write.RingRead.
From CGV Require Import Reader.ReaderImpl Reader.Grammar Reader.Lin Reader.ReaderSim.
Import ListNotations.
Open Scope Z_scope.

Definition rsym_of (g : graph) (tr : list (Z * Z)) (ri : nat) : option sym :=
  match nth_error tr (ri - 1) with Some bond => esym_of g (fst bond) (snd bond) | None => None end.

Theorem graph_text_is_read : forall fo g tr start,
  plain_graph g = true -> min_node g = Ok start ->
  (forall bond, In bond tr -> In (snd bond) (neighbors g (fst bond))) ->
  (forall k, In k (node_keys g) -> name_ok fo (name_of g k) = true) ->
  exists T, rkey T = start /\ dfs_edges g start = Ok (redges T) /\ NoDup (rkeys T) /\
    let items := fst (tlinsR (name_of g) (esym_of g) (rlist_of tr) (rsym_of g tr) false 0 None [] T) in
    exists s, write_cgsmiles_graph g tr = Ok s /\ read_cgsmiles fo s = denote_lin fo items.
Proof.
  intros fo g tr start Hp Hmin Htr Hok.
  assert (Hwf : graph_wf g = true) by (unfold plain_graph in Hp; now apply andb_prop in Hp as [H _]).
  destruct (graph_wf_facts g Hwf) as [Hc Hnd]. destruct (min_node_in g start Hmin) as [Hs _].
  destruct (dfs_total g start Hc Hnd Hs) as [es Ees].
  destruct (dfs_shape g start es Ees) as [T (A1 & A2 & _ & A4 & A5 & _)]. subst es.
  exists T. split; [assumption|]. split; [assumption|]. split; [assumption|]. cbv zeta.
  assert (Hkeys : forall k, In k (rkeys T) -> In k (node_keys g)).
  { intros k Hk. destruct T as [k0 cs]. cbn [rkey] in A1. subst k0. destruct Hk as [<-|Hk]; [assumption|].
    change (flat_map rkeys cs) with (tl (rkeys (RNode start cs))) in Hk. rewrite <- redges_snd in Hk.
    apply in_map_iff in Hk as [e [<- He]]. apply (Hc (fst e)). now apply A5. }
  destruct (written_text_is_read_by_the_machine fo (name_of g) (esym_of g) (rsym_of g tr) T tr
              (node_text false (fun _ => true) g) (edge_text g) (edge_text g) (length g) A4) as [txt [W R]].
  - pose proof (NoDup_incl_length A4 Hkeys) as Hl. unfold rsize, node_keys in *. now rewrite map_length in Hl.
  - intros k Hk. apply plain_node; [assumption|now apply Hkeys].
  - intros e He. apply plain_edge; [assumption|now apply A5].
  - intros bond Hb. eexists. apply plain_edge; [assumption|now apply Htr].
  - intros ri. unfold rsymt_of, rsymt, rsym_of. destruct (nth_error tr (ri - 1)) as [bond|] eqn:En; [|reflexivity].
    rewrite (plain_edge g Hp (fst bond) (snd bond) (Htr bond (nth_error_In _ _ En))). reflexivity.
  - intros k Hk. apply Hok. now apply Hkeys.
  - exists (S "{" ++ txt ++ S "}"). split; [|exact R].
    unfold write_cgsmiles_graph, write_graph_cg, write_graph, write_graph_full.
    rewrite Hmin. cbn [bind]. rewrite Ees. cbn [bind]. subst start. rewrite W. reflexivity.
Qed.

(** non-vacuity: the fused-ring graph of the check's corpus; the hypotheses hold (and the bounded check agrees) *)
Definition ex_rings : graph :=
  WriteRound.mkg [(0, "A"); (1, "B"); (2, "C"); (3, "D"); (4, "E"); (5, "F")]%string
                 [(0, 1, 1); (1, 2, 2); (2, 0, 3); (2, 3, 1); (3, 4, 1); (4, 5, 0); (5, 2, 1); (1, 4, 4)].
Definition ex_rings_tr : list (Z * Z) := nontree_edges ex_rings (dfs_tree ex_rings).
Example ring_example_plain : plain_graph ex_rings = true.
Proof. vm_compute. reflexivity. Qed.
Example ring_example_contract : ring_contract ex_rings (dfs_tree ex_rings) ex_rings_tr = true.
Proof. vm_compute. reflexivity. Qed.
Example ring_example_edges : forallb (fun b => memz (snd b) (neighbors ex_rings (fst b))) ex_rings_tr = true.
Proof. vm_compute. reflexivity. Qed.
Example ring_example_text : write_cgsmiles_graph ex_rings ex_rings_tr = Ok (S "{[#A]#1[#B]$2=[#C]11[#D][#E]2.[#F]1}").
Proof. vm_compute. reflexivity. Qed.
Example ring_example_roundtrip : WriteRound.roundtrip_code ex_rings ex_rings_tr = 0%nat.
Proof. vm_compute. reflexivity. Qed.
