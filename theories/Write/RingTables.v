(** RingTables: [write_graph_transcript] -- for ANY rose tree T with distinct keys (the DFS tree) and ANY list
    tr of ring edges, the serialisation loop on the tables write_graph builds writes [wtextR]: the writer's output
    for every graph, by structural recursion over the DFS tree, with the ring-marker table threaded in the order
    of writing.  With DfsProofs.dfs_shape: [write_graph_is_print] for every well-formed graph. *)
From Coq Require Import String.
From Coq Require Import List Ascii ZArith Bool Lia.
From CGV Require Import Base.PyBase Base.PyVal Base.PyGen Base.NxGraph Write.WriteImpl Write.WriteDefs Write.TreeDefs Write.TreeWrite
     Write.TreeTables Write.RingDefs Write.RingWrite Write.DfsProofs Write.WfFacts.
Import ListNotations.
Open Scope Z_scope.

(** every ring index stored in atom_to_ring_idx is a position of the ring list (1-based) *)
Lemma dl_append_vals {A} (P : A -> Prop) k (v : A) d :
  (forall k' l, In (k', l) d -> Forall P l) -> P v -> forall k' l, In (k', l) (dl_append k v d) -> Forall P l.
Proof.
  induction d as [|[k2 l2] r IH]; intros Hd Hv k' l Hin; cbn [dl_append] in Hin.
  - destruct Hin as [E|[]]. inversion E; subst. now constructor.
  - destruct (Z.eqb k k2).
    + destruct Hin as [E|Hin].
      * inversion E; subst. apply Forall_app. split; [apply (Hd k' l2); now left|now constructor].
      * apply (Hd k' l). now right.
    + destruct Hin as [E|Hin].
      * inversion E; subst. apply (Hd k' l). now left.
      * apply (IH (fun a b H => Hd a b (or_intror H)) Hv k' l Hin).
Qed.
Lemma ring_tables_vals tr k ris : dl_get k (ring_tables tr) = Some ris -> Forall (fun ri => (1 <= ri <= length tr)%nat) ris.
Proof.
  intros H. apply dl_get_some_in in H. revert k ris H. unfold ring_tables.
  assert (G : forall (l : list (nat * (Z * Z))) d, Forall (fun ie => (1 <= fst ie <= length tr)%nat) l ->
              (forall k' l', In (k', l') d -> Forall (fun ri => (1 <= ri <= length tr)%nat) l') ->
              forall k' l', In (k', l') (fold_left (fun d ie => dl_append (snd (snd ie)) (fst ie) (dl_append (fst (snd ie)) (fst ie) d)) l d) ->
                            Forall (fun ri => (1 <= ri <= length tr)%nat) l').
  { induction l as [|ie l IH]; intros d Hl Hd; cbn [fold_left]; [exact Hd|].
    apply IH; [now inversion Hl|]. inversion Hl; subst.
    apply dl_append_vals; [|assumption]. apply dl_append_vals; assumption. }
  apply G; [|intros k' l' []].
  apply Forall_forall. intros [i e] Hin. apply in_combine_l in Hin. apply in_seq in Hin. cbn [fst]. lia.
Qed.

Section TranscriptR.
  Variables (sf : bool) (fmt : Z -> res pystr) (sym rsym : Z -> Z -> res pystr) (ntext : Z -> pystr) (stext : Z -> Z -> pystr).
  Variables (es tr : list (Z * Z)).
  Let env0 := mk_env sf fmt sym rsym es [].
  Let env := mk_env sf fmt sym rsym es tr.
  Definition rlist_of (k : Z) : list nat := match dl_get k (ring_tables tr) with Some ris => ris | None => [] end.
  Definition rsymt_of (ri : nat) : pystr :=
    match nth_error tr (ri - 1) with
    | Some bond => match rsym (fst bond) (snd bond) with Ok s => s | Err _ => [] end
    | None => []
    end.
  Hypothesis Hrs : forall bond, In bond tr -> exists s, rsym (fst bond) (snd bond) = Ok s.

  Lemma tree_envR_of : forall t p, tree_env ntext stext env0 p t -> tree_envR ntext stext rlist_of rsymt_of env p t.
  Proof.
    apply (rtree_ind2 (fun t => forall p, tree_env ntext stext env0 p t -> tree_envR ntext stext rlist_of rsymt_of env p t)).
    intros k cs IH p He. cbn [TreeDefs.tree_env] in He. destruct He as (Hp & Hs & _ & Hf & Hy & Hall).
    cbn [RingDefs.tree_envR]. split; [exact Hp|]. split; [exact Hs|]. split; [reflexivity|]. split; [|split; [exact Hf|split; [exact Hy|]]].
    - intros ri Hri. unfold rlist_of in Hri. destruct (dl_get k (ring_tables tr)) as [ris|] eqn:E; [|contradiction].
      pose proof (ring_tables_vals tr k ris E) as Hv. rewrite Forall_forall in Hv. specialize (Hv ri Hri).
      destruct (nth_error tr (ri - 1)) as [bond|] eqn:En.
      + exists bond. split; [exact En|]. unfold rsymt_of. rewrite En.
        destruct (Hrs bond (nth_error_In _ _ En)) as [s Hs']. cbn [e_rsym env mk_env]. now rewrite Hs'.
      + apply nth_error_None in En. lia.
    - clear - IH Hall. induction cs as [|c r IHr]; [exact I|]. destruct Hall as [Hc Hr]. split.
      + apply (Forall_inv IH). exact Hc.
      + apply IHr; [exact (Forall_inv_tail IH)|exact Hr].
  Qed.
End TranscriptR.

(** the serialisation of ANY transcript: DFS tree T (distinct keys) and ring list tr *)
Theorem write_graph_transcript : forall sf fmt sym rsym ntext stext T tr n,
  NoDup (rkeys T) -> (rsize T <= n)%nat ->
  (forall k, In k (rkeys T) -> fmt k = Ok (ntext k)) ->
  (forall e, In e (redges T) -> sym (fst e) (snd e) = Ok (stext (fst e) (snd e))) ->
  (forall bond, In bond tr -> exists s, rsym (fst bond) (snd bond) = Ok s) ->
  run_writer n (mk_env sf fmt sym rsym (redges T) tr) (rkey T)
  = Ok (let '(tx, mk', trc) := wtextR sf ntext stext (rlist_of tr) (rsymt_of rsym tr) None false 0 [] T in
        {| r_text := tx; r_visit := worder T; r_mtrace := trc |}).
Proof.
  intros sf fmt sym rsym ntext stext T tr n ND Hn Hf Hs Hr.
  assert (NDs : NoDup (map snd (redges T))).
  { rewrite redges_snd. destruct T as [k cs]. cbn [rkeys tl] in *. now inversion ND. }
  pose proof (tree_env_tables sf fmt sym rsym ntext stext (redges T) NDs T eq_refl ND Hf Hs) as He0.
  pose proof (tree_envR_of sf fmt sym rsym ntext stext (redges T) tr Hr T None He0) as He.
  unfold run_writer, winit.
  change {| w_stack := [rkey T]; w_branches := []; w_depth := 0; w_out := []; w_marks := []; w_visit := []; w_mtrace := [] |}
    with (mkw [rkey T] [] 0 [] [] [] []).
  replace (Datatypes.S n) with (rsize T + (Datatypes.S n - rsize T))%nat by lia.
  rewrite (wloop_treeR sf ntext stext (rlist_of tr) (rsymt_of rsym tr) (mk_env sf fmt sym rsym (redges T) tr) eq_refl
             T None false 0%nat _ [] [] [] [] [] [] He ND eq_refl) by (intros x _ []).
  destruct (wtextR sf ntext stext (rlist_of tr) (rsymt_of rsym tr) None false 0 [] T) as [[tx mk'] trc].
  rewrite wloop_done. cbn [bind mkw w_out w_depth w_visit w_mtrace dout Nat.sub repeat concat app rev].
  rewrite !app_nil_r, !rev_involutive. reflexivity.
Qed.

(** hence for EVERY well-formed graph on which formatting succeeds: write_graph is the recursive printer of its
    own DFS tree with the ring markers threaded in the order of writing *)
Theorem write_graph_is_print : forall sf dh g tr start,
  graph_wf g = true -> min_node g = Ok start ->
  (forall k, In k (node_keys g) -> exists s, node_text sf dh g k = Ok s) ->
  (forall p k, In k (neighbors g p) -> exists s, edge_text g p k = Ok s) ->
  (forall bond, In bond tr -> exists s, edge_text g (fst bond) (snd bond) = Ok s) ->
  exists T, rkey T = start /\ dfs_edges g start = Ok (redges T) /\ NoDup (rkeys T) /\
    let ntext := fun k => match node_text sf dh g k with Ok s => s | Err _ => [] end in
    let stext := fun p k => match edge_text g p k with Ok s => s | Err _ => [] end in
    write_graph_full sf dh g tr
    = Ok (let '(tx, mk', trc) := wtextR sf ntext stext (rlist_of tr) (rsymt_of (edge_text g) tr) None false 0 [] T in
          {| r_text := tx; r_visit := worder T; r_mtrace := trc |}).
Proof.
  intros sf dh g tr start Hwf Hmin Hn He Hr.
  destruct (graph_wf_facts g Hwf) as [Hc Hnd]. destruct (min_node_in g start Hmin) as [Hs _].
  destruct (dfs_total g start Hc Hnd Hs) as [es Ees].
  destruct (dfs_shape g start es Ees) as [T (A1 & A2 & _ & A4 & A5 & _)]. subst es.
  exists T. repeat split; try assumption. cbv zeta.
  assert (Hkeys : forall k, In k (rkeys T) -> In k (node_keys g)).
  { intros k Hk. destruct T as [k0 cs]. cbn [rkey] in A1. subst k0. destruct Hk as [<-|Hk]; [assumption|].
    change (flat_map rkeys cs) with (tl (rkeys (RNode start cs))) in Hk. rewrite <- redges_snd in Hk.
    apply in_map_iff in Hk as [e [<- He']]. apply (Hc (fst e)). now apply A5. }
  unfold write_graph_full. rewrite Hmin. cbn [bind]. rewrite Ees. cbn [bind]. subst start.
  apply write_graph_transcript.
  - exact A4.
  - pose proof (NoDup_incl_length A4 Hkeys) as Hl. unfold rsize, node_keys in *. now rewrite map_length in Hl.
  - intros k Hk. destruct (Hn k (Hkeys k Hk)) as [s Es]. now rewrite Es.
  - intros e Hin. destruct (He (fst e) (snd e) (A5 e Hin)) as [s Es]. now rewrite Es.
  - exact Hr.
Qed.
