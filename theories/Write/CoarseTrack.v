From Coq Require Import String.
From Coq Require Import List Ascii ZArith Bool Lia.
From CGV Require Import Base.PyBase Base.PyVal Base.PyGen Base.NxGraph Dialect.DialectImpl.
From CGV Require Import Write.WriteImpl Write.WriteDefs Write.FormatStripRound Write.TreeDefs Write.TreeRead Write.RingDefs Write.RingRead Write.CoarseGraph.
From CGV Require Import Frag.FragText Reader.Grammar Reader.Lin.
Import ListNotations.
Open Scope Z_scope.

(** ------------------------------------------------------------------ zones and depths along the writer's item list *)
Fixpoint ltrack (z : zone) (d : nat) (l : list lin) : option (zone * nat) :=
  match l with
  | [] => Some (z, d)
  | i :: r =>
      if (if l_open i then is_zatom z else true) then
        let d1 := if l_open i then Datatypes.S d else d in
        match l_close i with
        | Some _ => match d1 with O => None | Datatypes.S d2 => ltrack (zone_after i) d2 r end
        | None => ltrack (zone_after i) d1 r
        end
      else None
  end.
Lemma ltrack_app : forall a b z d, ltrack z d (a ++ b) = match ltrack z d a with Some (z', d') => ltrack z' d' b | None => None end.
Proof.
  induction a as [|i a IH]; intros b z d; [reflexivity|]. cbn [app ltrack].
  destruct (if l_open i then is_zatom z else true); [|reflexivity].
  destruct (l_close i); [destruct (if l_open i then Datatypes.S d else d); [reflexivity|apply IH]|apply IH].
Qed.
Definition item_conds (x : lin * list dspec) : Prop :=
  body_ok ("#"%char :: l_name (fst x)) = true /\ forallb d_ok (snd x) = true
  /\ forallb (fun om => FragText.marker_ok (marker_str (snd om))) (l_rings (fst x)) = true
  /\ (match l_close (fst x) with Some _ => has_sym (l_bond (fst x)) = false | None => True end).
Lemma dl_wf_track : forall dl z d, Forall item_conds dl -> ltrack z d (map fst dl) = Some (ZAtom, 0%nat) -> dl_wf z d dl = true.
Proof.
  induction dl as [|[i Ds] r IH]; intros z d Hc Ht.
  - cbn in Ht. inversion Ht. reflexivity.
  - cbn [map fst ltrack] in Ht. cbn [dl_wf]. destruct (Forall_inv Hc) as (C1 & C2 & C3 & C4). cbn [fst snd] in *.
    destruct (if l_open i then is_zatom z else true); [|discriminate]. rewrite C1, C2, C3. cbn [andb].
    destruct (l_close i) as [a|].
    + rewrite C4. cbn [negb andb]. destruct (if l_open i then Datatypes.S d else d) as [|d2]; [discriminate|].
      apply IH; [exact (Forall_inv_tail Hc)|exact Ht].
    + apply IH; [exact (Forall_inv_tail Hc)|exact Ht].
Qed.

Section Track.
  Variables (name : Z -> pystr) (esym : Z -> Z -> option sym) (rlist : Z -> list nat) (rsym_o : nat -> option sym).
  Notation tlinsR := (tlinsR name esym rlist rsym_o).
  Notation blinsR := (blinsR name esym rlist rsym_o).
  (** no bond symbol on an edge to a child that is written as a branch *)
  Fixpoint nosymb (t : rtree) : Prop :=
    match t with
    | RNode k cs =>
        match cs with [] => True | _ :: bs => forall b, In b bs -> esym k (rkey b) = None end
        /\ (fix all (l : list rtree) : Prop := match l with [] => True | c :: r => nosymb c /\ all r end) cs
    end.
  Definition nosymb_all (l : list rtree) : Prop :=
    (fix all (l : list rtree) : Prop := match l with [] => True | c :: r => nosymb c /\ all r end) l.
  Definition zone_of (o : option sym) : zone := if has_sym o then ZBond else ZAtom.

  Lemma ltrack_tree : forall t isb d ns mk z rest, nosymb t -> (isb = true -> z = ZAtom) ->
    ltrack z d (fst (tlinsR isb d ns mk t) ++ rest) = ltrack (zone_of ns) (dout isb d) rest.
  Proof.
    apply (rtree_ind2 (fun t => forall isb d ns mk z rest, nosymb t -> (isb = true -> z = ZAtom) ->
              ltrack z d (fst (tlinsR isb d ns mk t) ++ rest) = ltrack (zone_of ns) (dout isb d) rest)).
    intros k cs IH isb d ns mk z rest Hn Hz. destruct cs as [|c1 bs].
    - cbn [RingRead.tlinsR]. destruct (ring_items rsym_o false mk (rlist k)) as [mk1 rs]. cbn [fst app ltrack mklinR l_open l_close].
      assert (Ez : (if isb then is_zatom z else true) = true) by (destruct isb; [now rewrite (Hz eq_refl)|reflexivity]). rewrite Ez.
      unfold zone_after, zone_of, dout. cbn [mklinR l_bond l_close].
      destruct isb; cbn [Nat.ltb Nat.leb].
      + cbn [has_sym orb]. reflexivity.
      + destruct d as [|d']; cbn [Nat.ltb Nat.leb has_sym orb]; [now rewrite orb_false_r|]. replace (Datatypes.S d' - 1)%nat with d' by lia. reflexivity.
    - rewrite tlinsR_unfold. cbv zeta. set (d1 := if isb then Datatypes.S d else d).
      destruct (ring_items rsym_o false mk (rlist k)) as [mk1 rs].
      cbn [nosymb] in Hn. destruct Hn as [Hb [Hc1 Hbs]]. fold (nosymb_all bs) in Hbs.
      assert (B : forall l prev rest' , Forall (fun t => forall isb d ns mk z rest, nosymb t -> (isb = true -> z = ZAtom) ->
                      ltrack z d (fst (tlinsR isb d ns mk t) ++ rest) = ltrack (zone_of ns) (dout isb d) rest) l ->
                  nosymb_all l -> (forall b, In b l -> esym k (rkey b) = None) ->
                  ltrack (zone_of (esym k (rkey (last l prev)))) d1 (fst (blinsR k d1 mk1 prev l) ++ rest')
                  = ltrack (zone_of (esym k (rkey prev))) d1 rest').
      { induction l as [|c r IHr]; intros prev rest' Hl Hall Hsym; [reflexivity|]. rewrite blinsR_cons. rewrite last_cons.
        destruct Hall as [Hc Hr].
        specialize (IHr c). destruct (blinsR k d1 mk1 c r) as [l2 mk2]. cbn [fst] in IHr.
        pose proof (Forall_inv Hl true d1 (esym k (rkey prev)) mk2) as Hcc.
        destruct (tlinsR true d1 (esym k (rkey prev)) mk2 c) as [l1 mk3]. cbn [fst] in *.
        rewrite <- app_assoc, (IHr _ (Forall_inv_tail Hl) Hr (fun b Hb => Hsym b (or_intror Hb))).
        rewrite (Hcc (zone_of (esym k (rkey c))) rest' Hc).
        - reflexivity.
        - intros _. unfold zone_of. now rewrite (Hsym c (or_introl eq_refl)). }
      specialize (B bs c1). destruct (blinsR k d1 mk1 c1 bs) as [lb mkb]. cbn [fst] in B.
      pose proof (Forall_inv IH false d1 ns mkb) as Hcc.
      destruct (tlinsR false d1 ns mkb c1) as [lc mkc]. cbn [fst] in *.
      cbn [app ltrack mklinR l_open l_close]. fold d1.
      assert (Ez : (if isb then is_zatom z else true) = true) by (destruct isb; [now rewrite (Hz eq_refl)|reflexivity]). rewrite Ez.
      assert (Eza : zone_after (mklinR name isb k rs (esym k (rkey (last bs c1))) None) = zone_of (esym k (rkey (last bs c1)))).
      { unfold zone_after, zone_of. cbn [mklinR l_bond l_close]. now rewrite orb_false_r. }
      rewrite Eza, <- app_assoc, (B _ (Forall_inv_tail IH) Hbs Hb), (Hcc _ rest Hc1) by discriminate.
      unfold dout, d1. destruct isb; [replace (Datatypes.S d - 1)%nat with d by lia; reflexivity|reflexivity].
  Qed.
End Track.

(** ------------------------------------------------------------------ the item conditions always hold *)
From CGV Require Import Write.FullDomain Write.FullMachine Write.TreeRound Write.RingRound Write.RingTables Write.FullRound Write.WriteRound
     Frag.StripImpl Reader.ReaderImpl Write.FragRead Write.FullCode Write.RingClose.
Lemma valid_body_ok s : valid_name s = true -> body_ok ("#"%char :: s) = true.
Proof.
  intros H. unfold body_ok. apply andb_true_intro. split; [|reflexivity]. cbn [forallb]. apply andb_true_intro. split; [reflexivity|].
  unfold valid_name in H. destruct s; [discriminate|]. rewrite forallb_forall in *. intros c Hc. destruct (name_char_facts c (H c Hc)) as (N1 & _ & N3 & _).
  unfold is_rbr, is_semi. apply andb_true_intro. split; apply negb_true_iff; now apply Ascii.eqb_neq.
Qed.
Lemma digit_char_digit d : (d < 10)%nat -> is_digit (digit_char d) = true.
Proof. intros H. do 10 (destruct d as [|d]; [reflexivity|]). lia. Qed.
Lemma marker_text_ok m : Grammar.marker_ok m = true -> FragText.marker_ok (marker_str m) = true.
Proof.
  destruct m as [d|ds]; cbn [Grammar.marker_ok marker_str].
  - intros H. apply Nat.ltb_lt in H. cbn. now apply digit_char_digit.
  - unfold digits_ok. destruct ds as [|d ds]; [discriminate|]. intros H. unfold digits_str. cbn [map FragText.marker_ok].
    change (is_percent "%"%char) with true. cbn [andb]. rewrite forallb_forall in *. intros c Hc.
    change (In c (map digit_char (d :: ds))) in Hc. apply in_map_iff in Hc as [x [<- Hx]]. apply digit_char_digit. apply Nat.ltb_lt. now apply H.
Qed.

(** ------------------------------------------------------------------ the round trip under a condition on the tree only *)
Theorem coarse_graph_roundtrip_tree : forall fo a0 dh F (D : Z -> list dspec) g tr,
  fragment_node_parser fo [] = Ok a0 ->
  wf_C07 g = true -> (forall n, In n g -> aget (S "aromatic") (na n) = None) ->
  ring_contract g (dfs_tree g) tr = true ->
  (forall k, forallb d_ok (D k) = true) ->
  exists T, NoDup (rkeys T) /\ (forall x, In x (rkeys T) <-> In x (node_keys g)) /\
    let items := the_items (name_of g) (esym_of g) (rsym_of g tr) T tr in
    let dl := combine items (map D (worder T)) in
    (* no bond symbol on an edge to a child written as a branch: the strip grammar has no symbol before "(" *)
    (nosymb (esym_of g) T ->
     exists txt h, write_graph_by (S "atomname") false dh (decorate_graph F D g) tr = Ok txt
       /\ strip_bonding_descriptors fo txt = Ok (lins_str items, ddict 0 dl [], [], adict a0 0 dl [])
       /\ read_cgsmiles fo (lins_str items) = Ok h
       /\ graph_iso (fun k => base_attrs (name_of g k)) g h
       /\ read_coarse_fragment fo F txt = Ok (post_fragment F h (ddict 0 dl []) (adict a0 0 dl []))).
Proof.
  intros fo a0 dh F D g tr Hp0 Hwf Har Hrc HD.
  destruct (coarse_graph_roundtrip fo a0 dh F D g tr Hp0 Hwf Har Hrc HD) as [T (B3 & A5 & X)].
  exists T. split; [exact B3|]. split; [exact A5|]. cbv zeta in *. intros Hns. apply X. clear X.
  set (items := the_items (name_of g) (esym_of g) (rsym_of g tr) T tr).
  assert (Hnames : forall k, In k (rkeys T) -> valid_name (name_of g k) = true) by (intros k Hk; apply wf_valid_names; [exact Hwf|now apply A5]).
  destruct (tlinsR_rename (name_of g) (name_of g) (esym_of g) (rlist_of tr) (rsym_of g tr) T false 0%nat None []) as (_ & Hlen & Eself).
  change (fst (tlinsR (name_of g) (esym_of g) (rlist_of tr) (rsym_of g tr) false 0 None [] T)) with items in *.
  apply dl_wf_track.
  - (* the conditions on every item *)
    assert (Hok : forallb (lin_ok fo) items = true).
    { unfold items, the_items. apply tlinsR_ok. intros k Hk. apply valid_name_ok. now apply Hnames. }
    rewrite forallb_forall in Hok. apply Forall_forall. intros [i Ds] Hin. unfold item_conds. cbn [fst snd].
    pose proof (in_combine_l _ _ _ _ Hin) as Hi. pose proof (in_combine_r _ _ _ _ Hin) as Hd. apply in_map_iff in Hd as [k0 [<- _]].
    specialize (Hok i Hi). unfold lin_ok in Hok. apply andb_prop in Hok as [Hok Hcl]. apply andb_prop in Hok as [Hok _]. apply andb_prop in Hok as [_ Hmk].
    split; [|split; [apply HD|split]].
    + (* the name of the item is the name of a node *)
      assert (Hnm : exists k, In k (worder T) /\ l_name i = name_of g k).
      { apply In_nth_error in Hi as [n Hn].
        assert (Hlt : (n < length (worder T))%nat) by (rewrite <- Hlen; apply nth_error_Some; congruence).
        destruct (nth_error (worder T) n) as [k|] eqn:Ek; [|apply nth_error_None in Ek; lia]. exists k. split; [now apply nth_error_In in Ek|].
        apply (self_rename (name_of g) items (worder T) Hlen Eself (i, k)).
        clear - Hn Ek. revert n Hn Ek. generalize (worder T). induction items as [|x xs IH]; intros [|y ys] n Hn Ek; destruct n; try discriminate.
        - cbn in *. inversion Hn; inversion Ek; subst. now left.
        - cbn in *. right. now apply (IH ys n). }
      destruct Hnm as [k [Hk ->]]. apply valid_body_ok. apply Hnames. now apply (worder_in T).
    + rewrite forallb_forall in *. intros om Hom. apply marker_text_ok. now apply Hmk.
    + destruct (l_close i); [|exact I]. apply negb_true_iff in Hcl. destruct (l_bond i); [discriminate|reflexivity].
  - (* zones and depths *)
    assert (Hf : map fst (combine items (map D (worder T))) = items) by (apply combine_fst; now rewrite map_length).
    rewrite Hf. pose proof (ltrack_tree (name_of g) (esym_of g) (rlist_of tr) (rsym_of g tr) T false 0%nat None [] ZStart [] Hns) as E.
    rewrite app_nil_r in E. unfold items, the_items. rewrite E by discriminate. reflexivity.
Qed.

Example coarse_graph_example_nosymb : nosymb (esym_of ex_cg) ex_cT.
Proof.
  unfold ex_cT. cbn [nosymb]. split; [intros b []|]. split; [|exact I]. split; [intros b [<-|[]]; vm_compute; reflexivity|]. split; [split; [exact I|exact I]|]. split; [split; [exact I|exact I]|exact I].
Qed.
