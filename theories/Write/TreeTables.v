(** TreeTables: the tables write_graph computes from the DFS edge list of a rose tree with distinct keys
    (dfs_successors as a dict, the predecessor map) answer the look-ups the loop makes ([tree_env]). *)
From Coq Require Import String.
From Coq Require Import List Ascii ZArith Bool Lia.
From CGV Require Import Base.PyBase Base.PyVal Base.PyGen Base.NxGraph Write.WriteImpl Write.TreeDefs Write.TreeWrite.
Import ListNotations.
Open Scope Z_scope.

Definition opt_list {A} (l : list A) : option (list A) := match l with [] => None | _ => Some l end.
Definition children_of (k : Z) (es : list (Z * Z)) : list Z := map snd (filter (fun e => Z.eqb (fst e) k) es).
Definition parents_of (c : Z) (es : list (Z * Z)) : list Z := map fst (filter (fun e => Z.eqb (snd e) c) es).

Lemma dl_get_append {A} k k' (v : A) d :
  dl_get k (dl_append k' v d) = if Z.eqb k k' then Some (match dl_get k d with Some l => l ++ [v] | None => [v] end) else dl_get k d.
Proof.
  induction d as [|[k2 l] r IH]; cbn [dl_append dl_get].
  - destruct (Z.eqb k k'); reflexivity.
  - destruct (Z.eqb_spec k' k2) as [E1|N1]; cbn [dl_get].
    + subst k2. destruct (Z.eqb_spec k k') as [E2|N2]; reflexivity.
    + destruct (Z.eqb_spec k k2) as [E2|N2].
      * subst k2. destruct (Z.eqb_spec k k') as [E3|N3]; [congruence|reflexivity].
      * exact IH.
Qed.

(** dfs_successors[k] = the children of k in the order the edges were yielded *)
Lemma dl_get_fold_succ k : forall es acc,
  dl_get k (fold_left (fun d e => dl_append (fst e) (snd e) d) es acc)
  = match dl_get k acc with
    | Some l => Some (l ++ children_of k es)
    | None => opt_list (children_of k es)
    end.
Proof.
  induction es as [|[a b] es IH]; intros acc; cbn [fold_left].
  - unfold children_of. cbn. destruct (dl_get k acc); [now rewrite app_nil_r|reflexivity].
  - rewrite IH. cbn [fst snd]. rewrite dl_get_append. unfold children_of. cbn [filter fst].
    rewrite (Z.eqb_sym a k). destruct (Z.eqb_spec k a) as [->|N]; cbn [map snd].
    + destruct (dl_get a acc); cbn; [now rewrite <- app_assoc|reflexivity].
    + reflexivity.
Qed.
Lemma dl_get_succ_of k es : dl_get k (succ_of es) = opt_list (children_of k es).
Proof. unfold succ_of. now rewrite dl_get_fold_succ. Qed.

(** predecessors[c]: one entry per (k, c) pair, k in the order of the dict *)
Definition entry_parents (c : Z) (ks : Z * list Z) : list Z :=
  flat_map (fun s : Z => if Z.eqb s c then [fst ks] else @nil Z) (snd ks).
Lemma dl_get_fold_inner c k : forall l acc,
  dl_get c (fold_left (fun d2 s => dl_append s k d2) l acc)
  = match dl_get c acc with
    | Some x => Some (x ++ flat_map (fun s : Z => if Z.eqb s c then [k] else @nil Z) l)
    | None => opt_list (flat_map (fun s : Z => if Z.eqb s c then [k] else @nil Z) l)
    end.
Proof.
  induction l as [|s l IH]; intros acc; cbn [fold_left flat_map].
  - destruct (dl_get c acc); [now rewrite app_nil_r|reflexivity].
  - rewrite IH, dl_get_append. rewrite (Z.eqb_sym s c). destruct (Z.eqb_spec c s) as [->|N].
    + destruct (dl_get s acc); cbn; [now rewrite <- app_assoc|reflexivity].
    + reflexivity.
Qed.
Lemma dl_get_fold_pred c : forall d acc,
  dl_get c (fold_left (fun d0 ks => fold_left (fun d2 s => dl_append s (fst ks) d2) (snd ks) d0) d acc)
  = match dl_get c acc with
    | Some x => Some (x ++ flat_map (entry_parents c) d)
    | None => opt_list (flat_map (entry_parents c) d)
    end.
Proof.
  induction d as [|ks d IH]; intros acc; cbn [fold_left flat_map].
  - destruct (dl_get c acc); [now rewrite app_nil_r|reflexivity].
  - rewrite IH, dl_get_fold_inner. fold (entry_parents c ks).
    destruct (dl_get c acc).
    + now rewrite <- app_assoc.
    + destruct (entry_parents c ks); reflexivity.
Qed.
Lemma dl_get_pred_of c d : dl_get c (pred_of d) = opt_list (flat_map (entry_parents c) d).
Proof. unfold pred_of. now rewrite dl_get_fold_pred. Qed.

(** the dict succ_of es: keys distinct, every entry is (k, children_of k es) *)
Lemma dl_append_keys {A} k (v : A) d : map fst (dl_append k v d) = if memz k (map fst d) then map fst d else map fst d ++ [k].
Proof.
  induction d as [|[k2 l] r IH]; [reflexivity|].
  cbn [dl_append map fst]. unfold memz. cbn [existsb]. fold (memz k (map fst r)).
  destruct (Z.eqb_spec k k2) as [E|N]; cbn [map fst orb].
  - reflexivity.
  - rewrite IH. destruct (memz k (map fst r)); reflexivity.
Qed.
Lemma dl_entry_get {A} (d : list (Z * list A)) : NoDup (map fst d) -> forall k l, In (k, l) d -> dl_get k d = Some l.
Proof.
  induction d as [|[k2 l2] r IH]; intros ND k l Hin; [contradiction|]. cbn in ND. inversion ND as [|? ? Hn ND']; subst.
  cbn. destruct Hin as [E|Hin].
  - inversion E; subst. now rewrite Z.eqb_refl.
  - destruct (Z.eqb_spec k k2) as [->|N]; [|now apply IH].
    exfalso. apply Hn. change k2 with (fst (k2, l)). now apply in_map.
Qed.
Lemma fold_succ_keys : forall (es : list (Z * Z)) (acc : list (Z * list Z)), NoDup (map fst acc) ->
  NoDup (map fst (fold_left (fun d e => dl_append (fst e) (snd e) d) es acc)).
Proof.
  induction es as [|e es IH]; intros acc ND; cbn [fold_left]; [exact ND|]. apply IH.
  rewrite dl_append_keys. destruct (memz (fst e) (map fst acc)) eqn:E; [exact ND|].
  apply memz_false_iff in E. clear IH. induction (map fst acc) as [|a l IHl]; cbn.
  - constructor; [tauto|constructor].
  - inversion ND; subst. constructor.
    + intros Hin. apply in_app_or in Hin as [Hin|[<-|[]]]; [contradiction|]. apply E. now left.
    + apply IHl; [assumption|]. intros H'. apply E. now right.
Qed.
Lemma succ_of_keys es : NoDup (map fst (succ_of es)).
Proof. apply fold_succ_keys. constructor. Qed.
Lemma succ_of_entry es k l : In (k, l) (succ_of es) -> l = children_of k es /\ l <> [].
Proof.
  intros Hin. pose proof (dl_entry_get _ (succ_of_keys es) k l Hin) as H. rewrite dl_get_succ_of in H.
  destruct (children_of k es) eqn:E; cbn in H; [discriminate|]. inversion H. split; [reflexivity|discriminate].
Qed.
Lemma dl_get_some_in {A} (d : list (Z * list A)) k l : dl_get k d = Some l -> In (k, l) d.
Proof.
  induction d as [|[k2 l2] r IH]; cbn; [discriminate|]. destruct (Z.eqb_spec k k2) as [->|N].
  - intros [= ->]. now left.
  - intros H. right. now apply IH.
Qed.

(** ---------------------------------------------------------------- edges of a rose tree *)
Lemma redges_ends t : forall e, In e (redges t) -> In (fst e) (rkeys t) /\ In (snd e) (tl (rkeys t)).
Proof.
  induction t as [k cs IH] using rtree_ind2. intros e Hin. cbn [redges rkeys tl] in *.
  apply in_flat_map in Hin as [c [Hc Hin]]. rewrite Forall_forall in IH.
  assert (Hkc : In (rkey c) (rkeys c)) by (destruct c; now left).
  destruct Hin as [<-|Hin]; cbn [fst snd].
  - split; [now left|]. apply in_flat_map. exists c. split; assumption.
  - destruct (IH c Hc e Hin) as [H1 H2]. split.
    + right. apply in_flat_map. exists c. split; assumption.
    + apply in_flat_map. exists c. split; [assumption|]. destruct c as [kc cc]. right. exact H2.
Qed.
Lemma filter_nil {A} (f : A -> bool) l : filter f l = [] <-> (forall x, In x l -> f x = false).
Proof.
  induction l as [|a l IH]; cbn; [tauto|]. destruct (f a) eqn:E; split.
  - discriminate.
  - intros H. specialize (H a (or_introl eq_refl)). congruence.
  - intros H x [<-|Hx]; [assumption|]. now apply IH.
  - intros H. apply IH. intros x Hx. apply H. now right.
Qed.
Lemma children_of_app k a b : children_of k (a ++ b) = children_of k a ++ children_of k b.
Proof. unfold children_of. now rewrite filter_app, map_app. Qed.
Lemma parents_of_app c a b : parents_of c (a ++ b) = parents_of c a ++ parents_of c b.
Proof. unfold parents_of. now rewrite filter_app, map_app. Qed.
Lemma children_of_outside k t : ~ In k (rkeys t) -> children_of k (redges t) = [].
Proof.
  intros H. unfold children_of. rewrite (proj2 (filter_nil _ _)); [reflexivity|].
  intros e He. destruct (Z.eqb_spec (fst e) k) as [E|]; [|reflexivity]. exfalso. apply H. rewrite <- E. now apply redges_ends.
Qed.

Lemma redges_snd t : map snd (redges t) = tl (rkeys t).
Proof.
  induction t as [k cs IH] using rtree_ind2. cbn [redges rkeys tl].
  induction cs as [|c r IHr]; [reflexivity|]. cbn [flat_map]. rewrite map_app. cbn [map snd].
  pose proof (Forall_inv IH) as Hc. pose proof (Forall_inv_tail IH) as Hr.
  rewrite Hc, (IHr Hr). destruct c as [kc cc]. reflexivity.
Qed.
Lemma rkey_in t : In (rkey t) (rkeys t).
Proof. destruct t; now left. Qed.
Lemma tl_rkeys_in t x : In x (tl (rkeys t)) -> In x (rkeys t).
Proof. destruct t as [k cs]. cbn. tauto. Qed.

(** the predecessor of c, when the children (second components) of the edge list are distinct *)
Lemma nodup_map_filter {A B} (f : A -> B) (g : A -> bool) l : NoDup (map f l) -> NoDup (map f (filter g l)).
Proof.
  induction l as [|a l IH]; cbn; [auto|]. intros H. inversion H as [|? ? Hn ND]; subst.
  destruct (g a); cbn; [constructor|]; auto.
  intros Hin. apply Hn. apply in_map_iff in Hin as [x [E Hx]]. apply filter_In in Hx as [Hx _].
  rewrite <- E. now apply in_map.
Qed.
Lemma flat_one (c k : Z) l : NoDup l -> In c l -> flat_map (fun s : Z => if Z.eqb s c then [k] else @nil Z) l = [k].
Proof.
  induction l as [|a l IH]; intros ND Hin; [contradiction|]. inversion ND as [|? ? Hn ND']; subst. cbn [flat_map].
  destruct (Z.eqb_spec a c) as [->|N].
  - cbn. f_equal. clear IH ND ND' Hin. induction l as [|b l IHl]; [reflexivity|]. cbn.
    destruct (Z.eqb_spec b c) as [->|]; [exfalso; apply Hn; now left|]. apply IHl. intros H. apply Hn. now right.
  - destruct Hin as [E|Hin]; [congruence|]. cbn. now apply IH.
Qed.
Lemma flat_none (c k : Z) l : ~ In c l -> flat_map (fun s : Z => if Z.eqb s c then [k] else @nil Z) l = [].
Proof.
  induction l as [|a l IH]; intros H; [reflexivity|]. cbn. destruct (Z.eqb_spec a c) as [->|]; [exfalso; apply H; now left|].
  apply IH. intros H'. apply H. now right.
Qed.
Lemma in_children_of k c es : In c (children_of k es) <-> In (k, c) es.
Proof.
  unfold children_of. rewrite in_map_iff. split.
  - intros [[a b] [E H]]. apply filter_In in H as [H1 H2]. cbn in *. apply Z.eqb_eq in H2. now subst.
  - intros H. exists (k, c). split; [reflexivity|]. apply filter_In. split; [assumption|]. cbn. apply Z.eqb_refl.
Qed.
Lemma flat_keyed_none (q : Z) (f : Z * list Z -> list Z) d :
  (forall ks, In ks d -> f ks = if Z.eqb (fst ks) q then [q] else []) -> ~ In q (map fst d) -> flat_map f d = [].
Proof.
  induction d as [|a d IH]; intros Hf Hq; [reflexivity|]. cbn [flat_map]. rewrite (Hf a) by now left.
  destruct (Z.eqb_spec (fst a) q) as [E|N]; [exfalso; apply Hq; left; exact E|]. cbn. apply IH.
  - intros ks Hks. apply Hf. now right.
  - intros H. apply Hq. now right.
Qed.
Lemma flat_keyed (q : Z) (f : Z * list Z -> list Z) d : NoDup (map fst d) ->
  (forall ks, In ks d -> f ks = if Z.eqb (fst ks) q then [q] else []) -> In q (map fst d) -> flat_map f d = [q].
Proof.
  induction d as [|a d IH]; intros ND Hf Hq; [contradiction|]. cbn [flat_map map] in *. inversion ND as [|? ? Hn NDr]; subst.
  rewrite (Hf a) by now left. destruct (Z.eqb_spec (fst a) q) as [E|N].
  - cbn. f_equal. apply (flat_keyed_none q); [intros ks Hks; apply Hf; now right|]. now rewrite <- E.
  - cbn. destruct Hq as [E|Hq]; [congruence|]. apply IH; [assumption| |assumption]. intros ks Hks. apply Hf. now right.
Qed.
Lemma pred_lookup_some es q c : NoDup (map snd es) -> In (q, c) es -> dl_get c (pred_of (succ_of es)) = Some [q].
Proof.
  intros ND Hin. rewrite dl_get_pred_of.
  assert (E : flat_map (entry_parents c) (succ_of es) = [q]); [|now rewrite E].
  assert (Hent : forall ks, In ks (succ_of es) -> entry_parents c ks = if Z.eqb (fst ks) q then [q] else []).
  { intros [k l] Hk. destruct (succ_of_entry es k l Hk) as [-> _]. unfold entry_parents. cbn [fst snd].
    destruct (Z.eqb_spec k q) as [->|N].
    - apply flat_one; [apply nodup_map_filter; exact ND|now apply in_children_of].
    - apply flat_none. intros Hc. apply in_children_of in Hc. apply N.
      (* two edges into c: same edge *)
      clear - ND Hin Hc. induction es as [|e es IH]; [contradiction|]. cbn in ND. inversion ND as [|? ? Hn ND']; subst.
      destruct Hin as [->|Hin], Hc as [E|Hc].
      + now inversion E.
      + exfalso. apply Hn. cbn. change c with (snd (k, c)). now apply in_map.
      + subst e. exfalso. apply Hn. cbn. change c with (snd (q, c)). now apply in_map.
      + now apply IH. }
  assert (Hq : In q (map fst (succ_of es))).
  { assert (Hg : dl_get q (succ_of es) = opt_list (children_of q es)) by apply dl_get_succ_of.
    assert (Hc : In c (children_of q es)) by now apply in_children_of.
    destruct (children_of q es) as [|x l] eqn:Ec; [contradiction|]. cbn in Hg.
    apply dl_get_some_in in Hg. change q with (fst (q, x :: l)). now apply in_map. }
  apply (flat_keyed q); [apply succ_of_keys|exact Hent|exact Hq].
Qed.
Lemma pred_lookup_none es c : (forall e, In e es -> snd e <> c) -> dl_get c (pred_of (succ_of es)) = None.
Proof.
  intros H. rewrite dl_get_pred_of.
  assert (E : flat_map (entry_parents c) (succ_of es) = []); [|now rewrite E].
  assert (G : forall d, (forall ks, In ks d -> entry_parents c ks = []) -> flat_map (entry_parents c) d = []).
  { induction d as [|a d IHd]; intros Hd; [reflexivity|]. cbn. rewrite (Hd a) by now left. apply IHd. intros ks Hks. apply Hd. now right. }
  apply G. intros [k l] Hk. destruct (succ_of_entry es k l Hk) as [-> _]. unfold entry_parents. cbn [fst snd].
  apply flat_none. intros Hc. apply in_children_of in Hc. now apply (H (k, c)).
Qed.

Lemma children_of_nil k l : (forall e, In e l -> fst e <> k) -> children_of k l = [].
Proof.
  intros H. unfold children_of. rewrite (proj2 (filter_nil _ _)); [reflexivity|].
  intros e He. destruct (Z.eqb_spec (fst e) k) as [E|]; [|reflexivity]. exfalso. now apply (H e).
Qed.
Lemma root_children k : forall cs, ~ In k (flat_map rkeys cs) ->
  children_of k (flat_map (fun c => (k, rkey c) :: redges c) cs) = map rkey cs.
Proof.
  induction cs as [|c r IH]; intros Hk; [reflexivity|]. cbn [flat_map map] in *.
  rewrite children_of_app. rewrite IH by (intros H; apply Hk; apply in_or_app; now right).
  unfold children_of at 1. cbn [filter fst]. rewrite Z.eqb_refl. cbn [map snd]. fold (children_of k (redges c)).
  rewrite (children_of_outside k c) by (intros H; apply Hk; apply in_or_app; now left). reflexivity.
Qed.
Lemma forest_edges_fst k cs e : In e (flat_map (fun c => (k, rkey c) :: redges c) cs) -> fst e = k \/ In (fst e) (flat_map rkeys cs).
Proof.
  intros H. apply in_flat_map in H as [c [Hc [<-|He]]]; [now left|]. right. apply in_flat_map. exists c. split; [assumption|].
  now apply redges_ends.
Qed.

Section Env.
  Variables (sf : bool) (fmt : Z -> res pystr) (sym rsym : Z -> Z -> res pystr) (ntext : Z -> pystr) (stext : Z -> Z -> pystr).
  Variable es : list (Z * Z).
  Hypothesis Hnd : NoDup (map snd es).
  Let env := mk_env sf fmt sym rsym es [].

  Definition Penv (t : rtree) : Prop :=
    forall pre post p, es = pre ++ redges t ++ post -> NoDup (rkeys t) ->
      (forall e, In e (pre ++ post) -> ~ In (fst e) (rkeys t)) ->
      match p with Some q => In (q, rkey t) es | None => forall e, In e es -> snd e <> rkey t end ->
      (forall k, In k (rkeys t) -> fmt k = Ok (ntext k)) ->
      (forall e, In e es -> In (snd e) (rkeys t) -> sym (fst e) (snd e) = Ok (stext (fst e) (snd e))) ->
      tree_env ntext stext env p t.

  Lemma forest_env_ctx k : forall cs, Forall Penv cs ->
    forall pre post, es = pre ++ flat_map (fun c => (k, rkey c) :: redges c) cs ++ post ->
      NoDup (flat_map rkeys cs) -> ~ In k (flat_map rkeys cs) ->
      (forall e, In e (pre ++ post) -> ~ In (fst e) (flat_map rkeys cs)) ->
      (forall x, In x (flat_map rkeys cs) -> fmt x = Ok (ntext x)) ->
      (forall e, In e es -> In (snd e) (flat_map rkeys cs) -> sym (fst e) (snd e) = Ok (stext (fst e) (snd e))) ->
      forest_env ntext stext env k cs.
  Proof.
    induction 1 as [|c r Hc Hr IH]; intros pre post Hes ND Hk Hctx Hf Hs; [exact I|].
    cbn [flat_map] in *. cbn [TreeDefs.forest_env].
    assert (NDc : NoDup (rkeys c)) by (eapply nodup_app_left; exact ND).
    assert (NDr : NoDup (flat_map rkeys r)) by (eapply nodup_app_right; exact ND).
    pose proof (nodup_app_disj _ _ ND) as Hdis.
    split.
    - apply (Hc (pre ++ [(k, rkey c)]) (flat_map (fun c0 => (k, rkey c0) :: redges c0) r ++ post) (Some k)).
      + rewrite Hes. rewrite <- !app_assoc. reflexivity.
      + exact NDc.
      + intros e He Hin. rewrite <- app_assoc in He. apply in_app_or in He as [He|He].
        * apply (Hctx e); [apply in_or_app; now left|apply in_or_app; now left].
        * cbn [app] in He. destruct He as [<-|He]; [cbn in Hin; apply Hk; apply in_or_app; now left|].
          apply in_app_or in He as [He|He].
          -- apply forest_edges_fst in He as [E|He]; [rewrite E in Hin; apply Hk; apply in_or_app; now left|].
             now apply (Hdis (fst e)).
          -- apply (Hctx e); [apply in_or_app; now right|apply in_or_app; now left].
      + rewrite Hes. apply in_or_app. right. now left.
      + intros x Hx. apply Hf. apply in_or_app. now left.
      + intros e He Hx. apply Hs; [assumption|apply in_or_app; now left].
    - apply (IH (pre ++ (k, rkey c) :: redges c) post).
      + rewrite Hes. rewrite <- !app_assoc. reflexivity.
      + exact NDr.
      + intros H. apply Hk. apply in_or_app. now right.
      + intros e He Hin. rewrite <- app_assoc in He. apply in_app_or in He as [He|He].
        * apply (Hctx e); [apply in_or_app; now left|apply in_or_app; now right].
        * cbn [app] in He. destruct He as [<-|He]; [cbn in Hin; apply Hk; apply in_or_app; now right|].
          apply in_app_or in He as [He|He].
          -- apply redges_ends in He as [He _]. now apply (Hdis (fst e)).
          -- apply (Hctx e); [apply in_or_app; now right|apply in_or_app; now right].
      + intros x Hx. apply Hf. apply in_or_app. now right.
      + intros e He Hx. apply Hs; [assumption|apply in_or_app; now right].
  Qed.

  Theorem tree_env_ctx : forall t, Penv t.
  Proof.
    apply rtree_ind2. intros k cs IH. unfold Penv. intros pre post p Hes ND Hctx Hp Hf Hs.
    cbn [rkeys rkey redges] in *. apply NoDup_cons_iff in ND as [Hk NDcs].
    cbn [TreeDefs.tree_env]. unfold env, mk_env. cbn [e_pred e_succ e_rings e_fmt e_sym].
    repeat split.
    - destruct p as [q|]; [now apply pred_lookup_some|now apply pred_lookup_none].
    - rewrite dl_get_succ_of. rewrite Hes, !children_of_app.
      rewrite (children_of_nil k pre) by (intros e He E; apply (Hctx e); [apply in_or_app; now left|left; now rewrite E]).
      rewrite (children_of_nil k post) by (intros e He E; apply (Hctx e); [apply in_or_app; now right|left; now rewrite E]).
      rewrite root_children by assumption. rewrite app_nil_r. destruct cs; reflexivity.
    - apply Hf. now left.
    - destruct p as [q|]; [|exact I]. apply (Hs (q, k)); [assumption|now left].
    - apply (forest_env_ctx k cs IH pre post); try assumption.
      + intros e He Hin. apply (Hctx e He). now right.
      + intros x Hx. apply Hf. now right.
      + intros e He Hx. apply Hs; [assumption|now right].
  Qed.

  (** the tables of a whole tree *)
  Corollary tree_env_tables t : es = redges t -> NoDup (rkeys t) ->
    (forall k, In k (rkeys t) -> fmt k = Ok (ntext k)) ->
    (forall e, In e es -> sym (fst e) (snd e) = Ok (stext (fst e) (snd e))) ->
    tree_env ntext stext env None t.
  Proof.
    intros Hes ND Hf Hs. apply (tree_env_ctx t [] []).
    - now rewrite app_nil_r.
    - exact ND.
    - intros e [].
    - intros e He E. rewrite Hes in He. apply redges_ends in He as [_ He]. rewrite E in He.
      destruct t as [k cs]. cbn [rkeys rkey tl] in *. inversion ND. contradiction.
    - exact Hf.
    - intros e He _. now apply Hs.
  Qed.
End Env.

Lemma wloop_done f env br d out mk vis mt : wloop f env (mkw [] br d out mk vis mt) = Ok (mkw [] br d out mk vis mt).
Proof. destruct f; reflexivity. Qed.

(** the serialisation of ANY tree-shaped transcript without ring edges: any branching, any depth *)
Theorem write_tree_transcript : forall sf fmt sym rsym ntext stext t n,
  NoDup (rkeys t) -> (rsize t <= n)%nat ->
  (forall k, In k (rkeys t) -> fmt k = Ok (ntext k)) ->
  (forall e, In e (redges t) -> sym (fst e) (snd e) = Ok (stext (fst e) (snd e))) ->
  run_writer n (mk_env sf fmt sym rsym (redges t) []) (rkey t)
  = Ok {| r_text := wtext sf ntext stext None false 0 t; r_visit := worder t; r_mtrace := [] |}.
Proof.
  intros sf fmt sym rsym ntext stext t n ND Hn Hf Hs.
  assert (NDs : NoDup (map snd (redges t))).
  { rewrite redges_snd. destruct t as [k cs]. cbn [rkeys tl] in *. now inversion ND. }
  pose proof (tree_env_tables sf fmt sym rsym ntext stext (redges t) NDs t eq_refl ND Hf Hs) as He.
  unfold run_writer, winit.
  change {| w_stack := [rkey t]; w_branches := []; w_depth := 0; w_out := []; w_marks := []; w_visit := []; w_mtrace := [] |}
    with (mkw [rkey t] [] 0 [] [] [] []).
  replace (Datatypes.S n) with (rsize t + (Datatypes.S n - rsize t))%nat by lia.
  rewrite (wloop_tree sf ntext stext (mk_env sf fmt sym rsym (redges t) []) eq_refl t None false 0%nat _ [] [] [] [] [] [] He ND eq_refl) by (intros x _ []).
  rewrite wloop_done. cbn [bind mkw w_out w_depth w_visit w_mtrace dout Nat.sub repeat concat app rev].
  rewrite !app_nil_r, rev_involutive. reflexivity.
Qed.
