(** RingFacts: which nodes meet which ring index (atom_to_ring_idx), and the writer's ghost table after the ring
    indices of one node ([wsim_spec]). *)
From Coq Require Import String.
From Coq Require Import List Ascii ZArith Bool Lia.
From CGV Require Import Base.PyBase Base.PyVal Base.PyGen Base.NxGraph.
From CGV Require Import Write.WriteImpl Write.TreeDefs Write.TreeWrite Write.TreeTables Write.RingDefs Write.RingTables Write.RingMarkers
     Write.RingClose Write.RingSim.
Import ListNotations.
Open Scope Z_scope.

Definition ring_items_of (tr : list (Z * Z)) : list (nat * (Z * Z)) := combine (seq 1 (length tr)) tr.

Lemma in_combine_seq {A} (l : list A) : forall s i e, In (i, e) (combine (seq s (length l)) l) <-> (s <= i)%nat /\ nth_error l (i - s) = Some e.
Proof.
  induction l as [|x l IH]; intros s i e; cbn [length seq combine].
  - split; [intros []|]. intros [_ H]. destruct (i - s)%nat; discriminate.
  - cbn [In]. rewrite IH. split.
    + intros [E|[H1 H2]].
      * inversion E; subst. split; [lia|]. now rewrite Nat.sub_diag.
      * split; [lia|]. replace (i - s)%nat with (Datatypes.S (i - Datatypes.S s)) by lia. exact H2.
    + intros [H1 H2]. destruct (Nat.eq_dec i s) as [->|N].
      * left. rewrite Nat.sub_diag in H2. cbn in H2. now inversion H2.
      * right. split; [lia|]. replace (i - s)%nat with (Datatypes.S (i - Datatypes.S s)) in H2 by lia. exact H2.
Qed.
Lemma ring_item_fun tr ri e e' : In (ri, e) (ring_items_of tr) -> In (ri, e') (ring_items_of tr) -> e = e'.
Proof. unfold ring_items_of. rewrite !in_combine_seq. intros [_ H1] [_ H2]. congruence. Qed.
Lemma ring_item_in tr ri e : In (ri, e) (ring_items_of tr) -> In e tr.
Proof. unfold ring_items_of. apply in_combine_r. Qed.

Lemma nodup_edges_nth : forall l i j e e', nodup_edges l = true -> nth_error l i = Some e -> nth_error l j = Some e' -> i <> j ->
  same_edge e e' = false.
Proof.
  assert (Sym : forall a b, same_edge a b = same_edge b a).
  { intros [a1 a2] [b1 b2]. unfold same_edge. cbn [fst snd]. rewrite (Z.eqb_sym a1 b1), (Z.eqb_sym a2 b2), (Z.eqb_sym a1 b2), (Z.eqb_sym a2 b1).
    destruct (b1 =? a1), (b2 =? a2), (b2 =? a1), (b1 =? a2); reflexivity. }
  assert (Hd : forall l e k e', edge_mem e l = false -> nth_error l k = Some e' -> same_edge e e' = false).
  { induction l as [|x l IH]; intros e k e' Hm Hn; [destruct k; discriminate|]. cbn [edge_mem existsb] in Hm. apply orb_false_elim in Hm as [H1 H2].
    destruct k; cbn in Hn; [inversion Hn; subst; exact H1|]. now apply (IH e k e'). }
  induction l as [|x l IH]; intros i j e e' Hn Hi Hj Hij; [destruct i; discriminate|].
  cbn [nodup_edges] in Hn. apply andb_prop in Hn as [H1 H2]. apply negb_true_iff in H1.
  destruct i as [|i], j as [|j]; cbn in Hi, Hj; try lia.
  - inversion Hi; subst. now apply (Hd l e j e').
  - inversion Hj; subst. rewrite Sym. now apply (Hd l e' i e).
  - apply (IH i j); auto.
Qed.
Lemma ring_items_distinct tr ri ri' e e' : nodup_edges tr = true -> In (ri, e) (ring_items_of tr) -> In (ri', e') (ring_items_of tr) ->
  ri <> ri' -> same_edge e e' = false.
Proof.
  unfold ring_items_of. rewrite !in_combine_seq. intros Hn [H1 H2] [H3 H4] Hne.
  apply (nodup_edges_nth tr (ri - 1) (ri' - 1)); auto. lia.
Qed.

(** k meets ring ri iff k is an end of the ri-th ring edge *)
Lemma meets_iff tr k ri : In ri (rlist_of tr k) <-> exists a b, In (ri, (a, b)) (ring_items_of tr) /\ (k = a \/ k = b).
Proof.
  rewrite rlist_of_eq. fold (ring_items_of tr). rewrite in_flat_map. split.
  - intros [[i [a b]] [Hin H]]. unfold ends_at in H. cbn [fst snd] in H. exists a, b.
    apply in_app_or in H as [H|H].
    + destruct (Z.eqb_spec k a); [|contradiction]. destruct H as [<-|[]]. auto.
    + destruct (Z.eqb_spec k b); [|contradiction]. destruct H as [<-|[]]. auto.
  - intros (a & b & Hin & Hk). exists (ri, (a, b)). split; [assumption|]. unfold ends_at. cbn [fst snd]. apply in_or_app.
    destruct Hk as [->| ->]; [left|right]; rewrite Z.eqb_refl; now left.
Qed.
Lemma rlist_nodup tr k : (forall e, In e tr -> fst e <> snd e) -> NoDup (rlist_of tr k).
Proof.
  intros Hs. rewrite rlist_of_eq. fold (ring_items_of tr).
  assert (G : forall items : list (nat * (Z * Z)), NoDup (map fst items) -> (forall ie, In ie items -> fst (snd ie) <> snd (snd ie)) ->
              NoDup (flat_map (ends_at k) items) /\ (forall x, In x (flat_map (ends_at k) items) -> In x (map fst items))).
  { induction items as [|[i [a b]] l IH]; intros ND Hl; [split; [constructor|intros x []]|]. cbn [map fst] in ND. inversion ND as [|? ? Hn ND']; subst.
    destruct (IH ND' (fun ie H => Hl ie (or_intror H))) as [I1 I2]. cbn [flat_map]. unfold ends_at at 1 3. cbn [fst snd].
    specialize (Hl (i, (a, b)) (or_introl eq_refl)). cbn [fst snd] in Hl.
    destruct (Z.eqb_spec k a) as [Ea|Na], (Z.eqb_spec k b) as [Eb|Nb]; try (exfalso; congruence); cbn [app map fst].
    - split; [constructor; [intros H; apply Hn; now apply I2|exact I1]|]. intros x [<-|H]; [now left|right; now apply I2].
    - split; [constructor; [intros H; apply Hn; now apply I2|exact I1]|]. intros x [<-|H]; [now left|right; now apply I2].
    - split; [exact I1|]. intros x H. right. now apply I2. }
  apply G.
  - unfold ring_items_of. assert (Em : forall (l1 : list nat) (l2 : list (Z * Z)), length l1 = length l2 -> map fst (combine l1 l2) = l1).
    { induction l1 as [|x l1 IHl]; intros [|y l2] Hl; try discriminate; [reflexivity|]. cbn. f_equal. apply IHl. now inversion Hl. }
    rewrite Em by now rewrite seq_length. apply seq_NoDup.
  - intros [i e] Hin. apply ring_item_in in Hin. cbn [snd]. now apply Hs.
Qed.

(** ------------------------------------------------------------------ the writer's ghost table after one node *)
Lemma m3_get_app ri mk3 x : m3_get ri (mk3 ++ [x]) = match m3_get ri mk3 with Some v => Some v | None => if Nat.eqb (m3_ri x) ri then Some (m3_m x, m3_n x) else None end.
Proof. induction mk3 as [|y r IH]; cbn [app m3_get]; [reflexivity|]. destruct (Nat.eqb (m3_ri y) ri); [reflexivity|exact IH]. Qed.
Lemma m3_get_del ri ri' mk3 : m3_get ri (m3_del ri' mk3) = if Nat.eqb ri' ri then None else m3_get ri mk3.
Proof.
  unfold m3_del. induction mk3 as [|y r IH]; cbn [filter m3_get]; [now destruct (Nat.eqb ri' ri)|].
  destruct (Nat.eqb_spec (m3_ri y) ri') as [E|N]; cbn [negb m3_get].
  - rewrite IH. destruct (Nat.eqb_spec ri' ri) as [E2|N2]; [reflexivity|]. destruct (Nat.eqb_spec (m3_ri y) ri); [congruence|reflexivity].
  - rewrite IH. destruct (Nat.eqb_spec (m3_ri y) ri) as [E2|N2]; [|reflexivity]. destruct (Nat.eqb_spec ri' ri); [congruence|reflexivity].
Qed.

Definition c_ri (c : nat * Z * Z) : nat := fst (fst c).
Lemma wsim_spec cur : forall ris mk3, NoDup ris ->
  let '(mk3', cl) := wsim cur mk3 ris in
  (forall ri, In ri ris -> match m3_get ri mk3 with
                           | None => exists m, m3_get ri mk3' = Some (m, cur)
                           | Some (m, n0) => m3_get ri mk3' = None /\ In (ri, cur, n0) cl
                           end)
  /\ (forall ri, ~ In ri ris -> m3_get ri mk3' = m3_get ri mk3)
  /\ (forall c, In c cl -> snd (fst c) = cur /\ In (c_ri c) ris /\ exists m, m3_get (c_ri c) mk3 = Some (m, snd c))
  /\ NoDup (map c_ri cl).
Proof.
  induction ris as [|ri r IH]; intros mk3 ND; cbn [wsim].
  - split; [intros ri []|split; [reflexivity|split; [intros c []|constructor]]].
  - inversion ND as [|? ? Hn ND']; subst.
    destruct (m3_get ri mk3) as [[m n0]|] eqn:Hg.
    + specialize (IH (m3_del ri mk3) ND'). destruct (wsim cur (m3_del ri mk3) r) as [mk3' cl].
      destruct IH as (I1 & I2 & I3 & I4). split; [|split; [|split]].
      * intros ri' [<-|Hin].
        -- rewrite Hg. split; [|now left]. rewrite (I2 ri Hn), m3_get_del. now rewrite Nat.eqb_refl.
        -- specialize (I1 ri' Hin). rewrite m3_get_del in I1. destruct (Nat.eqb_spec ri ri') as [E|N]; [subst; contradiction|].
           destruct (m3_get ri' mk3) as [[m' n0']|]; [destruct I1; split; [assumption|now right]|assumption].
      * intros ri' Hni. rewrite (I2 ri') by (intros H; apply Hni; now right). rewrite m3_get_del.
        destruct (Nat.eqb_spec ri ri'); [exfalso; apply Hni; now left|reflexivity].
      * intros c [<-|Hc]; cbn [fst snd c_ri].
        -- split; [reflexivity|]. split; [now left|]. exists m. exact Hg.
        -- destruct (I3 c Hc) as (A & B & [m' C]). split; [exact A|]. split; [now right|]. exists m'.
           rewrite m3_get_del in C. destruct (Nat.eqb ri (c_ri c)); [discriminate|exact C].
      * cbn [map c_ri fst]. constructor; [|exact I4]. intros Hin. apply in_map_iff in Hin as [c [Ec Hc]].
        destruct (I3 c Hc) as (_ & B & _). rewrite Ec in B. contradiction.
    + specialize (IH (mk3 ++ [(ri, get_ring_marker (map m3_m mk3), cur)]) ND').
      destruct (wsim cur (mk3 ++ [(ri, get_ring_marker (map m3_m mk3), cur)]) r) as [mk3' cl].
      destruct IH as (I1 & I2 & I3 & I4). split; [|split; [|split]].
      * intros ri' [<-|Hin].
        -- rewrite Hg. rewrite (I2 ri Hn), m3_get_app, Hg. cbn [m3_ri m3_m m3_n fst snd]. rewrite Nat.eqb_refl. eauto.
        -- specialize (I1 ri' Hin). rewrite m3_get_app in I1. cbn [m3_ri m3_m m3_n fst snd] in I1.
           destruct (m3_get ri' mk3) as [[m' n0']|]; [exact I1|].
           destruct (Nat.eqb_spec ri ri') as [E|N]; [subst; contradiction|exact I1].
      * intros ri' Hni. rewrite (I2 ri') by (intros H; apply Hni; now right). rewrite m3_get_app. cbn [m3_ri fst snd].
        destruct (m3_get ri' mk3); [reflexivity|]. destruct (Nat.eqb_spec ri ri'); [exfalso; apply Hni; now left|reflexivity].
      * intros c Hc. destruct (I3 c Hc) as (A & B & [m' C]). split; [exact A|]. split; [now right|].
        rewrite m3_get_app in C. cbn [m3_ri m3_m m3_n fst snd] in C.
        destruct (m3_get (c_ri c) mk3) as [v|] eqn:Ev; [exists m'; exact C|].
        destruct (Nat.eqb_spec ri (c_ri c)) as [E|N]; [|discriminate]. rewrite <- E in B. contradiction.
      * exact I4.
Qed.
