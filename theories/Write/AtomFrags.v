(** AtomFrags: C08 for a LIST of ring-free all-atom fragments, unbounded.  write_cgsmiles_fragments(smiles_format=True)
    writes "{#name1=t_1,...,#namen=t_n}" with t_i = [AtomTree.tree_text] of fragment i, free of ','; the splitting of
    fragment_iter ([fragment_split]) returns the pairs (name_i, t_i) in order; and the model of
    fragment_iter(all_atom=True) up to pysmiles' hydrogen completion ([Template.fragment_template]) returns for each the
    fragment renumbered in the order of writing ([AtomTree.atom_tree_graph], [atom_tree_template_iso]).
    The two list-level facts are proved generically for ANY list of (name, text) pairs / entries. *)
From Coq Require Import String.
From Coq Require Import List Ascii ZArith Bool Lia.
From CGV Require Import Base.PyBase Base.PyVal Base.PyGen Base.NxGraph Dialect.DialectImpl.
From CGV Require Import Write.WriteImpl Write.WriteDefs Write.FormatStripRound Write.CoarseChain Write.CoarseFrags Write.TreeDefs Write.AtomTree.
From CGV Require Import Frag.NDict Frag.StripImpl Frag.FragText Frag.SmilesParse Frag.Template.
Import ListNotations.
Open Scope Z_scope.

(** ------------------------------------------------------------------ generic: a list of definitions *)
Definition nt_def (nt : pystr * pystr) : pystr := S "#" ++ fst nt ++ S "=" ++ snd nt.
Definition nt_ok (nt : pystr * pystr) : Prop := nocomma (fst nt) /\ ~ In "="%char (fst nt) /\ nocomma (snd nt).
Lemma split_nt nt : ~ In "="%char (fst nt) -> split_fragment (nt_def nt) = nt.
Proof.
  destruct nt as [n t]. cbn [fst snd]. intros H. unfold split_fragment, nt_def. cbn [fst snd S list_ascii_of_string app].
  cbn [find_char]. change (Ascii.eqb "#" "=") with false. cbv iota.
  rewrite (find_char_first "="%char n t 1 H).
  replace (1 + length n)%nat with (Datatypes.S (length n)) by lia. f_equal.
  - unfold py_slice. cbn [skipn]. replace (Datatypes.S (length n) - 1)%nat with (length n) by lia. apply firstn_pre.
  - cbn [skipn]. apply skipn_past.
Qed.
Theorem split_definitions : forall nts : list (pystr * pystr), nts <> [] -> Forall nt_ok nts ->
  fragment_split (S "{" ++ join (S ",") (map nt_def nts) ++ S "}") = nts.
Proof.
  intros nts Hne H. unfold fragment_split.
  assert (E : forall B, removelast (skipn 1 (S "{" ++ B ++ S "}")) = B) by (intros B; cbn [S list_ascii_of_string app skipn]; apply removelast_snoc).
  rewrite E. change (S ",") with [","%char].
  rewrite (split_join ","%char (map nt_def nts)).
  - rewrite map_map. rewrite <- (map_id nts) at 2. apply map_ext_in. intros nt Hin. apply split_nt.
    rewrite Forall_forall in H. destruct (H nt Hin) as (_ & N & _). exact N.
  - destruct nts; [contradiction|discriminate].
  - apply Forall_forall. intros t Ht. apply in_map_iff in Ht as [nt [<- Hin]]. rewrite Forall_forall in H. destruct (H nt Hin) as (N1 & _ & N3).
    unfold nt_def. apply nocomma_app; [unfold nocomma; cbn; intuition discriminate|]. apply nocomma_app; [exact N1|].
    apply nocomma_app; [unfold nocomma; cbn; intuition discriminate|exact N3].
Qed.
Theorem write_definitions : forall sf (es : list frag_entry) (ts : list pystr),
  Forall2 (fun (e : frag_entry) t => let '(nm, g, tr, dhl) := e in write_graph_by (S "atomname") sf (fun k => memz k dhl) g tr = Ok t) es ts ->
  write_cgsmiles_fragments sf es
  = Ok (S "{" ++ join (S ",") (map nt_def (combine (map (fun e : frag_entry => fst (fst (fst e))) es) ts)) ++ S "}").
Proof.
  intros sf es ts H. unfold write_cgsmiles_fragments.
  assert (B : write_fragments_body sf es
              = Ok (concat (map (fun t => t ++ S ",") (map nt_def (combine (map (fun e : frag_entry => fst (fst (fst e))) es) ts))))).
  { induction H as [|e t es ts He Hr IH]; [reflexivity|]. destruct e as [[[nm g] tr] dhl]. cbn [map combine write_fragments_body fst].
    rewrite He. cbn [bind]. rewrite IH. cbn [bind concat]. unfold nt_def. cbn [fst snd]. now rewrite <- !app_assoc. }
  rewrite B. cbn [bind]. unfold py_drop_last. now rewrite body_join.
Qed.

(** ------------------------------------------------------------------ no comma in the text of an all-atom tree *)
Lemma optb_nocomma o : nocomma (optb o).
Proof. destruct o as [[]|]; unfold nocomma; cbn; intuition discriminate. Qed.
Lemma nocomma_b s : forallb (fun c => negb (Ascii.eqb c ","%char)) s = true -> nocomma s.
Proof. intros H Hin. rewrite forallb_forall in H. specialize (H _ Hin). now rewrite Ascii.eqb_refl in H. Qed.
Lemma tree_text_nocomma sp D eo T : (forall k, aspec_ok (sp k) = true) -> (forall k, forallb d_ok (D k) = true) ->
  nocomma (tree_text (stok sp) D eo T).
Proof.
  intros HS HD. unfold tree_text. rewrite (render_aitems (stok sp) D HD). induction (wvis eo None false 0 T) as [|v r IH]; [intros []|].
  cbn [flat_map]. apply nocomma_app; [|exact IH]. unfold vtext.
  apply nocomma_app; [destruct (v_open v); unfold nocomma; cbn; intuition discriminate|].
  apply nocomma_app; [apply optb_nocomma|]. apply nocomma_app; [apply nocomma_app; [apply nocomma_b; apply (aspec_table _ (HS (v_key v)))|apply fbt_nocomma, HD]|].
  destruct (v_close v); unfold nocomma; cbn; intuition discriminate.
Qed.

(** ------------------------------------------------------------------ a list of ring-free all-atom fragments *)
(** name, graph, atom attributes, descriptors, nodes with a default hydrogen count *)
Definition afrag := (pystr * graph * (Z -> aspec) * (Z -> list dspec) * list Z)%type.
Definition af_name (f : afrag) : pystr := let '(F, _, _, _, _) := f in F.
Definition af_entry (f : afrag) : frag_entry := let '(F, g, _, _, dhl) := f in (F, g, [], dhl).
Definition af_ok (f : afrag) : Prop :=
  let '(F, g, sp, D, dhl) := f in
  nocomma F /\ ~ In "="%char F
  /\ (forall k, aspec_ok (sp k) = true) /\ (forall k, forallb d_ok (D k) = true)
  /\ (forall n, In n g -> atom_ok (fun k => memz k dhl) sp D n) /\ orders_ok g
  /\ graph_wf g = true /\ g <> [].
(** what is known of the text written for one fragment: [AtomTree.atom_tree_graph] *)
Definition af_back (fo : float_oracle) (a0 : attrs) (f : afrag) (t : pystr) : Prop :=
  let '(F, g, sp, D, dhl) := f in
  exists T, min_node g = Ok (rkey T) /\ dfs_edges g (rkey T) = Ok (redges T) /\ NoDup (rkeys T)
    /\ t = tree_text (stok sp) D (eo_of g) T
    /\ write_graph_by (S "atomname") true (fun k => memz k dhl) g [] = Ok t
    /\ strip_bonding_descriptors fo t
       = Ok (tree_clean (stok sp) (eo_of g) T, ddl 0 (map D (worder T)) [], [], annl a0 0 (map (fun k => negb (a_bare (sp k))) (worder T)) [])
    /\ smiles_parse (tree_clean (stok sp) (eo_of g) T) = Ok (tree_sgraph (sattrs sp) (eo_of g) T)
    /\ fragment_template fo F t = Ok (assemble F (tree_sgraph (sattrs sp) (eo_of g) T) (ddl 0 (map D (worder T)) [])
                                              (annl a0 0 (map (fun k => negb (a_bare (sp k))) (worder T)) [])).
(** fragment_iter(fragment_str, all_atom=True) up to pysmiles' hydrogen completion: (fragname, template) per definition *)
Definition read_atom_fragments (fo : float_oracle) (s : pystr) : list (pystr * res tmpl) :=
  map (fun nt => (fst nt, fragment_template fo (fst nt) (snd nt))) (fragment_split s).

Lemma af_one fo a0 f : fragment_node_parser fo [] = Ok a0 -> af_ok f -> exists t, af_back fo a0 f t /\ nocomma t.
Proof.
  destruct f as [[[[F g] sp] D] dhl]. intros Hp0 (N1 & N2 & HS & HD & Hn & Ho & Hwf & Hne).
  assert (Hm : exists start, min_node g = Ok start) by (unfold min_node, node_keys; destruct g; [contradiction|cbn; eauto]).
  destruct Hm as [start Hmin].
  destruct (atom_tree_graph (fun k => memz k dhl) sp D g HS HD Hn Ho fo a0 F start Hp0 Hwf Hmin) as [T (A1 & A2 & A3 & _ & _ & X)].
  cbv zeta in X. destruct X as (W & St & Sp & Ft). subst start.
  exists (tree_text (stok sp) D (eo_of g) T). split; [|now apply tree_text_nocomma].
  unfold af_back. exists T. repeat split; try assumption. unfold write_graph_by. rewrite W. reflexivity.
Qed.

Theorem atom_fragments_roundtrip : forall fo a0 (fs : list afrag), fragment_node_parser fo [] = Ok a0 -> fs <> [] -> Forall af_ok fs ->
  exists ts, Forall2 (af_back fo a0) fs ts /\
    let txt := S "{" ++ join (S ",") (map nt_def (combine (map af_name fs) ts)) ++ S "}" in
    write_cgsmiles_fragments true (map af_entry fs) = Ok txt
    /\ fragment_split txt = combine (map af_name fs) ts
    /\ read_atom_fragments fo txt = map (fun nt => (fst nt, fragment_template fo (fst nt) (snd nt))) (combine (map af_name fs) ts).
Proof.
  intros fo a0 fs Hp0 Hne H.
  assert (E : exists ts, Forall2 (fun f t => af_back fo a0 f t /\ nocomma t) fs ts).
  { clear Hne. induction fs as [|f fs IH]; [exists []; constructor|].
    destruct (af_one fo a0 f Hp0 (Forall_inv H)) as [t Ht]. destruct (IH (Forall_inv_tail H)) as [ts Hts]. exists (t :: ts). now constructor. }
  destruct E as [ts Hts]. exists ts. split; [clear - Hts; induction Hts as [|f t fs' ts' [X _] _ IH]; constructor; assumption|]. cbv zeta.
  assert (Hnames : map (fun e : frag_entry => fst (fst (fst e))) (map af_entry fs) = map af_name fs).
  { rewrite map_map. apply map_ext. intros [[[[F g] sp] D] dhl]. reflexivity. }
  assert (Hw : write_cgsmiles_fragments true (map af_entry fs) = Ok (S "{" ++ join (S ",") (map nt_def (combine (map af_name fs) ts)) ++ S "}")).
  { rewrite <- Hnames. apply write_definitions. clear - Hts. induction Hts as [|f t fs' ts' [X _] _ IH]; [constructor|]. cbn [map]. constructor; [|exact IH].
    destruct f as [[[[F g] sp] D] dhl]. cbn [af_entry]. destruct X as [T (_ & _ & _ & _ & W & _)]. exact W. }
  assert (Hs : fragment_split (S "{" ++ join (S ",") (map nt_def (combine (map af_name fs) ts)) ++ S "}") = combine (map af_name fs) ts).
  { apply split_definitions.
    - destruct fs as [|f fs]; [contradiction|]. inversion Hts; subst. discriminate.
    - clear Hne Hw Hnames. induction Hts as [|f t fs' ts' [X Hc] _ IH]; [constructor|]. cbn [map combine]. constructor; [|apply IH; exact (Forall_inv_tail H)].
      pose proof (Forall_inv H) as Hf. destruct f as [[[[F g] sp] D] dhl]. destruct Hf as (N1 & N2 & _). unfold nt_ok, af_name. cbn [fst snd]. auto. }
  split; [exact Hw|]. split; [exact Hs|]. unfold read_atom_fragments. now rewrite Hs.
Qed.

(** non-vacuity: two fragments, the first with a charged atom and an atom without default hydrogen count *)
Definition ex_ag2 : graph := mkag [(3, "C", 3, 0, []); (5, "S", 0, 0, [("$"%char, [], 1%nat)]); (9, "Br", 0, 0, [])]%string [(3, 5, 1); (5, 9, 1)].
Definition ex_asp2 (k : Z) : aspec := if Z.eqb k 5 then mksp "S" 0 0 true else if Z.eqb k 9 then mksp "Br" 0 0 true else mksp "C" 3 0 true.
Definition ex_aD2 (k : Z) : list dspec := if Z.eqb k 5 then [("$"%char, [], 1%nat)] else [].
Definition ex_afs : list afrag := [(S "X", ex_ag, ex_asp, ex_aD, [0; 1; 2; 3; 5; 6]); (S "Y", ex_ag2, ex_asp2, ex_aD2, [3; 5; 9])].
Definition ex_atxt := S "{#X=C[$a]([N+]([CH2]F)C#Cl=[<x].[!])=O[>],#Y=CS[$]Br}".
Lemma nonempty_dec (g : graph) : (0 <? length g)%nat = true -> g <> [].
Proof. intros H E. subst g. discriminate H. Qed.
Lemma ex_afs_ok : Forall af_ok ex_afs.
Proof.
  assert (NC : forall c, nocomma [c] <-> c <> ","%char) by (intros c; unfold nocomma; cbn; intuition).
  constructor; [|constructor; [|constructor]]; unfold af_ok.
  - split; [apply NC; discriminate|]. split; [intros [E|[]]; discriminate E|].
    split; [intros k; unfold ex_asp; repeat (match goal with |- context [Z.eqb k ?z] => destruct (Z.eqb k z) end); reflexivity|].
    split; [intros k; unfold ex_aD; repeat (match goal with |- context [Z.eqb k ?z] => destruct (Z.eqb k z) end); reflexivity|].
    split; [intros n Hn; apply atom_ok_dec; revert n Hn; apply forallb_forall; vm_compute; reflexivity|].
    split; [apply orders_ok_dec; vm_compute; reflexivity|]. split; [vm_compute; reflexivity|apply nonempty_dec; vm_compute; reflexivity].
  - split; [apply NC; discriminate|]. split; [intros [E|[]]; discriminate E|].
    split; [intros k; unfold ex_asp2; repeat (match goal with |- context [Z.eqb k ?z] => destruct (Z.eqb k z) end); reflexivity|].
    split; [intros k; unfold ex_aD2; repeat (match goal with |- context [Z.eqb k ?z] => destruct (Z.eqb k z) end); reflexivity|].
    split; [intros n Hn; apply atom_ok_dec; revert n Hn; apply forallb_forall; vm_compute; reflexivity|].
    split; [apply orders_ok_dec; vm_compute; reflexivity|]. split; [vm_compute; reflexivity|apply nonempty_dec; vm_compute; reflexivity].
Qed.
Example atom_fragments_example :
  Forall af_ok ex_afs
  /\ write_cgsmiles_fragments true (map af_entry ex_afs) = Ok ex_atxt
  /\ map fst (read_atom_fragments (fun _ => None) ex_atxt) = [S "X"; S "Y"]
  /\ map (fun nr => match snd nr with Ok Tm => (map (fun a => (aget (S "element") a, aget (S "charge") a, aget (S "bonding") a)) (t_nodes Tm), t_edges Tm) | Err _ => ([], []) end)
         (read_atom_fragments (fun _ => None) ex_atxt)
     = [([(Some (VStr (S "C")), Some (VInt 0), Some (VList [VStr (S "$a1")])); (Some (VStr (S "N")), Some (VInt 1), None); (Some (VStr (S "C")), Some (VInt 0), None);
          (Some (VStr (S "F")), Some (VInt 0), None); (Some (VStr (S "C")), Some (VInt 0), None);
          (Some (VStr (S "Cl")), Some (VInt 0), Some (VList [VStr (S "<x2"); VStr (S "!0")])); (Some (VStr (S "O")), Some (VInt 0), Some (VList [VStr (S ">1")]))],
         [(0, 1, VInt 1); (1, 2, VInt 1); (2, 3, VInt 1); (1, 4, VInt 1); (4, 5, VInt 3); (0, 6, VInt 2)]%nat);
        ([(Some (VStr (S "C")), Some (VInt 0), None); (Some (VStr (S "S")), Some (VInt 0), Some (VList [VStr (S "$1")])); (Some (VStr (S "Br")), Some (VInt 0), None)],
         [(0, 1, VInt 1); (1, 2, VInt 1)]%nat)].
Proof. split; [exact ex_afs_ok|]. split; [vm_compute; reflexivity|]. split; vm_compute; reflexivity. Qed.
