(** GraphOps: edges of a networkx graph after add_node / add_edge (facts about Base/NxGraph.v), and graphs
    built by replaying a log of operations: which nodes and which edges (with which order) they have. *)
From Coq Require Import String.
From Coq Require Import List Ascii ZArith Bool Lia.
From CGV Require Import Base.PyBase Base.PyVal Base.NxGraph Reader.GraphLemmas Reader.Grammar Write.WriteImpl Write.TreeDefs Write.TreeWrite.
Import ListNotations.
Open Scope Z_scope.

(** the attribute dict of the edge (x, y), if there is one *)
Definition ea (g : graph) (x y : Z) : option attrs := match edge_attrs g x y with Ok d => Some d | Err _ => None end.
Lemma has_edge_ea g x y : has_edge g x y = match ea g x y with Some _ => true | None => false end.
Proof. unfold has_edge, ea, edge_attrs. destruct (gfind x g) as [n|]; [|reflexivity]. destruct (adj_get y (nadj n)); reflexivity. Qed.

Lemma gfind_nk k g n : gfind k g = Some n -> nk n = k.
Proof. induction g as [|m r IH]; cbn; [discriminate|]. destruct (Z.eqb_spec (nk m) k); [now intros [= <-]|exact IH]. Qed.
Lemma adj_get_set y v d l : adj_get y (adj_set v d l) = if Z.eqb y v then Some d else adj_get y l.
Proof.
  induction l as [|[w b] l IH]; cbn [adj_set adj_get].
  - rewrite (Z.eqb_sym v y). destruct (Z.eqb y v); reflexivity.
  - destruct (Z.eqb_spec w v) as [->|N]; cbn [adj_get].
    + rewrite (Z.eqb_sym v y). destruct (Z.eqb y v); reflexivity.
    + destruct (Z.eqb_spec w y) as [->|N2].
      * destruct (Z.eqb_spec y v); [congruence|reflexivity].
      * exact IH.
Qed.

Lemma ea_add_node g k a x y : ea (add_node g k a) x y = ea g x y.
Proof.
  unfold ea, edge_attrs, add_node. destruct (has_node g k) eqn:E.
  - rewrite gfind_gupdate by (intros n; reflexivity). destruct (gfind x g) as [n|]; [|reflexivity].
    destruct (Z.eqb (nk n) k); reflexivity.
  - rewrite gfind_app. destruct (gfind x g) as [n|] eqn:Ex; [reflexivity|]. cbn [nk].
    destruct (Z.eqb_spec k x) as [->|]; [|reflexivity]. reflexivity.
Qed.

Lemma ea_add_edge g u v a x y : has_node g u = true -> has_node g v = true -> u <> v ->
  ea (add_edge g u v a) x y
  = if same_edge (x, y) (u, v) then Some (aupdate (match ea g u v with Some d => d | None => [] end) a) else ea g x y.
Proof.
  intros Hu Hv Huv. unfold add_edge. rewrite Hu, Hv.
  set (d := aupdate (match edge_attrs g u v with Ok d0 => d0 | Err _ => [] end) a).
  assert (Ed : aupdate (match ea g u v with Some d0 => d0 | None => [] end) a = d).
  { unfold d, ea. destruct (edge_attrs g u v); reflexivity. }
  rewrite Ed. unfold ea, edge_attrs. rewrite !gfind_gupdate by (intros n; reflexivity).
  unfold same_edge. cbn [fst snd].
  destruct (gfind x g) as [n|] eqn:Ex.
  - pose proof (gfind_nk _ _ _ Ex) as Hn. rewrite Hn.
    destruct (Z.eqb_spec x u) as [->|Nu].
    + cbn [nk]. destruct (Z.eqb_spec u v); [contradiction|]. cbn [nadj andb orb]. rewrite adj_get_set.
      destruct (Z.eqb y v); reflexivity.
    + rewrite Hn. destruct (Z.eqb_spec x v) as [->|Nv].
      * cbn [nadj andb orb]. rewrite adj_get_set. destruct (Z.eqb y u); reflexivity.
      * cbn [andb orb]. reflexivity.
  - unfold has_node in Hu, Hv.
    destruct (Z.eqb_spec x u) as [->|Nu]; [rewrite Ex in Hu; discriminate|].
    destruct (Z.eqb_spec x v) as [->|Nv]; [rewrite Ex in Hv; discriminate|]. reflexivity.
Qed.

(** the integer order of the edge (x, y) *)
Definition eo (g : graph) (x y : Z) : option Z :=
  match ea g x y with Some d => match aget (S "order") d with Some (VInt z) => Some z | _ => None end | None => None end.
Lemma eo_add_node g k a x y : eo (add_node g k a) x y = eo g x y.
Proof. unfold eo. now rewrite ea_add_node. Qed.
Lemma eo_add_edge g u v o x y : has_node g u = true -> has_node g v = true -> u <> v ->
  eo (add_edge g u v (eorder o)) x y = if same_edge (x, y) (u, v) then Some o else eo g x y.
Proof.
  intros Hu Hv Huv. unfold eo. rewrite ea_add_edge by assumption. destruct (same_edge (x, y) (u, v)); [|reflexivity].
  unfold eorder, aupdate. cbn [fold_left fst snd]. now rewrite aget_aset_same.
Qed.
Lemma has_edge_add_node g k a x y : has_edge (add_node g k a) x y = has_edge g x y.
Proof. now rewrite !has_edge_ea, ea_add_node. Qed.
Lemma has_edge_add_edge g u v a x y : has_node g u = true -> has_node g v = true -> u <> v ->
  has_edge (add_edge g u v a) x y = same_edge (x, y) (u, v) || has_edge g x y.
Proof. intros. rewrite !has_edge_ea, ea_add_edge by assumption. destruct (same_edge (x, y) (u, v)); reflexivity. Qed.

(** ------------------------------------------------------------------ logs of operations *)
Inductive gop := ONode (k : Z) (a : attrs) | OEdge (u v : Z) (o : Z).
Definition apply_op (g : graph) (op : gop) : graph :=
  match op with ONode k a => add_node g k a | OEdge u v o => add_edge g u v (eorder o) end.
Definition replay (L : list gop) (g : graph) : graph := fold_left apply_op L g.
Lemma replay_app a b g : replay (a ++ b) g = replay b (replay a g).
Proof. unfold replay. apply fold_left_app. Qed.

Definition log_nodes (L : list gop) : list Z := flat_map (fun op => match op with ONode k _ => [k] | OEdge _ _ _ => [] end) L.
Definition log_edges (L : list gop) : list (Z * Z * Z) := flat_map (fun op => match op with OEdge u v o => [(u, v, o)] | ONode _ _ => [] end) L.
(** a log is well formed when every node is added once and every edge joins two different nodes added before *)
Fixpoint log_wf (seen : list Z) (L : list gop) : Prop :=
  match L with
  | [] => True
  | ONode k _ :: r => ~ In k seen /\ log_wf (k :: seen) r
  | OEdge u v _ :: r => In u seen /\ In v seen /\ u <> v /\ log_wf seen r
  end.

Lemma replay_has_node : forall L g x, has_node (replay L g) x = has_node g x || memz x (log_nodes L) || existsb (fun e => Z.eqb (fst (fst e)) x || Z.eqb (snd (fst e)) x) (log_edges L).
Proof.
  induction L as [|op L IH]; intros g x; cbn [replay fold_left log_nodes log_edges flat_map].
  - cbn. now rewrite !orb_false_r.
  - fold (replay L (apply_op g op)). rewrite IH. destruct op as [k a|u v o]; cbn [apply_op app].
    + rewrite has_node_add_node. fold (log_nodes L) (log_edges L). unfold memz at 2. cbn [existsb]. fold (memz x (log_nodes L)).
      rewrite (Z.eqb_sym x k). destruct (has_node g x), (Z.eqb k x), (memz x (log_nodes L)); reflexivity.
    + rewrite has_node_add_edge. fold (log_nodes L) (log_edges L). cbn [existsb fst snd].
      destruct (has_node g x), (Z.eqb u x), (Z.eqb v x), (memz x (log_nodes L)); reflexivity.
Qed.

Definition edge_hit (x y : Z) (e : Z * Z * Z) : bool := same_edge (x, y) (fst e).
Lemma memz_cons x k l : memz x (k :: l) = Z.eqb x k || memz x l.
Proof. reflexivity. Qed.

Lemma replay_has_edge : forall L g seen x y, (forall z, has_node g z = memz z seen) -> log_wf seen L ->
  has_edge (replay L g) x y = has_edge g x y || existsb (edge_hit x y) (log_edges L).
Proof.
  induction L as [|op L IH]; intros g seen x y Hg Hw; cbn [replay fold_left log_edges flat_map].
  - cbn. now rewrite orb_false_r.
  - fold (replay L (apply_op g op)). destruct op as [k a|u v o]; cbn [apply_op app log_wf] in *.
    + destruct Hw as [Hk Hw]. rewrite (IH _ (k :: seen)); [|intros z; rewrite has_node_add_node, Hg, memz_cons, (Z.eqb_sym z k); apply orb_comm|exact Hw].
      now rewrite has_edge_add_node.
    + destruct Hw as (Hu & Hv & Huv & Hw).
      assert (Eu : has_node g u = true) by (rewrite Hg; now apply memz_true).
      assert (Ev : has_node g v = true) by (rewrite Hg; now apply memz_true).
      rewrite (IH _ seen); [| |exact Hw].
      * rewrite has_edge_add_edge by assumption. fold (log_edges L). cbn [existsb]. unfold edge_hit at 2. cbn [fst].
        destruct (same_edge (x, y) (u, v)), (has_edge g x y); reflexivity.
      * intros z. rewrite has_node_add_edge, Hg.
        destruct (Z.eqb_spec u z) as [<-|]; [rewrite (proj2 (memz_true u seen) Hu); reflexivity|].
        destruct (Z.eqb_spec v z) as [<-|]; [rewrite (proj2 (memz_true v seen) Hv); now rewrite orb_true_r|]. now rewrite !orb_false_r.
Qed.

Lemma find_app' {A} (f : A -> bool) l m : find f (l ++ m) = match find f l with Some x => Some x | None => find f m end.
Proof. induction l as [|a l IH]; cbn; [reflexivity|]. destruct (f a); [reflexivity|exact IH]. Qed.
(** the order of an edge of the replayed graph: that of the LAST operation on that pair *)
Definition last_hit (x y : Z) (edges : list (Z * Z * Z)) : option Z :=
  match find (edge_hit x y) (rev edges) with Some e => Some (snd e) | None => None end.
Lemma replay_eo : forall L g seen x y, (forall z, has_node g z = memz z seen) -> log_wf seen L ->
  eo (replay L g) x y = match last_hit x y (log_edges L) with Some o => Some o | None => eo g x y end.
Proof.
  induction L as [|op L IH]; intros g seen x y Hg Hw; cbn [replay fold_left log_edges flat_map].
  - reflexivity.
  - fold (replay L (apply_op g op)). destruct op as [k a|u v o]; cbn [apply_op app log_wf] in *.
    + destruct Hw as [Hk Hw]. rewrite (IH _ (k :: seen)); [|intros z; rewrite has_node_add_node, Hg, memz_cons, (Z.eqb_sym z k); apply orb_comm|exact Hw].
      now rewrite eo_add_node.
    + destruct Hw as (Hu & Hv & Huv & Hw).
      assert (Eu : has_node g u = true) by (rewrite Hg; now apply memz_true).
      assert (Ev : has_node g v = true) by (rewrite Hg; now apply memz_true).
      rewrite (IH _ seen); [| |exact Hw].
      * fold (log_edges L). unfold last_hit. cbn [rev]. rewrite find_app'.
        destruct (find (edge_hit x y) (rev (log_edges L))) as [e|]; [reflexivity|].
        cbn [find]. unfold edge_hit at 1. cbn [fst snd]. rewrite eo_add_edge by assumption.
        destruct (same_edge (x, y) (u, v)); reflexivity.
      * intros z. rewrite has_node_add_edge, Hg.
        destruct (Z.eqb_spec u z) as [<-|]; [rewrite (proj2 (memz_true u seen) Hu); reflexivity|].
        destruct (Z.eqb_spec v z) as [<-|]; [rewrite (proj2 (memz_true v seen) Hv); now rewrite orb_true_r|]. now rewrite !orb_false_r.
Qed.

(** attributes of the nodes of the replayed graph *)
Lemma replay_node_attrs : forall L g seen k a, (forall z, has_node g z = memz z seen) -> log_wf seen L ->
  In (ONode k a) L -> node_attrs (replay L g) k = Ok a.
Proof.
  induction L as [|op L IH]; intros g seen k a Hg Hw Hin; [contradiction|]. cbn [replay fold_left]. fold (replay L (apply_op g op)).
  assert (Keep : forall L' g' seen', (forall z, has_node g' z = memz z seen') -> log_wf seen' L' -> In k seen' ->
                   node_attrs (replay L' g') k = node_attrs g' k).
  { clear. induction L' as [|op L' IH']; intros g' seen' Hg' Hw' Hk; [reflexivity|]. cbn [replay fold_left]. fold (replay L' (apply_op g' op)).
    destruct op as [k2 a2|u v o]; cbn [apply_op log_wf] in *.
    - destruct Hw' as [Hk2 Hw']. rewrite (IH' _ (k2 :: seen')); [| |exact Hw'|now right].
      + apply node_attrs_add_node_other; [intros ->; contradiction|]. rewrite Hg'. now apply memz_true.
      + intros z. rewrite has_node_add_node, Hg', memz_cons, (Z.eqb_sym z k2). apply orb_comm.
    - destruct Hw' as (Hu & Hv & Huv & Hw'). rewrite (IH' _ seen'); [| |exact Hw'|exact Hk].
      + apply node_attrs_add_edge. rewrite Hg'. now apply memz_true.
      + intros z. rewrite has_node_add_edge, Hg'.
        destruct (Z.eqb_spec u z) as [<-|]; [rewrite (proj2 (memz_true u seen') Hu); reflexivity|].
        destruct (Z.eqb_spec v z) as [<-|]; [rewrite (proj2 (memz_true v seen') Hv); now rewrite orb_true_r|]. now rewrite !orb_false_r. }
  destruct op as [k2 a2|u v o]; cbn [apply_op log_wf] in *.
  - destruct Hw as [Hk2 Hw].
    assert (Hg2 : forall z, has_node (add_node g k2 a2) z = memz z (k2 :: seen)).
    { intros z. rewrite has_node_add_node, Hg, memz_cons, (Z.eqb_sym z k2). apply orb_comm. }
    destruct Hin as [E|Hin].
    + inversion E; subst. rewrite (Keep L _ (k :: seen) Hg2 Hw (or_introl eq_refl)).
      apply node_attrs_add_node_new. rewrite Hg. now apply memz_false_iff.
    + now apply (IH _ (k2 :: seen)).
  - destruct Hw as (Hu & Hv & Huv & Hw). destruct Hin as [E|Hin]; [discriminate|].
    apply (IH _ seen); [|exact Hw|exact Hin].
    intros z. rewrite has_node_add_edge, Hg.
    destruct (Z.eqb_spec u z) as [<-|]; [rewrite (proj2 (memz_true u seen) Hu); reflexivity|].
    destruct (Z.eqb_spec v z) as [<-|]; [rewrite (proj2 (memz_true v seen) Hv); now rewrite orb_true_r|]. now rewrite !orb_false_r.
Qed.
