(** FullDomain: the quantifier of C07 as the check states it ([wf_C07]: non-empty, well-formed, connected, every node
    a valid name and no `bonding`, every edge an integer order 0..4) implies every hypothesis of
    FullRound.C07_roundtrip: the graph is plain, has a smallest key, and a valid name (letters, digits, '_') is
    accepted by the reader's grammar and parsed by the node parser without consulting the float oracle. *)
From Coq Require Import String.
From Coq Require Import List Ascii ZArith Bool Lia.
From CGV Require Import Base.PyBase Base.PyVal Base.PyGen Base.NxGraph Gen.DialectGen Dialect.DialectImpl.
From CGV Require Import Write.WriteImpl Write.WriteDefs Write.WfFacts Write.ConnFacts Write.TreeRound Write.GraphOps
     Write.FullRound Write.ContractBridge Write.WriteRound.
From CGV Require Import Reader.ReaderImpl Reader.Grammar.
Import ListNotations.
Open Scope Z_scope.

(** ------------------------------------------------------------------ names *)
Lemma name_char_facts c : name_char c = true ->
  c <> ";"%char /\ c <> "="%char /\ c <> "]"%char /\ (32 <= nat_of_ascii c)%nat /\ (nat_of_ascii c <= 126)%nat.
Proof.
  intros H.
  assert (R : (32 <= nat_of_ascii c)%nat /\ (nat_of_ascii c <= 126)%nat /\ nat_of_ascii c <> 59%nat /\ nat_of_ascii c <> 61%nat /\ nat_of_ascii c <> 93%nat).
  { unfold name_char, is_alnum, is_alpha, is_digit in H. destruct (Ascii.eqb_spec c "_"%char) as [E|N].
    - rewrite E. cbn. lia.
    - rewrite orb_false_r in H.
      repeat match type of H with
             | (_ || _) = true => apply orb_prop in H; destruct H as [H|H]
             | (_ && _) = true => let A := fresh in apply andb_prop in H; destruct H as [A H]; apply Nat.leb_le in A
             end; apply Nat.leb_le in H; lia. }
  destruct R as (R1 & R2 & R3 & R4 & R5). repeat split; try assumption; intros ->; cbn in *; lia.
Qed.
Lemma split_on_none c : forall s cur, ~ In c s -> split_on c s cur = [rev cur ++ s].
Proof.
  induction s as [|x r IH]; intros cur H; cbn [split_on]; [now rewrite app_nil_r|].
  destruct (Ascii.eqb_spec x c) as [->|N]; [exfalso; apply H; now left|].
  rewrite IH by (intros Hin; apply H; now right). cbn [rev]. now rewrite <- app_assoc.
Qed.
Lemma count_none c s : ~ In c s -> py_count s c = 0%nat.
Proof.
  unfold py_count. induction s as [|x r IH]; intros H; [reflexivity|]. cbn [filter].
  destruct (Ascii.eqb_spec c x) as [->|N]; [exfalso; apply H; now left|]. apply IH. intros Hin. apply H. now right.
Qed.
(** what parse_graph_base_node returns for a bare name *)
Definition base_attrs (s : pystr) : attrs :=
  match bind_cast (fun _ => None) graph_base_dialect [s] [] with Ok a => a | Err _ => [] end.
Lemma valid_name_parse fo s : valid_name s = true -> parse_graph_base_node fo s = Ok (base_attrs s).
Proof.
  intros H. unfold valid_name in H.
  assert (Hs : split_annotation s = split_entries (py_split s ";"%char) [] []) by (destruct s; [discriminate|reflexivity]).
  assert (Hc : forall c, In c s -> name_char c = true) by (destruct s; [discriminate|]; rewrite forallb_forall in H; exact H).
  assert (N1 : ~ In ";"%char s) by (intros Hin; apply Hc in Hin; apply name_char_facts in Hin; tauto).
  assert (N2 : ~ In "="%char s) by (intros Hin; apply Hc in Hin; apply name_char_facts in Hin; tauto).
  unfold parse_graph_base_node, parse_dialect. rewrite Hs.
  unfold py_split. rewrite (split_on_none _ s [] N1). cbn [rev app split_entries].
  rewrite (count_none _ s N2). cbn [Nat.ltb Nat.leb]. unfold py_split. rewrite (split_on_none _ s [] N2). cbn [rev app split_entries bind].
  unfold base_attrs. reflexivity.
Qed.
Lemma base_attrs_fragname s : aget (S "fragname") (base_attrs s) = Some (VStr s).
Proof. reflexivity. Qed.
Lemma valid_name_ok fo s : valid_name s = true -> name_ok fo s = true.
Proof.
  intros H. unfold name_ok. rewrite (valid_name_parse fo s H). apply andb_true_intro. split; [|reflexivity].
  unfold valid_name in H. destruct s; [discriminate|]. rewrite forallb_forall in *. intros c Hc. specialize (H c Hc).
  destruct (name_char_facts c H) as (_ & _ & A & B & C).
  apply andb_true_intro. split; [apply andb_true_intro; split|].
  - apply negb_true_iff. now apply Ascii.eqb_neq.
  - now apply Nat.leb_le.
  - now apply Nat.leb_le.
Qed.

(** ------------------------------------------------------------------ the graph *)
Lemma order_ok_eqb d a : attrs_eqb_ordered d a = true -> order_ok d = true -> order_ok a = true.
Proof.
  intros He Hd. pose proof (aget_eqb_ordered d a (S "order") He) as K. unfold order_ok in *.
  destruct (aget (S "order") d) as [[| |z| | | | |]|]; try discriminate.
  destruct (aget (S "order") a) as [y|]; [|contradiction]. destruct y; try discriminate. cbn in K. apply Z.eqb_eq in K. now subst.
Qed.
Lemma int_order_ok a : match int_order a with Some o => (0 <=? o) && (o <=? 4) | None => false end = true -> order_ok a = true.
Proof. unfold int_order, order_ok. destruct (aget (S "order") a) as [[| |z| | | | |]|]; auto. Qed.

(** every adjacency entry is listed by G.edges from one of its two ends *)
Lemma adj_entry_listed g n v a : graph_wf g = true -> In n g -> In (v, a) (nadj n) ->
  In (nk n, v, a) (edges_data g) \/ exists d, In (v, nk n, d) (edges_data g) /\ attrs_eqb_ordered d a = true.
Proof.
  intros Hwf Hn Ha. destruct (graph_wf_facts g Hwf) as [Hc ND].
  pose proof Hn as Hn'. apply in_split in Hn' as [l1 [l2 Hg]].
  destruct (in_dec Z.eq_dec v (map nk l1)) as [Hv|Hv].
  - right. apply in_map_iff in Hv as [m [Em Hm]]. apply in_split in Hm as [l1a [l1b Hl1]].
    assert (Hmg : In m g) by (rewrite Hg, Hl1; apply in_or_app; left; apply in_or_app; right; now left).
    (* the entry of the other direction *)
    pose proof Hwf as Hw. unfold graph_wf in Hw. apply andb_prop in Hw as [_ Hw]. rewrite forallb_forall in Hw.
    specialize (Hw n Hn). apply andb_prop in Hw as [_ Hw]. rewrite forallb_forall in Hw. specialize (Hw (v, a) Ha).
    apply andb_prop in Hw as [_ Hw]. cbn [fst snd] in Hw. unfold edge_attrs in Hw.
    rewrite <- Em, (gfind_unique g m ND Hmg) in Hw. cbn [bind] in Hw.
    destruct (adj_get (nk n) (nadj m)) as [d|] eqn:Ed; [|discriminate]. cbn [of_option bind] in Hw.
    exists d. split; [|exact Hw]. apply adj_get_in' in Ed.
    assert (Hnu : ~ In (nk n) (map nk l1a)).
    { rewrite Hg in ND. unfold node_keys in ND. rewrite map_app in ND. cbn [map] in ND.
      apply NoDup_remove_2 in ND. intros Hin. apply ND. apply in_or_app. left. rewrite Hl1, map_app. apply in_or_app. now left. }
    pose proof (edges_from_complete l1a m (l1b ++ n :: l2) [] (nk n) d Ed (fun H => H) Hnu) as Hin.
    unfold edges_data. rewrite Hg, Hl1, <- app_assoc. cbn [app]. rewrite Em in Hin. exact Hin.
  - left. pose proof (edges_from_complete l1 n l2 [] v a Ha (fun H => H) Hv) as Hin. unfold edges_data. now rewrite Hg.
Qed.

Theorem wf_plain g : wf_C07 g = true -> plain_graph g = true /\ connected g = true /\ exists start, min_node g = Ok start.
Proof.
  intros H. unfold wf_C07 in H. apply andb_prop in H as [H He]. apply andb_prop in H as [H Hn]. apply andb_prop in H as [H Hcon].
  apply andb_prop in H as [Hne Hwf]. rewrite forallb_forall in He, Hn.
  split; [|split; [exact Hcon|]].
  - unfold plain_graph. rewrite Hwf. cbn [andb]. apply forallb_forall. intros n Hin. specialize (Hn n Hin).
    apply andb_prop in Hn as [N1 N2]. rewrite N2. 
    destruct (aget (S "fragname") (na n)) as [[| | | |s| | |]|]; try discriminate. cbn [andb].
    apply forallb_forall. intros [v a] Hva. cbn [snd].
    destruct (adj_entry_listed g n v a Hwf Hin Hva) as [L|[d [L Hd]]].
    + apply int_order_ok. exact (He _ L).
    + apply (order_ok_eqb d a Hd). apply int_order_ok. exact (He _ L).
  - unfold min_node, node_keys. destruct g; [discriminate|]. cbn [map]. eauto.
Qed.
Lemma wf_valid_names g k : wf_C07 g = true -> In k (node_keys g) -> valid_name (name_of g k) = true.
Proof.
  intros H Hk. unfold wf_C07 in H. apply andb_prop in H as [H _]. apply andb_prop in H as [_ Hn]. rewrite forallb_forall in Hn.
  destruct (in_keys_gfind g k Hk) as [n [Hf Hin]]. specialize (Hn n Hin). apply andb_prop in Hn as [N1 _].
  unfold name_of, node_name, node_get. rewrite Hf.
  destruct (aget (S "fragname") (na n)) as [[| | | |s| | |]|]; try discriminate. exact N1.
Qed.

Lemma graph_iso_ext A B g h : (forall k, In k (node_keys g) -> A k = B k) -> graph_iso A g h -> graph_iso B g h.
Proof.
  intros E [phi (H1 & H2 & H3 & H4)]. exists phi. repeat split; auto.
  - now apply H1.
  - rewrite <- (E k H). now apply H1.
Qed.
Lemma name_of_outside g k : ~ In k (node_keys g) -> name_of g k = [].
Proof.
  intros H. unfold name_of, node_name, node_get. destruct (gfind k g) as [n|] eqn:E; [|reflexivity].
  exfalso. apply H. now apply (gfind_key k g n).
Qed.

(** C07 on the check's own domain, with the boolean contract the check evaluates on every case: no further
    hypothesis.  The attributes of the node read back for k are what the node parser returns for k's name. *)
Theorem C07_roundtrip_wf : forall g tr, wf_C07 g = true -> ring_contract g (dfs_tree g) tr = true ->
  exists s h, write_cgsmiles_graph g tr = Ok s /\ read_cgsmiles no_float s = Ok h
              /\ graph_iso (fun k => base_attrs (name_of g k)) g h.
Proof.
  intros g tr Hwf Hrc. destruct (wf_plain g Hwf) as (Hp & Hcon & start & Hmin).
  set (A := fun k => match parse_graph_base_node no_float (name_of g k) with Ok a => a | Err _ => [] end).
  destruct (C07_roundtrip_contract no_float A g tr start Hp Hcon Hmin Hrc) as [s [h (W & R & I)]].
  - intros k Hk. apply valid_name_ok. now apply wf_valid_names.
  - intros k. unfold A. destruct (in_dec Z.eq_dec k (node_keys g)) as [Hk|Hk].
    + now rewrite (valid_name_parse no_float _ (wf_valid_names g k Hwf Hk)).
    + rewrite (name_of_outside g k Hk). reflexivity.
  - exists s, h. split; [exact W|]. split; [exact R|]. apply (graph_iso_ext A); [|exact I].
    intros k Hk. unfold A. now rewrite (valid_name_parse no_float _ (wf_valid_names g k Hwf Hk)).
Qed.
