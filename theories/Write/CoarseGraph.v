(** CoarseGraph: C08 for coarse fragment graphs of ANY shape (branches, rings), unbounded.
    The fragment graph is a plain connected graph g0 (the names) decorated with a descriptor list per node
    ([decorate F D g0]: fragname = the fragment's name F on every node, the node's own name in atomname, its
    descriptors in bonding -- the attributes read_fragment_cgsmiles builds).  write_graph(name_attr='atomname')
    writes it; the strip model (through the strip component's strip_correct) splits the text into the clean text
    and the descriptor dict; the model of read_fragment_cgsmiles reads the clean text (reader component's
    reader_sim_lin_nobrace) as a graph isomorphic to g0 (C07's machinery) and post-processes it. *)
From Coq Require Import String.
From Coq Require Import List Ascii ZArith Bool Lia.
From CGV Require Import Base.PyBase Base.PyVal Base.PyGen Base.NxGraph Gen.WriterGen Dialect.DialectImpl.
From CGV Require Import Write.WriteImpl Write.WriteDefs Write.WriteProofs Write.FormatBondingSpec Write.FormatStripRound Write.CoarseChain.
From CGV Require Import Write.TreeDefs Write.TreeWrite Write.TreeTables Write.DfsProofs Write.WfFacts Write.ConnFacts Write.TreeRead Write.PathRound
     Write.TreeRound Write.RingDefs Write.RingTables Write.RingClose Write.RingRead Write.RingRound Write.GraphOps Write.FlatMachine Write.FlatSpec Write.RingSim Write.RingInv Write.FullMachine Write.FullIso Write.FullRound
     Write.ContractBridge Write.WriteRound Write.FullDomain Write.GraphStruct Write.FullCode.
From CGV Require Import Frag.NDict Frag.StripImpl Frag.FragText Frag.FragProofs.
From CGV Require Import Reader.ReaderImpl Reader.Grammar Reader.Lin Reader.ReaderEnd Write.FragRead.
Import ListNotations.
Open Scope Z_scope.

(** ------------------------------------------------------------------ the decorated graph *)
Section Decorate.
  Variable F : pystr.
  Variable D : Z -> list dspec.
  Definition dnode (n : nrec) : nrec :=
    {| nk := nk n; na := fattrs F (nm (na n), D (nk n)); nadj := nadj n |}.
  Definition decorate_graph (g : graph) : graph := map dnode g.

  Lemma dec_gfind g k : gfind k (decorate_graph g) = option_map dnode (gfind k g).
  Proof. induction g as [|n g IH]; [reflexivity|]. cbn [decorate_graph map gfind dnode nk]. destruct (Z.eqb (nk n) k); [reflexivity|exact IH]. Qed.
  Lemma dec_keys g : node_keys (decorate_graph g) = node_keys g.
  Proof. unfold node_keys, decorate_graph. rewrite map_map. reflexivity. Qed.
  Lemma dec_neighbors g k : neighbors (decorate_graph g) k = neighbors g k.
  Proof. unfold neighbors. rewrite dec_gfind. destruct (gfind k g); reflexivity. Qed.
  Lemma dec_length g : length (decorate_graph g) = length g.
  Proof. apply map_length. Qed.
  Lemma dec_min_node g : min_node (decorate_graph g) = min_node g.
  Proof. unfold min_node. now rewrite dec_keys. Qed.
  Lemma fold_left_ext {X Y} (f1 f2 : X -> Y -> X) : (forall a b, f1 a b = f2 a b) -> forall l a, fold_left f1 l a = fold_left f2 l a.
  Proof. intros H. induction l as [|b l IH]; intros a; [reflexivity|]. cbn. rewrite H. apply IH. Qed.
  Lemma dec_dfs_visit g : forall fuel u st, dfs_visit fuel (decorate_graph g) u st = dfs_visit fuel g u st.
  Proof.
    induction fuel as [|f IH]; intros u st; [reflexivity|]. cbn [dfs_visit]. rewrite dec_neighbors.
    apply fold_left_ext. intros acc v. destruct acc as [st'|]; [|reflexivity]. cbn [bind]. destruct (memz v (fst st')); [reflexivity|apply IH].
  Qed.
  Lemma dec_dfs_edges g start : dfs_edges (decorate_graph g) start = dfs_edges g start.
  Proof. unfold dfs_edges. now rewrite dec_length, dec_dfs_visit. Qed.
  Lemma dec_edge_attrs g u v : edge_attrs (decorate_graph g) u v = edge_attrs g u v.
  Proof. unfold edge_attrs. rewrite dec_gfind. destruct (gfind u g); reflexivity. Qed.
End Decorate.

(** ------------------------------------------------------------------ what the writer writes for a decorated node *)
(** descriptors behind the "]" of the node, written as part of the "name" the generic printer brackets *)
Definition dsuffix (Ds : list dspec) : pystr := match fbt Ds with [] => [] | c :: r => "]"%char :: removelast (c :: r) end.
Lemma fbt_last Ds : fbt Ds = [] \/ exists p, fbt Ds = p ++ S "]".
Proof.
  unfold fbt, fb_expected. induction Ds as [|d Ds IH]; [now left|]. right. cbn [map concat].
  destruct IH as [E|[p E]]; rewrite E.
  - rewrite app_nil_r. unfold fb_item, wrap. eexists. rewrite !app_assoc. reflexivity.
  - eexists. rewrite app_assoc. reflexivity.
Qed.
Lemma dsuffix_spec n Ds : S "[#" ++ (n ++ dsuffix Ds) ++ S "]" = S "[#" ++ n ++ S "]" ++ fbt Ds.
Proof.
  unfold dsuffix. destruct (fbt_last Ds) as [E|[p E]]; rewrite E.
  - now rewrite !app_nil_r.
  - change (S "]") with ["]"%char] in *. destruct (p ++ ["]"%char]) as [|c r] eqn:Ep; [destruct p; discriminate|]. rewrite <- Ep, removelast_last.
    cbn [S list_ascii_of_string app]. rewrite <- !app_assoc. reflexivity.
Qed.

Section DecWrite.
  Variable F : pystr.
  Variable D : Z -> list dspec.
  Variable g : graph.
  Hypothesis Hp : plain_graph g = true.
  Hypothesis Har : forall n, In n g -> aget (S "aromatic") (na n) = None.
  Hypothesis HD : forall k, forallb d_ok (D k) = true.
  Notation G := (decorate_graph F D g).
  Definition dname (k : Z) : pystr := name_of g k ++ dsuffix (D k).

  Lemma dec_node_text dh k : In k (node_keys g) -> node_text_by (S "atomname") false dh G k = Ok (ntext dname k).
  Proof.
    intros Hk. destruct (in_keys_gfind g k Hk) as [n [Hf Hn]].
    assert (Hnm : name_of g k = nm (na n)).
    { unfold name_of, node_name, node_get, nm. rewrite Hf. destruct (aget (S "fragname") (na n)) as [[| | | |s| | |]|]; reflexivity. }
    unfold node_text_by, format_node_by, bonding_suffix, node_attrs. rewrite dec_gfind, Hf. cbn [option_map dnode na bind nk].
    rewrite aget_fragname, aget_atomname, aget_bonding. cbn [of_option bind py_format fst snd].
    assert (Hb : (if truthy (VList (map VStr (map d_stored (D (nk n)))))
                  then l <- as_list (VList (map VStr (map d_stored (D (nk n))))) ;; ds <- strs_of l ;; format_bonding ds else Ok [])
                 = Ok (fbt (D (nk n)))).
    { destruct (D (nk n)) as [|d Ds] eqn:ED; [reflexivity|]. rewrite <- ED.
      assert (Et : truthy (VList (map VStr (map d_stored (D (nk n))))) = true) by (rewrite ED; reflexivity).
      rewrite Et. cbn [as_list bind]. rewrite strs_of_map. cbn [bind]. apply fb_dspec. apply HD. }
    rewrite Hb. cbn [bind]. unfold ntext, dname. rewrite dsuffix_spec, Hnm.
    destruct (gfind_some k g n Hf) as [_ Ek]. rewrite Ek. now rewrite <- !app_assoc.
  Qed.
  Lemma dec_edge_text p k : In p (node_keys g) -> edge_text G p k = edge_text g p k.
  Proof.
    intros Hpk. destruct (in_keys_gfind g p Hpk) as [n [Hf Hn]].
    assert (F1 : node_flag G p (S "aromatic") = Ok false).
    { unfold node_flag, node_attrs. rewrite dec_gfind, Hf. reflexivity. }
    assert (F2 : node_flag g p (S "aromatic") = Ok false).
    { unfold node_flag, node_attrs. rewrite Hf. cbn [bind]. now rewrite (Har n Hn). }
    assert (F3 : edge_order G p k = edge_order g p k) by (unfold edge_order; now rewrite dec_edge_attrs).
    unfold edge_text, write_edge_symbol. rewrite F1, F2, F3. reflexivity.
  Qed.
End DecWrite.

(** ------------------------------------------------------------------ the item list does not depend on the names *)
Definition set_name (i : lin) (s : pystr) : lin :=
  {| l_open := l_open i; l_name := s; l_mult := l_mult i; l_rings := l_rings i; l_bond := l_bond i; l_close := l_close i |}.
Definition rename_lins (ls : list lin) (ns : list pystr) : list lin := map (fun p => set_name (fst p) (snd p)) (combine ls ns).
Lemma rename_app a b na nb : length a = length na -> rename_lins (a ++ b) (na ++ nb) = rename_lins a na ++ rename_lins b nb.
Proof.
  unfold rename_lins. revert na. induction a as [|x a IH]; intros [|y na] H; try discriminate; [reflexivity|].
  cbn [app combine map]. f_equal. apply IH. now inversion H.
Qed.

Section Rename.
  Variables (name1 name2 : Z -> pystr) (esym : Z -> Z -> option sym) (rlist : Z -> list nat) (rsym_o : nat -> option sym).
  Notation tl1 := (tlinsR name1 esym rlist rsym_o).
  Notation tl2 := (tlinsR name2 esym rlist rsym_o).
  Notation bl1 := (blinsR name1 esym rlist rsym_o).
  Notation bl2 := (blinsR name2 esym rlist rsym_o).
  Definition RenP (t : rtree) : Prop := forall isb d ns mk,
    snd (tl2 isb d ns mk t) = snd (tl1 isb d ns mk t)
    /\ length (fst (tl1 isb d ns mk t)) = length (worder t)
    /\ fst (tl2 isb d ns mk t) = rename_lins (fst (tl1 isb d ns mk t)) (map name2 (worder t)).
  Lemma worder_cons k c1 bs : worder (RNode k (c1 :: bs)) = k :: worder_branches bs ++ worder c1.
  Proof. reflexivity. Qed.
  Lemma worder_branches_cons c r : worder_branches (c :: r) = worder_branches r ++ worder c.
  Proof. reflexivity. Qed.
  Lemma tlinsR_rename : forall t, RenP t.
  Proof.
    apply rtree_ind2. intros k cs IH isb d ns mk. destruct cs as [|c1 bs].
    - cbn [RingRead.tlinsR worder]. destruct (ring_items rsym_o false mk (rlist k)) as [mk1 rs]. cbn [fst snd length map]. repeat split.
    - rewrite !tlinsR_unfold, worder_cons. cbv zeta. set (d1 := if isb then Datatypes.S d else d).
      destruct (ring_items rsym_o false mk (rlist k)) as [mk1 rs].
      assert (B : forall l prev, Forall RenP l ->
                  snd (bl2 k d1 mk1 prev l) = snd (bl1 k d1 mk1 prev l)
                  /\ length (fst (bl1 k d1 mk1 prev l)) = length (worder_branches l)
                  /\ fst (bl2 k d1 mk1 prev l) = rename_lins (fst (bl1 k d1 mk1 prev l)) (map name2 (worder_branches l))).
      { induction l as [|c r IHr]; intros prev Hl; [repeat split|]. rewrite !blinsR_cons, worder_branches_cons.
        destruct (IHr c (Forall_inv_tail Hl)) as (E1 & E2 & E3).
        destruct (bl1 k d1 mk1 c r) as [l2 mk2]. destruct (bl2 k d1 mk1 c r) as [l2' mk2']. cbn [fst snd] in E1, E2, E3. subst mk2'.
        destruct (Forall_inv Hl true d1 (esym k (rkey prev)) mk2) as (F1 & F2 & F3).
        destruct (tl1 true d1 (esym k (rkey prev)) mk2 c) as [l1 mk3]. destruct (tl2 true d1 (esym k (rkey prev)) mk2 c) as [l1' mk3'].
        cbn [fst snd] in *. split; [exact F1|]. split; [rewrite !app_length; lia|].
        rewrite map_app, rename_app by (now rewrite map_length). now rewrite E3, F3. }
      destruct (B bs c1 (Forall_inv_tail IH)) as (E1 & E2 & E3).
      destruct (bl1 k d1 mk1 c1 bs) as [lb mkb]. destruct (bl2 k d1 mk1 c1 bs) as [lb' mkb']. cbn [fst snd] in E1, E2, E3. subst mkb'.
      destruct (Forall_inv IH false d1 ns mkb) as (F1 & F2 & F3).
      destruct (tl1 false d1 ns mkb c1) as [lc mkc]. destruct (tl2 false d1 ns mkb c1) as [lc' mkc']. cbn [fst snd] in *.
      split; [exact F1|]. split; [cbn [length]; rewrite !app_length; lia|].
      cbn [map]. unfold rename_lins at 1. cbn [combine map fst snd]. f_equal.
      fold (rename_lins (lb ++ lc) (map name2 (worder_branches bs ++ worder c1))).
      rewrite map_app, rename_app by (now rewrite map_length). now rewrite E3, F3.
  Qed.
End Rename.

(** ------------------------------------------------------------------ the strip side, flat: items with their descriptors *)
Definition sb (s : sym) : bsym := match s with SDot => BZero | SSingle => BSingle | SDouble => BDouble | STriple => BTriple | SQuad => BQuad end.
Lemma sb_char s : [bchar (sb s)] = osym_str (Some s).
Proof. destruct s; reflexivity. Qed.
Definition btoks (o : option sym) : list ditem := match o with Some s => [ITok (FragText.TBond (sb s))] | None => [] end.
Definition rtok (om : option sym * marker) : ditem := ITok (FragText.TRing (option_map sb (fst om)) (marker_str (snd om))).
Definition ditems1 (x : lin * list dspec) : list ditem :=
  let '(i, Ds) := x in
  (if l_open i then [ITok FragText.TOpen] else [])
  ++ ITok (FragText.TBracket ("#"%char :: l_name i) None) :: map IDesc (map to_desc Ds)
  ++ map rtok (l_rings i) ++ btoks (l_bond i)
  ++ match l_close i with Some a => ITok FragText.TClose :: btoks a | None => [] end.
Definition ditems (dl : list (lin * list dspec)) : list ditem := flat_map ditems1 dl.

Lemma render_btoks o : render (btoks o) = osym_str o.
Proof. destruct o as [s|]; [|reflexivity]. unfold render. cbn [btoks flat_map render_item render_tok app]. now rewrite <- sb_char. Qed.
Lemma render_rtoks rs : render (map rtok rs) = concat (map plain_item rs).
Proof.
  unfold render. induction rs as [|[o m] rs IH]; [reflexivity|]. cbn [map flat_map concat]. rewrite IH. f_equal.
  unfold rtok, plain_item. cbn [render_item render_tok fst snd]. destruct o as [s|]; [|reflexivity]. cbn [option_map optb]. now rewrite sb_char.
Qed.
Lemma render_app a b : render (a ++ b) = render a ++ render b.
Proof. unfold render. apply flat_map_app. Qed.
(** one item: the text the writer writes for the node with its descriptors *)
Lemma render_cons it r : render (it :: r) = render_item it ++ render r.
Proof. reflexivity. Qed.
Lemma render_ditems1 i Ds : forallb d_ok Ds = true -> l_mult i = None -> ok_rings false (l_rings i) = true ->
  render (ditems1 (i, Ds)) = lin_str (set_name i (l_name i ++ dsuffix Ds)).
Proof.
  intros Hd Hm Hr.
  assert (R : lin_str (set_name i (l_name i ++ dsuffix Ds))
              = (if l_open i then ["("%char] else []) ++ (S "[#" ++ l_name i ++ S "]" ++ fbt Ds)
                ++ concat (map plain_item (l_rings i)) ++ osym_str (l_bond i) ++ close_str (l_close i)).
  { unfold lin_str, lin_tail_str. cbn [set_name l_open l_name l_mult l_rings l_bond l_close].
    rewrite Hm, (rings_str_plain _ false Hr). cbn [mult_str app]. f_equal. rewrite <- dsuffix_spec.
    cbn [S list_ascii_of_string app]. rewrite <- !app_assoc. reflexivity. }
  rewrite R. unfold ditems1. rewrite render_app. f_equal; [destruct (l_open i); reflexivity|].
  rewrite render_cons, !render_app, render_rtoks, render_btoks.
  assert (Ed : render (map IDesc (map to_desc Ds)) = fbt Ds) by (unfold render; now apply render_descs).
  assert (Ec : render (match l_close i with Some a => ITok FragText.TClose :: btoks a | None => [] end) = close_str (l_close i)).
  { destruct (l_close i) as [a|]; [|reflexivity]. rewrite render_cons, render_btoks. reflexivity. }
  rewrite Ed, Ec. cbn [render_item render_tok S list_ascii_of_string app]. rewrite <- !app_assoc. reflexivity.
Qed.

(** well-formedness of the item list in the strip grammar, decided on the flat list *)
Definition has_sym (o : option sym) : bool := match o with Some _ => true | None => false end.
Definition zone_after (i : lin) : zone :=
  if has_sym (l_bond i) || match l_close i with Some a => has_sym a | None => false end then ZBond else ZAtom.
Fixpoint dl_wf (z : zone) (depth : nat) (dl : list (lin * list dspec)) : bool :=
  match dl with
  | [] => is_zatom z && Nat.eqb depth 0
  | (i, Ds) :: r =>
      (if l_open i then is_zatom z else true)
      && body_ok ("#"%char :: l_name i) && forallb d_ok Ds
      && forallb (fun om => FragText.marker_ok (marker_str (snd om))) (l_rings i)
      && (let d1 := if l_open i then Datatypes.S depth else depth in
          match l_close i with
          | Some _ => negb (has_sym (l_bond i)) && match d1 with O => false | Datatypes.S d2 => dl_wf (zone_after i) d2 r end
          | None => dl_wf (zone_after i) d1 r
          end)
  end.
Lemma wf_rtoks rs depth rest : forallb (fun om => FragText.marker_ok (marker_str (snd om))) rs = true ->
  wf_items ZAtom depth (map rtok rs ++ rest) = wf_items ZAtom depth rest.
Proof.
  induction rs as [|om rs IH]; intros H; [reflexivity|]. cbn [forallb] in H. apply andb_prop in H as [H1 H2].
  cbn [map app rtok wf_items tok_ok is_zatom]. rewrite H1. cbn [andb]. now apply IH.
Qed.
Lemma wf_btoks o depth rest : wf_items ZAtom depth (btoks o ++ rest) = wf_items (if has_sym o then ZBond else ZAtom) depth rest.
Proof. destruct o; reflexivity. Qed.
Lemma dl_wf_items : forall dl z depth, dl_wf z depth dl = true -> wf_items z depth (ditems dl) = true.
Proof.
  induction dl as [|[i Ds] r IH]; intros z depth H; [exact H|]. cbn [dl_wf] in H.
  apply andb_prop in H as [H H5]. apply andb_prop in H as [H H4]. apply andb_prop in H as [H H3]. apply andb_prop in H as [H1 H2].
  unfold ditems. cbn [flat_map]. fold (ditems r). unfold ditems1. rewrite <- app_assoc, <- app_comm_cons, <- !app_assoc.
  set (d1 := if l_open i then Datatypes.S depth else depth) in *.
  set (tailc := match l_close i with Some a => ITok FragText.TClose :: btoks a | None => [] end ++ ditems r).
  assert (Hopen : wf_items z depth ((if l_open i then [ITok FragText.TOpen] else []) ++
                    ITok (FragText.TBracket ("#"%char :: l_name i) None) :: map IDesc (map to_desc Ds) ++ map rtok (l_rings i) ++ btoks (l_bond i) ++ tailc)
                  = wf_items ZAtom d1 (map rtok (l_rings i) ++ btoks (l_bond i) ++ tailc)).
  { unfold d1. destruct (l_open i); cbn [app wf_items tok_ok annot_ok]; rewrite ?H1, H2; cbn [andb];
      rewrite wf_descs by exact H3; reflexivity. }
  rewrite Hopen, wf_rtoks by exact H4. rewrite wf_btoks. unfold tailc.
  destruct (l_close i) as [a|] eqn:Ec.
  - apply andb_prop in H5 as [Hb H5]. apply negb_true_iff in Hb. rewrite Hb.
    rewrite <- app_comm_cons. cbn [wf_items tok_ok is_zatom andb]. destruct d1 as [|d2]; [discriminate|].
    rewrite wf_btoks. apply IH.
    unfold zone_after in H5. rewrite Hb, Ec in H5. cbn [orb] in H5. exact H5.
  - cbn [app]. apply IH. unfold zone_after in H5. rewrite Ec, orb_false_r in H5. exact H5.
Qed.

(** ------------------------------------------------------------------ what the strip specification returns on the item list *)
Section FlatSpec.
  Variables (fo : float_oracle) (a0 : attrs).
  Hypothesis Hp0 : fragment_node_parser fo [] = Ok a0.

  (** descriptor dict and annotation dict: node number n, n+1, ... in the order of writing *)
  Fixpoint ddict (n : nat) (dl : list (lin * list dspec)) (d : ndict (list pystr)) : ndict (list pystr) :=
    match dl with [] => d | (_, Ds) :: r => ddict (Datatypes.S n) r (fold_left (fun d y => nd_append n (d_stored y) d) Ds d) end.
  Fixpoint adict (n : nat) (dl : list (lin * list dspec)) (d : ndict attrs) : ndict attrs :=
    match dl with [] => d | _ :: r => adict (Datatypes.S n) r (nd_update n a0 d) end.
  Definition core (sp : sst) := (s_n sp, s_clean sp, s_desc sp, s_ez sp, s_ann sp).

  Definition emit_clean (sp : sst) (s : pystr) : sst :=
    {| s_n := s_n sp; s_owner := s_owner sp; s_stack := s_stack sp; s_clean := s_clean sp ++ s; s_desc := s_desc sp; s_ez := s_ez sp; s_ann := s_ann sp |}.
  Lemma spec_rtoks : forall rs sp, exists sp', spec_run fo sp (map rtok rs) = Ok sp'
    /\ core sp' = (s_n sp, s_clean sp ++ concat (map plain_item rs), s_desc sp, s_ez sp, s_ann sp) /\ s_owner sp' = s_owner sp.
  Proof.
    induction rs as [|[o m] rs IH]; intros sp.
    - exists sp. cbn. rewrite app_nil_r. destruct sp; repeat split.
    - cbn [map spec_run rtok spec_item spec_tok bind]. 
      match goal with |- context [spec_run fo ?s (map rtok rs)] => destruct (IH s) as [sp' (E & C & O)] end.
      exists sp'. split; [exact E|]. split; [|exact O]. rewrite C. cbn [s_n s_clean s_desc s_ez s_ann concat map].
      rewrite <- app_assoc. repeat f_equal. unfold plain_item. cbn [clean_tok render_tok fst snd]. destruct o as [s|]; [|reflexivity].
      cbn [option_map optb]. now rewrite sb_char.
  Qed.
  Lemma spec_btoks o sp : exists sp', spec_run fo sp (btoks o) = Ok sp'
    /\ core sp' = (s_n sp, s_clean sp ++ osym_str o, s_desc sp, s_ez sp, s_ann sp).
  Proof.
    destruct o as [s|]; cbn [btoks spec_run spec_item spec_tok bind].
    - eexists. split; [reflexivity|]. unfold core. cbn [s_n s_clean s_desc s_ez s_ann clean_tok render_tok]. now rewrite sb_char.
    - exists sp. split; [reflexivity|]. unfold core. now rewrite app_nil_r.
  Qed.

  (** one item *)
  Lemma spec_ditems1 i Ds sp : forallb d_ok Ds = true -> l_mult i = None -> ok_rings false (l_rings i) = true ->
    exists sp', spec_run fo sp (ditems1 (i, Ds)) = Ok sp'
      /\ core sp' = (Datatypes.S (s_n sp), s_clean sp ++ lin_str i,
                     fold_left (fun d y => nd_append (s_n sp) (d_stored y) d) Ds (s_desc sp), s_ez sp, nd_update (s_n sp) a0 (s_ann sp)).
  Proof.
    intros Hd Hm Hr. unfold ditems1.
    (* "(" *)
    set (sp1 := if l_open i then {| s_n := s_n sp; s_owner := s_owner sp; s_stack := s_owner sp :: s_stack sp; s_clean := s_clean sp ++ ["("%char];
                                   s_desc := s_desc sp; s_ez := s_ez sp; s_ann := s_ann sp |} else sp).
    assert (E1 : spec_run fo sp (if l_open i then [ITok FragText.TOpen] else []) = Ok sp1) by (unfold sp1; destruct (l_open i); reflexivity).
    assert (C1 : core sp1 = (s_n sp, s_clean sp ++ (if l_open i then ["("%char] else []), s_desc sp, s_ez sp, s_ann sp)).
    { unfold sp1, core. destruct (l_open i); cbn [s_n s_clean s_desc s_ez s_ann]; [reflexivity|now rewrite app_nil_r]. }
    rewrite spec_run_app, E1. cbn [bind]. cbn [spec_run spec_item spec_tok]. rewrite Hp0. cbn [bind].
    set (sp2 := {| s_n := Datatypes.S (s_n sp1); s_owner := s_n sp1; s_stack := s_stack sp1;
                   s_clean := s_clean sp1 ++ clean_tok (FragText.TBracket ("#"%char :: l_name i) None);
                   s_desc := s_desc sp1; s_ez := s_ez sp1; s_ann := nd_update (s_n sp1) a0 (s_ann sp1) |}).
    rewrite spec_run_app, (spec_descs fo sp2 Ds Hd). cbn [bind].
    match goal with |- context [spec_run fo ?s (map rtok (l_rings i) ++ _)] => set (sp3 := s) end.
    rewrite spec_run_app. destruct (spec_rtoks (l_rings i) sp3) as [sp4 (E4 & C4 & O4)]. rewrite E4. cbn [bind].
    rewrite spec_run_app. destruct (spec_btoks (l_bond i) sp4) as [sp5 (E5 & C5)]. rewrite E5. cbn [bind].
    assert (E6 : exists sp6, spec_run fo sp5 (match l_close i with Some a => ITok FragText.TClose :: btoks a | None => [] end) = Ok sp6
                 /\ core sp6 = (s_n sp5, s_clean sp5 ++ close_str (l_close i), s_desc sp5, s_ez sp5, s_ann sp5)).
    { destruct (l_close i) as [a|].
      - cbn [spec_run spec_item spec_tok bind].
        match goal with |- context [spec_run fo ?s (btoks a)] => destruct (spec_btoks a s) as [sp6 (E6 & C6)] end.
        exists sp6. split; [exact E6|]. rewrite C6. cbn [s_n s_clean s_desc s_ez s_ann clean_tok render_tok close_str]. now rewrite <- app_assoc.
      - exists sp5. split; [reflexivity|]. unfold core. cbn [close_str]. now rewrite app_nil_r. }
    destruct E6 as [sp6 (E6 & C6)]. exists sp6. split; [exact E6|].
    rewrite C6. unfold core in C5, C4, C1. inversion C5 as [[A1 A2 A3 A4 A5]]. inversion C4 as [[B1 B2 B3 B4 B5]]. inversion C1 as [[D1 D2 D3 D4 D5]].
    rewrite A1, A2, A3, A4, A5, B1, B2, B3, B4, B5. unfold sp3, sp2. cbn [s_n s_owner s_clean s_desc s_ez s_ann].
    rewrite D1, D2, D3, D4, D5.
    unfold lin_str, lin_tail_str. rewrite Hm, (rings_str_plain _ false Hr). cbn [mult_str clean_tok app]. rewrite <- !app_assoc. cbn [app]. rewrite <- !app_assoc. reflexivity.
  Qed.

  Definition dl_ok (dl : list (lin * list dspec)) : Prop :=
    Forall (fun x => forallb d_ok (snd x) = true /\ l_mult (fst x) = None /\ ok_rings false (l_rings (fst x)) = true) dl.
  Lemma spec_ditems : forall dl sp, dl_ok dl ->
    exists sp', spec_run fo sp (ditems dl) = Ok sp'
      /\ core sp' = ((s_n sp + length dl)%nat, s_clean sp ++ lins_str (map fst dl), ddict (s_n sp) dl (s_desc sp), s_ez sp, adict (s_n sp) dl (s_ann sp)).
  Proof.
    induction dl as [|[i Ds] r IH]; intros sp H.
    - exists sp. split; [reflexivity|]. unfold core. cbn [length map lins_str flat_map ddict adict]. now rewrite Nat.add_0_r, app_nil_r.
    - unfold ditems. cbn [flat_map]. fold (ditems r). rewrite spec_run_app.
      destruct (Forall_inv H) as (Hd & Hm & Hr). cbn [fst snd] in *.
      destruct (spec_ditems1 i Ds sp Hd Hm Hr) as [sp1 (E1 & C1)]. rewrite E1. cbn [bind].
      destruct (IH sp1 (Forall_inv_tail H)) as [sp' (E & C)]. exists sp'. split; [exact E|]. rewrite C.
      unfold core in C1. inversion C1 as [[A1 A2 A3 A4 A5]]. rewrite A1, A2, A3, A4, A5.
      cbn [length map lins_str flat_map ddict adict]. fold (lins_str (map fst r)). rewrite <- app_assoc.
      replace (Datatypes.S (s_n sp) + length r)%nat with (s_n sp + Datatypes.S (length r))%nat by lia. reflexivity.
  Qed.

  (** strip_bonding_descriptors on the text of the decorated items *)
  Lemma strip_items items : wf_items ZStart 0 items = true -> has_mult items = false ->
    strip_bonding_descriptors fo (render items) = (sp' <- spec_run fo sinit items ;; Ok (sres sp')).
  Proof.
    intros W HM. unfold strip_bonding_descriptors. rewrite init_top.
    change (m <- run fo (top sinit None) (render items);; finish m) with (whole fo (top sinit None) (render items)).
    apply (main fo items ZStart 0 (top sinit None) sinit None); auto.
    - exact I.
    - intros H; contradiction.
  Qed.
  Lemma nomult_ditems dl : has_mult (ditems dl) = false.
  Proof.
    unfold has_mult, ditems. induction dl as [|[i Ds] r IH]; [reflexivity|]. cbn [flat_map]. rewrite existsb_app, IH, orb_false_r.
    unfold ditems1. rewrite existsb_app. destruct (l_open i); cbn [existsb orb]; rewrite !existsb_app;
      assert (E1 : existsb (fun it => match it with ITok (TMult _) => true | _ => false end) (map IDesc (map to_desc Ds)) = false) by (induction Ds; [reflexivity|assumption]);
      assert (E2 : existsb (fun it => match it with ITok (TMult _) => true | _ => false end) (map rtok (l_rings i)) = false) by (induction (l_rings i); [reflexivity|assumption]);
      rewrite E1, E2; destruct (l_bond i), (l_close i) as [[?|]|]; reflexivity.
  Qed.
  Theorem strip_ditems dl : dl_ok dl -> dl_wf ZStart 0 dl = true ->
    strip_bonding_descriptors fo (render (ditems dl)) = Ok (lins_str (map fst dl), ddict 0 dl [], [], adict 0 dl []).
  Proof.
    intros Hok Hwf. rewrite strip_items; [|now apply dl_wf_items|apply nomult_ditems].
    destruct (spec_ditems dl sinit Hok) as [sp' (E & C)]. rewrite E. cbn [bind]. unfold sres. unfold core in C.
    inversion C as [[A1 A2 A3 A4 A5]]. cbn [sinit s_n s_clean s_desc s_ez s_ann app] in *. now rewrite A2, A3, A4, A5.
  Qed.
End FlatSpec.

(** ------------------------------------------------------------------ the isomorphism from the explicit facts *)
Lemma explicit_graph_iso A g (fl : list frec) L :
  NoDup (map f_old fl) -> NoDup (map f_new fl) -> (forall k, In k (node_keys g) <-> In k (map f_old fl)) ->
  log_wf [] L -> log_nodes L = map f_new fl ->
  (forall rc, In rc fl -> In (ONode (f_new rc) (A (f_old rc))) L) ->
  (forall r1 r2, In r1 fl -> In r2 fl -> eo (replay L gempty) (f_new r1) (f_new r2) = eo g (f_old r1) (f_old r2)) ->
  (forall e, In e (log_edges L) -> exists ra rb, In ra fl /\ In rb fl /\ fst e = (f_new ra, f_new rb)) ->
  graph_iso A g (replay L gempty).
Proof.
  intros HWo HWn Hk M2 Nn Nd Hiso Hedge.
  assert (Hrec : forall k, In k (node_keys g) -> exists r, In r fl /\ f_old r = k).
  { intros k Hin. apply Hk in Hin. apply in_map_iff in Hin as [r [E1 H1]]. eauto. }
  exists (phi_of fl). split; [|split; [|split]].
  - intros k Hin. destruct (Hrec k Hin) as [r [Hr <-]]. rewrite (phi_of_rec fl r HWo Hr). split.
    + rewrite replay_has_node. assert (In (f_new r) (log_nodes L)) by (rewrite Nn; now apply in_map).
      rewrite (proj2 (memz_true _ _) H). now rewrite orb_true_r.
    + apply (replay_node_attrs L gempty [] _ _ gempty_nodes M2). now apply Nd.
  - intros k1 k2 H1 H2 E. destruct (Hrec k1 H1) as [r1 [Hr1 <-]]. destruct (Hrec k2 H2) as [r2 [Hr2 <-]].
    rewrite !phi_of_rec in E by assumption. f_equal. apply (nodup_map_inj f_new fl); auto.
  - intros x Hx. rewrite replay_has_node in Hx. cbn [has_node gempty gfind orb] in Hx.
    assert (Hin : exists r, In r fl /\ f_new r = x).
    { apply orb_prop in Hx as [Hx|Hx].
      - apply memz_true in Hx. rewrite Nn in Hx. apply in_map_iff in Hx as [r [E1 H1]]. eauto.
      - apply existsb_exists in Hx as [e [He Hh]]. destruct (Hedge e He) as [ra [rb (Ra & Rb & Ee)]].
        destruct e as [[u v] o]. cbn [fst snd] in *. inversion Ee; subst.
        apply orb_prop in Hh as [Hh|Hh]; apply Z.eqb_eq in Hh; eauto. }
    destruct Hin as [r [Hr <-]]. exists (f_old r). split; [|now apply phi_of_rec]. apply Hk. now apply in_map.
  - intros u v Hu Hv. destruct (Hrec u Hu) as [r1 [Hr1 <-]]. destruct (Hrec v Hv) as [r2 [Hr2 <-]].
    rewrite !phi_of_rec by assumption. now apply Hiso.
Qed.

(** no multiplier in the writer's items *)
Lemma tlinsR_nomult name esym rlist rsym_o : forall t isb d ns mk,
  Forall (fun i => l_mult i = None) (fst (tlinsR name esym rlist rsym_o isb d ns mk t)).
Proof.
  apply (rtree_ind2 (fun t => forall isb d ns mk, Forall (fun i => l_mult i = None) (fst (tlinsR name esym rlist rsym_o isb d ns mk t)))).
  intros k cs IH isb d ns mk. destruct cs as [|c1 bs].
  - cbn [RingRead.tlinsR]. destruct (ring_items rsym_o false mk (rlist k)) as [mk1 rs]. cbn [fst]. constructor; [reflexivity|constructor].
  - rewrite tlinsR_unfold. cbv zeta. set (d1 := if isb then Datatypes.S d else d).
    destruct (ring_items rsym_o false mk (rlist k)) as [mk1 rs].
    assert (B : forall l prev, Forall (fun t => forall isb d ns mk, Forall (fun i => l_mult i = None) (fst (tlinsR name esym rlist rsym_o isb d ns mk t))) l ->
                Forall (fun i => l_mult i = None) (fst (blinsR name esym rlist rsym_o k d1 mk1 prev l))).
    { induction l as [|c r IHr]; intros prev Hl; [constructor|]. rewrite blinsR_cons.
      specialize (IHr c (Forall_inv_tail Hl)). destruct (blinsR name esym rlist rsym_o k d1 mk1 c r) as [l2 mk2]. cbn [fst] in IHr.
      pose proof (Forall_inv Hl true d1 (esym k (rkey prev)) mk2) as Hc.
      destruct (tlinsR name esym rlist rsym_o true d1 (esym k (rkey prev)) mk2 c) as [l1 mk3]. cbn [fst] in *. apply Forall_app. auto. }
    specialize (B bs c1 (Forall_inv_tail IH)). destruct (blinsR name esym rlist rsym_o k d1 mk1 c1 bs) as [lb mkb]. cbn [fst] in B.
    pose proof (Forall_inv IH false d1 ns mkb) as Hc.
    destruct (tlinsR name esym rlist rsym_o false d1 ns mkb c1) as [lc mkc]. cbn [fst] in *.
    constructor; [reflexivity|]. apply Forall_app. auto.
Qed.

Lemma render_dl (D : Z -> list dspec) (name : Z -> pystr) : (forall k, forallb d_ok (D k) = true) ->
  forall items ks, (forall p, In p (combine items ks) -> l_name (fst p) = name (snd p)) ->
  Forall (fun i => l_mult i = None /\ ok_rings false (l_rings i) = true) items ->
  render (ditems (combine items (map D ks))) = lins_str (rename_lins items (map (fun k => name k ++ dsuffix (D k)) ks)).
Proof.
  intros HD. induction items as [|i items IH]; intros ks Hn Hi; [reflexivity|]. destruct ks as [|k ks]; [reflexivity|].
  cbn [map combine]. unfold ditems, rename_lins, lins_str. cbn [flat_map combine map fst snd].
  fold (ditems (combine items (map D ks))). rewrite render_app.
  destruct (Forall_inv Hi) as [Hm Hr].
  rewrite (render_ditems1 i (D k) (HD k) Hm Hr). pose proof (Hn (i, k) (or_introl eq_refl)) as En. cbn [fst snd] in En. rewrite En. f_equal.
  apply IH; [intros p Hp; apply Hn; now right|exact (Forall_inv_tail Hi)].
Qed.
Lemma self_rename (name : Z -> pystr) : forall (items : list lin) (ks : list Z), length items = length ks ->
  items = rename_lins items (map name ks) -> forall p, In p (combine items ks) -> l_name (fst p) = name (snd p).
Proof.
  induction items as [|i items IH]; intros [|k ks] Hl E p Hp; try contradiction; try discriminate.
  unfold rename_lins in E. cbn [map combine fst snd] in E. inversion E as [[E1 E2]]. destruct Hp as [<-|Hp].
  - cbn [fst snd]. rewrite E1 at 1. reflexivity.
  - apply (IH ks); [now inversion Hl|exact E2|exact Hp].
Qed.
Lemma combine_fst {X Y} : forall (a : list X) (b : list Y), length a = length b -> map fst (combine a b) = a.
Proof. induction a as [|x a IH]; intros [|y b] H; try discriminate; [reflexivity|]. cbn. f_equal. apply IH. now inversion H. Qed.

(** ------------------------------------------------------------------ the round trip of a coarse fragment graph *)
(** the post-processing of read_fragment_cgsmiles on the graph read from the clean text *)
Definition post_fragment (F : pystr) (h : graph) (bd : ndict (list pystr)) (ann : ndict attrs) : graph :=
  let g1 := set_nodes_from h (S "atomname") (get_node_attributes h (S "fragname")) in
  let g2 := set_nodes_from g1 (S "bonding") (bonding_values bd) in
  let g3 := set_all_nodes g2 (S "fragname") (VStr F) in
  let g4 := set_all_nodes g3 (S "fragid") (VInt 0) in
  let g5 := set_all_nodes g4 (S "w") (VInt 1) in
  update_nodes_from g5 (node_updates ann).

Lemma coarse_graph_roundtrip_core : forall fo a0 dh F (D : Z -> list dspec) g tr,
  fragment_node_parser fo [] = Ok a0 ->
  wf_C07 g = true -> (forall n, In n g -> aget (S "aromatic") (na n) = None) ->
  ring_contract g (dfs_tree g) tr = true ->
  (forall k, forallb d_ok (D k) = true) ->
  exists T, NoDup (rkeys T) /\ (forall x, In x (rkeys T) <-> In x (node_keys g)) /\
    let items := the_items (name_of g) (esym_of g) (rsym_of g tr) T tr in
    let dl := combine items (map D (worder T)) in
    dl_ok dl /\ map fst dl = items /\
    (* whatever shows that the strip model splits the text of the decorated item list as the specification says *)
    (strip_bonding_descriptors fo (render (ditems dl)) = Ok (lins_str items, ddict 0 dl [], [], adict a0 0 dl []) ->
     exists txt h, txt = render (ditems dl) /\ write_graph_by (S "atomname") false dh (decorate_graph F D g) tr = Ok txt
       /\ strip_bonding_descriptors fo txt = Ok (lins_str items, ddict 0 dl [], [], adict a0 0 dl [])
       /\ read_cgsmiles fo (lins_str items) = Ok h
       /\ graph_iso (fun k => base_attrs (name_of g k)) g h
       /\ read_coarse_fragment fo F txt = Ok (post_fragment F h (ddict 0 dl []) (adict a0 0 dl []))).
Proof.
  intros fo a0 dh F D g tr Hp0 Hwf Har Hrc HD. destruct (wf_plain g Hwf) as (Hp & Hcon & start & Hmin).
  assert (Hgw : graph_wf g = true) by (unfold plain_graph in Hp; now apply andb_prop in Hp as [H _]).
  destruct (graph_wf_facts g Hgw) as [Hclosed NDg].
  destruct (ring_contract_props g tr Hgw Hrc) as (R1 & R2 & R3 & R4).
  set (A := fun k => match parse_graph_base_node fo (name_of g k) with Ok a => a | Err _ => [] end).
  assert (HA : forall k, In k (node_keys g) -> A k = base_attrs (name_of g k)).
  { intros k Hk. unfold A. now rewrite (valid_name_parse fo _ (wf_valid_names g k Hwf Hk)). }
  destruct (C07_roundtrip_explicit fo A g tr start Hp Hcon Hmin R1 R2 R3 R4) as [T [r (W & Wv & [B1 B2] & B3 & A5 & X)]].
  { intros k Hk. apply valid_name_ok. now apply wf_valid_names. }
  { intros k. unfold A. destruct (in_dec Z.eq_dec k (node_keys g)) as [Hk|Hk].
    - now rewrite (valid_name_parse fo _ (wf_valid_names g k Hwf Hk)).
    - rewrite (name_of_outside g k Hk). reflexivity. }
  exists T. split; [exact B3|]. split; [exact A5|]. cbv zeta.
  cbv zeta in X.
  set (fl := the_flat (esym_of g) (rsym_of g tr) T tr) in *.
  set (L := the_log (esym_of g) (rsym_of g tr) A T tr) in *.
  destruct X as (_ & M1 & M2 & Nn & Nd & Hiso & Hedge).
  set (items := the_items (name_of g) (esym_of g) (rsym_of g tr) T tr) in *.
  set (dl := combine items (map D (worder T))) in *.
  set (G := decorate_graph F D g).
  (* the items *)
  destruct (tlinsR_rename (name_of g) (name_of g) (esym_of g) (rlist_of tr) (rsym_of g tr) T false 0%nat None []) as (_ & Hlen & Eself).
  destruct (tlinsR_rename (name_of g) (dname D g) (esym_of g) (rlist_of tr) (rsym_of g tr) T false 0%nat None []) as (_ & _ & Eren).
  fold items in Hlen, Eself, Eren. change (fst (tlinsR (name_of g) (esym_of g) (rlist_of tr) (rsym_of g tr) false 0 None [] T)) with items in *.
  assert (Hmr : Forall (fun i => l_mult i = None /\ ok_rings false (l_rings i) = true) items).
  { pose proof (tlinsR_nomult (name_of g) (esym_of g) (rlist_of tr) (rsym_of g tr) T false 0%nat None []) as Hm.
    pose proof (tlinsR_rings_plain (name_of g) (esym_of g) (rlist_of tr) (rsym_of g tr) T false 0%nat None []) as Hr.
    unfold rings_plain in Hr. rewrite forallb_forall in Hr. rewrite Forall_forall in *. intros i Hi. split; [now apply Hm|now apply Hr]. }
  (* 1. the writer *)
  assert (Hkeys : forall k, In k (rkeys T) -> In k (node_keys g)) by (intros k; apply A5).
  assert (Wd : write_graph_by (S "atomname") false dh G tr = Ok (lins_str (fst (tlinsR (dname D g) (esym_of g) (rlist_of tr) (rsym_of g tr) false 0 None [] T)))).
  { unfold write_graph_by, write_graph_full_by. unfold G. rewrite dec_min_node, Hmin. cbn [bind]. rewrite dec_dfs_edges, B2. cbn [bind].
    rewrite dec_length. rewrite <- B1.
    rewrite (write_graph_transcript false _ _ _ (ntext (dname D g)) (stext (esym_of g)) T tr (length g) B3).
    - cbn [bind]. rewrite (wtextR_ext false (ntext (dname D g)) (stext (esym_of g)) (rlist_of tr) _ (rsymt (rsym_of g tr))).
      + pose proof (wtextR_lins_all (dname D g) (esym_of g) (rlist_of tr) (rsym_of g tr) T None false 0%nat None []) as E.
        cbn [insym app osym_str] in E. rewrite app_nil_r in E.
        destruct (wtextR false (ntext (dname D g)) (stext (esym_of g)) (rlist_of tr) (rsymt (rsym_of g tr)) None false 0 [] T) as [[tx mk'] trc].
        cbn [fst r_text] in *. now rewrite E.
      + intros ri. unfold rsymt_of, rsymt, rsym_of. destruct (nth_error tr (ri - 1)) as [bond|] eqn:En; [|reflexivity].
        assert (Hb : In bond tr) by (now apply nth_error_In in En). destruct (R1 bond Hb) as [_ Hnb].
        assert (Hfk : In (fst bond) (node_keys g)).
        { unfold neighbors in Hnb. destruct (gfind (fst bond) g) as [n|] eqn:Eg; [|contradiction]. now apply (gfind_key _ _ n). }
        rewrite (dec_edge_text F D g Har (fst bond) (snd bond) Hfk), (plain_edge g Hp (fst bond) (snd bond) Hnb). reflexivity.
    - pose proof (NoDup_incl_length B3 Hkeys) as Hl. unfold rsize, node_keys in *. now rewrite map_length in Hl.
    - intros k Hk. apply (dec_node_text F D g HD dh k). now apply Hkeys.
    - intros e He. assert (Hadj : In (snd e) (neighbors g (fst e))).
      { destruct (dfs_shape g start _ B2) as [T' (D1 & D2 & _ & _ & D5 & _)]. rewrite D2 in He. now apply D5. }
      assert (Hfk : In (fst e) (node_keys g)).
      { unfold neighbors in Hadj. destruct (gfind (fst e) g) as [n|] eqn:Eg; [|contradiction]. now apply (gfind_key _ _ n). }
      rewrite (dec_edge_text F D g Har _ _ Hfk). now apply plain_edge.
    - intros bond Hb. destruct (R1 bond Hb) as [_ Hnb].
      assert (Hfk : In (fst bond) (node_keys g)).
      { unfold neighbors in Hnb. destruct (gfind (fst bond) g) as [n|] eqn:Eg; [|contradiction]. now apply (gfind_key _ _ n). }
      eexists. rewrite (dec_edge_text F D g Har _ _ Hfk). now apply plain_edge. }
  (* 2. the text is the rendering of the decorated items *)
  assert (Etxt : lins_str (fst (tlinsR (dname D g) (esym_of g) (rlist_of tr) (rsym_of g tr) false 0 None [] T)) = render (ditems dl)).
  { rewrite Eren. unfold dl. symmetry. apply (render_dl D (name_of g) HD); [|exact Hmr].
    apply (self_rename (name_of g) items (worder T) Hlen Eself). }
  (* 3. the strip model *)
  assert (Hok : dl_ok dl).
  { unfold dl_ok, dl. apply Forall_forall. intros [i Ds] Hin. cbn [fst snd].
    pose proof (in_combine_l _ _ _ _ Hin) as Hi. pose proof (in_combine_r _ _ _ _ Hin) as Hd. apply in_map_iff in Hd as [k [<- _]].
    rewrite Forall_forall in Hmr. destruct (Hmr i Hi). auto. }
  assert (Hfst : map fst dl = items) by (unfold dl; apply combine_fst; now rewrite map_length).
  split; [exact Hok|]. split; [exact Hfst|]. intros St.
  (* 4. the reader on the clean text *)
  assert (Hlok : lins_ok fo items = true).
  { unfold lins_ok, items, the_items.
    rewrite (tlinsR_ok fo (name_of g) (esym_of g) (rlist_of tr) (rsym_of g tr) T false 0%nat None []).
    - pose proof (tlinsR_depth (name_of g) (esym_of g) (rlist_of tr) (rsym_of g tr) T false 0%nat None [] []) as Hd. rewrite app_nil_r in Hd. rewrite Hd.
      cbn [dout Nat.sub lin_depth andb]. apply tlinsR_first.
    - intros k Hk. apply valid_name_ok. apply wf_valid_names; [exact Hwf|now apply Hkeys]. }
  assert (Rd : read_cgsmiles fo (lins_str items) = Ok (replay L gempty)) by (rewrite (reader_sim_lin_nobrace fo items Hlok); exact M1).
  exists (render (ditems dl)), (replay L gempty). split; [reflexivity|]. split; [rewrite Wd; f_equal; exact Etxt|]. split; [exact St|]. split; [exact Rd|]. split.
  - apply (graph_iso_ext A); [exact HA|].
    apply (explicit_graph_iso A g fl L).
    + unfold fl. rewrite flat_old. now apply worder_nodup.
    + unfold fl. rewrite flat_new. apply zseq_nodup.
    + intros k. rewrite <- A5. symmetry. apply (flat_in_old (esym_of g) (rsym_of g tr) T tr).
    + exact M2.
    + exact Nn.
    + exact Nd.
    + exact Hiso.
    + intros e He. destruct (Hedge e He) as [ra [rb (H1 & H2 & H3 & _)]]. eauto.
  - unfold read_coarse_fragment. rewrite St. cbn [bind]. unfold read_fragment_cgsmiles. rewrite Rd. cbn [bind]. reflexivity.
Qed.

Theorem coarse_graph_roundtrip : forall fo a0 dh F (D : Z -> list dspec) g tr,
  fragment_node_parser fo [] = Ok a0 ->
  wf_C07 g = true -> (forall n, In n g -> aget (S "aromatic") (na n) = None) ->
  ring_contract g (dfs_tree g) tr = true ->
  (forall k, forallb d_ok (D k) = true) ->
  exists T, NoDup (rkeys T) /\ (forall x, In x (rkeys T) <-> In x (node_keys g)) /\
    let items := the_items (name_of g) (esym_of g) (rsym_of g tr) T tr in
    let dl := combine items (map D (worder T)) in
    (* the decorated item list is a text of the strip grammar (in particular: no bond symbol directly before "(") *)
    (dl_wf ZStart 0 dl = true ->
     exists txt h, write_graph_by (S "atomname") false dh (decorate_graph F D g) tr = Ok txt
       /\ strip_bonding_descriptors fo txt = Ok (lins_str items, ddict 0 dl [], [], adict a0 0 dl [])
       /\ read_cgsmiles fo (lins_str items) = Ok h
       /\ graph_iso (fun k => base_attrs (name_of g k)) g h
       /\ read_coarse_fragment fo F txt = Ok (post_fragment F h (ddict 0 dl []) (adict a0 0 dl []))).
Proof.
  intros fo a0 dh F D g tr Hp0 Hwf Har Hrc HD.
  destruct (coarse_graph_roundtrip_core fo a0 dh F D g tr Hp0 Hwf Har Hrc HD) as [T (B3 & A5 & X)].
  exists T. split; [exact B3|]. split; [exact A5|]. cbv zeta in *. destruct X as (Hok & Hfst & X). intros Hdl.
  destruct X as [txt [h (_ & R)]]; [|exists txt, h; exact R].
  rewrite (strip_ditems fo a0 Hp0 _ Hok Hdl). now rewrite Hfst.
Qed.


(** non-vacuity: a fragment with a branch, a ring (closing edge of order 2) and a double bond on the chain; descriptors
    of three kinds and orders 1, 2, 0 *)
Definition ex_cg : graph :=
  WriteRound.mkg [(0, "A"); (1, "B"); (2, "C"); (3, "PEO")]%string [(0, 1, 2); (1, 2, 1); (2, 0, 2); (1, 3, 1)].
Definition ex_cD (k : Z) : list dspec :=
  if Z.eqb k 0 then [("$"%char, S "a", 1%nat)] else if Z.eqb k 3 then [(">"%char, [], 2%nat); ("!"%char, S "x", 0%nat)] else [].
Definition ex_cT : rtree := RNode 0 [RNode 1 [RNode 2 []; RNode 3 []]].
Definition ex_ctr : list (Z * Z) := nontree_edges ex_cg (dfs_tree ex_cg).

Example coarse_graph_example :
  wf_C07 ex_cg = true /\ ring_contract ex_cg (dfs_tree ex_cg) ex_ctr = true /\ dfs_edges ex_cg 0 = Ok (redges ex_cT)
  /\ dl_wf ZStart 0 (combine (the_items (name_of ex_cg) (esym_of ex_cg) (rsym_of ex_cg ex_ctr) ex_cT ex_ctr) (map ex_cD (worder ex_cT))) = true
  /\ write_graph_by (S "atomname") false (fun _ => true) (decorate_graph (S "X") ex_cD ex_cg) ex_ctr
     = Ok (S "[#A][$a]=1=[#B]([#PEO]=[>].[!x])[#C]1")
  /\ match read_coarse_fragment (fun _ => None) (S "X") (S "[#A][$a]=1=[#B]([#PEO]=[>].[!x])[#C]1") with
     | Ok h => map (fun n => (nk n, aget (S "atomname") (na n), aget (S "bonding") (na n), aget (S "fragname") (na n), map fst (nadj n))) h
               = [(0, Some (VStr (S "A")), Some (VList [VStr (S "$a1")]), Some (VStr (S "X")), [1; 3]);
                  (1, Some (VStr (S "B")), None, Some (VStr (S "X")), [0; 2; 3]);
                  (2, Some (VStr (S "PEO")), Some (VList [VStr (S ">2"); VStr (S "!x0")]), Some (VStr (S "X")), [1]);
                  (3, Some (VStr (S "C")), None, Some (VStr (S "X")), [1; 0])]
     | Err _ => False
     end.
Proof.
  split; [vm_compute; reflexivity|]. split; [vm_compute; reflexivity|]. split; [vm_compute; reflexivity|].
  split; [vm_compute; reflexivity|]. split; [vm_compute; reflexivity|]. vm_compute. reflexivity.
Qed.
