(** RingDefs: the recursive description of what write_graph writes for ANY DFS transcript: a rose tree of
    tree edges plus ring indices on the nodes ([wtextR] = [wtext] of TreeDefs with the ring-marker table
    threaded through the traversal in the order of writing).  Definitions only. *)
From Coq Require Import String.
From Coq Require Import List Ascii ZArith Bool.
From CGV Require Import Base.PyBase Base.PyVal Base.PyGen Base.NxGraph Write.WriteImpl Write.TreeDefs.
Import ListNotations.
Open Scope Z_scope.

Section TextR.
  Variable sf : bool.
  Variable ntext : Z -> pystr.
  Variable stext : Z -> Z -> pystr.
  Variable rlist : Z -> list nat.          (* atom_to_ring_idx[k] (empty when k closes/opens no ring) *)
  Variable rsymt : nat -> pystr.           (* the bond symbol text written before the OPENING marker of a ring *)

  Definition marks := list (nat * nat).
  (** the `for ring_idx in ring_idxs:` loop at one node: new table, text, markers written; [a] is the flag
      after_pct (a marker of this node was already written in the % form) *)
  Fixpoint ring_pure (a : bool) (mk : marks) (ris : list nat) : marks * pystr * list nat :=
    match ris with
    | [] => (mk, [], [])
    | ri :: r =>
        match mk_get ri mk with
        | None =>
            let m := get_ring_marker (map snd mk) in
            let '(mk2, t2, tr2) := ring_pure (a || (10 <=? m)%nat) (mk ++ [(ri, m)]) r in
            (mk2, rsymt ri ++ marker_text a m ++ t2, m :: tr2)
        | Some m =>
            let '(mk2, t2, tr2) := ring_pure (a || (10 <=? m)%nat) (mk_del ri mk) r in
            (mk2, marker_text a m ++ t2, m :: tr2)
        end
    end.
  Definition trace_entry (k : Z) (trc : list nat) : list (Z * list nat) := match trc with [] => [] | _ => [(k, trc)] end.

  (** text, ring table afterwards, marker trace (in the order of writing) *)
  Fixpoint wtextR (p : option Z) (isb : bool) (d : nat) (mk : marks) (t : rtree) : pystr * marks * list (Z * list nat) :=
    match t with
    | RNode k cs =>
        let d1 := if isb then Datatypes.S d else d in
        let '(mk1, rt, trc) := ring_pure false mk (rlist k) in
        match cs with
        | [] => (whead sf ntext stext p isb k ++ rt ++ (if (0 <? d1)%nat then S ")" else []), mk1, trace_entry k trc)
        | c1 :: bs =>
            let '(tb, mkb, mb) :=
              (fix br (l : list rtree) : pystr * marks * list (Z * list nat) :=
                 match l with
                 | [] => ([], mk1, [])
                 | c :: r => let '(t2, mk2, m2) := br r in
                             let '(t1, mk3, m1) := wtextR (Some k) true d1 mk2 c in
                             (t2 ++ t1, mk3, m2 ++ m1)
                 end) bs in
            let '(tc, mkc, mc) := wtextR (Some k) false d1 mkb c1 in
            (whead sf ntext stext p isb k ++ rt ++ tb ++ tc, mkc, trace_entry k trc ++ mb ++ mc)
        end
    end.
  Definition wbranchesR (k : Z) (d1 : nat) (mk1 : marks) (bs : list rtree) : pystr * marks * list (Z * list nat) :=
    (fix br (l : list rtree) : pystr * marks * list (Z * list nat) :=
       match l with
       | [] => ([], mk1, [])
       | c :: r => let '(t2, mk2, m2) := br r in
                   let '(t1, mk3, m1) := wtextR (Some k) true d1 mk2 c in
                   (t2 ++ t1, mk3, m2 ++ m1)
       end) bs.

  (** what the loop looks up while it writes [t] *)
  Fixpoint tree_envR (env : wenv) (p : option Z) (t : rtree) : Prop :=
    match t with
    | RNode k cs =>
        dl_get k (e_pred env) = match p with None => None | Some q => Some [q] end
        /\ dl_get k (e_succ env) = match cs with [] => None | _ => Some (map rkey cs) end
        /\ match dl_get k (e_rings env) with Some ris => ris | None => [] end = rlist k
        /\ (forall ri, In ri (rlist k) -> exists bond, nth_error (e_tr env) (ri - 1) = Some bond
                                                      /\ e_rsym env (fst bond) (snd bond) = Ok (rsymt ri))
        /\ e_fmt env k = Ok (ntext k)
        /\ match p with Some q => e_sym env q k = Ok (stext q k) | None => True end
        /\ (fix all (l : list rtree) : Prop := match l with [] => True | c :: r => tree_envR env (Some k) c /\ all r end) cs
    end.
  Definition forest_envR (env : wenv) (k : Z) (cs : list rtree) : Prop :=
    (fix all (l : list rtree) : Prop := match l with [] => True | c :: r => tree_envR env (Some k) c /\ all r end) cs.
End TextR.
