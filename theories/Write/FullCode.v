(** FullCode: the FULL statement of C07 in the check's own terms,
      forall g tr, wf_C07 g = true -> ring_contract g (dfs_tree g) tr = true -> roundtrip_code g tr = 0,
    i.e. the executable clause the check evaluates on every case ([iso_by] on the observed node and edge lists under
    the numbering "order of writing") holds for EVERY graph of the domain and every admissible ring transcript. *)
From Coq Require Import String.
From Coq Require Import List Ascii ZArith Bool Lia.
From CGV Require Import Base.PyBase Base.PyVal Base.PyGen Base.NxGraph Dialect.DialectImpl.
From CGV Require Import Write.WriteImpl Write.WriteDefs Write.TreeDefs Write.TreeWrite Write.TreeTables Write.DfsProofs Write.WfFacts Write.ConnFacts
     Write.RingDefs Write.RingTables Write.RingMarkers Write.RingClose Write.TreeRead Write.PathRound Write.TreeRound Write.RingRead Write.RingRound
     Write.GraphOps Write.FlatMachine Write.FlatSpec Write.RingSim Write.RunLog Write.RingFacts Write.RingInv Write.FullMachine Write.FullIso
     Write.FullRound Write.ContractBridge Write.WriteRound Write.FullDomain Write.GraphStruct.
From CGV Require Import Reader.ReaderImpl Reader.Grammar Reader.Lin Reader.GraphLemmas.
Import ListNotations.
Open Scope Z_scope.

(** ------------------------------------------------------------------ 1. the round trip with everything explicit *)
Theorem graph_text_is_read_full : forall fo g tr start,
  plain_graph g = true -> min_node g = Ok start ->
  (forall bond, In bond tr -> In (snd bond) (neighbors g (fst bond))) ->
  (forall k, In k (node_keys g) -> name_ok fo (name_of g k) = true) ->
  exists T, rkey T = start /\ dfs_edges g start = Ok (redges T) /\ NoDup (rkeys T) /\
    let items := fst (tlinsR (name_of g) (esym_of g) (rlist_of tr) (rsym_of g tr) false 0 None [] T) in
    exists r, write_graph_full false (fun _ => true) g tr = Ok r /\ r_visit r = worder T
              /\ read_cgsmiles fo (S "{" ++ r_text r ++ S "}") = denote_lin fo items.
Proof.
  intros fo g tr start Hp Hmin Htr Hok.
  assert (Hwf : graph_wf g = true) by (unfold plain_graph in Hp; now apply andb_prop in Hp as [H _]).
  destruct (graph_wf_facts g Hwf) as [Hc Hnd]. destruct (min_node_in g start Hmin) as [Hs _].
  destruct (dfs_total g start Hc Hnd Hs) as [es Ees].
  destruct (dfs_shape g start es Ees) as [T (A1 & A2 & _ & A4 & A5 & _)]. subst es.
  exists T. split; [assumption|]. split; [assumption|]. split; [assumption|]. cbv zeta.
  assert (Hkeys : forall k, In k (rkeys T) -> In k (node_keys g)).
  { intros k Hk. destruct T as [k0 cs]. cbn [rkey] in A1. subst k0. destruct Hk as [<-|Hk]; [assumption|].
    change (flat_map rkeys cs) with (tl (rkeys (RNode start cs))) in Hk. rewrite <- redges_snd in Hk.
    apply in_map_iff in Hk as [e [<- He]]. apply (Hc (fst e)). now apply A5. }
  destruct (written_text_is_read_by_the_machine fo (name_of g) (esym_of g) (rsym_of g tr) T tr
              (node_text false (fun _ => true) g) (edge_text g) (edge_text g) (length g) A4) as [txt [W R]].
  - pose proof (NoDup_incl_length A4 Hkeys) as Hl. unfold rsize, node_keys in *. now rewrite map_length in Hl.
  - intros k Hk. apply plain_node; [assumption|now apply Hkeys].
  - intros e He. apply plain_edge; [assumption|now apply A5].
  - intros bond Hb. eexists. apply plain_edge; [assumption|now apply Htr].
  - intros ri. unfold rsymt_of, rsymt, rsym_of. destruct (nth_error tr (ri - 1)) as [bond|] eqn:En; [|reflexivity].
    rewrite (plain_edge g Hp (fst bond) (snd bond) (Htr bond (nth_error_In _ _ En))). reflexivity.
  - intros k Hk. apply Hok. now apply Hkeys.
  - eexists. split.
    { unfold write_graph_full. rewrite Hmin. cbn [bind]. rewrite Ees. cbn [bind]. subst start. exact W. }
    split; [reflexivity|exact R].
Qed.

(** what C07_roundtrip's proof knows, kept: the writer's record, the reader's graph as the replay of the log, the
    per-record facts *)
Theorem C07_roundtrip_explicit : forall fo A g tr start,
  plain_graph g = true -> connected g = true -> min_node g = Ok start ->
  (forall e, In e tr -> fst e <> snd e /\ In (snd e) (neighbors g (fst e))) ->
  nodup_edges tr = true ->
  (forall e te, In e tr -> In te (dfs_tree g) -> same_edge e te = false) ->
  (forall u v, has_edge g u v = true ->
     (exists te, In te (dfs_tree g) /\ same_edge (u, v) te = true) \/ (exists e, In e tr /\ same_edge (u, v) e = true)) ->
  (forall k, In k (node_keys g) -> name_ok fo (name_of g k) = true) ->
  (forall k, parse_graph_base_node fo (name_of g k) = Ok (A k)) ->
  exists T r, write_graph_full false (fun _ => true) g tr = Ok r /\ r_visit r = worder T
    /\ (rkey T = start /\ dfs_edges g start = Ok (redges T))
    /\ NoDup (rkeys T) /\ (forall x, In x (rkeys T) <-> In x (node_keys g))
    /\ let fl := the_flat (esym_of g) (rsym_of g tr) T tr in
       let L := the_log (esym_of g) (rsym_of g tr) A T tr in
       read_cgsmiles fo (S "{" ++ r_text r ++ S "}") = Ok (replay L gempty)
       /\ denote_lin fo (the_items (name_of g) (esym_of g) (rsym_of g tr) T tr) = Ok (replay L gempty)
       /\ log_wf [] L /\ log_nodes L = map f_new fl
       /\ (forall rc, In rc fl -> In (ONode (f_new rc) (A (f_old rc))) L)
       /\ (forall r1 r2, In r1 fl -> In r2 fl -> eo (replay L gempty) (f_new r1) (f_new r2) = eo g (f_old r1) (f_old r2))
       /\ (forall e, In e (log_edges L) ->
             exists ra rb, In ra fl /\ In rb fl /\ fst e = (f_new ra, f_new rb) /\ eo g (f_old ra) (f_old rb) = Some (snd e)).
Proof.
  intros fo A g tr start Hp Hcon Hmin R1 R2 R3 R4 Hok Hparse.
  assert (Hwf : graph_wf g = true) by (unfold plain_graph in Hp; now apply andb_prop in Hp as [H _]).
  destruct (graph_wf_facts g Hwf) as [Hc Hnd].
  destruct (dfs_spanning_wf g start Hwf Hcon Hmin) as [T0 (A1 & A2 & _ & _ & A5 & _ & _ & _ & _)].
  destruct (graph_text_is_read_full fo g tr start Hp Hmin (fun b Hb => proj2 (R1 b Hb)) Hok) as [T (B1 & B2 & B3 & B4)].
  assert (Ekeys : rkeys T = rkeys T0).
  { assert (Hk : forall t, rkeys t = rkey t :: map snd (redges t)) by (intros [k cs]; rewrite redges_snd; reflexivity).
    rewrite (Hk T), (Hk T0), B1, A1. f_equal. f_equal. rewrite A2 in B2. now inversion B2. }
  assert (A5' : forall x, In x (rkeys T) <-> In x (node_keys g)) by (intros x; rewrite Ekeys; apply A5).
  assert (Etree : dfs_tree g = redges T) by (unfold dfs_tree; now rewrite Hmin, B2).
  cbv zeta in B4. destruct B4 as [r (W & Wv & R)].
  assert (Hadj : forall e, In e (redges T) -> In (snd e) (neighbors g (fst e))).
  { intros e He. destruct (dfs_shape g start _ B2) as [T' (D1 & D2 & _ & _ & D5 & _)]. rewrite D2 in He. now apply D5. }
  assert (C1 : forall e, In e tr -> fst e <> snd e /\ In (fst e) (rkeys T) /\ In (snd e) (rkeys T)).
  { intros e He. destruct (R1 e He) as [N1 N2]. split; [exact N1|]. split; apply A5'.
    - unfold neighbors in N2. destruct (gfind (fst e) g) as [n|] eqn:Eg; [|contradiction]. now apply (gfind_key _ _ n).
    - now apply (Hc (fst e)). }
  assert (C3 : forall e te, In e tr -> In te (redges T) -> same_edge e te = false) by (intros e te; rewrite <- Etree; apply R3).
  destruct (machine_full fo (name_of g) (esym_of g) (rsym_of g tr) A T tr Hparse B3 C1 R2 C3) as (M1 & M2 & M3).
  exists T, r. split; [exact W|]. split; [exact Wv|]. split; [exact (conj B1 B2)|]. split; [exact B3|]. split; [exact A5'|]. cbv zeta.
  set (fl := the_flat (esym_of g) (rsym_of g tr) T tr) in *.
  set (L := the_log (esym_of g) (rsym_of g tr) A T tr) in *.
  assert (Gs : forall u v, eo g u v = eo g v u) by (apply wf_eo_sym; exact Hwf).
  assert (Gt : forall e, In e (redges T) -> eo g (fst e) (snd e) = Some (oord (esym_of g (fst e) (snd e))))
    by (intros e He; apply plain_eo; [exact Hp|now apply Hadj]).
  assert (Gr : forall ri e, In (ri, e) (ring_items_of tr) -> eo g (fst e) (snd e) = Some (oord (rsym_of g tr ri))).
  { intros ri e He. unfold rsym_of. unfold ring_items_of in He. apply in_combine_seq in He as [H1 H2]. rewrite H2.
    apply plain_eo; [exact Hp|]. apply (R1 e). now apply nth_error_In in H2. }
  split; [rewrite R; exact M1|]. split; [exact M1|]. split; [exact M2|]. split; [exact (i_nodes _ _ _ _ _ M3)|]. split.
  { intros rc Hrc. unfold L, the_log. apply xlog_node. exact Hrc. }
  split.
  { apply (iso_orders (esym_of g) (rsym_of g tr) A T tr g B3 C1 C3); try assumption.
    intros u v Hu Hv Hne. rewrite <- Etree. apply R4. now apply eo_has_edge. }
  intros e He. exact (log_edge_good (esym_of g) (rsym_of g tr) A T tr g B3 Gt Gr Gs M3 e He).
Qed.

(** ------------------------------------------------------------------ 2. the observation [observe_named] *)
Definition nm (a : attrs) : pystr := match aget (S "fragname") a with Some (VStr s) => s | _ => [] end.
Definition oo (d : attrs) : Z := match int_order d with Some o => o | None => 0 end.
Definition obs_n (G : graph) : list (Z * pystr) := map (fun n => (nk n, nm (na n))) G.
Definition obs_e (G : graph) : list (Z * Z * Z) := map (fun e => (fst e, oo (snd e))) (edges_data G).
Lemma somes_map {X Y} (f : X -> option Y) (h : X -> Y) : forall l, (forall x, In x l -> f x = Some (h x)) ->
  forallb (fun x => match x with Some _ => true | None => false end) (map f l) = true
  /\ flat_map (fun x => match x with Some y => [y] | None => [] end) (map f l) = map h l.
Proof.
  induction l as [|x l IH]; intros H; [split; reflexivity|]. cbn [map forallb flat_map]. rewrite (H x (or_introl eq_refl)).
  destruct (IH (fun y Hy => H y (or_intror Hy))) as [I1 I2]. rewrite I1, I2. split; reflexivity.
Qed.
Lemma observe_named_eq G :
  (forall n, In n G -> exists s, aget (S "fragname") (na n) = Some (VStr s)) ->
  (forall e, In e (edges_data G) -> exists o, int_order (snd e) = Some o) ->
  observe_named G = Some (obs_n G, obs_e G).
Proof.
  intros Hn He. unfold observe_named.
  destruct (somes_map (fun n => match aget (S "fragname") (na n) with Some (VStr s) => Some (nk n, s) | _ => None end)
                      (fun n => (nk n, nm (na n))) G) as [N1 N2].
  { intros n Hin. destruct (Hn n Hin) as [s Es]. unfold nm. now rewrite Es. }
  destruct (somes_map (fun e : Z * Z * attrs => match int_order (snd e) with Some o => Some (fst e, o) | None => None end)
                      (fun e => (fst e, oo (snd e))) (edges_data G)) as [E1 E2].
  { intros e Hin. destruct (He e Hin) as [o Eo]. unfold oo. now rewrite Eo. }
  rewrite N1, E1, N2, E2. reflexivity.
Qed.
Lemma zassoc_obs G x : zassoc x (obs_n G) = match gfind x G with Some n => Some (nm (na n)) | None => None end.
Proof.
  unfold obs_n. induction G as [|n G IH]; [reflexivity|]. cbn [map zassoc gfind]. rewrite (Z.eqb_sym x (nk n)).
  destruct (Z.eqb (nk n) x); [reflexivity|exact IH].
Qed.
Lemma zassoc_combine {X} (fo fn : X -> Z) : forall l r, NoDup (map fo l) -> In r l ->
  zassoc (fo r) (combine (map fo l) (map fn l)) = Some (fn r).
Proof.
  induction l as [|x l IH]; intros r ND H; [contradiction|]. cbn [map combine zassoc]. inversion ND as [|? ? Hx ND']; subst.
  destruct H as [->|H]; [now rewrite Z.eqb_refl|].
  destruct (Z.eqb_spec (fo r) (fo x)) as [E|N]; [exfalso; apply Hx; rewrite <- E; now apply in_map|now apply IH].
Qed.

(** listed edges and [ea]/[eo] on a well-formed graph *)
Lemma listed_ea G x y d : graph_wf G = true -> In (x, y, d) (edges_data G) -> ea G x y = Some d.
Proof.
  intros Hwf H. destruct (graph_wf_facts G Hwf) as [_ ND]. destruct (edges_from_sound _ _ _ _ _ H) as [n (Hn & <- & Hy)].
  apply ea_of_in; try assumption. unfold graph_wf in Hwf. apply andb_prop in Hwf as [_ Hf]. rewrite forallb_forall in Hf.
  specialize (Hf n Hn). apply andb_prop in Hf as [Hf _]. now apply nodupz_NoDup.
Qed.
Lemma ea_eo G x y d o : ea G x y = Some d -> int_order d = Some o -> eo G x y = Some o.
Proof. intros E H. unfold eo. rewrite E. unfold int_order in H. destruct (aget (S "order") d) as [[| |z| | | | |]|]; try discriminate. exact H. Qed.
Lemma eo_listed G x y o : graph_wf G = true -> eo G x y = Some o ->
  exists e, In e (edges_data G) /\ same_edge (fst e) (x, y) = true.
Proof.
  intros Hwf H. assert (He : has_edge G x y = true) by (apply eo_has_edge; congruence).
  destruct (edges_list_complete G x y Hwf He) as [Hin|Hin]; unfold edges_list in Hin; apply in_map_iff in Hin as [[[u v] d] [E Hin]];
    cbn [fst snd] in E; inversion E; subst; eexists; (split; [exact Hin|]); cbn [fst]; unfold same_edge; cbn [fst snd]; rewrite !Z.eqb_refl; cbn; auto using orb_true_r.
Qed.

Lemma same_edge_map (phi : Z -> Z) (D : list Z) a b :
  (forall x y, In x D -> In y D -> phi x = phi y -> x = y) ->
  In (fst a) D -> In (snd a) D -> In (fst b) D -> In (snd b) D ->
  same_edge (phi (fst a), phi (snd a)) (phi (fst b), phi (snd b)) = same_edge a b.
Proof.
  intros Hi A1 A2 B1 B2. unfold same_edge. cbn [fst snd].
  assert (E : forall x y, In x D -> In y D -> Z.eqb (phi x) (phi y) = Z.eqb x y).
  { intros x y Hx Hy. destruct (Z.eqb_spec x y) as [->|N]; [apply Z.eqb_refl|]. apply Z.eqb_neq. intros H. apply N. now apply Hi. }
  now rewrite !E.
Qed.
Lemma nodup_edges_map (phi : Z -> Z) (D : list Z) : (forall x y, In x D -> In y D -> phi x = phi y -> x = y) ->
  forall l, (forall e, In e l -> In (fst e) D /\ In (snd e) D) -> nodup_edges l = true ->
  nodup_edges (map (fun e => (phi (fst e), phi (snd e))) l) = true.
Proof.
  intros Hi. induction l as [|e l IH]; intros HD H; [reflexivity|]. cbn [map nodup_edges] in *. apply andb_prop in H as [H1 H2].
  apply andb_true_intro. split; [|apply IH; [intros x Hx; apply HD; now right|exact H2]].
  apply negb_true_iff. apply negb_true_iff in H1. unfold edge_mem in *. destruct (existsb _ (map _ l)) eqn:E; [|reflexivity].
  apply existsb_exists in E as [y [Hy Sy]]. apply in_map_iff in Hy as [b [<- Hb]].
  destruct (HD e (or_introl eq_refl)) as [A1 A2]. destruct (HD b (or_intror Hb)) as [B1 B2].
  rewrite (same_edge_map phi D e b Hi A1 A2 B1 B2) in Sy. rewrite <- H1. symmetry. apply existsb_exists. exists b. auto.
Qed.

Lemma nodup_map_in {X Y} (f : X -> Y) : forall l, (forall x y, In x l -> In y l -> f x = f y -> x = y) -> NoDup l -> NoDup (map f l).
Proof.
  induction l as [|a l IH]; intros Hi ND; [constructor|]. inversion ND as [|? ? Ha ND']; subst. cbn [map]. constructor.
  - intros Hin. apply in_map_iff in Hin as [b [E Hb]]. apply Ha. rewrite (Hi a b (or_introl eq_refl) (or_intror Hb) (eq_sym E)). exact Hb.
  - apply IH; [|exact ND']. intros x y Hx Hy. apply Hi; now right.
Qed.
Lemma pair_eta (e : Z * Z * attrs) : (fst (fst e), snd (fst e)) = fst e.
Proof. destruct e as [[u v] d]. reflexivity. Qed.
Lemma same_edge_swap x y : same_edge (x, y) (y, x) = true.
Proof. unfold same_edge. cbn [fst snd]. rewrite !Z.eqb_refl. cbn. apply orb_true_r. Qed.

(** ------------------------------------------------------------------ 3. the check's clause *)
Theorem C07_full : forall g tr, wf_C07 g = true -> ring_contract g (dfs_tree g) tr = true -> roundtrip_code g tr = 0%nat.
Proof.
  intros g tr Hwf Hrc. destruct (wf_plain g Hwf) as (Hp & Hcon & start & Hmin).
  assert (Hgw : graph_wf g = true) by (unfold plain_graph in Hp; now apply andb_prop in Hp as [H _]).
  destruct (graph_wf_facts g Hgw) as [Hclosed NDg].
  destruct (ring_contract_props g tr Hgw Hrc) as (R1 & R2 & R3 & R4).
  set (A := fun k => match parse_graph_base_node no_float (name_of g k) with Ok a => a | Err _ => [] end).
  assert (HA : forall k, In k (node_keys g) -> A k = base_attrs (name_of g k)).
  { intros k Hk. unfold A. now rewrite (valid_name_parse no_float _ (wf_valid_names g k Hwf Hk)). }
  destruct (C07_roundtrip_explicit no_float A g tr start Hp Hcon Hmin R1 R2 R3 R4) as [T [r (W & Wv & _ & B3 & A5 & X)]].
  { intros k Hk. apply valid_name_ok. now apply wf_valid_names. }
  { intros k. unfold A. destruct (in_dec Z.eq_dec k (node_keys g)) as [Hk|Hk].
    - now rewrite (valid_name_parse no_float _ (wf_valid_names g k Hwf Hk)).
    - rewrite (name_of_outside g k Hk). reflexivity. }
  cbv zeta in X.
  set (fl := the_flat (esym_of g) (rsym_of g tr) T tr) in *.
  set (L := the_log (esym_of g) (rsym_of g tr) A T tr) in *.
  destruct X as (R & _ & M2 & Nn & Nd & Hiso & Hedge).
  set (h := replay L gempty) in *.
  destruct (replay_struct L gempty [] GWo_empty gempty_nodes M2) as [Gh Kh]. fold h in Gh, Kh. cbn [node_keys gempty map app] in Kh.
  assert (Hhw : graph_wf h = true) by now apply GWo_bool.
  destruct (graph_wf_facts h Hhw) as [_ NDh].
  (* the records *)
  assert (Fo : map f_old fl = worder T) by apply flat_old.
  assert (Fn : map f_new fl = zseq 0 (length fl)) by apply flat_new.
  assert (HWo : NoDup (map f_old fl)) by (rewrite Fo; now apply worder_nodup).
  assert (HWn : NoDup (map f_new fl)) by (rewrite Fn; apply zseq_nodup).
  assert (Hrec : forall k, In k (node_keys g) -> exists rc, In rc fl /\ f_old rc = k).
  { intros k Hk. apply A5 in Hk. apply (flat_in_old (esym_of g) (rsym_of g tr) T tr) in Hk. apply in_map_iff in Hk as [rc [E1 H1]]. eauto. }
  assert (Hold : forall rc, In rc fl -> In (f_old rc) (node_keys g)).
  { intros rc Hr. apply A5. apply (flat_in_old (esym_of g) (rsym_of g tr) T tr). now apply in_map. }
  assert (Hrech : forall x, In x (node_keys h) -> exists rc, In rc fl /\ f_new rc = x).
  { intros x Hx. rewrite Kh, Nn in Hx. apply in_map_iff in Hx as [rc [E1 H1]]. eauto. }
  assert (Hnew : forall rc, In rc fl -> In (f_new rc) (node_keys h)) by (intros rc Hr; rewrite Kh, Nn; now apply in_map).
  (* the nodes of h *)
  assert (Hna : forall rc, In rc fl -> exists n, gfind (f_new rc) h = Some n /\ na n = base_attrs (name_of g (f_old rc))).
  { intros rc Hr. pose proof (replay_node_attrs L gempty [] _ _ gempty_nodes M2 (Nd rc Hr)) as Ha. fold h in Ha.
    unfold node_attrs in Ha. destruct (gfind (f_new rc) h) as [n|]; [|discriminate]. exists n. split; [reflexivity|].
    inversion Ha as [Ha']. rewrite Ha'. apply HA. now apply Hold. }
  (* the observations *)
  assert (Hgn : forall n, In n g -> exists s, aget (S "fragname") (na n) = Some (VStr s)).
  { intros n Hn. unfold plain_graph in Hp. apply andb_prop in Hp as [_ Hf]. rewrite forallb_forall in Hf. specialize (Hf n Hn).
    apply andb_prop in Hf as [Hf _]. apply andb_prop in Hf as [Hf _].
    destruct (aget (S "fragname") (na n)) as [[| | | |s| | |]|]; try discriminate. eauto. }
  assert (Hge : forall e, In e (edges_data g) -> exists o, int_order (snd e) = Some o).
  { intros e He. unfold wf_C07 in Hwf. apply andb_prop in Hwf as [_ Hf]. rewrite forallb_forall in Hf. specialize (Hf e He).
    destruct (int_order (snd e)) as [o|]; [eauto|discriminate]. }
  assert (Og : observe_named g = Some (obs_n g, obs_e g)) by (apply observe_named_eq; assumption).
  assert (Hhe : forall x y d, In (x, y, d) (edges_data h) -> exists z, d = eorder z).
  { intros x y d Hd. exact (proj2 (proj2 (gw_sym h Gh x y d (listed_ea h x y d Hhw Hd)))). }
  assert (Oh : observe_named h = Some (obs_n h, obs_e h)).
  { apply observe_named_eq.
    - intros n Hn. assert (Hk : In (nk n) (node_keys h)) by (unfold node_keys; now apply in_map).
      destruct (Hrech _ Hk) as [rc [Hr Er]]. destruct (Hna rc Hr) as [n' [Hf Ha]].
      rewrite Er, (gfind_unique h n NDh Hn) in Hf. inversion Hf; subst n'. rewrite Ha. eexists. apply base_attrs_fragname.
    - intros [[x y] d] Hd. destruct (Hhe x y d Hd) as [z ->]. exists z. reflexivity. }
  unfold roundtrip_code. rewrite W, R, Og, Oh.
  enough (Hiso_by : iso_by (obs_n g, obs_e g) (obs_n h, obs_e h) (canonical_map (r_visit r)) = true) by now rewrite Hiso_by.
  rewrite Wv.
  assert (Em : canonical_map (worder T) = combine (map f_old fl) (map f_new fl)).
  { unfold canonical_map. rewrite <- Fo, Fn, map_length. f_equal. }
  rewrite Em.
  assert (Zm : forall rc, In rc fl -> zassoc (f_old rc) (combine (map f_old fl) (map f_new fl)) = Some (f_new rc))
    by (intros rc Hr; now apply zassoc_combine).
  set (m := combine (map f_old fl) (map f_new fl)) in *.
  set (phi := phi_of fl).
  assert (Hphi : forall rc, In rc fl -> phi (f_old rc) = f_new rc) by (intros rc Hr; now apply phi_of_rec).
  assert (Zk : forall k, In k (node_keys g) -> zassoc k m = Some (phi k) /\ In (phi k) (node_keys h)).
  { intros k Hk. destruct (Hrec k Hk) as [rc [Hr <-]]. rewrite (Hphi rc Hr). split; [now apply Zm|now apply Hnew]. }
  assert (Pinj : forall x y, In x (node_keys g) -> In y (node_keys g) -> phi x = phi y -> x = y).
  { intros x y Hx Hy E. destruct (Hrec x Hx) as [r1 [H1 <-]]. destruct (Hrec y Hy) as [r2 [H2 <-]].
    rewrite !Hphi in E by assumption. f_equal. apply (nodup_map_inj f_new fl); auto. }
  assert (Heo : forall u v, In u (node_keys g) -> In v (node_keys g) -> eo h (phi u) (phi v) = eo g u v).
  { intros u v Hu Hv. destruct (Hrec u Hu) as [r1 [H1 <-]]. destruct (Hrec v Hv) as [r2 [H2 <-]]. rewrite !Hphi by assumption. now apply Hiso. }
  pose proof (wf_eo_sym h Hhw) as Hsymh. pose proof (wf_eo_sym g Hgw) as Hsymg.
  assert (Eg : forall u v d, In (u, v, d) (edges_data g) -> In u (node_keys g) /\ In v (node_keys g) /\ eo g u v = Some (oo d)).
  { intros u v d Hd. pose proof (listed_ea g u v d Hgw Hd) as Ea. destruct (Hge _ Hd) as [o Eo]. cbn [snd] in Eo.
    destruct (in_of_ea g u v d Ea) as [n (Hn & En & Hv)].
    assert (Hu : In u (node_keys g)) by (rewrite <- En; unfold node_keys; now apply in_map).
    split; [exact Hu|]. split.
    - apply (Hclosed u). unfold neighbors. rewrite <- En, (gfind_unique g n NDg Hn). change v with (fst (v, d)). now apply in_map.
    - unfold oo. rewrite Eo. now apply (ea_eo g u v d o). }
  assert (Eh : forall x y d, In (x, y, d) (edges_data h) -> In x (node_keys h) /\ In y (node_keys h) /\ eo h x y = Some (oo d)).
  { intros x y d Hd. pose proof (listed_ea h x y d Hhw Hd) as Ea. destruct (Hhe x y d Hd) as [z ->].
    destruct (in_of_ea h x y _ Ea) as [n (Hn & En & Hv)].
    assert (Hx : In x (node_keys h)) by (rewrite <- En; unfold node_keys; now apply in_map).
    split; [exact Hx|]. split.
    - destruct (graph_wf_facts h Hhw) as [Hch _]. apply (Hch x). unfold neighbors. rewrite <- En, (gfind_unique h n NDh Hn).
      change y with (fst (y, eorder z)). now apply in_map.
    - now apply (ea_eo h x y (eorder z) z). }
  assert (Elist : forall G, edges_list G = map fst (edges_data G)).
  { intros G. unfold edges_list. apply map_ext. intros e. apply pair_eta. }
  assert (Ekeys : length (node_keys g) = length (node_keys h)).
  { rewrite Kh, Nn, map_length, <- (map_length f_old fl), Fo, rsize_worder. unfold rsize.
    apply Nat.le_antisymm; apply NoDup_incl_length; try assumption; intros x Hx; now apply A5. }
  (* an edge of g has its image listed in h, and conversely *)
  assert (G2H : forall u v d, In (u, v, d) (edges_data g) ->
            exists e0, In e0 (edges_data h) /\ same_edge (fst e0) (phi u, phi v) = true).
  { intros u v d Hd. destruct (Eg u v d Hd) as (Hu & Hv & Eo). apply (eo_listed h _ _ (oo d) Hhw). now rewrite Heo. }
  assert (H2G : forall x y d, In (x, y, d) (edges_data h) ->
            exists e0, In e0 (edges_data g) /\ same_edge (phi (fst (fst e0)), phi (snd (fst e0))) (x, y) = true).
  { intros x y d Hd. destruct (Eh x y d Hd) as (Hx & Hy & Eo).
    destruct (Hrech x Hx) as [r1 [H1 E1]]. destruct (Hrech y Hy) as [r2 [H2 E2]].
    assert (Eo' : eo g (f_old r1) (f_old r2) = Some (oo d)) by (rewrite <- (Hiso r1 r2 H1 H2), E1, E2; exact Eo).
    destruct (eo_listed g _ _ _ Hgw Eo') as [[[u v] d0] [Hin Se]]. exists (u, v, d0). split; [exact Hin|]. cbn [fst snd] in *.
    destruct (Eg u v d0 Hin) as (Hu & Hv & _).
    rewrite <- E1, <- E2, <- (Hphi r1 H1), <- (Hphi r2 H2).
    change (same_edge (phi (fst (u, v)), phi (snd (u, v))) (phi (fst (f_old r1, f_old r2)), phi (snd (f_old r1, f_old r2))) = true).
    rewrite (same_edge_map phi (node_keys g) (u, v) (f_old r1, f_old r2) Pinj); cbn [fst snd]; auto. }
  unfold iso_by. cbn [fst snd]. repeat (apply andb_true_intro; split).
  - (* the numbers of nodes *)
    apply Nat.eqb_eq. unfold obs_n. rewrite !map_length. unfold node_keys in Ekeys. now rewrite !map_length in Ekeys.
  - (* the numbers of edges *)
    apply Nat.eqb_eq. unfold obs_e. rewrite !map_length.
    set (P2 := map (fun e : Z * Z => (phi (fst e), phi (snd e))) (edges_list g)).
    assert (LP : length P2 = length (edges_data g)) by (unfold P2, edges_list; now rewrite !map_length).
    assert (Lh : length (edges_list h) = length (edges_data h)) by (unfold edges_list; now rewrite map_length).
    apply Nat.le_antisymm.
    + rewrite <- LP, <- Lh. apply nodup_edges_le.
      * apply (nodup_edges_map phi (node_keys g) Pinj); [|now apply edges_list_nodup].
        intros e He. rewrite Elist in He. apply in_map_iff in He as [[[u v] d] [<- Hd]]. cbn [fst snd]. destruct (Eg u v d Hd) as (Hu & Hv & _). auto.
      * intros e He. unfold P2 in He. apply in_map_iff in He as [e1 [<- He1]]. rewrite Elist in He1. apply in_map_iff in He1 as [[[u v] d] [<- Hd]].
        cbn [fst snd]. destruct (G2H u v d Hd) as [e0 [Hin Se]]. exists (fst e0). split; [rewrite Elist; now apply in_map|].
        now rewrite same_edge_sym.
    + rewrite <- LP, <- Lh. apply nodup_edges_le; [now apply edges_list_nodup|].
      intros e He. rewrite Elist in He. apply in_map_iff in He as [[[x y] d] [<- Hd]]. cbn [fst].
      destruct (H2G x y d Hd) as [e0 [Hin Se]]. exists (phi (fst (fst e0)), phi (snd (fst e0))). split.
      * unfold P2. apply in_map_iff. exists (fst e0). split; [reflexivity|]. rewrite Elist. now apply in_map.
      * now rewrite same_edge_sym.
  - (* node keys of h *)
    unfold obs_n. rewrite map_map. cbn [fst]. now apply NoDup_nodupz.
  - (* edges of h *)
    unfold obs_e. rewrite map_map. cbn [fst]. rewrite <- Elist. now apply edges_list_nodup.
  - (* the numbering is injective *)
    assert (E5 : forall l, (forall n, In n l -> In (nk n) (node_keys g)) ->
               flat_map (fun kn : Z * pystr => match zassoc (fst kn) m with Some x => [x] | None => [] end) (map (fun n => (nk n, nm (na n))) l)
               = map phi (map nk l)).
    { induction l as [|n l IHl]; intros Hl; [reflexivity|]. cbn [map flat_map fst]. rewrite (proj1 (Zk (nk n) (Hl n (or_introl eq_refl)))).
      cbn [app]. f_equal. apply IHl. intros n' Hn'. apply Hl. now right. }
    unfold obs_n. rewrite E5 by (intros n Hn; unfold node_keys; now apply in_map). apply NoDup_nodupz.
    apply nodup_map_in; [exact Pinj|exact NDg].
  - (* names *)
    apply forallb_forall. intros kn Hkn. unfold obs_n in Hkn. apply in_map_iff in Hkn as [n [<- Hn]]. cbn [fst snd].
    assert (Hk : In (nk n) (node_keys g)) by (unfold node_keys; now apply in_map).
    rewrite (proj1 (Zk _ Hk)). rewrite zassoc_obs. destruct (Hrec _ Hk) as [rc [Hr Er]].
    destruct (Hna rc Hr) as [n' [Hf Ha]]. rewrite <- Er at 1. rewrite (Hphi rc Hr), Hf, Ha. unfold nm at 1. rewrite base_attrs_fragname.
    rewrite Er. unfold name_of, node_name, node_get. rewrite (gfind_unique g n NDg Hn). unfold nm.
    destruct (Hgn n Hn) as [s ->]. apply str_eqb_refl.
  - (* edges and their orders *)
    apply forallb_forall. intros e He. unfold obs_e in He. apply in_map_iff in He as [[[u v] d] [<- Hd]]. cbn [fst snd].
    destruct (Eg u v d Hd) as (Hu & Hv & Eo). rewrite (proj1 (Zk u Hu)), (proj1 (Zk v Hv)).
    destruct (G2H u v d Hd) as [e0 [Hin0 Se0]].
    unfold edge_order_in. destruct (find (fun e : Z * Z * Z => same_edge (fst e) (phi u, phi v)) (obs_e h)) as [e1|] eqn:Ef.
    + apply find_some in Ef as [Hin1 Se1]. unfold obs_e in Hin1. apply in_map_iff in Hin1 as [[[x2 y2] d2] [<- Hd2]]. cbn [fst snd] in *.
      destruct (Eh x2 y2 d2 Hd2) as (_ & _ & Eo2). apply Z.eqb_eq.
      assert (E : eo h (phi u) (phi v) = Some (oo d2)).
      { destruct (same_edge_touch _ _ _ _ Se1) as [[-> ->]|[-> ->]]; [exact Eo2|now rewrite Hsymh]. }
      rewrite (Heo u v Hu Hv), Eo in E. now inversion E.
    + exfalso. assert (Hin : In (fst e0, oo (snd e0)) (obs_e h)) by (unfold obs_e; apply in_map_iff; exists e0; auto).
      pose proof (find_none _ _ Ef _ Hin) as K. cbn [fst] in K. congruence.
Qed.
