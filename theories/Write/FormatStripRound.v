(** FormatStripRound: descriptor round trip through the writer and the reader, composed from
    - [format_bonding_spec] (this component; the GENERATED format_bonding), and
    - [strip_correct] (component Frag: the model StripImpl.strip_bonding_descriptors returns [strip_spec]).
    For every organic-subset atom [e] and every descriptor list with kinds $ > < !, alphanumeric labels and
    orders 0..4, the text  e ++ format_bonding(L)  is read back by strip_bonding_descriptors (model) as the
    clean text [e] with exactly the list L on atom 0.  Order 0 is included since the reader fix 0d0f450
    (`elif current_order is not None`).  Coarse atoms [#name] are not covered by this theorem. *)
From Coq Require Import String.
From Coq Require Import List Ascii ZArith Bool Lia.
From CGV Require Import Base.PyBase Base.PyVal Base.PyGen Gen.WriterGen Dialect.DialectImpl.
From CGV Require Import Frag.NDict Frag.StripImpl Frag.FragText Frag.FragProofs Write.FormatBondingSpec.
Import ListNotations.

Definition dspec := (ascii * pystr * nat)%type.          (* kind, label, order *)
Definition d_kl (x : dspec) : pystr := fst (fst x) :: snd (fst x).
Definition d_stored (x : dspec) : pystr := mk_descr (d_kl x) (snd x).       (* what the graph stores: "$a2" *)
Definition d_ok (x : dspec) : bool :=
  char_in (fst (fst x)) kind_chars && forallb is_alnum (snd (fst x)) && Nat.leb (snd x) 4.
Definition sym_bsym (o : nat) : option bsym :=
  match o with 0%nat => Some BZero | 2%nat => Some BDouble | 3%nat => Some BTriple | 4%nat => Some BQuad | _ => None end.
Definition to_desc (x : dspec) : desc := {| d_kind := fst (fst x); d_label := snd (fst x); d_sym := sym_bsym (snd x) |}.

Lemma order_cases x : d_ok x = true -> snd x = 0%nat \/ snd x = 1%nat \/ snd x = 2%nat \/ snd x = 3%nat \/ snd x = 4%nat.
Proof.
  unfold d_ok. intros H. apply andb_prop in H as [H H3]. apply Nat.leb_le in H3. lia.
Qed.
Lemma render_desc x : d_ok x = true -> render_item (IDesc (to_desc x)) = fb_item (d_kl x, snd x).
Proof.
  intros H. destruct x as [[k lab] o]. destruct (order_cases _ H) as [E|[E|[E|[E|E]]]]; cbn in E; subst o; reflexivity.
Qed.
Lemma entry_desc x : d_ok x = true -> desc_entry (to_desc x) = d_stored x.
Proof.
  intros H. destruct x as [[k lab] o]. destruct (order_cases _ H) as [E|[E|[E|[E|E]]]]; cbn in E; subst o; reflexivity.
Qed.
Lemma desc_ok_to_desc x : d_ok x = true -> desc_ok (to_desc x) = true.
Proof.
  intros H. unfold d_ok in H. apply andb_prop in H as [H _].
  unfold desc_ok, to_desc. cbn [d_kind d_label d_sym]. exact H.
Qed.
Section Round.
  Variables (fo : float_oracle) (e : pystr) (L : list dspec).
  Hypothesis He : str_in e organic_atoms = true.
  Hypothesis HL : forallb d_ok L = true.
  Let toks := [TAtom e].
  Let dc := {| d_lead := []; d_after := [map to_desc L] |}.

  Lemma items_eq : decorate toks dc = ITok (TAtom e) :: map IDesc (map to_desc L).
  Proof. unfold decorate, toks, dc. cbn. now rewrite app_nil_r. Qed.

  Lemma render_eq : render (decorate toks dc) = e ++ fb_expected (map (fun x => (d_kl x, snd x)) L).
  Proof.
    rewrite items_eq. unfold render. cbn [flat_map render_item render_tok]. f_equal.
    clear He. induction L as [|x r IH]; [reflexivity|].
    cbn [forallb] in HL. apply andb_prop in HL as [Hx Hr].
    cbn [map flat_map]. rewrite render_desc by assumption. unfold fb_expected. cbn [map concat]. f_equal. now apply IH.
  Qed.
  Lemma wf_ok : wf toks dc = true.
  Proof.
    unfold wf. rewrite items_eq. cbn [d_after dc length toks Nat.leb andb wf_items tok_ok]. rewrite He. cbn [andb].
    clear He. induction L as [|x r IH]; [reflexivity|].
    cbn [forallb] in HL. apply andb_prop in HL as [Hx Hr].
    cbn [map wf_items is_zatom andb]. rewrite desc_ok_to_desc by assumption. cbn [andb]. now apply IH.
  Qed.
  Lemma not_excluded : excluded toks dc = false.
  Proof.
    unfold excluded, excluded_items, class_of. rewrite items_eq.
    assert (A : has_mult (ITok (TAtom e) :: map IDesc (map to_desc L)) = false).
    { unfold has_mult. cbn [existsb orb]. induction L as [|x r IH]; [reflexivity|]. cbn [map existsb orb].
      cbn [forallb] in HL. apply andb_prop in HL as [_ Hr]. now apply IH. }
    rewrite A. reflexivity.
  Qed.
  (** what strip_spec says for these items *)
  Lemma spec_eq : strip_spec fo toks dc
    = Ok (e, fold_left (fun d x => nd_append 0 (d_stored x) d) L [], [], []).
  Proof.
    unfold strip_spec, spec_items. rewrite items_eq. cbn [spec_run spec_item spec_tok bind sinit s_n s_owner s_stack
      s_clean s_desc s_ez s_ann clean_tok render_tok app].
    set (sp0 := {| s_n := 1; s_owner := 0; s_stack := []; s_clean := e; s_desc := []; s_ez := []; s_ann := [] |}).
    assert (G : forall acc, spec_run fo {| s_n := 1; s_owner := 0; s_stack := []; s_clean := e; s_desc := acc; s_ez := []; s_ann := [] |}
                                     (map IDesc (map to_desc L))
                            = Ok {| s_n := 1; s_owner := 0; s_stack := []; s_clean := e;
                                    s_desc := fold_left (fun d x => nd_append 0 (d_stored x) d) L acc; s_ez := []; s_ann := [] |}).
    { clear He sp0. induction L as [|x r IH]; intros acc; [reflexivity|].
      cbn [forallb] in HL. apply andb_prop in HL as [Hx Hr].
      cbn [map spec_run spec_item bind fold_left]. unfold spec_desc. cbn [s_n s_owner s_stack s_clean s_desc s_ez s_ann].
      rewrite entry_desc by assumption. now apply IH. }
    unfold sp0. rewrite G. reflexivity.
  Qed.

  (** the round trip: writer (generated format_bonding), then reader (strip model) *)
  Theorem format_strip_roundtrip :
    exists fb, format_bonding (map d_stored L) = Ok fb /\
               strip_bonding_descriptors fo (e ++ fb)
               = Ok (e, fold_left (fun d x => nd_append 0 (d_stored x) d) L [], [], []).
  Proof.
    exists (fb_expected (map (fun x => (d_kl x, snd x)) L)). split.
    - replace (map d_stored L) with (map (fun klo => mk_descr (fst klo) (snd klo)) (map (fun x => (d_kl x, snd x)) L))
        by (rewrite map_map; reflexivity).
      apply format_bonding_spec. apply Forall_forall. intros klo Hin. apply in_map_iff in Hin as [x [<- Hx]].
      rewrite forallb_forall in HL. specialize (HL x Hx). destruct (order_cases _ HL) as [E|[E|[E|[E|E]]]]; cbn [snd]; lia.
    - rewrite <- render_eq. rewrite strip_correct by (apply wf_ok || apply not_excluded). apply spec_eq.
  Qed.
End Round.

(** the dictionary the reader returns holds exactly L on atom 0 *)
Lemma descs_on_atom0 (L : list dspec) : L <> [] ->
  fold_left (fun d x => nd_append 0 (d_stored x) d) L [] = [(0%nat, map d_stored L)].
Proof.
  destruct L as [|x r]; [congruence|]. intros _. cbn [fold_left nd_append map].
  assert (G : forall acc, fold_left (fun d y => nd_append 0 (d_stored y) d) r [(0%nat, acc)] = [(0%nat, acc ++ map d_stored r)]).
  { induction r as [|y r IH]; intros acc; cbn [fold_left map].
    - now rewrite app_nil_r.
    - cbn [nd_append Nat.eqb]. rewrite IH. now rewrite <- app_assoc. }
  rewrite G. reflexivity.
Qed.
Example format_strip_example :
  strip_bonding_descriptors (fun _ => None) (S "C[$a]=[$b]#[<].[!]") = Ok (S "C", [(0%nat, [S "$a1"; S "$b2"; S "<3"; S "!0"])], [], []).
Proof. vm_compute. reflexivity. Qed.

(** ------------------------------------------------------------------ the same for a COARSE node [#name] *)
Section RoundCoarse.
  Variables (fo : float_oracle) (nm : pystr) (L : list dspec) (a0 : attrs).
  Hypothesis Hn : body_ok ("#"%char :: nm) = true.          (* the name has no ']' and no ';' *)
  Hypothesis Hp : fragment_node_parser fo [] = Ok a0.       (* a node without annotations *)
  Hypothesis HL : forallb d_ok L = true.
  Let tk := TBracket ("#"%char :: nm) None.
  Let toks := [tk].
  Let dc := {| d_lead := []; d_after := [map to_desc L] |}.
  Definition coarse_text : pystr := S "[#" ++ nm ++ S "]".

  Lemma items_eq_c : decorate toks dc = ITok tk :: map IDesc (map to_desc L).
  Proof. unfold decorate, toks, dc. cbn. now rewrite app_nil_r. Qed.
  Lemma render_eq_c : render (decorate toks dc) = coarse_text ++ fb_expected (map (fun x => (d_kl x, snd x)) L).
  Proof.
    rewrite items_eq_c. unfold render. cbn [flat_map render_item].
    assert (E : render_tok tk = coarse_text).
    { unfold tk, coarse_text. cbn [render_tok app S list_ascii_of_string]. reflexivity. }
    rewrite E. f_equal.
    induction L as [|x r IH]; [reflexivity|].
    cbn [forallb] in HL. apply andb_prop in HL as [Hx Hr].
    cbn [map flat_map]. rewrite render_desc by assumption. unfold fb_expected. cbn [map concat]. f_equal. now apply IH.
  Qed.
  Lemma wf_ok_c : wf toks dc = true.
  Proof.
    unfold wf. rewrite items_eq_c. cbn [d_after dc length toks Nat.leb andb wf_items tok_ok tk annot_ok]. rewrite Hn. cbn [andb].
    induction L as [|x r IH]; [reflexivity|].
    cbn [forallb] in HL. apply andb_prop in HL as [Hx Hr].
    cbn [map wf_items is_zatom andb]. rewrite desc_ok_to_desc by assumption. cbn [andb]. now apply IH.
  Qed.
  Lemma not_excluded_c : excluded toks dc = false.
  Proof.
    unfold excluded, excluded_items, class_of. rewrite items_eq_c.
    assert (A : has_mult (ITok tk :: map IDesc (map to_desc L)) = false).
    { unfold has_mult. cbn [existsb orb tk]. induction L as [|x r IH]; [reflexivity|]. cbn [map existsb orb].
      cbn [forallb] in HL. apply andb_prop in HL as [_ Hr]. now apply IH. }
    rewrite A. reflexivity.
  Qed.
  Lemma spec_eq_c : strip_spec fo toks dc
    = Ok (coarse_text, fold_left (fun d x => nd_append 0 (d_stored x) d) L [], [], nd_update 0 a0 []).
  Proof.
    unfold strip_spec, spec_items. rewrite items_eq_c. cbn [spec_run spec_item spec_tok tk bind]. rewrite Hp.
    cbn [bind sinit s_n s_owner s_stack s_clean s_desc s_ez s_ann clean_tok app].
    assert (G : forall acc, spec_run fo {| s_n := 1; s_owner := 0; s_stack := []; s_clean := "["%char :: ("#"%char :: nm) ++ ["]"%char];
                                         s_desc := acc; s_ez := []; s_ann := nd_update 0 a0 [] |}
                                     (map IDesc (map to_desc L))
                            = Ok {| s_n := 1; s_owner := 0; s_stack := []; s_clean := "["%char :: ("#"%char :: nm) ++ ["]"%char];
                                    s_desc := fold_left (fun d x => nd_append 0 (d_stored x) d) L acc; s_ez := []; s_ann := nd_update 0 a0 [] |}).
    { induction L as [|x r IH]; intros acc; [reflexivity|].
      cbn [forallb] in HL. apply andb_prop in HL as [Hx Hr].
      cbn [map spec_run spec_item bind fold_left]. unfold spec_desc. cbn [s_n s_owner s_stack s_clean s_desc s_ez s_ann].
      rewrite entry_desc by assumption. now apply IH. }
    rewrite G. cbn [bind s_clean s_desc s_ez s_ann]. unfold coarse_text. reflexivity.
  Qed.

  (** coarse node + descriptors: writer (generated format_bonding), then reader (strip model) *)
  Theorem format_strip_roundtrip_coarse :
    exists fb, format_bonding (map d_stored L) = Ok fb /\
               strip_bonding_descriptors fo (coarse_text ++ fb)
               = Ok (coarse_text, fold_left (fun d x => nd_append 0 (d_stored x) d) L [], [], nd_update 0 a0 []).
  Proof.
    exists (fb_expected (map (fun x => (d_kl x, snd x)) L)). split.
    - replace (map d_stored L) with (map (fun klo => mk_descr (fst klo) (snd klo)) (map (fun x => (d_kl x, snd x)) L))
        by (rewrite map_map; reflexivity).
      apply format_bonding_spec. apply Forall_forall. intros klo Hin. apply in_map_iff in Hin as [x [<- Hx]].
      rewrite forallb_forall in HL. specialize (HL x Hx). destruct (order_cases _ HL) as [E|[E|[E|[E|E]]]]; cbn [snd]; lia.
    - rewrite <- render_eq_c. rewrite strip_correct by (apply wf_ok_c || apply not_excluded_c). apply spec_eq_c.
  Qed.
End RoundCoarse.
