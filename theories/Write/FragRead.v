(** FragRead: executable model of cgsmiles_utils.read_fragment_cgsmiles and of the coarse branch of
    read_fragments.fragment_iter (split, strip_bonding_descriptors, read_fragment_cgsmiles), composed from the
    models of the other components (Frag/StripImpl.v, Reader/ReaderImpl.v).  NO proofs.

      mol_graph = read_cgsmiles(cgsmiles_str)
      fragnames = nx.get_node_attributes(mol_graph, 'fragname'); nx.set_node_attributes(mol_graph, fragnames, 'atomname')
      nx.set_node_attributes(mol_graph, bonding_descrpt, 'bonding')
      nx.set_node_attributes(mol_graph, fragname, 'fragname')
      nx.set_node_attributes(mol_graph, 0, 'fragid'); nx.set_node_attributes(mol_graph, 1, 'w')
      nx.set_node_attributes(mol_graph, attributes)                      # dict of dicts: per-node update *)
From Coq Require Import String.
From Coq Require Import List Ascii ZArith Bool.
From CGV Require Import Base.PyBase Base.PyVal Base.NxGraph Dialect.DialectImpl Frag.NDict Frag.StripImpl Reader.ReaderImpl.
Import ListNotations.
Open Scope Z_scope.

(** nx.set_node_attributes(G, {node: dict}) : G.nodes[n].update(d) for the nodes that exist *)
Definition update_nodes_from (g : graph) (d : list (Z * attrs)) : graph :=
  fold_left (fun acc kd => gupdate (fst kd) (fun n => {| nk := nk n; na := aupdate (na n) (snd kd); nadj := nadj n |}) acc) d g.
Definition bonding_values (bd : ndict (list pystr)) : list (Z * pyval) :=
  map (fun kl => (Z.of_nat (fst kl), VList (map VStr (snd kl)))) bd.
Definition node_updates (a : ndict attrs) : list (Z * attrs) := map (fun kd => (Z.of_nat (fst kd), snd kd)) a.

Definition read_fragment_cgsmiles (fo : float_oracle) (clean fragname : pystr) (bd : ndict (list pystr)) (attributes : ndict attrs)
  : res graph :=
  g <- read_cgsmiles fo clean ;;
  let g1 := set_nodes_from g (S "atomname") (get_node_attributes g (S "fragname")) in
  let g2 := set_nodes_from g1 (S "bonding") (bonding_values bd) in
  let g3 := set_all_nodes g2 (S "fragname") (VStr fragname) in
  let g4 := set_all_nodes g3 (S "fragid") (VInt 0) in
  let g5 := set_all_nodes g4 (S "w") (VInt 1) in
  Ok (update_nodes_from g5 (node_updates attributes)).

(** one coarse fragment "name=text" of fragment_iter(all_atom=False) *)
Definition read_coarse_fragment (fo : float_oracle) (fragname frag_smile : pystr) : res graph :=
  r <- strip_bonding_descriptors fo frag_smile ;;
  let '(clean, bd, _, attributes) := r in
  read_fragment_cgsmiles fo clean fragname bd attributes.
