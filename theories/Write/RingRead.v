(** RingRead: what write_graph writes for ANY transcript (tree edges + ring edges), CG mode, is a flat string of
    the reader's grammar as long as no `%nn` marker is directly followed by a one-digit marker without a symbol
    in between ([ok_rings], the complement of the known class pct_marker_then_digit); by the reader component's
    simulation theorem the reader model then computes the token machine's denotation of the writer's own item
    list: [ring_text_lins], [written_text_is_read_by_the_machine].  The last step -- that this denotation is
    isomorphic to the input for arbitrary RING edges -- is not proved here (bounded: C07_small); for trees it is
    TreeRound.tree_graph_roundtrip. *)
From Coq Require Import String.
From Coq Require Import List Ascii ZArith Bool Lia.
From CGV Require Import Base.PyBase Base.PyVal Base.PyGen Base.NxGraph Dialect.DialectImpl.
From CGV Require Import Write.WriteImpl Write.TreeDefs Write.TreeWrite Write.TreeTables Write.RingDefs Write.RingWrite
     Write.RingTables Write.RingMarkers Write.TreeRead.
From CGV Require Import Reader.ReaderImpl Reader.Grammar Reader.Lin Reader.ReaderSim.
Import ListNotations.
Open Scope Z_scope.

(** ------------------------------------------------------------------ decimal digits of a marker *)
Fixpoint dig_acc (fuel n : nat) (acc : list nat) : list nat :=
  match fuel with
  | O => acc
  | Datatypes.S f => let acc' := (n mod 10)%nat :: acc in if (n <? 10)%nat then acc' else dig_acc f (n / 10) acc'
  end.
Definition ddigits (n : nat) : list nat := dig_acc (Datatypes.S n) n [].
Lemma nat_digits_map : forall fuel n acc, nat_digits fuel n (map digit_char acc) = map digit_char (dig_acc fuel n acc).
Proof.
  induction fuel as [|f IH]; intros n acc; [reflexivity|]. cbn [nat_digits dig_acc].
  destruct (n <? 10)%nat; [reflexivity|]. apply (IH (n / 10)%nat ((n mod 10)%nat :: acc)).
Qed.
Lemma str_of_nat_digits n : str_of_nat n = map digit_char (ddigits n).
Proof. unfold str_of_nat, ddigits. apply (nat_digits_map (Datatypes.S n) n []). Qed.
Lemma fold_dval : forall ds a, fold_left (fun acc d => (acc * 10 + d)%nat) ds a = (a * 10 ^ length ds + digits_nat ds)%nat.
Proof.
  unfold digits_nat. induction ds as [|d ds IH]; intros a; cbn [fold_left length]; [cbn; lia|].
  rewrite IH, (IH (0 * 10 + d)%nat). cbn [Nat.pow]. lia.
Qed.
Lemma dig_acc_val : forall fuel n acc, (n < fuel)%nat ->
  digits_nat (dig_acc fuel n acc) = (n * 10 ^ length acc + digits_nat acc)%nat.
Proof.
  induction fuel as [|f IH]; intros n acc Hn; [lia|]. cbn [dig_acc].
  destruct (Nat.ltb_spec n 10) as [Hl|Hl].
  - rewrite Nat.mod_small by assumption. unfold digits_nat at 1. cbn [fold_left]. rewrite fold_dval. lia.
  - assert (Hd : (n / 10 < f)%nat).
    { assert (n / 10 < n)%nat by (apply Nat.div_lt; lia). lia. }
    rewrite (IH (n / 10)%nat ((n mod 10)%nat :: acc) Hd). cbn [length Nat.pow].
    unfold digits_nat at 1. cbn [fold_left]. rewrite fold_dval.
    pose proof (Nat.div_mod n 10 ltac:(lia)) as E.
    assert (n * 10 ^ length acc = (n / 10) * (10 * 10 ^ length acc) + (n mod 10) * 10 ^ length acc)%nat by nia.
    lia.
Qed.
Lemma ddigits_val n : digits_nat (ddigits n) = n.
Proof. unfold ddigits. rewrite dig_acc_val by lia. cbn. lia. Qed.
Lemma dig_acc_small : forall fuel n acc, forallb (fun d => (d <? 10)%nat) acc = true ->
  forallb (fun d => (d <? 10)%nat) (dig_acc fuel n acc) = true.
Proof.
  induction fuel as [|f IH]; intros n acc H; [exact H|]. cbn [dig_acc].
  assert (Hm : ((n mod 10 <? 10) = true)%nat) by (apply Nat.ltb_lt; apply Nat.mod_upper_bound; lia).
  destruct (n <? 10)%nat; [cbn [forallb]; now rewrite Hm|]. apply IH. cbn [forallb]. now rewrite Hm.
Qed.
Lemma dig_acc_nonempty : forall fuel n acc, fuel <> O -> dig_acc fuel n acc <> [].
Proof.
  induction fuel as [|f IH]; intros n acc H; [contradiction|]. cbn [dig_acc].
  destruct (n <? 10)%nat; [discriminate|]. destruct f; [cbn; discriminate|]. apply IH. discriminate.
Qed.

(** the reader's representation of the marker the writer writes; [a] = a marker of the same node was already
    written in the % form (then the writer writes `%0n` for a one-digit marker, fix b681517) *)
Definition pdigits (m : nat) : list nat := if (m <? 10)%nat then [0%nat; m] else ddigits m.
Definition mrep (a : bool) (m : nat) : marker := if (m <? 10)%nat && negb a then MDigit m else MPct (pdigits m).
Lemma pdigits_str m : "%"%char :: digits_str (pdigits m) = pct_text m.
Proof.
  unfold pdigits, pct_text. destruct (Nat.ltb_spec m 10) as [H|H]; f_equal.
  - cbn [digits_str map]. do 10 (destruct m as [|m]; [reflexivity|]). lia.
  - unfold digits_str. now rewrite str_of_nat_digits.
Qed.
Lemma mrep_str a m : marker_str (mrep a m) = marker_text a m.
Proof.
  unfold mrep, marker_text. destruct ((m <? 10)%nat && negb a) eqn:E.
  - apply andb_prop in E as [H _]. apply Nat.ltb_lt in H. cbn [marker_str]. do 10 (destruct m as [|m]; [reflexivity|]). lia.
  - cbn [marker_str]. apply pdigits_str.
Qed.
Lemma pdigits_val m : digits_nat (pdigits m) = m.
Proof. unfold pdigits. destruct (m <? 10)%nat; [unfold digits_nat; cbn; lia|apply ddigits_val]. Qed.
Lemma mrep_val a m : marker_val (mrep a m) = Z.of_nat m.
Proof. unfold mrep. destruct ((m <? 10)%nat && negb a); cbn [marker_val]; [reflexivity|]. now rewrite pdigits_val. Qed.
Lemma mrep_ok a m : marker_ok (mrep a m) = true.
Proof.
  unfold mrep. destruct ((m <? 10)%nat && negb a) eqn:E; cbn [marker_ok].
  - now apply andb_prop in E as [H _].
  - unfold pdigits. destruct (Nat.ltb_spec m 10) as [H|H].
    + unfold digits_ok. cbn [forallb]. apply Nat.ltb_lt in H. now rewrite H.
    + unfold digits_ok. pose proof (dig_acc_nonempty (Datatypes.S m) m [] ltac:(discriminate)) as Hn. fold (ddigits m) in Hn.
      destruct (ddigits m) eqn:E'; [contradiction|]. rewrite <- E'. apply dig_acc_small. reflexivity.
Qed.
(** the writer never leaves a one-digit form behind a % form *)
Lemma mrep_after m : is_pct (mrep true m) = true.
Proof. unfold mrep. now rewrite andb_false_r. Qed.
Lemma mrep_pct_flag a m : is_pct (mrep a m) = true -> (a || (10 <=? m)%nat) = true.
Proof.
  unfold mrep. destruct a; [reflexivity|]. cbn [negb orb]. rewrite andb_true_r.
  destruct (Nat.ltb_spec m 10) as [H|H]; [discriminate|]. intros _. now apply Nat.leb_le.
Qed.

(** ------------------------------------------------------------------ ring items of one node *)
Definition plain_item (om : option sym * marker) : pystr := osym_str (fst om) ++ marker_str (snd om).
(** no `%nn` form directly followed by a one-digit marker without a symbol *)
Fixpoint ok_rings (prev_pct : bool) (l : list (option sym * marker)) : bool :=
  match l with
  | [] => true
  | (o, m) :: r =>
      negb (prev_pct && match o, m with None, MDigit _ => true | _, _ => false end)
      && ok_rings (pct_form prev_pct o m) r
  end.
Lemma rings_str_plain : forall l prev, ok_rings prev l = true -> rings_str prev l = concat (map plain_item l).
Proof.
  induction l as [|[o m] r IH]; intros prev H; [reflexivity|]. cbn [ok_rings] in H. apply andb_prop in H as [H1 H2].
  cbn [rings_str map concat]. rewrite (IH _ H2). f_equal. unfold plain_item, ring_str. cbn [fst snd].
  destruct o as [s|]; [reflexivity|]. destruct m as [d|ds]; [|reflexivity].
  destruct prev; [discriminate|reflexivity].
Qed.

Section RingLin.
  Variable name : Z -> pystr.
  Variable esym : Z -> Z -> option sym.
  Variable rlist : Z -> list nat.
  Variable rsym_o : nat -> option sym.         (* symbol of ring [ri], written at its opening marker *)
  Definition rsymt (ri : nat) : pystr := osym_str (rsym_o ri).

  Fixpoint ring_items (a : bool) (mk : marks) (ris : list nat) : marks * list (option sym * marker) :=
    match ris with
    | [] => (mk, [])
    | ri :: r =>
        match mk_get ri mk with
        | None => let m := get_ring_marker (map snd mk) in
                  let '(mk2, it2) := ring_items (a || (10 <=? m)%nat) (mk ++ [(ri, m)]) r in (mk2, (rsym_o ri, mrep a m) :: it2)
        | Some m => let '(mk2, it2) := ring_items (a || (10 <=? m)%nat) (mk_del ri mk) r in (mk2, (None, mrep a m) :: it2)
        end
    end.
  Lemma ring_items_pure : forall ris a mk,
    fst (ring_items a mk ris) = fst (fst (ring_pure rsymt a mk ris))
    /\ concat (map plain_item (snd (ring_items a mk ris))) = snd (fst (ring_pure rsymt a mk ris))
    /\ forallb (fun om => marker_ok (snd om)) (snd (ring_items a mk ris)) = true.
  Proof.
    induction ris as [|ri r IH]; intros a mk; [repeat split|]. cbn [ring_items RingDefs.ring_pure].
    destruct (mk_get ri mk) as [m|].
    - destruct (IH (a || (10 <=? m)%nat) (mk_del ri mk)) as (A & B & C).
      destruct (ring_items (a || (10 <=? m)%nat) (mk_del ri mk) r) as [mk2 it2].
      destruct (ring_pure rsymt (a || (10 <=? m)%nat) (mk_del ri mk) r) as [[x y] z].
      cbn [fst snd map concat forallb] in *. unfold plain_item at 1. cbn [fst snd osym_str app]. rewrite mrep_str, mrep_ok, B. auto.
    - set (m := get_ring_marker (map snd mk)).
      destruct (IH (a || (10 <=? m)%nat) (mk ++ [(ri, m)])) as (A & B & C).
      destruct (ring_items (a || (10 <=? m)%nat) (mk ++ [(ri, m)]) r) as [mk2 it2].
      destruct (ring_pure rsymt (a || (10 <=? m)%nat) (mk ++ [(ri, m)]) r) as [[x y] z].
      cbn [fst snd map concat forallb] in *. unfold plain_item at 1. cbn [fst snd]. rewrite mrep_str, mrep_ok, B.
      unfold rsymt. rewrite <- app_assoc. auto.
  Qed.
  (** the items of one node never have a one-digit form directly behind a % form: the pattern the reader would
      read as ONE marker is not written any more (fix b681517) *)
  Lemma ring_items_ok_rings : forall ris a prev mk, (prev = true -> a = true) ->
    ok_rings prev (snd (ring_items a mk ris)) = true.
  Proof.
    induction ris as [|ri r IH]; intros a prev mk Hpa; [reflexivity|]. cbn [ring_items].
    assert (Step : forall o m, (pct_form prev o (mrep a m) = true -> (a || (10 <=? m)%nat) = true)
                   /\ negb (prev && match o, mrep a m with None, MDigit _ => true | _, _ => false end) = true).
    { intros o m. split.
      - unfold pct_form. intros H. apply orb_prop in H as [H|H]; [now apply mrep_pct_flag|].
        apply andb_prop in H as [H _]. now rewrite (Hpa H).
      - destruct prev; [|reflexivity]. rewrite (Hpa eq_refl). cbn [andb]. destruct o; [reflexivity|].
        pose proof (mrep_after m) as Hm. destruct (mrep true m); [discriminate|reflexivity]. }
    destruct (mk_get ri mk) as [m|].
    - destruct (Step None m) as [S1 S2].
      specialize (IH (a || (10 <=? m)%nat) (pct_form prev None (mrep a m)) (mk_del ri mk) S1).
      destruct (ring_items (a || (10 <=? m)%nat) (mk_del ri mk) r) as [mk2 it2]. cbn [snd ok_rings] in *. now rewrite S2, IH.
    - set (m := get_ring_marker (map snd mk)). destruct (Step (rsym_o ri) m) as [S1 S2].
      specialize (IH (a || (10 <=? m)%nat) (pct_form prev (rsym_o ri) (mrep a m)) (mk ++ [(ri, m)]) S1).
      destruct (ring_items (a || (10 <=? m)%nat) (mk ++ [(ri, m)]) r) as [mk2 it2]. cbn [snd ok_rings] in *. now rewrite S2, IH.
  Qed.

  Definition mklinR (isb : bool) (k : Z) (rs : list (option sym * marker)) (b : option sym) (c : option (option sym)) : lin :=
    {| l_open := isb; l_name := name k; l_mult := None; l_rings := rs; l_bond := b; l_close := c |}.
  (** items and ring table, threaded in the order of writing exactly like [wtextR] *)
  Fixpoint tlinsR (isb : bool) (d : nat) (ns : option sym) (mk : marks) (t : rtree) : list lin * marks :=
    match t with
    | RNode k cs =>
        let d1 := if isb then Datatypes.S d else d in
        let '(mk1, rs) := ring_items false mk (rlist k) in
        match cs with
        | [] => ([mklinR isb k rs (if (0 <? d1)%nat then None else ns) (if (0 <? d1)%nat then Some ns else None)], mk1)
        | c1 :: bs =>
            let '(lb, mkb) :=
              (fix br (prev : rtree) (l : list rtree) : list lin * marks :=
                 match l with
                 | [] => ([], mk1)
                 | c :: r => let '(l2, mk2) := br c r in
                             let '(l1, mk3) := tlinsR true d1 (esym k (rkey prev)) mk2 c in (l2 ++ l1, mk3)
                 end) c1 bs in
            let '(lc, mkc) := tlinsR false d1 ns mkb c1 in
            (mklinR isb k rs (esym k (rkey (last bs c1))) None :: lb ++ lc, mkc)
        end
    end.
  Definition blinsR (k : Z) (d1 : nat) (mk1 : marks) (prev : rtree) (l : list rtree) : list lin * marks :=
    (fix br (prev : rtree) (l : list rtree) : list lin * marks :=
       match l with
       | [] => ([], mk1)
       | c :: r => let '(l2, mk2) := br c r in
                   let '(l1, mk3) := tlinsR true d1 (esym k (rkey prev)) mk2 c in (l2 ++ l1, mk3)
       end) prev l.

  (** every node's ring items are free of the `%nn`-then-digit pattern *)
  Definition rings_plain (l : list lin) : bool := forallb (fun i => ok_rings false (l_rings i)) l.

  Lemma lin_str_mkR isb k rs b c : ok_rings false rs = true ->
    lin_str (mklinR isb k rs b c) = (if isb then S "(" else []) ++ ntext name k ++ concat (map plain_item rs) ++ osym_str b ++ close_str c.
  Proof.
    intros H. unfold lin_str, lin_tail_str, ntext. cbn [mklinR l_open l_name l_mult l_rings l_bond l_close mult_str app].
    rewrite (rings_str_plain rs false H).
    destruct isb; cbn [S list_ascii_of_string app]; rewrite <- ?app_assoc; reflexivity.
  Qed.

  Notation wtextR := (wtextR false (ntext name) (stext esym) rlist rsymt).
  Notation wbranchesR := (wbranchesR false (ntext name) (stext esym) rlist rsymt).

  Lemma tlinsR_unfold isb d ns mk k c1 bs :
    tlinsR isb d ns mk (RNode k (c1 :: bs))
    = (let d1 := if isb then Datatypes.S d else d in
       let '(mk1, rs) := ring_items false mk (rlist k) in
       let '(lb, mkb) := blinsR k d1 mk1 c1 bs in
       let '(lc, mkc) := tlinsR false d1 ns mkb c1 in
       (mklinR isb k rs (esym k (rkey (last bs c1))) None :: lb ++ lc, mkc)).
  Proof. reflexivity. Qed.
  Lemma blinsR_cons k d1 mk1 prev c r :
    blinsR k d1 mk1 prev (c :: r)
    = (let '(l2, mk2) := blinsR k d1 mk1 c r in
       let '(l1, mk3) := tlinsR true d1 (esym k (rkey prev)) mk2 c in (l2 ++ l1, mk3)).
  Proof. reflexivity. Qed.
  Lemma wtextR_unfold p isb d mk k c1 bs :
    wtextR p isb d mk (RNode k (c1 :: bs))
    = (let d1 := if isb then Datatypes.S d else d in
       let '(mk1, rt, trc) := ring_pure rsymt false mk (rlist k) in
       let '(tb, mkb, mb) := wbranchesR k d1 mk1 bs in
       let '(tc, mkc, mc) := wtextR (Some k) false d1 mkb c1 in
       (whead false (ntext name) (stext esym) p isb k ++ rt ++ tb ++ tc, mkc, trace_entry k trc ++ mb ++ mc)).
  Proof. reflexivity. Qed.
  Lemma wbranchesR_cons k d1 mk1 c r :
    wbranchesR k d1 mk1 (c :: r)
    = (let '(t2, mk2, m2) := wbranchesR k d1 mk1 r in
       let '(t1, mk3, m1) := wtextR (Some k) true d1 mk2 c in (t2 ++ t1, mk3, m2 ++ m1)).
  Proof. reflexivity. Qed.

  (** the same ring table on both sides *)
  Lemma tlinsR_marks : forall t p isb d ns mk, snd (tlinsR isb d ns mk t) = snd (fst (wtextR p isb d mk t)).
  Proof.
    apply (rtree_ind2 (fun t => forall p isb d ns mk, snd (tlinsR isb d ns mk t) = snd (fst (wtextR p isb d mk t)))).
    intros k cs IH p isb d ns mk. destruct cs as [|c1 bs].
    - cbn [tlinsR RingDefs.wtextR]. destruct (ring_items_pure (rlist k) false mk) as (A & _ & _).
      destruct (ring_items false mk (rlist k)) as [mk1 rs]. destruct (ring_pure rsymt false mk (rlist k)) as [[x y] z]. exact A.
    - rewrite tlinsR_unfold, wtextR_unfold. cbv zeta. set (d1 := if isb then Datatypes.S d else d).
      destruct (ring_items_pure (rlist k) false mk) as (A & _ & _).
      destruct (ring_items false mk (rlist k)) as [mk1 rs]. destruct (ring_pure rsymt false mk (rlist k)) as [[x y] z]. cbn [fst] in A. subst x.
      assert (B : forall l prev, Forall (fun t => forall p isb d ns mk, snd (tlinsR isb d ns mk t) = snd (fst (wtextR p isb d mk t))) l ->
                  snd (blinsR k d1 mk1 prev l) = snd (fst (wbranchesR k d1 mk1 l))).
      { induction l as [|c r IHr]; intros prev Hl; [reflexivity|]. rewrite blinsR_cons, wbranchesR_cons.
        specialize (IHr c (Forall_inv_tail Hl)).
        destruct (blinsR k d1 mk1 c r) as [l2 mk2]. destruct (wbranchesR k d1 mk1 r) as [[t2 mk2'] m2]. cbn [fst snd] in IHr. subst mk2'.
        pose proof (Forall_inv Hl (Some k) true d1 (esym k (rkey prev)) mk2) as Hc.
        destruct (tlinsR true d1 (esym k (rkey prev)) mk2 c) as [l1 mk3]. destruct (wtextR (Some k) true d1 mk2 c) as [[t1 mk3'] m1].
        exact Hc. }
      specialize (B bs c1 (Forall_inv_tail IH)).
      destruct (blinsR k d1 mk1 c1 bs) as [lb mkb]. destruct (wbranchesR k d1 mk1 bs) as [[tb mkb'] mb]. cbn [fst snd] in B. subst mkb'.
      pose proof (Forall_inv IH (Some k) false d1 ns mkb) as Hc.
      destruct (tlinsR false d1 ns mkb c1) as [lc mkc]. destruct (wtextR (Some k) false d1 mkb c1) as [[tc mkc'] mc]. exact Hc.
  Qed.

  Lemma blinsR_marks k d1 mk1 : forall l prev, snd (blinsR k d1 mk1 prev l) = snd (fst (wbranchesR k d1 mk1 l)).
  Proof.
    induction l as [|c r IHr]; intros prev; [reflexivity|]. rewrite blinsR_cons, wbranchesR_cons.
    specialize (IHr c). destruct (blinsR k d1 mk1 c r) as [l2 mk2]. destruct (wbranchesR k d1 mk1 r) as [[t2 mk2'] m2].
    cbn [fst snd] in IHr. subst mk2'.
    pose proof (tlinsR_marks c (Some k) true d1 (esym k (rkey prev)) mk2) as Hc.
    destruct (tlinsR true d1 (esym k (rkey prev)) mk2 c) as [l1 mk3]. destruct (wtextR (Some k) true d1 mk2 c) as [[t1 mk3'] m1]. exact Hc.
  Qed.

  (** no node of the writer's item list has the `%nn`-then-digit pattern *)
  Lemma tlinsR_rings_plain : forall t isb d ns mk, rings_plain (fst (tlinsR isb d ns mk t)) = true.
  Proof.
    apply (rtree_ind2 (fun t => forall isb d ns mk, rings_plain (fst (tlinsR isb d ns mk t)) = true)).
    intros k cs IH isb d ns mk.
    pose proof (ring_items_ok_rings (rlist k) false false mk (fun H => H)) as Hk.
    destruct cs as [|c1 bs].
    - cbn [tlinsR]. destruct (ring_items false mk (rlist k)) as [mk1 rs]. cbn [fst snd] in *.
      unfold rings_plain. cbn [forallb mklinR l_rings]. now rewrite Hk.
    - rewrite tlinsR_unfold. cbv zeta. set (d1 := if isb then Datatypes.S d else d).
      destruct (ring_items false mk (rlist k)) as [mk1 rs]. cbn [snd] in Hk.
      assert (B : forall l prev, Forall (fun t => forall isb d ns mk, rings_plain (fst (tlinsR isb d ns mk t)) = true) l ->
                  rings_plain (fst (blinsR k d1 mk1 prev l)) = true).
      { induction l as [|c r IHr]; intros prev Hl; [reflexivity|]. rewrite blinsR_cons.
        specialize (IHr c (Forall_inv_tail Hl)). destruct (blinsR k d1 mk1 c r) as [l2 mk2]. cbn [fst] in IHr.
        pose proof (Forall_inv Hl true d1 (esym k (rkey prev)) mk2) as Hc.
        destruct (tlinsR true d1 (esym k (rkey prev)) mk2 c) as [l1 mk3]. cbn [fst] in *.
        unfold rings_plain in *. now rewrite forallb_app, IHr, Hc. }
      specialize (B bs c1 (Forall_inv_tail IH)). destruct (blinsR k d1 mk1 c1 bs) as [lb mkb]. cbn [fst] in B.
      pose proof (Forall_inv IH false d1 ns mkb) as Hc.
      destruct (tlinsR false d1 ns mkb c1) as [lc mkc]. cbn [fst] in *.
      unfold rings_plain in *. cbn [forallb mklinR l_rings]. now rewrite Hk, forallb_app, B, Hc.
  Qed.

  (** the text (CG mode): symbols move to the end of the previous item, markers stay behind their node *)
  Lemma wtextR_lins : forall t p isb d ns mk, rings_plain (fst (tlinsR isb d ns mk t)) = true ->
    insym esym p (rkey t) ++ lins_str (fst (tlinsR isb d ns mk t)) = fst (fst (wtextR p isb d mk t)) ++ osym_str ns.
  Proof.
    apply (rtree_ind2 (fun t => forall p isb d ns mk, rings_plain (fst (tlinsR isb d ns mk t)) = true ->
              insym esym p (rkey t) ++ lins_str (fst (tlinsR isb d ns mk t)) = fst (fst (wtextR p isb d mk t)) ++ osym_str ns)).
    intros k cs IH p isb d ns mk Hpl. cbn [rkey]. destruct cs as [|c1 bs].
    - cbn [tlinsR RingDefs.wtextR] in *. destruct (ring_items_pure (rlist k) false mk) as (_ & T & _).
      destruct (ring_items false mk (rlist k)) as [mk1 rs]. destruct (ring_pure rsymt false mk (rlist k)) as [[x rt] z]. cbn [fst snd] in *.
      unfold rings_plain in Hpl. cbn [forallb mklinR l_rings] in Hpl. rewrite andb_true_r in Hpl.
      unfold lins_str. cbn [flat_map]. rewrite app_nil_r, (lin_str_mkR _ _ _ _ _ Hpl), T.
      unfold whead, insym. cbn [andb negb]. rewrite andb_false_r, andb_true_r. cbn [app].
      destruct (0 <? (if isb then Datatypes.S d else d))%nat; cbn [osym_str close_str app];
        rewrite <- ?app_assoc; cbn [app]; rewrite ?app_nil_r; reflexivity.
    - rewrite tlinsR_unfold in *. rewrite wtextR_unfold. cbv zeta in *. set (d1 := if isb then Datatypes.S d else d) in *.
      destruct (ring_items_pure (rlist k) false mk) as (A & T & _).
      destruct (ring_items false mk (rlist k)) as [mk1 rs]. destruct (ring_pure rsymt false mk (rlist k)) as [[x rt] z]. cbn [fst snd] in A, T. subst x.
      (* the branches *)
      assert (B : forall l prev, Forall (fun t => forall p isb d ns mk, rings_plain (fst (tlinsR isb d ns mk t)) = true ->
                      insym esym p (rkey t) ++ lins_str (fst (tlinsR isb d ns mk t)) = fst (fst (wtextR p isb d mk t)) ++ osym_str ns) l ->
                  rings_plain (fst (blinsR k d1 mk1 prev l)) = true ->
                  osym_str (esym k (rkey (last l prev))) ++ lins_str (fst (blinsR k d1 mk1 prev l))
                  = fst (fst (wbranchesR k d1 mk1 l)) ++ osym_str (esym k (rkey prev))).
      { induction l as [|c r IHr]; intros prev Hl Hp'.
        - cbn. now rewrite app_nil_r.
        - rewrite blinsR_cons in *. rewrite wbranchesR_cons. rewrite last_cons.
          pose proof (blinsR_marks k d1 mk1 r c) as Mb.
          specialize (IHr c (Forall_inv_tail Hl)).
          destruct (blinsR k d1 mk1 c r) as [l2 mk2]. destruct (wbranchesR k d1 mk1 r) as [[t2 mk2'] m2]. cbn [fst snd] in Mb, IHr. subst mk2'.
          pose proof (Forall_inv Hl (Some k) true d1 (esym k (rkey prev)) mk2) as Hc.
          destruct (tlinsR true d1 (esym k (rkey prev)) mk2 c) as [l1 mk3]. destruct (wtextR (Some k) true d1 mk2 c) as [[t1 mk3'] m1].
          cbn [fst snd] in *. unfold rings_plain in Hp'. rewrite forallb_app in Hp'. apply andb_prop in Hp' as [Hp2 Hp1].
          rewrite lins_str_app, app_assoc, (IHr Hp2), <- !app_assoc. f_equal. apply Hc. exact Hp1. }
      pose proof (blinsR_marks k d1 mk1 bs c1) as Mb.
      specialize (B bs c1 (Forall_inv_tail IH)).
      destruct (blinsR k d1 mk1 c1 bs) as [lb mkb]. destruct (wbranchesR k d1 mk1 bs) as [[tb mkb'] mb]. cbn [fst snd] in Mb, B. subst mkb'.
      pose proof (Forall_inv IH (Some k) false d1 ns mkb) as Hc.
      destruct (tlinsR false d1 ns mkb c1) as [lc mkc]. destruct (wtextR (Some k) false d1 mkb c1) as [[tc mkc'] mc].
      cbn [fst snd] in *. unfold rings_plain in Hpl. cbn [forallb] in Hpl. apply andb_prop in Hpl as [Hp0 Hpl].
      rewrite forallb_app in Hpl. apply andb_prop in Hpl as [Hpb Hpc]. cbn [mklinR l_rings] in Hp0.
      change (lins_str (mklinR isb k rs (esym k (rkey (last bs c1))) None :: lb ++ lc))
        with (lin_str (mklinR isb k rs (esym k (rkey (last bs c1))) None) ++ lins_str (lb ++ lc)).
      rewrite (lin_str_mkR _ _ _ _ _ Hp0), T. cbn [close_str]. rewrite app_nil_r.
      unfold whead, insym. cbn [andb negb]. rewrite andb_false_r, andb_true_r. cbn [app].
      rewrite <- !app_assoc. f_equal. f_equal. f_equal. f_equal.
      rewrite lins_str_app, app_assoc, (B Hpb), <- !app_assoc. f_equal. apply Hc. exact Hpc.
  Qed.
  (** ... for every transcript: the side condition always holds on the repaired writer *)
  Corollary wtextR_lins_all t p isb d ns mk :
    insym esym p (rkey t) ++ lins_str (fst (tlinsR isb d ns mk t)) = fst (fst (wtextR p isb d mk t)) ++ osym_str ns.
  Proof. apply wtextR_lins, tlinsR_rings_plain. Qed.
End RingLin.

(** ------------------------------------------------------------------ extensionality in the ring-symbol text *)
Lemma ring_pure_ext f g : (forall ri, f ri = g ri) -> forall ris a mk, ring_pure f a mk ris = ring_pure g a mk ris.
Proof.
  intros H. induction ris as [|ri r IH]; intros a mk; [reflexivity|]. cbn [ring_pure].
  destruct (mk_get ri mk); rewrite IH, ?H; reflexivity.
Qed.
Lemma wtextR_ext sf ntext stext rlist f g : (forall ri, f ri = g ri) ->
  forall t p isb d mk, wtextR sf ntext stext rlist f p isb d mk t = wtextR sf ntext stext rlist g p isb d mk t.
Proof.
  intros H. apply (rtree_ind2 (fun t => forall p isb d mk, wtextR sf ntext stext rlist f p isb d mk t = wtextR sf ntext stext rlist g p isb d mk t)).
  intros k cs IH p isb d mk. destruct cs as [|c1 bs].
  - cbn [wtextR]. now rewrite (ring_pure_ext f g H).
  - cbn [wtextR]. rewrite (ring_pure_ext f g H). destruct (ring_pure g false mk (rlist k)) as [[mk1 rt] trc].
    set (d1 := if isb then Datatypes.S d else d).
    assert (B : forall l,
              Forall (fun t => forall p isb d mk, wtextR sf ntext stext rlist f p isb d mk t = wtextR sf ntext stext rlist g p isb d mk t) l ->
              wbranchesR sf ntext stext rlist f k d1 mk1 l = wbranchesR sf ntext stext rlist g k d1 mk1 l).
    { induction l as [|c r IHr]; intros Hl; [reflexivity|].
      change (wbranchesR sf ntext stext rlist f k d1 mk1 (c :: r))
        with (let '(t2, mk2, m2) := wbranchesR sf ntext stext rlist f k d1 mk1 r in
              let '(t1, mk3, m1) := wtextR sf ntext stext rlist f (Some k) true d1 mk2 c in (t2 ++ t1, mk3, m2 ++ m1)).
      change (wbranchesR sf ntext stext rlist g k d1 mk1 (c :: r))
        with (let '(t2, mk2, m2) := wbranchesR sf ntext stext rlist g k d1 mk1 r in
              let '(t1, mk3, m1) := wtextR sf ntext stext rlist g (Some k) true d1 mk2 c in (t2 ++ t1, mk3, m2 ++ m1)).
      rewrite (IHr (Forall_inv_tail Hl)). destruct (wbranchesR sf ntext stext rlist g k d1 mk1 r) as [[t2 mk2] m2].
      now rewrite (Forall_inv Hl). }
    fold (wbranchesR sf ntext stext rlist f k d1 mk1 bs). fold (wbranchesR sf ntext stext rlist g k d1 mk1 bs).
    rewrite (B bs (Forall_inv_tail IH)). destruct (wbranchesR sf ntext stext rlist g k d1 mk1 bs) as [[tb mkb] mb].
    now rewrite (Forall_inv IH).
Qed.

Section RingLinOk.
  Variable fo : float_oracle.
  Variable name : Z -> pystr.
  Variable esym : Z -> Z -> option sym.
  Variable rlist : Z -> list nat.
  Variable rsym_o : nat -> option sym.
  Notation tlinsR := (tlinsR name esym rlist rsym_o).
  Notation blinsR := (blinsR name esym rlist rsym_o).

  Lemma mklinR_ok isb k mk b c : name_ok fo (name k) = true -> (match c with Some _ => b = None | None => True end) ->
    lin_ok fo (mklinR name isb k (snd (ring_items rsym_o false mk (rlist k))) b c) = true.
  Proof.
    intros Hk Hc. unfold lin_ok, mklinR. cbn [l_name l_rings l_mult l_close l_bond]. rewrite Hk.
    destruct (ring_items_pure rsym_o (rlist k) false mk) as (_ & _ & M). rewrite M. cbn [andb].
    destruct c; [subst b; reflexivity|reflexivity].
  Qed.

  Lemma tlinsR_ok : forall t isb d ns mk, (forall k, In k (rkeys t) -> name_ok fo (name k) = true) ->
    forallb (lin_ok fo) (fst (tlinsR isb d ns mk t)) = true.
  Proof.
    apply (rtree_ind2 (fun t => forall isb d ns mk, (forall k, In k (rkeys t) -> name_ok fo (name k) = true) ->
              forallb (lin_ok fo) (fst (tlinsR isb d ns mk t)) = true)).
    intros k cs IH isb d ns mk Hn. cbn [rkeys] in Hn.
    assert (Hk : name_ok fo (name k) = true) by (apply Hn; now left).
    destruct cs as [|c1 bs].
    - cbn [RingRead.tlinsR]. pose proof (mklinR_ok isb k mk) as M.
      destruct (ring_items rsym_o false mk (rlist k)) as [mk1 rs]. cbn [fst snd forallb] in *. rewrite andb_true_r.
      destruct (0 <? (if isb then Datatypes.S d else d))%nat; apply M; auto.
    - rewrite tlinsR_unfold. cbv zeta. set (d1 := if isb then Datatypes.S d else d).
      pose proof (mklinR_ok isb k mk (esym k (rkey (last bs c1))) None Hk I) as M.
      destruct (ring_items rsym_o false mk (rlist k)) as [mk1 rs]. cbn [snd] in M.
      assert (B : forall l prev, Forall (fun t => forall isb d ns mk, (forall k, In k (rkeys t) -> name_ok fo (name k) = true) ->
                    forallb (lin_ok fo) (fst (tlinsR isb d ns mk t)) = true) l ->
                  (forall x, In x (flat_map rkeys l) -> name_ok fo (name x) = true) ->
                  forallb (lin_ok fo) (fst (blinsR k d1 mk1 prev l)) = true).
      { induction l as [|c r IHr]; intros prev Hl Hx; [reflexivity|]. rewrite blinsR_cons. cbn [flat_map] in Hx.
        specialize (IHr c (Forall_inv_tail Hl) (fun x H => Hx x (in_or_app _ _ _ (or_intror H)))).
        destruct (blinsR k d1 mk1 c r) as [l2 mk2]. cbn [fst] in IHr.
        pose proof (Forall_inv Hl true d1 (esym k (rkey prev)) mk2 (fun x H => Hx x (in_or_app _ _ _ (or_introl H)))) as Hc.
        destruct (tlinsR true d1 (esym k (rkey prev)) mk2 c) as [l1 mk3]. cbn [fst] in *. rewrite forallb_app, IHr, Hc. reflexivity. }
      specialize (B bs c1 (Forall_inv_tail IH) (fun x H => Hn x (or_intror (in_or_app _ _ _ (or_intror H))))).
      destruct (blinsR k d1 mk1 c1 bs) as [lb mkb]. cbn [fst] in B.
      pose proof (Forall_inv IH false d1 ns mkb (fun x H => Hn x (or_intror (in_or_app _ _ _ (or_introl H))))) as Hc.
      destruct (tlinsR false d1 ns mkb c1) as [lc mkc]. cbn [fst forallb] in *. rewrite M, forallb_app, B, Hc. reflexivity.
  Qed.

  Lemma tlinsR_depth : forall t isb d ns mk rest,
    lin_depth d (fst (tlinsR isb d ns mk t) ++ rest) = lin_depth (dout isb d) rest.
  Proof.
    apply (rtree_ind2 (fun t => forall isb d ns mk rest, lin_depth d (fst (tlinsR isb d ns mk t) ++ rest) = lin_depth (dout isb d) rest)).
    intros k cs IH isb d ns mk rest.
    destruct cs as [|c1 bs].
    - cbn [RingRead.tlinsR]. destruct (ring_items rsym_o false mk (rlist k)) as [mk1 rs].
      cbn [fst app lin_depth mklinR l_open l_close]. unfold dout.
      destruct isb; cbn [Nat.ltb Nat.leb].
      + reflexivity.
      + destruct d as [|d']; cbn [Nat.ltb Nat.leb]; [reflexivity|]. f_equal. lia.
    - rewrite tlinsR_unfold. cbv zeta. set (d1 := if isb then Datatypes.S d else d).
      destruct (ring_items rsym_o false mk (rlist k)) as [mk1 rs].
      assert (B : forall l prev rest', Forall (fun t => forall isb d ns mk rest, lin_depth d (fst (tlinsR isb d ns mk t) ++ rest) = lin_depth (dout isb d) rest) l ->
                  lin_depth d1 (fst (blinsR k d1 mk1 prev l) ++ rest') = lin_depth d1 rest').
      { induction l as [|c r IHr]; intros prev rest' Hl; [reflexivity|]. rewrite blinsR_cons.
        specialize (IHr c). destruct (blinsR k d1 mk1 c r) as [l2 mk2]. cbn [fst] in IHr.
        pose proof (Forall_inv Hl true d1 (esym k (rkey prev)) mk2) as Hc.
        destruct (tlinsR true d1 (esym k (rkey prev)) mk2 c) as [l1 mk3]. cbn [fst] in *.
        rewrite <- app_assoc, (IHr _ (Forall_inv_tail Hl)). apply Hc. }
      specialize (B bs c1). destruct (blinsR k d1 mk1 c1 bs) as [lb mkb]. cbn [fst] in B.
      pose proof (Forall_inv IH false d1 ns mkb) as Hc.
      destruct (tlinsR false d1 ns mkb c1) as [lc mkc]. cbn [fst] in *.
      cbn [app lin_depth mklinR l_open l_close]. fold d1.
      rewrite <- app_assoc, (B _ (Forall_inv_tail IH)), Hc. unfold dout, d1. destruct isb; f_equal; lia.
  Qed.
  Lemma tlinsR_first t ns mk : match fst (tlinsR false 0 ns mk t) with i :: _ => negb (l_open i) | [] => true end = true.
  Proof.
    destruct t as [k [|c1 bs]].
    - cbn [RingRead.tlinsR]. destruct (ring_items rsym_o false mk (rlist k)). reflexivity.
    - rewrite tlinsR_unfold. cbv zeta. destruct (ring_items rsym_o false mk (rlist k)).
      destruct (blinsR k 0 m c1 bs). destruct (tlinsR false 0 ns m0 c1). reflexivity.
  Qed.
End RingLinOk.

(** transcript level: what the loop writes is read by the reader model as the token machine's denotation of the
    writer's own item list -- for ANY tree + ring transcript (the former exception, a `%nn` marker followed by a
    one-digit marker on the same node, is not written any more: fix b681517) *)
Theorem written_text_is_read_by_the_machine : forall fo name esym rsym_o T tr fmt sym rsym n,
  NoDup (rkeys T) -> (rsize T <= n)%nat ->
  (forall k, In k (rkeys T) -> fmt k = Ok (ntext name k)) ->
  (forall e, In e (redges T) -> sym (fst e) (snd e) = Ok (stext esym (fst e) (snd e))) ->
  (forall bond, In bond tr -> exists s, rsym (fst bond) (snd bond) = Ok s) ->
  (forall ri, rsymt_of rsym tr ri = rsymt rsym_o ri) ->
  (forall k, In k (rkeys T) -> name_ok fo (name k) = true) ->
  let items := fst (tlinsR name esym (rlist_of tr) rsym_o false 0 None [] T) in
  exists txt, run_writer n (mk_env false fmt sym rsym (redges T) tr) (rkey T)
              = Ok {| r_text := txt; r_visit := worder T;
                      r_mtrace := snd (wtextR false (ntext name) (stext esym) (rlist_of tr) (rsymt rsym_o) None false 0 [] T) |}
              /\ read_cgsmiles fo (S "{" ++ txt ++ S "}") = denote_lin fo items.
Proof.
  intros fo name esym rsym_o T tr fmt sym rsym n ND Hn Hf Hs Hr Hrs Hok items.
  pose proof (tlinsR_rings_plain name esym (rlist_of tr) rsym_o T false 0%nat None []) as Hpl.
  pose proof (write_graph_transcript false fmt sym rsym (ntext name) (stext esym) T tr n ND Hn Hf Hs Hr) as W.
  rewrite (wtextR_ext false (ntext name) (stext esym) (rlist_of tr) _ _ Hrs) in W.
  pose proof (wtextR_lins name esym (rlist_of tr) rsym_o T None false 0%nat None [] Hpl) as E.
  cbn [insym app osym_str] in E. rewrite app_nil_r in E.
  destruct (wtextR false (ntext name) (stext esym) (rlist_of tr) (rsymt rsym_o) None false 0 [] T) as [[tx mk'] trc] eqn:Ew.
  cbn [fst snd] in *. exists tx. split; [exact W|].
  rewrite <- E. cbn [S list_ascii_of_string app]. apply reader_sim_lin.
  unfold lins_ok. fold items. unfold items.
  rewrite (tlinsR_ok fo name esym (rlist_of tr) rsym_o T false 0%nat None [] Hok).
  pose proof (tlinsR_depth name esym (rlist_of tr) rsym_o T false 0%nat None [] []) as Hd. rewrite app_nil_r in Hd. rewrite Hd.
  cbn [dout Nat.sub lin_depth andb]. apply tlinsR_first.
Qed.
