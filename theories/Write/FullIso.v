(** FullIso: the graph the token machine builds from the writer's items is ISOMORPHIC to the input: the records'
    (old key, new key) pairs are a bijection between the written nodes and the nodes of the result; it carries the
    node attributes the parser gives for each name, and the order of EVERY pair of nodes (tree edge, ring edge,
    or no edge) is the same on both sides. *)
From Coq Require Import String.
From Coq Require Import List Ascii ZArith Bool Lia.
From CGV Require Import Base.PyBase Base.PyVal Base.PyGen Base.NxGraph Dialect.DialectImpl.
From CGV Require Import Write.WriteImpl Write.TreeDefs Write.TreeWrite Write.TreeTables Write.RingDefs Write.RingTables Write.RingMarkers
     Write.RingClose Write.TreeRead Write.RingRead Write.GraphOps Write.FlatMachine Write.FlatSpec Write.RingSim Write.RunLog Write.RingFacts
     Write.RingInv Write.FullMachine.
From CGV Require Import Reader.ReaderImpl Reader.Grammar Reader.Lin.
Import ListNotations.
Open Scope Z_scope.

Section Iso.
  Variable fo : float_oracle.
  Variable name : Z -> pystr.
  Variable esym : Z -> Z -> option sym.
  Variable rsym_o : nat -> option sym.
  Variable A : Z -> attrs.
  Variables (T : rtree) (tr : list (Z * Z)) (g : graph).
  Hypothesis ND : NoDup (rkeys T).
  Hypothesis C1 : forall e, In e tr -> fst e <> snd e /\ In (fst e) (rkeys T) /\ In (snd e) (rkeys T).
  Hypothesis C2 : nodup_edges tr = true.
  Hypothesis C3 : forall e te, In e tr -> In te (redges T) -> same_edge e te = false.
  (** the input graph: orders of tree edges and ring edges as written, symmetric, no other edge *)
  Hypothesis Gt : forall e, In e (redges T) -> eo g (fst e) (snd e) = Some (oord (esym (fst e) (snd e))).
  Hypothesis Gr : forall ri e, In (ri, e) (ring_items_of tr) -> eo g (fst e) (snd e) = Some (oord (rsym_o ri)).
  Hypothesis Gs : forall u v, eo g u v = eo g v u.
  Hypothesis Gc : forall u v, In u (rkeys T) -> In v (rkeys T) -> eo g u v <> None ->
    (exists te, In te (redges T) /\ same_edge (u, v) te = true) \/ (exists e, In e tr /\ same_edge (u, v) e = true).

  Notation fl := (the_flat esym rsym_o T tr).
  Notation L := (the_log esym rsym_o A T tr).
  Notation rlist := (rlist_of tr).

  Hypothesis HI : Inv rsym_o tr fl L [].
  Hypothesis HW : log_wf [] L.

  Lemma fl_old_nodup : NoDup (map f_old fl).
  Proof. rewrite flat_old. now apply worder_nodup. Qed.
  Lemma fl_new_nodup : NoDup (map f_new fl).
  Proof. rewrite flat_new. apply zseq_nodup. Qed.
  Lemma same_edge_sym a b : same_edge a b = same_edge b a.
  Proof.
    destruct a as [a1 a2], b as [b1 b2]. unfold same_edge. cbn [fst snd].
    rewrite (Z.eqb_sym a1 b1), (Z.eqb_sym a2 b2), (Z.eqb_sym a1 b2), (Z.eqb_sym a2 b1).
    destruct (b1 =? a1), (b2 =? a2), (b2 =? a1), (b1 =? a2); reflexivity.
  Qed.

  (** the two records behind an unordered pair of new keys *)
  Lemma pair_records r1 r2 ra rb : In r1 fl -> In r2 fl -> In ra fl -> In rb fl ->
    same_edge (f_new r1, f_new r2) (f_new ra, f_new rb) = true -> (r1 = ra /\ r2 = rb) \/ (r1 = rb /\ r2 = ra).
  Proof.
    intros H1 H2 Ha Hb Hs. apply same_edge_touch in Hs as [[E1 E2]|[E1 E2]]; [left|right];
      split; apply (nodup_map_inj f_new fl); auto using fl_new_nodup.
  Qed.

  (** every record but the first: its parent record, the tree edge and its order *)
  Lemma rec_parent r p : In r fl -> f_par r = Some p ->
    exists r', In r' fl /\ p = (f_old r', f_new r') /\ In (f_old r', f_old r) (redges T) /\ f_pend r = oord (esym (f_old r') (f_old r)).
  Proof.
    intros Hr Hp. unfold the_flat in *.
    destruct (tflat_head esym rlist rsym_o T [] 0 None 1) as [rs [rest Eh]].
    assert (Ht : In r (tl (fst (tflat esym rlist rsym_o [] 0 None 1 T)))).
    { rewrite Eh in *. destruct Hr as [<-|Hr]; [discriminate|exact Hr]. }
    destruct (tflat_parents esym rlist rsym_o T [] 0 None 1 r Ht) as [r' (B1 & B2 & B3 & B4 & _)].
    exists r'. rewrite Hp in B2. inversion B2. auto.
  Qed.
  (** every tree edge has its record *)
  Lemma edge_record p k : In (p, k) (redges T) ->
    exists rk rp, In rk fl /\ In rp fl /\ f_old rk = k /\ f_old rp = p /\ f_par rk = Some (p, f_new rp).
  Proof.
    intros He. assert (Hk : In k (tl (rkeys T))) by (rewrite <- redges_snd; change k with (snd (p, k)); now apply in_map).
    assert (Hk' : In k (map f_old fl)) by (apply flat_in_old; now apply tl_rkeys_in).
    apply in_map_iff in Hk' as [rk [Ek Rk]].
    unfold the_flat in *. destruct (tflat_head esym rlist rsym_o T [] 0 None 1) as [rs [rest Eh]].
    assert (Ht : In rk (tl (fst (tflat esym rlist rsym_o [] 0 None 1 T)))).
    { rewrite Eh in *. destruct Rk as [<-|Rk]; [|exact Rk]. exfalso. cbn [f_old fst] in Ek.
      destruct T as [k0 cs]. cbn [rkey rkeys tl] in *. subst k. inversion ND. contradiction. }
    destruct (tflat_parents esym rlist rsym_o T [] 0 None 1 rk Ht) as [r' (B1 & B2 & B3 & _ & _)].
    exists rk, r'. repeat split; try assumption.
    - (* the parent is p: a node has one incoming tree edge *)
      rewrite Ek in B3.
      assert (NDs : NoDup (map snd (redges T))) by (rewrite redges_snd; destruct T as [k0 cs]; cbn [rkeys tl] in *; now inversion ND).
      clear - NDs B3 He. induction (redges T) as [|e l IH]; [contradiction|]. cbn in NDs. inversion NDs as [|? ? Hn ND']; subst.
      destruct He as [->|He], B3 as [E|B3].
      + now inversion E.
      + exfalso. apply Hn. cbn. change k with (snd (f_old r', k)). now apply in_map.
      + subst e. exfalso. apply Hn. cbn. change k with (snd (p, k)). now apply in_map.
      + now apply IH.
    - rewrite B2. f_equal. f_equal.
      rewrite Ek in B3.
      assert (NDs : NoDup (map snd (redges T))) by (rewrite redges_snd; destruct T as [k0 cs]; cbn [rkeys tl] in *; now inversion ND).
      clear - NDs B3 He. induction (redges T) as [|e l IH]; [contradiction|]. cbn in NDs. inversion NDs as [|? ? Hn ND']; subst.
      destruct He as [->|He], B3 as [E|B3].
      + now inversion E.
      + exfalso. apply Hn. cbn. change k with (snd (f_old r', k)). now apply in_map.
      + subst e. exfalso. apply Hn. cbn. change k with (snd (p, k)). now apply in_map.
      + now apply IH.
  Qed.

  Lemma in_items e : In e tr -> exists ri, In (ri, e) (ring_items_of tr).
  Proof.
    intros He. apply In_nth_error in He as [i Hi]. exists (Datatypes.S i). unfold ring_items_of. apply in_combine_seq.
    split; [lia|]. replace (Datatypes.S i - 1)%nat with i by lia. exact Hi.
  Qed.
  Lemma ms_nodup ri : NoDup (ms tr ri fl).
  Proof.
    unfold ms. apply nodup_map_filter'. exact fl_new_nodup.
  Qed.
  (** the two records meeting a ring *)
  Lemma ring_records ri a b : In (ri, (a, b)) (ring_items_of tr) ->
    exists ra rb, In ra fl /\ In rb fl /\ f_old ra = a /\ f_old rb = b /\ ra <> rb
                  /\ In (f_new ra) (ms tr ri fl) /\ In (f_new rb) (ms tr ri fl).
  Proof.
    intros Hi. destruct (C1 (a, b) (ring_item_in tr ri _ Hi)) as (Dab & Da & Db). cbn [fst snd] in *.
    apply (flat_in_old esym rsym_o T tr) in Da. apply (flat_in_old esym rsym_o T tr) in Db.
    apply in_map_iff in Da as [ra [Ea Ra]]. apply in_map_iff in Db as [rb [Eb Rb]].
    exists ra, rb. repeat split; try assumption; [intros E0; subst rb; congruence| |];
      unfold ms; apply in_map; apply filter_In; (split; [assumption|]); apply memn_true; apply meets_iff; exists a, b; auto.
  Qed.

  (** every edge of the log is an edge of the input, between the corresponding records, with its order *)
  Lemma log_edge_good e : In e (log_edges L) ->
    exists ra rb, In ra fl /\ In rb fl /\ fst e = (f_new ra, f_new rb) /\ eo g (f_old ra) (f_old rb) = Some (snd e).
  Proof.
    intros He. destruct (i_sound _ _ _ _ _ HI e He) as [(r & p & H1 & H2 & ->)|(ri & n0 & c & H1 & ->)]; cbn [fst snd].
    - destruct (rec_parent r p H1 H2) as [r' (B1 & -> & B3 & B4)]. exists r', r. repeat split; try assumption.
      rewrite B4. apply (Gt (f_old r', f_old r) B3).
    - assert (Hn0 : In n0 (ms tr ri fl)) by (rewrite H1; now left). assert (Hc : In c (ms tr ri fl)) by (rewrite H1; right; now left).
      destruct (ms_in tr ri fl n0 Hn0) as [ra (Ra & Ea & Ma)]. destruct (ms_in tr ri fl c Hc) as [rb (Rb & Eb & Mb)].
      assert (Hne : n0 <> c) by (pose proof (ms_nodup ri) as N; rewrite H1 in N; inversion N as [|? ? Hn _]; intros E0; apply Hn; subst; now left).
      assert (Hold : f_old rb <> f_old ra).
      { intros E0. assert (rb = ra) by (apply (nodup_map_inj f_old fl); auto using fl_old_nodup). subst rb. congruence. }
      destruct (two_meet tr fl ri rb ra Rb Ra Hold Mb Ma) as [e0 [I0 S0]].
      exists rb, ra. repeat split; try assumption; [now rewrite Ea, Eb|].
      pose proof (Gr ri e0 I0) as G0. destruct e0 as [a b]. cbn [fst snd] in *.
      apply same_edge_touch in S0 as [[-> ->]|[-> ->]]; [exact G0|rewrite Gs; exact G0].
  Qed.

  Theorem iso_orders r1 r2 : In r1 fl -> In r2 fl ->
    eo (replay L gempty) (f_new r1) (f_new r2) = eo g (f_old r1) (f_old r2).
  Proof.
    intros H1 H2. rewrite (replay_eo L gempty [] _ _ (gempty_nodes) HW).
    change (eo gempty (f_new r1) (f_new r2)) with (@None Z).
    unfold last_hit. destruct (find (edge_hit (f_new r1) (f_new r2)) (rev (log_edges L))) as [e|] eqn:Ef.
    - apply find_some in Ef as [Hin Hh]. apply in_rev in Hin.
      destruct (log_edge_good e Hin) as [ra [rb (Ra & Rb & Ee & Ge)]].
      unfold edge_hit in Hh. rewrite Ee in Hh.
      destruct (pair_records r1 r2 ra rb H1 H2 Ra Rb Hh) as [[-> ->]|[-> ->]]; [now rewrite Ge|now rewrite Gs, Ge].
    - destruct (eo g (f_old r1) (f_old r2)) as [o|] eqn:Eg; [|reflexivity]. exfalso.
      assert (Hno : forall e, In e (log_edges L) -> edge_hit (f_new r1) (f_new r2) e = false).
      { intros e He. apply (find_none _ _ Ef). now apply -> in_rev. }
      assert (U1 : In (f_old r1) (rkeys T)) by (apply (flat_in_old esym rsym_o T tr); now apply in_map).
      assert (U2 : In (f_old r2) (rkeys T)) by (apply (flat_in_old esym rsym_o T tr); now apply in_map).
      destruct (Gc (f_old r1) (f_old r2) U1 U2) as [[[p k] [Hte Hs]]|[[a b] [Hre Hs]]]; [congruence| |].
      + destruct (edge_record p k Hte) as [rk [rp (Rk & Rp & Ek & Ep & Epar)]].
        pose proof (i_tree _ _ _ _ _ HI rk (p, f_new rp) Rk Epar) as Hin. cbn [snd] in Hin.
        specialize (Hno _ Hin). unfold edge_hit in Hno. cbn [fst] in Hno.
        apply same_edge_touch in Hs as [[E1 E2]|[E1 E2]].
        * assert (r1 = rp) by (apply (nodup_map_inj f_old fl); auto using fl_old_nodup; congruence).
          assert (r2 = rk) by (apply (nodup_map_inj f_old fl); auto using fl_old_nodup; congruence). subst.
          unfold same_edge in Hno. cbn [fst snd] in Hno. rewrite !Z.eqb_refl in Hno. discriminate.
        * assert (r1 = rk) by (apply (nodup_map_inj f_old fl); auto using fl_old_nodup; congruence).
          assert (r2 = rp) by (apply (nodup_map_inj f_old fl); auto using fl_old_nodup; congruence). subst.
          unfold same_edge in Hno. cbn [fst snd] in Hno. rewrite !Z.eqb_refl in Hno. cbn in Hno. rewrite orb_true_r in Hno. discriminate.
      + destruct (in_items (a, b) Hre) as [ri Hi].
        destruct (ring_records ri a b Hi) as [ra [rb (Ra & Rb & Ea & Eb & Hab & Ma & Mb)]].
        pose proof (i_tab _ _ _ _ _ HI ri) as K. pose proof (ms_nodup ri) as NDm.
        destruct (ms tr ri fl) as [|n0 [|c [|d l]]] eqn:Em; try contradiction.
        * destruct K as [m K]. discriminate.
        * pose proof (i_ring _ _ _ _ _ HI ri n0 c Em) as Hin. specialize (Hno _ Hin). unfold edge_hit in Hno. cbn [fst] in Hno.
          assert (Hnab : f_new ra <> f_new rb) by (intros E0; apply Hab; apply (nodup_map_inj f_new fl); auto using fl_new_nodup).
          assert (Hpair : same_edge (c, n0) (f_new ra, f_new rb) = true).
          { unfold same_edge. cbn [fst snd]. cbn [In] in Ma, Mb.
            destruct Ma as [Ma|[Ma|[]]], Mb as [Mb|[Mb|[]]]; try congruence; subst; rewrite !Z.eqb_refl; cbn; now rewrite ?orb_true_r. }
          assert (Hxy : same_edge (f_new r1, f_new r2) (f_new ra, f_new rb) = true).
          { apply same_edge_touch in Hs as [[E1 E2]|[E1 E2]].
            - assert (r1 = ra) by (apply (nodup_map_inj f_old fl); auto using fl_old_nodup; congruence).
              assert (r2 = rb) by (apply (nodup_map_inj f_old fl); auto using fl_old_nodup; congruence). subst.
              unfold same_edge. cbn [fst snd]. now rewrite !Z.eqb_refl.
            - assert (r1 = rb) by (apply (nodup_map_inj f_old fl); auto using fl_old_nodup; congruence).
              assert (r2 = ra) by (apply (nodup_map_inj f_old fl); auto using fl_old_nodup; congruence). subst.
              unfold same_edge. cbn [fst snd]. rewrite !Z.eqb_refl. cbn. now rewrite orb_true_r. }
          pose proof (same_edge_trans _ _ _ Hxy Hpair) as Ht. congruence.
  Qed.
End Iso.
