(** TreeDefs: rose trees of node keys (the shape of a DFS transcript), the recursive description of what
    write_graph writes for a tree, and the tables the serialisation loop consults.  Definitions only. *)
From Coq Require Import String.
From Coq Require Import List Ascii ZArith Bool.
From CGV Require Import Base.PyBase Base.PyVal Base.PyGen Base.NxGraph Write.WriteImpl.
Import ListNotations.
Open Scope Z_scope.

(** a node and its children in the order of dfs_successors[node] *)
Inductive rtree := RNode (k : Z) (cs : list rtree).
Definition rkey (t : rtree) : Z := match t with RNode k _ => k end.
Definition rkids (t : rtree) : list rtree := match t with RNode _ cs => cs end.
(** DFS preorder = the order in which networkx discovers the nodes *)
Fixpoint rkeys (t : rtree) : list Z := match t with RNode k cs => k :: flat_map rkeys cs end.
(** the (parent, child) pairs in the order nx.dfs_edges yields them *)
Fixpoint redges (t : rtree) : list (Z * Z) :=
  match t with RNode k cs => flat_map (fun c => (k, rkey c) :: redges c) cs end.
Definition rsize (t : rtree) : nat := length (rkeys t).

Lemma rtree_ind2 (P : rtree -> Prop) : (forall k cs, Forall P cs -> P (RNode k cs)) -> forall t, P t.
Proof.
  intros H. fix IH 1. intros [k cs]. apply H.
  induction cs as [|c r IHr]; constructor; [apply IH|exact IHr].
Qed.

(** the order in which write_graph WRITES the nodes: the node, its later children first (each as a
    parenthesised branch, last child first), the first child last (the continuation of the chain) *)
Fixpoint worder (t : rtree) : list Z :=
  match t with
  | RNode k [] => [k]
  | RNode k (c1 :: bs) =>
      k :: (fix br (l : list rtree) : list Z := match l with [] => [] | c :: r => br r ++ worder c end) bs ++ worder c1
  end.
Definition worder_branches (bs : list rtree) : list Z :=
  (fix br (l : list rtree) : list Z := match l with [] => [] | c :: r => br r ++ worder c end) bs.

Section Text.
  Variable sf : bool.                      (* smiles_format *)
  Variable ntext : Z -> pystr.             (* what is written for the node itself *)
  Variable stext : Z -> Z -> pystr.        (* what is written for the tree edge (parent, child) *)

  Definition whead (p : option Z) (isb : bool) (k : Z) : pystr :=
    (if isb && sf then S "(" else []) ++ (match p with Some q => stext q k | None => [] end)
    ++ (if isb && negb sf then S "(" else []) ++ ntext k.
  (** text of the subtree [t] entered from parent [p], as a branch or as the continuation, with [d] branches open *)
  Fixpoint wtext (p : option Z) (isb : bool) (d : nat) (t : rtree) : pystr :=
    match t with
    | RNode k cs =>
        let d1 := if isb then Datatypes.S d else d in
        match cs with
        | [] => whead p isb k ++ (if (0 <? d1)%nat then S ")" else [])
        | c1 :: bs =>
            whead p isb k
            ++ (fix br (l : list rtree) : pystr :=
                  match l with [] => [] | c :: r => br r ++ wtext (Some k) true d1 c end) bs
            ++ wtext (Some k) false d1 c1
        end
    end.
  Definition wbranches (k : Z) (d1 : nat) (bs : list rtree) : pystr :=
    (fix br (l : list rtree) : pystr :=
       match l with [] => [] | c :: r => br r ++ wtext (Some k) true d1 c end) bs.
  (** branches open after the subtree has been written *)
  Definition dout (isb : bool) (d : nat) : nat := if isb then d else (d - 1)%nat.

  (** what the loop looks up while it writes [t] (entered from [p]) *)
  Fixpoint tree_env (env : wenv) (p : option Z) (t : rtree) : Prop :=
    match t with
    | RNode k cs =>
        dl_get k (e_pred env) = match p with None => None | Some q => Some [q] end
        /\ dl_get k (e_succ env) = match cs with [] => None | _ => Some (map rkey cs) end
        /\ dl_get k (e_rings env) = None
        /\ e_fmt env k = Ok (ntext k)
        /\ match p with Some q => e_sym env q k = Ok (stext q k) | None => True end
        /\ (fix all (l : list rtree) : Prop := match l with [] => True | c :: r => tree_env env (Some k) c /\ all r end) cs
    end.
  Definition forest_env (env : wenv) (k : Z) (cs : list rtree) : Prop :=
    (fix all (l : list rtree) : Prop := match l with [] => True | c :: r => tree_env env (Some k) c /\ all r end) cs.
End Text.
