(** CoarseGraphX: C08 for coarse fragment graphs of ANY shape WITHOUT the side condition [nosymb].
    The strip component's extended domain [wfx] (Frag/FragTextX.v: "(" may follow a bond symbol) and its theorem
    [strip_correct_x]'s main lemma [mainx] (Frag/FragProofsX.v) cover the text `[#A]=([#B])[#C]` the writer
    writes for a branch edge of order <> 1.  [dl_wfx] is [CoarseGraph.dl_wf] with that transition; it is PROVED to
    hold for the writer's item list of every tree ([ltrackx_tree]: no condition on the tree), so the round trip of
    [CoarseGraph.coarse_graph_roundtrip_core] holds for every fragment graph of the domain. *)
From Coq Require Import String.
From Coq Require Import List Ascii ZArith Bool Lia.
From CGV Require Import Base.PyBase Base.PyVal Base.PyGen Base.NxGraph Dialect.DialectImpl.
From CGV Require Import Write.WriteImpl Write.WriteDefs Write.FormatStripRound Write.CoarseChain Write.TreeDefs Write.TreeRead Write.RingDefs Write.RingRead
     Write.CoarseGraph Write.CoarseTrack.
From CGV Require Import Frag.NDict Frag.StripImpl Frag.FragText Frag.FragProofs Frag.FragTextX Frag.FragProofsX Reader.Grammar Reader.Lin.
From CGV Require Import Write.FullDomain Write.FullMachine Write.TreeRound Write.RingRound Write.RingTables Write.FullRound Write.WriteRound
     Reader.ReaderImpl Write.FragRead Write.FullCode Write.RingClose.
Import ListNotations.
Open Scope Z_scope.

(** ------------------------------------------------------------------ the extended grammar on the flat item list *)
Fixpoint dl_wfx (z : zone) (depth : nat) (dl : list (lin * list dspec)) : bool :=
  match dl with
  | [] => is_zatom z && Nat.eqb depth 0
  | (i, Ds) :: r =>
      (if l_open i then branch_zone z else true)
      && body_ok ("#"%char :: l_name i) && forallb d_ok Ds
      && forallb (fun om => FragText.marker_ok (marker_str (snd om))) (l_rings i)
      && (let d1 := if l_open i then Datatypes.S depth else depth in
          match l_close i with
          | Some _ => negb (has_sym (l_bond i)) && match d1 with O => false | Datatypes.S d2 => dl_wfx (zone_after i) d2 r end
          | None => dl_wfx (zone_after i) d1 r
          end)
  end.
Lemma dl_wf_wfx : forall dl z depth, dl_wf z depth dl = true -> dl_wfx z depth dl = true.
Proof.
  induction dl as [|[i Ds] r IH]; intros z depth H; [exact H|]. cbn [dl_wf dl_wfx] in *.
  apply andb_prop in H as [H H5]. apply andb_prop in H as [H H4]. apply andb_prop in H as [H H3]. apply andb_prop in H as [H1 H2].
  rewrite H2, H3, H4. assert (E : (if l_open i then branch_zone z else true) = true) by (destruct (l_open i); [destruct z; try discriminate; reflexivity|reflexivity]).
  rewrite E. cbn [andb]. destruct (l_close i).
  - apply andb_prop in H5 as [Hb H5]. rewrite Hb. cbn [andb]. destruct (if l_open i then Datatypes.S depth else depth); [discriminate|]. now apply IH.
  - now apply IH.
Qed.

Lemma wfx_descs D depth rest : forallb d_ok D = true ->
  wfx_items ZAtom depth (map IDesc (map to_desc D) ++ rest) = wfx_items ZAtom depth rest.
Proof.
  intros H. induction D as [|d D IH]; [reflexivity|]. cbn [forallb] in H. apply andb_prop in H as [H1 H2].
  cbn [map app wfx_items is_zatom andb]. rewrite desc_ok_to_desc by assumption. cbn [andb]. now apply IH.
Qed.
Lemma wfx_rtoks rs depth rest : forallb (fun om => FragText.marker_ok (marker_str (snd om))) rs = true ->
  wfx_items ZAtom depth (map rtok rs ++ rest) = wfx_items ZAtom depth rest.
Proof.
  induction rs as [|om rs IH]; intros H; [reflexivity|]. cbn [forallb] in H. apply andb_prop in H as [H1 H2].
  cbn [map app rtok wfx_items tok_ok is_zatom]. rewrite H1. cbn [andb]. now apply IH.
Qed.
Lemma wfx_btoks o depth rest : wfx_items ZAtom depth (btoks o ++ rest) = wfx_items (if has_sym o then ZBond else ZAtom) depth rest.
Proof. destruct o; reflexivity. Qed.
Lemma dl_wfx_items : forall dl z depth, dl_wfx z depth dl = true -> wfx_items z depth (ditems dl) = true.
Proof.
  induction dl as [|[i Ds] r IH]; intros z depth H; [exact H|]. cbn [dl_wfx] in H.
  apply andb_prop in H as [H H5]. apply andb_prop in H as [H H4]. apply andb_prop in H as [H H3]. apply andb_prop in H as [H1 H2].
  unfold ditems. cbn [flat_map]. fold (ditems r). unfold ditems1. rewrite <- app_assoc, <- app_comm_cons, <- !app_assoc.
  set (d1 := if l_open i then Datatypes.S depth else depth) in *.
  set (tailc := match l_close i with Some a => ITok FragText.TClose :: btoks a | None => [] end ++ ditems r).
  assert (Hopen : wfx_items z depth ((if l_open i then [ITok FragText.TOpen] else []) ++
                    ITok (FragText.TBracket ("#"%char :: l_name i) None) :: map IDesc (map to_desc Ds) ++ map rtok (l_rings i) ++ btoks (l_bond i) ++ tailc)
                  = wfx_items ZAtom d1 (map rtok (l_rings i) ++ btoks (l_bond i) ++ tailc)).
  { unfold d1. destruct (l_open i); cbn [app wfx_items tok_ok annot_ok]; rewrite ?H1, H2; cbn [andb];
      rewrite wfx_descs by exact H3; reflexivity. }
  rewrite Hopen, wfx_rtoks by exact H4. rewrite wfx_btoks. unfold tailc.
  destruct (l_close i) as [a|] eqn:Ec.
  - apply andb_prop in H5 as [Hb H5]. apply negb_true_iff in Hb. rewrite Hb.
    rewrite <- app_comm_cons. cbn [wfx_items tok_ok is_zatom andb]. destruct d1 as [|d2]; [discriminate|].
    rewrite wfx_btoks. apply IH.
    unfold zone_after in H5. rewrite Hb, Ec in H5. cbn [orb] in H5. exact H5.
  - cbn [app]. apply IH. unfold zone_after in H5. rewrite Ec, orb_false_r in H5. exact H5.
Qed.

(** strip_bonding_descriptors on the text of the decorated items, extended grammar *)
Lemma strip_items_x fo items : wfx_items ZStart 0 items = true -> has_mult items = false ->
  strip_bonding_descriptors fo (render items) = (sp' <- spec_run fo sinit items ;; Ok (sres sp')).
Proof.
  intros W HM. unfold strip_bonding_descriptors. rewrite init_top.
  change (m <- run fo (top sinit None) (render items);; finish m) with (whole fo (top sinit None) (render items)).
  apply (mainx fo items ZStart 0 (top sinit None) sinit None); auto.
  - exact I.
  - intros H; contradiction.
Qed.
Theorem strip_ditems_x fo a0 dl : fragment_node_parser fo [] = Ok a0 -> dl_ok dl -> dl_wfx ZStart 0 dl = true ->
  strip_bonding_descriptors fo (render (ditems dl)) = Ok (lins_str (map fst dl), ddict 0 dl [], [], adict a0 0 dl []).
Proof.
  intros Hp0 Hok Hwf. rewrite strip_items_x; [|now apply dl_wfx_items|apply nomult_ditems].
  destruct (spec_ditems fo a0 Hp0 dl sinit Hok) as [sp' (E & C)]. rewrite E. cbn [bind]. unfold sres. unfold core in C.
  inversion C as [[A1 A2 A3 A4 A5]]. cbn [sinit s_n s_clean s_desc s_ez s_ann app] in *. now rewrite A2, A3, A4, A5.
Qed.

(** ------------------------------------------------------------------ zones and depths along the writer's item list *)
Fixpoint ltrackx (z : zone) (d : nat) (l : list lin) : option (zone * nat) :=
  match l with
  | [] => Some (z, d)
  | i :: r =>
      if (if l_open i then branch_zone z else true) then
        let d1 := if l_open i then Datatypes.S d else d in
        match l_close i with
        | Some _ => match d1 with O => None | Datatypes.S d2 => ltrackx (zone_after i) d2 r end
        | None => ltrackx (zone_after i) d1 r
        end
      else None
  end.
Lemma dl_wfx_track : forall dl z d, Forall item_conds dl -> ltrackx z d (map fst dl) = Some (ZAtom, 0%nat) -> dl_wfx z d dl = true.
Proof.
  induction dl as [|[i Ds] r IH]; intros z d Hc Ht.
  - cbn in Ht. inversion Ht. reflexivity.
  - cbn [map fst ltrackx] in Ht. cbn [dl_wfx]. destruct (Forall_inv Hc) as (C1 & C2 & C3 & C4). cbn [fst snd] in *.
    destruct (if l_open i then branch_zone z else true); [|discriminate]. rewrite C1, C2, C3. cbn [andb].
    destruct (l_close i) as [a|].
    + rewrite C4. cbn [negb andb]. destruct (if l_open i then Datatypes.S d else d) as [|d2]; [discriminate|].
      apply IH; [exact (Forall_inv_tail Hc)|exact Ht].
    + apply IH; [exact (Forall_inv_tail Hc)|exact Ht].
Qed.
Lemma branch_zone_of o : branch_zone (zone_of o) = true.
Proof. unfold zone_of. destruct (has_sym o); reflexivity. Qed.

Section TrackX.
  Variables (name : Z -> pystr) (esym : Z -> Z -> option sym) (rlist : Z -> list nat) (rsym_o : nat -> option sym).
  Notation tlinsR := (tlinsR name esym rlist rsym_o).
  Notation blinsR := (blinsR name esym rlist rsym_o).

  (** EVERY tree: a branch is opened behind an atom or behind the symbol of its edge *)
  Lemma ltrackx_tree : forall t isb d ns mk z rest, (isb = true -> branch_zone z = true) ->
    ltrackx z d (fst (tlinsR isb d ns mk t) ++ rest) = ltrackx (zone_of ns) (dout isb d) rest.
  Proof.
    apply (rtree_ind2 (fun t => forall isb d ns mk z rest, (isb = true -> branch_zone z = true) ->
              ltrackx z d (fst (tlinsR isb d ns mk t) ++ rest) = ltrackx (zone_of ns) (dout isb d) rest)).
    intros k cs IH isb d ns mk z rest Hz. destruct cs as [|c1 bs].
    - cbn [RingRead.tlinsR]. destruct (ring_items rsym_o false mk (rlist k)) as [mk1 rs]. cbn [fst app ltrackx mklinR l_open l_close].
      assert (Ez : (if isb then branch_zone z else true) = true) by (destruct isb; [now rewrite (Hz eq_refl)|reflexivity]). rewrite Ez.
      unfold zone_after, zone_of, dout. cbn [mklinR l_bond l_close].
      destruct isb; cbn [Nat.ltb Nat.leb].
      + cbn [has_sym orb]. reflexivity.
      + destruct d as [|d']; cbn [Nat.ltb Nat.leb has_sym orb]; [now rewrite orb_false_r|]. replace (Datatypes.S d' - 1)%nat with d' by lia. reflexivity.
    - rewrite tlinsR_unfold. cbv zeta. set (d1 := if isb then Datatypes.S d else d).
      destruct (ring_items rsym_o false mk (rlist k)) as [mk1 rs].
      assert (B : forall l prev rest' , Forall (fun t => forall isb d ns mk z rest, (isb = true -> branch_zone z = true) ->
                      ltrackx z d (fst (tlinsR isb d ns mk t) ++ rest) = ltrackx (zone_of ns) (dout isb d) rest) l ->
                  ltrackx (zone_of (esym k (rkey (last l prev)))) d1 (fst (blinsR k d1 mk1 prev l) ++ rest')
                  = ltrackx (zone_of (esym k (rkey prev))) d1 rest').
      { induction l as [|c r IHr]; intros prev rest' Hl; [reflexivity|]. rewrite blinsR_cons. rewrite last_cons.
        specialize (IHr c). destruct (blinsR k d1 mk1 c r) as [l2 mk2]. cbn [fst] in IHr.
        pose proof (Forall_inv Hl true d1 (esym k (rkey prev)) mk2) as Hcc.
        destruct (tlinsR true d1 (esym k (rkey prev)) mk2 c) as [l1 mk3]. cbn [fst] in *.
        rewrite <- app_assoc, (IHr _ (Forall_inv_tail Hl)).
        rewrite (Hcc (zone_of (esym k (rkey c))) rest').
        - reflexivity.
        - intros _. apply branch_zone_of. }
      specialize (B bs c1). destruct (blinsR k d1 mk1 c1 bs) as [lb mkb]. cbn [fst] in B.
      pose proof (Forall_inv IH false d1 ns mkb) as Hcc.
      destruct (tlinsR false d1 ns mkb c1) as [lc mkc]. cbn [fst] in *.
      cbn [app ltrackx mklinR l_open l_close]. fold d1.
      assert (Ez : (if isb then branch_zone z else true) = true) by (destruct isb; [now rewrite (Hz eq_refl)|reflexivity]). rewrite Ez.
      assert (Eza : zone_after (mklinR name isb k rs (esym k (rkey (last bs c1))) None) = zone_of (esym k (rkey (last bs c1)))).
      { unfold zone_after, zone_of. cbn [mklinR l_bond l_close]. now rewrite orb_false_r. }
      rewrite Eza, <- app_assoc, (B _ (Forall_inv_tail IH)), (Hcc _ rest) by discriminate.
      unfold dout, d1. destruct isb; [replace (Datatypes.S d - 1)%nat with d by lia; reflexivity|reflexivity].
  Qed.
End TrackX.

(** the names on the writer's items are names of nodes *)
Lemma the_items_names g tr T : wf_C07 g = true -> (forall x, In x (rkeys T) -> In x (node_keys g)) ->
  forall i, In i (the_items (name_of g) (esym_of g) (rsym_of g tr) T tr) -> valid_name (l_name i) = true.
Proof.
  intros Hwf A5 i Hi. set (items := the_items (name_of g) (esym_of g) (rsym_of g tr) T tr) in *.
  assert (Hnames : forall k, In k (rkeys T) -> valid_name (name_of g k) = true) by (intros k Hk; apply wf_valid_names; [exact Hwf|now apply A5]).
  destruct (tlinsR_rename (name_of g) (name_of g) (esym_of g) (rlist_of tr) (rsym_of g tr) T false 0%nat None []) as (_ & Hlen & Eself).
  change (fst (tlinsR (name_of g) (esym_of g) (rlist_of tr) (rsym_of g tr) false 0 None [] T)) with items in *.
  assert (Hnm : exists k, In k (worder T) /\ l_name i = name_of g k).
  { apply In_nth_error in Hi as [n Hn].
    assert (Hlt : (n < length (worder T))%nat) by (rewrite <- Hlen; apply nth_error_Some; congruence).
    destruct (nth_error (worder T) n) as [k|] eqn:Ek; [|apply nth_error_None in Ek; lia]. exists k. split; [now apply nth_error_In in Ek|].
    apply (self_rename (name_of g) items (worder T) Hlen Eself (i, k)).
    clear - Hn Ek. revert n Hn Ek. generalize (worder T). induction items as [|x xs IH]; intros [|y ys] n Hn Ek; destruct n; try discriminate.
    - cbn in *. inversion Hn; inversion Ek; subst. now left.
    - cbn in *. right. now apply (IH ys n). }
  destruct Hnm as [k [Hk ->]]. apply Hnames. now apply (worder_in T).
Qed.

(** ------------------------------------------------------------------ the round trip, no condition on the tree *)
Theorem coarse_graph_roundtrip_any : forall fo a0 dh F (D : Z -> list dspec) g tr,
  fragment_node_parser fo [] = Ok a0 ->
  wf_C07 g = true -> (forall n, In n g -> aget (S "aromatic") (na n) = None) ->
  ring_contract g (dfs_tree g) tr = true ->
  (forall k, forallb d_ok (D k) = true) ->
  exists T, NoDup (rkeys T) /\ (forall x, In x (rkeys T) <-> In x (node_keys g)) /\
    let items := the_items (name_of g) (esym_of g) (rsym_of g tr) T tr in
    let dl := combine items (map D (worder T)) in
    dl_wfx ZStart 0 dl = true /\
    exists txt h, txt = render (ditems dl)
       /\ write_graph_by (S "atomname") false dh (decorate_graph F D g) tr = Ok txt
       /\ strip_bonding_descriptors fo txt = Ok (lins_str items, ddict 0 dl [], [], adict a0 0 dl [])
       /\ read_cgsmiles fo (lins_str items) = Ok h
       /\ graph_iso (fun k => base_attrs (name_of g k)) g h
       /\ read_coarse_fragment fo F txt = Ok (post_fragment F h (ddict 0 dl []) (adict a0 0 dl [])).
Proof.
  intros fo a0 dh F D g tr Hp0 Hwf Har Hrc HD.
  destruct (coarse_graph_roundtrip_core fo a0 dh F D g tr Hp0 Hwf Har Hrc HD) as [T (B3 & A5 & X)].
  exists T. split; [exact B3|]. split; [exact A5|]. cbv zeta in *. destruct X as (Hdok & Hfst & X).
  set (items := the_items (name_of g) (esym_of g) (rsym_of g tr) T tr) in *.
  assert (Hdl : dl_wfx ZStart 0 (combine items (map D (worder T))) = true).
  { assert (Hnames : forall k, In k (rkeys T) -> valid_name (name_of g k) = true) by (intros k Hk; apply wf_valid_names; [exact Hwf|now apply A5]).
    destruct (tlinsR_rename (name_of g) (name_of g) (esym_of g) (rlist_of tr) (rsym_of g tr) T false 0%nat None []) as (_ & Hlen & Eself).
    change (fst (tlinsR (name_of g) (esym_of g) (rlist_of tr) (rsym_of g tr) false 0 None [] T)) with items in *.
    apply dl_wfx_track.
    - assert (Hok : forallb (lin_ok fo) items = true).
      { unfold items, the_items. apply tlinsR_ok. intros k Hk. apply valid_name_ok. now apply Hnames. }
      rewrite forallb_forall in Hok. apply Forall_forall. intros [i Ds] Hin. unfold item_conds. cbn [fst snd].
      pose proof (in_combine_l _ _ _ _ Hin) as Hi. pose proof (in_combine_r _ _ _ _ Hin) as Hd. apply in_map_iff in Hd as [k0 [<- _]].
      specialize (Hok i Hi). unfold lin_ok in Hok. apply andb_prop in Hok as [Hok Hcl]. apply andb_prop in Hok as [Hok _]. apply andb_prop in Hok as [_ Hmk].
      split; [|split; [apply HD|split]].
      + assert (Hnm : exists k, In k (worder T) /\ l_name i = name_of g k).
        { apply In_nth_error in Hi as [n Hn].
          assert (Hlt : (n < length (worder T))%nat) by (rewrite <- Hlen; apply nth_error_Some; congruence).
          destruct (nth_error (worder T) n) as [k|] eqn:Ek; [|apply nth_error_None in Ek; lia]. exists k. split; [now apply nth_error_In in Ek|].
          apply (self_rename (name_of g) items (worder T) Hlen Eself (i, k)).
          clear - Hn Ek. revert n Hn Ek. generalize (worder T). induction items as [|x xs IH]; intros [|y ys] n Hn Ek; destruct n; try discriminate.
          - cbn in *. inversion Hn; inversion Ek; subst. now left.
          - cbn in *. right. now apply (IH ys n). }
        destruct Hnm as [k [Hk ->]]. apply valid_body_ok. apply Hnames. now apply (worder_in T).
      + rewrite forallb_forall in *. intros om Hom. apply marker_text_ok. now apply Hmk.
      + destruct (l_close i); [|exact Logic.I]. apply negb_true_iff in Hcl. destruct (l_bond i); [discriminate|reflexivity].
    - assert (Hf : map fst (combine items (map D (worder T))) = items) by (apply combine_fst; now rewrite map_length).
      rewrite Hf. pose proof (ltrackx_tree (name_of g) (esym_of g) (rlist_of tr) (rsym_of g tr) T false 0%nat None [] ZStart []) as E.
      rewrite app_nil_r in E. unfold items, the_items. rewrite E by discriminate. reflexivity. }
  split; [exact Hdl|]. apply X.
  rewrite (strip_ditems_x fo a0 _ Hp0 Hdok Hdl). now rewrite Hfst.
Qed.

(** non-vacuity: double bonds on BOTH branch edges of node B (written "=(" twice), a ring closed by a triple bond *)
Definition ex_xg : graph :=
  WriteRound.mkg [(0, "A"); (1, "B"); (2, "C"); (3, "PEO"); (4, "D")]%string [(0, 1, 1); (1, 2, 1); (2, 0, 3); (1, 3, 2); (1, 4, 2)].
Definition ex_xD (k : Z) : list dspec :=
  if Z.eqb k 0 then [("$"%char, S "a", 1%nat)] else if Z.eqb k 3 then [(">"%char, [], 2%nat); ("!"%char, S "x", 0%nat)] else [].
Definition ex_xtr : list (Z * Z) := nontree_edges ex_xg (dfs_tree ex_xg).
Definition ex_xtext := write_graph_by (S "atomname") false (fun _ => true) (decorate_graph (S "X") ex_xD ex_xg) ex_xtr.
Definition ex_xT : rtree := RNode 0 [RNode 1 [RNode 2 []; RNode 3 []; RNode 4 []]].
Example coarse_graph_any_example :
  wf_C07 ex_xg = true /\ ring_contract ex_xg (dfs_tree ex_xg) ex_xtr = true /\ dfs_edges ex_xg 0 = Ok (redges ex_xT)
  /\ (let dl := combine (the_items (name_of ex_xg) (esym_of ex_xg) (rsym_of ex_xg ex_xtr) ex_xT ex_xtr) (map ex_xD (worder ex_xT)) in
      dl_wf ZStart 0 dl = false /\ dl_wfx ZStart 0 dl = true)
  /\ ex_xtext = Ok (S "[#A][$a]#1[#B]=([#D])=([#PEO]=[>].[!x])[#C]1")
  /\ match read_coarse_fragment (fun _ => None) (S "X") (S "[#A][$a]#1[#B]=([#D])=([#PEO]=[>].[!x])[#C]1") with
     | Ok h => map (fun n => (nk n, aget (S "atomname") (na n), aget (S "bonding") (na n), map (fun e => (fst e, aget (S "order") (snd e))) (nadj n))) h
               = [(0, Some (VStr (S "A")), Some (VList [VStr (S "$a1")]), [(1, Some (VInt 1)); (4, Some (VInt 3))]);
                  (1, Some (VStr (S "B")), None, [(0, Some (VInt 1)); (2, Some (VInt 2)); (3, Some (VInt 2)); (4, Some (VInt 1))]);
                  (2, Some (VStr (S "D")), None, [(1, Some (VInt 2))]);
                  (3, Some (VStr (S "PEO")), Some (VList [VStr (S ">2"); VStr (S "!x0")]), [(1, Some (VInt 2))]);
                  (4, Some (VStr (S "C")), None, [(1, Some (VInt 1)); (0, Some (VInt 3))])]
     | Err _ => False
     end.
Proof.
  split; [vm_compute; reflexivity|]. split; [vm_compute; reflexivity|]. split; [vm_compute; reflexivity|].
  split; [split; vm_compute; reflexivity|]. split; [vm_compute; reflexivity|]. vm_compute. reflexivity.
Qed.
