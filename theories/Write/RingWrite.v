(** RingWrite: the serialisation loop of write_graph on ANY DFS transcript (rose tree of tree edges + ring
    indices per node) writes [wtextR] (RingDefs) -- the generalisation of TreeWrite.wloop_tree with the ring-marker
    table threaded through the traversal.  Together with DfsProofs.dfs_shape this describes the writer's output
    for every graph. *)
From Coq Require Import String.
From Coq Require Import List Ascii ZArith Bool Lia.
From CGV Require Import Base.PyBase Base.PyVal Base.PyGen Base.NxGraph Write.WriteImpl Write.TreeDefs Write.TreeWrite Write.RingDefs.
Import ListNotations.
Open Scope Z_scope.

Section LoopR.
  Variables (sf : bool) (ntext : Z -> pystr) (stext : Z -> Z -> pystr) (rlist : Z -> list nat) (rsymt : nat -> pystr) (env : wenv).
  Hypothesis Hsf : e_smiles env = sf.
  Notation ring_pureA := (RingDefs.ring_pure rsymt).
  Notation ring_pure := (RingDefs.ring_pure rsymt false).
  Notation wtextR := (wtextR sf ntext stext rlist rsymt).
  Notation wbranchesR := (wbranchesR sf ntext stext rlist rsymt).
  Notation whead := (whead sf ntext stext).
  Notation tree_envR := (tree_envR ntext stext rlist rsymt env).
  Notation forest_envR := (forest_envR ntext stext rlist rsymt env).

  Lemma after_pct_snoc trc m : after_pct (trc ++ [m]) = after_pct trc || (10 <=? m)%nat.
  Proof. unfold after_pct. rewrite existsb_app. cbn [existsb]. now rewrite orb_false_r. Qed.
  Lemma ring_loop_pure : forall ris mk out trc,
    (forall ri, In ri ris -> exists bond, nth_error (e_tr env) (ri - 1) = Some bond /\ e_rsym env (fst bond) (snd bond) = Ok (rsymt ri)) ->
    ring_loop env (mk, out, trc) ris
    = Ok (let '(mk', tx, tr) := ring_pureA (after_pct trc) mk ris in (mk', out ++ tx, trc ++ tr)).
  Proof.
    induction ris as [|ri r IH]; intros mk out trc H; cbn [ring_loop RingDefs.ring_pure].
    - now rewrite !app_nil_r.
    - destruct (H ri (or_introl eq_refl)) as [bond [Hb Hs]].
      unfold ring_step. rewrite Hb. cbn [of_option bind]. rewrite Hs. cbn [bind].
      destruct (mk_get ri mk) as [m|]; cbn [bind]; rewrite IH by (intros x Hx; apply H; now right); rewrite after_pct_snoc.
      + destruct (ring_pureA (after_pct trc || (10 <=? m)%nat) (mk_del ri mk) r) as [[mk2 t2] tr2]. rewrite <- !app_assoc. reflexivity.
      + destruct (ring_pureA (after_pct trc || (10 <=? get_ring_marker (map snd mk))%nat) (mk ++ [(ri, get_ring_marker (map snd mk))]) r) as [[mk2 t2] tr2].
        rewrite <- !app_assoc. reflexivity.
  Qed.

  Definition mt_push (k : Z) (trc : list nat) (mt : list (Z * list nat)) : list (Z * list nat) :=
    rev (trace_entry k trc) ++ mt.

  Lemma wstep_nodeR k cs p isb rest Bs d out mk vis mt :
    tree_envR p (RNode k cs) -> memz k Bs = isb ->
    wstep env k (mkw rest Bs d out mk vis mt)
    = Ok (let d1 := if isb then Datatypes.S d else d in
          let B1 := if isb then drop_key k Bs else Bs in
          let '(mk1, rt, trc) := ring_pure mk (rlist k) in
          match cs with
          | [] => mkw rest B1 (dout isb d) (out ++ whead p isb k ++ rt ++ (if (0 <? d1)%nat then S ")" else [])) mk1 (k :: vis) (mt_push k trc mt)
          | _ => mkw (rev (map rkey cs) ++ rest) (B1 ++ tl (map rkey cs)) d1 (out ++ whead p isb k ++ rt) mk1 (k :: vis) (mt_push k trc mt)
          end).
  Proof.
    intros He Hb. cbn [RingDefs.tree_envR] in He. destruct He as (Hp & Hs & Hr & Hrs & Hf & Hy & _).
    unfold wstep, mkw. cbn [w_branches w_depth w_out w_marks w_visit w_mtrace w_stack].
    rewrite Hb, Hp, Hf, Hs, Hsf.
    assert (Esym : match match p with Some q => Some [q] | None => None end with
                   | Some [previous] => e_sym env previous k | Some _ => Err EAssert | None => Ok [] end
                   = Ok (match p with Some q => stext q k | None => [] end)).
    { destruct p as [q|]; [exact Hy|reflexivity]. }
    rewrite Esym. cbn [bind].
    match goal with |- context [Ok (mk, ?o, [])] => set (out1 := o) end.
    assert (Eout : out1 = out ++ whead p isb k).
    { unfold out1, TreeDefs.whead. destruct (isb && sf); rewrite <- ?app_assoc; reflexivity. }
    assert (Er : match dl_get k (e_rings env) with
                 | Some ris => ring_loop env (mk, out1, []) ris
                 | None => Ok (mk, out1, [])
                 end = Ok (let '(mk', tx, tr) := ring_pure mk (rlist k) in (mk', out1 ++ tx, tr))).
    { destruct (dl_get k (e_rings env)) as [ris|].
      - subst ris. rewrite ring_loop_pure by exact Hrs. change (after_pct []) with false. destruct (ring_pure mk (rlist k)) as [[a b] c]. reflexivity.
      - rewrite <- Hr. cbn. now rewrite app_nil_r. }
    rewrite Er. destruct (ring_pure mk (rlist k)) as [[mk1 rt] trc]. cbn [bind].
    assert (Emt : match trc with [] => mt | _ :: _ => (k, trc) :: mt end = mt_push k trc mt).
    { unfold mt_push, trace_entry. destruct trc; reflexivity. }
    rewrite Emt, Eout. unfold drop_key.
    destruct cs as [|c1 bs].
    - f_equal. unfold dout. destruct isb; [|destruct d as [|d']]; cbn [Nat.ltb Nat.leb]; unfold mkw;
        f_equal; try lia; rewrite <- ?app_assoc, ?app_nil_r; reflexivity.
    - f_equal. unfold mkw. f_equal. now rewrite <- app_assoc.
  Qed.

  Definition PR (t : rtree) : Prop :=
    forall p isb d f rest Bs out mk vis mt,
      tree_envR p t -> NoDup (rkeys t) -> memz (rkey t) Bs = isb -> (forall x, In x (tl (rkeys t)) -> ~ In x Bs) ->
      wloop (rsize t + f) env (mkw (rkey t :: rest) Bs d out mk vis mt)
      = let '(tx, mk', tr) := wtextR p isb d mk t in
        wloop f env (mkw rest (drop_key (rkey t) Bs) (dout isb d) (out ++ tx) mk' (rev (worder t) ++ vis) (rev tr ++ mt)).

  Lemma forest_stepR k d1 : forall bs, Forall PR bs ->
    forall f rest Bx out mk vis mt,
      forest_envR k bs -> NoDup (flat_map rkeys bs) -> (forall x, In x (flat_map rkeys bs) -> ~ In x Bx) ->
      wloop (length (flat_map rkeys bs) + f) env (mkw (rev (map rkey bs) ++ rest) (Bx ++ map rkey bs) d1 out mk vis mt)
      = let '(tx, mk', tr) := wbranchesR k d1 mk bs in
        wloop f env (mkw rest Bx d1 (out ++ tx) mk' (rev (worder_branches bs) ++ vis) (rev tr ++ mt)).
  Proof.
    induction 1 as [|c r Hc Hr IH]; intros f rest Bx out mk vis mt He ND Hx.
    - cbn. now rewrite !app_nil_r.
    - cbn [RingDefs.forest_envR] in He. destruct He as [Hec Her].
      cbn [flat_map] in ND, Hx. cbn [map rev flat_map].
      assert (NDc : NoDup (rkeys c)) by (eapply nodup_app_left; exact ND).
      assert (NDr : NoDup (flat_map rkeys r)) by (eapply nodup_app_right; exact ND).
      assert (Hdis : forall x, In x (rkeys c) -> ~ In x (flat_map rkeys r)) by (apply nodup_app_disj; exact ND).
      rewrite app_length, <- Nat.add_assoc.
      replace (Datatypes.length (rkeys c) + (Datatypes.length (flat_map rkeys r) + f))%nat
        with (Datatypes.length (flat_map rkeys r) + (rsize c + f))%nat by (unfold rsize; lia).
      rewrite <- app_assoc. cbn [app].
      replace (Bx ++ rkey c :: map rkey r) with ((Bx ++ [rkey c]) ++ map rkey r) by (now rewrite <- app_assoc).
      assert (Hkc : In (rkey c) (rkeys c)) by (destruct c; now left).
      rewrite IH; [|exact Her|exact NDr|].
      2:{ intros x Hxr Hin. apply in_app_or in Hin as [Hin|[<-|[]]].
          - apply (Hx x); [apply in_or_app; now right|exact Hin].
          - apply (Hdis (rkey c)); assumption. }
      change (wbranchesR k d1 mk (c :: r))
        with (let '(t2, mk2, m2) := wbranchesR k d1 mk r in
              let '(t1, mk3, m1) := wtextR (Some k) true d1 mk2 c in (t2 ++ t1, mk3, m2 ++ m1)).
      destruct (wbranchesR k d1 mk r) as [[t2 mk2] m2].
      rewrite (Hc (Some k) true d1 f rest (Bx ++ [rkey c])); [| exact Hec | exact NDc | |].
      + destruct (wtextR (Some k) true d1 mk2 c) as [[t1 mk3] m1].
        unfold dout. rewrite drop_key_app, drop_key_single, app_nil_r.
        rewrite drop_key_notin by (apply Hx; apply in_or_app; now left).
        f_equal. unfold mkw. f_equal.
        * now rewrite <- !app_assoc.
        * unfold worder_branches. rewrite rev_app_distr, <- app_assoc. reflexivity.
        * rewrite rev_app_distr, <- app_assoc. reflexivity.
      + apply memz_true. apply in_or_app. right. now left.
      + intros x Hxt Hin. assert (Hxc : In x (rkeys c)) by (destruct c as [kc cc]; right; exact Hxt).
        apply in_app_or in Hin as [Hin|[E|[]]].
        * apply (Hx x); [apply in_or_app; now left|exact Hin].
        * subst x. destruct c as [kc cc]. cbn [rkeys rkey tl] in *. inversion NDc. contradiction.
  Qed.

  Theorem wloop_treeR : forall t, PR t.
  Proof.
    apply rtree_ind2. intros k cs IHcs. unfold PR.
    intros p isb d f rest Bs out mk vis mt He ND Hb Hx.
    cbn [rkey rkeys rsize length]. cbn [rkeys rkey tl] in Hx, ND.
    change (Datatypes.S (Datatypes.length (flat_map rkeys cs)) + f)%nat with (Datatypes.S (Datatypes.length (flat_map rkeys cs) + f)).
    cbn [wloop mkw w_stack w_branches w_depth w_out w_marks w_visit w_mtrace].
    change {| w_stack := rest; w_branches := Bs; w_depth := d; w_out := out; w_marks := mk; w_visit := vis; w_mtrace := mt |}
      with (mkw rest Bs d out mk vis mt).
    rewrite (wstep_nodeR k cs p isb rest Bs d out mk vis mt He Hb). cbn [bind].
    assert (HB1 : (if isb then drop_key k Bs else Bs) = drop_key k Bs).
    { destruct isb; [reflexivity|]. symmetry. apply drop_key_notin. now apply memz_false_iff. }
    rewrite HB1.
    destruct cs as [|c1 bs].
    - cbn [RingDefs.wtextR]. destruct (ring_pure mk (rlist k)) as [[mk1 rt] trc].
      cbn [flat_map length Nat.add worder rev app]. unfold mt_push. rewrite <- ?app_assoc. reflexivity.
    - set (d1 := if isb then Datatypes.S d else d).
      change (wtextR p isb d mk (RNode k (c1 :: bs)))
        with (let '(mk1, rt, trc) := ring_pure mk (rlist k) in
              let '(tb, mkb, mb) := wbranchesR k d1 mk1 bs in
              let '(tc, mkc, mc) := wtextR (Some k) false d1 mkb c1 in
              (whead p isb k ++ rt ++ tb ++ tc, mkc, trace_entry k trc ++ mb ++ mc)).
      destruct (ring_pure mk (rlist k)) as [[mk1 rt] trc].
      cbn [RingDefs.tree_envR] in He. destruct He as (_ & _ & _ & _ & _ & _ & Hec1 & Hebs).
      pose proof (Forall_inv IHcs) as Hc1. pose proof (Forall_inv_tail IHcs) as Hbs.
      apply NoDup_cons_iff in ND as [Hnk NDcs]. cbn [flat_map] in NDcs, Hnk, Hx.
      assert (NDc1 : NoDup (rkeys c1)) by (eapply nodup_app_left; exact NDcs).
      assert (NDbs : NoDup (flat_map rkeys bs)) by (eapply nodup_app_right; exact NDcs).
      assert (Hdis : forall x, In x (rkeys c1) -> ~ In x (flat_map rkeys bs)) by (apply nodup_app_disj; exact NDcs).
      assert (Hdrop : forall x, ~ In x Bs -> ~ In x (drop_key k Bs)).
      { intros x Hn Hin. apply Hn. unfold drop_key in Hin. apply filter_In in Hin. tauto. }
      cbn [map rev tl flat_map]. rewrite app_length.
      replace (Datatypes.length (rkeys c1) + Datatypes.length (flat_map rkeys bs) + f)%nat
        with (Datatypes.length (flat_map rkeys bs) + (rsize c1 + f))%nat by (unfold rsize; lia).
      rewrite <- app_assoc. cbn [app].
      rewrite (forest_stepR k d1 bs Hbs (rsize c1 + f)%nat (rkey c1 :: rest) (drop_key k Bs)); [|exact Hebs|exact NDbs|].
      2:{ intros x Hxb. apply Hdrop. apply Hx. apply in_or_app. now right. }
      destruct (wbranchesR k d1 mk1 bs) as [[tb mkb] mb].
      assert (Hkc : In (rkey c1) (rkeys c1)) by (destruct c1; now left).
      rewrite (Hc1 (Some k) false d1 f rest (drop_key k Bs)); [|exact Hec1|exact NDc1| |].
      + destruct (wtextR (Some k) false d1 mkb c1) as [[tc mkc] mc].
        rewrite (drop_key_notin (rkey c1)) by (apply Hdrop; apply Hx; apply in_or_app; now left).
        f_equal. unfold mkw. f_equal.
        * unfold dout, d1. destruct isb; lia.
        * now rewrite <- !app_assoc.
        * change (worder (RNode k (c1 :: bs))) with (k :: worder_branches bs ++ worder c1).
          cbn [rev]. rewrite rev_app_distr, <- !app_assoc. reflexivity.
        * unfold mt_push. rewrite !rev_app_distr, <- !app_assoc. reflexivity.
      + apply memz_false_iff. apply Hdrop. apply Hx. apply in_or_app. now left.
      + intros x Hxt. apply Hdrop. apply Hx. apply in_or_app. left. destruct c1 as [kc cc]. right. exact Hxt.
  Qed.
End LoopR.
