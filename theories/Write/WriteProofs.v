(** WriteProofs: theorems about the writer model (Write/WriteImpl.v).
    1. [write_chain_transcript]: whenever the DFS transcript is a chain k0 -> k1 -> ... -> kn and there is
       no ring edge, the serialisation loop writes fmt k0 ++ sym k0 k1 ++ fmt k1 ++ ... (any length, any
       formatter, by induction on the chain).
    2. [dfs_path]: the Gallina DFS on a path graph yields exactly that chain; hence [write_path]. *)
From Coq Require Import String.
From Coq Require Import List Ascii ZArith Bool Lia.
From CGV Require Import Base.PyBase Base.PyVal Base.PyGen Base.NxGraph Gen.WriterGen Write.WriteImpl Write.WriteDefs.
Import ListNotations.
Open Scope Z_scope.

(** ------------------------------------------------------------------ chains *)
Fixpoint chain_edges (keys : list Z) : list (Z * Z) :=
  match keys with
  | k :: ((k' :: _) as r) => (k, k') :: chain_edges r
  | _ => []
  end.
Fixpoint succ_chain (keys : list Z) : list (Z * list Z) :=
  match keys with
  | k :: ((k' :: _) as r) => (k, [k']) :: succ_chain r
  | _ => []
  end.
Fixpoint pred_chain (keys : list Z) : list (Z * list Z) :=
  match keys with
  | k :: ((k' :: _) as r) => (k', [k]) :: pred_chain r
  | _ => []
  end.

Lemma dl_append_fresh {A} k (v : A) d : dl_get k d = None -> dl_append k v d = d ++ [(k, [v])].
Proof.
  induction d as [|[k' l] r IH]; cbn; [reflexivity|].
  destruct (Z.eqb k k'); [discriminate|]. intros H. now rewrite IH.
Qed.
Lemma dl_get_app_fresh {A} k (d e : list (Z * list A)) : dl_get k d = None -> dl_get k (d ++ e) = dl_get k e.
Proof.
  induction d as [|[k' l] r IH]; cbn; [reflexivity|]. destruct (Z.eqb k k'); [discriminate|]. exact IH.
Qed.
Lemma dl_get_none_keys {A} k (d : list (Z * list A)) : ~ In k (map fst d) -> dl_get k d = None.
Proof.
  induction d as [|[k' l] r IH]; cbn; [reflexivity|]. intros H.
  destruct (Z.eqb_spec k k'); [subst; tauto|]. apply IH. tauto.
Qed.
Lemma succ_chain_keys k keys : In k (map fst (succ_chain keys)) -> In k (removelast keys).
Proof.
  induction keys as [|a [|b r] IH]; cbn [succ_chain map fst In]; [tauto|tauto|].
  intros [<-|H]; [now left|]. right. apply IH. exact H.
Qed.
Lemma pred_chain_keys k keys : In k (map fst (pred_chain keys)) -> In k (tl keys).
Proof.
  induction keys as [|a [|b r] IH]; cbn [pred_chain map fst In tl]; [tauto|tauto|].
  intros [<-|H]; [now left|]. right. apply IH. exact H.
Qed.
Lemma in_removelast {A} (x : A) l : In x (removelast l) -> In x l.
Proof.
  induction l as [|a [|b r] IH]; cbn [removelast In]; [tauto|tauto|]. intros [H|H]; [now left|right; apply IH; exact H].
Qed.

(** the tables write_graph builds from a chain of tree edges *)
Lemma succ_of_chain_gen keys : NoDup keys -> forall acc,
  (forall k, In k keys -> dl_get k acc = None) ->
  fold_left (fun d e => dl_append (fst e) (snd e) d) (chain_edges keys) acc = acc ++ succ_chain keys.
Proof.
  induction keys as [|a [|b r] IH]; intros ND acc Hacc; cbn [chain_edges succ_chain fold_left fst snd];
    try (now rewrite app_nil_r).
  rewrite dl_append_fresh by (apply Hacc; now left).
  rewrite IH.
  - now rewrite <- app_assoc.
  - now inversion ND.
  - intros k Hk. rewrite dl_get_app_fresh by (apply Hacc; now right). cbn.
    destruct (Z.eqb_spec k a); [|reflexivity]. subst. inversion ND. contradiction.
Qed.
Lemma succ_of_chain keys : NoDup keys -> succ_of (chain_edges keys) = succ_chain keys.
Proof. intros ND. unfold succ_of. now rewrite succ_of_chain_gen. Qed.
Lemma pred_of_chain_gen keys : NoDup keys -> forall acc,
  (forall k, In k (tl keys) -> dl_get k acc = None) ->
  fold_left (fun d ks => fold_left (fun d2 s => dl_append s (fst ks) d2) (snd ks) d) (succ_chain keys) acc
  = acc ++ pred_chain keys.
Proof.
  induction keys as [|a [|b r] IH]; intros ND acc Hacc; cbn [succ_chain pred_chain fold_left fst snd];
    try (now rewrite app_nil_r).
  rewrite dl_append_fresh by (apply Hacc; now left).
  rewrite IH.
  - now rewrite <- app_assoc.
  - now inversion ND.
  - intros k Hk. cbn [tl] in Hk. rewrite dl_get_app_fresh by (apply Hacc; now right). cbn.
    destruct (Z.eqb_spec k b); [|reflexivity]. subst.
    inversion ND as [|? ? _ ND']. inversion ND' as [|? ? Hb _]. contradiction.
Qed.
Lemma pred_of_chain keys : NoDup keys -> pred_of (succ_chain keys) = pred_chain keys.
Proof. intros ND. unfold pred_of. now rewrite pred_of_chain_gen. Qed.

(** what the loop needs to know about the tables, along the chain *)
Fixpoint chain_env (env : wenv) (keys : list Z) : Prop :=
  match keys with
  | [] => True
  | k :: r =>
      dl_get k (e_rings env) = None /\
      match r with
      | [] => dl_get k (e_succ env) = None
      | k' :: _ => dl_get k (e_succ env) = Some [k'] /\ dl_get k' (e_pred env) = Some [k]
      end /\ chain_env env r
  end.

Lemma chain_env_tables pre keys env : NoDup (pre ++ keys) ->
  e_succ env = succ_chain (pre ++ keys) -> e_pred env = pred_chain (pre ++ keys) -> e_rings env = [] ->
  chain_env env keys.
Proof.
  revert pre. induction keys as [|k r IH]; intros pre ND Hs Hp Hr; cbn [chain_env]; [exact I|].
  split; [now rewrite Hr|]. split.
  - destruct r as [|k' r'].
    + rewrite Hs. apply dl_get_none_keys. intros H. apply succ_chain_keys in H.
      rewrite removelast_app in H by discriminate. cbn in H. rewrite app_nil_r in H.
      apply NoDup_remove_2 in ND. rewrite app_nil_r in ND. contradiction.
    + assert (Hk : ~ In k pre) by (apply NoDup_remove_2 in ND; intros H; apply ND; apply in_or_app; now left).
      assert (Hk' : ~ In k' (pre ++ [k])).
      { replace (pre ++ k :: k' :: r') with ((pre ++ [k]) ++ k' :: r') in ND by now rewrite <- app_assoc.
        apply NoDup_remove_2 in ND. intros H. apply ND. apply in_or_app. now left. }
      split.
      * rewrite Hs. clear - Hk. induction pre as [|a pre IHp].
        -- cbn. now rewrite Z.eqb_refl.
        -- assert (a <> k) by (intros ->; apply Hk; now left).
           destruct pre as [|b pre']; cbn [app succ_chain dl_get] in *.
           ++ destruct (Z.eqb_spec k a); [congruence|]. now rewrite Z.eqb_refl.
           ++ destruct (Z.eqb_spec k a); [congruence|]. apply IHp. intros H'. apply Hk. now right.
      * rewrite Hp. clear - Hk'. induction pre as [|a pre IHp].
        -- cbn. now rewrite Z.eqb_refl.
        -- destruct pre as [|b pre']; cbn [app pred_chain dl_get] in *.
           ++ destruct (Z.eqb_spec k' k); [exfalso; apply Hk'; subst; right; now left|]. now rewrite Z.eqb_refl.
           ++ destruct (Z.eqb_spec k' b); [exfalso; apply Hk'; subst; right; now left|].
              apply IHp. intros H'. apply Hk'. now right.
  - apply (IH (pre ++ [k])); rewrite <- ?app_assoc; assumption.
Qed.

(** ------------------------------------------------------------------ the loop on a chain *)
Fixpoint chain_text (env : wenv) (prev : option Z) (keys : list Z) : res pystr :=
  match keys with
  | [] => Ok []
  | k :: r =>
      sym <- match prev with None => Ok [] | Some p => e_sym env p k end ;;
      node <- e_fmt env k ;;
      rest <- chain_text env (Some k) r ;;
      Ok (sym ++ node ++ rest)
  end.

Definition mkst stack out mk vis mt : wst :=
  {| w_stack := stack; w_branches := []; w_depth := 0; w_out := out; w_marks := mk; w_visit := vis; w_mtrace := mt |}.

Lemma wloop_chain env : forall keys k prev fuel out mk vis mt,
  chain_env env (k :: keys) ->
  match prev with None => dl_get k (e_pred env) = None | Some p => dl_get k (e_pred env) = Some [p] end ->
  (length (k :: keys) <= fuel)%nat ->
  wloop fuel env (mkst [k] out mk vis mt)
  = (t <- chain_text env prev (k :: keys) ;; Ok (mkst [] (out ++ t) mk (rev (k :: keys) ++ vis) mt)).
Proof.
  induction keys as [|k' r IH]; intros k prev fuel out mk vis mt Hc Hp Hf;
    (destruct fuel as [|f]; [cbn in Hf; lia|]).
  - cbn [chain_env] in Hc. destruct Hc as [Hr [Hs _]].
    cbn [wloop mkst w_stack w_branches w_depth w_out w_marks w_visit w_mtrace].
    unfold wstep. cbn [memz existsb andb app w_branches w_depth w_out w_marks w_visit w_mtrace w_stack].
    cbn [chain_text].
    destruct prev as [p|]; rewrite Hp.
    + destruct (e_sym env p k) as [sym|e]; cbn [bind]; [|reflexivity].
      destruct (e_fmt env k) as [node|e]; cbn [bind]; [|reflexivity].
      rewrite Hr, Hs. cbn [bind Nat.ltb Nat.leb]. destruct f; cbn [wloop w_stack]; unfold mkst;
        rewrite ?app_nil_r, <- ?app_assoc; reflexivity.
    + cbn [bind]. destruct (e_fmt env k) as [node|e]; cbn [bind]; [|reflexivity].
      rewrite Hr, Hs. cbn [bind Nat.ltb Nat.leb]. destruct f; cbn [wloop w_stack]; unfold mkst;
        rewrite ?app_nil_r, <- ?app_assoc; reflexivity.
  - cbn [chain_env] in Hc. destruct Hc as [Hr [[Hs Hp'] Hc']].
    cbn [wloop mkst w_stack w_branches w_depth w_out w_marks w_visit w_mtrace].
    unfold wstep. cbn [memz existsb andb app w_branches w_depth w_out w_marks w_visit w_mtrace w_stack].
    assert (E : chain_text env prev (k :: k' :: r)
                = (sym <- match prev with None => Ok [] | Some p => e_sym env p k end ;;
                   node <- e_fmt env k ;; rest <- chain_text env (Some k) (k' :: r) ;; Ok (sym ++ node ++ rest)))
      by reflexivity.
    rewrite E. clear E. remember (chain_text env (Some k) (k' :: r)) as T eqn:ET.
    assert (Hf' : (length (k' :: r) <= f)%nat) by (cbn [length] in *; lia).
    destruct prev as [p|]; rewrite Hp.
    + destruct (e_sym env p k) as [sym|e]; cbn [bind]; [|reflexivity].
      destruct (e_fmt env k) as [node|e]; cbn [bind]; [|reflexivity].
      rewrite Hr, Hs. cbn [bind rev app tl].
      change {| w_stack := [k']; w_branches := []; w_depth := 0; w_out := (out ++ sym ++ node); w_marks := mk;
                w_visit := k :: vis; w_mtrace := mt |} with (mkst [k'] (out ++ sym ++ node) mk (k :: vis) mt).
      rewrite (IH k' (Some k) f (out ++ sym ++ node) mk (k :: vis) mt Hc' Hp' Hf'). rewrite <- ET.
      destruct T as [t|e]; cbn [bind]; [|reflexivity].
      f_equal. unfold mkst. f_equal.
      * now rewrite <- !app_assoc.
      * cbn [rev]. rewrite <- !app_assoc. reflexivity.
    + cbn [bind]. destruct (e_fmt env k) as [node|e]; cbn [bind]; [|reflexivity].
      rewrite Hr, Hs. cbn [bind rev app tl].
      change {| w_stack := [k']; w_branches := []; w_depth := 0; w_out := (out ++ node); w_marks := mk;
                w_visit := k :: vis; w_mtrace := mt |} with (mkst [k'] (out ++ node) mk (k :: vis) mt).
      rewrite (IH k' (Some k) f (out ++ node) mk (k :: vis) mt Hc' Hp' Hf'). rewrite <- ET.
      destruct T as [t|e]; cbn [bind]; [|reflexivity].
      f_equal. unfold mkst. f_equal.
      * now rewrite <- !app_assoc.
      * cbn [rev]. rewrite <- !app_assoc. reflexivity.
Qed.

(** the serialisation of ANY transcript that is a chain without ring edges (unbounded length) *)
Theorem write_chain_transcript : forall sf fmt sym rsym k0 rest n,
  NoDup (k0 :: rest) -> (length (k0 :: rest) <= n)%nat ->
  let env := mk_env sf fmt sym rsym (chain_edges (k0 :: rest)) [] in
  run_writer n env k0
  = (t <- chain_text env None (k0 :: rest) ;; Ok {| r_text := t; r_visit := k0 :: rest; r_mtrace := [] |}).
Proof.
  intros sf fmt sym rsym k0 rest n ND Hn env.
  assert (Hs : e_succ env = succ_chain ([] ++ k0 :: rest)) by (cbn [app]; unfold env, mk_env; cbn [e_succ]; now apply succ_of_chain).
  assert (Hp : e_pred env = pred_chain ([] ++ k0 :: rest)).
  { cbn [app]. unfold env, mk_env. cbn [e_pred]. rewrite succ_of_chain by assumption. now apply pred_of_chain. }
  assert (Hr : e_rings env = []) by reflexivity.
  pose proof (chain_env_tables [] (k0 :: rest) env ND Hs Hp Hr) as Hc.
  assert (Hp0 : dl_get k0 (e_pred env) = None).
  { rewrite Hp. apply dl_get_none_keys. intros H. apply pred_chain_keys in H. cbn in H. now inversion ND. }
  unfold run_writer, winit.
  change {| w_stack := [k0]; w_branches := []; w_depth := 0; w_out := []; w_marks := []; w_visit := []; w_mtrace := [] |}
    with (mkst [k0] [] [] [] []).
  rewrite (wloop_chain env rest k0 None (Datatypes.S n) [] [] [] [] Hc Hp0) by (cbn [length] in *; lia).
  destruct (chain_text env None (k0 :: rest)) as [t|e]; cbn [bind]; [|reflexivity].
  unfold mkst. cbn [w_out w_depth w_visit w_mtrace repeat concat app rev].
  rewrite !app_nil_r. rewrite rev_app_distr, rev_involutive. reflexivity.
Qed.

(** ------------------------------------------------------------------ DFS on a path graph *)
(** the networkx graph built by add_node(k_i, **a_i) for i = 0..n and add_edge(k_i, k_i+1, **e_i+1) along
    the path: node k_i has the adjacency [k_i-1; k_i+1] *)
Fixpoint path_from (prev : list (Z * attrs)) (k : Z) (a : attrs) (rest : list (attrs * Z * attrs)) : graph :=
  match rest with
  | [] => [{| nk := k; na := a; nadj := prev |}]
  | (ea, k', a') :: r => {| nk := k; na := a; nadj := prev ++ [(k', ea)] |} :: path_from [(k, ea)] k' a' r
  end.
Definition path_graph (k0 : Z) (a0 : attrs) (rest : list (attrs * Z * attrs)) : graph := path_from [] k0 a0 rest.
Definition rest_keys (rest : list (attrs * Z * attrs)) : list Z := map (fun x => snd (fst x)) rest.

Example path_graph_is_networkx :
  path_graph 5 [(S "fragname", VStr (S "A"))] [([(S "order", VInt 2)], 3, [(S "fragname", VStr (S "B"))]);
                                               ([(S "order", VInt 1)], 9, [(S "fragname", VStr (S "C"))])]
  = add_edge (add_edge (add_node (add_node (add_node gempty 5 [(S "fragname", VStr (S "A"))]) 3 [(S "fragname", VStr (S "B"))])
                                 9 [(S "fragname", VStr (S "C"))]) 5 3 [(S "order", VInt 2)]) 3 9 [(S "order", VInt 1)].
Proof. reflexivity. Qed.

Lemma nodup_app_r {A} (l m : list A) : NoDup (l ++ m) -> NoDup m.
Proof. induction l as [|a l IH]; cbn; [auto|]. intros H. inversion H. auto. Qed.
Lemma memz_In x l : memz x l = true <-> In x l.
Proof.
  unfold memz. rewrite existsb_exists. split.
  - intros [y [H1 H2]]. apply Z.eqb_eq in H2. now subst.
  - intros H. exists x. split; [assumption|apply Z.eqb_refl].
Qed.
Lemma memz_false x l : ~ In x l -> memz x l = false.
Proof. intros H. destruct (memz x l) eqn:E; [|reflexivity]. apply memz_In in E. contradiction. Qed.
Lemma gfind_app k pre n post : ~ In k (map nk pre) -> nk n = k -> gfind k (pre ++ n :: post) = Some n.
Proof.
  intros Hk Hn. induction pre as [|m pre IH]; cbn [app gfind].
  - subst. now rewrite Z.eqb_refl.
  - destruct (Z.eqb_spec (nk m) k) as [E|E]; [exfalso; apply Hk; left; exact E|].
    apply IH. intros H. apply Hk. now right.
Qed.
Lemma path_from_keys prev k a rest : map nk (path_from prev k a rest) = k :: rest_keys rest.
Proof.
  revert prev k a. induction rest as [|[[ea k'] a'] r IH]; intros prev k a; cbn [path_from map nk rest_keys fst snd]; [reflexivity|].
  f_equal. apply IH.
Qed.
Lemma path_from_length prev k a rest : length (path_from prev k a rest) = Datatypes.S (length rest).
Proof. revert prev k a. induction rest as [|[[ea k'] a'] r IH]; intros; cbn [path_from length]; [reflexivity|]. now rewrite IH. Qed.

Lemma dfs_skip_visited fuel g u l st :
  (forall v, In v l -> In v (fst st)) ->
  fold_left (fun acc v => st' <- acc ;; if memz v (fst st') then Ok st' else dfs_visit fuel g v (v :: fst st', (u, v) :: snd st'))
            l (Ok st) = Ok st.
Proof.
  induction l as [|v l IH]; intros H; cbn [fold_left bind]; [reflexivity|].
  assert (E : memz v (fst st) = true) by (apply memz_In, H; now left). rewrite E. apply IH. intros w Hw. apply H. now right.
Qed.

Lemma dfs_path_gen : forall rest pre prev k a vis es fuel,
  NoDup (map nk pre ++ k :: rest_keys rest) ->
  (forall l, In l prev -> In (fst l) vis) -> In k vis ->
  (forall x, In x (rest_keys rest) -> ~ In x vis) ->
  (length rest < fuel)%nat ->
  dfs_visit fuel (pre ++ path_from prev k a rest) k (vis, es)
  = Ok (rev (rest_keys rest) ++ vis, rev (chain_edges (k :: rest_keys rest)) ++ es).
Proof.
  induction rest as [|[[ea k'] a'] r IH]; intros pre prev k a vis es fuel ND Hprev Hk Hfresh Hf;
    (destruct fuel as [|f]; [lia|]); cbn [dfs_visit].
  - cbn [path_from]. unfold neighbors. rewrite gfind_app; [|intros H; apply NoDup_remove_2 in ND; apply ND; apply in_or_app; now left|reflexivity].
    cbn [nadj]. rewrite (dfs_skip_visited f _ k (map fst prev) (vis, es)).
    + reflexivity.
    + intros v Hv. apply in_map_iff in Hv as [l [<- Hl]]. cbn [fst]. now apply Hprev.
  - cbn [path_from]. unfold neighbors. rewrite gfind_app; [|intros H; apply NoDup_remove_2 in ND; apply ND; apply in_or_app; now left|reflexivity].
    cbn [nadj]. rewrite map_app, fold_left_app. rewrite (dfs_skip_visited f _ k (map fst prev) (vis, es)).
    2:{ intros v Hv. apply in_map_iff in Hv as [l [<- Hl]]. cbn [fst]. now apply Hprev. }
    cbn [map fst fold_left bind snd].
    assert (Hk' : ~ In k' vis) by (apply Hfresh; cbn [rest_keys map fst snd]; now left).
    rewrite (memz_false _ _ Hk').
    replace (pre ++ {| nk := k; na := a; nadj := prev ++ [(k', ea)] |} :: path_from [(k, ea)] k' a' r)
      with ((pre ++ [{| nk := k; na := a; nadj := prev ++ [(k', ea)] |}]) ++ path_from [(k, ea)] k' a' r)
      by (now rewrite <- app_assoc).
    rewrite IH.
    + cbn [rest_keys map fst snd rev chain_edges]. rewrite <- !app_assoc. reflexivity.
    + rewrite map_app. cbn [map nk]. rewrite <- app_assoc. exact ND.
    + intros l [<-|[]]. cbn [fst]. now right.
    + now left.
    + intros x Hx [E|Hin].
      * subst x. cbn [rest_keys map fst snd] in ND. apply nodup_app_r in ND.
        inversion ND as [|? ? _ ND1]. inversion ND1 as [|? ? Hn _]. apply Hn. exact Hx.
      * apply (Hfresh x); [cbn [rest_keys map fst snd]; now right|assumption].
    + cbn [length] in Hf. lia.
Qed.

Theorem dfs_path : forall k0 a0 rest, NoDup (k0 :: rest_keys rest) ->
  dfs_edges (path_graph k0 a0 rest) k0 = Ok (chain_edges (k0 :: rest_keys rest))
  /\ dfs_visited (path_graph k0 a0 rest) k0 = Ok (k0 :: rest_keys rest).
Proof.
  intros k0 a0 rest ND. unfold dfs_edges, dfs_visited, path_graph.
  pose proof (dfs_path_gen rest [] [] k0 a0 [k0] [] (Datatypes.S (length (path_from [] k0 a0 rest)))) as H.
  cbn [app map] in H. rewrite H.
  - cbn [bind snd fst]. rewrite !app_nil_r, !rev_app_distr, !rev_involutive. cbn [rev app]. split; reflexivity.
  - exact ND.
  - intros l [].
  - now left.
  - intros x Hx [E|[]]. subst. inversion ND. contradiction.
  - rewrite path_from_length. lia.
Qed.

Lemma min_node_path k0 a0 rest : (forall x, In x (rest_keys rest) -> k0 <= x) -> min_node (path_graph k0 a0 rest) = Ok k0.
Proof.
  intros H. unfold min_node, node_keys, path_graph. rewrite path_from_keys. f_equal.
  induction (rest_keys rest) as [|x l IH]; cbn [fold_left]; [reflexivity|].
  rewrite Z.min_l by (apply H; now left). apply IH. intros y Hy. apply H. now right.
Qed.

(** write_graph(..., name_attr=na) on a path graph whose smallest key is an end: the chain, for every length *)
Theorem write_path_abstract_by : forall na sf dh k0 a0 rest,
  NoDup (k0 :: rest_keys rest) -> (forall x, In x (rest_keys rest) -> k0 <= x) ->
  let g := path_graph k0 a0 rest in
  let env := mk_env sf (node_text_by na sf dh g) (edge_text g) (edge_text g) (chain_edges (k0 :: rest_keys rest)) [] in
  write_graph_full_by na sf dh g []
  = (t <- chain_text env None (k0 :: rest_keys rest) ;; Ok {| r_text := t; r_visit := k0 :: rest_keys rest; r_mtrace := [] |}).
Proof.
  intros na sf dh k0 a0 rest ND Hmin g env. unfold write_graph_full_by.
  unfold g at 1. rewrite min_node_path by assumption. cbn [bind].
  unfold g at 1. destruct (dfs_path k0 a0 rest ND) as [E _]. rewrite E. cbn [bind].
  apply write_chain_transcript; [assumption|].
  unfold g, path_graph. rewrite path_from_length. cbn [length]. unfold rest_keys. rewrite map_length. lia.
Qed.
(** name_attr='fragname', the default *)
Theorem write_path_abstract : forall sf dh k0 a0 rest,
  NoDup (k0 :: rest_keys rest) -> (forall x, In x (rest_keys rest) -> k0 <= x) ->
  let g := path_graph k0 a0 rest in
  let env := mk_env sf (node_text sf dh g) (edge_text g) (edge_text g) (chain_edges (k0 :: rest_keys rest)) [] in
  write_graph_full sf dh g []
  = (t <- chain_text env None (k0 :: rest_keys rest) ;; Ok {| r_text := t; r_visit := k0 :: rest_keys rest; r_mtrace := [] |}).
Proof. exact (write_path_abstract_by (S "fragname")). Qed.

(** ------------------------------------------------------------------ the concrete chain text *)
Definition name_attrs (nm : pystr) : attrs := [(S "fragname", VStr nm)].
Definition order_attrs (o : Z) : attrs := [(S "order", VInt o)].
Definition mk_rest (l : list (Z * Z * pystr)) : list (attrs * Z * attrs) :=
  map (fun x => (order_attrs (fst (fst x)), snd (fst x), name_attrs (snd x))) l.
(** the symbol written for an order: nothing for 1 *)
Definition zsym (o : Z) : pystr :=
  if Z.eqb o 0 then S "." else if Z.eqb o 2 then S "=" else if Z.eqb o 3 then S "#" else if Z.eqb o 4 then S "$" else [].
Fixpoint path_text (sprev nm : pystr) (l : list (Z * Z * pystr)) {struct l} : pystr :=
  sprev ++ S "[#" ++ nm ++ S "]" ++ match l with [] => [] | (o, _, nm') :: r => path_text (zsym o) nm' r end.

Lemma path_from_head prev k a rest : exists adj post, path_from prev k a rest = {| nk := k; na := a; nadj := adj |} :: post.
Proof. destruct rest as [|[[ea k'] a'] r]; cbn [path_from]; eauto. Qed.

Lemma node_text_path dh G pre prev k nm rest :
  G = pre ++ path_from prev k (name_attrs nm) rest -> ~ In k (map nk pre) ->
  node_text false dh G k = Ok (S "[#" ++ nm ++ S "]").
Proof.
  intros -> Hk. destruct (path_from_head prev k (name_attrs nm) rest) as [adj [post ->]].
  unfold node_text. rewrite format_node_eq. unfold bonding_suffix, node_attrs. rewrite gfind_app by (assumption || reflexivity).
  cbn. now rewrite app_nil_r.
Qed.
Lemma adj_get_last k' ea prev : ~ In k' (map fst prev) -> adj_get k' (prev ++ [(k', ea)]) = Some ea.
Proof.
  induction prev as [|[w b] prev IH]; intros H; cbn [app adj_get].
  - now rewrite Z.eqb_refl.
  - destruct (Z.eqb_spec w k'); [exfalso; apply H; left; exact e|]. apply IH. intros H'. apply H. now right.
Qed.
Lemma edge_text_path G pre k nm prev k' o post :
  G = pre ++ {| nk := k; na := name_attrs nm; nadj := prev ++ [(k', order_attrs o)] |} :: post ->
  ~ In k (map nk pre) -> ~ In k' (map fst prev) -> 0 <= o <= 4 ->
  edge_text G k k' = Ok (zsym o).
Proof.
  intros -> Hk Hk' Ho.
  unfold edge_text, write_edge_symbol, edge_order, edge_attrs, node_flag, node_attrs.
  rewrite !gfind_app by (assumption || reflexivity). cbn [nadj na]. rewrite adj_get_last by assumption.
  assert (C : o = 0 \/ o = 1 \/ o = 2 \/ o = 3 \/ o = 4) by lia.
  destruct C as [->|[->|[->|[->| ->]]]]; reflexivity.
Qed.

Lemma chain_text_path_gen dh G : forall l pre prev k nm sprev prevopt env,
  G = pre ++ path_from prev k (name_attrs nm) (mk_rest l) ->
  e_fmt env = node_text false dh G -> e_sym env = edge_text G ->
  NoDup (map nk pre ++ k :: rest_keys (mk_rest l)) ->
  (forall p, In p prev -> In (fst p) (map nk pre)) ->
  Forall (fun x => 0 <= fst (fst x) <= 4) l ->
  match prevopt with None => sprev = [] | Some p => edge_text G p k = Ok sprev end ->
  chain_text env prevopt (k :: rest_keys (mk_rest l)) = Ok (path_text sprev nm l).
Proof.
  induction l as [|[[o k'] nm'] r IH]; intros pre prev k nm sprev prevopt env HG Hf Hs ND Hprev Hord Hsp.
  - cbn [mk_rest map rest_keys chain_text path_text]. rewrite Hf, Hs.
    rewrite (node_text_path dh G pre prev k nm [] HG) by (apply NoDup_remove_2 in ND; intros H; apply ND; apply in_or_app; now left).
    destruct prevopt as [p|]; [rewrite Hsp|subst sprev]; cbn [bind]; now rewrite ?app_nil_r, <- ?app_assoc.
  - assert (Hk : ~ In k (map nk pre)) by (apply NoDup_remove_2 in ND; intros H; apply ND; apply in_or_app; now left).
    cbn [mk_rest map rest_keys fst snd] in *.
    change (map (fun x : attrs * Z * attrs => snd (fst x)) (map (fun x : Z * Z * pystr => (order_attrs (fst (fst x)), snd (fst x), name_attrs (snd x))) r))
      with (rest_keys (mk_rest r)) in *.
    assert (E : chain_text env prevopt (k :: k' :: rest_keys (mk_rest r))
                = (sym <- match prevopt with None => Ok [] | Some p => e_sym env p k end ;; node <- e_fmt env k ;;
                   rest <- chain_text env (Some k) (k' :: rest_keys (mk_rest r)) ;; Ok (sym ++ node ++ rest))) by reflexivity.
    rewrite E; clear E. rewrite Hf, Hs.
    rewrite (node_text_path dh G pre prev k nm _ HG Hk).
    pose proof (Forall_inv Hord) as Ho. pose proof (Forall_inv_tail Hord) as Hord'. cbn [fst] in Ho.
    cbn [path_from] in HG.
    assert (Hk' : ~ In k' (map fst prev)).
    { intros H. apply in_map_iff in H as [p [E Hp]]. apply Hprev in Hp. rewrite E in Hp.
      replace (map nk pre ++ k :: k' :: rest_keys (mk_rest r)) with ((map nk pre ++ [k]) ++ k' :: rest_keys (mk_rest r)) in ND
        by now rewrite <- app_assoc.
      apply NoDup_remove_2 in ND. apply ND. apply in_or_app. left. apply in_or_app. now left. }
    pose proof (edge_text_path G pre k nm prev k' o _ HG Hk Hk' Ho) as He.
    rewrite (IH (pre ++ [{| nk := k; na := name_attrs nm; nadj := prev ++ [(k', order_attrs o)] |}]) [(k, order_attrs o)]
                k' nm' (zsym o) (Some k) env).
    + destruct prevopt as [p|]; [rewrite Hsp|subst sprev]; cbn [bind path_text]; rewrite <- ?app_assoc; reflexivity.
    + rewrite HG, <- app_assoc. reflexivity.
    + exact Hf.
    + exact Hs.
    + rewrite map_app. cbn [map nk]. rewrite <- app_assoc. exact ND.
    + intros p [<-|[]]. cbn [fst]. rewrite map_app. apply in_or_app. right. now left.
    + exact Hord'.
    + exact He.
Qed.

(** C07, writer half, for paths of ANY length: names n0..nm, orders o1..om in 0..4, keys increasing from the
    first node: write_graph gives "[#n0]s1[#n1]...sm[#nm]" and numbers the nodes along the path *)
Theorem write_path : forall k0 nm0 (l : list (Z * Z * pystr)),
  NoDup (k0 :: rest_keys (mk_rest l)) -> (forall x, In x (rest_keys (mk_rest l)) -> k0 <= x) ->
  Forall (fun x => 0 <= fst (fst x) <= 4) l ->
  write_graph_full false (fun _ => true) (path_graph k0 (name_attrs nm0) (mk_rest l)) []
  = Ok {| r_text := path_text [] nm0 l; r_visit := k0 :: rest_keys (mk_rest l); r_mtrace := [] |}.
Proof.
  intros k0 nm0 l ND Hmin Hord. rewrite write_path_abstract by assumption.
  rewrite (chain_text_path_gen (fun _ => true) (path_graph k0 (name_attrs nm0) (mk_rest l)) l [] [] k0 nm0 [] None); try reflexivity.
  - exact ND.
  - intros p [].
  - exact Hord.
Qed.
Corollary write_path_text : forall k0 nm0 l,
  NoDup (k0 :: rest_keys (mk_rest l)) -> (forall x, In x (rest_keys (mk_rest l)) -> k0 <= x) ->
  Forall (fun x => 0 <= fst (fst x) <= 4) l ->
  write_cgsmiles_graph (path_graph k0 (name_attrs nm0) (mk_rest l)) [] = Ok (S "{" ++ path_text [] nm0 l ++ S "}").
Proof.
  intros. unfold write_cgsmiles_graph, write_graph_cg, write_graph. rewrite write_path by assumption. reflexivity.
Qed.
Example write_path_example :
  write_cgsmiles_graph (path_graph 2 (name_attrs (S "A")) (mk_rest [(2, 5, S "B"); (1, 3, S "C"); (0, 9, S "D")])) []
  = Ok (S "{[#A]=[#B][#C].[#D]}").
Proof. rewrite write_path_text; [reflexivity|repeat constructor; cbn; intuition lia|cbn; intuition lia|repeat constructor; cbn; lia]. Qed.
