(** TreeRead: what the writer writes for a tree ([wtext], CG mode) is a flat string of the reader's grammar
    (Reader/Lin.v); the reader's token machine run on it rebuilds the tree, numbered in the order of writing.
    With the reader component's simulation theorem [reader_sim_lin] this gives the unbounded round trip for
    trees. *)
From Coq Require Import String.
From Coq Require Import List Ascii ZArith Bool Lia.
From CGV Require Import Base.PyBase Base.PyVal Base.PyGen Base.NxGraph Dialect.DialectImpl.
From CGV Require Import Write.WriteImpl Write.TreeDefs Write.TreeWrite Write.TreeTables.
From CGV Require Import Reader.ReaderImpl Reader.Grammar Reader.Lin Reader.ReaderSim.
Import ListNotations.
Open Scope Z_scope.

Lemma last_cons {A} (r : list A) : forall c prev, last (c :: r) prev = last r c.
Proof.
  induction r as [|x r IH]; intros c prev; [reflexivity|].
  change (last (c :: x :: r) prev) with (last (x :: r) prev). now rewrite !IH.
Qed.

Section TreeLin.
  Variable name : Z -> pystr.                 (* the node's name *)
  Variable esym : Z -> Z -> option sym.       (* the symbol written for a tree edge (None for order 1) *)

  Definition ntext (k : Z) : pystr := S "[#" ++ name k ++ S "]".
  Definition stext (q k : Z) : pystr := osym_str (esym q k).
  Definition mklin (isb : bool) (k : Z) (b : option sym) (c : option (option sym)) : lin :=
    {| l_open := isb; l_name := name k; l_mult := None; l_rings := []; l_bond := b; l_close := c |}.

  (** the flat items of the subtree [t], entered as a branch or not with [d] branches open; [ns] is the symbol
      of the edge to the node written right after the subtree *)
  Fixpoint tlins (isb : bool) (d : nat) (ns : option sym) (t : rtree) : list lin :=
    match t with
    | RNode k cs =>
        let d1 := if isb then Datatypes.S d else d in
        match cs with
        | [] => [mklin isb k (if (0 <? d1)%nat then None else ns) (if (0 <? d1)%nat then Some ns else None)]
        | c1 :: bs =>
            mklin isb k (esym k (rkey (last bs c1))) None
            :: (fix br (prev : rtree) (l : list rtree) : list lin :=
                  match l with [] => [] | c :: r => br c r ++ tlins true d1 (esym k (rkey prev)) c end) c1 bs
            ++ tlins false d1 ns c1
        end
    end.
  Definition blins (k : Z) (d1 : nat) (prev : rtree) (l : list rtree) : list lin :=
    (fix br (prev : rtree) (l : list rtree) : list lin :=
       match l with [] => [] | c :: r => br c r ++ tlins true d1 (esym k (rkey prev)) c end) prev l.

  Lemma lins_str_app a b : lins_str (a ++ b) = lins_str a ++ lins_str b.
  Proof. unfold lins_str. apply flat_map_app. Qed.
  Lemma lin_str_mk isb k b c :
    lin_str (mklin isb k b c) = (if isb then S "(" else []) ++ ntext k ++ osym_str b ++ close_str c.
  Proof.
    unfold lin_str, lin_tail_str, ntext. cbn [mklin l_open l_name l_mult l_rings l_bond l_close mult_str rings_str app].
    destruct isb; cbn [S list_ascii_of_string app]; rewrite <- ?app_assoc; reflexivity.
  Qed.

  Notation wtext := (wtext false ntext stext).
  Notation wbranches := (wbranches false ntext stext).

  Definition insym (p : option Z) (k : Z) : pystr := match p with Some q => stext q k | None => [] end.

  (** the text: the incoming symbol moves from the front of a node to the end of the item before it *)
  Lemma wtext_lins : forall t p isb d ns,
    insym p (rkey t) ++ lins_str (tlins isb d ns t) = wtext p isb d t ++ osym_str ns.
  Proof.
    apply (rtree_ind2 (fun t => forall p isb d ns,
              insym p (rkey t) ++ lins_str (tlins isb d ns t) = wtext p isb d t ++ osym_str ns)).
    intros k cs IH p isb d ns. cbn [rkey].
    destruct cs as [|c1 bs].
    - cbn [tlins TreeDefs.wtext]. unfold lins_str. cbn [flat_map]. rewrite app_nil_r, lin_str_mk.
      unfold whead, insym. cbn [andb negb]. rewrite andb_false_r, andb_true_r. cbn [app].
      destruct (0 <? (if isb then Datatypes.S d else d))%nat; cbn [osym_str close_str app];
        rewrite <- ?app_assoc; cbn [app]; rewrite ?app_nil_r; reflexivity.
    - pose proof (Forall_inv IH) as Hc1. pose proof (Forall_inv_tail IH) as Hbs.
      set (d1 := if isb then Datatypes.S d else d).
      change (tlins isb d ns (RNode k (c1 :: bs)))
        with (mklin isb k (esym k (rkey (last bs c1))) None :: blins k d1 c1 bs ++ tlins false d1 ns c1).
      change (wtext p isb d (RNode k (c1 :: bs))) with (whead false ntext stext p isb k ++ wbranches k d1 bs ++ wtext (Some k) false d1 c1).
      (* the branches *)
      assert (B : forall l prev, Forall (fun t => forall p isb d ns,
                      insym p (rkey t) ++ lins_str (tlins isb d ns t) = wtext p isb d t ++ osym_str ns) l ->
                  osym_str (esym k (rkey (last l prev))) ++ lins_str (blins k d1 prev l)
                  = wbranches k d1 l ++ osym_str (esym k (rkey prev))).
      { induction l as [|c r IHr]; intros prev Hl.
        - cbn. now rewrite app_nil_r.
        - pose proof (Forall_inv Hl) as Hc. pose proof (Forall_inv_tail Hl) as Hr.
          change (blins k d1 prev (c :: r)) with (blins k d1 c r ++ tlins true d1 (esym k (rkey prev)) c).
          change (wbranches k d1 (c :: r)) with (wbranches k d1 r ++ wtext (Some k) true d1 c).
          rewrite last_cons.
          rewrite lins_str_app, app_assoc, (IHr c Hr), <- !app_assoc. f_equal.
          apply (Hc (Some k) true d1 (esym k (rkey prev))). }
      change (lins_str (mklin isb k (esym k (rkey (last bs c1))) None :: blins k d1 c1 bs ++ tlins false d1 ns c1))
        with (lin_str (mklin isb k (esym k (rkey (last bs c1))) None) ++ lins_str (blins k d1 c1 bs ++ tlins false d1 ns c1)).
      rewrite lin_str_mk. cbn [close_str]. rewrite app_nil_r.
      unfold whead, insym. cbn [andb negb]. rewrite andb_false_r, andb_true_r. cbn [app].
      rewrite <- !app_assoc. f_equal. f_equal. f_equal.
      rewrite lins_str_app, app_assoc, (B bs c1 Hbs), <- !app_assoc. f_equal.
      apply (Hc1 (Some k) false d1 ns).
  Qed.
End TreeLin.

Section TreeMachine.
  Variable fo : float_oracle.
  Variable name : Z -> pystr.
  Variable esym : Z -> Z -> option sym.
  Variable A : Z -> attrs.                    (* what the node parser returns for the node's name *)
  Notation tlins := (tlins name esym).
  Notation blins := (blins name esym).

  (** side conditions of the reader's flat grammar *)
  Lemma tlins_ok : forall t isb d ns, (forall k, In k (rkeys t) -> name_ok fo (name k) = true) ->
    forallb (lin_ok fo) (tlins isb d ns t) = true.
  Proof.
    apply (rtree_ind2 (fun t => forall isb d ns, (forall k, In k (rkeys t) -> name_ok fo (name k) = true) ->
              forallb (lin_ok fo) (tlins isb d ns t) = true)).
    intros k cs IH isb d ns Hn. cbn [rkeys] in Hn.
    assert (Hk : name_ok fo (name k) = true) by (apply Hn; now left).
    destruct cs as [|c1 bs].
    - cbn [TreeRead.tlins forallb]. unfold lin_ok, mklin. cbn [l_name l_rings l_mult l_close l_bond forallb].
      rewrite Hk. destruct (0 <? (if isb then Datatypes.S d else d))%nat; reflexivity.
    - pose proof (Forall_inv IH) as Hc1. pose proof (Forall_inv_tail IH) as Hbs.
      set (d1 := if isb then Datatypes.S d else d).
      change (tlins isb d ns (RNode k (c1 :: bs)))
        with (mklin name isb k (esym k (rkey (last bs c1))) None :: blins k d1 c1 bs ++ tlins false d1 ns c1).
      cbn [forallb]. rewrite forallb_app. 
      assert (E0 : lin_ok fo (mklin name isb k (esym k (rkey (last bs c1))) None) = true).
      { unfold lin_ok, mklin. cbn [l_name l_rings l_mult l_close l_bond forallb]. now rewrite Hk. }
      rewrite E0. cbn [andb].
      rewrite (Hc1 false d1 ns) by (intros x Hx; apply Hn; right; cbn [flat_map]; apply in_or_app; now left).
      rewrite andb_true_r.
      assert (B : forall l prev, Forall (fun t => forall isb d ns, (forall k, In k (rkeys t) -> name_ok fo (name k) = true) ->
                    forallb (lin_ok fo) (tlins isb d ns t) = true) l ->
                  (forall x, In x (flat_map rkeys l) -> name_ok fo (name x) = true) ->
                  forallb (lin_ok fo) (blins k d1 prev l) = true).
      { induction l as [|c r IHr]; intros prev Hl Hx; [reflexivity|].
        change (blins k d1 prev (c :: r)) with (blins k d1 c r ++ tlins true d1 (esym k (rkey prev)) c).
        rewrite forallb_app. cbn [flat_map] in Hx.
        rewrite (IHr c (Forall_inv_tail Hl)) by (intros x H; apply Hx; apply in_or_app; now right).
        rewrite (Forall_inv Hl true d1 _) by (intros x H; apply Hx; apply in_or_app; now left). reflexivity. }
      apply B; [exact Hbs|]. intros x Hx. apply Hn. right. cbn [flat_map]. apply in_or_app. now right.
  Qed.

  Lemma tlins_depth : forall t isb d ns rest, lin_depth d (tlins isb d ns t ++ rest) = lin_depth (dout isb d) rest.
  Proof.
    apply (rtree_ind2 (fun t => forall isb d ns rest, lin_depth d (tlins isb d ns t ++ rest) = lin_depth (dout isb d) rest)).
    intros k cs IH isb d ns rest.
    destruct cs as [|c1 bs].
    - cbn [TreeRead.tlins app lin_depth mklin l_open l_close]. unfold dout.
      destruct isb; cbn [Nat.ltb Nat.leb].
      + reflexivity.
      + destruct d as [|d']; cbn [Nat.ltb Nat.leb]; [reflexivity|]. f_equal. lia.
    - pose proof (Forall_inv IH) as Hc1. pose proof (Forall_inv_tail IH) as Hbs.
      set (d1 := if isb then Datatypes.S d else d).
      change (tlins isb d ns (RNode k (c1 :: bs)))
        with (mklin name isb k (esym k (rkey (last bs c1))) None :: blins k d1 c1 bs ++ tlins false d1 ns c1).
      cbn [app lin_depth mklin l_open l_close]. fold d1.
      assert (B : forall l prev rest', Forall (fun t => forall isb d ns rest, lin_depth d (tlins isb d ns t ++ rest) = lin_depth (dout isb d) rest) l ->
                  lin_depth d1 (blins k d1 prev l ++ rest') = lin_depth d1 rest').
      { induction l as [|c r IHr]; intros prev rest' Hl; [reflexivity|].
        change (blins k d1 prev (c :: r)) with (blins k d1 c r ++ tlins true d1 (esym k (rkey prev)) c).
        rewrite <- app_assoc, (IHr c _ (Forall_inv_tail Hl)). apply (Forall_inv Hl true d1). }
      rewrite <- app_assoc, (B bs c1 _ Hbs), (Hc1 false d1 ns rest). unfold dout, d1. destruct isb; f_equal; lia.
  Qed.

  (** ---------------------------------------------------------------- the token machine on the items *)
  (** the graph the machine builds: the nodes of [t] in the order of writing, keys from [next] on *)
  Fixpoint gtree (g : graph) (next : Z) (par : option Z) (pend : Z) (t : rtree) : graph :=
    match t with
    | RNode k cs =>
        let g1 := add_node g next (A k) in
        let g2 := match par with Some p => add_edge g1 p next (eorder pend) | None => g1 end in
        match cs with
        | [] => g2
        | c1 :: bs =>
            let gn := (fix br (l : list rtree) : graph * Z :=
                         match l with
                         | [] => (g2, next + 1)
                         | c :: r => let gn' := br r in
                                     (gtree (fst gn') (snd gn') (Some next) (oord (esym k (rkey c))) c,
                                      snd gn' + Z.of_nat (rsize c))
                         end) bs in
            gtree (fst gn) (snd gn) (Some next) (oord (esym k (rkey c1))) c1
        end
    end.
  Definition gbranches (k : Z) (g2 : graph) (next : Z) (bs : list rtree) : graph * Z :=
    (fix br (l : list rtree) : graph * Z :=
       match l with
       | [] => (g2, next + 1)
       | c :: r => let gn' := br r in
                   (gtree (fst gn') (snd gn') (Some next) (oord (esym k (rkey c))) c, snd gn' + Z.of_nat (rsize c))
       end) bs.
  Lemma gbranches_next k g2 next bs : snd (gbranches k g2 next bs) = next + 1 + Z.of_nat (length (flat_map rkeys bs)).
  Proof.
    induction bs as [|c r IH]; [cbn; lia|]. 
    change (snd (gbranches k g2 next (c :: r))) with (snd (gbranches k g2 next r) + Z.of_nat (rsize c)).
    rewrite IH. cbn [flat_map]. rewrite app_length. unfold rsize. lia.
  Qed.

  Definition mkm (g : graph) (next : Z) (prev : option Z) (pend : Z) (stk : list (option Z)) (rt : ringtab) : mstate :=
    {| m_g := g; m_next := next; m_prev := prev; m_pend := pend; m_stack := stk; m_rings := rt |}.
  Lemma lins_toks_app a b : lins_toks (a ++ b) = lins_toks a ++ lins_toks b.
  Proof. unfold lins_toks. apply flat_map_app. Qed.
  Lemma osym_run o g next prev stk rt :
    m_run fo (osym_tok o) (mkm g next prev 1 stk rt) = Ok (mkm g next prev (oord o) stk rt).
  Proof. destruct o as [s|]; reflexivity. Qed.

  Hypothesis Hparse : forall k, parse_graph_base_node fo (name k) = Ok (A k).

  Definition Mt (t : rtree) : Prop :=
    forall isb d ns g next prev pend stk rt, length stk = d ->
      m_run fo (lins_toks (tlins isb d ns t)) (mkm g next prev pend stk rt)
      = Ok (mkm (gtree g next prev pend t) (next + Z.of_nat (rsize t))
                (if isb then prev else match stk with a :: _ => a | [] => Some (next + Z.of_nat (rsize t) - 1) end)
                (oord ns) (if isb then stk else tl stk) rt).

  Lemma node_toks isb k b : 
    lin_toks (mklin name isb k b None) = (if isb then [TOpen] else []) ++ TNode (name k) 1 :: osym_tok b.
  Proof. unfold lin_toks, mklin. cbn [l_open l_name l_mult l_rings l_bond l_close mult_val map app]. now rewrite app_nil_r. Qed.

  Theorem machine_tree : forall t, Mt t.
  Proof.
    apply rtree_ind2. intros k cs IH. unfold Mt. intros isb d ns g next prev pend stk rt Hlen.
    destruct cs as [|c1 bs].
    - (* leaf *)
      cbn [TreeRead.tlins]. unfold lins_toks. cbn [flat_map]. rewrite app_nil_r.
      unfold lin_toks, mklin. cbn [l_open l_name l_mult l_rings l_bond l_close mult_val map app].
      cbn [gtree rsize rkeys flat_map length Z.of_nat Pos.of_succ_nat].
      destruct isb.
      + cbn [Nat.ltb Nat.leb app m_run m_step mkm m_g m_next m_prev m_pend m_stack m_rings bind osym_tok].
        rewrite Hparse. cbn [bind m_copies]. destruct ns as [s|]; cbn [osym_tok app m_run m_step bind m_g m_next m_prev m_pend m_stack m_rings];
          unfold mkm; repeat f_equal; lia.
      + destruct d as [|d']; cbn [Nat.ltb Nat.leb app m_run m_step mkm m_g m_next m_prev m_pend m_stack m_rings bind osym_tok].
        * destruct stk; [|discriminate]. rewrite Hparse. cbn [bind m_copies].
          destruct ns as [s|]; cbn [osym_tok app m_run m_step bind m_g m_next m_prev m_pend m_stack m_rings tl];
            unfold mkm; repeat f_equal; lia.
        * destruct stk as [|a stk']; [discriminate|]. rewrite Hparse. cbn [bind m_copies].
          destruct ns as [s|]; cbn [osym_tok app m_run m_step bind m_g m_next m_prev m_pend m_stack m_rings tl];
            unfold mkm; repeat f_equal; lia.
    - pose proof (Forall_inv IH) as Hc1. pose proof (Forall_inv_tail IH) as Hbs.
      set (d1 := if isb then Datatypes.S d else d).
      set (stk1 := if isb then prev :: stk else stk).
      assert (Hlen1 : length stk1 = d1) by (unfold stk1, d1; destruct isb; cbn [length]; lia).
      change (tlins isb d ns (RNode k (c1 :: bs)))
        with (mklin name isb k (esym k (rkey (last bs c1))) None :: blins k d1 c1 bs ++ tlins false d1 ns c1).
      change (lins_toks (mklin name isb k (esym k (rkey (last bs c1))) None :: blins k d1 c1 bs ++ tlins false d1 ns c1))
        with (lin_toks (mklin name isb k (esym k (rkey (last bs c1))) None) ++ lins_toks (blins k d1 c1 bs ++ tlins false d1 ns c1)).
      rewrite m_run_app, node_toks.
      set (g2 := match prev with Some p => add_edge (add_node g next (A k)) p next (eorder pend) | None => add_node g next (A k) end).
      (* the node itself *)
      assert (E1 : m_run fo ((if isb then [TOpen] else []) ++ TNode (name k) 1 :: osym_tok (esym k (rkey (last bs c1))))
                         (mkm g next prev pend stk rt)
                   = Ok (mkm g2 (next + 1) (Some next) (oord (esym k (rkey (last bs c1)))) stk1 rt)).
      { unfold stk1. destruct isb; cbn [app m_run m_step mkm m_g m_next m_prev m_pend m_stack m_rings bind];
          rewrite Hparse; cbn [bind m_copies]; fold g2;
          change {| m_g := g2; m_next := next + 1; m_prev := Some next; m_pend := 1; m_stack := ?s; m_rings := rt |}
            with (mkm g2 (next + 1) (Some next) 1 s rt) || idtac; apply osym_run. }
      rewrite E1. cbn [bind]. rewrite lins_toks_app, m_run_app.
      (* the branches *)
      assert (B : forall l prevc, Forall Mt l ->
                  m_run fo (lins_toks (blins k d1 prevc l)) (mkm g2 (next + 1) (Some next) (oord (esym k (rkey (last l prevc)))) stk1 rt)
                  = Ok (mkm (fst (gbranches k g2 next l)) (snd (gbranches k g2 next l)) (Some next)
                            (oord (esym k (rkey prevc))) stk1 rt)).
      { induction l as [|c r IHr]; intros prevc Hl; [reflexivity|].
        change (blins k d1 prevc (c :: r)) with (blins k d1 c r ++ tlins true d1 (esym k (rkey prevc)) c).
        rewrite lins_toks_app, m_run_app, last_cons, (IHr c (Forall_inv_tail Hl)). cbn [bind].
        rewrite (Forall_inv Hl true d1 _ _ _ _ _ stk1 rt Hlen1). reflexivity. }
      rewrite (B bs c1 Hbs). cbn [bind].
      rewrite (Hc1 false d1 ns _ _ _ _ stk1 rt Hlen1).
      assert (Hs : rsize (RNode k (c1 :: bs)) = Datatypes.S (rsize c1 + length (flat_map rkeys bs))).
      { unfold rsize. cbn [rkeys flat_map length]. rewrite app_length. reflexivity. }
      f_equal. unfold mkm. f_equal.
      + rewrite gbranches_next, Hs. lia.
      + unfold stk1. destruct isb; [reflexivity|]. destruct stk; [|reflexivity]. rewrite gbranches_next, Hs. f_equal. lia.
      + unfold stk1. destruct isb; reflexivity.
  Qed.
End TreeMachine.
