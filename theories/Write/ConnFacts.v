(** ConnFacts: the boolean domain predicate [connected] (Base/NxGraph.v, a bounded breadth-first search) implies
    that every node is reachable from the node write_graph starts at; hence [dfs_spanning] applies to every
    graph of C07's domain: [dfs_spanning_wf]. *)
From Coq Require Import String.
From Coq Require Import List Ascii ZArith Bool Lia.
From CGV Require Import Base.PyBase Base.PyVal Base.PyGen Base.NxGraph Write.WriteImpl Write.WriteDefs Write.TreeDefs
     Write.TreeWrite Write.TreeTables Write.DfsProofs Write.WfFacts.
Import ListNotations.
Open Scope Z_scope.

Lemma reachable_trans g a b c : reachable g a b -> reachable g b c -> reachable g a c.
Proof. intros H1 H2. induction H2 as [|x y Hx IH Hy]; [assumption|]. eapply reach_step; eauto. Qed.

Lemma adj_get_some_in v l a : adj_get v l = Some a -> In v (map fst l).
Proof.
  induction l as [|[w b] l IH]; cbn; [discriminate|]. destruct (Z.eqb_spec w v) as [->|N]; [intros _; now left|].
  intros H. right. now apply IH.
Qed.
(** adjacency of a well-formed networkx graph is symmetric *)
Lemma wf_sym g x y : graph_wf g = true -> In y (neighbors g x) -> In x (neighbors g y).
Proof.
  unfold graph_wf. intros H Hy. apply andb_prop in H as [_ H2].
  unfold neighbors in Hy. destruct (gfind x g) as [n|] eqn:E; [|contradiction].
  destruct (gfind_some x g n E) as [Hn Hk]. rewrite forallb_forall in H2. specialize (H2 n Hn).
  apply andb_prop in H2 as [_ H2]. rewrite forallb_forall in H2.
  apply in_map_iff in Hy as [wa [<- Hwa]]. specialize (H2 wa Hwa). apply andb_prop in H2 as [_ H2].
  unfold edge_attrs in H2. rewrite Hk in H2. unfold neighbors.
  destruct (gfind (fst wa) g) as [m|]; [|discriminate].
  destruct (adj_get x (nadj m)) as [d|] eqn:Ea; [|discriminate]. now apply (adj_get_some_in x _ d).
Qed.
Lemma reachable_sym g a b : graph_wf g = true -> reachable g a b -> reachable g b a.
Proof.
  intros Hwf H. induction H as [|x y Hx IH Hy]; [constructor|].
  apply (reachable_trans g y x a); [|assumption]. eapply reach_step; [constructor|]. now apply (wf_sym g x y).
Qed.

(** the breadth-first search only collects reachable nodes, without repetition, all of them nodes *)
Lemma reach_inv g s : adj_closed g -> forall fuel front seen,
  NoDup seen -> incl seen (node_keys g) -> (forall x, In x seen -> reachable g s x) -> incl front seen ->
  let r := reach fuel g front seen in
  NoDup r /\ incl r (node_keys g) /\ (forall x, In x r -> reachable g s x).
Proof.
  intros Hc. induction fuel as [|fuel IH]; intros front seen ND Hi Hr Hf; cbn [reach]; [auto|].
  destruct front as [|x rest]; [auto|].
  set (nb := nodup Z.eq_dec (filter (fun y => negb (existsb (Z.eqb y) seen)) (neighbors g x))).
  assert (Hnb : forall y, In y nb -> In y (neighbors g x) /\ ~ In y seen).
  { intros y Hy. unfold nb in Hy. apply nodup_In in Hy. apply filter_In in Hy as [H1 H2]. split; [assumption|].
    apply negb_true_iff in H2. intros Hin. assert (existsb (Z.eqb y) seen = true); [|congruence].
    apply existsb_exists. exists y. split; [assumption|apply Z.eqb_refl]. }
  apply IH.
  - apply nodup_app_intro; [exact ND|apply NoDup_nodup|]. intros y Hy Hin. now apply (proj2 (Hnb y Hin)).
  - intros y Hy. apply in_app_or in Hy as [Hy|Hy]; [now apply Hi|]. apply (Hc x). now apply Hnb.
  - intros y Hy. apply in_app_or in Hy as [Hy|Hy]; [now apply Hr|].
    eapply reach_step; [apply Hr; apply Hf; now left|]. now apply Hnb.
  - intros y Hy. apply in_app_or in Hy as [Hy|Hy]; apply in_or_app; [left; apply Hf; now right|now right].
Qed.

Theorem connected_reachable g start : graph_wf g = true -> connected g = true -> min_node g = Ok start ->
  forall x, In x (node_keys g) -> reachable g start x.
Proof.
  intros Hwf Hcon Hmin x Hx. destruct (graph_wf_facts g Hwf) as [Hc Hnd].
  destruct (min_node_in g start Hmin) as [Hs _].
  destruct g as [|n g']; [contradiction|]. unfold connected in Hcon. apply Nat.eqb_eq in Hcon.
  set (G := n :: g') in *.
  assert (Hn : In (nk n) (node_keys G)) by now left.
  destruct (reach_inv G (nk n) Hc (Datatypes.S (length G * length G)) [nk n] [nk n]) as (R1 & R2 & R3).
  - constructor; [tauto|constructor].
  - intros y [<-|[]]. exact Hn.
  - intros y [<-|[]]. constructor.
  - apply incl_refl.
  - assert (Hall : incl (node_keys G) (reach (Datatypes.S (length G * length G)) G [nk n] [nk n])).
    { apply NoDup_length_incl; [exact R1| |exact R2]. unfold node_keys. rewrite map_length. lia. }
    apply (reachable_trans G start (nk n) x).
    + apply reachable_sym; [assumption|]. apply R3. now apply Hall.
    + apply R3. now apply Hall.
Qed.

(** C07's domain: on every well-formed connected graph the DFS write_graph runs returns, visits EVERY node
    EXACTLY once, uses only graph edges, and gives every node but the start exactly one predecessor *)
Theorem dfs_spanning_wf g start : graph_wf g = true -> connected g = true -> min_node g = Ok start ->
  exists T, rkey T = start /\ dfs_edges g start = Ok (redges T) /\ dfs_visited g start = Ok (rkeys T)
            /\ NoDup (rkeys T)
            /\ (forall x, In x (rkeys T) <-> In x (node_keys g))
            /\ length (rkeys T) = length (node_keys g)
            /\ (forall e, In e (redges T) -> In (snd e) (neighbors g (fst e)))
            /\ map snd (redges T) = tl (rkeys T)
            /\ (forall x, In x (node_keys g) -> x <> start -> exists! p, In (p, x) (redges T)).
Proof.
  intros Hwf Hcon Hmin. destruct (graph_wf_facts g Hwf) as [Hc Hnd]. destruct (min_node_in g start Hmin) as [Hs _].
  apply dfs_spanning; try assumption. now apply connected_reachable.
Qed.
