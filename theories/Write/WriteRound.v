(** WriteRound: the writer model composed with the READER model (Reader/ReaderImpl.v, another component's
    Impl model of read_cgsmiles, itself validated against the implementation): the former
    witnesses of the three repaired defect classes (now positive theorems), and the bounded exhaustive round-trip theorem [C07_small]. *)
From Coq Require Import String.
From Coq Require Import List Ascii ZArith Bool Lia.
From CGV Require Import Base.PyBase Base.PyVal Base.PyGen Base.NxGraph Gen.WriterGen Write.WriteImpl Write.WriteDefs.
From CGV Require Import Dialect.DialectImpl Reader.ReaderImpl.
Import ListNotations.
Open Scope Z_scope.

(** names without annotations never reach float(): the oracle is not consulted *)
Definition no_float : float_oracle := fun _ => None.

(** 0 = the string the model writes is read back (by the reader model) to a graph isomorphic to the input
    under the numbering "order of writing"; 1 = writer error; 2 = reader error; 3 = not isomorphic *)
Definition roundtrip_code (g : graph) (tr : list (Z * Z)) : nat :=
  match write_graph_full false (fun _ => true) g tr with
  | Err _ => 1%nat
  | Ok r =>
      match read_cgsmiles no_float (S "{" ++ r_text r ++ S "}") with
      | Err _ => 2%nat
      | Ok h =>
          match observe_named g, observe_named h with
          | Some a, Some b => if iso_by a b (canonical_map (r_visit r)) then 0%nat else 3%nat
          | _, _ => 3%nat
          end
      end
  end.
Definition mkg (nodes : list (Z * string)) (edges : list (Z * Z * Z)) : graph :=
  fold_left (fun g e => add_edge g (fst (fst e)) (snd (fst e)) [(S "order", VInt (snd e))])
            edges
            (fold_left (fun g kn => add_node g (fst kn) [(S "fragname", VStr (S (snd kn)))]) nodes gempty).

(** ------------------------------------------------------------------ former witnesses (one per repaired class) *)
Definition w_branch : graph := mkg [(0, "A"); (1, "B"); (2, "C")]%string [(0, 1, 1); (0, 2, 2)].
Definition w_ring : graph := mkg [(0, "A"); (1, "B"); (2, "C")]%string [(0, 1, 1); (1, 2, 1); (0, 2, 2)].
Definition w_pct : graph :=
  mkg [(0, "A"); (1, "A"); (2, "A"); (3, "A"); (4, "A"); (5, "A"); (6, "A")]%string
      [(1, 0, 1); (2, 0, 1); (5, 3, 1); (0, 6, 1); (5, 1, 1); (5, 6, 1); (4, 6, 1); (3, 0, 1); (6, 2, 1); (1, 3, 1);
       (2, 1, 1); (4, 1, 1); (3, 6, 1); (4, 3, 1); (1, 6, 1); (5, 2, 1)].
(** the set-iteration order CPython 3.12 gave for list(total_edges - edges) on w_pct *)
Definition w_pct_tr : list (Z * Z) := [(3, 4); (1, 4); (0, 6); (1, 2); (0, 3); (0, 2); (2, 5); (5, 6); (1, 6); (1, 3)].

Definition refutes (g : graph) (tr : list (Z * Z)) (cls code : nat) : Prop :=
  wf_C07 g = true /\ ring_contract g (dfs_tree g) tr = true /\ class_C07 g tr = cls /\ roundtrip_code g tr = code.

(** REPAIRED (fix be4ff6e): the symbol of a branch edge is written in front of the parenthesis; the former
    witness of class branch_edge_order round-trips *)
Theorem C07_fixed_branch_edge_order :
  wf_C07 w_branch = true /\ roundtrip_code w_branch [] = 0%nat /\ write_cgsmiles_graph w_branch [] = Ok (S "{[#A]=([#C])[#B]}").
Proof. repeat split; vm_compute; reflexivity. Qed.
(** REPAIRED (fix dd9a0c2): the order of a ring-closing edge is written at the opening marker *)
Theorem C07_fixed_ring_edge_order :
  wf_C07 w_ring = true /\ roundtrip_code w_ring [(0, 2)] = 0%nat /\ write_cgsmiles_graph w_ring [(0, 2)] = Ok (S "{[#A]=1[#B][#C]1}").
Proof. repeat split; vm_compute; reflexivity. Qed.
(** REPAIRED (fix b681517): once a `%nn` marker was written on a node every further marker of that node is written
    `%0n`; the former witness of class pct_marker_then_digit (`[#A]%1027`, read as marker 1027) round-trips *)
Theorem C07_fixed_pct_marker :
  refutes w_pct w_pct_tr 0 0 /\
  write_cgsmiles_graph w_pct w_pct_tr = Ok (S "{[#A]123[#A]4567[#A]89[#A]%10%02%07[#A]196([#A]538)[#A]%10%04}").
Proof. split; [repeat split|]; vm_compute; reflexivity. Qed.

(** ------------------------------------------------------------------ bounded exhaustive theorem *)
Fixpoint all_pairs (keys : list Z) : list (Z * Z) :=
  match keys with [] => [] | k :: r => map (fun x => (k, x)) r ++ all_pairs r end.
(** every assignment pair -> absent | order from [orders] *)
Fixpoint edge_choices (pairs : list (Z * Z)) (orders : list Z) : list (list (Z * Z * Z)) :=
  match pairs with
  | [] => [[]]
  | p :: r => let rec := edge_choices r orders in
              rec ++ flat_map (fun o => map (fun es => (p, o) :: es) rec) orders
  end.
Definition names5 : list string := ["A"; "B"; "C"; "D"; "E"]%string.
(** all labelled graphs on the keys [ins] (node insertion order [ins], edges inserted in the order of
    [all_pairs (sorted keys)]) *)
Definition graphs_on (ins : list Z) (orders : list Z) : list graph :=
  let nodes := map (fun k => (k, nth (Z.to_nat k) names5 "X"%string)) ins in
  map (fun es => mkg nodes es) (edge_choices (all_pairs (map Z.of_nat (seq 0 (length ins)))) orders).
Fixpoint insert_all {A} (x : A) (l : list A) : list (list A) :=
  match l with [] => [[x]] | y :: r => (x :: l) :: map (cons y) (insert_all x r) end.
Fixpoint perms {A} (l : list A) : list (list A) :=
  match l with [] => [[]] | x :: r => flat_map (insert_all x) (perms r) end.
(** the round trip holds on [g] for EVERY order in which the set of ring edges may be iterated
    (no class is excluded; no class of C07 is open) *)
Definition small_ok (g : graph) : bool :=
  negb (wf_C07 g)
  || forallb (fun tr => Nat.eqb (roundtrip_code g tr) 0) (perms (nontree_edges g (dfs_tree g))).
Definition small_family : list graph :=
  graphs_on [0] [0; 1; 2; 3; 4] ++ graphs_on [0; 1] [0; 1; 2; 3; 4] ++ graphs_on [1; 0] [0; 1; 2; 3; 4]
  ++ graphs_on [0; 1; 2] [0; 1; 2; 3; 4] ++ graphs_on [2; 0; 1] [0; 1; 2; 3; 4] ++ graphs_on [1; 2; 0] [0; 1; 2; 3; 4].
(** 4 nodes: two insertion orders, orders 0..2; 5 nodes: every labelled graph with single bonds *)
Definition small_family4 : list graph := graphs_on [0; 1; 2; 3] [0; 1; 2] ++ graphs_on [3; 1; 0; 2] [0; 1; 2].
Definition small_family5 : list graph := graphs_on [0; 1; 2; 3; 4] [1].
Definition small_all : list graph := small_family ++ small_family4 ++ small_family5.

Lemma small_all_ok : forallb small_ok small_all = true.
Proof. vm_compute. reflexivity. Qed.

(** BOUNDED theorem (vm_compute over 661 + 8192 + 1024 labelled graphs: all graphs on <= 3 nodes with orders
    0..4 and three node-insertion orders, all graphs on 4 nodes with orders 0..2 and two insertion orders, all
    graphs on 5 nodes with single bonds): for every graph of the family in the property's domain and for EVERY
    iteration order of the ring-edge set, the string the writer model produces is read back by the reader
    model to an isomorphic graph -- tree edges, branch edges and ring-closing edges of every order alike
    (on the code repaired by be4ff6e and dd9a0c2; before, two defect classes had to be excluded). *)
Theorem C07_small : forall g, In g small_all -> wf_C07 g = true ->
  forall tr, In tr (perms (nontree_edges g (dfs_tree g))) -> roundtrip_code g tr = 0%nat.
Proof.
  intros g Hg Hwf tr Htr.
  pose proof small_all_ok as H. rewrite forallb_forall in H. specialize (H g Hg).
  unfold small_ok in H. rewrite Hwf in H. cbn [negb orb] in H.
  rewrite forallb_forall in H. specialize (H tr Htr). now apply Nat.eqb_eq.
Qed.
Example C07_small_nonvacuous :
  Z.of_nat (length (filter wf_C07 small_all)) = 9007
  /\ Z.of_nat (length (filter (fun g => wf_C07 g && (cls_branch_order g || cls_ring_order g)) small_all)) = 6600.
Proof. vm_compute. split; reflexivity. Qed.
