(** FragCheck: executable oracle and correspondence for C08 (imports ONLY model + defs).
    Three kinds of case:
    (a) [CFb]: a descriptor list L written after an atom by the GENERATED [format_bonding] and read back
        by the implementation's strip_bonding_descriptors;
    (b) [CFrag]: a fragment dict (as returned by read_fragments) written by write_cgsmiles_fragments and
        read again;
    (c) [CWhole]: write_cgsmiles(base, fragment_dicts) of a resolver's inputs, resolved again.
    [corr_ok]: the model writes the implementation's string.  [prop_fail]: clause + 10 * class. *)
From Coq Require Import String.
From Coq Require Import List Ascii ZArith Bool.
From CGV Require Import Base.PyBase Base.PyVal Base.PyGen Base.NxGraph Gen.WriterGen Write.WriteImpl Write.WriteDefs Write.FragDefs.
From CGV Require Import Dialect.DialectImpl Write.FragRead.
Import ListNotations.
Open Scope Z_scope.

Inductive case :=
| CFb (atom : pystr) (L : list pystr)
      (out : option pystr)                      (* format_bonding(L); None = raised *)
      (back : option (list pystr))              (* descriptors strip_bonding_descriptors(atom + out) puts on atom 0 *)
| CFrag (smiles_format : bool) (entries : list frag_entry)
        (out : option pystr)                    (* write_cgsmiles_fragments(F, smiles_format) *)
        (reread : option (list (pystr * graph)))(* read_fragments(out, all_atom=smiles_format) *)
        (wits : list (list (Z * Z)))            (* per fragment: isomorphism found by the harness *)
| CWhole (base : graph) (tr : list (Z * Z)) (layers : list (list frag_entry)) (last_all_atom : bool)
         (out : option pystr)                   (* write_cgsmiles(base, fragment_dicts, last_all_atom) *)
         (mol1 mol2 : option graph)             (* final molecule of the original string / of [out] *)
         (wit : option (list (Z * Z)))
| CRfc (fragname text : pystr)                   (* correspondence only: the coarse branch of fragment_iter *)
       (ftab : list (pystr * option pystr))      (* float() answers recorded in this run *)
       (out : option obs_graph).                 (* strip_bonding_descriptors(text), then read_fragment_cgsmiles; None = raised *)

Fixpoint strs_eqb (a b : list pystr) : bool :=
  match a, b with [], [] => true | x :: a', y :: b' => str_eqb x y && strs_eqb a' b' | _, _ => false end.
Definition res_matches (r : res pystr) (o : option pystr) : bool :=
  match r, o with Ok s, Some s' => str_eqb s s' | Err _, None => true | _, _ => false end.
Definition entries_contract (l : list frag_entry) : bool :=
  forallb (fun e => let '(_, g, tr, _) := e in ring_contract g (dfs_tree g) tr) l.

Definition corr_ok (c : case) : bool :=
  match c with
  | CFb _ L out _ => res_matches (format_bonding L) out
  | CFrag sf entries out _ _ => entries_contract entries && res_matches (write_cgsmiles_fragments sf entries) out
  | CWhole base tr layers laa out _ _ _ =>
      ring_contract base (dfs_tree base) tr && forallb entries_contract layers
      && res_matches (write_cgsmiles base tr layers laa) out
  | CRfc fragname text ftab out =>
      match read_coarse_fragment (fo_of_table ftab) fragname text, out with
      | Ok g, Some o => obs_eqb (observe g) o
      | Err _, None => true
      | _, _ => false
      end
  end.

Fixpoint frags_iso (sf : bool) (entries : list frag_entry) (reread : list (pystr * graph)) (wits : list (list (Z * Z))) : bool :=
  match entries, reread with
  | [], [] => true
  | (name, g, _, _) :: er, (name', g') :: rr =>
      str_eqb name name'
      && giso_by (frag_label_eqb sf) g g' (match wits with w :: _ => w | [] => [] end)
      && frags_iso sf er rr (tl wits)
  | _, _ => false
  end.

Definition clause_C08 (c : case) : nat :=
  match c with
  | CFb _ L out back =>
      match out, back with
      | None, _ => 1%nat
      | Some _, None => 2%nat
      | Some _, Some L' => if strs_eqb L L' then 0%nat else 3%nat
      end
  | CFrag sf entries out reread wits =>
      match out, reread with
      | None, _ => 1%nat
      | Some _, None => 2%nat
      | Some _, Some rr => if frags_iso sf entries rr wits then 0%nat else 3%nat
      end
  | CWhole _ _ _ _ out mol1 mol2 wit =>
      match mol1 with
      | None => 0%nat                        (* the original string does not resolve: outside the domain *)
      | Some m1 =>
          match out, mol2 with
          | None, _ => 1%nat
          | Some _, None => 4%nat
          | Some _, Some m2 =>
              if giso_by mol_label_eqb m1 m2 (match wit with Some w => w | None => [] end) then 0%nat else 5%nat
          end
      end
  | CRfc _ _ _ _ => 0%nat
  end.

Definition class_C08 (c : case) : nat :=
  match c with
  | CFb _ L _ _ => 0%nat     (* both descriptor classes were repaired (1a5deb0, 0d0f450) *)
  | CFrag sf entries _ _ _ => class_entries sf entries
  | CWhole base tr layers laa _ _ _ _ =>
      match class_layers laa layers with
      | 0%nat => match class_C07 base tr with
                 | 0%nat => if cls_ambiguous base layers || cls_ambiguous2 base layers then 10%nat else 0%nat
                 | k => (6 + k)%nat     (* 7, 8, 9: the C07 classes on the base graph, all repaired (class_C07 = 0) *)
                 end
      | k => k
      end
  | CRfc _ _ _ _ => 0%nat
  end.

(** the domain: descriptors are kind + alphanumeric label + order 0..4 *)
Definition wf_case (c : case) : bool :=
  match c with
  | CFb _ L _ _ => forallb wf_descr L
  | CFrag _ entries _ _ _ => forallb (fun e => let '(_, g, _, _) := e in forallb (fun n => forallb wf_descr (node_bonding (na n))) g) entries
  | CWhole _ _ _ _ _ _ _ _ => true
  | CRfc _ _ _ _ => true
  end.

Definition prop_fail (c : case) : nat :=
  if negb (wf_case c) then 0%nat
  else match clause_C08 c with
       | 0%nat => 0%nat
       | k => (k + 10 * class_C08 c)%nat
       end.
