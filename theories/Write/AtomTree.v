(** AtomTree: C08 for ALL-ATOM fragments, ring-free, organic-subset atoms, unbounded.
    write_graph(smiles_format=True) on a tree-shaped fragment whose atoms are written as bare organic-subset
    elements (B C N O P S F Cl Br I, charge 0, not aromatic, default hydrogen count) with their bonding descriptors
    writes a text that (i) the strip model splits into the SMILES text and the dict {i: descriptors of the i-th
    written atom} (the strip component's main lemma), (ii) Frag's model of pysmiles (tokenizer + base_smiles_parser +
    parse_atom + bond orders; [SmilesProofs.render_parse]) reads as the graph with atom i = the i-th written atom and
    one bond per tree edge with the order of its symbol, so that (iii) the model of fragment_iter(all_atom=True) up to
    pysmiles' hydrogen completion ([Template.fragment_template]) returns the fragment renumbered in the order of
    writing: elements, charges, aromatic flags, bond orders, and every descriptor on the atom it was attached to. *)
From Coq Require Import String.
From Coq Require Import List Ascii ZArith Bool Lia Permutation.
From CGV Require Import Base.PyBase Base.PyVal Base.PyGen Base.NxGraph Gen.WriterGen Gen.SmilesGen Dialect.DialectImpl.
From CGV Require Import Write.WriteImpl Write.WriteDefs Write.FormatBondingSpec Write.FormatStripRound Write.CoarseChain
     Write.TreeDefs Write.TreeWrite Write.TreeTables Write.TreeRound Write.WfFacts Write.ConnFacts Write.DfsProofs Write.RingClose Write.CoarseGraph.
From CGV Require Import Frag.NDict Frag.StripImpl Frag.FragText Frag.FragProofs Frag.SmilesParse Frag.SmilesSpec Frag.SmilesProofs
     Frag.Template Frag.TemplateProofs.
Import ListNotations.
Local Open Scope nat_scope.

(** ------------------------------------------------------------------ the visits of the writer, flat *)
(** one node as it is written: "(" before it?, the symbol of the edge it was reached by, its key, ")" behind it? *)
Record vis := { v_open : bool; v_sym : option bsym; v_key : Z; v_close : bool }.

Section Atoms.
  Variable el : Z -> pystr.                       (* the element written for a node *)
  Variable D : Z -> list dspec.                   (* its bonding descriptors *)
  Variable eo : Z -> Z -> option bsym.            (* the symbol written for a tree edge (None: single bond) *)

  Definition psym (p : option Z) (k : Z) : option bsym := match p with Some q => eo q k | None => None end.
  Fixpoint wvis (p : option Z) (isb : bool) (d : nat) (t : rtree) : list vis :=
    match t with
    | RNode k cs =>
        let d1 := if isb then Datatypes.S d else d in
        match cs with
        | [] => [{| v_open := isb; v_sym := psym p k; v_key := k; v_close := (0 <? d1) |}]
        | c1 :: bs =>
            {| v_open := isb; v_sym := psym p k; v_key := k; v_close := false |}
            :: (fix br (l : list rtree) : list vis := match l with [] => [] | c :: r => br r ++ wvis (Some k) true d1 c end) bs
            ++ wvis (Some k) false d1 c1
        end
    end.
  Definition wvis_br (k : Z) (d1 : nat) (bs : list rtree) : list vis :=
    (fix br (l : list rtree) : list vis := match l with [] => [] | c :: r => br r ++ wvis (Some k) true d1 c end) bs.
  Lemma wvis_cons p isb d k c1 bs :
    wvis p isb d (RNode k (c1 :: bs))
    = {| v_open := isb; v_sym := psym p k; v_key := k; v_close := false |}
      :: wvis_br k (if isb then Datatypes.S d else d) bs ++ wvis (Some k) false (if isb then Datatypes.S d else d) c1.
  Proof. reflexivity. Qed.
  Lemma wvis_br_cons k d1 c r : wvis_br k d1 (c :: r) = wvis_br k d1 r ++ wvis (Some k) true d1 c.
  Proof. reflexivity. Qed.

  Definition obtoks (o : option bsym) : list ditem := match o with Some b => [ITok (TBond b)] | None => [] end.
  Definition vitems (v : vis) : list ditem :=
    (if v_open v then [ITok TOpen] else []) ++ obtoks (v_sym v)
    ++ ITok (TAtom (el (v_key v))) :: map IDesc (map to_desc (D (v_key v)))
    ++ (if v_close v then [ITok TClose] else []).
  Definition vtext (v : vis) : pystr :=
    (if v_open v then S "(" else []) ++ optb (v_sym v) ++ (el (v_key v) ++ fbt (D (v_key v))) ++ (if v_close v then S ")" else []).
  Definition aitems (vs : list vis) : list ditem := flat_map vitems vs.

  (** the writer's text is the text of the visits *)
  Definition antext (k : Z) : pystr := el k ++ fbt (D k).
  Definition astext (p k : Z) : pystr := optb (eo p k).
  Lemma wtext_vis : forall t p isb d, wtext true antext astext p isb d t = flat_map vtext (wvis p isb d t).
  Proof.
    apply (rtree_ind2 (fun t => forall p isb d, wtext true antext astext p isb d t = flat_map vtext (wvis p isb d t))).
    intros k cs IH p isb d. destruct cs as [|c1 bs].
    - cbn [wtext wvis flat_map]. rewrite app_nil_r. unfold whead, vtext. cbn [v_open v_sym v_key v_close].
      rewrite andb_true_r, andb_false_r. cbn [app]. unfold antext, astext, psym. destruct p; rewrite <- ?app_assoc; reflexivity.
    - rewrite wvis_cons. cbn [flat_map]. rewrite flat_map_app.
      change (wtext true antext astext p isb d (RNode k (c1 :: bs)))
        with (whead true antext astext p isb k ++ wbranches true antext astext k (if isb then Datatypes.S d else d) bs
              ++ wtext true antext astext (Some k) false (if isb then Datatypes.S d else d) c1).
      set (d1 := if isb then Datatypes.S d else d).
      assert (B : forall l, Forall (fun t => forall p isb d, wtext true antext astext p isb d t = flat_map vtext (wvis p isb d t)) l ->
                  wbranches true antext astext k d1 l = flat_map vtext (wvis_br k d1 l)).
      { induction l as [|c r IHr]; intros Hl; [reflexivity|]. rewrite wvis_br_cons, flat_map_app.
        change (wbranches true antext astext k d1 (c :: r)) with (wbranches true antext astext k d1 r ++ wtext true antext astext (Some k) true d1 c).
        rewrite (IHr (Forall_inv_tail Hl)), (Forall_inv Hl). reflexivity. }
      rewrite (B bs (Forall_inv_tail IH)), (Forall_inv IH). f_equal.
      unfold whead, vtext. cbn [v_open v_sym v_key v_close]. rewrite andb_true_r, andb_false_r. cbn [app]. rewrite app_nil_r.
      unfold antext, astext, psym. destruct p; rewrite <- ?app_assoc; reflexivity.
  Qed.
  Lemma vkeys_worder : forall t p isb d, map v_key (wvis p isb d t) = worder t.
  Proof.
    apply (rtree_ind2 (fun t => forall p isb d, map v_key (wvis p isb d t) = worder t)).
    intros k cs IH p isb d. destruct cs as [|c1 bs]; [reflexivity|].
    rewrite wvis_cons, worder_cons. cbn [map v_key]. f_equal. rewrite map_app. set (d1 := if isb then Datatypes.S d else d).
    assert (B : forall l, Forall (fun t => forall p isb d, map v_key (wvis p isb d t) = worder t) l -> map v_key (wvis_br k d1 l) = worder_branches l).
    { induction l as [|c r IHr]; intros Hl; [reflexivity|]. rewrite wvis_br_cons, worder_branches_cons, map_app.
      now rewrite (IHr (Forall_inv_tail Hl)), (Forall_inv Hl). }
    now rewrite (B bs (Forall_inv_tail IH)), (Forall_inv IH).
  Qed.

  Hypothesis HD : forall k, forallb d_ok (D k) = true.
  Lemma render_obtoks o : render (obtoks o) = optb o.
  Proof. destruct o; reflexivity. Qed.
  Lemma render_vitems v : render (vitems v) = vtext v.
  Proof.
    unfold vitems, vtext. rewrite !render_app, render_obtoks, render_cons, render_app.
    assert (Ed : render (map IDesc (map to_desc (D (v_key v)))) = fbt (D (v_key v))) by (unfold render; apply render_descs; apply HD).
    rewrite Ed. cbn [render_item render_tok]. destruct (v_open v), (v_close v); rewrite <- ?app_assoc; reflexivity.
  Qed.
  Lemma render_aitems vs : render (aitems vs) = flat_map vtext vs.
  Proof.
    induction vs as [|v r IH]; [reflexivity|]. unfold aitems. cbn [flat_map]. fold (aitems r). now rewrite render_app, render_vitems, IH.
  Qed.

  (** ---------------------------------------------------------------- the tokens pysmiles is given *)
  Definition toks_of (items : list ditem) : list tok := flat_map (fun i => match i with ITok t => [t] | _ => [] end) items.
  Lemma toks_of_app a b : toks_of (a ++ b) = toks_of a ++ toks_of b.
  Proof. apply flat_map_app. Qed.
  Definition vtoks (v : vis) : list tok :=
    (if v_open v then [TOpen] else []) ++ (match v_sym v with Some b => [TBond b] | None => [] end)
    ++ TAtom (el (v_key v)) :: (if v_close v then [TClose] else []).
  Lemma toks_descs Ds : toks_of (map IDesc (map to_desc Ds)) = [].
  Proof. induction Ds as [|x r IH]; [reflexivity|exact IH]. Qed.
  Lemma toks_vitems v : toks_of (vitems v) = vtoks v.
  Proof.
    unfold vitems, vtoks. rewrite !toks_of_app. f_equal; [destruct (v_open v); reflexivity|]. f_equal; [destruct (v_sym v); reflexivity|].
    change (ITok (TAtom (el (v_key v))) :: map IDesc (map to_desc (D (v_key v))) ++ (if v_close v then [ITok TClose] else []))
      with ([ITok (TAtom (el (v_key v)))] ++ map IDesc (map to_desc (D (v_key v))) ++ (if v_close v then [ITok TClose] else [])).
    rewrite !toks_of_app, toks_descs. cbn [app]. destruct (v_close v); reflexivity.
  Qed.
  Definition atoks (vs : list vis) : list tok := flat_map vtoks vs.
  Lemma toks_aitems vs : toks_of (aitems vs) = atoks vs.
  Proof. induction vs as [|v r IH]; [reflexivity|]. unfold aitems, atoks. cbn [flat_map]. fold (aitems r). fold (atoks r). now rewrite toks_of_app, toks_vitems, IH. Qed.
  Definition item_simple (i : ditem) : bool :=
    match i with IDesc _ => true | ITok (TAtom _) | ITok (TBond _) | ITok TOpen | ITok TClose => true | _ => false end.
  Lemma simple_aitems vs : forallb item_simple (aitems vs) = true.
  Proof.
    induction vs as [|v r IH]; [reflexivity|]. unfold aitems. cbn [flat_map]. fold (aitems r). rewrite forallb_app, IH, andb_true_r.
    unfold vitems. rewrite !forallb_app. cbn [forallb item_simple]. rewrite forallb_app.
    assert (E : forallb item_simple (map IDesc (map to_desc (D (v_key v)))) = true) by (induction (D (v_key v)); [reflexivity|assumption]).
    rewrite E. destruct (v_open v), (v_sym v), (v_close v); reflexivity.
  Qed.
  Lemma clean_simple : forall items, forallb item_simple items = true ->
    flat_map (fun i => match i with ITok t => clean_tok t | _ => [] end) items = render_smiles false (toks_of items).
  Proof.
    induction items as [|i r IH]; intros H; [reflexivity|]. cbn [forallb] in H. apply andb_prop in H as [H1 H2].
    cbn [flat_map]. rewrite (IH H2). destruct i as [d|t|d]; [discriminate| |reflexivity].
    destruct t; try discriminate; reflexivity.
  Qed.
  Lemma wf_simple : forall items z d, forallb item_simple items = true -> wf_items z d items = true -> wf_toks z d (toks_of items) = true.
  Proof.
    induction items as [|i r IH]; intros z d H W; [exact W|]. cbn [forallb] in H. apply andb_prop in H as [H1 H2].
    destruct i as [x|t|x]; [discriminate| |].
    - cbn [wf_items] in W. apply andb_prop in W as [Wt W]. destruct t; try discriminate H1; cbn [toks_of flat_map app wf_toks tok_smiles_ok]; fold (toks_of r).
      + cbn [tok_ok] in Wt. rewrite Wt. cbn [andb]. now apply IH.
      + cbn [andb]. destruct z; try discriminate W; now apply IH.
      + apply andb_prop in W as [Wz W]. rewrite Wz. cbn [andb]. now apply IH.
      + apply andb_prop in W as [Wz W]. rewrite Wz. cbn [andb]. destruct d; [discriminate|]. now apply IH.
    - cbn [wf_items] in W. apply andb_prop in W as [W W3]. apply andb_prop in W as [Wz _]. destruct z; try discriminate Wz.
      cbn [toks_of flat_map app]. fold (toks_of r). now apply IH.
  Qed.

  (** ---------------------------------------------------------------- the strip specification on the visits *)
  Variable fo : float_oracle.
  Fixpoint ddl (n : nat) (Dl : list (list dspec)) (d : ndict (list pystr)) : ndict (list pystr) :=
    match Dl with [] => d | Ds :: r => ddl (Datatypes.S n) r (fold_left (fun d y => nd_append n (d_stored y) d) Ds d) end.
  Lemma spec_vitems v sp : exists sp', spec_run fo sp (vitems v) = Ok sp'
    /\ s_n sp' = Datatypes.S (s_n sp) /\ s_desc sp' = fold_left (fun d y => nd_append (s_n sp) (d_stored y) d) (D (v_key v)) (s_desc sp)
    /\ s_ez sp' = s_ez sp /\ s_ann sp' = s_ann sp.
  Proof.
    unfold vitems.
    assert (A1 : exists sp1, spec_run fo sp (if v_open v then [ITok TOpen] else []) = Ok sp1
                   /\ s_n sp1 = s_n sp /\ s_desc sp1 = s_desc sp /\ s_ez sp1 = s_ez sp /\ s_ann sp1 = s_ann sp)
      by (destruct (v_open v); eexists; (split; [reflexivity|repeat split])).
    destruct A1 as [sp1 (E1 & N1 & D1 & Z1 & A1)]. rewrite spec_run_app, E1. cbn [bind].
    assert (A2 : exists sp2, spec_run fo sp1 (obtoks (v_sym v)) = Ok sp2
                   /\ s_n sp2 = s_n sp1 /\ s_desc sp2 = s_desc sp1 /\ s_ez sp2 = s_ez sp1 /\ s_ann sp2 = s_ann sp1)
      by (destruct (v_sym v); eexists; (split; [reflexivity|repeat split])).
    destruct A2 as [sp2 (E2 & N2 & D2 & Z2 & A2)]. rewrite spec_run_app, E2. cbn [bind].
    cbn [spec_run spec_item spec_tok bind]. rewrite spec_run_app, (spec_descs fo _ (D (v_key v)) (HD (v_key v))). cbn [bind s_n s_owner s_stack s_clean s_desc s_ez s_ann].
    destruct (v_close v); eexists; (split; [reflexivity|]); cbn [s_n s_desc s_ez s_ann]; rewrite N2, N1, D2, D1, Z2, Z1, A2, A1; repeat split.
  Qed.
  Lemma spec_aitems : forall vs sp, exists sp', spec_run fo sp (aitems vs) = Ok sp'
    /\ s_n sp' = s_n sp + length vs /\ s_desc sp' = ddl (s_n sp) (map (fun v => D (v_key v)) vs) (s_desc sp)
    /\ s_ez sp' = s_ez sp /\ s_ann sp' = s_ann sp.
  Proof.
    induction vs as [|v r IH]; intros sp.
    - exists sp. split; [reflexivity|]. cbn [length map ddl]. rewrite Nat.add_0_r. repeat split.
    - unfold aitems. cbn [flat_map]. fold (aitems r). rewrite spec_run_app.
      destruct (spec_vitems v sp) as [sp1 (E1 & N1 & D1 & Z1 & A1)]. rewrite E1. cbn [bind].
      destruct (IH sp1) as [sp' (E & N & Dd & Z & A)]. exists sp'. split; [exact E|]. rewrite N, Dd, Z, A, N1, D1, Z1, A1.
      cbn [length map ddl]. repeat split. lia.
  Qed.

  (** ---------------------------------------------------------------- the visits are a text of the strip grammar *)
  Hypothesis HE : forall k, str_in (el k) organic_atoms = true.
  Lemma wf_vitems v z depth rest :
    (if v_open v then z = ZAtom else match v_sym v with Some _ => z = ZAtom | None => True end) ->
    wf_items z depth (vitems v ++ rest)
    = (let d1 := if v_open v then Datatypes.S depth else depth in
       if v_close v then match d1 with O => false | Datatypes.S d2 => wf_items ZAtom d2 rest end else wf_items ZAtom d1 rest).
  Proof.
    intros Hz. unfold vitems. rewrite <- !app_assoc. cbv zeta. rewrite <- app_comm_cons, <- !app_assoc.
    remember (ITok (TAtom (el (v_key v))) :: map IDesc (map to_desc (D (v_key v))) ++ (if v_close v then [ITok TClose] else []) ++ rest) as tail eqn:Et.
    assert (T : forall z' dd, wf_items z' dd tail
                = if v_close v then match dd with O => false | Datatypes.S d2 => wf_items ZAtom d2 rest end else wf_items ZAtom dd rest).
    { intros z' dd. rewrite Et. cbn [wf_items tok_ok]. rewrite HE. cbn [andb]. rewrite wf_descs by apply HD.
      destruct (v_close v); [|reflexivity]. cbn [app wf_items tok_ok is_zatom andb]. reflexivity. }
    clear Et.
    destruct (v_open v).
    - subst z. cbn [app wf_items tok_ok is_zatom andb]. destruct (v_sym v); cbn [obtoks app wf_items tok_ok andb]; apply T.
    - cbn [app]. destruct (v_sym v); cbn [obtoks app wf_items tok_ok andb]; [subst z|]; apply T.
  Qed.
  Lemma wf_wvis : forall t p isb d z rest, (p <> None -> z = ZAtom) -> (p = None -> isb = false) ->
    wf_items z d (aitems (wvis p isb d t) ++ rest) = wf_items ZAtom (dout isb d) rest.
  Proof.
    apply (rtree_ind2 (fun t => forall p isb d z rest, (p <> None -> z = ZAtom) -> (p = None -> isb = false) ->
             wf_items z d (aitems (wvis p isb d t) ++ rest) = wf_items ZAtom (dout isb d) rest)).
    intros k cs IH p isb d z rest Hz Hp.
    assert (Hv : forall cl, let v := {| v_open := isb; v_sym := psym p k; v_key := k; v_close := cl |} in
                 if v_open v then z = ZAtom else match v_sym v with Some _ => z = ZAtom | None => True end).
    { intros cl. cbn [v_open v_sym]. destruct p as [q|]; [rewrite Hz by discriminate; destruct isb; [reflexivity|destruct (psym (Some q) k); [reflexivity|exact Logic.I]]|].
      rewrite (Hp eq_refl). exact Logic.I. }
    destruct cs as [|c1 bs].
    - cbn [wvis]. unfold aitems. cbn [flat_map]. rewrite app_nil_r, (wf_vitems _ z d rest (Hv _)). cbn [v_open v_close]. unfold dout.
      destruct isb; cbn [Nat.ltb Nat.leb]; [reflexivity|]. destruct d as [|d']; cbn [Nat.ltb Nat.leb]; [reflexivity|]. now replace (Datatypes.S d' - 1) with d' by lia.
    - rewrite wvis_cons. set (d1 := if isb then Datatypes.S d else d). unfold aitems. cbn [flat_map]. rewrite flat_map_app.
      fold (aitems (wvis_br k d1 bs)). fold (aitems (wvis (Some k) false d1 c1)). rewrite <- !app_assoc.
      rewrite (wf_vitems _ z d _ (Hv false)). cbn [v_open v_close]. fold d1.
      assert (B : forall l rest', Forall (fun t => forall p isb d z rest, (p <> None -> z = ZAtom) -> (p = None -> isb = false) ->
                      wf_items z d (aitems (wvis p isb d t) ++ rest) = wf_items ZAtom (dout isb d) rest) l ->
                  wf_items ZAtom d1 (aitems (wvis_br k d1 l) ++ rest') = wf_items ZAtom d1 rest').
      { induction l as [|c r IHr]; intros rest' Hl; [reflexivity|]. rewrite wvis_br_cons. unfold aitems. rewrite flat_map_app.
        fold (aitems (wvis_br k d1 r)). fold (aitems (wvis (Some k) true d1 c)). rewrite <- app_assoc, (IHr _ (Forall_inv_tail Hl)).
        rewrite (Forall_inv Hl (Some k) true d1 ZAtom rest') by (intros; try reflexivity; discriminate). reflexivity. }
      rewrite (B bs _ (Forall_inv_tail IH)), (Forall_inv IH (Some k) false d1 ZAtom rest) by (intros; try reflexivity; discriminate).
      unfold dout, d1. destruct isb; [now replace (Datatypes.S d - 1) with d by lia|reflexivity].
  Qed.
End Atoms.

(** ------------------------------------------------------------------ what pysmiles' parser model builds from the visits *)
Fixpoint zidx (k : Z) (l : list Z) : nat := match l with [] => 0 | x :: r => if Z.eqb x k then 0 else Datatypes.S (zidx k r) end.
Lemma zidx_app k : forall pre post, ~ In k pre -> zidx k (pre ++ k :: post) = length pre.
Proof.
  induction pre as [|x pre IH]; intros post H; cbn [app zidx length].
  - now rewrite Z.eqb_refl.
  - destruct (Z.eqb_spec x k) as [->|N]; [exfalso; apply H; now left|]. f_equal. apply IH. intros Hin. apply H. now right.
Qed.
Lemma zidx_nth k : forall l, In k l -> nth_error l (zidx k l) = Some k.
Proof.
  induction l as [|x l IH]; intros H; [contradiction|]. cbn [zidx]. destruct (Z.eqb_spec x k) as [->|N]; [reflexivity|].
  cbn [nth_error]. apply IH. destruct H as [E|H]; [contradiction|exact H].
Qed.
Lemma gst_eq a1 e1 c1 n1 p1 s1 o1 z1 a2 e2 c2 n2 p2 s2 o2 z2 :
  a1 = a2 -> e1 = e2 -> c1 = c2 -> n1 = n2 -> p1 = p2 -> s1 = s2 -> o1 = o2 -> z1 = z2 ->
  {| q_atoms := a1; q_edges := e1; q_cur := c1; q_n := n1; q_pend := p1; q_stack := s1; q_open := o1; q_ez := z1 |}
  = {| q_atoms := a2; q_edges := e2; q_cur := c2; q_n := n2; q_pend := p2; q_stack := s2; q_open := o2; q_ez := z2 |}.
Proof. intros; subst; reflexivity. Qed.
Lemma grun_app ks a : forall g b, grun ks g (a ++ b) = (g' <- grun ks g a ;; grun ks g' b).
Proof. induction a as [|t a IH]; intros g b; [reflexivity|]. cbn [app grun]. destruct (gstep ks g t); cbn [bind]; [apply IH|reflexivity]. Qed.

(** the tree edges in the order of writing *)
Fixpoint wkeys (p : option Z) (t : rtree) : list (Z * Z) :=
  match t with
  | RNode k cs =>
      (match p with Some q => [(q, k)] | None => [] end)
      ++ match cs with
         | [] => []
         | c1 :: bs => (fix br (l : list rtree) : list (Z * Z) := match l with [] => [] | c :: r => br r ++ wkeys (Some k) c end) bs
                       ++ wkeys (Some k) c1
         end
  end.
Definition wkeys_br (k : Z) (bs : list rtree) : list (Z * Z) :=
  (fix br (l : list rtree) : list (Z * Z) := match l with [] => [] | c :: r => br r ++ wkeys (Some k) c end) bs.
Lemma wkeys_cons p k c1 bs : wkeys p (RNode k (c1 :: bs)) = (match p with Some q => [(q, k)] | None => [] end) ++ wkeys_br k bs ++ wkeys (Some k) c1.
Proof. reflexivity. Qed.
Lemma wkeys_br_cons k c r : wkeys_br k (c :: r) = wkeys_br k r ++ wkeys (Some k) c.
Proof. reflexivity. Qed.

Section Parse.
  Variable el : Z -> pystr.
  Variable eo : Z -> Z -> option bsym.
  Variable W : list Z.
  Hypothesis HW : NoDup W.
  Definition pos (k : Z) : nat := zidx k W.
  Lemma pos_at pre k post : W = pre ++ k :: post -> pos k = length pre.
  Proof.
    intros E. unfold pos. rewrite E. apply zidx_app. rewrite E in HW. apply NoDup_remove_2 in HW. intros Hin. apply HW. apply in_or_app. now left.
  Qed.
  Definition E3 (e : Z * Z) : nat * nat * bondstr := (pos (fst e), pos (snd e), option_map bchar (eo (fst e) (snd e))).
  Definition fin (isb : bool) (d : nat) (cur : option nat) (stack : list nat) (last : nat) : option nat * list nat :=
    if isb then (cur, stack)
    else if (0 <? d) then (match stack with a :: _ => Some a | [] => Some last end, tl stack)
    else (Some last, stack).
  Definition gafter (g : gst) (p : option Z) (isb : bool) (d : nat) (t : rtree) : gst :=
    {| q_atoms := q_atoms g ++ map el (worder t); q_edges := q_edges g ++ map E3 (wkeys p t);
       q_cur := fst (fin isb d (q_cur g) (q_stack g) (q_n g + length (worder t) - 1));
       q_n := q_n g + length (worder t); q_pend := None;
       q_stack := snd (fin isb d (q_cur g) (q_stack g) (q_n g + length (worder t) - 1));
       q_open := q_open g; q_ez := q_ez g |}.
  Definition pcond (p : option Z) (isb : bool) (g : gst) : Prop :=
    match p with Some q => q_cur g = Some (pos q) | None => q_cur g = None /\ isb = false end.
  Definition ghead (g : gst) (p : option Z) (isb : bool) (k : Z) : gst :=
    {| q_atoms := q_atoms g ++ [el k]; q_edges := q_edges g ++ map E3 (match p with Some q => [(q, k)] | None => [] end);
       q_cur := Some (q_n g); q_n := Datatypes.S (q_n g); q_pend := None;
       q_stack := if isb then match q_cur g with Some a => a :: q_stack g | None => q_stack g end else q_stack g;
       q_open := q_open g; q_ez := q_ez g |}.
  Lemma grun_head g p isb k rest : pos k = q_n g -> q_pend g = None -> pcond p isb g ->
    grun false g ((if isb then [TOpen] else []) ++ (match psym eo p k with Some b => [TBond b] | None => [] end) ++ TAtom (el k) :: rest)
    = grun false (ghead g p isb k) rest.
  Proof.
    intros Hk Hp Hc. destruct g as [ga ge gc gn gp gs go gz]. cbn [q_n q_pend q_cur] in *. subst gp.
    unfold ghead, pcond, psym in *. cbn [q_atoms q_edges q_cur q_n q_pend q_stack q_open q_ez] in *.
    destruct p as [q|].
    - subst gc. unfold E3. cbn [map fst snd]. rewrite Hk.
      destruct isb, (eo q k); cbn [app grun gstep bind add_atom clean_tok render_tok q_atoms q_edges q_cur q_n q_pend q_stack q_open q_ez option_map]; reflexivity.
    - destruct Hc as [-> ->]. cbn [map app grun gstep bind add_atom clean_tok render_tok q_atoms q_edges q_cur q_n q_pend q_stack q_open q_ez]. now rewrite app_nil_r.
  Qed.

  Lemma grun_wvis : forall t p isb d g rest pre post,
    W = pre ++ worder t ++ post -> length pre = q_n g -> q_pend g = None -> pcond p isb g ->
    grun false g (atoks el (wvis eo p isb d t) ++ rest) = grun false (gafter g p isb d t) rest.
  Proof.
    apply (rtree_ind2 (fun t => forall p isb d g rest pre post,
      W = pre ++ worder t ++ post -> length pre = q_n g -> q_pend g = None -> pcond p isb g ->
      grun false g (atoks el (wvis eo p isb d t) ++ rest) = grun false (gafter g p isb d t) rest)).
    intros k cs IH p isb d g rest pre post HWt Hl Hp Hc.
    assert (Hk : pos k = q_n g).
    { rewrite <- Hl. destruct cs as [|c1 bs]; [apply (pos_at pre k post); exact HWt|].
      rewrite worder_cons in HWt. apply (pos_at pre k ((worder_branches bs ++ worder c1) ++ post)). exact HWt. }
    destruct cs as [|c1 bs].
    - cbn [wvis]. unfold atoks. cbn [flat_map]. rewrite app_nil_r. unfold vtoks. cbn [v_open v_sym v_key v_close].
      rewrite <- !app_assoc, <- app_comm_cons. rewrite (grun_head g p isb k _ Hk Hp Hc).
      unfold gafter. cbn [worder map length wkeys]. rewrite app_nil_r. replace (q_n g + 1 - 1) with (q_n g) by lia. replace (q_n g + 1) with (Datatypes.S (q_n g)) by lia.
      unfold fin, ghead. destruct isb.
      + cbn [Nat.ltb Nat.leb app grun gstep bind]. destruct p as [q|]; [|destruct Hc as [_ Hc]; discriminate Hc]. unfold pcond in Hc. rewrite Hc.
        cbn [q_atoms q_edges q_cur q_n q_pend q_stack q_open q_ez tl fst snd]. reflexivity.
      + destruct (0 <? d) eqn:Ed; cbn [app grun gstep bind q_atoms q_edges q_cur q_n q_pend q_stack q_open q_ez tl fst snd]; [|reflexivity].
        destruct (q_stack g); reflexivity.
    - rewrite wvis_cons. set (d1 := if isb then Datatypes.S d else d). unfold atoks. cbn [flat_map]. rewrite flat_map_app.
      fold (atoks el (wvis_br eo k d1 bs)). fold (atoks el (wvis eo (Some k) false d1 c1)).
      unfold vtoks at 1. cbn [v_open v_sym v_key v_close]. rewrite <- !app_assoc, <- app_comm_cons. cbn [app].
      rewrite (grun_head g p isb k _ Hk Hp Hc).
      rewrite worder_cons in HWt. cbn [app] in HWt. rewrite <- app_assoc in HWt.
      assert (B : forall l g0 rest' pre0 post0,
                 Forall (fun t => forall p isb d g rest pre post,
                   W = pre ++ worder t ++ post -> length pre = q_n g -> q_pend g = None -> pcond p isb g ->
                   grun false g (atoks el (wvis eo p isb d t) ++ rest) = grun false (gafter g p isb d t) rest) l ->
                 W = pre0 ++ worder_branches l ++ post0 -> length pre0 = q_n g0 -> q_pend g0 = None -> q_cur g0 = Some (pos k) ->
                 grun false g0 (atoks el (wvis_br eo k d1 l) ++ rest')
                 = grun false {| q_atoms := q_atoms g0 ++ map el (worder_branches l); q_edges := q_edges g0 ++ map E3 (wkeys_br k l);
                                 q_cur := q_cur g0; q_n := q_n g0 + length (worder_branches l); q_pend := None; q_stack := q_stack g0;
                                 q_open := q_open g0; q_ez := q_ez g0 |} rest').
      { induction l as [|c r IHr]; intros g0 rest' pre0 post0 Hall HW0 Hl0 Hp0 Hc0.
        - cbn [wvis_br atoks flat_map app worder_branches map length wkeys_br]. destruct g0; cbn in *. subst. rewrite !app_nil_r, Nat.add_0_r. reflexivity.
        - rewrite wvis_br_cons. unfold atoks. rewrite flat_map_app. fold (atoks el (wvis_br eo k d1 r)). fold (atoks el (wvis eo (Some k) true d1 c)).
          rewrite <- app_assoc. rewrite worder_branches_cons, <- app_assoc in HW0.
          rewrite (IHr g0 _ pre0 (worder c ++ post0) (Forall_inv_tail Hall) HW0 Hl0 Hp0 Hc0).
          rewrite (Forall_inv Hall (Some k) true d1 _ rest' (pre0 ++ worder_branches r) post0).
          + unfold gafter, fin. cbn [q_atoms q_edges q_cur q_n q_pend q_stack q_open q_ez fst snd].
            f_equal. apply gst_eq; try reflexivity.
            * rewrite worder_branches_cons, map_app. now rewrite <- app_assoc.
            * rewrite wkeys_br_cons, map_app. now rewrite <- app_assoc.
            * rewrite worder_branches_cons, app_length. lia.
          + rewrite <- app_assoc. exact HW0.
          + cbn [q_n]. rewrite app_length. lia.
          + reflexivity.
          + unfold pcond. cbn [q_cur]. exact Hc0. }
      rewrite (B bs (ghead g p isb k) _ (pre ++ [k]) (worder c1 ++ post) (Forall_inv_tail IH)).
      + rewrite (Forall_inv IH (Some k) false d1 _ rest (pre ++ [k] ++ worder_branches bs) post).
        * f_equal. unfold gafter, ghead. cbn [q_atoms q_edges q_cur q_n q_pend q_stack q_open q_ez].
          assert (Hfin : fin false d1 (Some (q_n g)) (if isb then match q_cur g with Some a => a :: q_stack g | None => q_stack g end else q_stack g)
                           (Datatypes.S (q_n g) + length (worder_branches bs) + length (worder c1) - 1)
                         = fin isb d (q_cur g) (q_stack g) (q_n g + length (worder (RNode k (c1 :: bs))) - 1)).
          { rewrite worder_cons. cbn [length]. rewrite app_length.
            replace (q_n g + Datatypes.S (length (worder_branches bs) + length (worder c1)) - 1) with (Datatypes.S (q_n g) + length (worder_branches bs) + length (worder c1) - 1) by lia.
            unfold fin, d1. destruct isb.
            - cbn [Nat.ltb Nat.leb]. destruct p as [q|]; [|destruct Hc as [_ Hc]; discriminate Hc]. unfold pcond in Hc. rewrite Hc. reflexivity.
            - reflexivity. }
          rewrite Hfin. apply gst_eq; try reflexivity.
          -- rewrite worder_cons. cbn [map]. rewrite map_app, <- !app_assoc. reflexivity.
          -- rewrite wkeys_cons, !map_app, <- !app_assoc. reflexivity.
          -- rewrite worder_cons. cbn [length]. rewrite app_length. lia.
        * rewrite <- !app_assoc. cbn [app]. exact HWt.
        * cbn [q_n ghead]. rewrite !app_length. cbn [length]. lia.
        * reflexivity.
        * unfold pcond. cbn [q_cur ghead]. now rewrite Hk.
      + rewrite <- !app_assoc. cbn [app]. exact HWt.
      + cbn [q_n ghead]. rewrite app_length. cbn [length]. lia.
      + reflexivity.
      + cbn [q_cur ghead]. now rewrite Hk.
  Qed.
End Parse.

(** ------------------------------------------------------------------ atoms and bond orders as pysmiles' model reads them *)
Definition upper_organic : list pystr := [S "B"; S "C"; S "N"; S "O"; S "P"; S "S"; S "F"; S "Cl"; S "Br"; S "I"].
Definition atom_attrs (e : pystr) : attrs := [(S "element", VStr e); (S "charge", VInt 0); (S "aromatic", VBool false)].
Lemma upper_cases e : str_in e upper_organic = true ->
  e = S "B" \/ e = S "C" \/ e = S "N" \/ e = S "O" \/ e = S "P" \/ e = S "S" \/ e = S "F" \/ e = S "Cl" \/ e = S "Br" \/ e = S "I".
Proof.
  unfold str_in, upper_organic. cbn [existsb]. intros H.
  repeat (apply orb_prop in H; destruct H as [H|H]); try discriminate H; apply str_eqb_eq in H; subst e; tauto.
Qed.
Lemma parse_upper e : str_in e upper_organic = true -> parse_atom e = Ok (atom_attrs e).
Proof. intros H. destruct (upper_cases e H) as [->|[->|[->|[->|[->|[->|[->|[->|[->| ->]]]]]]]]]; vm_compute; reflexivity. Qed.
Lemma upper_is_organic e : str_in e upper_organic = true -> str_in e organic_atoms = true.
Proof. intros H. destruct (upper_cases e H) as [->|[->|[->|[->|[->|[->|[->|[->|[->| ->]]]]]]]]]; reflexivity. Qed.
Definition ordv (o : option bsym) : pyval := match o with Some b => border b | None => VInt 1 end.

Section Interpret.
  Variable el : Z -> pystr.
  Variable eo : Z -> Z -> option bsym.
  Hypothesis HU : forall k, str_in (el k) upper_organic = true.
  Lemma parse_atoms ks : map_res parse_atom (map el ks) = Ok (map (fun k => atom_attrs (el k)) ks).
  Proof. induction ks as [|k r IH]; [reflexivity|]. cbn [map map_res]. rewrite (parse_upper _ (HU k)). cbn [bind]. rewrite IH. reflexivity. Qed.
  Lemma not_aromatic ks i : node_aromatic (map (fun k => atom_attrs (el k)) ks) i = false.
  Proof.
    unfold node_aromatic. destruct (nth_error (map (fun k => atom_attrs (el k)) ks) i) as [a|] eqn:E; [|reflexivity].
    apply nth_error_In in E. apply in_map_iff in E as [k [<- _]]. reflexivity.
  Qed.
  Lemma edge_orders (f : Z -> nat) ks es :
    map_res (SmilesParse.edge_order (map (fun k => atom_attrs (el k)) ks)) (map (fun e : Z * Z => (f (fst e), f (snd e), option_map bchar (eo (fst e) (snd e)))) es)
    = Ok (map (fun e => (f (fst e), f (snd e), ordv (eo (fst e) (snd e)))) es).
  Proof.
    induction es as [|e r IH]; [reflexivity|]. cbn [map map_res]. rewrite IH. unfold SmilesParse.edge_order at 1.
    destruct (eo (fst e) (snd e)) as [b|]; cbn [option_map ordv].
    - rewrite smiles_order_bchar. reflexivity.
    - rewrite !not_aromatic. reflexivity.
  Qed.
End Interpret.

Lemma nomult_simple el D vs : has_mult (aitems el D vs) = false.
Proof.
  pose proof (simple_aitems el D vs) as H. unfold has_mult. induction (aitems el D vs) as [|i r IH]; [reflexivity|].
  cbn [forallb] in H. apply andb_prop in H as [H1 H2]. cbn [existsb]. rewrite (IH H2), orb_false_r.
  destruct i as [x|t|x]; try reflexivity. destruct t; try reflexivity; discriminate H1.
Qed.

(** ------------------------------------------------------------------ the round trip of a tree-shaped all-atom transcript *)
(** the graph pysmiles' model reads: atom i = the i-th written atom, one bond per tree edge *)
Definition tree_sgraph (el : Z -> pystr) (eo : Z -> Z -> option bsym) (T : rtree) : sgraph :=
  {| g_nodes := map (fun k => atom_attrs (el k)) (worder T);
     g_edges := map (fun e => (pos (worder T) (fst e), pos (worder T) (snd e), ordv (eo (fst e) (snd e)))) (wkeys None T);
     g_ez := [] |}.
Definition tree_text (el : Z -> pystr) (D : Z -> list dspec) (eo : Z -> Z -> option bsym) (T : rtree) : pystr :=
  render (aitems el D (wvis eo None false 0 T)).
Definition tree_clean (el : Z -> pystr) (eo : Z -> Z -> option bsym) (T : rtree) : pystr :=
  render_smiles false (atoks el (wvis eo None false 0 T)).

Theorem atom_tree_transcript : forall fo F el D eo T n fmt sym rsym,
  NoDup (rkeys T) -> (rsize T <= n)%nat ->
  (forall k, str_in (el k) upper_organic = true) -> (forall k, forallb d_ok (D k) = true) ->
  (forall k, In k (rkeys T) -> fmt k = Ok (el k ++ fbt (D k))) ->
  (forall e, In e (redges T) -> sym (fst e) (snd e) = Ok (optb (eo (fst e) (snd e)))) ->
  let dd := ddl 0 (map D (worder T)) [] in
  run_writer n (mk_env true fmt sym rsym (redges T) []) (rkey T)
    = Ok {| r_text := tree_text el D eo T; r_visit := worder T; r_mtrace := [] |}
  /\ strip_bonding_descriptors fo (tree_text el D eo T) = Ok (tree_clean el eo T, dd, [], [])
  /\ smiles_parse (tree_clean el eo T) = Ok (tree_sgraph el eo T)
  /\ fragment_template fo F (tree_text el D eo T) = Ok (assemble F (tree_sgraph el eo T) dd []).
Proof.
  intros fo F el D eo T n fmt sym rsym ND Hn HU HD Hf Hs. cbv zeta.
  assert (HE : forall k, str_in (el k) organic_atoms = true) by (intros k; apply upper_is_organic, HU).
  set (vs := wvis eo None false 0 T). set (items := aitems el D vs).
  (* writer *)
  assert (Wr : run_writer n (mk_env true fmt sym rsym (redges T) []) (rkey T)
               = Ok {| r_text := tree_text el D eo T; r_visit := worder T; r_mtrace := [] |}).
  { rewrite (write_tree_transcript true fmt sym rsym (antext el D) (astext eo) T n ND Hn Hf Hs).
    unfold tree_text. rewrite (render_aitems el D HD), <- (wtext_vis el D eo). reflexivity. }
  (* strip *)
  assert (Wf : wf_items ZStart 0 items = true).
  { pose proof (wf_wvis el D eo HD HE T None false 0 ZStart []) as E. rewrite app_nil_r in E. unfold items, vs. rewrite E; [reflexivity|intros X; now elim X|reflexivity]. }
  destruct (spec_aitems el D HD fo vs sinit) as [sp' (Es & Nn & Dd & Ez & Ea)].
  assert (Ecl : s_clean sp' = tree_clean el eo T).
  { rewrite (spec_clean fo _ _ _ Es). cbn [sinit s_clean app]. rewrite (clean_simple _ (simple_aitems el D vs)), toks_aitems. reflexivity. }
  assert (Hvk : map (fun v => D (v_key v)) vs = map D (worder T)).
  { unfold vs. rewrite <- (vkeys_worder eo T None false 0), map_map. reflexivity. }
  assert (St : strip_bonding_descriptors fo (tree_text el D eo T) = Ok (tree_clean el eo T, ddl 0 (map D (worder T)) [], [], [])).
  { unfold tree_text. fold vs. fold items. rewrite (strip_items fo items Wf (nomult_simple el D vs)). unfold items. rewrite Es. cbn [bind].
    unfold FragProofs.sres. rewrite Ecl, Dd, Ez, Ea, Hvk. reflexivity. }
  (* pysmiles *)
  assert (Ws : wf_smiles (atoks el vs) = true).
  { unfold wf_smiles. rewrite <- toks_aitems with (D := D). apply wf_simple; [apply simple_aitems|exact Wf]. }
  assert (Sp : smiles_parse (tree_clean el eo T) = Ok (tree_sgraph el eo T)).
  { unfold tree_clean. fold vs. rewrite (render_parse false _ Ws). unfold graph_of, graph_base.
    pose proof (grun_wvis el eo (worder T) (worder_nodup T ND) T None false 0 ginit [] [] []) as G.
    rewrite !app_nil_r in G. fold vs in G. rewrite G; [|reflexivity|reflexivity|reflexivity|split; reflexivity].
    cbn [grun bind gafter q_atoms q_edges q_ez ginit app]. unfold interpret.
    rewrite (parse_atoms el HU). cbn [bind].
    pose proof (edge_orders el eo (pos (worder T)) (worder T) (wkeys None T)) as EO. unfold E3, bondstr in *. rewrite EO. reflexivity. }
  split; [exact Wr|]. split; [exact St|]. split; [exact Sp|].
  assert (NH : str_eqb (tree_clean el eo T) (S "H") = false) by (apply (clean_not_H _ Ws)).
  unfold fragment_template. rewrite St. cbn [bind]. cbv beta iota. rewrite NH, Sp. reflexivity.
Qed.

(** ------------------------------------------------------------------ the descriptor dict in closed form *)
(** {i: descriptors of the i-th written atom}, atoms without descriptors have no entry *)
Fixpoint dentries (n : nat) (Dl : list (list dspec)) : ndict (list pystr) :=
  match Dl with
  | [] => []
  | Ds :: r => (match Ds with [] => [] | _ => [(n, map d_stored Ds)] end) ++ dentries (Datatypes.S n) r
  end.
Lemma nd_append_fresh (n : nat) (x : pystr) : forall d : ndict (list pystr), (forall kv, In kv d -> fst kv <> n) -> nd_append n x d = d ++ [(n, [x])].
Proof.
  induction d as [|[k l] r IH]; intros H; [reflexivity|]. cbn [nd_append]. destruct (Nat.eqb_spec n k) as [E|N].
  - exfalso. apply (H (k, l)); [now left|now symmetry].
  - cbn [app]. f_equal. apply IH. intros kv Hin. apply H. now right.
Qed.
Lemma nd_append_last (n : nat) (x : pystr) : forall (d : ndict (list pystr)) l, (forall kv, In kv d -> fst kv <> n) -> nd_append n x (d ++ [(n, l)]) = d ++ [(n, l ++ [x])].
Proof.
  induction d as [|[k l0] r IH]; intros l H; cbn [app nd_append].
  - now rewrite Nat.eqb_refl.
  - destruct (Nat.eqb_spec n k) as [E|N]; [exfalso; apply (H (k, l0)); [now left|now symmetry]|]. f_equal. apply IH. intros kv Hin. apply H. now right.
Qed.
Lemma fold_append_fresh (n : nat) : forall (Ds : list dspec) (d : ndict (list pystr)), (forall kv, In kv d -> fst kv <> n) ->
  fold_left (fun d y => nd_append n (d_stored y) d) Ds d = d ++ match Ds with [] => [] | _ => [(n, map d_stored Ds)] end.
Proof.
  intros Ds d H. destruct Ds as [|x r]; [now rewrite app_nil_r|]. cbn [fold_left]. rewrite (nd_append_fresh n _ d H).
  assert (G : forall r acc, fold_left (fun d y => nd_append n (d_stored y) d) r (d ++ [(n, acc)]) = d ++ [(n, acc ++ map d_stored r)]).
  { clear x r. induction r as [|y r IH]; intros acc; cbn [fold_left map]; [now rewrite app_nil_r|].
    rewrite (nd_append_last n _ d acc H), IH. now rewrite <- app_assoc. }
  rewrite G. reflexivity.
Qed.
Lemma ddl_entries : forall Dl n (d : ndict (list pystr)), (forall kv, In kv d -> fst kv < n) -> ddl n Dl d = d ++ dentries n Dl.
Proof.
  induction Dl as [|Ds r IH]; intros n d H; [now rewrite app_nil_r|]. cbn [ddl dentries].
  rewrite fold_append_fresh by (intros kv Hin; specialize (H kv Hin); lia).
  rewrite IH; [now rewrite <- app_assoc|]. intros kv Hin. apply in_app_or in Hin as [Hin|Hin]; [specialize (H kv Hin); lia|].
  destruct Ds; [contradiction|]. destruct Hin as [<-|[]]. cbn [fst]. lia.
Qed.
Lemma nd_get_dentries : forall Dl n i,
  nd_get i (dentries n Dl) = if i <? n then None else match nth_error Dl (i - n) with Some (x :: xs) => Some (map d_stored (x :: xs)) | _ => None end.
Proof.
  induction Dl as [|Ds r IH]; intros n i.
  - cbn [dentries nd_get]. destruct (i <? n); [reflexivity|]. destruct (i - n); reflexivity.
  - cbn [dentries]. destruct (i <? n) eqn:Lt.
    + apply Nat.ltb_lt in Lt. destruct Ds as [|x xs]; cbn [app nd_get].
      * rewrite IH. assert (E : i <? Datatypes.S n = true) by (apply Nat.ltb_lt; lia). now rewrite E.
      * destruct (Nat.eqb_spec i n); [lia|]. rewrite IH. assert (E : i <? Datatypes.S n = true) by (apply Nat.ltb_lt; lia). now rewrite E.
    + apply Nat.ltb_ge in Lt. destruct (Nat.eq_dec i n) as [->|N].
      * rewrite Nat.sub_diag. cbn [nth_error]. destruct Ds as [|x xs]; cbn [app nd_get].
        -- rewrite IH. assert (E : n <? Datatypes.S n = true) by (apply Nat.ltb_lt; lia). now rewrite E.
        -- now rewrite Nat.eqb_refl.
      * assert (E : i <? Datatypes.S n = false) by (apply Nat.ltb_ge; lia).
        replace (i - n) with (Datatypes.S (i - Datatypes.S n)) by lia. cbn [nth_error].
        destruct Ds as [|x xs]; cbn [app nd_get]; [|destruct (Nat.eqb_spec i n); [lia|]]; rewrite IH, E; reflexivity.
Qed.

(** ------------------------------------------------------------------ the edges written are the tree edges *)
Lemma wkeys_perm : forall t p, Permutation (wkeys p t) ((match p with Some q => [(q, rkey t)] | None => [] end) ++ redges t).
Proof.
  apply (rtree_ind2 (fun t => forall p, Permutation (wkeys p t) ((match p with Some q => [(q, rkey t)] | None => [] end) ++ redges t))).
  intros k cs IH p. destruct cs as [|c1 bs]; [cbn [wkeys redges flat_map rkey]; now rewrite !app_nil_r|].
  rewrite wkeys_cons. cbn [rkey]. apply Permutation_app_head. cbn [redges flat_map].
  assert (B : forall l, Forall (fun t => forall p, Permutation (wkeys p t) ((match p with Some q => [(q, rkey t)] | None => [] end) ++ redges t)) l ->
              Permutation (wkeys_br k l) (flat_map (fun c => (k, rkey c) :: redges c) l)).
  { induction l as [|c r IHr]; intros Hl; [constructor|]. rewrite wkeys_br_cons. cbn [flat_map].
    eapply Permutation_trans; [apply Permutation_app_comm|]. apply Permutation_app; [exact (Forall_inv Hl (Some k))|exact (IHr (Forall_inv_tail Hl))]. }
  eapply Permutation_trans; [apply Permutation_app_comm|].
  change ((k, rkey c1) :: redges c1 ++ flat_map (fun c => (k, rkey c) :: redges c) bs) with (([(k, rkey c1)] ++ redges c1) ++ flat_map (fun c => (k, rkey c) :: redges c) bs).
  apply Permutation_app; [exact (Forall_inv IH (Some k))|exact (B bs (Forall_inv_tail IH))].
Qed.

(** ------------------------------------------------------------------ the template read back is the fragment, renumbered *)
(** the isomorphism is k |-> position of k in the order of writing: a bijection from the tree's nodes to 0..n-1
    ([worder] has no duplicates and is a permutation of the nodes); atom [pos k] of the template carries k's element
    (charge 0, not aromatic), the fragment's name, and exactly k's descriptors as `bonding`; the bonds of the template
    are exactly the tree edges with their orders (as a multiset) *)
Theorem atom_tree_template_iso : forall F el D eo T, NoDup (rkeys T) ->
  let W := worder T in
  let Tm := assemble F (tree_sgraph el eo T) (ddl 0 (map D W) []) [] in
  NoDup W /\ Permutation W (rkeys T) /\ length (t_nodes Tm) = length W
  /\ (forall k, In k (rkeys T) ->
        nth_error W (pos W k) = Some k
        /\ nth_error (t_nodes Tm) (pos W k)
           = Some (template_node F (atom_attrs (el k)) (match D k with [] => None | Ds => Some (map d_stored Ds) end) None))
  /\ Permutation (t_edges Tm) (map (fun e => (pos W (fst e), pos W (snd e), ordv (eo (fst e) (snd e)))) (redges T)).
Proof.
  intros F el D eo T ND. cbv zeta. split; [now apply worder_nodup|]. split; [apply worder_perm|].
  split; [unfold assemble, tree_sgraph; cbn [t_nodes g_nodes]; now rewrite map_length, combine_length, seq_length, !map_length, Nat.min_id|].
  split.
  - intros k Hk. assert (Hw : In k (worder T)) by (apply (Permutation_in k (Permutation_sym (worder_perm T))); exact Hk).
    pose proof (zidx_nth k (worder T) Hw) as Hn. split; [exact Hn|]. unfold pos.
    unfold assemble, tree_sgraph. cbn [t_nodes g_nodes].
    assert (Hb : nth_error (map (fun k0 => atom_attrs (el k0)) (worder T)) (zidx k (worder T)) = Some (atom_attrs (el k))) by (now rewrite (map_nth_error _ _ _ Hn)).
    rewrite nth_error_map, (nth_error_combine_seq _ 0 _ _ Hb). cbn [option_map fst snd Nat.add nd_get]. f_equal. f_equal.
    rewrite (ddl_entries (map D (worder T)) 0 []) by (intros kv []). cbn [app]. rewrite nd_get_dentries. cbn [Nat.ltb Nat.leb]. rewrite Nat.sub_0_r.
    rewrite (map_nth_error D _ _ Hn). destruct (D k); reflexivity.
  - unfold assemble, tree_sgraph. cbn [t_edges g_edges]. apply Permutation_map. exact (wkeys_perm T None).
Qed.

(** ------------------------------------------------------------------ graph level: write_graph(smiles_format=True) on a fragment graph *)
Local Open Scope Z_scope.
(** a node the writer writes as a bare organic-subset element followed by its descriptors *)
Definition atom_ok (dh : Z -> bool) (el : Z -> pystr) (D : Z -> list dspec) (n : nrec) : Prop :=
  aget (S "element") (na n) = Some (VStr (el (nk n)))
  /\ (aget (S "charge") (na n) = None \/ aget (S "charge") (na n) = Some (VInt 0))
  /\ (aget (S "hcount") (na n) = None \/ exists h, aget (S "hcount") (na n) = Some (VInt h))
  /\ (aget (S "aromatic") (na n) = None \/ aget (S "aromatic") (na n) = Some (VBool false))
  /\ aget (S "rs_isomer") (na n) = None /\ aget (S "isotope") (na n) = None /\ aget (S "class") (na n) = None
  /\ dh (nk n) = true
  /\ aget (S "bonding") (na n) = match D (nk n) with [] => None | Ds => Some (VList (map VStr (map d_stored Ds))) end.
(** the symbol of an edge, from its integer order *)
Definition eo_of (g : graph) (p k : Z) : option bsym :=
  match edge_attrs g p k with
  | Ok d => match aget (S "order") d with
            | Some (VInt 0) => Some BZero | Some (VInt 2) => Some BDouble | Some (VInt 3) => Some BTriple | Some (VInt 4) => Some BQuad
            | _ => None end
  | Err _ => None
  end.
Definition orders_ok (g : graph) : Prop :=
  forall n, In n g -> forall wa, In wa (nadj n) -> exists z, aget (S "order") (snd wa) = Some (VInt z) /\ 0 <= z <= 4.

Lemma adj_get_in v : forall l a, adj_get v l = Some a -> In (v, a) l.
Proof.
  induction l as [|[w b] r IH]; intros a H; [discriminate|]. cbn [adj_get] in H. destruct (Z.eqb_spec w v) as [->|N].
  - inversion H; subst. now left.
  - right. now apply IH.
Qed.
Lemma adj_get_some v : forall l, In v (map fst l) -> exists a, adj_get v l = Some a.
Proof.
  induction l as [|[w b] r IH]; intros H; [contradiction|]. cbn [adj_get]. destruct (Z.eqb_spec w v) as [->|N]; [eauto|].
  apply IH. destruct H as [E|H]; [cbn in E; contradiction|exact H].
Qed.

Section AtomGraph.
  Variables (dh : Z -> bool) (el : Z -> pystr) (D : Z -> list dspec) (g : graph).
  Hypothesis HU : forall k, str_in (el k) upper_organic = true.
  Hypothesis HD : forall k, forallb d_ok (D k) = true.
  Hypothesis Hnodes : forall n, In n g -> atom_ok dh el D n.
  Hypothesis Hord : orders_ok g.

  Lemma atom_node_text k : In k (node_keys g) -> node_text_by (S "atomname") true dh g k = Ok (el k ++ fbt (D k)).
  Proof.
    intros Hk. destruct (in_keys_gfind g k Hk) as [n [Hf Hn]]. destruct (gfind_some k g n Hf) as [_ Ek].
    destruct (Hnodes n Hn) as (A1 & A2 & A3 & A4 & A5 & A6 & A7 & A8 & A9). rewrite Ek in *.
    unfold node_text_by, format_atom, bonding_suffix, node_attrs. rewrite Hf. cbn [bind].
    rewrite A1. cbn [as_str bind].
    assert (Ec : match aget (S "charge") (na n) with Some v => as_int v | None => Ok 0 end = Ok 0) by (destruct A2 as [-> | ->]; reflexivity).
    rewrite Ec. cbn [bind].
    assert (Eh : exists h, match aget (S "hcount") (na n) with Some v => as_int v | None => Ok 0 end = Ok h) by (destruct A3 as [-> |[h ->]]; eexists; reflexivity).
    destruct Eh as [h Eh]. rewrite Eh. cbn [bind].
    assert (Ea : match aget (S "aromatic") (na n) with Some v => truthy v | None => false end = false) by (destruct A4 as [-> | ->]; reflexivity).
    rewrite Ea. unfold ahas. rewrite A5, A6, A7, A8. cbn [andb negb]. rewrite Z.eqb_refl. cbn [andb].
    assert (Eo : str_in (py_lower (el k)) (map S ["b"; "c"; "n"; "o"; "p"; "s"; "*"]%string) || str_in (el k) (map S ["F"; "Cl"; "Br"; "I"]%string) = true).
    { destruct (upper_cases (el k) (HU k)) as [->|[->|[->|[->|[->|[->|[->|[->|[->| ->]]]]]]]]]; vm_compute; reflexivity. }
    rewrite Eo. cbn [bind]. rewrite A9.
    destruct (D k) as [|d Ds] eqn:ED; [cbn [bind fbt fb_expected map concat]; now rewrite app_nil_r|]. rewrite <- ED.
    assert (Et : truthy (VList (map VStr (map d_stored (D k)))) = true) by (rewrite ED; reflexivity).
    rewrite Et. cbn [as_list bind]. rewrite strs_of_map. cbn [bind]. rewrite (fb_dspec (D k) (HD k)). reflexivity.
  Qed.
  Lemma atom_edge_text p k : In k (neighbors g p) -> edge_text g p k = Ok (optb (eo_of g p k)).
  Proof.
    intros Hk. unfold neighbors in Hk. destruct (gfind p g) as [n|] eqn:Hf; [|contradiction].
    destruct (gfind_some p g n Hf) as [Hn Ek]. destruct (adj_get_some k (nadj n) Hk) as [a Ha].
    destruct (Hord n Hn (k, a) (adj_get_in k _ a Ha)) as [z [Ez Hz]]. cbn [snd] in Ez.
    destruct (Hnodes n Hn) as (_ & _ & _ & A4 & _).
    assert (Ea : match aget (S "aromatic") (na n) with Some v => truthy v | None => false end = false) by (destruct A4 as [-> | ->]; reflexivity).
    unfold edge_text, write_edge_symbol, WriteImpl.edge_order, eo_of, edge_attrs, node_flag, node_attrs. rewrite Hf, Ha. cbn [bind]. rewrite Ez, Ea. cbn [bind andb orb].
    assert (C : z = 0 \/ z = 1 \/ z = 2 \/ z = 3 \/ z = 4) by lia.
    destruct C as [->|[->|[->|[->| ->]]]]; reflexivity.
  Qed.

  Theorem atom_tree_graph : forall fo F start,
    graph_wf g = true -> min_node g = Ok start ->
    exists T, rkey T = start /\ dfs_edges g start = Ok (redges T) /\ NoDup (rkeys T)
      /\ (forall x, reachable g start x -> In x (rkeys T))
      /\ (forall e, In e (redges T) -> In (snd e) (neighbors g (fst e)))
      /\ let eo := eo_of g in
         let dd := ddl 0 (map D (worder T)) [] in
         write_graph_full_by (S "atomname") true dh g [] = Ok {| r_text := tree_text el D eo T; r_visit := worder T; r_mtrace := [] |}
         /\ strip_bonding_descriptors fo (tree_text el D eo T) = Ok (tree_clean el eo T, dd, [], [])
         /\ smiles_parse (tree_clean el eo T) = Ok (tree_sgraph el eo T)
         /\ fragment_template fo F (tree_text el D eo T) = Ok (assemble F (tree_sgraph el eo T) dd []).
  Proof.
    intros fo F start Hwf Hmin.
    destruct (graph_wf_facts g Hwf) as [Hc Hnd]. destruct (min_node_in g start Hmin) as [Hs _].
    destruct (dfs_total g start Hc Hnd Hs) as [es Ees].
    destruct (dfs_reaches_all g start es Ees) as [T (A1 & A2 & A3 & A4 & A5)]. subst es.
    destruct (dfs_shape g start _ Ees) as [T' (B1 & B2 & _ & _ & B5 & _)].
    assert (Hedges : forall e, In e (redges T) -> In (snd e) (neighbors g (fst e))) by (intros e He; rewrite B2 in He; now apply B5).
    assert (Hkeys : forall k, In k (rkeys T) -> In k (node_keys g)).
    { intros k Hk. destruct T as [k0 cs]. cbn [rkey] in A1. subst k0. destruct Hk as [<-|Hk]; [assumption|].
      change (flat_map rkeys cs) with (tl (rkeys (RNode start cs))) in Hk. rewrite <- redges_snd in Hk.
      apply in_map_iff in Hk as [e [<- He]]. apply (Hc (fst e)). now apply Hedges. }
    exists T. split; [exact A1|]. split; [exact Ees|]. split; [exact A4|]. split; [exact A5|]. split; [exact Hedges|]. cbv zeta.
    assert (Hn : (rsize T <= length g)%nat).
    { pose proof (NoDup_incl_length A4 Hkeys) as Hl. unfold rsize, node_keys in *. now rewrite map_length in Hl. }
    destruct (atom_tree_transcript fo F el D (eo_of g) T (length g) (node_text_by (S "atomname") true dh g) (edge_text g) (edge_text g) A4 Hn HU HD) as (W1 & W2 & W3 & W4).
    - intros k Hk. apply atom_node_text. now apply Hkeys.
    - intros e He. apply atom_edge_text. now apply Hedges.
    - split; [|split; [exact W2|split; [exact W3|exact W4]]].
      unfold write_graph_full_by. rewrite Hmin. cbn [bind]. rewrite Ees. cbn [bind]. subst start. exact W1.
  Qed.
End AtomGraph.

(** ------------------------------------------------------------------ non-vacuity: C[$a](N(CF)C)=O[>] with a double bond on a branch edge *)
Definition mkag (nodes : list (Z * string * Z * list dspec)) (edges : list (Z * Z * Z)) : graph :=
  fold_left (fun g e => add_edge g (fst (fst e)) (snd (fst e)) [(S "order", VInt (snd e))]) edges
    (fold_left (fun g x => let '(k, e, h, Ds) := x in
                           add_node g k ([(S "element", VStr (S e)); (S "charge", VInt 0); (S "aromatic", VBool false); (S "fragname", VStr (S "X"));
                                          (S "hcount", VInt h)]
                                         ++ match Ds with [] => [] | _ => [(S "bonding", VList (map VStr (map d_stored Ds)))] end))
               nodes gempty).
Definition ex_ag : graph :=
  mkag [(0, "C", 1, [("$"%char, S "a", 1%nat)]); (1, "O", 0, [(">"%char, [], 1%nat)]); (2, "N", 0, []); (3, "C", 3, []); (4, "C", 2, []); (5, "F", 0, []);
        (6, "Cl", 0, [("<"%char, S "x", 2%nat); ("!"%char, [], 0%nat)])]%string
       [(0, 1, 2); (0, 2, 1); (2, 3, 1); (2, 4, 1); (4, 5, 1); (3, 6, 3)].
Definition ex_ael (k : Z) : pystr :=
  if Z.eqb k 1 then S "O" else if Z.eqb k 2 then S "N" else if Z.eqb k 5 then S "F" else if Z.eqb k 6 then S "Cl" else S "C".
Definition ex_aD (k : Z) : list dspec :=
  if Z.eqb k 0 then [("$"%char, S "a", 1%nat)] else if Z.eqb k 1 then [(">"%char, [], 1%nat)]
  else if Z.eqb k 6 then [("<"%char, S "x", 2%nat); ("!"%char, [], 0%nat)] else [].
Definition ex_aT : rtree := RNode 0 [RNode 1 []; RNode 2 [RNode 3 [RNode 6 []]; RNode 4 [RNode 5 []]]].
Fixpoint strs_eqb (l : list pyval) (m : list pystr) : bool :=
  match l, m with
  | [], [] => true
  | VStr a :: l', b :: m' => str_eqb a b && strs_eqb l' m'
  | _, _ => false
  end.
Lemma strs_eqb_eq : forall l m, strs_eqb l m = true -> l = map VStr m.
Proof.
  induction l as [|v l IH]; intros [|b m] H; try discriminate; [reflexivity| |]; cbn [strs_eqb] in H.
  - destruct v; discriminate.
  - destruct v; try discriminate. apply andb_prop in H as [H1 H2]. apply str_eqb_eq in H1. subst. cbn [map]. f_equal. now apply IH.
Qed.
(** [atom_ok], decided *)
Definition atom_ok_b (dh : Z -> bool) (el : Z -> pystr) (D : Z -> list dspec) (n : nrec) : bool :=
  match aget (S "element") (na n) with Some (VStr e) => str_eqb e (el (nk n)) | _ => false end
  && match aget (S "charge") (na n) with None => true | Some (VInt 0) => true | _ => false end
  && match aget (S "hcount") (na n) with None => true | Some (VInt _) => true | _ => false end
  && match aget (S "aromatic") (na n) with None => true | Some (VBool false) => true | _ => false end
  && negb (ahas (S "rs_isomer") (na n)) && negb (ahas (S "isotope") (na n)) && negb (ahas (S "class") (na n))
  && dh (nk n)
  && match aget (S "bonding") (na n), D (nk n) with
     | None, [] => true
     | Some (VList l), (x :: xs) => strs_eqb l (map d_stored (x :: xs))
     | _, _ => false
     end.
Lemma atom_ok_dec dh el D n : atom_ok_b dh el D n = true -> atom_ok dh el D n.
Proof.
  unfold atom_ok_b, atom_ok. intros H. repeat (apply andb_prop in H; destruct H as [H ?]).
  repeat split.
  - destruct (aget (S "element") (na n)) as [[| | | |e| | |]|]; try discriminate H. apply str_eqb_eq in H. now subst e.
  - destruct (aget (S "charge") (na n)) as [[| |z| | | | |]|]; try discriminate; [|now left]. destruct z; try discriminate. now right.
  - destruct (aget (S "hcount") (na n)) as [[| |z| | | | |]|]; try discriminate; [right; eauto|now left].
  - destruct (aget (S "aromatic") (na n)) as [[|[]| | | | | |]|]; try discriminate; [now right|now left].
  - unfold ahas in *. destruct (aget (S "rs_isomer") (na n)); [discriminate|reflexivity].
  - unfold ahas in *. destruct (aget (S "isotope") (na n)); [discriminate|reflexivity].
  - unfold ahas in *. destruct (aget (S "class") (na n)); [discriminate|reflexivity].
  - assumption.
  - destruct (aget (S "bonding") (na n)) as [[| | | | |l| |]|], (D (nk n)) as [|x xs]; try discriminate; [|reflexivity].
    f_equal. f_equal. now apply strs_eqb_eq.
Qed.
Example atom_tree_example :
  let fo : float_oracle := fun _ => None in
  let dh := fun _ : Z => true in
  graph_wf ex_ag = true /\ min_node ex_ag = Ok 0 /\ ring_contract ex_ag (dfs_tree ex_ag) [] = true
  /\ forallb (atom_ok_b dh ex_ael ex_aD) ex_ag = true
  /\ dfs_edges ex_ag 0 = Ok (redges ex_aT)
  /\ write_graph_by (S "atomname") true dh ex_ag [] = Ok (S "C[$a](N(CF)C#Cl=[<x].[!])=O[>]")
  /\ tree_text ex_ael ex_aD (eo_of ex_ag) ex_aT = S "C[$a](N(CF)C#Cl=[<x].[!])=O[>]"
  /\ tree_clean ex_ael (eo_of ex_ag) ex_aT = S "C(N(CF)C#Cl)=O"
  /\ match fragment_template fo (S "X") (S "C[$a](N(CF)C#Cl=[<x].[!])=O[>]") with
     | Ok Tm => map (fun a => (aget (S "element") a, aget (S "bonding") a)) (t_nodes Tm)
                = [(Some (VStr (S "C")), Some (VList [VStr (S "$a1")])); (Some (VStr (S "N")), None); (Some (VStr (S "C")), None); (Some (VStr (S "F")), None);
                   (Some (VStr (S "C")), None); (Some (VStr (S "Cl")), Some (VList [VStr (S "<x2"); VStr (S "!0")])); (Some (VStr (S "O")), Some (VList [VStr (S ">1")]))]
                /\ t_edges Tm = [(0, 1, VInt 1); (1, 2, VInt 1); (2, 3, VInt 1); (1, 4, VInt 1); (4, 5, VInt 3); (0, 6, VInt 2)]%nat
     | Err _ => False
     end.
Proof. cbv zeta. do 8 (split; [vm_compute; reflexivity|]). vm_compute. split; reflexivity. Qed.
