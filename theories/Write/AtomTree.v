(** AtomTree: C08 for ALL-ATOM fragments, ring-free, unbounded.
    write_graph(smiles_format=True) on a tree-shaped fragment whose atoms come from the finite attribute domain
    [aspec_ok] (element B C N O P S F Cl Br I, 0..9 hydrogens, charge -3..3, not aromatic, no isotope / class / stereo;
    written by pysmiles' format_atom bare when the charge is 0 and has_default_h_count holds, else as a bracket atom
    [E Hn charge]) with their bonding descriptors writes a text that (i) the strip model splits into the SMILES text, the
    dict {i: descriptors of the i-th written atom} and the (empty) annotations of the bracket atoms (the strip component's
    main lemma), (ii) Frag's model of pysmiles (tokenizer + base_smiles_parser + parse_atom + bond orders;
    [SmilesProofs.render_parse]) reads as the graph with atom i = the i-th written atom and one bond per tree edge with
    the order of its symbol, so that (iii) the model of fragment_iter(all_atom=True) up to pysmiles' hydrogen completion
    ([Template.fragment_template]) returns the fragment renumbered in the order of writing: elements, charges, hydrogen
    counts of bracket atoms, aromatic flags, bond orders, and every descriptor on the atom it was attached to.
    [parse_atom] (a backtracking regex engine in the model) on the 1400 atom texts of the domain is decided by
    computation ([aspec_table]); everything else is by induction over the tree. *)
From Coq Require Import String.
From Coq Require Import List Ascii ZArith Bool Lia Permutation.
From CGV Require Import Base.PyBase Base.PyVal Base.PyGen Base.NxGraph Gen.WriterGen Gen.SmilesGen Dialect.DialectImpl.
From CGV Require Import Write.WriteImpl Write.WriteDefs Write.FormatBondingSpec Write.FormatStripRound Write.CoarseChain
     Write.TreeDefs Write.TreeWrite Write.TreeTables Write.TreeRound Write.WfFacts Write.ConnFacts Write.DfsProofs Write.RingClose Write.ContractBridge Write.CoarseGraph.
From CGV Require Import Frag.NDict Frag.StripImpl Frag.FragText Frag.FragProofs Frag.SmilesParse Frag.SmilesSpec Frag.SmilesProofs
     Frag.Template Frag.TemplateProofs.
Import ListNotations.
Local Open Scope nat_scope.

(** ------------------------------------------------------------------ the visits of the writer, flat *)
(** one node as it is written: "(" before it?, the symbol of the edge it was reached by, its key, ")" behind it? *)
Record vis := { v_open : bool; v_sym : option bsym; v_key : Z; v_close : bool }.

(** the token an atom is written as: a bare organic-subset element or a bracket atom without annotation *)
Definition atom_tok (t : tok) : bool :=
  match t with TAtom e => str_in e organic_atoms | TBracket body None => body_ok body | _ => false end.
Definition is_bracket (t : tok) : bool := match t with TBracket _ _ => true | _ => false end.
Lemma atom_tok_ok t : atom_tok t = true -> tok_ok t = true.
Proof. destruct t as [e|body [a|]| | | | | |]; try discriminate; cbn [atom_tok tok_ok annot_ok]; intros H; [exact H|now rewrite H]. Qed.
Lemma atom_tok_wf t z dd r : atom_tok t = true -> wf_items z dd (ITok t :: r) = wf_items ZAtom dd r.
Proof. intros H. cbn [wf_items]. rewrite (atom_tok_ok t H). destruct t as [e|body [a|]| | | | | |]; try discriminate; reflexivity. Qed.
Lemma atom_tok_gstep ks g t : atom_tok t = true -> gstep ks g t = Ok (add_atom g (clean_tok t)).
Proof. destruct t as [e|body [a|]| | | | | |]; try discriminate; reflexivity. Qed.
Lemma body_ok_rbr body : body_ok body = true -> forallb (fun c => negb (is_rbr c)) body = true.
Proof.
  unfold body_ok. intros H. apply andb_prop in H as [H _]. rewrite forallb_forall in *. intros c Hc. specialize (H c Hc). now apply andb_prop in H as [H _].
Qed.

Section Atoms.
  Variable at_ : Z -> tok.                        (* the token written for a node *)
  Variable D : Z -> list dspec.                   (* its bonding descriptors *)
  Variable eo : Z -> Z -> option bsym.            (* the symbol written for a tree edge (None: single bond) *)

  Definition psym (p : option Z) (k : Z) : option bsym := match p with Some q => eo q k | None => None end.
  Fixpoint wvis (p : option Z) (isb : bool) (d : nat) (t : rtree) : list vis :=
    match t with
    | RNode k cs =>
        let d1 := if isb then Datatypes.S d else d in
        match cs with
        | [] => [{| v_open := isb; v_sym := psym p k; v_key := k; v_close := (0 <? d1) |}]
        | c1 :: bs =>
            {| v_open := isb; v_sym := psym p k; v_key := k; v_close := false |}
            :: (fix br (l : list rtree) : list vis := match l with [] => [] | c :: r => br r ++ wvis (Some k) true d1 c end) bs
            ++ wvis (Some k) false d1 c1
        end
    end.
  Definition wvis_br (k : Z) (d1 : nat) (bs : list rtree) : list vis :=
    (fix br (l : list rtree) : list vis := match l with [] => [] | c :: r => br r ++ wvis (Some k) true d1 c end) bs.
  Lemma wvis_cons p isb d k c1 bs :
    wvis p isb d (RNode k (c1 :: bs))
    = {| v_open := isb; v_sym := psym p k; v_key := k; v_close := false |}
      :: wvis_br k (if isb then Datatypes.S d else d) bs ++ wvis (Some k) false (if isb then Datatypes.S d else d) c1.
  Proof. reflexivity. Qed.
  Lemma wvis_br_cons k d1 c r : wvis_br k d1 (c :: r) = wvis_br k d1 r ++ wvis (Some k) true d1 c.
  Proof. reflexivity. Qed.

  Definition obtoks (o : option bsym) : list ditem := match o with Some b => [ITok (TBond b)] | None => [] end.
  Definition vitems (v : vis) : list ditem :=
    (if v_open v then [ITok TOpen] else []) ++ obtoks (v_sym v)
    ++ ITok (at_ (v_key v)) :: map IDesc (map to_desc (D (v_key v)))
    ++ (if v_close v then [ITok TClose] else []).
  Definition vtext (v : vis) : pystr :=
    (if v_open v then S "(" else []) ++ optb (v_sym v) ++ (render_tok (at_ (v_key v)) ++ fbt (D (v_key v))) ++ (if v_close v then S ")" else []).
  Definition aitems (vs : list vis) : list ditem := flat_map vitems vs.

  (** the writer's text is the text of the visits *)
  Definition antext (k : Z) : pystr := render_tok (at_ k) ++ fbt (D k).
  Definition astext (p k : Z) : pystr := optb (eo p k).
  Lemma wtext_vis : forall t p isb d, wtext true antext astext p isb d t = flat_map vtext (wvis p isb d t).
  Proof.
    apply (rtree_ind2 (fun t => forall p isb d, wtext true antext astext p isb d t = flat_map vtext (wvis p isb d t))).
    intros k cs IH p isb d. destruct cs as [|c1 bs].
    - cbn [wtext wvis flat_map]. rewrite app_nil_r. unfold whead, vtext. cbn [v_open v_sym v_key v_close].
      rewrite andb_true_r, andb_false_r. cbn [app]. unfold antext, astext, psym. destruct p; rewrite <- ?app_assoc; reflexivity.
    - rewrite wvis_cons. cbn [flat_map]. rewrite flat_map_app.
      change (wtext true antext astext p isb d (RNode k (c1 :: bs)))
        with (whead true antext astext p isb k ++ wbranches true antext astext k (if isb then Datatypes.S d else d) bs
              ++ wtext true antext astext (Some k) false (if isb then Datatypes.S d else d) c1).
      set (d1 := if isb then Datatypes.S d else d).
      assert (B : forall l, Forall (fun t => forall p isb d, wtext true antext astext p isb d t = flat_map vtext (wvis p isb d t)) l ->
                  wbranches true antext astext k d1 l = flat_map vtext (wvis_br k d1 l)).
      { induction l as [|c r IHr]; intros Hl; [reflexivity|]. rewrite wvis_br_cons, flat_map_app.
        change (wbranches true antext astext k d1 (c :: r)) with (wbranches true antext astext k d1 r ++ wtext true antext astext (Some k) true d1 c).
        rewrite (IHr (Forall_inv_tail Hl)), (Forall_inv Hl). reflexivity. }
      rewrite (B bs (Forall_inv_tail IH)), (Forall_inv IH). f_equal.
      unfold whead, vtext. cbn [v_open v_sym v_key v_close]. rewrite andb_true_r, andb_false_r. cbn [app]. rewrite app_nil_r.
      unfold antext, astext, psym. destruct p; rewrite <- ?app_assoc; reflexivity.
  Qed.
  Lemma vkeys_worder : forall t p isb d, map v_key (wvis p isb d t) = worder t.
  Proof.
    apply (rtree_ind2 (fun t => forall p isb d, map v_key (wvis p isb d t) = worder t)).
    intros k cs IH p isb d. destruct cs as [|c1 bs]; [reflexivity|].
    rewrite wvis_cons, worder_cons. cbn [map v_key]. f_equal. rewrite map_app. set (d1 := if isb then Datatypes.S d else d).
    assert (B : forall l, Forall (fun t => forall p isb d, map v_key (wvis p isb d t) = worder t) l -> map v_key (wvis_br k d1 l) = worder_branches l).
    { induction l as [|c r IHr]; intros Hl; [reflexivity|]. rewrite wvis_br_cons, worder_branches_cons, map_app.
      now rewrite (IHr (Forall_inv_tail Hl)), (Forall_inv Hl). }
    now rewrite (B bs (Forall_inv_tail IH)), (Forall_inv IH).
  Qed.

  Hypothesis HD : forall k, forallb d_ok (D k) = true.
  Hypothesis HA : forall k, atom_tok (at_ k) = true.
  Lemma render_obtoks o : render (obtoks o) = optb o.
  Proof. destruct o; reflexivity. Qed.
  Lemma render_vitems v : render (vitems v) = vtext v.
  Proof.
    unfold vitems, vtext. rewrite !render_app, render_obtoks, render_cons, render_app.
    assert (Ed : render (map IDesc (map to_desc (D (v_key v)))) = fbt (D (v_key v))) by (unfold render; apply render_descs; apply HD).
    rewrite Ed. cbn [render_item]. destruct (v_open v), (v_close v); cbn [render_tok app]; rewrite <- ?app_assoc; reflexivity.
  Qed.
  Lemma render_aitems vs : render (aitems vs) = flat_map vtext vs.
  Proof.
    induction vs as [|v r IH]; [reflexivity|]. unfold aitems. cbn [flat_map]. fold (aitems r). now rewrite render_app, render_vitems, IH.
  Qed.

  (** ---------------------------------------------------------------- the tokens pysmiles is given *)
  Definition toks_of (items : list ditem) : list tok := flat_map (fun i => match i with ITok t => [t] | _ => [] end) items.
  Lemma toks_of_app a b : toks_of (a ++ b) = toks_of a ++ toks_of b.
  Proof. apply flat_map_app. Qed.
  Definition vtoks (v : vis) : list tok :=
    (if v_open v then [TOpen] else []) ++ (match v_sym v with Some b => [TBond b] | None => [] end)
    ++ at_ (v_key v) :: (if v_close v then [TClose] else []).
  Lemma toks_descs Ds : toks_of (map IDesc (map to_desc Ds)) = [].
  Proof. induction Ds as [|x r IH]; [reflexivity|exact IH]. Qed.
  Lemma toks_vitems v : toks_of (vitems v) = vtoks v.
  Proof.
    unfold vitems, vtoks. rewrite !toks_of_app. f_equal; [destruct (v_open v); reflexivity|]. f_equal; [destruct (v_sym v); reflexivity|].
    change (ITok (at_ (v_key v)) :: map IDesc (map to_desc (D (v_key v))) ++ (if v_close v then [ITok TClose] else []))
      with ([ITok (at_ (v_key v))] ++ map IDesc (map to_desc (D (v_key v))) ++ (if v_close v then [ITok TClose] else [])).
    rewrite !toks_of_app, toks_descs. cbn [app]. destruct (v_close v); reflexivity.
  Qed.
  Definition atoks (vs : list vis) : list tok := flat_map vtoks vs.
  Lemma toks_aitems vs : toks_of (aitems vs) = atoks vs.
  Proof. induction vs as [|v r IH]; [reflexivity|]. unfold aitems, atoks. cbn [flat_map]. fold (aitems r). fold (atoks r). now rewrite toks_of_app, toks_vitems, IH. Qed.
  Definition item_simple (i : ditem) : bool :=
    match i with IDesc _ => true | ITok (TAtom _) | ITok (TBracket _ None) | ITok (TBond _) | ITok TOpen | ITok TClose => true | _ => false end.
  Lemma simple_aitems vs : forallb item_simple (aitems vs) = true.
  Proof.
    induction vs as [|v r IH]; [reflexivity|]. unfold aitems. cbn [flat_map]. fold (aitems r). rewrite forallb_app, IH, andb_true_r.
    unfold vitems. rewrite !forallb_app. cbn [forallb]. rewrite forallb_app.
    assert (E : forallb item_simple (map IDesc (map to_desc (D (v_key v)))) = true) by (induction (D (v_key v)); [reflexivity|assumption]).
    rewrite E. assert (Ea : item_simple (ITok (at_ (v_key v))) = true) by (pose proof (HA (v_key v)) as Hk; destruct (at_ (v_key v)) as [e|body [a|]| | | | | |]; try discriminate; reflexivity).
    rewrite Ea. destruct (v_open v), (v_sym v), (v_close v); reflexivity.
  Qed.
  Lemma clean_simple : forall items, forallb item_simple items = true ->
    flat_map (fun i => match i with ITok t => clean_tok t | _ => [] end) items = render_smiles false (toks_of items).
  Proof.
    induction items as [|i r IH]; intros H; [reflexivity|]. cbn [forallb] in H. apply andb_prop in H as [H1 H2].
    cbn [flat_map]. rewrite (IH H2). destruct i as [d|t|d]; [discriminate| |reflexivity].
    destruct t as [e|body [a|]| | | | | |]; try discriminate; reflexivity.
  Qed.
  Lemma wf_simple : forall items z d, forallb item_simple items = true -> wf_items z d items = true -> wf_toks z d (toks_of items) = true.
  Proof.
    induction items as [|i r IH]; intros z d H W; [exact W|]. cbn [forallb] in H. apply andb_prop in H as [H1 H2].
    destruct i as [x|t|x]; [discriminate| |].
    - cbn [wf_items] in W. apply andb_prop in W as [Wt W]. destruct t as [e|body [a|]| | | | | |]; try discriminate H1; cbn [toks_of flat_map app wf_toks tok_smiles_ok]; fold (toks_of r).
      + cbn [tok_ok] in Wt. rewrite Wt. cbn [andb]. now apply IH.
      + cbn [tok_ok] in Wt. apply andb_prop in Wt as [Wb _]. rewrite (body_ok_rbr _ Wb). cbn [andb]. now apply IH.
      + cbn [andb]. destruct z; try discriminate W; now apply IH.
      + apply andb_prop in W as [Wz W]. rewrite Wz. cbn [andb]. now apply IH.
      + apply andb_prop in W as [Wz W]. rewrite Wz. cbn [andb]. destruct d; [discriminate|]. now apply IH.
    - cbn [wf_items] in W. apply andb_prop in W as [W W3]. apply andb_prop in W as [Wz _]. destruct z; try discriminate Wz.
      cbn [toks_of flat_map app]. fold (toks_of r). now apply IH.
  Qed.

  (** ---------------------------------------------------------------- the strip specification on the visits *)
  Variable fo : float_oracle.
  Variable a0 : attrs.
  Hypothesis Hp0 : fragment_node_parser fo [] = Ok a0.
  (** the annotation dict: every bracket atom gets the parse of its (empty) annotation *)
  Fixpoint annl (n : nat) (fl : list bool) (d : ndict attrs) : ndict attrs :=
    match fl with [] => d | b :: r => annl (Datatypes.S n) r (if b then nd_update n a0 d else d) end.
  Fixpoint ddl (n : nat) (Dl : list (list dspec)) (d : ndict (list pystr)) : ndict (list pystr) :=
    match Dl with [] => d | Ds :: r => ddl (Datatypes.S n) r (fold_left (fun d y => nd_append n (d_stored y) d) Ds d) end.
  Lemma spec_vitems v sp : exists sp', spec_run fo sp (vitems v) = Ok sp'
    /\ s_n sp' = Datatypes.S (s_n sp) /\ s_desc sp' = fold_left (fun d y => nd_append (s_n sp) (d_stored y) d) (D (v_key v)) (s_desc sp)
    /\ s_ez sp' = s_ez sp /\ s_ann sp' = (if is_bracket (at_ (v_key v)) then nd_update (s_n sp) a0 (s_ann sp) else s_ann sp).
  Proof.
    unfold vitems.
    assert (A1 : exists sp1, spec_run fo sp (if v_open v then [ITok TOpen] else []) = Ok sp1
                   /\ s_n sp1 = s_n sp /\ s_desc sp1 = s_desc sp /\ s_ez sp1 = s_ez sp /\ s_ann sp1 = s_ann sp)
      by (destruct (v_open v); eexists; (split; [reflexivity|repeat split])).
    destruct A1 as [sp1 (E1 & N1 & D1 & Z1 & A1)]. rewrite spec_run_app, E1. cbn [bind].
    assert (A2 : exists sp2, spec_run fo sp1 (obtoks (v_sym v)) = Ok sp2
                   /\ s_n sp2 = s_n sp1 /\ s_desc sp2 = s_desc sp1 /\ s_ez sp2 = s_ez sp1 /\ s_ann sp2 = s_ann sp1)
      by (destruct (v_sym v); eexists; (split; [reflexivity|repeat split])).
    destruct A2 as [sp2 (E2 & N2 & D2 & Z2 & A2)]. rewrite spec_run_app, E2. cbn [bind].
    pose proof (HA (v_key v)) as Hk.
    destruct (at_ (v_key v)) as [e|body [a|]| | | | | |]; try discriminate Hk; cbn [spec_run spec_item spec_tok bind is_bracket]; rewrite ?Hp0; cbn [bind];
      rewrite spec_run_app, (spec_descs fo _ (D (v_key v)) (HD (v_key v))); cbn [bind s_n s_owner s_stack s_clean s_desc s_ez s_ann];
      destruct (v_close v); eexists; (split; [reflexivity|]); cbn [s_n s_desc s_ez s_ann]; rewrite N2, N1, D2, D1, Z2, Z1, A2, A1; repeat split.
  Qed.
  Lemma spec_aitems : forall vs sp, exists sp', spec_run fo sp (aitems vs) = Ok sp'
    /\ s_n sp' = s_n sp + length vs /\ s_desc sp' = ddl (s_n sp) (map (fun v => D (v_key v)) vs) (s_desc sp)
    /\ s_ez sp' = s_ez sp /\ s_ann sp' = annl (s_n sp) (map (fun v => is_bracket (at_ (v_key v))) vs) (s_ann sp).
  Proof.
    induction vs as [|v r IH]; intros sp.
    - exists sp. split; [reflexivity|]. cbn [length map ddl annl]. rewrite Nat.add_0_r. repeat split.
    - unfold aitems. cbn [flat_map]. fold (aitems r). rewrite spec_run_app.
      destruct (spec_vitems v sp) as [sp1 (E1 & N1 & D1 & Z1 & A1)]. rewrite E1. cbn [bind].
      destruct (IH sp1) as [sp' (E & N & Dd & Z & A)]. exists sp'. split; [exact E|]. rewrite N, Dd, Z, A, N1, D1, Z1, A1.
      cbn [length map ddl annl]. repeat split. lia.
  Qed.

  (** ---------------------------------------------------------------- the visits are a text of the strip grammar *)
  Lemma wf_vitems v z depth rest :
    (if v_open v then z = ZAtom else match v_sym v with Some _ => z = ZAtom | None => True end) ->
    wf_items z depth (vitems v ++ rest)
    = (let d1 := if v_open v then Datatypes.S depth else depth in
       if v_close v then match d1 with O => false | Datatypes.S d2 => wf_items ZAtom d2 rest end else wf_items ZAtom d1 rest).
  Proof.
    intros Hz. unfold vitems. rewrite <- !app_assoc. cbv zeta. rewrite <- app_comm_cons, <- !app_assoc.
    remember (ITok (at_ (v_key v)) :: map IDesc (map to_desc (D (v_key v))) ++ (if v_close v then [ITok TClose] else []) ++ rest) as tail eqn:Et.
    assert (T : forall z' dd, wf_items z' dd tail
                = if v_close v then match dd with O => false | Datatypes.S d2 => wf_items ZAtom d2 rest end else wf_items ZAtom dd rest).
    { intros z' dd. rewrite Et. rewrite (atom_tok_wf _ z' dd _ (HA (v_key v))). rewrite wf_descs by apply HD.
      destruct (v_close v); [|reflexivity]. cbn [app wf_items tok_ok is_zatom andb]. reflexivity. }
    clear Et.
    destruct (v_open v).
    - subst z. cbn [app wf_items tok_ok is_zatom andb]. destruct (v_sym v); cbn [obtoks app wf_items tok_ok andb]; apply T.
    - cbn [app]. destruct (v_sym v); cbn [obtoks app wf_items tok_ok andb]; [subst z|]; apply T.
  Qed.
  Lemma wf_wvis : forall t p isb d z rest, (p <> None -> z = ZAtom) -> (p = None -> isb = false) ->
    wf_items z d (aitems (wvis p isb d t) ++ rest) = wf_items ZAtom (dout isb d) rest.
  Proof.
    apply (rtree_ind2 (fun t => forall p isb d z rest, (p <> None -> z = ZAtom) -> (p = None -> isb = false) ->
             wf_items z d (aitems (wvis p isb d t) ++ rest) = wf_items ZAtom (dout isb d) rest)).
    intros k cs IH p isb d z rest Hz Hp.
    assert (Hv : forall cl, let v := {| v_open := isb; v_sym := psym p k; v_key := k; v_close := cl |} in
                 if v_open v then z = ZAtom else match v_sym v with Some _ => z = ZAtom | None => True end).
    { intros cl. cbn [v_open v_sym]. destruct p as [q|]; [rewrite Hz by discriminate; destruct isb; [reflexivity|destruct (psym (Some q) k); [reflexivity|exact Logic.I]]|].
      rewrite (Hp eq_refl). exact Logic.I. }
    destruct cs as [|c1 bs].
    - cbn [wvis]. unfold aitems. cbn [flat_map]. rewrite app_nil_r, (wf_vitems _ z d rest (Hv _)). cbn [v_open v_close]. unfold dout.
      destruct isb; cbn [Nat.ltb Nat.leb]; [reflexivity|]. destruct d as [|d']; cbn [Nat.ltb Nat.leb]; [reflexivity|]. now replace (Datatypes.S d' - 1) with d' by lia.
    - rewrite wvis_cons. set (d1 := if isb then Datatypes.S d else d). unfold aitems. cbn [flat_map]. rewrite flat_map_app.
      fold (aitems (wvis_br k d1 bs)). fold (aitems (wvis (Some k) false d1 c1)). rewrite <- !app_assoc.
      rewrite (wf_vitems _ z d _ (Hv false)). cbn [v_open v_close]. fold d1.
      assert (B : forall l rest', Forall (fun t => forall p isb d z rest, (p <> None -> z = ZAtom) -> (p = None -> isb = false) ->
                      wf_items z d (aitems (wvis p isb d t) ++ rest) = wf_items ZAtom (dout isb d) rest) l ->
                  wf_items ZAtom d1 (aitems (wvis_br k d1 l) ++ rest') = wf_items ZAtom d1 rest').
      { induction l as [|c r IHr]; intros rest' Hl; [reflexivity|]. rewrite wvis_br_cons. unfold aitems. rewrite flat_map_app.
        fold (aitems (wvis_br k d1 r)). fold (aitems (wvis (Some k) true d1 c)). rewrite <- app_assoc, (IHr _ (Forall_inv_tail Hl)).
        rewrite (Forall_inv Hl (Some k) true d1 ZAtom rest') by (intros; try reflexivity; discriminate). reflexivity. }
      rewrite (B bs _ (Forall_inv_tail IH)), (Forall_inv IH (Some k) false d1 ZAtom rest) by (intros; try reflexivity; discriminate).
      unfold dout, d1. destruct isb; [now replace (Datatypes.S d - 1) with d by lia|reflexivity].
  Qed.
End Atoms.

(** ------------------------------------------------------------------ what pysmiles' parser model builds from the visits *)
Fixpoint zidx (k : Z) (l : list Z) : nat := match l with [] => 0 | x :: r => if Z.eqb x k then 0 else Datatypes.S (zidx k r) end.
Lemma zidx_app k : forall pre post, ~ In k pre -> zidx k (pre ++ k :: post) = length pre.
Proof.
  induction pre as [|x pre IH]; intros post H; cbn [app zidx length].
  - now rewrite Z.eqb_refl.
  - destruct (Z.eqb_spec x k) as [->|N]; [exfalso; apply H; now left|]. f_equal. apply IH. intros Hin. apply H. now right.
Qed.
Lemma zidx_nth k : forall l, In k l -> nth_error l (zidx k l) = Some k.
Proof.
  induction l as [|x l IH]; intros H; [contradiction|]. cbn [zidx]. destruct (Z.eqb_spec x k) as [->|N]; [reflexivity|].
  cbn [nth_error]. apply IH. destruct H as [E|H]; [contradiction|exact H].
Qed.
Lemma gst_eq a1 e1 c1 n1 p1 s1 o1 z1 a2 e2 c2 n2 p2 s2 o2 z2 :
  a1 = a2 -> e1 = e2 -> c1 = c2 -> n1 = n2 -> p1 = p2 -> s1 = s2 -> o1 = o2 -> z1 = z2 ->
  {| q_atoms := a1; q_edges := e1; q_cur := c1; q_n := n1; q_pend := p1; q_stack := s1; q_open := o1; q_ez := z1 |}
  = {| q_atoms := a2; q_edges := e2; q_cur := c2; q_n := n2; q_pend := p2; q_stack := s2; q_open := o2; q_ez := z2 |}.
Proof. intros; subst; reflexivity. Qed.
Lemma grun_app ks a : forall g b, grun ks g (a ++ b) = (g' <- grun ks g a ;; grun ks g' b).
Proof. induction a as [|t a IH]; intros g b; [reflexivity|]. cbn [app grun]. destruct (gstep ks g t); cbn [bind]; [apply IH|reflexivity]. Qed.

(** the tree edges in the order of writing *)
Fixpoint wkeys (p : option Z) (t : rtree) : list (Z * Z) :=
  match t with
  | RNode k cs =>
      (match p with Some q => [(q, k)] | None => [] end)
      ++ match cs with
         | [] => []
         | c1 :: bs => (fix br (l : list rtree) : list (Z * Z) := match l with [] => [] | c :: r => br r ++ wkeys (Some k) c end) bs
                       ++ wkeys (Some k) c1
         end
  end.
Definition wkeys_br (k : Z) (bs : list rtree) : list (Z * Z) :=
  (fix br (l : list rtree) : list (Z * Z) := match l with [] => [] | c :: r => br r ++ wkeys (Some k) c end) bs.
Lemma wkeys_cons p k c1 bs : wkeys p (RNode k (c1 :: bs)) = (match p with Some q => [(q, k)] | None => [] end) ++ wkeys_br k bs ++ wkeys (Some k) c1.
Proof. reflexivity. Qed.
Lemma wkeys_br_cons k c r : wkeys_br k (c :: r) = wkeys_br k r ++ wkeys (Some k) c.
Proof. reflexivity. Qed.

Section Parse.
  Variable at_ : Z -> tok.
  Hypothesis HA : forall k, atom_tok (at_ k) = true.
  Definition atx (k : Z) : pystr := clean_tok (at_ k).
  Variable eo : Z -> Z -> option bsym.
  Variable W : list Z.
  Hypothesis HW : NoDup W.
  Definition pos (k : Z) : nat := zidx k W.
  Lemma pos_at pre k post : W = pre ++ k :: post -> pos k = length pre.
  Proof.
    intros E. unfold pos. rewrite E. apply zidx_app. rewrite E in HW. apply NoDup_remove_2 in HW. intros Hin. apply HW. apply in_or_app. now left.
  Qed.
  Definition E3 (e : Z * Z) : nat * nat * bondstr := (pos (fst e), pos (snd e), option_map bchar (eo (fst e) (snd e))).
  Definition fin (isb : bool) (d : nat) (cur : option nat) (stack : list nat) (last : nat) : option nat * list nat :=
    if isb then (cur, stack)
    else if (0 <? d) then (match stack with a :: _ => Some a | [] => Some last end, tl stack)
    else (Some last, stack).
  Definition gafter (g : gst) (p : option Z) (isb : bool) (d : nat) (t : rtree) : gst :=
    {| q_atoms := q_atoms g ++ map atx (worder t); q_edges := q_edges g ++ map E3 (wkeys p t);
       q_cur := fst (fin isb d (q_cur g) (q_stack g) (q_n g + length (worder t) - 1));
       q_n := q_n g + length (worder t); q_pend := None;
       q_stack := snd (fin isb d (q_cur g) (q_stack g) (q_n g + length (worder t) - 1));
       q_open := q_open g; q_ez := q_ez g |}.
  Definition pcond (p : option Z) (isb : bool) (g : gst) : Prop :=
    match p with Some q => q_cur g = Some (pos q) | None => q_cur g = None /\ isb = false end.
  Definition ghead (g : gst) (p : option Z) (isb : bool) (k : Z) : gst :=
    {| q_atoms := q_atoms g ++ [atx k]; q_edges := q_edges g ++ map E3 (match p with Some q => [(q, k)] | None => [] end);
       q_cur := Some (q_n g); q_n := Datatypes.S (q_n g); q_pend := None;
       q_stack := if isb then match q_cur g with Some a => a :: q_stack g | None => q_stack g end else q_stack g;
       q_open := q_open g; q_ez := q_ez g |}.
  Lemma grun_head g p isb k rest : pos k = q_n g -> q_pend g = None -> pcond p isb g ->
    grun false g ((if isb then [TOpen] else []) ++ (match psym eo p k with Some b => [TBond b] | None => [] end) ++ at_ k :: rest)
    = grun false (ghead g p isb k) rest.
  Proof.
    intros Hk Hp Hc. destruct g as [ga ge gc gn gp gs go gz]. cbn [q_n q_pend q_cur] in *. subst gp.
    unfold ghead, pcond, psym, atx in *. cbn [q_atoms q_edges q_cur q_n q_pend q_stack q_open q_ez] in *.
    destruct p as [q|].
    - subst gc. unfold E3. cbn [map fst snd]. rewrite Hk.
      destruct isb, (eo q k); cbn [app grun gstep bind]; rewrite (atom_tok_gstep _ _ _ (HA k)); cbn [bind add_atom q_atoms q_edges q_cur q_n q_pend q_stack q_open q_ez option_map]; reflexivity.
    - destruct Hc as [-> ->]. cbn [map app grun]. rewrite (atom_tok_gstep _ _ _ (HA k)). cbn [bind add_atom q_atoms q_edges q_cur q_n q_pend q_stack q_open q_ez]. now rewrite app_nil_r.
  Qed.

  Lemma grun_wvis : forall t p isb d g rest pre post,
    W = pre ++ worder t ++ post -> length pre = q_n g -> q_pend g = None -> pcond p isb g ->
    grun false g (atoks at_ (wvis eo p isb d t) ++ rest) = grun false (gafter g p isb d t) rest.
  Proof.
    apply (rtree_ind2 (fun t => forall p isb d g rest pre post,
      W = pre ++ worder t ++ post -> length pre = q_n g -> q_pend g = None -> pcond p isb g ->
      grun false g (atoks at_ (wvis eo p isb d t) ++ rest) = grun false (gafter g p isb d t) rest)).
    intros k cs IH p isb d g rest pre post HWt Hl Hp Hc.
    assert (Hk : pos k = q_n g).
    { rewrite <- Hl. destruct cs as [|c1 bs]; [apply (pos_at pre k post); exact HWt|].
      rewrite worder_cons in HWt. apply (pos_at pre k ((worder_branches bs ++ worder c1) ++ post)). exact HWt. }
    destruct cs as [|c1 bs].
    - cbn [wvis]. unfold atoks. cbn [flat_map]. rewrite app_nil_r. unfold vtoks. cbn [v_open v_sym v_key v_close].
      rewrite <- !app_assoc, <- app_comm_cons. rewrite (grun_head g p isb k _ Hk Hp Hc).
      unfold gafter. cbn [worder map length wkeys]. rewrite app_nil_r. replace (q_n g + 1 - 1) with (q_n g) by lia. replace (q_n g + 1) with (Datatypes.S (q_n g)) by lia.
      unfold fin, ghead. destruct isb.
      + cbn [Nat.ltb Nat.leb app grun gstep bind]. destruct p as [q|]; [|destruct Hc as [_ Hc]; discriminate Hc]. unfold pcond in Hc. rewrite Hc.
        cbn [q_atoms q_edges q_cur q_n q_pend q_stack q_open q_ez tl fst snd]. reflexivity.
      + destruct (0 <? d) eqn:Ed; cbn [app grun gstep bind q_atoms q_edges q_cur q_n q_pend q_stack q_open q_ez tl fst snd]; [|reflexivity].
        destruct (q_stack g); reflexivity.
    - rewrite wvis_cons. set (d1 := if isb then Datatypes.S d else d). unfold atoks. cbn [flat_map]. rewrite flat_map_app.
      fold (atoks at_ (wvis_br eo k d1 bs)). fold (atoks at_ (wvis eo (Some k) false d1 c1)).
      unfold vtoks at 1. cbn [v_open v_sym v_key v_close]. rewrite <- !app_assoc, <- app_comm_cons. cbn [app].
      rewrite (grun_head g p isb k _ Hk Hp Hc).
      rewrite worder_cons in HWt. cbn [app] in HWt. rewrite <- app_assoc in HWt.
      assert (B : forall l g0 rest' pre0 post0,
                 Forall (fun t => forall p isb d g rest pre post,
                   W = pre ++ worder t ++ post -> length pre = q_n g -> q_pend g = None -> pcond p isb g ->
                   grun false g (atoks at_ (wvis eo p isb d t) ++ rest) = grun false (gafter g p isb d t) rest) l ->
                 W = pre0 ++ worder_branches l ++ post0 -> length pre0 = q_n g0 -> q_pend g0 = None -> q_cur g0 = Some (pos k) ->
                 grun false g0 (atoks at_ (wvis_br eo k d1 l) ++ rest')
                 = grun false {| q_atoms := q_atoms g0 ++ map atx (worder_branches l); q_edges := q_edges g0 ++ map E3 (wkeys_br k l);
                                 q_cur := q_cur g0; q_n := q_n g0 + length (worder_branches l); q_pend := None; q_stack := q_stack g0;
                                 q_open := q_open g0; q_ez := q_ez g0 |} rest').
      { induction l as [|c r IHr]; intros g0 rest' pre0 post0 Hall HW0 Hl0 Hp0 Hc0.
        - cbn [wvis_br atoks flat_map app worder_branches map length wkeys_br]. destruct g0; cbn in *. subst. rewrite !app_nil_r, Nat.add_0_r. reflexivity.
        - rewrite wvis_br_cons. unfold atoks. rewrite flat_map_app. fold (atoks at_ (wvis_br eo k d1 r)). fold (atoks at_ (wvis eo (Some k) true d1 c)).
          rewrite <- app_assoc. rewrite worder_branches_cons, <- app_assoc in HW0.
          rewrite (IHr g0 _ pre0 (worder c ++ post0) (Forall_inv_tail Hall) HW0 Hl0 Hp0 Hc0).
          rewrite (Forall_inv Hall (Some k) true d1 _ rest' (pre0 ++ worder_branches r) post0).
          + unfold gafter, fin. cbn [q_atoms q_edges q_cur q_n q_pend q_stack q_open q_ez fst snd].
            f_equal. apply gst_eq; try reflexivity.
            * rewrite worder_branches_cons, map_app. now rewrite <- app_assoc.
            * rewrite wkeys_br_cons, map_app. now rewrite <- app_assoc.
            * rewrite worder_branches_cons, app_length. lia.
          + rewrite <- app_assoc. exact HW0.
          + cbn [q_n]. rewrite app_length. lia.
          + reflexivity.
          + unfold pcond. cbn [q_cur]. exact Hc0. }
      rewrite (B bs (ghead g p isb k) _ (pre ++ [k]) (worder c1 ++ post) (Forall_inv_tail IH)).
      + rewrite (Forall_inv IH (Some k) false d1 _ rest (pre ++ [k] ++ worder_branches bs) post).
        * f_equal. unfold gafter, ghead. cbn [q_atoms q_edges q_cur q_n q_pend q_stack q_open q_ez].
          assert (Hfin : fin false d1 (Some (q_n g)) (if isb then match q_cur g with Some a => a :: q_stack g | None => q_stack g end else q_stack g)
                           (Datatypes.S (q_n g) + length (worder_branches bs) + length (worder c1) - 1)
                         = fin isb d (q_cur g) (q_stack g) (q_n g + length (worder (RNode k (c1 :: bs))) - 1)).
          { rewrite worder_cons. cbn [length]. rewrite app_length.
            replace (q_n g + Datatypes.S (length (worder_branches bs) + length (worder c1)) - 1) with (Datatypes.S (q_n g) + length (worder_branches bs) + length (worder c1) - 1) by lia.
            unfold fin, d1. destruct isb.
            - cbn [Nat.ltb Nat.leb]. destruct p as [q|]; [|destruct Hc as [_ Hc]; discriminate Hc]. unfold pcond in Hc. rewrite Hc. reflexivity.
            - reflexivity. }
          rewrite Hfin. apply gst_eq; try reflexivity.
          -- rewrite worder_cons. cbn [map]. rewrite map_app, <- !app_assoc. reflexivity.
          -- rewrite wkeys_cons, !map_app, <- !app_assoc. reflexivity.
          -- rewrite worder_cons. cbn [length]. rewrite app_length. lia.
        * rewrite <- !app_assoc. cbn [app]. exact HWt.
        * cbn [q_n ghead]. rewrite !app_length. cbn [length]. lia.
        * reflexivity.
        * unfold pcond. cbn [q_cur ghead]. now rewrite Hk.
      + rewrite <- !app_assoc. cbn [app]. exact HWt.
      + cbn [q_n ghead]. rewrite app_length. cbn [length]. lia.
      + reflexivity.
      + cbn [q_cur ghead]. now rewrite Hk.
  Qed.
End Parse.

(** ------------------------------------------------------------------ atoms and bond orders as pysmiles' model reads them *)
Definition upper_organic : list pystr := [S "B"; S "C"; S "N"; S "O"; S "P"; S "S"; S "F"; S "Cl"; S "Br"; S "I"].
Lemma upper_cases e : str_in e upper_organic = true ->
  e = S "B" \/ e = S "C" \/ e = S "N" \/ e = S "O" \/ e = S "P" \/ e = S "S" \/ e = S "F" \/ e = S "Cl" \/ e = S "Br" \/ e = S "I".
Proof.
  unfold str_in, upper_organic. cbn [existsb]. intros H.
  repeat (apply orb_prop in H; destruct H as [H|H]); try discriminate H; apply str_eqb_eq in H; subst e; tauto.
Qed.
(** an atom as the writer sees it: element, hydrogen count, charge, and whether pysmiles' format_atom writes it bare
    (charge 0 and has_default_h_count) or as a bracket atom [E Hn charge] *)
Record aspec := { a_el : pystr; a_h : Z; a_c : Z; a_bare : bool }.
Definition hs_text (hcount : Z) : pystr := if Z.eqb hcount 0 then [] else if (hcount >? 1)%Z then S "H" ++ str_of_Z hcount else S "H".
Definition cs_text (charge : Z) : pystr :=
  if (charge >? 0)%Z then (if (charge >? 1)%Z then S "+" ++ str_of_Z charge else S "+")
  else if (charge <? 0)%Z then (if (charge <? -1)%Z then S "-" ++ str_of_Z (- charge) else S "-")
  else [].
Definition abody (s : aspec) : pystr := a_el s ++ hs_text (a_h s) ++ cs_text (a_c s).
Definition atok_of (s : aspec) : tok := if a_bare s then TAtom (a_el s) else TBracket (abody s) None.
(** what pysmiles' parse_atom returns for it (a bare atom has no hcount key before fill_valence) *)
Definition aattrs (s : aspec) : attrs :=
  if a_bare s then [(S "element", VStr (a_el s)); (S "charge", VInt 0); (S "aromatic", VBool false)]
  else [(S "charge", VInt (a_c s)); (S "hcount", VInt (a_h s)); (S "aromatic", VBool false); (S "element", VStr (a_el s))].
(** the finite attribute domain: B C N O P S F Cl Br I, 0..9 hydrogens, charge -3..3; bare only with charge 0 *)
Definition aspec_ok (s : aspec) : bool :=
  str_in (a_el s) upper_organic && (0 <=? a_h s)%Z && (a_h s <=? 9)%Z && (-3 <=? a_c s)%Z && (a_c s <=? 3)%Z
  && (if a_bare s then Z.eqb (a_c s) 0 else true).
Lemma aspec_table s : aspec_ok s = true ->
  atom_tok (atok_of s) = true /\ parse_atom (clean_tok (atok_of s)) = Ok (aattrs s)
  /\ forallb (fun c => negb (Ascii.eqb c ","%char)) (render_tok (atok_of s)) = true.
Proof.
  destruct s as [e h c b]. unfold aspec_ok. cbn [a_el a_h a_c a_bare]. intros H.
  apply andb_prop in H as [H Hb]. apply andb_prop in H as [H C2]. apply andb_prop in H as [H C1]. apply andb_prop in H as [H H2]. apply andb_prop in H as [He H1].
  apply Z.leb_le in H1, H2, C1, C2.
  assert (Hh : (h = 0 \/ h = 1 \/ h = 2 \/ h = 3 \/ h = 4 \/ h = 5 \/ h = 6 \/ h = 7 \/ h = 8 \/ h = 9)%Z) by lia.
  assert (Hc : (c = -3 \/ c = -2 \/ c = -1 \/ c = 0 \/ c = 1 \/ c = 2 \/ c = 3)%Z) by lia.
  clear H1 H2 C1 C2.
  destruct b.
  - apply Z.eqb_eq in Hb. subst c. clear Hc Hh.
    destruct (upper_cases e He) as [->|[->|[->|[->|[->|[->|[->|[->|[->| ->]]]]]]]]]; (split; [|split]); vm_compute; reflexivity.
  - clear Hb.
    destruct (upper_cases e He) as [->|[->|[->|[->|[->|[->|[->|[->|[->| ->]]]]]]]]];
      destruct Hh as [->|[->|[->|[->|[->|[->|[->|[->|[->| ->]]]]]]]]];
      destruct Hc as [->|[->|[->|[->|[->|[->| ->]]]]]]; (split; [|split]); vm_compute; reflexivity.
Qed.
Lemma aattrs_not_aromatic s : aget (S "aromatic") (aattrs s) = Some (VBool false).
Proof. unfold aattrs. destruct (a_bare s); reflexivity. Qed.
Definition ordv (o : option bsym) : pyval := match o with Some b => border b | None => VInt 1 end.

Section Interpret.
  Variable at_ : Z -> tok.
  Variable aat : Z -> attrs.
  Variable eo : Z -> Z -> option bsym.
  Hypothesis Hpa : forall k, parse_atom (clean_tok (at_ k)) = Ok (aat k).
  Hypothesis Har : forall k, aget (S "aromatic") (aat k) = Some (VBool false).
  Lemma parse_atoms ks : map_res parse_atom (map (atx at_) ks) = Ok (map aat ks).
  Proof. induction ks as [|k r IH]; [reflexivity|]. cbn [map map_res]. unfold atx at 1. rewrite (Hpa k). cbn [bind]. rewrite IH. reflexivity. Qed.
  Lemma not_aromatic ks i : node_aromatic (map aat ks) i = false.
  Proof.
    unfold node_aromatic. destruct (nth_error (map aat ks) i) as [a|] eqn:E; [|reflexivity].
    apply nth_error_In in E. apply in_map_iff in E as [k [<- _]]. now rewrite Har.
  Qed.
  Lemma edge_orders (f : Z -> nat) ks es :
    map_res (SmilesParse.edge_order (map aat ks)) (map (fun e : Z * Z => (f (fst e), f (snd e), option_map bchar (eo (fst e) (snd e)))) es)
    = Ok (map (fun e => (f (fst e), f (snd e), ordv (eo (fst e) (snd e)))) es).
  Proof.
    induction es as [|e r IH]; [reflexivity|]. cbn [map map_res]. rewrite IH. unfold SmilesParse.edge_order at 1.
    destruct (eo (fst e) (snd e)) as [b|]; cbn [option_map ordv].
    - rewrite smiles_order_bchar. reflexivity.
    - rewrite !not_aromatic. reflexivity.
  Qed.
End Interpret.

Lemma nomult_simple at_ D (HA : forall k, atom_tok (at_ k) = true) vs : has_mult (aitems at_ D vs) = false.
Proof.
  pose proof (simple_aitems at_ D HA vs) as H. unfold has_mult. induction (aitems at_ D vs) as [|i r IH]; [reflexivity|].
  cbn [forallb] in H. apply andb_prop in H as [H1 H2]. cbn [existsb]. rewrite (IH H2), orb_false_r.
  destruct i as [x|t|x]; try reflexivity. destruct t as [e|body [a|]| | | | | |]; try reflexivity; discriminate H1.
Qed.

(** ------------------------------------------------------------------ the round trip of a tree-shaped all-atom transcript *)
(** the graph pysmiles' model reads: atom i = the i-th written atom, one bond per tree edge *)
Definition tree_sgraph (aat : Z -> attrs) (eo : Z -> Z -> option bsym) (T : rtree) : sgraph :=
  {| g_nodes := map aat (worder T);
     g_edges := map (fun e => (pos (worder T) (fst e), pos (worder T) (snd e), ordv (eo (fst e) (snd e)))) (wkeys None T);
     g_ez := [] |}.
Definition tree_text (at_ : Z -> tok) (D : Z -> list dspec) (eo : Z -> Z -> option bsym) (T : rtree) : pystr :=
  render (aitems at_ D (wvis eo None false 0 T)).
Definition tree_clean (at_ : Z -> tok) (eo : Z -> Z -> option bsym) (T : rtree) : pystr :=
  render_smiles false (atoks at_ (wvis eo None false 0 T)).

(** general form: any tokens [at_] that are atoms, parsed by pysmiles' model as [aat], none aromatic *)
Theorem atom_tree_transcript_gen : forall fo a0 F at_ aat D eo T n fmt sym rsym,
  fragment_node_parser fo [] = Ok a0 ->
  NoDup (rkeys T) -> (rsize T <= n)%nat ->
  (forall k, atom_tok (at_ k) = true) -> (forall k, parse_atom (clean_tok (at_ k)) = Ok (aat k)) ->
  (forall k, aget (S "aromatic") (aat k) = Some (VBool false)) -> (forall k, forallb d_ok (D k) = true) ->
  (forall k, In k (rkeys T) -> fmt k = Ok (render_tok (at_ k) ++ fbt (D k))) ->
  (forall e, In e (redges T) -> sym (fst e) (snd e) = Ok (optb (eo (fst e) (snd e)))) ->
  let dd := ddl 0 (map D (worder T)) [] in
  let ann := annl a0 0 (map (fun k => is_bracket (at_ k)) (worder T)) [] in
  run_writer n (mk_env true fmt sym rsym (redges T) []) (rkey T)
    = Ok {| r_text := tree_text at_ D eo T; r_visit := worder T; r_mtrace := [] |}
  /\ strip_bonding_descriptors fo (tree_text at_ D eo T) = Ok (tree_clean at_ eo T, dd, [], ann)
  /\ smiles_parse (tree_clean at_ eo T) = Ok (tree_sgraph aat eo T)
  /\ fragment_template fo F (tree_text at_ D eo T) = Ok (assemble F (tree_sgraph aat eo T) dd ann).
Proof.
  intros fo a0 F at_ aat D eo T n fmt sym rsym Hp0 ND Hn HA Hpa Har HD Hf Hs. cbv zeta.
  set (vs := wvis eo None false 0 T). set (items := aitems at_ D vs).
  (* writer *)
  assert (Wr : run_writer n (mk_env true fmt sym rsym (redges T) []) (rkey T)
               = Ok {| r_text := tree_text at_ D eo T; r_visit := worder T; r_mtrace := [] |}).
  { rewrite (write_tree_transcript true fmt sym rsym (antext at_ D) (astext eo) T n ND Hn Hf Hs).
    unfold tree_text. rewrite (render_aitems at_ D HD), <- (wtext_vis at_ D eo). reflexivity. }
  (* strip *)
  assert (Wf : wf_items ZStart 0 items = true).
  { pose proof (wf_wvis at_ D eo HD HA T None false 0 ZStart []) as E. rewrite app_nil_r in E. unfold items, vs. rewrite E; [reflexivity|intros X; now elim X|reflexivity]. }
  destruct (spec_aitems at_ D HD HA fo a0 Hp0 vs sinit) as [sp' (Es & Nn & Dd & Ez & Ea)].
  assert (Ecl : s_clean sp' = tree_clean at_ eo T).
  { rewrite (spec_clean fo _ _ _ Es). cbn [sinit s_clean app]. rewrite (clean_simple _ (simple_aitems at_ D HA vs)), toks_aitems. reflexivity. }
  assert (Hvk : map (fun v => D (v_key v)) vs = map D (worder T)).
  { unfold vs. rewrite <- (vkeys_worder eo T None false 0), map_map. reflexivity. }
  assert (Hvb : map (fun v => is_bracket (at_ (v_key v))) vs = map (fun k => is_bracket (at_ k)) (worder T)).
  { unfold vs. rewrite <- (vkeys_worder eo T None false 0), map_map. reflexivity. }
  assert (St : strip_bonding_descriptors fo (tree_text at_ D eo T)
               = Ok (tree_clean at_ eo T, ddl 0 (map D (worder T)) [], [], annl a0 0 (map (fun k => is_bracket (at_ k)) (worder T)) [])).
  { unfold tree_text. fold vs. fold items. rewrite (strip_items fo items Wf (nomult_simple at_ D HA vs)). unfold items. rewrite Es. cbn [bind].
    unfold FragProofs.sres. rewrite Ecl, Dd, Ez, Ea, Hvk, Hvb. reflexivity. }
  (* pysmiles *)
  assert (Ws : wf_smiles (atoks at_ vs) = true).
  { unfold wf_smiles. rewrite <- toks_aitems with (D := D). apply wf_simple; [apply simple_aitems; exact HA|exact Wf]. }
  assert (Sp : smiles_parse (tree_clean at_ eo T) = Ok (tree_sgraph aat eo T)).
  { unfold tree_clean. fold vs. rewrite (render_parse false _ Ws). unfold graph_of, graph_base.
    pose proof (grun_wvis at_ HA eo (worder T) (worder_nodup T ND) T None false 0 ginit [] [] []) as G.
    rewrite !app_nil_r in G. fold vs in G. rewrite G; [|reflexivity|reflexivity|reflexivity|split; reflexivity].
    cbn [grun bind gafter q_atoms q_edges q_ez ginit app]. unfold interpret.
    rewrite (parse_atoms at_ aat Hpa). cbn [bind].
    pose proof (edge_orders aat eo Har (pos (worder T)) (worder T) (wkeys None T)) as EO. unfold E3, bondstr in *. rewrite EO. reflexivity. }
  split; [exact Wr|]. split; [exact St|]. split; [exact Sp|].
  assert (NH : str_eqb (tree_clean at_ eo T) (S "H") = false) by (apply (clean_not_H _ Ws)).
  unfold fragment_template. rewrite St. cbn [bind]. cbv beta iota. rewrite NH, Sp. reflexivity.
Qed.

(** atoms from the finite attribute domain [aspec_ok] *)
Definition stok (sp : Z -> aspec) (k : Z) : tok := atok_of (sp k).
Definition sattrs (sp : Z -> aspec) (k : Z) : attrs := aattrs (sp k).
Theorem atom_tree_transcript : forall fo a0 F sp D eo T n fmt sym rsym,
  fragment_node_parser fo [] = Ok a0 ->
  NoDup (rkeys T) -> (rsize T <= n)%nat ->
  (forall k, aspec_ok (sp k) = true) -> (forall k, forallb d_ok (D k) = true) ->
  (forall k, In k (rkeys T) -> fmt k = Ok (render_tok (stok sp k) ++ fbt (D k))) ->
  (forall e, In e (redges T) -> sym (fst e) (snd e) = Ok (optb (eo (fst e) (snd e)))) ->
  let dd := ddl 0 (map D (worder T)) [] in
  let ann := annl a0 0 (map (fun k => negb (a_bare (sp k))) (worder T)) [] in
  run_writer n (mk_env true fmt sym rsym (redges T) []) (rkey T)
    = Ok {| r_text := tree_text (stok sp) D eo T; r_visit := worder T; r_mtrace := [] |}
  /\ strip_bonding_descriptors fo (tree_text (stok sp) D eo T) = Ok (tree_clean (stok sp) eo T, dd, [], ann)
  /\ smiles_parse (tree_clean (stok sp) eo T) = Ok (tree_sgraph (sattrs sp) eo T)
  /\ fragment_template fo F (tree_text (stok sp) D eo T) = Ok (assemble F (tree_sgraph (sattrs sp) eo T) dd ann).
Proof.
  intros fo a0 F sp D eo T n fmt sym rsym Hp0 ND Hn HS HD Hf Hs.
  assert (Eb : map (fun k => negb (a_bare (sp k))) (worder T) = map (fun k => is_bracket (stok sp k)) (worder T)).
  { apply map_ext. intros k. unfold stok, atok_of. destruct (a_bare (sp k)); reflexivity. }
  cbv zeta. rewrite Eb.
  apply (atom_tree_transcript_gen fo a0 F (stok sp) (sattrs sp) D eo T n fmt sym rsym Hp0 ND Hn); try assumption.
  - intros k. apply (aspec_table (sp k) (HS k)).
  - intros k. apply (proj2 (aspec_table (sp k) (HS k))).
  - intros k. apply aattrs_not_aromatic.
Qed.

(** ------------------------------------------------------------------ the descriptor dict in closed form *)
(** {i: descriptors of the i-th written atom}, atoms without descriptors have no entry *)
Fixpoint dentries (n : nat) (Dl : list (list dspec)) : ndict (list pystr) :=
  match Dl with
  | [] => []
  | Ds :: r => (match Ds with [] => [] | _ => [(n, map d_stored Ds)] end) ++ dentries (Datatypes.S n) r
  end.
Lemma nd_append_fresh (n : nat) (x : pystr) : forall d : ndict (list pystr), (forall kv, In kv d -> fst kv <> n) -> nd_append n x d = d ++ [(n, [x])].
Proof.
  induction d as [|[k l] r IH]; intros H; [reflexivity|]. cbn [nd_append]. destruct (Nat.eqb_spec n k) as [E|N].
  - exfalso. apply (H (k, l)); [now left|now symmetry].
  - cbn [app]. f_equal. apply IH. intros kv Hin. apply H. now right.
Qed.
Lemma nd_append_last (n : nat) (x : pystr) : forall (d : ndict (list pystr)) l, (forall kv, In kv d -> fst kv <> n) -> nd_append n x (d ++ [(n, l)]) = d ++ [(n, l ++ [x])].
Proof.
  induction d as [|[k l0] r IH]; intros l H; cbn [app nd_append].
  - now rewrite Nat.eqb_refl.
  - destruct (Nat.eqb_spec n k) as [E|N]; [exfalso; apply (H (k, l0)); [now left|now symmetry]|]. f_equal. apply IH. intros kv Hin. apply H. now right.
Qed.
Lemma fold_append_fresh (n : nat) : forall (Ds : list dspec) (d : ndict (list pystr)), (forall kv, In kv d -> fst kv <> n) ->
  fold_left (fun d y => nd_append n (d_stored y) d) Ds d = d ++ match Ds with [] => [] | _ => [(n, map d_stored Ds)] end.
Proof.
  intros Ds d H. destruct Ds as [|x r]; [now rewrite app_nil_r|]. cbn [fold_left]. rewrite (nd_append_fresh n _ d H).
  assert (G : forall r acc, fold_left (fun d y => nd_append n (d_stored y) d) r (d ++ [(n, acc)]) = d ++ [(n, acc ++ map d_stored r)]).
  { clear x r. induction r as [|y r IH]; intros acc; cbn [fold_left map]; [now rewrite app_nil_r|].
    rewrite (nd_append_last n _ d acc H), IH. now rewrite <- app_assoc. }
  rewrite G. reflexivity.
Qed.
Lemma ddl_entries : forall Dl n (d : ndict (list pystr)), (forall kv, In kv d -> fst kv < n) -> ddl n Dl d = d ++ dentries n Dl.
Proof.
  induction Dl as [|Ds r IH]; intros n d H; [now rewrite app_nil_r|]. cbn [ddl dentries].
  rewrite fold_append_fresh by (intros kv Hin; specialize (H kv Hin); lia).
  rewrite IH; [now rewrite <- app_assoc|]. intros kv Hin. apply in_app_or in Hin as [Hin|Hin]; [specialize (H kv Hin); lia|].
  destruct Ds; [contradiction|]. destruct Hin as [<-|[]]. cbn [fst]. lia.
Qed.
Lemma nd_get_dentries : forall Dl n i,
  nd_get i (dentries n Dl) = if i <? n then None else match nth_error Dl (i - n) with Some (x :: xs) => Some (map d_stored (x :: xs)) | _ => None end.
Proof.
  induction Dl as [|Ds r IH]; intros n i.
  - cbn [dentries nd_get]. destruct (i <? n); [reflexivity|]. destruct (i - n); reflexivity.
  - cbn [dentries]. destruct (i <? n) eqn:Lt.
    + apply Nat.ltb_lt in Lt. destruct Ds as [|x xs]; cbn [app nd_get].
      * rewrite IH. assert (E : i <? Datatypes.S n = true) by (apply Nat.ltb_lt; lia). now rewrite E.
      * destruct (Nat.eqb_spec i n); [lia|]. rewrite IH. assert (E : i <? Datatypes.S n = true) by (apply Nat.ltb_lt; lia). now rewrite E.
    + apply Nat.ltb_ge in Lt. destruct (Nat.eq_dec i n) as [->|N].
      * rewrite Nat.sub_diag. cbn [nth_error]. destruct Ds as [|x xs]; cbn [app nd_get].
        -- rewrite IH. assert (E : n <? Datatypes.S n = true) by (apply Nat.ltb_lt; lia). now rewrite E.
        -- now rewrite Nat.eqb_refl.
      * assert (E : i <? Datatypes.S n = false) by (apply Nat.ltb_ge; lia).
        replace (i - n) with (Datatypes.S (i - Datatypes.S n)) by lia. cbn [nth_error].
        destruct Ds as [|x xs]; cbn [app nd_get]; [|destruct (Nat.eqb_spec i n); [lia|]]; rewrite IH, E; reflexivity.
Qed.

(** the annotation dict in closed form: one entry per bracket atom, keyed by its position *)
Fixpoint aentries (a0 : attrs) (n : nat) (fl : list bool) : ndict attrs :=
  match fl with [] => [] | b :: r => (if b then [(n, aupdate [] a0)] else []) ++ aentries a0 (Datatypes.S n) r end.
Lemma nd_update_fresh (n : nat) (a : attrs) : forall d : ndict attrs, (forall kv, In kv d -> fst kv <> n) -> nd_update n a d = d ++ [(n, aupdate [] a)].
Proof.
  induction d as [|[k y] r IH]; intros H; [reflexivity|]. cbn [nd_update]. destruct (Nat.eqb_spec n k) as [E|N].
  - exfalso. apply (H (k, y)); [now left|now symmetry].
  - cbn [app]. f_equal. apply IH. intros kv Hin. apply H. now right.
Qed.
Lemma annl_entries a0 : forall fl n (d : ndict attrs), (forall kv, In kv d -> fst kv < n) -> annl a0 n fl d = d ++ aentries a0 n fl.
Proof.
  induction fl as [|b r IH]; intros n d H; [now rewrite app_nil_r|]. cbn [annl aentries]. destruct b.
  - rewrite nd_update_fresh by (intros kv Hin; specialize (H kv Hin); lia). rewrite IH; [now rewrite <- app_assoc|].
    intros kv Hin. apply in_app_or in Hin as [Hin|[<-|[]]]; [specialize (H kv Hin); lia|cbn [fst]; lia].
  - cbn [app]. apply IH. intros kv Hin. specialize (H kv Hin). lia.
Qed.
Lemma nd_get_aentries a0 : forall fl n i,
  nd_get i (aentries a0 n fl) = if i <? n then None else match nth_error fl (i - n) with Some true => Some (aupdate [] a0) | _ => None end.
Proof.
  induction fl as [|b r IH]; intros n i.
  - cbn [aentries nd_get]. destruct (i <? n); [reflexivity|]. destruct (i - n); reflexivity.
  - cbn [aentries]. destruct (i <? n) eqn:Lt.
    + apply Nat.ltb_lt in Lt. assert (E : i <? Datatypes.S n = true) by (apply Nat.ltb_lt; lia).
      destruct b; cbn [app nd_get]; [destruct (Nat.eqb_spec i n); [lia|]|]; rewrite IH, E; reflexivity.
    + apply Nat.ltb_ge in Lt. destruct (Nat.eq_dec i n) as [->|N].
      * rewrite Nat.sub_diag. cbn [nth_error]. destruct b; cbn [app nd_get].
        -- now rewrite Nat.eqb_refl.
        -- rewrite IH. assert (E : n <? Datatypes.S n = true) by (apply Nat.ltb_lt; lia). now rewrite E.
      * assert (E : i <? Datatypes.S n = false) by (apply Nat.ltb_ge; lia).
        replace (i - n) with (Datatypes.S (i - Datatypes.S n)) by lia. cbn [nth_error].
        destruct b; cbn [app nd_get]; [destruct (Nat.eqb_spec i n); [lia|]|]; rewrite IH, E; reflexivity.
Qed.

(** ------------------------------------------------------------------ the edges written are the tree edges *)
Lemma wkeys_perm : forall t p, Permutation (wkeys p t) ((match p with Some q => [(q, rkey t)] | None => [] end) ++ redges t).
Proof.
  apply (rtree_ind2 (fun t => forall p, Permutation (wkeys p t) ((match p with Some q => [(q, rkey t)] | None => [] end) ++ redges t))).
  intros k cs IH p. destruct cs as [|c1 bs]; [cbn [wkeys redges flat_map rkey]; now rewrite !app_nil_r|].
  rewrite wkeys_cons. cbn [rkey]. apply Permutation_app_head. cbn [redges flat_map].
  assert (B : forall l, Forall (fun t => forall p, Permutation (wkeys p t) ((match p with Some q => [(q, rkey t)] | None => [] end) ++ redges t)) l ->
              Permutation (wkeys_br k l) (flat_map (fun c => (k, rkey c) :: redges c) l)).
  { induction l as [|c r IHr]; intros Hl; [constructor|]. rewrite wkeys_br_cons. cbn [flat_map].
    eapply Permutation_trans; [apply Permutation_app_comm|]. apply Permutation_app; [exact (Forall_inv Hl (Some k))|exact (IHr (Forall_inv_tail Hl))]. }
  eapply Permutation_trans; [apply Permutation_app_comm|].
  change ((k, rkey c1) :: redges c1 ++ flat_map (fun c => (k, rkey c) :: redges c) bs) with (([(k, rkey c1)] ++ redges c1) ++ flat_map (fun c => (k, rkey c) :: redges c) bs).
  apply Permutation_app; [exact (Forall_inv IH (Some k))|exact (B bs (Forall_inv_tail IH))].
Qed.

(** ------------------------------------------------------------------ the template read back is the fragment, renumbered *)
(** the isomorphism is k |-> position of k in the order of writing: a bijection from the tree's nodes to 0..n-1
    ([worder] has no duplicates and is a permutation of the nodes); atom [pos k] of the template carries k's element
    (charge 0, not aromatic), the fragment's name, and exactly k's descriptors as `bonding`; the bonds of the template
    are exactly the tree edges with their orders (as a multiset) *)
Theorem atom_tree_template_iso : forall a0 F (aat : Z -> attrs) (br : Z -> bool) D eo T, NoDup (rkeys T) ->
  let W := worder T in
  let Tm := assemble F (tree_sgraph aat eo T) (ddl 0 (map D W) []) (annl a0 0 (map br W) []) in
  NoDup W /\ Permutation W (rkeys T) /\ length (t_nodes Tm) = length W
  /\ (forall k, In k (rkeys T) ->
        nth_error W (pos W k) = Some k
        /\ nth_error (t_nodes Tm) (pos W k)
           = Some (template_node F (aat k) (match D k with [] => None | Ds => Some (map d_stored Ds) end)
                                 (if br k then Some (aupdate [] a0) else None)))
  /\ Permutation (t_edges Tm) (map (fun e => (pos W (fst e), pos W (snd e), ordv (eo (fst e) (snd e)))) (redges T)).
Proof.
  intros a0 F aat br D eo T ND. cbv zeta. split; [now apply worder_nodup|]. split; [apply worder_perm|].
  split; [unfold assemble, tree_sgraph; cbn [t_nodes g_nodes]; now rewrite map_length, combine_length, seq_length, !map_length, Nat.min_id|].
  split.
  - intros k Hk. assert (Hw : In k (worder T)) by (apply (Permutation_in k (Permutation_sym (worder_perm T))); exact Hk).
    pose proof (zidx_nth k (worder T) Hw) as Hn. split; [exact Hn|]. unfold pos.
    unfold assemble, tree_sgraph. cbn [t_nodes g_nodes].
    assert (Hb : nth_error (map aat (worder T)) (zidx k (worder T)) = Some (aat k)) by (now rewrite (map_nth_error _ _ _ Hn)).
    rewrite nth_error_map, (nth_error_combine_seq _ 0 _ _ Hb). cbn [option_map fst snd Nat.add]. f_equal. f_equal.
    + rewrite (ddl_entries (map D (worder T)) 0 []) by (intros kv []). cbn [app]. rewrite nd_get_dentries. cbn [Nat.ltb Nat.leb]. rewrite Nat.sub_0_r.
      rewrite (map_nth_error D _ _ Hn). destruct (D k); reflexivity.
    + rewrite (annl_entries a0 (map br (worder T)) 0 []) by (intros kv []). cbn [app]. rewrite nd_get_aentries. cbn [Nat.ltb Nat.leb]. rewrite Nat.sub_0_r.
      rewrite (map_nth_error br _ _ Hn). destruct (br k); reflexivity.
  - unfold assemble, tree_sgraph. cbn [t_edges g_edges]. apply Permutation_map. exact (wkeys_perm T None).
Qed.

(** ------------------------------------------------------------------ graph level: write_graph(smiles_format=True) on a fragment graph *)
Local Open Scope Z_scope.
(** a node of the attribute domain: the writer writes its element bare or as a bracket atom, then its descriptors *)
Definition atom_ok (dh : Z -> bool) (sp : Z -> aspec) (D : Z -> list dspec) (n : nrec) : Prop :=
  aget (S "element") (na n) = Some (VStr (a_el (sp (nk n))))
  /\ ((aget (S "charge") (na n) = None /\ a_c (sp (nk n)) = 0) \/ aget (S "charge") (na n) = Some (VInt (a_c (sp (nk n)))))
  /\ ((aget (S "hcount") (na n) = None /\ a_h (sp (nk n)) = 0) \/ aget (S "hcount") (na n) = Some (VInt (a_h (sp (nk n)))))
  /\ (aget (S "aromatic") (na n) = None \/ aget (S "aromatic") (na n) = Some (VBool false))
  /\ aget (S "rs_isomer") (na n) = None /\ aget (S "isotope") (na n) = None /\ aget (S "class") (na n) = None
  /\ a_bare (sp (nk n)) = (Z.eqb (a_c (sp (nk n))) 0 && dh (nk n))
  /\ aget (S "bonding") (na n) = match D (nk n) with [] => None | Ds => Some (VList (map VStr (map d_stored Ds))) end.
(** the symbol of an edge, from its integer order *)
Definition eo_of (g : graph) (p k : Z) : option bsym :=
  match edge_attrs g p k with
  | Ok d => match aget (S "order") d with
            | Some (VInt 0) => Some BZero | Some (VInt 2) => Some BDouble | Some (VInt 3) => Some BTriple | Some (VInt 4) => Some BQuad
            | _ => None end
  | Err _ => None
  end.
Definition orders_ok (g : graph) : Prop :=
  forall n, In n g -> forall wa, In wa (nadj n) -> exists z, aget (S "order") (snd wa) = Some (VInt z) /\ 0 <= z <= 4.

Lemma adj_get_in v : forall l a, adj_get v l = Some a -> In (v, a) l.
Proof.
  induction l as [|[w b] r IH]; intros a H; [discriminate|]. cbn [adj_get] in H. destruct (Z.eqb_spec w v) as [->|N].
  - inversion H; subst. now left.
  - right. now apply IH.
Qed.
Lemma adj_get_some v : forall l, In v (map fst l) -> exists a, adj_get v l = Some a.
Proof.
  induction l as [|[w b] r IH]; intros H; [contradiction|]. cbn [adj_get]. destruct (Z.eqb_spec w v) as [->|N]; [eauto|].
  apply IH. destruct H as [E|H]; [cbn in E; contradiction|exact H].
Qed.

Section AtomGraph.
  Variables (dh : Z -> bool) (sp : Z -> aspec) (D : Z -> list dspec) (g : graph).
  Hypothesis HS : forall k, aspec_ok (sp k) = true.
  Hypothesis HD : forall k, forallb d_ok (D k) = true.
  Hypothesis Hnodes : forall n, In n g -> atom_ok dh sp D n.
  Hypothesis Hord : orders_ok g.

  Lemma atom_node_text k : In k (node_keys g) -> node_text_by (S "atomname") true dh g k = Ok (render_tok (stok sp k) ++ fbt (D k)).
  Proof.
    intros Hk. destruct (in_keys_gfind g k Hk) as [n [Hf Hn]]. destruct (gfind_some k g n Hf) as [_ Ek].
    destruct (Hnodes n Hn) as (A1 & A2 & A3 & A4 & A5 & A6 & A7 & A8 & A9). rewrite Ek in *.
    pose proof (HS k) as Hsk. unfold aspec_ok in Hsk. apply andb_prop in Hsk as [Hsk _]. do 4 (apply andb_prop in Hsk as [Hsk _]).
    unfold node_text_by, format_atom, bonding_suffix, node_attrs. rewrite Hf. cbn [bind].
    rewrite A1. cbn [as_str bind].
    assert (Ec : match aget (S "charge") (na n) with Some v => as_int v | None => Ok 0 end = Ok (a_c (sp k))) by (destruct A2 as [[-> ->] | ->]; reflexivity).
    rewrite Ec. cbn [bind].
    assert (Eh : match aget (S "hcount") (na n) with Some v => as_int v | None => Ok 0 end = Ok (a_h (sp k))) by (destruct A3 as [[-> ->] | ->]; reflexivity).
    rewrite Eh. cbn [bind].
    assert (Ea : match aget (S "aromatic") (na n) with Some v => truthy v | None => false end = false) by (destruct A4 as [-> | ->]; reflexivity).
    rewrite Ea. unfold ahas. rewrite A5, A6, A7. cbn [andb negb].
    assert (Eo : str_in (py_lower (a_el (sp k))) (map S ["b"; "c"; "n"; "o"; "p"; "s"; "*"]%string) || str_in (a_el (sp k)) (map S ["F"; "Cl"; "Br"; "I"]%string) = true).
    { destruct (upper_cases (a_el (sp k)) Hsk) as [->|[->|[->|[->|[->|[->|[->|[->|[->| ->]]]]]]]]]; vm_compute; reflexivity. }
    rewrite Eo, andb_true_r, <- A8.
    assert (Et : (if a_bare (sp k) then Ok (a_el (sp k))
                  else Ok (S "[" ++ a_el (sp k) ++ (if a_h (sp k) =? 0 then [] else if a_h (sp k) >? 1 then S "H" ++ str_of_Z (a_h (sp k)) else S "H")
                               ++ (if a_c (sp k) >? 0 then if a_c (sp k) >? 1 then S "+" ++ str_of_Z (a_c (sp k)) else S "+"
                                   else if a_c (sp k) <? 0 then if a_c (sp k) <? -1 then S "-" ++ str_of_Z (- a_c (sp k)) else S "-" else []) ++ S "]"))
                 = Ok (render_tok (stok sp k))).
    { unfold stok, atok_of. destruct (a_bare (sp k)); [reflexivity|]. unfold abody, hs_text, cs_text. cbn [render_tok S list_ascii_of_string app]. now rewrite <- !app_assoc. }
    rewrite Et. cbn [bind]. rewrite A9.
    destruct (D k) as [|d Ds] eqn:ED; [cbn [bind fbt fb_expected map concat]; reflexivity|]. rewrite <- ED.
    assert (Ett : truthy (VList (map VStr (map d_stored (D k)))) = true) by (rewrite ED; reflexivity).
    rewrite Ett. cbn [as_list bind]. rewrite strs_of_map. cbn [bind]. rewrite (fb_dspec (D k) (HD k)). reflexivity.
  Qed.
  Lemma atom_edge_text p k : In k (neighbors g p) -> edge_text g p k = Ok (optb (eo_of g p k)).
  Proof.
    intros Hk. unfold neighbors in Hk. destruct (gfind p g) as [n|] eqn:Hf; [|contradiction].
    destruct (gfind_some p g n Hf) as [Hn Ek]. destruct (adj_get_some k (nadj n) Hk) as [a Ha].
    destruct (Hord n Hn (k, a) (adj_get_in k _ a Ha)) as [z [Ez Hz]]. cbn [snd] in Ez.
    destruct (Hnodes n Hn) as (_ & _ & _ & A4 & _).
    assert (Ea : match aget (S "aromatic") (na n) with Some v => truthy v | None => false end = false) by (destruct A4 as [-> | ->]; reflexivity).
    unfold edge_text, write_edge_symbol, WriteImpl.edge_order, eo_of, edge_attrs, node_flag, node_attrs. rewrite Hf, Ha. cbn [bind]. rewrite Ez, Ea. cbn [bind andb orb].
    assert (C : z = 0 \/ z = 1 \/ z = 2 \/ z = 3 \/ z = 4) by lia.
    destruct C as [->|[->|[->|[->| ->]]]]; reflexivity.
  Qed.

  Theorem atom_tree_graph : forall fo a0 F start,
    fragment_node_parser fo [] = Ok a0 ->
    graph_wf g = true -> min_node g = Ok start ->
    exists T, rkey T = start /\ dfs_edges g start = Ok (redges T) /\ NoDup (rkeys T)
      /\ (forall x, reachable g start x -> In x (rkeys T))
      /\ (forall e, In e (redges T) -> In (snd e) (neighbors g (fst e)))
      /\ let eo := eo_of g in
         let dd := ddl 0 (map D (worder T)) [] in
         let ann := annl a0 0 (map (fun k => negb (a_bare (sp k))) (worder T)) [] in
         write_graph_full_by (S "atomname") true dh g [] = Ok {| r_text := tree_text (stok sp) D eo T; r_visit := worder T; r_mtrace := [] |}
         /\ strip_bonding_descriptors fo (tree_text (stok sp) D eo T) = Ok (tree_clean (stok sp) eo T, dd, [], ann)
         /\ smiles_parse (tree_clean (stok sp) eo T) = Ok (tree_sgraph (sattrs sp) eo T)
         /\ fragment_template fo F (tree_text (stok sp) D eo T) = Ok (assemble F (tree_sgraph (sattrs sp) eo T) dd ann).
  Proof.
    intros fo a0 F start Hp0 Hwf Hmin.
    destruct (graph_wf_facts g Hwf) as [Hc Hnd]. destruct (min_node_in g start Hmin) as [Hs _].
    destruct (dfs_total g start Hc Hnd Hs) as [es Ees].
    destruct (dfs_reaches_all g start es Ees) as [T (A1 & A2 & A3 & A4 & A5)]. subst es.
    destruct (dfs_shape g start _ Ees) as [T' (B1 & B2 & _ & _ & B5 & _)].
    assert (Hedges : forall e, In e (redges T) -> In (snd e) (neighbors g (fst e))) by (intros e He; rewrite B2 in He; now apply B5).
    assert (Hkeys : forall k, In k (rkeys T) -> In k (node_keys g)).
    { intros k Hk. destruct T as [k0 cs]. cbn [rkey] in A1. subst k0. destruct Hk as [<-|Hk]; [assumption|].
      change (flat_map rkeys cs) with (tl (rkeys (RNode start cs))) in Hk. rewrite <- redges_snd in Hk.
      apply in_map_iff in Hk as [e [<- He]]. apply (Hc (fst e)). now apply Hedges. }
    exists T. split; [exact A1|]. split; [exact Ees|]. split; [exact A4|]. split; [exact A5|]. split; [exact Hedges|]. cbv zeta.
    assert (Hn : (rsize T <= length g)%nat).
    { pose proof (NoDup_incl_length A4 Hkeys) as Hl. unfold rsize, node_keys in *. now rewrite map_length in Hl. }
    destruct (atom_tree_transcript fo a0 F sp D (eo_of g) T (length g) (node_text_by (S "atomname") true dh g) (edge_text g) (edge_text g) Hp0 A4 Hn HS HD) as (W1 & W2 & W3 & W4).
    - intros k Hk. apply atom_node_text. now apply Hkeys.
    - intros e He. apply atom_edge_text. now apply Hedges.
    - split; [|split; [exact W2|split; [exact W3|exact W4]]].
      unfold write_graph_full_by. rewrite Hmin. cbn [bind]. rewrite Ees. cbn [bind]. subst start. exact W1.
  Qed.
End AtomGraph.

(** ring-free = the transcript of ring edges is []: under the writer's contract for it EVERY bond of g is an edge of
    the DFS tree, so the template's bonds (= the tree edges, [atom_tree_template_iso]) are all the bonds of g *)
Lemma ring_free_all_tree g T start : graph_wf g = true -> min_node g = Ok start -> dfs_edges g start = Ok (redges T) ->
  ring_contract g (dfs_tree g) [] = true ->
  forall u v, NxGraph.has_edge g u v = true -> In (u, v) (redges T) \/ In (v, u) (redges T).
Proof.
  intros Hwf Hmin Hd Hrc u v He.
  assert (Et : dfs_tree g = redges T) by (unfold dfs_tree; now rewrite Hmin, Hd).
  destruct (ring_contract_props g [] Hwf Hrc) as (_ & _ & _ & R4). destruct (R4 u v He) as [[te [Hin Hs]]|[e [[] _]]].
  rewrite Et in Hin. destruct te as [a b]. unfold same_edge in Hs. cbn [fst snd] in Hs.
  apply orb_prop in Hs as [Hs|Hs]; apply andb_prop in Hs as [E1 E2]; apply Z.eqb_eq in E1, E2; subst; [now left|now right].
Qed.

(** ------------------------------------------------------------------ the hypotheses, decided *)
Fixpoint vstrs_eqb (l : list pyval) (m : list pystr) : bool :=
  match l, m with
  | [], [] => true
  | VStr a :: l', b :: m' => str_eqb a b && vstrs_eqb l' m'
  | _, _ => false
  end.
Lemma vstrs_eqb_eq : forall l m, vstrs_eqb l m = true -> l = map VStr m.
Proof.
  induction l as [|v l IH]; intros [|b m] H; try discriminate; [reflexivity| |]; cbn [vstrs_eqb] in H.
  - destruct v; discriminate.
  - destruct v; try discriminate. apply andb_prop in H as [H1 H2]. apply str_eqb_eq in H1. subst. cbn [map]. f_equal. now apply IH.
Qed.
Definition atom_ok_b (dh : Z -> bool) (sp : Z -> aspec) (D : Z -> list dspec) (n : nrec) : bool :=
  match aget (S "element") (na n) with Some (VStr e) => str_eqb e (a_el (sp (nk n))) | _ => false end
  && match aget (S "charge") (na n) with None => Z.eqb (a_c (sp (nk n))) 0 | Some (VInt z) => Z.eqb z (a_c (sp (nk n))) | _ => false end
  && match aget (S "hcount") (na n) with None => Z.eqb (a_h (sp (nk n))) 0 | Some (VInt z) => Z.eqb z (a_h (sp (nk n))) | _ => false end
  && match aget (S "aromatic") (na n) with None => true | Some (VBool false) => true | _ => false end
  && negb (ahas (S "rs_isomer") (na n)) && negb (ahas (S "isotope") (na n)) && negb (ahas (S "class") (na n))
  && Bool.eqb (a_bare (sp (nk n))) (Z.eqb (a_c (sp (nk n))) 0 && dh (nk n))
  && match aget (S "bonding") (na n), D (nk n) with
     | None, [] => true
     | Some (VList l), (x :: xs) => vstrs_eqb l (map d_stored (x :: xs))
     | _, _ => false
     end.
Lemma atom_ok_dec dh sp D n : atom_ok_b dh sp D n = true -> atom_ok dh sp D n.
Proof.
  unfold atom_ok_b, atom_ok. intros H. repeat (apply andb_prop in H; destruct H as [H ?]).
  repeat split.
  - destruct (aget (S "element") (na n)) as [[| | | |e| | |]|]; try discriminate H. apply str_eqb_eq in H. now subst e.
  - destruct (aget (S "charge") (na n)) as [[| |z| | | | |]|]; try discriminate; [right|left]; match goal with X : Z.eqb _ _ = true |- _ => apply Z.eqb_eq in X end; [now subst z|now split].
  - destruct (aget (S "hcount") (na n)) as [[| |z| | | | |]|]; try discriminate; [right|left]; match goal with X : Z.eqb _ (a_h _) = true |- _ => apply Z.eqb_eq in X | X : Z.eqb (a_h _) _ = true |- _ => apply Z.eqb_eq in X end; [now subst z|now split].
  - destruct (aget (S "aromatic") (na n)) as [[|[]| | | | | |]|]; try discriminate; [now right|now left].
  - unfold ahas in *. destruct (aget (S "rs_isomer") (na n)); [discriminate|reflexivity].
  - unfold ahas in *. destruct (aget (S "isotope") (na n)); [discriminate|reflexivity].
  - unfold ahas in *. destruct (aget (S "class") (na n)); [discriminate|reflexivity].
  - now apply Bool.eqb_prop.
  - destruct (aget (S "bonding") (na n)) as [[| | | | |l| |]|], (D (nk n)) as [|x xs]; try discriminate; [|reflexivity].
    f_equal. f_equal. now apply vstrs_eqb_eq.
Qed.
Definition orders_ok_b (g : graph) : bool :=
  forallb (fun n => forallb (fun wa => match aget (S "order") (snd wa) with Some (VInt z) => (0 <=? z) && (z <=? 4) | _ => false end) (nadj n)) g.
Lemma orders_ok_dec g : orders_ok_b g = true -> orders_ok g.
Proof.
  unfold orders_ok_b, orders_ok. intros Hb n Hn wa Hwa. rewrite forallb_forall in Hb. specialize (Hb n Hn). rewrite forallb_forall in Hb. specialize (Hb wa Hwa).
  clear Hn Hwa. destruct (aget (S "order") (snd wa)) as [[| |z| | | | |]|]; try discriminate Hb. exists z. split; [reflexivity|]. apply andb_prop in Hb as [B1 B2]. lia.
Qed.

(** ------------------------------------------------------------------ non-vacuity *)
Definition mkag (nodes : list (Z * string * Z * Z * list dspec)) (edges : list (Z * Z * Z)) : graph :=
  fold_left (fun g e => add_edge g (fst (fst e)) (snd (fst e)) [(S "order", VInt (snd e))]) edges
    (fold_left (fun g x => let '(k, e, h, c, Ds) := x in
                           add_node g k ([(S "element", VStr (S e)); (S "charge", VInt c); (S "aromatic", VBool false); (S "fragname", VStr (S "X"));
                                          (S "hcount", VInt h)]
                                         ++ match Ds with [] => [] | _ => [(S "bonding", VList (map VStr (map d_stored Ds)))] end))
               nodes gempty).
(** nested branches, a double bond on a branch edge, a triple bond on a chain edge, a charged atom [N+], an atom without
    default hydrogen count [CH2], the two-letter Cl, descriptors of the four kinds with orders 0, 1, 2 *)
Definition ex_ag : graph :=
  mkag [(0, "C", 1, 0, [("$"%char, S "a", 1%nat)]); (1, "O", 0, 0, [(">"%char, [], 1%nat)]); (2, "N", 0, 1, []); (3, "C", 3, 0, []); (4, "C", 2, 0, []); (5, "F", 0, 0, []);
        (6, "Cl", 0, 0, [("<"%char, S "x", 2%nat); ("!"%char, [], 0%nat)])]%string
       [(0, 1, 2); (0, 2, 1); (2, 3, 1); (2, 4, 1); (4, 5, 1); (3, 6, 3)].
Definition ex_dh (k : Z) : bool := negb (Z.eqb k 4).
Definition mksp (e : string) (h c : Z) (b : bool) : aspec := {| a_el := S e; a_h := h; a_c := c; a_bare := b |}.
Definition ex_asp (k : Z) : aspec :=
  if Z.eqb k 1 then mksp "O" 0 0 true else if Z.eqb k 2 then mksp "N" 0 1 false else if Z.eqb k 3 then mksp "C" 3 0 true
  else if Z.eqb k 4 then mksp "C" 2 0 false else if Z.eqb k 5 then mksp "F" 0 0 true else if Z.eqb k 6 then mksp "Cl" 0 0 true else mksp "C" 1 0 true.
Definition ex_aD (k : Z) : list dspec :=
  if Z.eqb k 0 then [("$"%char, S "a", 1%nat)] else if Z.eqb k 1 then [(">"%char, [], 1%nat)]
  else if Z.eqb k 6 then [("<"%char, S "x", 2%nat); ("!"%char, [], 0%nat)] else [].
Definition ex_aT : rtree := RNode 0 [RNode 1 []; RNode 2 [RNode 3 [RNode 6 []]; RNode 4 [RNode 5 []]]].
Example atom_tree_example :
  let fo : float_oracle := fun _ => None in
  graph_wf ex_ag = true /\ min_node ex_ag = Ok 0 /\ ring_contract ex_ag (dfs_tree ex_ag) [] = true
  /\ forallb (atom_ok_b ex_dh ex_asp ex_aD) ex_ag = true /\ orders_ok_b ex_ag = true
  /\ forallb (fun k => aspec_ok (ex_asp k)) [0; 1; 2; 3; 4; 5; 6; 7] = true
  /\ dfs_edges ex_ag 0 = Ok (redges ex_aT)
  /\ write_graph_by (S "atomname") true ex_dh ex_ag [] = Ok (S "C[$a]([N+]([CH2]F)C#Cl=[<x].[!])=O[>]")
  /\ tree_text (stok ex_asp) ex_aD (eo_of ex_ag) ex_aT = S "C[$a]([N+]([CH2]F)C#Cl=[<x].[!])=O[>]"
  /\ tree_clean (stok ex_asp) (eo_of ex_ag) ex_aT = S "C([N+]([CH2]F)C#Cl)=O"
  /\ match fragment_template fo (S "X") (S "C[$a]([N+]([CH2]F)C#Cl=[<x].[!])=O[>]") with
     | Ok Tm => map (fun a => (aget (S "element") a, aget (S "charge") a, aget (S "hcount") a, aget (S "bonding") a)) (t_nodes Tm)
                = [(Some (VStr (S "C")), Some (VInt 0), None, Some (VList [VStr (S "$a1")])); (Some (VStr (S "N")), Some (VInt 1), Some (VInt 0), None);
                   (Some (VStr (S "C")), Some (VInt 0), Some (VInt 2), None); (Some (VStr (S "F")), Some (VInt 0), None, None);
                   (Some (VStr (S "C")), Some (VInt 0), None, None); (Some (VStr (S "Cl")), Some (VInt 0), None, Some (VList [VStr (S "<x2"); VStr (S "!0")]));
                   (Some (VStr (S "O")), Some (VInt 0), None, Some (VList [VStr (S ">1")]))]
                /\ t_edges Tm = [(0, 1, VInt 1); (1, 2, VInt 1); (2, 3, VInt 1); (1, 4, VInt 1); (4, 5, VInt 3); (0, 6, VInt 2)]%nat
     | Err _ => False
     end.
Proof. cbv zeta. do 10 (split; [vm_compute; reflexivity|]). vm_compute. split; reflexivity. Qed.
