(** TreeWrite: the serialisation loop of write_graph on ANY tree-shaped DFS transcript without ring edges
    (any branching, any depth) writes [wtext] (TreeDefs) -- by induction over the rose tree, with the
    to_visit stack, the branches set and branch_depth as the loop keeps them. *)
From Coq Require Import String.
From Coq Require Import List Ascii ZArith Bool Lia.
From CGV Require Import Base.PyBase Base.PyVal Base.PyGen Base.NxGraph Write.WriteImpl Write.TreeDefs.
Import ListNotations.
Open Scope Z_scope.

Definition mkw (stack br : list Z) (d : nat) (out : pystr) (mk : list (nat * nat)) (vis : list Z) (mt : list (Z * list nat)) : wst :=
  {| w_stack := stack; w_branches := br; w_depth := d; w_out := out; w_marks := mk; w_visit := vis; w_mtrace := mt |}.
Definition drop_key (k : Z) (l : list Z) : list Z := filter (fun x => negb (Z.eqb x k)) l.

Lemma memz_true x l : memz x l = true <-> In x l.
Proof.
  unfold memz. rewrite existsb_exists. split.
  - intros [y [H1 H2]]. apply Z.eqb_eq in H2. now subst.
  - intros H. exists x. split; [assumption|apply Z.eqb_refl].
Qed.
Lemma memz_false_iff x l : memz x l = false <-> ~ In x l.
Proof. rewrite <- memz_true. destruct (memz x l); split; congruence. Qed.
Lemma drop_key_notin k l : ~ In k l -> drop_key k l = l.
Proof.
  induction l as [|a l IH]; intros H; cbn; [reflexivity|].
  destruct (Z.eqb_spec a k); [exfalso; apply H; now left|]. cbn. f_equal. apply IH. intros H'. apply H. now right.
Qed.
Lemma drop_key_app k l m : drop_key k (l ++ m) = drop_key k l ++ drop_key k m.
Proof. unfold drop_key. apply filter_app. Qed.
Lemma drop_key_single k : drop_key k [k] = [].
Proof. cbn. now rewrite Z.eqb_refl. Qed.

Lemma nodup_app_left {A} (l m : list A) : NoDup (l ++ m) -> NoDup l.
Proof. induction l as [|a l IH]; cbn; intros H; [constructor|]. inversion H; subst. constructor; [|auto]. intros Hin. apply H2. apply in_or_app. now left. Qed.
Lemma nodup_app_right {A} (l m : list A) : NoDup (l ++ m) -> NoDup m.
Proof. induction l as [|a l IH]; cbn; [auto|]. intros H. inversion H. auto. Qed.
Lemma nodup_app_disj {A} (l m : list A) : NoDup (l ++ m) -> forall x, In x l -> ~ In x m.
Proof.
  induction l as [|a l IHl]; intros ND x H1 H2; [contradiction|]. cbn in ND. inversion ND as [|? ? Hn ND']. subst.
  destruct H1 as [->|H1]; [apply Hn; apply in_or_app; now right|eapply IHl; eauto].
Qed.

Section Loop.
  Variables (sf : bool) (ntext : Z -> pystr) (stext : Z -> Z -> pystr) (env : wenv).
  Hypothesis Hsf : e_smiles env = sf.
  Notation wtext := (wtext sf ntext stext).
  Notation whead := (whead sf ntext stext).
  Notation wbranches := (wbranches sf ntext stext).
  Notation tree_env := (tree_env ntext stext env).
  Notation forest_env := (forest_env ntext stext env).

  (** one iteration at node k *)
  Lemma wstep_node k cs p isb rest Bs d out mk vis mt :
    tree_env p (RNode k cs) -> memz k Bs = isb ->
    wstep env k (mkw rest Bs d out mk vis mt)
    = Ok (let d1 := if isb then Datatypes.S d else d in
          let B1 := if isb then drop_key k Bs else Bs in
          match cs with
          | [] => mkw rest B1 (dout isb d) (out ++ whead p isb k ++ (if (0 <? d1)%nat then S ")" else [])) mk (k :: vis) mt
          | _ => mkw (rev (map rkey cs) ++ rest) (B1 ++ tl (map rkey cs)) d1 (out ++ whead p isb k) mk (k :: vis) mt
          end).
  Proof.
    intros He Hb. cbn [TreeDefs.tree_env] in He. destruct He as (Hp & Hs & Hr & Hf & Hy & _).
    unfold wstep, mkw. cbn [w_branches w_depth w_out w_marks w_visit w_mtrace w_stack].
    rewrite Hb, Hp, Hf, Hr, Hs, Hsf.
    assert (Esym : match match p with Some q => Some [q] | None => None end with
                   | Some [previous] => e_sym env previous k | Some _ => Err EAssert | None => Ok [] end
                   = Ok (match p with Some q => stext q k | None => [] end)).
    { destruct p as [q|]; [exact Hy|reflexivity]. }
    rewrite Esym. cbn [bind].
    assert (Eout : (if isb && sf then out ++ S "(" else out) ++
                   (match p with Some q => stext q k | None => [] end) ++ (if isb && negb sf then S "(" else []) ++ ntext k
                   = out ++ whead p isb k).
    { unfold TreeDefs.whead. destruct (isb && sf); rewrite <- ?app_assoc; reflexivity. }
    unfold drop_key.
    destruct cs as [|c1 bs].
    - f_equal. unfold dout. destruct isb; [|destruct d as [|d']]; cbn [Nat.ltb Nat.leb]; unfold mkw;
        f_equal; try lia; try (rewrite app_nil_r; exact Eout);
        try (match goal with |- _ = out ++ ?w ++ ?c => transitivity ((out ++ w) ++ c); [f_equal; exact Eout|symmetry; apply app_assoc] end).
    - f_equal. unfold mkw. f_equal. exact Eout.
  Qed.

  (** the loop on a whole subtree; [Q] is the same statement for the later children of a node, which are
      written as branches, last one first *)
  Definition P (t : rtree) : Prop :=
    forall p isb d f rest Bs out mk vis mt,
      tree_env p t -> NoDup (rkeys t) -> memz (rkey t) Bs = isb -> (forall x, In x (tl (rkeys t)) -> ~ In x Bs) ->
      wloop (rsize t + f) env (mkw (rkey t :: rest) Bs d out mk vis mt)
      = wloop f env (mkw rest (drop_key (rkey t) Bs) (dout isb d) (out ++ wtext p isb d t) mk (rev (worder t) ++ vis) mt).

  Lemma forest_step k d1 : forall bs, Forall P bs ->
    forall f rest Bx out mk vis mt,
      forest_env k bs -> NoDup (flat_map rkeys bs) -> (forall x, In x (flat_map rkeys bs) -> ~ In x Bx) ->
      wloop (length (flat_map rkeys bs) + f) env (mkw (rev (map rkey bs) ++ rest) (Bx ++ map rkey bs) d1 out mk vis mt)
      = wloop f env (mkw rest Bx d1 (out ++ wbranches k d1 bs) mk (rev (worder_branches bs) ++ vis) mt).
  Proof.
    induction 1 as [|c r Hc Hr IH]; intros f rest Bx out mk vis mt He ND Hx.
    - cbn. now rewrite !app_nil_r.
    - cbn [TreeDefs.forest_env] in He. destruct He as [Hec Her].
      cbn [flat_map] in ND, Hx. cbn [map rev flat_map].
      assert (NDc : NoDup (rkeys c)) by (eapply nodup_app_left; exact ND).
      assert (NDr : NoDup (flat_map rkeys r)) by (eapply nodup_app_right; exact ND).
      assert (Hdis : forall x, In x (rkeys c) -> ~ In x (flat_map rkeys r)) by (apply nodup_app_disj; exact ND).
      (* the later siblings r first: their keys sit behind (Bx ++ [rkey c]) *)
      rewrite app_length, <- Nat.add_assoc.
      replace (Datatypes.length (rkeys c) + (Datatypes.length (flat_map rkeys r) + f))%nat
        with (Datatypes.length (flat_map rkeys r) + (rsize c + f))%nat by (unfold rsize; lia).
      rewrite <- app_assoc. cbn [app].
      replace (Bx ++ rkey c :: map rkey r) with ((Bx ++ [rkey c]) ++ map rkey r) by (now rewrite <- app_assoc).
      assert (Hkc : In (rkey c) (rkeys c)) by (destruct c; now left).
      rewrite IH; [|exact Her|exact NDr|].
      2:{ intros x Hxr Hin. apply in_app_or in Hin as [Hin|[<-|[]]].
          - apply (Hx x); [apply in_or_app; now right|exact Hin].
          - apply (Hdis (rkey c)); assumption. }
      (* then c itself, as a branch *)
      rewrite (Hc (Some k) true d1 f rest (Bx ++ [rkey c])); [| exact Hec | exact NDc | |].
      + unfold dout. rewrite drop_key_app, drop_key_single, app_nil_r.
        rewrite drop_key_notin by (apply Hx; apply in_or_app; now left).
        f_equal. unfold mkw. f_equal.
        * unfold TreeDefs.wbranches. rewrite <- !app_assoc. reflexivity.
        * unfold worder_branches. rewrite rev_app_distr, <- app_assoc. reflexivity.
      + apply memz_true. apply in_or_app. right. now left.
      + intros x Hxt Hin. assert (Hxc : In x (rkeys c)) by (destruct c as [kc cc]; right; exact Hxt).
        apply in_app_or in Hin as [Hin|[E|[]]].
        * apply (Hx x); [apply in_or_app; now left|exact Hin].
        * subst x. destruct c as [kc cc]. cbn [rkeys rkey tl] in *. inversion NDc. contradiction.
  Qed.

  Theorem wloop_tree : forall t, P t.
  Proof.
    apply rtree_ind2. intros k cs IHcs. unfold P.
    intros p isb d f rest Bs out mk vis mt He ND Hb Hx.
    cbn [rkey rkeys rsize length]. cbn [rkeys rkey tl] in Hx, ND.
    change (Datatypes.S (Datatypes.length (flat_map rkeys cs)) + f)%nat with (Datatypes.S (Datatypes.length (flat_map rkeys cs) + f)).
    cbn [wloop mkw w_stack w_branches w_depth w_out w_marks w_visit w_mtrace].
    change {| w_stack := rest; w_branches := Bs; w_depth := d; w_out := out; w_marks := mk; w_visit := vis; w_mtrace := mt |}
      with (mkw rest Bs d out mk vis mt).
    rewrite (wstep_node k cs p isb rest Bs d out mk vis mt He Hb). cbn [bind].
    assert (HB1 : (if isb then drop_key k Bs else Bs) = drop_key k Bs).
    { destruct isb; [reflexivity|]. symmetry. apply drop_key_notin. now apply memz_false_iff. }
    rewrite HB1.
    destruct cs as [|c1 bs].
    - cbn [flat_map length Nat.add worder rev app TreeDefs.wtext]. reflexivity.
    - set (d1 := if isb then Datatypes.S d else d).
      cbn [TreeDefs.tree_env] in He. destruct He as (_ & _ & _ & _ & _ & Hec1 & Hebs).
      pose proof (Forall_inv IHcs) as Hc1. pose proof (Forall_inv_tail IHcs) as Hbs.
      apply NoDup_cons_iff in ND as [Hnk NDcs]. cbn [flat_map] in NDcs, Hnk, Hx.
      assert (NDc1 : NoDup (rkeys c1)) by (eapply nodup_app_left; exact NDcs).
      assert (NDbs : NoDup (flat_map rkeys bs)) by (eapply nodup_app_right; exact NDcs).
      assert (Hdis : forall x, In x (rkeys c1) -> ~ In x (flat_map rkeys bs)) by (apply nodup_app_disj; exact NDcs).
      assert (Hdrop : forall x, ~ In x Bs -> ~ In x (drop_key k Bs)).
      { intros x Hn Hin. apply Hn. unfold drop_key in Hin. apply filter_In in Hin. tauto. }
      cbn [map rev tl flat_map]. rewrite app_length.
      replace (Datatypes.length (rkeys c1) + Datatypes.length (flat_map rkeys bs) + f)%nat
        with (Datatypes.length (flat_map rkeys bs) + (rsize c1 + f))%nat by (unfold rsize; lia).
      rewrite <- app_assoc. cbn [app].
      (* the later children, as branches *)
      rewrite (forest_step k d1 bs Hbs (rsize c1 + f)%nat (rkey c1 :: rest) (drop_key k Bs)); [|exact Hebs|exact NDbs|].
      2:{ intros x Hxb. apply Hdrop. apply Hx. apply in_or_app. now right. }
      (* the first child: the continuation of the chain *)
      assert (Hkc : In (rkey c1) (rkeys c1)) by (destruct c1; now left).
      rewrite (Hc1 (Some k) false d1 f rest (drop_key k Bs)); [|exact Hec1|exact NDc1| |].
      + rewrite (drop_key_notin (rkey c1)) by (apply Hdrop; apply Hx; apply in_or_app; now left).
        f_equal. unfold mkw. f_equal.
        * unfold dout, d1. destruct isb; lia.
        * cbn [TreeDefs.wtext]. fold d1. unfold TreeDefs.wbranches. rewrite <- !app_assoc. reflexivity.
        * change (worder (RNode k (c1 :: bs))) with (k :: worder_branches bs ++ worder c1).
          cbn [rev]. rewrite rev_app_distr, <- !app_assoc. reflexivity.
      + apply memz_false_iff. apply Hdrop. apply Hx. apply in_or_app. now left.
      + intros x Hxt. apply Hdrop. apply Hx. apply in_or_app. left. destruct c1 as [kc cc]. right. exact Hxt.
  Qed.
End Loop.
