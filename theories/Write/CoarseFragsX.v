(** CoarseFragsX: C08 for a LIST of coarse fragments of ANY shape (branches, rings, any bond orders), unbounded.
    write_cgsmiles_fragments(smiles_format=False) writes "{#name1=text1,#name2=text2,...}"; every text_i is the
    rendering of the writer's decorated item list of fragment i ([CoarseGraphX.coarse_graph_roundtrip_any]) and is
    free of ',' (names [A-Za-z0-9_]+, descriptors, ring markers, bond symbols, parentheses); the splitting of
    fragment_iter (the strip component's [fragment_split]) gives back the pairs (name_i, text_i) in order; and every
    text_i is read by the model of the coarse branch of fragment_iter as a graph isomorphic to fragment i,
    post-processed with exactly its descriptor dict. *)
From Coq Require Import String.
From Coq Require Import List Ascii ZArith Bool Lia.
From CGV Require Import Base.PyBase Base.PyVal Base.PyGen Base.NxGraph Gen.WriterGen Dialect.DialectImpl.
From CGV Require Import Write.WriteImpl Write.WriteDefs Write.WriteProofs Write.FormatBondingSpec Write.FormatStripRound Write.CoarseChain Write.CoarseFrags.
From CGV Require Import Write.TreeDefs Write.TreeRound Write.RingDefs Write.RingRead Write.RingRound Write.RingTables Write.FullMachine Write.FullDomain Write.FullCode Write.FullIso Write.FullRound Write.WriteRound Write.CoarseGraph Write.CoarseTrack Write.CoarseGraphX.
From CGV Require Import Frag.NDict Frag.StripImpl Frag.FragText Frag.FragProofs Frag.FragTextX.
From CGV Require Import Reader.ReaderImpl Reader.Grammar Reader.Lin Write.FragRead.
Import ListNotations.
Open Scope Z_scope.

(** ------------------------------------------------------------------ no comma in the text of a decorated item list *)
Lemma nocomma_nil : nocomma [].
Proof. intros []. Qed.
Lemma nocomma_cons c s : c <> ","%char -> nocomma s -> nocomma (c :: s).
Proof. unfold nocomma. intros H1 H2 [E|H]; [now subst|auto]. Qed.
Lemma name_nocomma s : valid_name s = true -> nocomma s.
Proof.
  unfold valid_name. destruct s as [|c0 s0]; [discriminate|]. intros H Hin. rewrite forallb_forall in H. specialize (H _ Hin).
  unfold name_char in H. cbn in H. discriminate.
Qed.
Lemma digits_nocomma s : forallb is_digit s = true -> nocomma s.
Proof. intros H Hin. rewrite forallb_forall in H. specialize (H _ Hin). discriminate. Qed.
Lemma marker_nocomma m : FragText.marker_ok m = true -> nocomma m.
Proof.
  destruct m as [|p [|d ds]]; cbn [FragText.marker_ok]; [discriminate| |].
  - intros H. apply digits_nocomma. cbn [forallb]. now rewrite H.
  - intros H. apply andb_prop in H as [Hp Hd]. apply nocomma_cons; [|now apply digits_nocomma].
    unfold is_percent in Hp. apply Ascii.eqb_eq in Hp. subst p. discriminate.
Qed.
Lemma osym_nocomma o : nocomma (osym_str o).
Proof. destruct o as [[]|]; unfold nocomma; cbn; intuition discriminate. Qed.
Lemma rings_nocomma rs : forallb (fun om => FragText.marker_ok (marker_str (snd om))) rs = true -> nocomma (concat (map plain_item rs)).
Proof.
  induction rs as [|om rs IH]; intros H; [apply nocomma_nil|]. cbn [forallb] in H. apply andb_prop in H as [H1 H2].
  cbn [map concat]. apply nocomma_app; [|now apply IH]. unfold plain_item. apply nocomma_app; [apply osym_nocomma|now apply marker_nocomma].
Qed.
Definition item_plain (x : lin * list dspec) : Prop :=
  valid_name (l_name (fst x)) = true /\ forallb d_ok (snd x) = true
  /\ forallb (fun om => FragText.marker_ok (marker_str (snd om))) (l_rings (fst x)) = true.
Lemma nocomma_ditems1 x : item_plain x -> nocomma (render (ditems1 x)).
Proof.
  destruct x as [i Ds]. intros (Hn & Hd & Hr). cbn [fst snd] in *. unfold ditems1. rewrite render_app. apply nocomma_app.
  - destruct (l_open i); [apply nocomma_cons; [discriminate|apply nocomma_nil]|apply nocomma_nil].
  - rewrite render_cons, !render_app, render_rtoks, render_btoks.
    assert (Ed : render (map IDesc (map to_desc Ds)) = fbt Ds) by (unfold render; now apply render_descs). rewrite Ed.
    apply nocomma_app.
    + cbn [render_item render_tok]. apply nocomma_cons; [discriminate|]. apply nocomma_app; [apply nocomma_cons; [discriminate|now apply name_nocomma]|].
      cbn [app]. apply nocomma_cons; [discriminate|apply nocomma_nil].
    + apply nocomma_app; [now apply fbt_nocomma|]. apply nocomma_app; [now apply rings_nocomma|]. apply nocomma_app; [apply osym_nocomma|].
      destruct (l_close i) as [a|]; [|apply nocomma_nil]. rewrite render_cons, render_btoks. cbn [render_item render_tok].
      apply nocomma_cons; [discriminate|apply osym_nocomma].
Qed.
Lemma nocomma_ditems dl : Forall item_plain dl -> nocomma (render (ditems dl)).
Proof.
  induction dl as [|x r IH]; intros H; [apply nocomma_nil|]. unfold ditems. cbn [flat_map]. fold (ditems r). rewrite render_app.
  apply nocomma_app; [apply nocomma_ditems1; exact (Forall_inv H)|apply IH; exact (Forall_inv_tail H)].
Qed.
(** [dl_wfx] gives the descriptor and marker conditions *)
Lemma dl_wfx_conds : forall dl z d, dl_wfx z d dl = true ->
  Forall (fun x => forallb d_ok (snd x) = true /\ forallb (fun om => FragText.marker_ok (marker_str (snd om))) (l_rings (fst x)) = true) dl.
Proof.
  induction dl as [|[i Ds] r IH]; intros z d H; [constructor|]. cbn [dl_wfx] in H.
  apply andb_prop in H as [H H5]. apply andb_prop in H as [H H4]. apply andb_prop in H as [H H3].
  constructor; [cbn [fst snd]; auto|].
  destruct (l_close i).
  - apply andb_prop in H5 as [_ H5]. destruct (if l_open i then Datatypes.S d else d); [discriminate|]. now apply (IH _ _ H5).
  - now apply (IH _ _ H5).
Qed.

(** ------------------------------------------------------------------ a list of coarse fragments of any shape *)
(** name of the fragment, the plain graph (names, bond orders), descriptors per node, transcript of the ring-edge set,
    nodes with a default hydrogen count (not consulted for coarse fragments) *)
Definition gfrag := (pystr * graph * (Z -> list dspec) * list (Z * Z) * list Z)%type.
Definition gf_name (f : gfrag) : pystr := let '(F, _, _, _, _) := f in F.
Definition gf_entry (f : gfrag) : frag_entry := let '(F, g, D, tr, dhl) := f in (F, decorate_graph F D g, tr, dhl).
Definition gf_def (ft : gfrag * pystr) : pystr := S "#" ++ gf_name (fst ft) ++ S "=" ++ snd ft.
Definition gf_ok (f : gfrag) : Prop :=
  let '(F, g, D, tr, dhl) := f in
  nocomma F /\ ~ In "="%char F
  /\ wf_C07 g = true /\ (forall n, In n g -> aget (S "aromatic") (na n) = None)
  /\ ring_contract g (dfs_tree g) tr = true /\ (forall k, forallb d_ok (D k) = true).
(** what is known of the text written for one fragment *)
Definition gf_back (fo : float_oracle) (a0 : attrs) (f : gfrag) (t : pystr) : Prop :=
  let '(F, g, D, tr, dhl) := f in
  exists T h, NoDup (rkeys T) /\ (forall x, In x (rkeys T) <-> In x (node_keys g)) /\
    let items := the_items (name_of g) (esym_of g) (rsym_of g tr) T tr in
    let dl := combine items (map D (worder T)) in
    t = render (ditems dl)
    /\ write_graph_by (S "atomname") false (fun k => memz k dhl) (decorate_graph F D g) tr = Ok t
    /\ strip_bonding_descriptors fo t = Ok (lins_str items, ddict 0 dl [], [], adict a0 0 dl [])
    /\ read_cgsmiles fo (lins_str items) = Ok h
    /\ graph_iso (fun k => base_attrs (name_of g k)) g h
    /\ read_coarse_fragment fo F t = Ok (post_fragment F h (ddict 0 dl []) (adict a0 0 dl [])).

Lemma gf_one fo a0 f : fragment_node_parser fo [] = Ok a0 -> gf_ok f -> exists t, gf_back fo a0 f t /\ nocomma t.
Proof.
  destruct f as [[[[F g] D] tr] dhl]. intros Hp0 (N1 & N2 & Hwf & Har & Hrc & HD).
  destruct (coarse_graph_roundtrip_any fo a0 (fun k => memz k dhl) F D g tr Hp0 Hwf Har Hrc HD) as [T (B3 & A5 & X)].
  cbv zeta in X. destruct X as (Hdl & txt & h & Et & W & St & Rd & Iso & Rc).
  exists txt. split.
  - unfold gf_back. exists T, h. split; [exact B3|]. split; [exact A5|]. cbv zeta. repeat split; assumption.
  - rewrite Et. apply nocomma_ditems. pose proof (dl_wfx_conds _ _ _ Hdl) as Hc. rewrite Forall_forall in *. intros [i Ds] Hin.
    destruct (Hc _ Hin) as [C1 C2]. unfold item_plain. cbn [fst snd] in *. split; [|split; assumption].
    apply (the_items_names g tr T Hwf (fun x Hx => proj1 (A5 x) Hx)). exact (in_combine_l _ _ _ _ Hin).
Qed.

Lemma split_gdef ft : ~ In "="%char (gf_name (fst ft)) -> split_fragment (gf_def ft) = (gf_name (fst ft), snd ft).
Proof.
  intros H. unfold split_fragment, gf_def. cbn [S list_ascii_of_string app].
  cbn [find_char]. change (Ascii.eqb "#" "=") with false. cbv iota.
  rewrite (find_char_first "="%char (gf_name (fst ft)) (snd ft) 1 H).
  replace (1 + length (gf_name (fst ft)))%nat with (Datatypes.S (length (gf_name (fst ft)))) by lia.
  f_equal.
  - unfold py_slice. cbn [skipn]. replace (Datatypes.S (length (gf_name (fst ft))) - 1)%nat with (length (gf_name (fst ft))) by lia.
    apply firstn_pre.
  - cbn [skipn]. apply skipn_past.
Qed.

Theorem coarse_fragments_roundtrip_any : forall fo a0 (fs : list gfrag),
  fragment_node_parser fo [] = Ok a0 -> fs <> [] -> Forall gf_ok fs ->
  exists ts, Forall2 (gf_back fo a0) fs ts /\
    let txt := S "{" ++ join (S ",") (map gf_def (combine fs ts)) ++ S "}" in
    write_cgsmiles_fragments false (map gf_entry fs) = Ok txt
    /\ fragment_split txt = combine (map gf_name fs) ts
    /\ read_coarse_fragments fo txt
       = map (fun ft => (gf_name (fst ft), read_coarse_fragment fo (gf_name (fst ft)) (snd ft))) (combine fs ts).
Proof.
  intros fo a0 fs Hp0 Hne H.
  assert (E : exists ts, Forall2 (fun f t => gf_back fo a0 f t /\ nocomma t) fs ts).
  { clear Hne. induction fs as [|f fs IH]; [exists []; constructor|].
    destruct (gf_one fo a0 f Hp0 (Forall_inv H)) as [t Ht]. destruct (IH (Forall_inv_tail H)) as [ts Hts]. exists (t :: ts). now constructor. }
  destruct E as [ts Hts]. exists ts. split; [clear - Hts; induction Hts as [|f t fs' ts' [X _] _ IH]; constructor; assumption|]. cbv zeta.
  assert (Hlen : length fs = length ts) by (clear - Hts; induction Hts; [reflexivity|cbn; now f_equal]).
  assert (Hw : write_cgsmiles_fragments false (map gf_entry fs) = Ok (S "{" ++ join (S ",") (map gf_def (combine fs ts)) ++ S "}")).
  { unfold write_cgsmiles_fragments.
    assert (B : write_fragments_body false (map gf_entry fs) = Ok (concat (map (fun t => t ++ S ",") (map gf_def (combine fs ts))))).
    { clear Hne H Hlen. induction Hts as [|f t fs ts [Hb _] Hr IH]; [reflexivity|].
      destruct f as [[[[F g] D] tr] dhl]. cbn [map combine write_fragments_body gf_entry].
      destruct Hb as [T [h (_ & _ & Hb)]]. cbv zeta in Hb. destruct Hb as (_ & W & _). rewrite W. cbn [bind]. rewrite IH. cbn [bind concat].
      unfold gf_def, gf_name. cbn [fst snd]. now rewrite <- !app_assoc. }
    rewrite B. cbn [bind]. unfold py_drop_last. now rewrite body_join. }
  assert (Hs : fragment_split (S "{" ++ join (S ",") (map gf_def (combine fs ts)) ++ S "}") = combine (map gf_name fs) ts).
  { unfold fragment_split.
    assert (E : forall B, removelast (skipn 1 (S "{" ++ B ++ S "}")) = B) by (intros B; cbn [S list_ascii_of_string app skipn]; apply removelast_snoc).
    rewrite E. change (S ",") with [","%char].
    rewrite (split_join ","%char (map gf_def (combine fs ts))).
    - rewrite map_map. clear Hne Hw E Hlen. induction Hts as [|f t fs ts [Hb Hc] Hr IH]; [reflexivity|].
      cbn [combine map]. rewrite IH by exact (Forall_inv_tail H). f_equal. rewrite split_gdef; [reflexivity|].
      cbn [fst]. pose proof (Forall_inv H) as Hf. destruct f as [[[[F g] D] tr] dhl]. unfold gf_ok in Hf. unfold gf_name. tauto.
    - destruct fs as [|f fs]; [contradiction|]. destruct ts as [|t ts]; [discriminate|discriminate].
    - clear Hne Hw E Hlen. induction Hts as [|f t fs ts [Hb Hc] Hr IH]; [constructor|]. cbn [combine map]. constructor; [|apply IH; exact (Forall_inv_tail H)].
      pose proof (Forall_inv H) as Hf. destruct f as [[[[F g] D] tr] dhl]. unfold gf_def, gf_name. cbn [fst snd]. destruct Hf as (N1 & _).
      apply nocomma_app; [unfold nocomma; cbn; intuition discriminate|]. apply nocomma_app; [exact N1|].
      apply nocomma_app; [unfold nocomma; cbn; intuition discriminate|exact Hc]. }
  split; [exact Hw|]. split; [exact Hs|].
  unfold read_coarse_fragments. rewrite Hs. clear - Hlen. revert ts Hlen. induction fs as [|f fs IH]; intros [|t ts] Hl; try discriminate; [reflexivity|].
  cbn [map combine fst snd]. f_equal. apply IH. now inversion Hl.
Qed.

(** non-vacuity: two fragments, the first with double bonds on two branch edges and a ring closed by a triple bond,
    the second with a ring closed by a double bond and a branch *)
Definition ex_gfs : list gfrag := [(S "X", ex_xg, ex_xD, ex_xtr, []); (S "Y", ex_cg, ex_cD, ex_ctr, [])].
Definition ex_gtxt := S "{#X=[#A][$a]#1[#B]=([#D])=([#PEO]=[>].[!x])[#C]1,#Y=[#A][$a]=1=[#B]([#PEO]=[>].[!x])[#C]1}".
Lemma noarom_dec g : forallb (fun n => match aget (S "aromatic") (na n) with None => true | Some _ => false end) g = true ->
  forall n, In n g -> aget (S "aromatic") (na n) = None.
Proof. intros H n Hn. rewrite forallb_forall in H. specialize (H n Hn). destruct (aget (S "aromatic") (na n)); [discriminate|reflexivity]. Qed.
Lemma ex_gfs_ok : Forall gf_ok ex_gfs.
Proof.
  assert (NC : forall c, nocomma [c] <-> c <> ","%char) by (intros c; unfold nocomma; cbn; intuition).
  constructor; [|constructor; [|constructor]]; unfold gf_ok.
  - split; [apply NC; discriminate|]. split; [intros [E|[]]; discriminate E|]. split; [vm_compute; reflexivity|].
    split; [apply noarom_dec; vm_compute; reflexivity|]. split; [vm_compute; reflexivity|].
    intros k. unfold ex_xD. destruct (k =? 0); [reflexivity|]. destruct (k =? 3); reflexivity.
  - split; [apply NC; discriminate|]. split; [intros [E|[]]; discriminate E|]. split; [vm_compute; reflexivity|].
    split; [apply noarom_dec; vm_compute; reflexivity|]. split; [vm_compute; reflexivity|].
    intros k. unfold ex_cD. destruct (k =? 0); [reflexivity|]. destruct (k =? 3); reflexivity.
Qed.
Example coarse_fragments_any_example :
  Forall gf_ok ex_gfs
  /\ write_cgsmiles_fragments false (map gf_entry ex_gfs) = Ok ex_gtxt
  /\ map fst (read_coarse_fragments (fun _ => None) ex_gtxt) = [S "X"; S "Y"]
  /\ map (fun nr => match snd nr with Ok h => map (fun n => (nk n, aget (S "atomname") (na n), aget (S "bonding") (na n))) h | Err _ => [] end)
         (read_coarse_fragments (fun _ => None) ex_gtxt)
     = [[(0, Some (VStr (S "A")), Some (VList [VStr (S "$a1")])); (1, Some (VStr (S "B")), None); (2, Some (VStr (S "D")), None);
         (3, Some (VStr (S "PEO")), Some (VList [VStr (S ">2"); VStr (S "!x0")])); (4, Some (VStr (S "C")), None)];
        [(0, Some (VStr (S "A")), Some (VList [VStr (S "$a1")])); (1, Some (VStr (S "B")), None);
         (2, Some (VStr (S "PEO")), Some (VList [VStr (S ">2"); VStr (S "!x0")])); (3, Some (VStr (S "C")), None)]].
Proof. split; [exact ex_gfs_ok|]. repeat split; vm_compute; reflexivity. Qed.
