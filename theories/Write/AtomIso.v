(** AtomIso: C08's statement for ring-free all-atom fragments of the finite atom domain, in one piece: the template that
    the model of fragment_iter(all_atom=True) (up to pysmiles' hydrogen completion) builds from what
    write_graph(smiles_format=True) wrote is ISOMORPHIC to the fragment graph, by k |-> position of k in the order of
    writing: a bijection between the nodes of g and the atoms 0..n-1 of the template; element, charge, hydrogen count of a
    bracket atom, aromatic flag, fragment name and every bonding descriptor on the atom it was attached to; and the bonds
    correspond both ways with their orders.  Composition of AtomTree.atom_tree_graph, atom_tree_template_iso and
    ring_free_all_tree. *)
From Coq Require Import String.
From Coq Require Import List Ascii ZArith Bool Lia Permutation.
From CGV Require Import Base.PyBase Base.PyVal Base.NxGraph Dialect.DialectImpl.
From CGV Require Import Write.WriteImpl Write.WriteDefs Write.FormatStripRound Write.TreeDefs Write.TreeTables Write.WfFacts Write.DfsProofs Write.ConnFacts
     Write.RingClose Write.AtomTree.
From CGV Require Import Frag.NDict Frag.StripImpl Frag.FragText Frag.SmilesParse Frag.Template.
Import ListNotations.
Open Scope Z_scope.

(** molecule.edges[u, v].get('order', 1) *)
Definition gorder (g : graph) (u v : Z) : pyval :=
  match edge_attrs g u v with Ok d => match aget (S "order") d with Some o => o | None => VInt 1 end | Err _ => VInt 1 end.
Lemma has_edge_neighbors g u v : In v (neighbors g u) -> NxGraph.has_edge g u v = true.
Proof.
  unfold neighbors, NxGraph.has_edge. destruct (gfind u g) as [n|]; [|contradiction]. intros H. destruct (adj_get_some v (nadj n) H) as [a ->]. reflexivity.
Qed.
Lemma ordv_gorder g u v : orders_ok g -> NxGraph.has_edge g u v = true -> ordv (eo_of g u v) = gorder g u v.
Proof.
  intros Ho He. unfold NxGraph.has_edge in He. unfold eo_of, gorder, edge_attrs. destruct (gfind u g) as [n|] eqn:Hf; [|discriminate].
  destruct (adj_get v (nadj n)) as [a|] eqn:Ha; [|discriminate]. destruct (gfind_some u g n Hf) as [Hn _].
  destruct (Ho n Hn (v, a) (adj_get_in v _ a Ha)) as [z [Ez Hz]]. cbn [snd] in Ez. rewrite Ez.
  assert (C : z = 0 \/ z = 1 \/ z = 2 \/ z = 3 \/ z = 4) by lia. destruct C as [->|[->|[->|[->| ->]]]]; reflexivity.
Qed.

Theorem atom_fragment_iso : forall dh sp D g,
  (forall k, aspec_ok (sp k) = true) -> (forall k, forallb d_ok (D k) = true) ->
  (forall n, In n g -> atom_ok dh sp D n) -> orders_ok g ->
  forall fo a0 F start, fragment_node_parser fo [] = Ok a0 -> graph_wf g = true -> min_node g = Ok start ->
  (forall x, In x (node_keys g) -> reachable g start x) ->          (* connected *)
  ring_contract g (dfs_tree g) [] = true ->                          (* ring-free *)
  exists txt Tm W,
    write_graph_by (S "atomname") true dh g [] = Ok txt /\ fragment_template fo F txt = Ok Tm
    /\ NoDup W /\ (forall k, In k W <-> In k (node_keys g)) /\ length (t_nodes Tm) = length W
    /\ (forall k, In k (node_keys g) ->
          nth_error W (pos W k) = Some k
          /\ nth_error (t_nodes Tm) (pos W k)
             = Some (template_node F (aattrs (sp k)) (match D k with [] => None | Ds => Some (map d_stored Ds) end)
                                   (if a_bare (sp k) then None else Some (aupdate [] a0))))
    /\ (forall u v, NxGraph.has_edge g u v = true ->
          In (pos W u, pos W v, gorder g u v) (t_edges Tm) \/ In (pos W v, pos W u, gorder g v u) (t_edges Tm))
    /\ (forall a b o, In (a, b, o) (t_edges Tm) ->
          exists u v, a = pos W u /\ b = pos W v /\ NxGraph.has_edge g u v = true /\ o = gorder g u v).
Proof.
  intros dh sp D g HS HD Hn Ho fo a0 F start Hp0 Hwf Hmin Hcon Hrc.
  destruct (atom_tree_graph dh sp D g HS HD Hn Ho fo a0 F start Hp0 Hwf Hmin) as [T (A1 & A2 & A3 & A4 & A5 & X)].
  cbv zeta in X. destruct X as (W1 & _ & _ & W4).
  destruct (graph_wf_facts g Hwf) as [Hc Hnd]. destruct (min_node_in g start Hmin) as [Hs _].
  assert (Hkeys : forall k, In k (rkeys T) -> In k (node_keys g)).
  { intros k Hk. destruct T as [k0 cs]. cbn [rkey] in A1. subst k0. destruct Hk as [<-|Hk]; [assumption|].
    change (flat_map rkeys cs) with (tl (rkeys (RNode start cs))) in Hk. rewrite <- redges_snd in Hk.
    apply in_map_iff in Hk as [e [<- He]]. apply (Hc (fst e)). now apply A5. }
  destruct (atom_tree_template_iso a0 F (sattrs sp) (fun k => negb (a_bare (sp k))) D (eo_of g) T A3) as (I1 & I2 & I3 & I4 & I5). cbv zeta in *.
  set (W := worder T) in *.
  set (Tm := assemble F (tree_sgraph (sattrs sp) (eo_of g) T) (ddl 0 (map D W) []) (annl a0 0 (map (fun k => negb (a_bare (sp k))) W) [])) in *.
  assert (HW : forall k, In k W <-> In k (node_keys g)).
  { intros k. split.
    - intros Hk. apply Hkeys. now apply (Permutation_in k I2).
    - intros Hk. apply (Permutation_in k (Permutation_sym I2)). apply A4. now apply Hcon. }
  exists (tree_text (stok sp) D (eo_of g) T), Tm, W.
  split; [unfold write_graph_by; now rewrite W1|]. split; [exact W4|]. split; [exact I1|]. split; [exact HW|]. split; [exact I3|].
  split; [|split].
  - intros k Hk. assert (Hr : In k (rkeys T)) by (apply (Permutation_in k I2); now apply HW).
    destruct (I4 k Hr) as [P1 P2]. split; [exact P1|]. rewrite P2. unfold sattrs. destruct (a_bare (sp k)); reflexivity.
  - intros u v He. destruct (ring_free_all_tree g T start Hwf Hmin A2 Hrc u v He) as [Hin|Hin].
    + left. apply (Permutation_in _ (Permutation_sym I5)). rewrite <- (ordv_gorder g u v Ho He).
      apply in_map_iff. exists (u, v). split; [reflexivity|exact Hin].
    + right. assert (He' : NxGraph.has_edge g v u = true) by (apply has_edge_neighbors; exact (A5 (v, u) Hin)).
      apply (Permutation_in _ (Permutation_sym I5)). rewrite <- (ordv_gorder g v u Ho He').
      apply in_map_iff. exists (v, u). split; [reflexivity|exact Hin].
  - intros a b o Hin. apply (Permutation_in _ I5) in Hin. apply in_map_iff in Hin as [[u v] [E Hin]]. cbn [fst snd] in E. inversion E; subst.
    assert (He : NxGraph.has_edge g u v = true) by (apply has_edge_neighbors; exact (A5 (u, v) Hin)).
    exists u, v. repeat split; [exact He|now apply ordv_gorder].
Qed.

(** the same with connectedness decided ([NxGraph.connected], the executable test) *)
Corollary atom_fragment_iso_connected : forall dh sp D g,
  (forall k, aspec_ok (sp k) = true) -> (forall k, forallb d_ok (D k) = true) ->
  (forall n, In n g -> atom_ok dh sp D n) -> orders_ok g ->
  forall fo a0 F start, fragment_node_parser fo [] = Ok a0 -> graph_wf g = true -> min_node g = Ok start ->
  connected g = true -> ring_contract g (dfs_tree g) [] = true ->
  exists txt Tm W,
    write_graph_by (S "atomname") true dh g [] = Ok txt /\ fragment_template fo F txt = Ok Tm
    /\ NoDup W /\ (forall k, In k W <-> In k (node_keys g)) /\ length (t_nodes Tm) = length W
    /\ (forall k, In k (node_keys g) ->
          nth_error W (pos W k) = Some k
          /\ nth_error (t_nodes Tm) (pos W k)
             = Some (template_node F (aattrs (sp k)) (match D k with [] => None | Ds => Some (map d_stored Ds) end)
                                   (if a_bare (sp k) then None else Some (aupdate [] a0))))
    /\ (forall u v, NxGraph.has_edge g u v = true ->
          In (pos W u, pos W v, gorder g u v) (t_edges Tm) \/ In (pos W v, pos W u, gorder g v u) (t_edges Tm))
    /\ (forall a b o, In (a, b, o) (t_edges Tm) ->
          exists u v, a = pos W u /\ b = pos W v /\ NxGraph.has_edge g u v = true /\ o = gorder g u v).
Proof.
  intros dh sp D g HS HD Hn Ho fo a0 F start Hp0 Hwf Hmin Hcon Hrc.
  apply (atom_fragment_iso dh sp D g HS HD Hn Ho fo a0 F start Hp0 Hwf Hmin); [|exact Hrc].
  now apply connected_reachable.
Qed.
Example atom_fragment_iso_example : connected ex_ag = true /\ ring_contract ex_ag (dfs_tree ex_ag) [] = true /\ graph_wf ex_ag = true.
Proof. repeat split; vm_compute; reflexivity. Qed.
