(** FullRound: C07 for EVERY graph of the domain, ring edges included (unbounded).
    [C07_roundtrip]: for every plain, well-formed, connected graph g and every ring transcript tr honouring the
    contract (tr = the non-tree edges of g, each once -- stated on has_edge), read_cgsmiles (reader model) of
    write_cgsmiles_graph g tr (writer model) is a graph ISOMORPHIC to g (no pattern excluded since fix b681517):
    a bijection on the nodes that carries every node's parsed name attributes and the order of every pair of
    nodes.  Composition of: write_graph_is_print / graph_text_is_read (writer text = reader items),
    reader_sim_lin (component Reader), machine_flat, run_inv, machine_full, iso_orders. *)
From Coq Require Import String.
From Coq Require Import List Ascii ZArith Bool Lia.
From CGV Require Import Base.PyBase Base.PyVal Base.PyGen Base.NxGraph Dialect.DialectImpl.
From CGV Require Import Write.WriteImpl Write.WriteDefs Write.TreeDefs Write.TreeWrite Write.TreeTables Write.DfsProofs Write.WfFacts Write.ConnFacts
     Write.RingDefs Write.RingTables Write.RingMarkers Write.RingClose Write.TreeRead Write.PathRound Write.TreeRound Write.RingRead Write.RingRound
     Write.GraphOps Write.FlatMachine Write.FlatSpec Write.RingSim Write.RunLog Write.RingFacts Write.RingInv Write.FullMachine Write.FullIso.
From CGV Require Import Reader.ReaderImpl Reader.Grammar Reader.Lin Reader.GraphLemmas.
Import ListNotations.
Open Scope Z_scope.

(** ------------------------------------------------------------------ the input graph's side *)
Lemma aget_eqb_ordered : forall a b k, attrs_eqb_ordered a b = true ->
  match aget k a, aget k b with Some x, Some y => pyval_eqb x y = true | None, None => True | _, _ => False end.
Proof.
  induction a as [|[ka va] a IH]; intros [|[kb vb] b] k H; cbn [attrs_eqb_ordered] in H; try discriminate; [exact I|].
  apply andb_prop in H as [H H3]. apply andb_prop in H as [H1 H2]. apply str_eqb_eq in H1. subst kb.
  cbn [aget]. destruct (str_eqb k ka); [exact H2|now apply IH].
Qed.
Lemma adj_get_in' v l a : adj_get v l = Some a -> In (v, a) l.
Proof.
  induction l as [|[w b] l IH]; cbn; [discriminate|]. destruct (Z.eqb_spec w v) as [->|N]; [intros [= ->]; now left|].
  intros H. right. now apply IH.
Qed.
(** the attribute dict of an edge is the same from both ends *)
Lemma wf_ea_sym g u v a : graph_wf g = true -> ea g u v = Some a -> exists d, ea g v u = Some d /\ attrs_eqb_ordered d a = true.
Proof.
  unfold graph_wf, ea, edge_attrs. intros H Ha. apply andb_prop in H as [_ H2].
  destruct (gfind u g) as [n|] eqn:E; [|discriminate]. destruct (adj_get v (nadj n)) as [a'|] eqn:Ea; [|discriminate]. inversion Ha; subst a'.
  destruct (gfind_some u g n E) as [Hn Hk]. rewrite forallb_forall in H2. specialize (H2 n Hn).
  apply andb_prop in H2 as [_ H2]. rewrite forallb_forall in H2. specialize (H2 (v, a) (adj_get_in' _ _ _ Ea)).
  apply andb_prop in H2 as [_ H2]. cbn [fst snd] in H2. unfold edge_attrs in H2. rewrite Hk in H2.
  destruct (gfind v g) as [m|]; [|discriminate]. destruct (adj_get u (nadj m)) as [d|]; [|discriminate]. exists d. auto.
Qed.
Lemma wf_eo_sym g : graph_wf g = true -> forall u v, eo g u v = eo g v u.
Proof.
  intros Hwf. assert (G : forall u v z, eo g u v = Some z -> eo g v u = Some z).
  { intros u v z H. unfold eo in *. destruct (ea g u v) as [a|] eqn:Ea; [|discriminate].
    destruct (wf_ea_sym g u v a Hwf Ea) as [d [Ed Hd]]. rewrite Ed.
    pose proof (aget_eqb_ordered d a (S "order") Hd) as K.
    destruct (aget (S "order") a) as [[| |x| | | | |]|]; try discriminate. inversion H; subst x.
    destruct (aget (S "order") d) as [y|]; [|contradiction]. destruct y; try discriminate. cbn in K. apply Z.eqb_eq in K. now subst. }
  intros u v. destruct (eo g u v) as [z|] eqn:E1.
  - symmetry. now apply G.
  - destruct (eo g v u) as [z|] eqn:E2; [|reflexivity]. apply G in E2. congruence.
Qed.
(** a plain graph's edges carry integer orders 0..4, which the writer's symbol encodes *)
Lemma plain_eo g p k : plain_graph g = true -> In k (neighbors g p) ->
  eo g p k = Some (oord (esym_of g p k)).
Proof.
  intros Hp Hk. unfold neighbors in Hk. destruct (gfind p g) as [n|] eqn:Hf; [|contradiction].
  destruct (gfind_some p g n Hf) as [Hn _]. destruct (adj_get_in k (nadj n) Hk) as [a [Hg Hin]].
  unfold plain_graph in Hp. apply andb_prop in Hp as [_ H]. rewrite forallb_forall in H. specialize (H n Hn).
  apply andb_prop in H as [_ Hord]. rewrite forallb_forall in Hord. specialize (Hord (k, a) Hin). cbn [snd] in Hord. unfold order_ok in Hord.
  destruct (aget (S "order") a) as [[| |z| | | | |]|] eqn:Eo; try discriminate.
  apply andb_prop in Hord as [H0 H4]. apply Z.leb_le in H0. apply Z.leb_le in H4.
  assert (E : oord (esym_of g p k) = order_of g p k).
  { unfold esym_of. destruct (arom_of g p && arom_of g k && (order_of g p k =? 1)) eqn:Ec.
    - apply andb_prop in Ec as [_ Ec]. apply Z.eqb_eq in Ec. now rewrite Ec.
    - apply sym_ord_osym. unfold order_of, edge_get, edge_attrs. rewrite Hf, Hg, Eo. lia. }
  rewrite E. unfold eo, ea, order_of, edge_get, edge_attrs. now rewrite Hf, Hg, Eo.
Qed.
Lemma has_edge_eo g u v : plain_graph g = true -> has_edge g u v = true -> eo g u v <> None.
Proof.
  intros Hp He. assert (Hk : In v (neighbors g u)).
  { unfold has_edge in He. unfold neighbors. destruct (gfind u g) as [n|]; [|discriminate].
    destruct (adj_get v (nadj n)) as [a|] eqn:Ea; [|discriminate]. apply adj_get_in' in Ea. change v with (fst (v, a)). now apply in_map. }
  rewrite (plain_eo g u v Hp Hk). discriminate.
Qed.
Lemma eo_has_edge g u v : eo g u v <> None -> has_edge g u v = true.
Proof. unfold eo. rewrite has_edge_ea. destruct (ea g u v); [reflexivity|congruence]. Qed.

(** ------------------------------------------------------------------ nodes of the log *)
Lemma xlog_mono A rlist rsym_o : forall Q L mk3 op, In op L -> In op (fst (xlog A rlist rsym_o L mk3 Q)).
Proof.
  induction Q as [|r Q IH]; intros L mk3 op H; [exact H|]. cbn [xlog]. destruct (wsim (f_new r) mk3 (rlist (f_old r))) as [mk3a cl].
  apply IH. apply in_or_app. now left.
Qed.
Lemma xlog_node A rlist rsym_o : forall Q L mk3 r, In r Q -> In (ONode (f_new r) (A (f_old r))) (fst (xlog A rlist rsym_o L mk3 Q)).
Proof.
  induction Q as [|r0 Q IH]; intros L mk3 r H; [contradiction|]. cbn [xlog]. destruct (wsim (f_new r0) mk3 (rlist (f_old r0))) as [mk3a cl].
  destruct H as [->|H]; [|now apply IH]. apply xlog_mono. apply in_or_app. right. apply in_or_app. left. unfold tree_ops. now left.
Qed.

(** isomorphism of the input [g] and the graph read back [h]: a bijection [phi] on the nodes that carries the
    parsed attributes of every node's name and the order of EVERY pair of nodes (None = no edge) *)
Definition graph_iso (A : Z -> attrs) (g h : graph) : Prop :=
  exists phi : Z -> Z,
    (forall k, In k (node_keys g) -> has_node h (phi k) = true /\ node_attrs h (phi k) = Ok (A k))
    /\ (forall k1 k2, In k1 (node_keys g) -> In k2 (node_keys g) -> phi k1 = phi k2 -> k1 = k2)
    /\ (forall x, has_node h x = true -> exists k, In k (node_keys g) /\ phi k = x)
    /\ (forall u v, In u (node_keys g) -> In v (node_keys g) -> eo h (phi u) (phi v) = eo g u v).

Definition phi_of (fl : list frec) (k : Z) : Z :=
  match find (fun r => Z.eqb (f_old r) k) fl with Some r => f_new r | None => 0 end.
Lemma phi_of_rec fl r : NoDup (map f_old fl) -> In r fl -> phi_of fl (f_old r) = f_new r.
Proof.
  intros ND Hr. unfold phi_of. destruct (find (fun r0 => Z.eqb (f_old r0) (f_old r)) fl) as [r'|] eqn:Ef.
  - apply find_some in Ef as [H1 H2]. apply Z.eqb_eq in H2. f_equal. apply (nodup_map_inj f_old fl); auto.
  - exfalso. pose proof (find_none _ _ Ef r Hr) as H. cbn in H. now rewrite Z.eqb_refl in H.
Qed.

Theorem C07_roundtrip : forall fo A g tr start,
  plain_graph g = true -> connected g = true -> min_node g = Ok start ->
  (* the contract on the ring transcript: tr = the non-tree edges of g, each once *)
  (forall e, In e tr -> fst e <> snd e /\ In (snd e) (neighbors g (fst e))) ->
  nodup_edges tr = true ->
  (forall e te, In e tr -> In te (dfs_tree g) -> same_edge e te = false) ->
  (forall u v, has_edge g u v = true ->
     (exists te, In te (dfs_tree g) /\ same_edge (u, v) te = true) \/ (exists e, In e tr /\ same_edge (u, v) e = true)) ->
  (* names the reader's grammar accepts; [A k] = what the node parser returns for the name of k *)
  (forall k, In k (node_keys g) -> name_ok fo (name_of g k) = true) ->
  (forall k, parse_graph_base_node fo (name_of g k) = Ok (A k)) ->
  exists s h, write_cgsmiles_graph g tr = Ok s /\ read_cgsmiles fo s = Ok h /\ graph_iso A g h.
Proof.
  intros fo A g tr start Hp Hcon Hmin R1 R2 R3 R4 Hok Hparse.
  assert (Hwf : graph_wf g = true) by (unfold plain_graph in Hp; now apply andb_prop in Hp as [H _]).
  destruct (graph_wf_facts g Hwf) as [Hc Hnd].
  destruct (dfs_spanning_wf g start Hwf Hcon Hmin) as [T0 (A1 & A2 & _ & _ & A5 & _ & _ & _ & _)].
  (* the reader model returns the machine's denotation of the writer's items *)
  destruct (graph_text_is_read fo g tr start Hp Hmin (fun b Hb => proj2 (R1 b Hb)) Hok) as [T (B1 & B2 & B3 & B4)].
  assert (Ekeys : rkeys T = rkeys T0).
  { assert (Hk : forall t, rkeys t = rkey t :: map snd (redges t)) by (intros [k cs]; rewrite redges_snd; reflexivity).
    rewrite (Hk T), (Hk T0), B1, A1. f_equal. f_equal. rewrite A2 in B2. now inversion B2. }
  assert (A5' : forall x, In x (rkeys T) <-> In x (node_keys g)) by (intros x; rewrite Ekeys; apply A5).
  assert (Etree : dfs_tree g = redges T) by (unfold dfs_tree; now rewrite Hmin, B2).
  cbv zeta in B4. destruct B4 as [s [W R]].
  assert (Hadj : forall e, In e (redges T) -> In (snd e) (neighbors g (fst e))).
  { intros e He. destruct (dfs_shape g start _ B2) as [T' (D1 & D2 & _ & _ & D5 & _)]. rewrite D2 in He. now apply D5. }
  (* the contract, on T *)
  assert (C1 : forall e, In e tr -> fst e <> snd e /\ In (fst e) (rkeys T) /\ In (snd e) (rkeys T)).
  { intros e He. destruct (R1 e He) as [N1 N2]. split; [exact N1|]. split; apply A5'.
    - unfold neighbors in N2. destruct (gfind (fst e) g) as [n|] eqn:Eg; [|contradiction]. now apply (gfind_key _ _ n).
    - now apply (Hc (fst e)). }
  assert (C3 : forall e te, In e tr -> In te (redges T) -> same_edge e te = false) by (intros e te; rewrite <- Etree; apply R3).
  (* the machine's denotation *)
  destruct (machine_full fo (name_of g) (esym_of g) (rsym_of g tr) A T tr Hparse B3 C1 R2 C3) as (M1 & M2 & M3).
  set (fl := the_flat (esym_of g) (rsym_of g tr) T tr) in *.
  set (L := the_log (esym_of g) (rsym_of g tr) A T tr) in *.
  exists s, (replay L gempty). split; [exact W|]. split; [rewrite R; exact M1|].
  (* the isomorphism *)
  assert (HWo : NoDup (map f_old fl)) by (unfold fl; rewrite flat_old; now apply worder_nodup).
  assert (HWn : NoDup (map f_new fl)) by (unfold fl; rewrite flat_new; apply zseq_nodup).
  assert (Hrec : forall k, In k (node_keys g) -> exists r, In r fl /\ f_old r = k).
  { intros k Hk. apply A5' in Hk. apply (flat_in_old (esym_of g) (rsym_of g tr) T tr) in Hk. apply in_map_iff in Hk as [r [E1 H1]]. eauto. }
  assert (Gs : forall u v, eo g u v = eo g v u) by (apply wf_eo_sym; exact Hwf).
  assert (Hiso : forall r1 r2, In r1 fl -> In r2 fl -> eo (replay L gempty) (f_new r1) (f_new r2) = eo g (f_old r1) (f_old r2)).
  { apply (iso_orders (esym_of g) (rsym_of g tr) A T tr g B3 C1 C3); try assumption.
    - intros e He. apply plain_eo; [exact Hp|now apply Hadj].
    - intros ri e He. unfold rsym_of. unfold ring_items_of in He. apply in_combine_seq in He as [H1 H2]. rewrite H2.
      apply plain_eo; [exact Hp|]. apply (R1 e). now apply nth_error_In in H2.
    - intros u v Hu Hv Hne. rewrite <- Etree. apply R4. now apply eo_has_edge. }
  exists (phi_of fl). split; [|split; [|split]].
  - intros k Hk. destruct (Hrec k Hk) as [r [Hr <-]]. rewrite (phi_of_rec fl r HWo Hr). split.
    + rewrite replay_has_node. assert (In (f_new r) (log_nodes L)) by (rewrite (i_nodes _ _ _ _ _ M3); now apply in_map).
      rewrite (proj2 (memz_true _ _) H). now rewrite orb_true_r.
    + apply (replay_node_attrs L gempty [] _ _ gempty_nodes M2). unfold L, the_log. apply xlog_node. exact Hr.
  - intros k1 k2 H1 H2 E. destruct (Hrec k1 H1) as [r1 [Hr1 <-]]. destruct (Hrec k2 H2) as [r2 [Hr2 <-]].
    rewrite !phi_of_rec in E by assumption. f_equal. apply (nodup_map_inj f_new fl); auto.
  - intros x Hx. rewrite replay_has_node in Hx. cbn [has_node gempty gfind orb] in Hx.
    assert (Hin : exists r, In r fl /\ f_new r = x).
    { apply orb_prop in Hx as [Hx|Hx].
      - apply memz_true in Hx. rewrite (i_nodes _ _ _ _ _ M3) in Hx. apply in_map_iff in Hx as [r [E1 H1]]. eauto.
      - apply existsb_exists in Hx as [e [He Hh]].
        destruct (log_edge_good (esym_of g) (rsym_of g tr) A T tr g B3
                    (fun e0 H0 => plain_eo g (fst e0) (snd e0) Hp (Hadj e0 H0))
                    (fun ri e0 H0 => ltac:(unfold rsym_of; unfold ring_items_of in H0; apply in_combine_seq in H0 as [H1 H2]; rewrite H2;
                                           apply plain_eo; [exact Hp|apply (R1 e0); now apply nth_error_In in H2]))
                    Gs M3 e He) as [ra [rb (Ra & Rb & Ee & _)]].
        destruct e as [[u v] o]. cbn [fst snd] in *. inversion Ee; subst.
        apply orb_prop in Hh as [Hh|Hh]; apply Z.eqb_eq in Hh; eauto. }
    destruct Hin as [r [Hr <-]]. exists (f_old r). split; [|now apply phi_of_rec].
    apply A5'. apply (flat_in_old (esym_of g) (rsym_of g tr) T tr). now apply in_map.
  - intros u v Hu Hv. destruct (Hrec u Hu) as [r1 [Hr1 <-]]. destruct (Hrec v Hv) as [r2 [Hr2 <-]].
    rewrite !phi_of_rec by assumption. now apply Hiso.
Qed.
