(** ContractBridge: the boolean contract the check evaluates on every case, [ring_contract g (dfs_tree g) tr]
    (tr = a permutation, up to orientation, of the edges of G.edges that are not tree edges; no self loop),
    implies the four hypotheses on tr of FullRound.C07_roundtrip, for well-formed graphs. *)
From Coq Require Import String.
From Coq Require Import List Ascii ZArith Bool Lia.
From CGV Require Import Base.PyBase Base.PyVal Base.NxGraph.
From CGV Require Import Write.WriteImpl Write.WriteDefs Write.TreeDefs Write.TreeWrite Write.DfsProofs Write.WfFacts Write.ConnFacts
     Write.GraphOps Write.RingInv Write.FullIso Write.FullRound Write.TreeRound Write.RingRound Write.RingRead Write.FullMachine.
From CGV Require Import Dialect.DialectImpl Reader.ReaderImpl Reader.Grammar.
Import ListNotations.
Open Scope Z_scope.

(** G.edges: every adjacency entry whose neighbour comes later in the node order (or is the node itself) *)
Lemma edges_from_sound : forall l seen u v a, In (u, v, a) (edges_from l seen) -> exists n, In n l /\ nk n = u /\ In (v, a) (nadj n).
Proof.
  induction l as [|n l IH]; intros seen u v a H; [contradiction|]. cbn [edges_from] in H. apply in_app_or in H as [H|H].
  - apply in_flat_map in H as [wa [Hwa H]]. destruct (existsb (Z.eqb (fst wa)) seen); [contradiction|].
    destruct H as [E|[]]. inversion E; subst. exists n. destruct wa; auto using in_eq.
  - destruct (IH _ _ _ _ H) as [m (H1 & H2 & H3)]. exists m. auto using in_cons.
Qed.
Lemma edges_from_complete : forall l1 n l2 seen v a, In (v, a) (nadj n) -> ~ In v seen -> ~ In v (map nk l1) ->
  In (nk n, v, a) (edges_from (l1 ++ n :: l2) seen).
Proof.
  induction l1 as [|m l1 IH]; intros n l2 seen v a Ha Hs Hl; cbn [app edges_from].
  - apply in_or_app. left. apply in_flat_map. exists (v, a). split; [exact Ha|]. cbn [fst snd].
    destruct (existsb (Z.eqb v) seen) eqn:E; [|now left]. exfalso. apply Hs. apply existsb_exists in E as [x [Hx E]]. apply Z.eqb_eq in E. now subst.
  - apply in_or_app. right. apply IH; [exact Ha| |].
    + intros [E|H]; [apply Hl; left; exact E|contradiction].
    + intros H. apply Hl. now right.
Qed.
Lemma gfind_unique g n : NoDup (node_keys g) -> In n g -> gfind (nk n) g = Some n.
Proof.
  induction g as [|m g IH]; intros ND Hn; [contradiction|]. cbn [node_keys map] in ND. inversion ND as [|? ? Hm ND']; subst. cbn [gfind].
  destruct Hn as [->|Hn]; [now rewrite Z.eqb_refl|].
  destruct (Z.eqb_spec (nk m) (nk n)) as [E|N]; [exfalso; apply Hm; rewrite E; unfold node_keys; now apply in_map|now apply IH].
Qed.

Lemma edges_list_sound g u v : NoDup (node_keys g) -> In (u, v) (edges_list g) -> In v (neighbors g u).
Proof.
  intros ND H. unfold edges_list in H. apply in_map_iff in H as [[[u' v'] a] [E H]]. cbn [fst snd] in E. inversion E; subst.
  destruct (edges_from_sound _ _ _ _ _ H) as [n (H1 & H2 & H3)]. unfold neighbors. rewrite <- H2, (gfind_unique g n ND H1).
  change v with (fst (v, a)). now apply in_map.
Qed.
Lemma edges_list_complete g u v : graph_wf g = true -> has_edge g u v = true -> In (u, v) (edges_list g) \/ In (v, u) (edges_list g).
Proof.
  intros Hwf He. destruct (graph_wf_facts g Hwf) as [Hc ND].
  unfold has_edge in He. destruct (gfind u g) as [n|] eqn:Eu; [|discriminate]. destruct (adj_get v (nadj n)) as [a|] eqn:Ea; [|discriminate].
  destruct (gfind_some u g n Eu) as [Hn Hk]. apply adj_get_in' in Ea. apply in_split in Hn as [l1 [l2 Hg]].
  destruct (in_dec Z.eq_dec v (map nk l1)) as [Hv|Hv].
  - right. apply in_map_iff in Hv as [m [Em Hm]]. apply in_split in Hm as [l1a [l1b Hl1]].
    assert (Hmg : In m g) by (rewrite Hg, Hl1; apply in_or_app; left; apply in_or_app; right; now left).
    assert (Hu : In u (neighbors g v)).
    { apply (wf_sym g u v Hwf). unfold neighbors. rewrite Eu. change v with (fst (v, a)). now apply in_map. }
    unfold neighbors in Hu. rewrite <- Em, (gfind_unique g m ND Hmg) in Hu. apply in_map_iff in Hu as [[u' b] [Eb Hb]]. cbn [fst] in Eb. subst u'.
    assert (Hnu : ~ In u (map nk l1a)).
    { rewrite Hg in ND. unfold node_keys in ND. rewrite map_app in ND. cbn [map] in ND. rewrite Hk in ND.
      apply NoDup_remove_2 in ND. intros Hin. apply ND. apply in_or_app. left. rewrite Hl1, map_app. apply in_or_app. now left. }
    pose proof (edges_from_complete l1a m (l1b ++ n :: l2) [] u b Hb (fun H => H) Hnu) as Hin.
    unfold edges_list, edges_data. rewrite Hg, Hl1, <- app_assoc. cbn [app]. rewrite Em in Hin.
    apply in_map_iff. exists (v, u, b). split; [reflexivity|exact Hin].
  - left. pose proof (edges_from_complete l1 n l2 [] v a Ea (fun H => H) Hv) as Hin. rewrite Hk in Hin.
    unfold edges_list, edges_data. rewrite Hg. apply in_map_iff. exists (u, v, a). split; [reflexivity|exact Hin].
Qed.

Lemma edge_mem_ex e l : edge_mem e l = true <-> exists e', In e' l /\ same_edge e e' = true.
Proof. unfold edge_mem. apply existsb_exists. Qed.

Theorem ring_contract_props g tr : graph_wf g = true -> ring_contract g (dfs_tree g) tr = true ->
  (forall e, In e tr -> fst e <> snd e /\ In (snd e) (neighbors g (fst e)))
  /\ nodup_edges tr = true
  /\ (forall e te, In e tr -> In te (dfs_tree g) -> same_edge e te = false)
  /\ (forall u v, has_edge g u v = true ->
        (exists te, In te (dfs_tree g) /\ same_edge (u, v) te = true) \/ (exists e, In e tr /\ same_edge (u, v) e = true)).
Proof.
  intros Hwf H. destruct (graph_wf_facts g Hwf) as [Hc ND]. unfold ring_contract in H.
  apply andb_prop in H as [H H4]. apply andb_prop in H as [H H3]. apply andb_prop in H as [_ H2].
  rewrite forallb_forall in H3, H4.
  assert (Hnt : forall e, In e tr -> fst e <> snd e /\ exists e', In e' (edges_list g) /\ edge_mem e' (dfs_tree g) = false /\ same_edge e e' = true).
  { intros e He. specialize (H3 e He). apply andb_prop in H3 as [A B]. apply negb_true_iff in B. apply Z.eqb_neq in B. split; [exact B|].
    apply edge_mem_ex in A as [e' [He' Se]]. unfold nontree_edges in He'. apply filter_In in He' as [I1 I2]. apply negb_true_iff in I2. eauto. }
  split; [|split; [exact H2|split]].
  - intros e He. destruct (Hnt e He) as [B [e' (I1 & _ & Se)]]. split; [exact B|].
    destruct e as [a b], e' as [a' b']. cbn [fst snd] in *. apply same_edge_touch in Se as [[-> ->]|[-> ->]].
    + now apply edges_list_sound.
    + apply (wf_sym g a' b' Hwf). now apply edges_list_sound.
  - intros e te He Hte. destruct (Hnt e He) as [_ [e' (_ & I2 & Se)]].
    destruct (same_edge e te) eqn:Es; [|reflexivity]. exfalso.
    assert (edge_mem e' (dfs_tree g) = true); [|congruence]. apply edge_mem_ex. exists te. split; [exact Hte|].
    rewrite (same_edge_sym e e') in Se. apply (same_edge_trans e' te e); [exact Se|]. now rewrite same_edge_sym.
  - intros u v He. destruct (edges_list_complete g u v Hwf He) as [Hin|Hin].
    + destruct (edge_mem (u, v) (dfs_tree g)) eqn:Em.
      * left. now apply edge_mem_ex.
      * right. assert (Hn : In (u, v) (nontree_edges g (dfs_tree g))) by (apply filter_In; split; [exact Hin|now rewrite Em]).
        specialize (H4 _ Hn). now apply edge_mem_ex.
    + destruct (edge_mem (v, u) (dfs_tree g)) eqn:Em.
      * left. apply edge_mem_ex in Em as [te [Hte Se]]. exists te. split; [exact Hte|].
        apply (same_edge_trans (u, v) te (v, u)); [unfold same_edge; cbn; rewrite !Z.eqb_refl; cbn; now rewrite orb_true_r|now rewrite same_edge_sym].
      * right. assert (Hn : In (v, u) (nontree_edges g (dfs_tree g))) by (apply filter_In; split; [exact Hin|now rewrite Em]).
        specialize (H4 _ Hn). apply edge_mem_ex in H4 as [e [He' Se]]. exists e. split; [exact He'|].
        apply (same_edge_trans (u, v) e (v, u)); [unfold same_edge; cbn; rewrite !Z.eqb_refl; cbn; now rewrite orb_true_r|now rewrite same_edge_sym].
Qed.

(** C07_roundtrip with the contract in the boolean form the check evaluates on every case *)
Corollary C07_roundtrip_contract : forall fo A g tr start,
  plain_graph g = true -> connected g = true -> min_node g = Ok start ->
  ring_contract g (dfs_tree g) tr = true ->
  (forall k, In k (node_keys g) -> name_ok fo (name_of g k) = true) ->
  (forall k, parse_graph_base_node fo (name_of g k) = Ok (A k)) ->
  exists s h, write_cgsmiles_graph g tr = Ok s /\ read_cgsmiles fo s = Ok h /\ graph_iso A g h.
Proof.
  intros fo A g tr start Hp Hcon Hmin Hrc Hok Hparse.
  assert (Hwf : graph_wf g = true) by (unfold plain_graph in Hp; now apply andb_prop in Hp as [H _]).
  destruct (ring_contract_props g tr Hwf Hrc) as (R1 & R2 & R3 & R4).
  now apply (C07_roundtrip fo A g tr start).
Qed.
