(** CoarseChain: C08 for coarse fragment CHAINS, unbounded.  A chain of coarse nodes, each with a name and a
    list of bonding descriptors (kinds $ > < !, alphanumeric labels, orders 0..4), joined by bonds of order 0..4:
    (i)   [write_chain_frag]: write_graph(smiles_format=False) writes  [#n0]D0 s1 [#n1]D1 ...  (node, its
          descriptors through the generated format_bonding, the bond symbol before the next node);
    (ii)  [strip_chain]: the strip model (through the strip component's strip_correct) splits that text into the
          clean chain text and the descriptor dict {i: Di};
    (iii) [read_chain_frag]: the model of read_fragment_cgsmiles then reads the clean text (reader component's
          reader_sim_lin_nobrace) as the chain numbered 0..n and applies its post-processing to it.
    The fragment graph is the one read_fragment_cgsmiles builds: every node carries `fragname` = the name F of the
    FRAGMENT, its own name in `atomname`, and its descriptor list in `bonding`; write_cgsmiles_fragments writes it
    with name_attr='atomname' (fix 6d8cc68), so the nodes' own names are written, whatever F is.
    Trees with a bond symbol on a branch edge are outside: the strip grammar (Frag/FragText.wf_items) has no symbol
    before "(". *)
From Coq Require Import String.
From Coq Require Import List Ascii ZArith Bool Lia.
From CGV Require Import Base.PyBase Base.PyVal Base.PyGen Base.NxGraph Gen.WriterGen Dialect.DialectImpl.
From CGV Require Import Write.WriteImpl Write.WriteDefs Write.WriteProofs Write.FormatBondingSpec Write.FormatStripRound.
Import ListNotations.
Open Scope Z_scope.

(** ------------------------------------------------------------------ (i) the writer *)
Definition nodex := (pystr * list dspec)%type.                      (* name, descriptors *)
Definition fbt (D : list dspec) : pystr := fb_expected (map (fun x => (d_kl x, snd x)) D).
Definition ntxt (x : nodex) : pystr := S "[#" ++ fst x ++ S "]" ++ fbt (snd x).
Definition okx (x : nodex) : Prop := forallb d_ok (snd x) = true.
Fixpoint ctext (sprev : pystr) (x : nodex) (l : list (Z * Z * nodex)) {struct l} : pystr :=
  sprev ++ ntxt x ++ match l with [] => [] | (o, _, x') :: r => ctext (zsym o) x' r end.

Section WriterSide.
(** the name of the fragment: what read_fragment_cgsmiles stores as `fragname` on EVERY node *)
Variable F : pystr.
Definition fattrs (x : nodex) : attrs :=
  [(S "fragname", VStr F); (S "atomname", VStr (fst x)); (S "bonding", VList (map VStr (map d_stored (snd x))))].
Definition mk_restx (l : list (Z * Z * nodex)) : list (attrs * Z * attrs) :=
  map (fun y => (order_attrs (fst (fst y)), snd (fst y), fattrs (snd y))) l.

Lemma strs_of_map ds : strs_of (map VStr ds) = Ok ds.
Proof. induction ds as [|d r IH]; [reflexivity|]. cbn [map strs_of as_str bind]. now rewrite IH. Qed.
Lemma fb_dspec D : forallb d_ok D = true -> format_bonding (map d_stored D) = Ok (fbt D).
Proof.
  intros HL. unfold fbt.
  replace (map d_stored D) with (map (fun klo => mk_descr (fst klo) (snd klo)) (map (fun x => (d_kl x, snd x)) D))
    by (rewrite map_map; reflexivity).
  apply format_bonding_spec. apply Forall_forall. intros klo Hin. apply in_map_iff in Hin as [x [<- Hx]].
  rewrite forallb_forall in HL. specialize (HL x Hx). destruct (order_cases _ HL) as [E|[E|[E|[E|E]]]]; cbn [snd]; lia.
Qed.
Lemma aget_fragname x : aget (S "fragname") (fattrs x) = Some (VStr F).
Proof. reflexivity. Qed.
Lemma aget_atomname x : aget (S "atomname") (fattrs x) = Some (VStr (fst x)).
Proof. reflexivity. Qed.
Lemma aget_bonding x : aget (S "bonding") (fattrs x) = Some (VList (map VStr (map d_stored (snd x)))).
Proof. reflexivity. Qed.
Lemma aget_aromatic x : aget (S "aromatic") (fattrs x) = None.
Proof. reflexivity. Qed.
Lemma node_text_frag dh G pre prev k x rest : okx x ->
  G = pre ++ path_from prev k (fattrs x) rest -> ~ In k (map nk pre) ->
  node_text_by (S "atomname") false dh G k = Ok (ntxt x).
Proof.
  intros Hx -> Hk. destruct (path_from_head prev k (fattrs x) rest) as [adj [post ->]].
  unfold node_text_by, format_node_by, bonding_suffix, node_attrs. rewrite gfind_app by (assumption || reflexivity).
  cbn [bind na]. rewrite aget_fragname, aget_atomname, aget_bonding. cbn [of_option bind py_format]. unfold ntxt.
  assert (Hb : (if truthy (VList (map VStr (map d_stored (snd x))))
                then l <- as_list (VList (map VStr (map d_stored (snd x)))) ;; ds <- strs_of l ;; format_bonding ds else Ok [])
               = Ok (fbt (snd x))).
  { destruct (snd x) as [|d D] eqn:ED; [reflexivity|]. rewrite <- ED. 
    assert (Et : truthy (VList (map VStr (map d_stored (snd x)))) = true) by (rewrite ED; reflexivity).
    rewrite Et. cbn [as_list bind]. rewrite strs_of_map. cbn [bind]. now apply fb_dspec. }
  rewrite Hb. cbn [bind]. now rewrite <- !app_assoc.
Qed.
Lemma edge_text_frag G pre k x prev k' o post :
  G = pre ++ {| nk := k; na := fattrs x; nadj := prev ++ [(k', order_attrs o)] |} :: post ->
  ~ In k (map nk pre) -> ~ In k' (map fst prev) -> 0 <= o <= 4 ->
  edge_text G k k' = Ok (zsym o).
Proof.
  intros -> Hk Hk' Ho.
  unfold edge_text, write_edge_symbol, edge_order, edge_attrs, node_flag, node_attrs.
  rewrite !gfind_app by (assumption || reflexivity). cbn [nadj na]. rewrite adj_get_last by assumption.
  assert (C : o = 0 \/ o = 1 \/ o = 2 \/ o = 3 \/ o = 4) by lia.
  destruct C as [->|[->|[->|[->| ->]]]]; reflexivity.
Qed.

Lemma chain_text_frag dh G : forall l pre prev k x sprev prevopt env,
  G = pre ++ path_from prev k (fattrs x) (mk_restx l) ->
  e_fmt env = node_text_by (S "atomname") false dh G -> e_sym env = edge_text G ->
  NoDup (map nk pre ++ k :: rest_keys (mk_restx l)) ->
  (forall p, In p prev -> In (fst p) (map nk pre)) ->
  okx x -> Forall (fun y => 0 <= fst (fst y) <= 4 /\ okx (snd y)) l ->
  match prevopt with None => sprev = [] | Some p => edge_text G p k = Ok sprev end ->
  chain_text env prevopt (k :: rest_keys (mk_restx l)) = Ok (ctext sprev x l).
Proof.
  induction l as [|[[o k'] x'] r IH]; intros pre prev k x sprev prevopt env HG Hf Hs ND Hprev Hx Hord Hsp.
  - cbn [mk_restx map rest_keys chain_text ctext]. rewrite Hf, Hs.
    rewrite (node_text_frag dh G pre prev k x [] Hx HG) by (apply NoDup_remove_2 in ND; intros H; apply ND; apply in_or_app; now left).
    destruct prevopt as [p|]; [rewrite Hsp|subst sprev]; cbn [bind]; now rewrite ?app_nil_r, <- ?app_assoc.
  - assert (Hk : ~ In k (map nk pre)) by (apply NoDup_remove_2 in ND; intros H; apply ND; apply in_or_app; now left).
    cbn [mk_restx map rest_keys fst snd] in *.
    change (map (fun y : attrs * Z * attrs => snd (fst y)) (map (fun y : Z * Z * nodex => (order_attrs (fst (fst y)), snd (fst y), fattrs (snd y))) r))
      with (rest_keys (mk_restx r)) in *.
    assert (E : chain_text env prevopt (k :: k' :: rest_keys (mk_restx r))
                = (sym <- match prevopt with None => Ok [] | Some p => e_sym env p k end ;; node <- e_fmt env k ;;
                   rest <- chain_text env (Some k) (k' :: rest_keys (mk_restx r)) ;; Ok (sym ++ node ++ rest))) by reflexivity.
    rewrite E; clear E. rewrite Hf, Hs.
    rewrite (node_text_frag dh G pre prev k x _ Hx HG Hk).
    pose proof (Forall_inv Hord) as [Ho Hx']. pose proof (Forall_inv_tail Hord) as Hord'. cbn [fst snd] in Ho, Hx'.
    cbn [path_from] in HG.
    assert (Hk' : ~ In k' (map fst prev)).
    { intros H. apply in_map_iff in H as [p [E Hp]]. apply Hprev in Hp. rewrite E in Hp.
      replace (map nk pre ++ k :: k' :: rest_keys (mk_restx r)) with ((map nk pre ++ [k]) ++ k' :: rest_keys (mk_restx r)) in ND
        by now rewrite <- app_assoc.
      apply NoDup_remove_2 in ND. apply ND. apply in_or_app. left. apply in_or_app. now left. }
    pose proof (edge_text_frag G pre k x prev k' o _ HG Hk Hk' Ho) as He.
    rewrite (IH (pre ++ [{| nk := k; na := fattrs x; nadj := prev ++ [(k', order_attrs o)] |}]) [(k, order_attrs o)]
                k' x' (zsym o) (Some k) env).
    + destruct prevopt as [p|]; [rewrite Hsp|subst sprev]; cbn [bind ctext]; rewrite <- ?app_assoc; reflexivity.
    + rewrite HG, <- app_assoc. reflexivity.
    + exact Hf.
    + exact Hs.
    + rewrite map_app. cbn [map nk]. rewrite <- app_assoc. exact ND.
    + intros p [<-|[]]. cbn [fst]. rewrite map_app. apply in_or_app. right. now left.
    + exact Hx'.
    + exact Hord'.
    + exact He.
Qed.

Theorem write_chain_frag_dh : forall dh k0 x0 (l : list (Z * Z * nodex)),
  NoDup (k0 :: rest_keys (mk_restx l)) -> (forall k, In k (rest_keys (mk_restx l)) -> k0 <= k) ->
  okx x0 -> Forall (fun y => 0 <= fst (fst y) <= 4 /\ okx (snd y)) l ->
  write_graph_by (S "atomname") false dh (path_graph k0 (fattrs x0) (mk_restx l)) [] = Ok (ctext [] x0 l).
Proof.
  intros dh k0 x0 l ND Hmin Hx Hord. unfold write_graph_by. rewrite write_path_abstract_by by assumption.
  rewrite (chain_text_frag dh (path_graph k0 (fattrs x0) (mk_restx l)) l [] [] k0 x0 [] None); try reflexivity; try assumption.
  intros p [].
Qed.
Theorem write_chain_frag : forall k0 x0 (l : list (Z * Z * nodex)),
  NoDup (k0 :: rest_keys (mk_restx l)) -> (forall k, In k (rest_keys (mk_restx l)) -> k0 <= k) ->
  okx x0 -> Forall (fun y => 0 <= fst (fst y) <= 4 /\ okx (snd y)) l ->
  write_graph_by (S "atomname") false (fun _ => true) (path_graph k0 (fattrs x0) (mk_restx l)) [] = Ok (ctext [] x0 l).
Proof. exact (write_chain_frag_dh (fun _ => true)). Qed.
End WriterSide.

(** ------------------------------------------------------------------ (ii) the strip model on the chain text *)
From CGV Require Import Frag.NDict Frag.StripImpl Frag.FragText Frag.FragProofs.

Definition bsym_of (o : Z) : option bsym :=
  if Z.eqb o 0 then Some BZero else if Z.eqb o 2 then Some BDouble else if Z.eqb o 3 then Some BTriple
  else if Z.eqb o 4 then Some BQuad else None.
Lemma zsym_bsym o : zsym o = optb (bsym_of o).
Proof. unfold zsym, bsym_of. destruct (o =? 0); [reflexivity|]. destruct (o =? 2); [reflexivity|]. destruct (o =? 3); [reflexivity|]. destruct (o =? 4); reflexivity. Qed.
Definition bond_toks (o : Z) : list tok := match bsym_of o with Some b => [TBond b] | None => [] end.
Definition ntok (x : nodex) : tok := TBracket ("#"%char :: fst x) None.
Definition okn (x : nodex) : Prop := body_ok ("#"%char :: fst x) = true /\ okx x.

Fixpoint ctoks (x : nodex) (l : list (Z * Z * nodex)) {struct l} : list tok :=
  ntok x :: match l with [] => [] | (o, _, x') :: r => bond_toks o ++ ctoks x' r end.
Fixpoint cafter (x : nodex) (l : list (Z * Z * nodex)) {struct l} : list (list desc) :=
  map to_desc (snd x) :: match l with [] => [] | (o, _, x') :: r => map (fun _ => []) (bond_toks o) ++ cafter x' r end.
Fixpoint citems (x : nodex) (l : list (Z * Z * nodex)) {struct l} : list ditem :=
  ITok (ntok x) :: map IDesc (map to_desc (snd x))
  ++ match l with [] => [] | (o, _, x') :: r => map ITok (bond_toks o) ++ citems x' r end.

Lemma citems_decorate : forall l x, decorate (ctoks x l) {| d_lead := []; d_after := cafter x l |} = citems x l.
Proof.
  unfold decorate. cbn [d_lead d_after map app].
  induction l as [|[[o k] x'] r IH]; intros x; cbn [ctoks cafter citems interleave hd tl].
  - reflexivity.
  - f_equal. f_equal. unfold bond_toks. destruct (bsym_of o) as [b|]; cbn [map app interleave hd tl]; [f_equal|]; apply IH.
Qed.
Lemma render_descs D : forallb d_ok D = true -> flat_map render_item (map IDesc (map to_desc D)) = fbt D.
Proof.
  induction D as [|d D IH]; intros H; [reflexivity|]. cbn [forallb] in H. apply andb_prop in H as [H1 H2].
  cbn [map flat_map]. rewrite render_desc by assumption. unfold fbt, fb_expected. cbn [map concat]. f_equal. now apply IH.
Qed.
Lemma render_citems : forall l x sprevo, okn x -> Forall (fun y => okn (snd y)) l ->
  optb sprevo ++ render (citems x l) = ctext (optb sprevo) x l.
Proof.
  induction l as [|[[o k] x'] r IH]; intros x sp [_ Hx] Hl; cbn [citems ctext]; unfold render; cbn [flat_map render_item]; rewrite flat_map_app, (render_descs _ Hx).
  - cbn [flat_map]. unfold ntxt, ntok. cbn [render_tok app S list_ascii_of_string]. rewrite !app_nil_r, <- !app_assoc. reflexivity.
  - rewrite flat_map_app. fold (render (citems x' r)).
    assert (Eb : flat_map render_item (map ITok (bond_toks o)) = optb (bsym_of o)).
    { unfold bond_toks. destruct (bsym_of o); reflexivity. }
    rewrite Eb. rewrite (IH x' (bsym_of o) (Forall_inv Hl) (Forall_inv_tail Hl)). rewrite zsym_bsym.
    unfold ntxt, ntok. cbn [render_tok app S list_ascii_of_string]. rewrite <- !app_assoc. reflexivity.
Qed.

Lemma wf_descs D depth rest : forallb d_ok D = true ->
  wf_items ZAtom depth (map IDesc (map to_desc D) ++ rest) = wf_items ZAtom depth rest.
Proof.
  intros H. induction D as [|d D IH]; [reflexivity|]. cbn [forallb] in H. apply andb_prop in H as [H1 H2].
  cbn [map app wf_items is_zatom andb]. rewrite desc_ok_to_desc by assumption. cbn [andb]. now apply IH.
Qed.
Lemma wf_citems : forall l x z, match z with ZStart | ZBond | ZAtom => True | ZOpen => True end -> okn x -> Forall (fun y => okn (snd y)) l ->
  wf_items z 0 (citems x l) = true.
Proof.
  induction l as [|[[o k] x'] r IH]; intros x z _ [Hb Hx] Hl; cbn [citems wf_items tok_ok ntok annot_ok]; rewrite Hb; cbn [andb];
    rewrite wf_descs by exact Hx.
  - reflexivity.
  - unfold bond_toks. destruct (bsym_of o) as [b|]; cbn [map app wf_items tok_ok andb].
    + apply IH; [exact I|exact (Forall_inv Hl)|exact (Forall_inv_tail Hl)].
    + apply IH; [exact I|exact (Forall_inv Hl)|exact (Forall_inv_tail Hl)].
Qed.
Lemma nomult_citems : forall l x, has_mult (citems x l) = false.
Proof.
  unfold has_mult. induction l as [|[[o k] x'] r IH]; intros x; cbn [citems existsb ntok orb]; rewrite existsb_app.
  - assert (E : existsb (fun i => match i with ITok (TMult _) => true | _ => false end) (map IDesc (map to_desc (snd x))) = false)
      by (induction (snd x); [reflexivity|assumption]). now rewrite E.
  - assert (E : existsb (fun i => match i with ITok (TMult _) => true | _ => false end) (map IDesc (map to_desc (snd x))) = false)
      by (induction (snd x); [reflexivity|assumption]). rewrite E, existsb_app, IH. unfold bond_toks. destruct (bsym_of o); reflexivity.
Qed.

Section ChainSpec.
  Variables (fo : float_oracle) (a0 : attrs).
  Hypothesis Hp : fragment_node_parser fo [] = Ok a0.

  Fixpoint cspec (sp : sst) (x : nodex) (l : list (Z * Z * nodex)) {struct l} : sst :=
    let n := s_n sp in
    let sp1 := {| s_n := Datatypes.S n; s_owner := n; s_stack := s_stack sp;
                  s_clean := s_clean sp ++ coarse_text (fst x);
                  s_desc := fold_left (fun d y => nd_append n (d_stored y) d) (snd x) (s_desc sp);
                  s_ez := s_ez sp; s_ann := nd_update n a0 (s_ann sp) |} in
    match l with
    | [] => sp1
    | (o, _, x') :: r =>
        cspec {| s_n := s_n sp1; s_owner := s_owner sp1; s_stack := s_stack sp1; s_clean := s_clean sp1 ++ optb (bsym_of o);
                 s_desc := s_desc sp1; s_ez := s_ez sp1; s_ann := s_ann sp1 |} x' r
    end.

  Lemma spec_descs sp D : forallb d_ok D = true ->
    spec_run fo sp (map IDesc (map to_desc D))
    = Ok {| s_n := s_n sp; s_owner := s_owner sp; s_stack := s_stack sp; s_clean := s_clean sp;
            s_desc := fold_left (fun d y => nd_append (s_owner sp) (d_stored y) d) D (s_desc sp); s_ez := s_ez sp; s_ann := s_ann sp |}.
  Proof.
    revert sp. induction D as [|d D IH]; intros sp H; [destruct sp; reflexivity|].
    cbn [forallb] in H. apply andb_prop in H as [H1 H2]. cbn [map spec_run spec_item bind fold_left].
    rewrite (IH _ H2). unfold spec_desc. cbn [s_n s_owner s_stack s_clean s_desc s_ez s_ann]. now rewrite entry_desc.
  Qed.
  Lemma spec_run_app a b sp : spec_run fo sp (a ++ b) = (sp' <- spec_run fo sp a ;; spec_run fo sp' b).
  Proof. revert sp. induction a as [|i a IH]; intros sp; [reflexivity|]. cbn [app spec_run]. destruct (spec_item fo sp i); cbn [bind]; [apply IH|reflexivity]. Qed.

  Lemma spec_citems : forall l x sp, okn x -> Forall (fun y => okn (snd y)) l ->
    spec_run fo sp (citems x l) = Ok (cspec sp x l).
  Proof.
    induction l as [|[[o k] x'] r IH]; intros x sp [_ Hx] Hl; cbn [citems cspec spec_run spec_item spec_tok ntok bind]; rewrite Hp; cbn [bind];
      rewrite spec_run_app, (spec_descs _ _ Hx); cbn [bind s_n s_owner s_stack s_clean s_desc s_ez s_ann clean_tok].
    - cbn [spec_run]. first [reflexivity | (f_equal; f_equal; unfold coarse_text; cbn [S list_ascii_of_string app]; rewrite <- ?app_assoc; reflexivity)].
    - rewrite spec_run_app.
      assert (Eb : forall sp0, spec_run fo sp0 (map ITok (bond_toks o))
                   = Ok {| s_n := s_n sp0; s_owner := s_owner sp0; s_stack := s_stack sp0; s_clean := s_clean sp0 ++ optb (bsym_of o);
                           s_desc := s_desc sp0; s_ez := s_ez sp0; s_ann := s_ann sp0 |}).
      { intros sp0. unfold bond_toks. destruct (bsym_of o) as [b|]; cbn [map spec_run spec_item spec_tok bind clean_tok render_tok optb].
        - reflexivity.
        - rewrite app_nil_r. destruct sp0; reflexivity. }
      rewrite Eb. cbn [bind s_n s_owner s_stack s_clean s_desc s_ez s_ann].
      rewrite (IH x' _ (Forall_inv Hl) (Forall_inv_tail Hl)).
      first [reflexivity | (f_equal; f_equal; f_equal; unfold coarse_text; cbn [S list_ascii_of_string app]; rewrite <- ?app_assoc; reflexivity)].
  Qed.

  (** the strip model on the text the writer produces for a chain *)
  Theorem strip_chain : forall x l, okn x -> Forall (fun y => okn (snd y)) l ->
    strip_bonding_descriptors fo (ctext [] x l) = Ok (sres (cspec sinit x l)).
  Proof.
    intros x l Hx Hl. pose proof (render_citems l x None Hx Hl) as R. cbn [optb app] in R. rewrite <- R, <- citems_decorate.
    rewrite strip_correct.
    - unfold strip_spec, spec_items. rewrite citems_decorate, (spec_citems l x sinit Hx Hl). reflexivity.
    - unfold wf. rewrite citems_decorate, (wf_citems l x ZStart I Hx Hl), andb_true_r. cbn [d_after].
      apply Nat.leb_le. clear. revert x. induction l as [|[[o k] x'] r IH]; intros x; cbn [cafter ctoks length]; [lia|].
      rewrite !app_length, map_length. specialize (IH x'). lia.
    - unfold excluded, excluded_items, class_of. now rewrite citems_decorate, nomult_citems.
  Qed.
End ChainSpec.

(** ------------------------------------------------------------------ (iii) the fragment reader on the written text *)
From CGV Require Import Reader.ReaderImpl Reader.Grammar Reader.Lin Reader.ReaderEnd Write.PathRound Write.FragRead.

Definition plainl (l : list (Z * Z * nodex)) : list (Z * Z * pystr) := map (fun y => (fst y, fst (snd y))) l.
Lemma clean_chain a0 : forall l x sp,
  s_clean (cspec a0 sp x l) = s_clean sp ++ path_text [] (fst x) (plainl l).
Proof.
  induction l as [|[[o k] x'] r IH]; intros x sp; cbn [cspec plainl map path_text s_clean fst snd].
  - unfold coarse_text. now rewrite app_nil_r.
  - rewrite IH. cbn [s_clean]. fold (plainl r). rewrite <- zsym_bsym. unfold coarse_text.
    assert (E : forall s nm ll, path_text s nm ll = s ++ path_text [] nm ll) by (intros s nm ll; destruct ll as [|[[? ?] ?] ?]; reflexivity).
    rewrite (E (zsym o)). rewrite <- ?app_assoc. reflexivity.
Qed.

(** the reader model on a chain text WITHOUT braces (fragment texts) *)
Theorem read_chain_nobrace : forall fo A nm0 (l : list (Z * Z * pystr)),
  Forall (fun y => 0 <= fst (fst y) <= 4) l ->
  Forall (fun n => name_ok fo n = true) (path_names nm0 l) ->
  Forall (fun n => parse_graph_base_node fo n = Ok (A n)) (path_names nm0 l) ->
  read_cgsmiles fo (path_text [] nm0 l) = Ok (nx_build A nm0 l).
Proof.
  intros fo A nm0 l Ho Hn Hp. rewrite path_text_lins by assumption. cbn [app].
  destruct (path_lins_ok fo l nm0 Hn) as [A1 [A2 A3]].
  rewrite reader_sim_lin_nobrace.
  - unfold denote_lin. rewrite (m_run_path fo A l nm0 m_init Hp Ho). reflexivity.
  - unfold lins_ok. rewrite A1, A2. cbn [andb]. destruct (path_lins nm0 l) as [|i t]; [reflexivity|]. now rewrite A3.
Qed.

(** C08 for coarse fragment chains: the text the writer produces for the chain is read by the model of the
    coarse branch of fragment_iter (strip_bonding_descriptors, then read_fragment_cgsmiles) as: the chain numbered
    0..n with the parsed attributes of the names and the bond orders, post-processed with exactly the descriptor
    dict {i : Di} the chain carried *)
Theorem coarse_chain_roundtrip : forall fo A a0 fragname k0 x0 (l : list (Z * Z * nodex)),
  fragment_node_parser fo [] = Ok a0 ->
  NoDup (k0 :: rest_keys (mk_restx fragname l)) -> (forall k, In k (rest_keys (mk_restx fragname l)) -> k0 <= k) ->
  okn x0 -> Forall (fun y => 0 <= fst (fst y) <= 4 /\ okn (snd y)) l ->
  Forall (fun n => name_ok fo n = true) (path_names (fst x0) (plainl l)) ->
  Forall (fun n => parse_graph_base_node fo n = Ok (A n)) (path_names (fst x0) (plainl l)) ->
  exists txt, write_graph_by (S "atomname") false (fun _ => true) (path_graph k0 (fattrs fragname x0) (mk_restx fragname l)) [] = Ok txt
    /\ read_coarse_fragment fo fragname txt
       = (let sp := cspec a0 sinit x0 l in
          let g := nx_build A (fst x0) (plainl l) in
          let g1 := set_nodes_from g (S "atomname") (get_node_attributes g (S "fragname")) in
          let g2 := set_nodes_from g1 (S "bonding") (bonding_values (s_desc sp)) in
          let g3 := set_all_nodes g2 (S "fragname") (VStr fragname) in
          let g4 := set_all_nodes g3 (S "fragid") (VInt 0) in
          let g5 := set_all_nodes g4 (S "w") (VInt 1) in
          Ok (update_nodes_from g5 (node_updates (s_ann sp)))).
Proof.
  intros fo A a0 fragname k0 x0 l Hp0 ND Hmin [Hb0 Hx0] Hl Hn Hp.
  exists (ctext [] x0 l). split.
  - apply write_chain_frag; try assumption. eapply Forall_impl; [|exact Hl]. intros y [H1 [_ H2]]. auto.
  - unfold read_coarse_fragment.
    rewrite (strip_chain fo a0 Hp0 x0 l (conj Hb0 Hx0)) by (eapply Forall_impl; [|exact Hl]; intros y [_ H]; exact H).
    unfold sres. cbn [bind]. unfold read_fragment_cgsmiles. rewrite (clean_chain a0 l x0 sinit). cbn [s_clean sinit app].
    rewrite (read_chain_nobrace fo A (fst x0) (plainl l)); [reflexivity| |exact Hn|exact Hp].
    clear - Hl. induction l as [|[[o k] x] r IH]; [constructor|]. cbn [plainl map]. constructor; [cbn; exact (proj1 (Forall_inv Hl))|apply IH; exact (Forall_inv_tail Hl)].
Qed.

(** non-vacuity: a chain with descriptors of every order and bonds of orders 2, 0 *)
Definition ex_x0 : nodex := (S "A", [("$"%char, S "a", 1%nat); (">"%char, [], 2%nat)]).
Definition ex_l : list (Z * Z * nodex) := [(2, 5, (S "B", [("!"%char, S "x", 0%nat)])); (0, 7, (S "PEO", [])); (1, 9, (S "A", [("<"%char, [], 3%nat)]))].
Example coarse_chain_example :
  write_graph_by (S "atomname") false (fun _ => true) (path_graph 3 (fattrs (S "X") ex_x0) (mk_restx (S "X") ex_l)) []
  = Ok (S "[#A][$a]=[>]=[#B].[!x].[#PEO][#A]#[<]")
  /\ match read_coarse_fragment (fun _ => None) (S "X") (S "[#A][$a]=[>]=[#B].[!x].[#PEO][#A]#[<]") with
     | Ok g => map (fun n => (nk n, aget (S "atomname") (na n), aget (S "bonding") (na n), aget (S "fragname") (na n))) g
               = [(0, Some (VStr (S "A")), Some (VList [VStr (S "$a1"); VStr (S ">2")]), Some (VStr (S "X")));
                  (1, Some (VStr (S "B")), Some (VList [VStr (S "!x0")]), Some (VStr (S "X")));
                  (2, Some (VStr (S "PEO")), None, Some (VStr (S "X")));
                  (3, Some (VStr (S "A")), Some (VList [VStr (S "<3")]), Some (VStr (S "X")))]
     | Err _ => False
     end.
Proof. split; vm_compute; reflexivity. Qed.
