(** CoarseChain: C08 for coarse fragment CHAINS, unbounded.  A chain of coarse nodes, each with a name and a
    list of bonding descriptors (kinds $ > < !, alphanumeric labels, orders 0..3), joined by bonds of order 0..4:
    (i)   [write_chain_frag]: write_graph(smiles_format=False) writes  [#n0]D0 s1 [#n1]D1 ...  (node, its
          descriptors through the generated format_bonding, the bond symbol before the next node);
    (ii)  [strip_chain]: the strip model (through the strip component's strip_correct) splits that text into the
          clean chain text and the descriptor dict {i: Di};
    (iii) [read_chain_frag]: the model of read_fragment_cgsmiles then reads the clean text (reader component's
          reader_sim_lin_nobrace) as the chain numbered 0..n and applies its post-processing to it.
    The writer takes every node's name from `fragname`: this is the theorem about what the code does; the open
    class coarse_node_renamed (names kept in `atomname` are lost) is outside.  Trees with a bond symbol on a
    branch edge are outside too: the strip grammar (Frag/FragText.wf_items) has no symbol before "(". *)
From Coq Require Import String.
From Coq Require Import List Ascii ZArith Bool Lia.
From CGV Require Import Base.PyBase Base.PyVal Base.PyGen Base.NxGraph Gen.WriterGen Dialect.DialectImpl.
From CGV Require Import Write.WriteImpl Write.WriteDefs Write.WriteProofs Write.FormatBondingSpec Write.FormatStripRound.
Import ListNotations.
Open Scope Z_scope.

(** ------------------------------------------------------------------ (i) the writer *)
Definition nodex := (pystr * list dspec)%type.                      (* name, descriptors *)
Definition fattrs (x : nodex) : attrs := [(S "fragname", VStr (fst x)); (S "bonding", VList (map VStr (map d_stored (snd x))))].
Definition fbt (D : list dspec) : pystr := fb_expected (map (fun x => (d_kl x, snd x)) D).
Definition ntxt (x : nodex) : pystr := S "[#" ++ fst x ++ S "]" ++ fbt (snd x).
Definition okx (x : nodex) : Prop := forallb d_ok (snd x) = true.
Definition mk_restx (l : list (Z * Z * nodex)) : list (attrs * Z * attrs) :=
  map (fun y => (order_attrs (fst (fst y)), snd (fst y), fattrs (snd y))) l.
Fixpoint ctext (sprev : pystr) (x : nodex) (l : list (Z * Z * nodex)) {struct l} : pystr :=
  sprev ++ ntxt x ++ match l with [] => [] | (o, _, x') :: r => ctext (zsym o) x' r end.

Lemma strs_of_map ds : strs_of (map VStr ds) = Ok ds.
Proof. induction ds as [|d r IH]; [reflexivity|]. cbn [map strs_of as_str bind]. now rewrite IH. Qed.
Lemma fb_dspec D : forallb d_ok D = true -> format_bonding (map d_stored D) = Ok (fbt D).
Proof.
  intros HL. unfold fbt.
  replace (map d_stored D) with (map (fun klo => mk_descr (fst klo) (snd klo)) (map (fun x => (d_kl x, snd x)) D))
    by (rewrite map_map; reflexivity).
  apply format_bonding_spec. apply Forall_forall. intros klo Hin. apply in_map_iff in Hin as [x [<- Hx]].
  rewrite forallb_forall in HL. specialize (HL x Hx). destruct (order_cases _ HL) as [E|[E|[E|E]]]; cbn [snd]; lia.
Qed.
Lemma aget_fragname x : aget (S "fragname") (fattrs x) = Some (VStr (fst x)).
Proof. reflexivity. Qed.
Lemma aget_bonding x : aget (S "bonding") (fattrs x) = Some (VList (map VStr (map d_stored (snd x)))).
Proof. reflexivity. Qed.
Lemma aget_aromatic x : aget (S "aromatic") (fattrs x) = None.
Proof. reflexivity. Qed.
Lemma node_text_frag dh G pre prev k x rest : okx x ->
  G = pre ++ path_from prev k (fattrs x) rest -> ~ In k (map nk pre) ->
  node_text false dh G k = Ok (ntxt x).
Proof.
  intros Hx -> Hk. destruct (path_from_head prev k (fattrs x) rest) as [adj [post ->]].
  unfold node_text, format_node, bonding_suffix, node_attrs. rewrite gfind_app by (assumption || reflexivity).
  cbn [bind na]. rewrite aget_fragname, aget_bonding. cbn [of_option bind py_format]. unfold ntxt.
  assert (Hb : (if truthy (VList (map VStr (map d_stored (snd x))))
                then l <- as_list (VList (map VStr (map d_stored (snd x)))) ;; ds <- strs_of l ;; format_bonding ds else Ok [])
               = Ok (fbt (snd x))).
  { destruct (snd x) as [|d D] eqn:ED; [reflexivity|]. rewrite <- ED. 
    assert (Et : truthy (VList (map VStr (map d_stored (snd x)))) = true) by (rewrite ED; reflexivity).
    rewrite Et. cbn [as_list bind]. rewrite strs_of_map. cbn [bind]. now apply fb_dspec. }
  rewrite Hb. cbn [bind]. now rewrite <- !app_assoc.
Qed.
Lemma edge_text_frag G pre k x prev k' o post :
  G = pre ++ {| nk := k; na := fattrs x; nadj := prev ++ [(k', order_attrs o)] |} :: post ->
  ~ In k (map nk pre) -> ~ In k' (map fst prev) -> 0 <= o <= 4 ->
  edge_text G k k' = Ok (zsym o).
Proof.
  intros -> Hk Hk' Ho.
  unfold edge_text, write_edge_symbol, edge_order, edge_attrs, node_flag, node_attrs.
  rewrite !gfind_app by (assumption || reflexivity). cbn [nadj na]. rewrite adj_get_last by assumption.
  assert (C : o = 0 \/ o = 1 \/ o = 2 \/ o = 3 \/ o = 4) by lia.
  destruct C as [->|[->|[->|[->| ->]]]]; reflexivity.
Qed.

Lemma chain_text_frag dh G : forall l pre prev k x sprev prevopt env,
  G = pre ++ path_from prev k (fattrs x) (mk_restx l) ->
  e_fmt env = node_text false dh G -> e_sym env = edge_text G ->
  NoDup (map nk pre ++ k :: rest_keys (mk_restx l)) ->
  (forall p, In p prev -> In (fst p) (map nk pre)) ->
  okx x -> Forall (fun y => 0 <= fst (fst y) <= 4 /\ okx (snd y)) l ->
  match prevopt with None => sprev = [] | Some p => edge_text G p k = Ok sprev end ->
  chain_text env prevopt (k :: rest_keys (mk_restx l)) = Ok (ctext sprev x l).
Proof.
  induction l as [|[[o k'] x'] r IH]; intros pre prev k x sprev prevopt env HG Hf Hs ND Hprev Hx Hord Hsp.
  - cbn [mk_restx map rest_keys chain_text ctext]. rewrite Hf, Hs.
    rewrite (node_text_frag dh G pre prev k x [] Hx HG) by (apply NoDup_remove_2 in ND; intros H; apply ND; apply in_or_app; now left).
    destruct prevopt as [p|]; [rewrite Hsp|subst sprev]; cbn [bind]; now rewrite ?app_nil_r, <- ?app_assoc.
  - assert (Hk : ~ In k (map nk pre)) by (apply NoDup_remove_2 in ND; intros H; apply ND; apply in_or_app; now left).
    cbn [mk_restx map rest_keys fst snd] in *.
    change (map (fun y : attrs * Z * attrs => snd (fst y)) (map (fun y : Z * Z * nodex => (order_attrs (fst (fst y)), snd (fst y), fattrs (snd y))) r))
      with (rest_keys (mk_restx r)) in *.
    assert (E : chain_text env prevopt (k :: k' :: rest_keys (mk_restx r))
                = (sym <- match prevopt with None => Ok [] | Some p => e_sym env p k end ;; node <- e_fmt env k ;;
                   rest <- chain_text env (Some k) (k' :: rest_keys (mk_restx r)) ;; Ok (sym ++ node ++ rest))) by reflexivity.
    rewrite E; clear E. rewrite Hf, Hs.
    rewrite (node_text_frag dh G pre prev k x _ Hx HG Hk).
    pose proof (Forall_inv Hord) as [Ho Hx']. pose proof (Forall_inv_tail Hord) as Hord'. cbn [fst snd] in Ho, Hx'.
    cbn [path_from] in HG.
    assert (Hk' : ~ In k' (map fst prev)).
    { intros H. apply in_map_iff in H as [p [E Hp]]. apply Hprev in Hp. rewrite E in Hp.
      replace (map nk pre ++ k :: k' :: rest_keys (mk_restx r)) with ((map nk pre ++ [k]) ++ k' :: rest_keys (mk_restx r)) in ND
        by now rewrite <- app_assoc.
      apply NoDup_remove_2 in ND. apply ND. apply in_or_app. left. apply in_or_app. now left. }
    pose proof (edge_text_frag G pre k x prev k' o _ HG Hk Hk' Ho) as He.
    rewrite (IH (pre ++ [{| nk := k; na := fattrs x; nadj := prev ++ [(k', order_attrs o)] |}]) [(k, order_attrs o)]
                k' x' (zsym o) (Some k) env).
    + destruct prevopt as [p|]; [rewrite Hsp|subst sprev]; cbn [bind ctext]; rewrite <- ?app_assoc; reflexivity.
    + rewrite HG, <- app_assoc. reflexivity.
    + exact Hf.
    + exact Hs.
    + rewrite map_app. cbn [map nk]. rewrite <- app_assoc. exact ND.
    + intros p [<-|[]]. cbn [fst]. rewrite map_app. apply in_or_app. right. now left.
    + exact Hx'.
    + exact Hord'.
    + exact He.
Qed.

Theorem write_chain_frag : forall k0 x0 (l : list (Z * Z * nodex)),
  NoDup (k0 :: rest_keys (mk_restx l)) -> (forall k, In k (rest_keys (mk_restx l)) -> k0 <= k) ->
  okx x0 -> Forall (fun y => 0 <= fst (fst y) <= 4 /\ okx (snd y)) l ->
  write_graph false (fun _ => true) (path_graph k0 (fattrs x0) (mk_restx l)) [] = Ok (ctext [] x0 l).
Proof.
  intros k0 x0 l ND Hmin Hx Hord. unfold write_graph. rewrite write_path_abstract by assumption.
  rewrite (chain_text_frag (fun _ => true) (path_graph k0 (fattrs x0) (mk_restx l)) l [] [] k0 x0 [] None); try reflexivity; try assumption.
  intros p [].
Qed.
