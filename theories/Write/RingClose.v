(** RingClose: every ring of the transcript is opened exactly once and closed exactly once, and no marker is
    left open at the end of write_graph.
    - [wtextR_marks]: the ring table after the traversal = the allocator run over the ring indices met in the
      order of writing ([ring_seq]);
    - [marks_parity]: a ring index is open iff it was met an odd number of times;
    - [ring_tables_get]: atom_to_ring_idx[k] lists exactly the rings with an end at k (a ring with both ends
      at k twice), in increasing order;
    - [no_open_ring]: if both ends of every ring edge are written (DFS spanning) and no ring edge is a self
      loop, every ring index is met exactly twice -- first at the end written earlier (opens a marker), then at
      the end written later (closes that marker) -- and the table is empty at the end. *)
From Coq Require Import String.
From Coq Require Import List Ascii ZArith Bool Lia.
From CGV Require Import Base.PyBase Base.PyVal Base.PyGen Base.NxGraph Write.WriteImpl Write.TreeDefs Write.TreeWrite
     Write.TreeTables Write.RingDefs Write.RingWrite Write.RingTables Write.RingMarkers.
Import ListNotations.
Open Scope Z_scope.

Section Seq.
  Variables (sf : bool) (ntext : Z -> pystr) (stext : Z -> Z -> pystr) (rlist : Z -> list nat) (rsymt : nat -> pystr).
  Notation ring_pureA := (RingDefs.ring_pure rsymt).
  Notation ring_pure := (RingDefs.ring_pure rsymt false).
  Notation wtextR := (wtextR sf ntext stext rlist rsymt).
  Notation wbranchesR := (wbranchesR sf ntext stext rlist rsymt).

  (** the table and the markers written do not depend on the flag after_pct (only the text does) *)
  Lemma ring_pure_flag : forall ris a b mk,
    fst (fst (ring_pureA a mk ris)) = fst (fst (ring_pureA b mk ris)) /\ snd (ring_pureA a mk ris) = snd (ring_pureA b mk ris).
  Proof.
    induction ris as [|ri r IH]; intros a b mk; [split; reflexivity|]. cbn [RingDefs.ring_pure].
    destruct (mk_get ri mk) as [m|].
    - destruct (IH (a || (10 <=? m)%nat) (b || (10 <=? m)%nat) (mk_del ri mk)) as [E1 E2].
      destruct (ring_pureA (a || (10 <=? m)%nat) (mk_del ri mk) r) as [[x1 y1] z1].
      destruct (ring_pureA (b || (10 <=? m)%nat) (mk_del ri mk) r) as [[x2 y2] z2]. cbn [fst snd] in *. now subst.
    - set (m := get_ring_marker (map snd mk)).
      destruct (IH (a || (10 <=? m)%nat) (b || (10 <=? m)%nat) (mk ++ [(ri, m)])) as [E1 E2].
      destruct (ring_pureA (a || (10 <=? m)%nat) (mk ++ [(ri, m)]) r) as [[x1 y1] z1].
      destruct (ring_pureA (b || (10 <=? m)%nat) (mk ++ [(ri, m)]) r) as [[x2 y2] z2]. cbn [fst snd] in *. now subst.
  Qed.

  Definition pmarks (mk : marks) (ris : list nat) : marks := fst (fst (ring_pure mk ris)).
  Lemma pmarks_cons mk ri r :
    pmarks mk (ri :: r) = match mk_get ri mk with
                          | Some m => pmarks (mk_del ri mk) r
                          | None => pmarks (mk ++ [(ri, get_ring_marker (map snd mk))]) r
                          end.
  Proof.
    unfold pmarks. cbn [RingDefs.ring_pure]. destruct (mk_get ri mk) as [m|].
    - rewrite <- (proj1 (ring_pure_flag r (false || (10 <=? m)%nat) false (mk_del ri mk))).
      destruct (ring_pureA (false || (10 <=? m)%nat) (mk_del ri mk) r) as [[x y] z]. reflexivity.
    - set (m := get_ring_marker (map snd mk)).
      rewrite <- (proj1 (ring_pure_flag r (false || (10 <=? m)%nat) false (mk ++ [(ri, m)]))).
      destruct (ring_pureA (false || (10 <=? m)%nat) (mk ++ [(ri, m)]) r) as [[x y] z]. reflexivity.
  Qed.
  Lemma pmarks_app : forall a mk b, pmarks mk (a ++ b) = pmarks (pmarks mk a) b.
  Proof.
    induction a as [|ri a IH]; intros mk b; [reflexivity|]. change ((ri :: a) ++ b) with (ri :: (a ++ b)).
    rewrite !pmarks_cons. destruct (mk_get ri mk) as [m|]; apply IH.
  Qed.

  (** the ring indices in the order the traversal meets them *)
  Definition ring_seq (t : rtree) : list nat := flat_map rlist (worder t).

  Lemma wtextR_marks : forall t p isb d mk, snd (fst (wtextR p isb d mk t)) = pmarks mk (ring_seq t).
  Proof.
    apply (rtree_ind2 (fun t => forall p isb d mk, snd (fst (wtextR p isb d mk t)) = pmarks mk (ring_seq t))).
    intros k cs IH p isb d mk. destruct cs as [|c1 bs].
    - cbn [RingDefs.wtextR]. unfold ring_seq. cbn [worder flat_map]. rewrite app_nil_r. unfold pmarks.
      destruct (ring_pure mk (rlist k)) as [[mk1 rt] trc]. reflexivity.
    - set (d1 := if isb then Datatypes.S d else d).
      change (wtextR p isb d mk (RNode k (c1 :: bs)))
        with (let '(mk1, rt, trc) := ring_pure mk (rlist k) in
              let '(tb, mkb, mb) := wbranchesR k d1 mk1 bs in
              let '(tc, mkc, mc) := wtextR (Some k) false d1 mkb c1 in
              (whead sf ntext stext p isb k ++ rt ++ tb ++ tc, mkc, trace_entry k trc ++ mb ++ mc)).
      unfold ring_seq. change (worder (RNode k (c1 :: bs))) with (k :: worder_branches bs ++ worder c1).
      cbn [flat_map]. rewrite flat_map_app, !pmarks_app.
      assert (E1 : fst (fst (ring_pure mk (rlist k))) = pmarks mk (rlist k)) by reflexivity.
      destruct (ring_pure mk (rlist k)) as [[mk1 rt] trc]. cbn [fst] in E1. rewrite <- E1.
      assert (B : forall l mk0, Forall (fun t => forall p isb d mk, snd (fst (wtextR p isb d mk t)) = pmarks mk (ring_seq t)) l ->
                  snd (fst (wbranchesR k d1 mk0 l)) = pmarks mk0 (flat_map rlist (worder_branches l))).
      { induction l as [|c r IHr]; intros mk0 Hl; [reflexivity|].
        change (wbranchesR k d1 mk0 (c :: r))
          with (let '(t2, mk2, m2) := wbranchesR k d1 mk0 r in
                let '(t1, mk3, m1) := wtextR (Some k) true d1 mk2 c in (t2 ++ t1, mk3, m2 ++ m1)).
        change (worder_branches (c :: r)) with (worder_branches r ++ worder c).
        rewrite flat_map_app, pmarks_app. rewrite <- (IHr mk0 (Forall_inv_tail Hl)).
        destruct (wbranchesR k d1 mk0 r) as [[t2 mk2] m2]. cbn [fst snd].
        pose proof (Forall_inv Hl (Some k) true d1 mk2) as Hc. unfold ring_seq in Hc. rewrite <- Hc.
        destruct (wtextR (Some k) true d1 mk2 c) as [[t1 mk3] m1]. reflexivity. }
      rewrite <- (B bs mk1 (Forall_inv_tail IH)).
      destruct (wbranchesR k d1 mk1 bs) as [[tb mkb] mb]. cbn [fst snd].
      pose proof (Forall_inv IH (Some k) false d1 mkb) as Hc1. unfold ring_seq in Hc1. rewrite <- Hc1.
      destruct (wtextR (Some k) false d1 mkb c1) as [[tc mkc] mc]. reflexivity.
  Qed.
End Seq.

(** ------------------------------------------------------------------ open iff met an odd number of times *)
Fixpoint occ (x : nat) (l : list nat) : nat := match l with [] => 0 | y :: r => (if Nat.eqb y x then 1 else 0) + occ x r end.
Lemma occ_app x a b : occ x (a ++ b) = (occ x a + occ x b)%nat.
Proof. induction a as [|y a IH]; cbn; [reflexivity|]. rewrite IH. lia. Qed.

Lemma in_mk_del x ri mk : In x (map fst (mk_del ri mk)) <-> In x (map fst mk) /\ x <> ri.
Proof.
  unfold mk_del. rewrite !in_map_iff. split.
  - intros [p [E H]]. apply filter_In in H as [H1 H2]. apply negb_true_iff in H2. apply Nat.eqb_neq in H2.
    split; [exists p; tauto|congruence].
  - intros [[p [E H]] N]. exists p. split; [assumption|]. apply filter_In. split; [assumption|].
    apply negb_true_iff. apply Nat.eqb_neq. congruence.
Qed.
Lemma mk_get_some_key ri mk m : mk_get ri mk = Some m -> In ri (map fst mk).
Proof. intros H. apply mk_get_in in H. change ri with (fst (ri, m)). now apply in_map. Qed.

Lemma marks_parity rsymt : forall ris mk x,
  In x (map fst (pmarks rsymt mk ris)) <-> (In x (map fst mk) <-> Nat.even (occ x ris) = true).
Proof.
  induction ris as [|ri r IH]; intros mk x.
  - unfold pmarks. cbn. tauto.
  - change (ri :: r) with ([ri] ++ r). rewrite pmarks_app, IH. clear IH.
    unfold pmarks at 1. cbn [RingDefs.ring_pure].
    cbn [app occ]. destruct (Nat.eqb_spec ri x) as [->|N].
    + (* the index itself: toggles *)
      replace (Nat.even (1 + occ x r)) with (negb (Nat.even (occ x r))) by (rewrite Nat.even_succ, <- Nat.negb_even; reflexivity).
      destruct (mk_get x mk) as [m|] eqn:E; cbn [fst].
      * pose proof (mk_get_some_key _ _ _ E) as Hin. rewrite in_mk_del.
        destruct (Nat.even (occ x r)); cbn; intuition congruence.
      * pose proof (mk_get_none _ _ E) as Hn. rewrite map_app, in_app_iff. cbn [map fst In].
        destruct (Nat.even (occ x r)); cbn; intuition congruence.
    + cbn [Nat.add]. destruct (mk_get ri mk) as [m|] eqn:E; cbn [fst].
      * rewrite in_mk_del. intuition congruence.
      * rewrite map_app, in_app_iff. cbn [map fst In]. intuition congruence.
Qed.

(** ------------------------------------------------------------------ atom_to_ring_idx *)
Definition ends_at (k : Z) (ie : nat * (Z * Z)) : list nat :=
  (if Z.eqb k (fst (snd ie)) then [fst ie] else []) ++ (if Z.eqb k (snd (snd ie)) then [fst ie] else []).
Lemma ring_tables_get tr k :
  dl_get k (ring_tables tr) = opt_list (flat_map (ends_at k) (combine (seq 1 (length tr)) tr)).
Proof.
  unfold ring_tables.
  assert (G : forall (l : list (nat * (Z * Z))) d,
              dl_get k (fold_left (fun d ie => dl_append (snd (snd ie)) (fst ie) (dl_append (fst (snd ie)) (fst ie) d)) l d)
              = match dl_get k d with
                | Some x => Some (x ++ flat_map (ends_at k) l)
                | None => opt_list (flat_map (ends_at k) l)
                end).
  { induction l as [|[i [a b]] l IH]; intros d; cbn [fold_left flat_map].
    - destruct (dl_get k d); [now rewrite app_nil_r|reflexivity].
    - rewrite IH. cbn [fst snd]. rewrite !dl_get_append.
      assert (E : ends_at k (i, (a, b)) = (if Z.eqb k a then [i] else []) ++ (if Z.eqb k b then [i] else [])) by reflexivity.
      rewrite E. generalize (flat_map (ends_at k) l) as rest. intros rest.
      destruct (Z.eqb k b), (Z.eqb k a), (dl_get k d); cbn [app opt_list]; rewrite <- ?app_assoc; reflexivity. }
  rewrite G. reflexivity.
Qed.

Lemma rlist_of_eq tr k : rlist_of tr k = flat_map (ends_at k) (combine (seq 1 (length tr)) tr).
Proof. unfold rlist_of. rewrite ring_tables_get. destruct (flat_map (ends_at k) (combine (seq 1 (length tr)) tr)); reflexivity. Qed.

(** ------------------------------------------------------------------ every ring is met exactly twice *)
Definition b2n (b : bool) : nat := if b then 1 else 0.
Lemma occ_ends x k i a b : occ x (ends_at k (i, (a, b))) = (b2n (Nat.eqb i x) * (b2n (Z.eqb k a) + b2n (Z.eqb k b)))%nat.
Proof. unfold ends_at. cbn [fst snd]. destruct (Z.eqb k a), (Z.eqb k b), (Nat.eqb i x) eqn:E; cbn; rewrite ?E; reflexivity. Qed.
Lemma occ_item x i a b : forall ws, NoDup ws ->
  occ x (flat_map (fun k => ends_at k (i, (a, b))) ws) = (b2n (Nat.eqb i x) * (b2n (memz a ws) + b2n (memz b ws)))%nat.
Proof.
  induction ws as [|k r IH]; intros ND; [cbn; lia|]. inversion ND as [|? ? Hn ND']; subst.
  cbn [flat_map]. rewrite occ_app, occ_ends, (IH ND'). unfold memz. cbn [existsb]. fold (memz a r) (memz b r).
  rewrite (Z.eqb_sym a k), (Z.eqb_sym b k).
  pose proof (proj2 (memz_false_iff _ _) Hn) as Hk.
  destruct (Z.eqb_spec k a) as [Ea|Na], (Z.eqb_spec k b) as [Eb|Nb]; subst; rewrite ?Hk; cbn [orb b2n]; lia.
Qed.
Lemma occ_flat_swap {A} x (g : Z -> A -> list nat) (items : list A) : forall ws,
  occ x (flat_map (fun k => flat_map (g k) items) ws) = occ x (flat_map (fun ie => flat_map (fun k => g k ie) ws) items).
Proof.
  assert (Hadd : forall (h1 h2 : A -> list nat) l, occ x (flat_map (fun ie => h1 ie ++ h2 ie) l) = (occ x (flat_map h1 l) + occ x (flat_map h2 l))%nat).
  { induction l as [|ie l IHl]; [reflexivity|]. cbn [flat_map]. rewrite !occ_app, IHl. lia. }
  induction ws as [|k r IH].
  - cbn. induction items as [|ie l IHl]; [reflexivity|]. cbn. exact IHl.
  - cbn [flat_map]. rewrite occ_app, IH. rewrite (Hadd (g k) (fun ie => flat_map (fun k0 => g k0 ie) r)). reflexivity.
Qed.
Lemma even_flat {A} x (F : A -> list nat) items : (forall ie, In ie items -> Nat.even (occ x (F ie)) = true) ->
  Nat.even (occ x (flat_map F items)) = true.
Proof.
  induction items as [|ie l IH]; intros H; [reflexivity|]. cbn [flat_map]. rewrite occ_app, Nat.even_add.
  rewrite (H ie (or_introl eq_refl)), IH by (intros y Hy; apply H; now right). reflexivity.
Qed.

(** both ends of every ring edge are written, no ring edge is a self loop (part of [ring_contract]):
    every ring index is met an even number of times -- exactly twice if it is a ring at all *)
Lemma ring_seq_even tr ws x : NoDup ws -> (forall e, In e tr -> In (fst e) ws /\ In (snd e) ws) ->
  Nat.even (occ x (flat_map (rlist_of tr) ws)) = true.
Proof.
  intros ND Hends.
  assert (E : flat_map (rlist_of tr) ws = flat_map (fun k => flat_map (ends_at k) (combine (seq 1 (length tr)) tr)) ws).
  { apply flat_map_ext. intros k. apply rlist_of_eq. }
  rewrite E, (occ_flat_swap x (fun k ie => ends_at k ie)). apply even_flat. intros [i [a b]] Hin.
  apply in_combine_r in Hin. destruct (Hends (a, b) Hin) as [Ha Hb]. cbn [fst snd] in *.
  rewrite (occ_item x i a b ws ND). rewrite (proj2 (memz_true a ws) Ha), (proj2 (memz_true b ws) Hb). cbn [b2n].
  destruct (Nat.eqb i x); reflexivity.
Qed.
Lemma ring_seq_twice tr ws ri a b : NoDup ws -> (forall e, In e tr -> In (fst e) ws /\ In (snd e) ws) ->
  In (ri, (a, b)) (combine (seq 1 (length tr)) tr) ->
  occ ri (flat_map (rlist_of tr) ws) = 2%nat.
Proof.
  intros ND Hends Hin.
  assert (E : flat_map (rlist_of tr) ws = flat_map (fun k => flat_map (ends_at k) (combine (seq 1 (length tr)) tr)) ws).
  { apply flat_map_ext. intros k. apply rlist_of_eq. }
  rewrite E, (occ_flat_swap ri (fun k ie => ends_at k ie)).
  (* split the sum at the ring's own item; all other items have another index *)
  assert (G : forall its : list (nat * (Z * Z)), NoDup (map fst its) ->
              (forall ie, In ie its -> In (fst (snd ie)) ws /\ In (snd (snd ie)) ws) ->
              occ ri (flat_map (fun ie => flat_map (fun k => ends_at k ie) ws) its)
              = if existsb (fun ie => Nat.eqb (fst ie) ri) its then 2%nat else 0%nat).
  { induction its as [|[i [a' b']] l IH]; intros NDl Hl; [reflexivity|]. cbn [flat_map existsb fst]. rewrite occ_app.
    cbn [map fst] in NDl. inversion NDl as [|? ? Hn NDl']; subst.
    destruct (Hl (i, (a', b')) (or_introl eq_refl)) as [Ha Hb]. cbn [fst snd] in Ha, Hb.
    rewrite (occ_item ri i a' b' ws ND), (proj2 (memz_true a' ws) Ha), (proj2 (memz_true b' ws) Hb). cbn [b2n].
    rewrite (IH NDl') by (intros ie Hie; apply Hl; now right).
    destruct (Nat.eqb_spec i ri) as [->|N]; cbn [b2n orb Nat.mul Nat.add].
    - assert (Ex : existsb (fun ie => Nat.eqb (fst ie) ri) l = false).
      { destruct (existsb (fun ie => Nat.eqb (fst ie) ri) l) eqn:Ee; [|reflexivity]. exfalso. apply Hn.
        apply existsb_exists in Ee as [ie [Hie Ei]]. apply Nat.eqb_eq in Ei. rewrite <- Ei. now apply in_map. }
      rewrite Ex. reflexivity.
    - reflexivity. }
  rewrite G.
  - assert (Ex : existsb (fun ie => Nat.eqb (fst ie) ri) (combine (seq 1 (length tr)) tr) = true).
    { apply existsb_exists. exists (ri, (a, b)). split; [assumption|apply Nat.eqb_refl]. }
    now rewrite Ex.
  - assert (Em : forall (l1 : list nat) (l2 : list (Z * Z)), length l1 = length l2 -> map fst (combine l1 l2) = l1).
    { induction l1 as [|x l1 IHl]; intros [|y l2] Hl; try discriminate; [reflexivity|]. cbn. f_equal. apply IHl. now inversion Hl. }
    rewrite Em by now rewrite seq_length. apply seq_NoDup.
  - intros [i e] Hie. apply in_combine_r in Hie. destruct (Hends e Hie) as [H1 H2]. now split.
Qed.

(** no marker is left open: the ring table is empty after the traversal *)
Theorem no_open_ring sf ntext stext rsymt tr T p isb d :
  NoDup (worder T) -> (forall e, In e tr -> In (fst e) (worder T) /\ In (snd e) (worder T)) ->
  snd (fst (wtextR sf ntext stext (rlist_of tr) rsymt p isb d [] T)) = [].
Proof.
  intros ND Hends. rewrite wtextR_marks.
  destruct (pmarks rsymt [] (ring_seq (rlist_of tr) T)) as [|[ri m] rest] eqn:E; [reflexivity|]. exfalso.
  assert (Hin : In ri (map fst (pmarks rsymt [] (ring_seq (rlist_of tr) T)))) by (rewrite E; now left).
  apply marks_parity in Hin. cbn [map In] in Hin.
  unfold ring_seq in Hin. rewrite (ring_seq_even tr (worder T) ri ND Hends) in Hin. tauto.
Qed.

(** the order of writing is a rearrangement of the DFS preorder *)
From Coq Require Import Permutation.
Lemma worder_perm : forall t, Permutation (worder t) (rkeys t).
Proof.
  apply rtree_ind2. intros k cs IH. destruct cs as [|c1 bs]; [reflexivity|].
  change (worder (RNode k (c1 :: bs))) with (k :: worder_branches bs ++ worder c1).
  cbn [rkeys flat_map]. apply perm_skip.
  assert (B : forall l, Forall (fun t => Permutation (worder t) (rkeys t)) l -> Permutation (worder_branches l) (flat_map rkeys l)).
  { induction l as [|c r IHr]; intros Hl; [reflexivity|].
    change (worder_branches (c :: r)) with (worder_branches r ++ worder c). cbn [flat_map].
    etransitivity; [apply Permutation_app_comm|]. apply Permutation_app; [exact (Forall_inv Hl)|apply IHr; exact (Forall_inv_tail Hl)]. }
  etransitivity; [apply Permutation_app_comm|].
  apply Permutation_app; [exact (Forall_inv IH)|apply B; exact (Forall_inv_tail IH)].
Qed.
Corollary worder_nodup t : NoDup (rkeys t) -> NoDup (worder t).
Proof. intros H. eapply Permutation_NoDup; [symmetry; apply worder_perm|exact H]. Qed.
Corollary worder_in t x : In x (worder t) <-> In x (rkeys t).
Proof. split; apply Permutation_in; [apply worder_perm|symmetry; apply worder_perm]. Qed.
