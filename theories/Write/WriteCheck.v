(** WriteCheck: executable oracle and correspondence for C07 (imports ONLY model + defs).
    [corr_ok]: WriteImpl produces the implementation's string (and the transcript honours its contract).
    [prop_fail]: 0 iff the implementation's read-back graph is isomorphic to the input (names, orders);
    otherwise clause + 10 * class, where class is the defect class of the INPUT decided by the Coq
    predicates of WriteDefs (0 = outside every listed class). *)
From Coq Require Import String.
From Coq Require Import List Ascii ZArith Bool.
From CGV Require Import Base.PyBase Base.PyVal Base.PyGen Base.NxGraph Gen.WriterGen Write.WriteImpl Write.WriteDefs.
Import ListNotations.
Open Scope Z_scope.

Record case := {
  c_g : graph;                         (* the input graph, networkx insertion orders included *)
  c_tr : list (Z * Z);                 (* transcript of list(total_edges - edges) *)
  c_out : option pystr;                (* write_cgsmiles_graph(G); None = it raised *)
  c_read : option named_graph;         (* read_cgsmiles(that string): names, orders; None = it raised *)
  c_wit : option (list (Z * Z))        (* isomorphism found by the harness (input node -> read node) *)
}.

Definition corr_ok (c : case) : bool :=
  ring_contract (c_g c) (dfs_tree (c_g c)) (c_tr c)
  && match write_cgsmiles_graph (c_g c) (c_tr c), c_out c with
     | Ok s, Some s' => str_eqb s s'
     | Err _, None => true
     | _, _ => false
     end.

Definition clause_C07 (c : case) : nat :=
  match c_out c with
  | None => 1%nat
  | Some _ =>
      match c_read c, observe_named (c_g c) with
      | None, _ => 2%nat
      | Some h, Some a =>
          if match c_wit c with Some m => iso_by a h m | None => false end then 0%nat
          else match write_graph_full false (fun _ => true) (c_g c) (c_tr c) with
               | Ok r => if iso_by a h (canonical_map (r_visit r)) then 0%nat else 3%nat
               | Err _ => 3%nat
               end
      | Some _, None => 0%nat
      end
  end.

Definition prop_fail (c : case) : nat :=
  if negb (wf_C07 (c_g c)) then 0%nat   (* outside the property's domain: never judged *)
  else match clause_C07 c with
       | 0%nat => 0%nat
       | k => (k + 10 * class_C07 (c_g c) (c_tr c))%nat
       end.

(** model-only form used by the bounded theorems: the text the model writes *)
Definition model_text (g : graph) (tr : list (Z * Z)) : option pystr :=
  match write_cgsmiles_graph g tr with Ok s => Some s | Err _ => None end.
