(** FlatMachine: the reader's token machine on the writer's item list (TreeRead/RingRead), seen FLAT: one record
    per written node (old key, new key, parent, pending order, ring items) in the order of writing; the machine's
    graph and ring table evolve by a plain fold over these records ([run_flat]).  The tree recursion is only
    used to compute the records; all reasoning about ring tables and edges is then done on lists. *)
From Coq Require Import String.
From Coq Require Import List Ascii ZArith Bool Lia.
From CGV Require Import Base.PyBase Base.PyVal Base.PyGen Base.NxGraph Dialect.DialectImpl.
From CGV Require Import Write.WriteImpl Write.TreeDefs Write.TreeWrite Write.TreeTables Write.RingDefs Write.RingWrite
     Write.RingTables Write.RingMarkers Write.TreeRead Write.RingRead.
From CGV Require Import Reader.ReaderImpl Reader.Grammar Reader.Lin Reader.ReaderSim.
Import ListNotations.
Open Scope Z_scope.

(** old key, new key, parent (old, new), order of the edge from the parent, ring items *)
Definition frec := (Z * Z * option (Z * Z) * Z * list (option sym * marker))%type.
Definition f_old (r : frec) : Z := fst (fst (fst (fst r))).
Definition f_new (r : frec) : Z := snd (fst (fst (fst r))).
Definition f_par (r : frec) : option (Z * Z) := snd (fst (fst r)).
Definition f_pend (r : frec) : Z := snd (fst r).
Definition f_rings (r : frec) : list (option sym * marker) := snd r.

(** the machine on the ring tokens of the node with new key [cur] *)
Fixpoint ring_fold (cur : Z) (g : graph) (rt : ringtab) (items : list (option sym * marker)) : res (graph * ringtab) :=
  match items with
  | [] => Ok (g, rt)
  | (o, m) :: r =>
      match rt_get (marker_val m) rt with
      | Some (n0, o0) =>
          if has_edge g cur n0 then Err (ESyntax (S "double"))
          else ring_fold cur (add_edge g cur n0 (eorder o0)) (rt_del (marker_val m) rt) r
      | None => ring_fold cur g (rt ++ [(marker_val m, (cur, oord o))]) r
      end
  end.

Section Flat.
  Variable fo : float_oracle.
  Variable name : Z -> pystr.
  Variable esym : Z -> Z -> option sym.
  Variable rlist : Z -> list nat.
  Variable rsym_o : nat -> option sym.
  Variable A : Z -> attrs.
  Hypothesis Hparse : forall k, parse_graph_base_node fo (name k) = Ok (A k).
  Notation tlinsR := (tlinsR name esym rlist rsym_o).
  Notation blinsR := (blinsR name esym rlist rsym_o).
  Notation ring_items := (ring_items rsym_o false).

  Fixpoint run_flat (g : graph) (rt : ringtab) (l : list frec) : res (graph * ringtab) :=
    match l with
    | [] => Ok (g, rt)
    | r :: rest =>
        let g1 := add_node g (f_new r) (A (f_old r)) in
        let g2 := match f_par r with Some p => add_edge g1 (snd p) (f_new r) (eorder (f_pend r)) | None => g1 end in
        gr <- ring_fold (f_new r) g2 rt (f_rings r) ;;
        run_flat (fst gr) (snd gr) rest
    end.
  Lemma run_flat_app : forall a b g rt, run_flat g rt (a ++ b) = (gr <- run_flat g rt a ;; run_flat (fst gr) (snd gr) b).
  Proof.
    induction a as [|r a IH]; intros b g rt; [reflexivity|]. cbn [app run_flat].
    destruct (ring_fold _ _ rt (f_rings r)) as [[g' rt']|e]; cbn [bind]; [apply IH|reflexivity].
  Qed.

  (** records of the subtree [t], written from new key [next] on, hanging on [par] *)
  Fixpoint tflat (mk : marks) (next : Z) (par : option (Z * Z)) (pend : Z) (t : rtree) : list frec * marks :=
    match t with
    | RNode k cs =>
        let '(mk1, rs) := ring_items mk (rlist k) in
        match cs with
        | [] => ([(k, next, par, pend, rs)], mk1)
        | c1 :: bs =>
            let '(lb, mkb) :=
              (fix br (l : list rtree) : list frec * marks :=
                 match l with
                 | [] => ([], mk1)
                 | c :: r => let '(l2, mk2) := br r in
                             let '(l1, mk3) := tflat mk2 (next + 1 + Z.of_nat (length (flat_map rkeys r))) (Some (k, next))
                                                     (oord (esym k (rkey c))) c in (l2 ++ l1, mk3)
                 end) bs in
            let '(lc, mkc) := tflat mkb (next + 1 + Z.of_nat (length (flat_map rkeys bs))) (Some (k, next))
                                    (oord (esym k (rkey c1))) c1 in
            ((k, next, par, pend, rs) :: lb ++ lc, mkc)
        end
    end.
  Definition bflat (k next : Z) (mk1 : marks) (l : list rtree) : list frec * marks :=
    (fix br (l : list rtree) : list frec * marks :=
       match l with
       | [] => ([], mk1)
       | c :: r => let '(l2, mk2) := br r in
                   let '(l1, mk3) := tflat mk2 (next + 1 + Z.of_nat (length (flat_map rkeys r))) (Some (k, next))
                                           (oord (esym k (rkey c))) c in (l2 ++ l1, mk3)
       end) l.
  Lemma tflat_unfold mk next par pend k c1 bs :
    tflat mk next par pend (RNode k (c1 :: bs))
    = (let '(mk1, rs) := ring_items mk (rlist k) in
       let '(lb, mkb) := bflat k next mk1 bs in
       let '(lc, mkc) := tflat mkb (next + 1 + Z.of_nat (length (flat_map rkeys bs))) (Some (k, next)) (oord (esym k (rkey c1))) c1 in
       ((k, next, par, pend, rs) :: lb ++ lc, mkc)).
  Proof. reflexivity. Qed.
  Lemma bflat_cons k next mk1 c r :
    bflat k next mk1 (c :: r)
    = (let '(l2, mk2) := bflat k next mk1 r in
       let '(l1, mk3) := tflat mk2 (next + 1 + Z.of_nat (length (flat_map rkeys r))) (Some (k, next)) (oord (esym k (rkey c))) c in
       (l2 ++ l1, mk3)).
  Proof. reflexivity. Qed.

  (** the machine on the ring tokens *)
  Lemma m_run_ring_fold cur : forall items ts g next pend stk rt,
    m_run fo (map ring_tok items ++ ts) (mkm g next (Some cur) pend stk rt)
    = (gr <- ring_fold cur g rt items ;; m_run fo ts (mkm (fst gr) next (Some cur) pend stk (snd gr))).
  Proof.
    induction items as [|[o m] r IH]; intros ts g next pend stk rt; [reflexivity|].
    cbn [map app m_run ring_tok fst snd m_step mkm m_prev m_rings m_g ring_fold].
    destruct (rt_get (marker_val m) rt) as [[n0 o0]|].
    - destruct (has_edge g cur n0); [reflexivity|]. cbn [bind m_next m_pend m_stack]. apply IH.
    - cbn [bind m_next m_pend m_stack m_g m_prev]. apply IH.
  Qed.

  Lemma osym_run_mk o g next prev stk rt :
    m_run fo (osym_tok o) (mkm g next prev 1 stk rt) = Ok (mkm g next prev (oord o) stk rt).
  Proof. destruct o as [s|]; reflexivity. Qed.
  Definition prevk (par : option (Z * Z)) : option Z := option_map snd par.
  Definition g_node (g : graph) (next : Z) (par : option (Z * Z)) (pend : Z) (k : Z) : graph :=
    let g1 := add_node g next (A k) in
    match par with Some p => add_edge g1 (snd p) next (eorder pend) | None => g1 end.

  (** "(" ? node, its ring tokens: the machine adds the node and its tree edge, then folds the ring items *)
  Lemma node_head (isb : bool) k rs ts g next par pend stk rt :
    m_run fo ((if isb then [TOpen] else []) ++ TNode (name k) 1 :: map ring_tok rs ++ ts) (mkm g next (prevk par) pend stk rt)
    = (gr <- ring_fold next (g_node g next par pend k) rt rs ;;
       m_run fo ts (mkm (fst gr) (next + 1) (Some next) 1 (if isb then prevk par :: stk else stk) (snd gr))).
  Proof.
    unfold g_node, prevk.
    destruct isb; cbn [app m_run m_step mkm m_g m_next m_prev m_pend m_stack m_rings bind];
      rewrite Hparse; cbn [bind m_copies]; destruct par as [[po pn]|]; cbn [option_map snd];
      apply (m_run_ring_fold next rs ts).
  Qed.
  Lemma lin_toksR (isb : bool) k rs b c :
    lin_toks (mklinR name isb k rs b c)
    = (if isb then [TOpen] else []) ++ TNode (name k) 1 :: map ring_tok rs ++ (osym_tok b ++ match c with Some a => TClose :: osym_tok a | None => [] end).
  Proof. reflexivity. Qed.

  Lemma tflat_marks : forall t isb d ns mk next par pend, snd (tflat mk next par pend t) = snd (tlinsR isb d ns mk t).
  Proof.
    apply (rtree_ind2 (fun t => forall isb d ns mk next par pend, snd (tflat mk next par pend t) = snd (tlinsR isb d ns mk t))).
    intros k cs IH isb d ns mk next par pend. destruct cs as [|c1 bs].
    - cbn [tflat RingRead.tlinsR]. destruct (ring_items mk (rlist k)). reflexivity.
    - rewrite tlinsR_unfold, tflat_unfold. cbv zeta. set (d1 := if isb then Datatypes.S d else d).
      destruct (ring_items mk (rlist k)) as [mk1 rs].
      assert (B : forall l prevc, Forall (fun t => forall isb d ns mk next par pend, snd (tflat mk next par pend t) = snd (tlinsR isb d ns mk t)) l ->
                  snd (bflat k next mk1 l) = snd (blinsR k d1 mk1 prevc l)).
      { induction l as [|c r IHr]; intros prevc Hl; [reflexivity|]. rewrite blinsR_cons, bflat_cons.
        specialize (IHr c (Forall_inv_tail Hl)).
        destruct (bflat k next mk1 r) as [f2 mk2]. destruct (blinsR k d1 mk1 c r) as [l2 mk2']. cbn [snd] in IHr. subst mk2'.
        pose proof (Forall_inv Hl true d1 (esym k (rkey prevc)) mk2 (next + 1 + Z.of_nat (length (flat_map rkeys r))) (Some (k, next)) (oord (esym k (rkey c)))) as Hc.
        destruct (tflat mk2 (next + 1 + Z.of_nat (length (flat_map rkeys r))) (Some (k, next)) (oord (esym k (rkey c))) c) as [f1 mk3].
        destruct (tlinsR true d1 (esym k (rkey prevc)) mk2 c) as [l1 mk3']. exact Hc. }
      specialize (B bs c1 (Forall_inv_tail IH)).
      destruct (bflat k next mk1 bs) as [lb mkb]. destruct (blinsR k d1 mk1 c1 bs) as [lb' mkb']. cbn [snd] in B. subst mkb'.
      pose proof (Forall_inv IH false d1 ns mkb (next + 1 + Z.of_nat (length (flat_map rkeys bs))) (Some (k, next)) (oord (esym k (rkey c1)))) as Hc.
      destruct (tflat mkb (next + 1 + Z.of_nat (length (flat_map rkeys bs))) (Some (k, next)) (oord (esym k (rkey c1))) c1) as [lc mkc].
      destruct (tlinsR false d1 ns mkb c1) as [lc' mkc']. exact Hc.
  Qed.
  Lemma bflat_marks k next d1 mk1 : forall l prevc, snd (bflat k next mk1 l) = snd (blinsR k d1 mk1 prevc l).
  Proof.
    induction l as [|c r IHr]; intros prevc; [reflexivity|]. rewrite blinsR_cons, bflat_cons.
    specialize (IHr c).
    destruct (bflat k next mk1 r) as [f2 mk2]. destruct (blinsR k d1 mk1 c r) as [l2 mk2']. cbn [snd] in IHr. subst mk2'.
    pose proof (tflat_marks c true d1 (esym k (rkey prevc)) mk2 (next + 1 + Z.of_nat (length (flat_map rkeys r))) (Some (k, next)) (oord (esym k (rkey c)))) as Hc.
    destruct (tflat mk2 (next + 1 + Z.of_nat (length (flat_map rkeys r))) (Some (k, next)) (oord (esym k (rkey c))) c) as [f1 mk3].
    destruct (tlinsR true d1 (esym k (rkey prevc)) mk2 c) as [l1 mk3']. exact Hc.
  Qed.

  Definition Mf (t : rtree) : Prop :=
    forall isb d ns mk g next par pend stk rt, length stk = d ->
      m_run fo (lins_toks (fst (tlinsR isb d ns mk t))) (mkm g next (prevk par) pend stk rt)
      = (gr <- run_flat g rt (fst (tflat mk next par pend t)) ;;
         Ok (mkm (fst gr) (next + Z.of_nat (rsize t))
                 (if isb then prevk par else match stk with a :: _ => a | [] => Some (next + Z.of_nat (rsize t) - 1) end)
                 (oord ns) (if isb then stk else tl stk) (snd gr))).

  Theorem machine_flat : forall t, Mf t.
  Proof.
    apply rtree_ind2. intros k cs IH. unfold Mf. intros isb d ns mk g next par pend stk rt Hlen.
    destruct cs as [|c1 bs].
    - (* leaf *)
      cbn [RingRead.tlinsR tflat]. destruct (ring_items mk (rlist k)) as [mk1 rs]. cbn [fst].
      unfold lins_toks. cbn [flat_map]. rewrite app_nil_r, lin_toksR, node_head.
      cbn [run_flat f_new f_old f_par f_pend f_rings fst snd]. fold (g_node g next par pend k).
      destruct (ring_fold next (g_node g next par pend k) rt rs) as [[g' rt']|e]; cbn [bind fst snd]; [|reflexivity].
      cbn [rsize rkeys flat_map length Z.of_nat Pos.of_succ_nat].
      destruct isb.
      + cbn [Nat.ltb Nat.leb osym_tok app m_run m_step mkm m_stack bind m_g m_next m_prev m_pend m_rings].
        destruct ns as [s|]; cbn [osym_tok m_run m_step bind m_g m_next m_prev m_pend m_stack m_rings]; unfold mkm; repeat f_equal; lia.
      + destruct d as [|d']; cbn [Nat.ltb Nat.leb].
        * destruct stk; [|discriminate].
          destruct ns as [s|]; cbn [osym_tok app m_run m_step bind mkm m_g m_next m_prev m_pend m_stack m_rings tl]; unfold mkm; repeat f_equal; lia.
        * destruct stk as [|a stk']; [discriminate|].
          cbn [osym_tok app m_run m_step mkm m_stack bind m_g m_next m_prev m_pend m_rings].
          destruct ns as [s|]; cbn [osym_tok m_run m_step bind m_g m_next m_prev m_pend m_stack m_rings tl]; unfold mkm; repeat f_equal; lia.
    - pose proof (Forall_inv IH) as Hc1. pose proof (Forall_inv_tail IH) as Hbs.
      rewrite tlinsR_unfold, tflat_unfold. cbv zeta. set (d1 := if isb then Datatypes.S d else d).
      destruct (ring_items mk (rlist k)) as [mk1 rs].
      set (stk1 := if isb then prevk par :: stk else stk).
      assert (Hlen1 : length stk1 = d1) by (unfold stk1, d1; destruct isb; cbn [length]; lia).
      (* the branches, generalised *)
      assert (B : forall l prevc g0 rt0, Forall Mf l ->
                  m_run fo (lins_toks (fst (blinsR k d1 mk1 prevc l)))
                        (mkm g0 (next + 1) (Some next) (oord (esym k (rkey (last l prevc)))) stk1 rt0)
                  = (gr <- run_flat g0 rt0 (fst (bflat k next mk1 l)) ;;
                     Ok (mkm (fst gr) (next + 1 + Z.of_nat (length (flat_map rkeys l))) (Some next)
                             (oord (esym k (rkey prevc))) stk1 (snd gr)))).
      { induction l as [|c r IHr]; intros prevc g0 rt0 Hl.
        - unfold blinsR, bflat, lins_toks. cbn [fst snd flat_map m_run run_flat bind length Z.of_nat last]. now rewrite Z.add_0_r.
        - rewrite blinsR_cons, bflat_cons, last_cons.
          pose proof (IHr c g0 rt0 (Forall_inv_tail Hl)) as R1.
          pose proof (bflat_marks k next d1 mk1 r c) as R2.
          destruct (blinsR k d1 mk1 c r) as [l2 mk2]. destruct (bflat k next mk1 r) as [f2 mk2']. cbn [fst snd] in R1, R2. subst mk2'.
          pose proof (Forall_inv Hl true d1 (esym k (rkey prevc)) mk2) as Hc.
          destruct (tlinsR true d1 (esym k (rkey prevc)) mk2 c) as [l1 mk3] eqn:E1.
          destruct (tflat mk2 (next + 1 + Z.of_nat (length (flat_map rkeys r))) (Some (k, next)) (oord (esym k (rkey c))) c) as [f1 mk3'] eqn:E2.
          cbn [fst snd] in *.
          rewrite lins_toks_app, m_run_app, R1, run_flat_app.
          destruct (run_flat g0 rt0 f2) as [[ga rta]|e]; cbn [bind fst snd]; [|reflexivity].
          specialize (Hc ga (next + 1 + Z.of_nat (length (flat_map rkeys r))) (Some (k, next)) (oord (esym k (rkey c))) stk1 rta Hlen1).
          rewrite E2 in Hc. cbn [fst prevk option_map snd] in Hc. rewrite Hc.
          destruct (run_flat ga rta f1) as [[gb rtb]|e]; cbn [bind fst snd]; [|reflexivity].
          f_equal. unfold mkm. f_equal. cbn [flat_map]. rewrite app_length. unfold rsize. lia. }
      pose proof (bflat_marks k next d1 mk1 bs c1) as Mb.
      specialize (B bs c1).
      destruct (blinsR k d1 mk1 c1 bs) as [lb mkb]. destruct (bflat k next mk1 bs) as [fb mkb']. cbn [fst snd] in B, Mb. subst mkb'.
      pose proof (Hc1 false d1 ns mkb) as Hc.
      destruct (tlinsR false d1 ns mkb c1) as [lc mkc] eqn:E1.
      destruct (tflat mkb (next + 1 + Z.of_nat (length (flat_map rkeys bs))) (Some (k, next)) (oord (esym k (rkey c1))) c1) as [fc mkc'] eqn:E2.
      cbn [fst snd].
      change (lins_toks (mklinR name isb k rs (esym k (rkey (last bs c1))) None :: lb ++ lc))
        with (lin_toks (mklinR name isb k rs (esym k (rkey (last bs c1))) None) ++ lins_toks (lb ++ lc)).
      assert (Etk : lin_toks (mklinR name isb k rs (esym k (rkey (last bs c1))) None) ++ lins_toks (lb ++ lc)
                    = (if isb then [TOpen] else []) ++ TNode (name k) 1 :: map ring_tok rs
                      ++ (osym_tok (esym k (rkey (last bs c1))) ++ lins_toks (lb ++ lc))).
      { rewrite lin_toksR. rewrite app_nil_r. destruct isb; cbn [app]; rewrite <- ?app_assoc; reflexivity. }
      rewrite Etk, node_head.
      cbn [run_flat f_new f_old f_par f_pend f_rings fst snd]. fold (g_node g next par pend k).
      destruct (ring_fold next (g_node g next par pend k) rt rs) as [[g' rt']|e]; cbn [bind fst snd]; [|reflexivity].
      fold stk1. rewrite m_run_app, osym_run_mk. cbn [bind]. rewrite lins_toks_app, m_run_app.
      rewrite (B g' rt' Hbs), run_flat_app.
      destruct (run_flat g' rt' fb) as [[ga rta]|e]; cbn [bind fst snd]; [|reflexivity].
      specialize (Hc ga (next + 1 + Z.of_nat (length (flat_map rkeys bs))) (Some (k, next)) (oord (esym k (rkey c1))) stk1 rta Hlen1).
      rewrite ?E1, ?E2 in Hc. cbn [fst prevk option_map snd] in Hc. rewrite Hc.
      destruct (run_flat ga rta fc) as [[gb rtb]|e]; cbn [bind fst snd]; [|reflexivity].
      assert (Hs : rsize (RNode k (c1 :: bs)) = Datatypes.S (rsize c1 + length (flat_map rkeys bs))).
      { unfold rsize. cbn [rkeys flat_map length]. rewrite app_length. reflexivity. }
      f_equal. unfold mkm. f_equal.
      + rewrite Hs. lia.
      + unfold stk1. destruct isb; [reflexivity|]. destruct stk; [|reflexivity]. rewrite Hs. f_equal. lia.
      + unfold stk1. destruct isb; reflexivity.
  Qed.
End Flat.
