(** FragDefs: definitions used by the statements of C08 and by its executable oracle:
    descriptor well-formedness, defect-class predicates on the INPUT (descriptor lists, fragment
    graphs), labelled-graph isomorphism by witness.  NO proofs. *)
From Coq Require Import String.
From Coq Require Import List Ascii ZArith Bool.
From CGV Require Import Base.PyBase Base.PyVal Base.PyGen Base.NxGraph Gen.WriterGen Write.WriteImpl Write.WriteDefs.
Import ListNotations.
Open Scope Z_scope.

(** ------------------------------------------------------------------ descriptors *)
(** a stored descriptor is kind ++ label ++ order digit: "$a1", ">2", "!B10" *)
Definition kind_char (c : ascii) : bool := char_in c (S "$><!").
Definition descr_order (d : pystr) : option nat :=
  match rev d with c :: _ => if is_digit c then Some (digit_val c) else None | [] => None end.
Definition wf_descr (d : pystr) : bool :=
  match d with
  | k :: r => kind_char k
              && match rev r with
                 | o :: lab => is_digit o && (digit_val o <=? 4)%nat && forallb is_alnum lab
                 | [] => false
                 end
  | [] => false
  end.
Definition descr_single (d : pystr) : bool := match descr_order d with Some 1%nat => true | _ => false end.
Definition descr_zero (d : pystr) : bool := match descr_order d with Some 0%nat => true | _ => false end.
(** (repaired by fix 1a5deb0; excuses nothing any more) former class 1: a descriptor that is NOT the first of its atom has an order other than 1:
    format_bonding ASSIGNS the symbol (`bond_str = order_symb`), dropping everything written before *)
Definition cls_order_not_first (L : list pystr) : bool := existsb (fun d => negb (descr_single d)) (tl L).
(** (repaired by the reader fix 0d0f450; excuses nothing any more) former class 2: a descriptor of order 0: written `.[$]`, which strip_bonding_descriptors reads as order 1
    (`elif current_order:` is false for 0) *)
Definition cls_order_zero (L : list pystr) : bool := existsb descr_zero L.

Definition node_bonding (a : attrs) : list pystr :=
  match aget (S "bonding") a with
  | Some (VList l) => flat_map (fun v => match v with VStr s => [s] | _ => [] end) l
  | _ => []
  end.

(** ------------------------------------------------------------------ fragment graphs *)
(** (repaired by fix 6d8cc68; excuses nothing any more) former class 3 (coarse fragments only): a node whose own
    name (`atomname`, set by read_fragment_cgsmiles) differs from the fragment's name (`fragname`):
    write_graph(smiles_format=False) wrote `fragname` *)
Definition cls_coarse_renamed (g : graph) : bool :=
  existsb (fun n => match aget (S "atomname") (na n), aget (S "fragname") (na n) with
                    | Some x, Some y => negb (pyval_eqb x y)
                    | _, _ => false end) g.
(** classes of one fragment entry; 0 = none.  Every class of a single entry was repaired (1: 1a5deb0, 2: 0d0f450,
    3: 6d8cc68, 4: be4ff6e, 5: dd9a0c2, 6: b681517) *)
Definition class_entry (smiles_format : bool) (g : graph) (tr : list (Z * Z)) : nat := 0%nat.
Fixpoint first_nonzero (l : list nat) : nat :=
  match l with [] => 0%nat | 0%nat :: r => first_nonzero r | k :: _ => k end.
Definition class_entries (smiles_format : bool) (l : list frag_entry) : nat :=
  first_nonzero (map (fun e => let '(_, g, tr, _) := e in class_entry smiles_format g tr) l).
Fixpoint class_layers (last_all_atom : bool) (layers : list (list frag_entry)) : nat :=
  match layers with
  | [] => 0%nat
  | l :: r => match class_entries (match r with [] => last_all_atom | _ => false end) l with
              | 0%nat => class_layers last_all_atom r
              | k => k
              end
  end.


(** class 10 (complete strings): some base-graph edge can be realised by more compatible descriptor
    pairs than its order asks for (BigSmiles convention, the default of from_string).  The resolver then
    takes the FIRST compatible pair in node order, and the writer renumbers nodes and atoms (DFS from the
    smallest key, branches first), so a different pair may be chosen after rewriting. *)
Definition compat_legacy (l r : pystr) : bool :=
  match l, r with
  | lk :: lt, rk :: rt =>
      str_eqb lt rt
      && ((Ascii.eqb lk rk && negb (Ascii.eqb lk ">"%char || Ascii.eqb lk "<"%char))
          || (Ascii.eqb lk "<"%char && Ascii.eqb rk ">"%char) || (Ascii.eqb lk ">"%char && Ascii.eqb rk "<"%char))
  | _, _ => false
  end.
Definition entry_descriptors (name : pystr) (l : list frag_entry) : list pystr :=
  match find (fun e => let '(nm, _, _, _) := e in str_eqb nm name) l with
  | Some (_, g, _, _) => flat_map (fun n => node_bonding (na n)) g
  | None => []
  end.
Definition cls_ambiguous (base : graph) (layers : list (list frag_entry)) : bool :=
  match layers with
  | [] => false
  | l :: _ =>
      existsb (fun e => let '(u, v, d) := e in
                 match node_name base u, node_name base v with
                 | Some nu, Some nv =>
                     let du := entry_descriptors nu l in let dv := entry_descriptors nv l in
                     let pairs := length (filter (fun p => compat_legacy (fst p) (snd p)) (list_prod du dv)) in
                     (* bonds that can be made: at most the edge order, and every descriptor is used once *)
                     let nu := length (filter (fun x => existsb (compat_legacy x) dv) du) in
                     let nv := length (filter (fun y => existsb (fun x => compat_legacy x y) du) dv) in
                     (* an edge of order 0 (the '.' bond: virtual sites, ionic contacts) makes no bond and uses no descriptor *)
                     (0 <? match int_order d with Some o => o | None => 1 end)
                     && (Nat.min (Z.to_nat (match int_order d with Some o => o | None => 1 end)) (Nat.min nu nv) <? pairs)%nat
                 | _, _ => false
                 end) (edges_data base)
      (* or one descriptor of a node is wanted by two of its neighbours (the base-graph edge order,
         which the writer changes, decides who gets it) *)
      || existsb (fun n =>
                    match node_name base (nk n) with
                    | Some nu =>
                        existsb (fun d =>
                                   (2 <=? length (filter (fun v => match node_name base v with
                                                                   | Some nv => existsb (compat_legacy d) (entry_descriptors nv l)
                                                                   | None => false end)
                                                         (map fst (filter (fun wa => negb (match int_order (snd wa) with Some 0%Z => true | _ => false end)) (nadj n)))))%nat)
                                (entry_descriptors nu l)
                    | None => false
                    end) base
  end.

(** the same one level down (three-level strings  base.{coarse fragments}.{fragments}): the graph the second layer is
    resolved on is the molecule of the first layer -- one node (base key, fragment node key) per node of every base
    node's coarse fragment, named by `atomname`; its edges are the edges inside the coarse fragments and, for every
    base edge, an edge between two nodes of the two fragments that carry compatible descriptors.  WHICH of those
    pairs the resolver bonds is not modelled: every compatible pair is taken (an over-approximation of the class:
    it excuses at most more).  On that graph the two tests of [cls_ambiguous] are made against the second layer. *)
Definition atom_name (a : attrs) : option pystr := match aget (S "atomname") a with Some (VStr s) => Some s | _ => None end.
Definition entry_graph (name : pystr) (l : list frag_entry) : graph :=
  match find (fun e => let '(nm, _, _, _) := e in str_eqb nm name) l with Some (_, g, _, _) => g | None => [] end.
Definition zz_eqb (a b : Z * Z) : bool := Z.eqb (fst a) (fst b) && Z.eqb (snd a) (snd b).
Definition mid_nodes (base : graph) (l1 : list frag_entry) : list (Z * Z * pystr) :=
  flat_map (fun b => match node_name base (nk b) with
                     | Some X => flat_map (fun n => match atom_name (na n) with Some s => [((nk b, nk n), s)] | None => [] end)
                                          (entry_graph X l1)
                     | None => [] end) base.
Definition mid_edges (base : graph) (l1 : list frag_entry) : list ((Z * Z) * (Z * Z) * Z) :=
  flat_map (fun b => match node_name base (nk b) with
                     | Some X => map (fun e => let '(u, v, d) := e in
                                        ((nk b, u), (nk b, v), match int_order d with Some o => o | None => 1 end))
                                     (edges_data (entry_graph X l1))
                     | None => [] end) base
  ++ flat_map (fun e => let '(k1, k2, d0) := e in
                 match node_name base k1, node_name base k2 with
                 | Some X1, Some X2 =>
                     if match int_order d0 with Some 0%Z => true | _ => false end then [] else
                     flat_map (fun n1 =>
                       flat_map (fun n2 =>
                         if existsb (fun d1 => existsb (compat_legacy d1) (node_bonding (na n2))) (node_bonding (na n1))
                         then [((k1, nk n1), (k2, nk n2), 1)] else [])
                         (entry_graph X2 l1)) (entry_graph X1 l1)
                 | _, _ => [] end) (edges_data base).
Definition mid_name (nodes : list (Z * Z * pystr)) (k : Z * Z) : option pystr :=
  match find (fun x => zz_eqb (fst x) k) nodes with Some x => Some (snd x) | None => None end.
Definition cls_ambiguous2 (base : graph) (layers : list (list frag_entry)) : bool :=
  match layers with
  | l1 :: l2 :: _ =>
      let nodes := mid_nodes base l1 in
      let edges := mid_edges base l1 in
      existsb (fun e => let '(u, v, o) := e in
                 match mid_name nodes u, mid_name nodes v with
                 | Some nu, Some nv =>
                     let du := entry_descriptors nu l2 in let dv := entry_descriptors nv l2 in
                     let pairs := length (filter (fun p => compat_legacy (fst p) (snd p)) (list_prod du dv)) in
                     let cu := length (filter (fun x => existsb (compat_legacy x) dv) du) in
                     let cv := length (filter (fun y => existsb (fun x => compat_legacy x y) du) dv) in
                     (0 <? o) && (Nat.min (Z.to_nat o) (Nat.min cu cv) <? pairs)%nat
                 | _, _ => false
                 end) edges
      || existsb (fun x =>
                    let nbrs := flat_map (fun e => let '(u, v, o) := e in
                                            if Z.eqb o 0 then [] else
                                            (if zz_eqb u (fst x) then [v] else []) ++ (if zz_eqb v (fst x) then [u] else [])) edges in
                    existsb (fun d =>
                               (2 <=? length (filter (fun v => match mid_name nodes v with
                                                               | Some nv => existsb (compat_legacy d) (entry_descriptors nv l2)
                                                               | None => false end) nbrs))%nat)
                            (entry_descriptors (snd x) l2)) nodes
  | _ => false
  end.

(** ------------------------------------------------------------------ isomorphism by witness *)
Fixpoint count_str (d : pystr) (l : list pystr) : nat :=
  match l with [] => 0%nat | x :: r => ((if str_eqb d x then 1 else 0) + count_str d r)%nat end.
Definition multiset_eqb (a b : list pystr) : bool :=
  Nat.eqb (length a) (length b) && forallb (fun d => Nat.eqb (count_str d a) (count_str d b)) a.
Definition opt_val_eqb (x y : option pyval) : bool :=
  match x, y with Some u, Some v => pyval_eqb u v | None, None => true | _, _ => false end.
Definition get_default (k : pystr) (d : pyval) (a : attrs) : pyval := match aget k a with Some v => v | None => d end.
(** what C08 compares on a node: element (atomistic) or node name (coarse), charge, aromaticity,
    the descriptors on that atom (kind, label, order) as a multiset *)
Definition frag_label_eqb (smiles_format : bool) (a b : attrs) : bool :=
  opt_val_eqb (aget (if smiles_format then S "element" else S "atomname") a)
              (aget (if smiles_format then S "element" else S "atomname") b)
  && pyval_eqb (get_default (S "charge") (VInt 0) a) (get_default (S "charge") (VInt 0) b)
  && Bool.eqb (truthy (get_default (S "aromatic") (VBool false) a)) (truthy (get_default (S "aromatic") (VBool false) b))
  && multiset_eqb (node_bonding a) (node_bonding b).
(** resolved molecules: element, charge, aromaticity, hydrogen count *)
Definition mol_label_eqb (a b : attrs) : bool :=
  opt_val_eqb (aget (S "element") a) (aget (S "element") b)
  && pyval_eqb (get_default (S "charge") (VInt 0) a) (get_default (S "charge") (VInt 0) b)
  && Bool.eqb (truthy (get_default (S "aromatic") (VBool false) a)) (truthy (get_default (S "aromatic") (VBool false) b)).
Definition edge_attr_in (g : graph) (u v : Z) : option pyval :=
  match edge_attrs g u v with Ok d => Some (get_default (S "order") VNone d) | Err _ => None end.
(** [m] maps nodes of [a] to nodes of [b]: total, injective, label preserving, every edge of [a] is an
    edge of [b] with the same order; same numbers of nodes and edges *)
Definition giso_by (lab : attrs -> attrs -> bool) (a b : graph) (m : list (Z * Z)) : bool :=
  Nat.eqb (length a) (length b) && Nat.eqb (length (edges_data a)) (length (edges_data b))
  && graph_wf b
  && nodupz (flat_map (fun n => match zassoc (nk n) m with Some x => [x] | None => [] end) a)
  && forallb (fun n => match zassoc (nk n) m with
                       | Some x => match gfind x b with Some n' => lab (na n) (na n') | None => false end
                       | None => false end) a
  && forallb (fun e => let '(u, v, d) := e in
                       match zassoc u m, zassoc v m with
                       | Some x, Some y => opt_val_eqb (Some (get_default (S "order") VNone d)) (edge_attr_in b x y)
                       | _, _ => false end) (edges_data a).
