(** RingInv: the invariant of the flat run.  Under the contract on the ring transcript (ends are written nodes,
    no self loop, no two rings on the same pair, no ring on a tree edge) every test of the run passes, every ring
    is closed exactly once between the new keys of its two ends, and no ring stays open. *)
From Coq Require Import String.
From Coq Require Import List Ascii ZArith Bool Lia.
From CGV Require Import Base.PyBase Base.PyVal Base.PyGen Base.NxGraph.
From CGV Require Import Write.WriteImpl Write.TreeDefs Write.TreeWrite Write.TreeTables Write.RingDefs Write.RingTables Write.RingMarkers
     Write.RingClose Write.RingRead Write.GraphOps Write.FlatMachine Write.FlatSpec Write.RingSim Write.RunLog Write.RingFacts.
From CGV Require Import Reader.Grammar.
Import ListNotations.
Open Scope Z_scope.

Lemma app_eq_len {A} : forall (l1 m1 l2 m2 : list A), l1 ++ l2 = m1 ++ m2 -> length l1 = length m1 -> l1 = m1 /\ l2 = m2.
Proof.
  induction l1 as [|x l1 IH]; intros [|y m1] l2 m2 H Hl; try discriminate; [auto|].
  cbn in H. inversion H; subst. destruct (IH m1 l2 m2 H2) as [-> ->]; [now inversion Hl|auto].
Qed.
Lemma nodup_map_inj {A B} (f : A -> B) l x y : NoDup (map f l) -> In x l -> In y l -> f x = f y -> x = y.
Proof.
  induction l as [|a l IH]; intros ND Hx Hy E; [contradiction|]. cbn in ND. inversion ND as [|? ? Hn ND']; subst.
  destruct Hx as [->|Hx], Hy as [->|Hy]; auto.
  - exfalso. apply Hn. rewrite E. now apply in_map.
  - exfalso. apply Hn. rewrite <- E. now apply in_map.
Qed.
Lemma zseq_in s n x : In x (zseq s n) <-> s <= x < s + Z.of_nat n.
Proof.
  unfold zseq. rewrite in_map_iff. split.
  - intros [i [<- Hi]]. apply in_seq in Hi. lia.
  - intros H. exists (Z.to_nat (x - s)). split; [lia|]. apply in_seq. lia.
Qed.
Lemma zseq_cons s n : zseq s (Datatypes.S n) = s :: zseq (s + 1) n.
Proof.
  unfold zseq. cbn [seq map]. f_equal; [lia|]. rewrite (map_seq_shift n _ 1%nat). apply map_ext. intros i. lia.
Qed.
Lemma zseq_nodup s n : NoDup (zseq s n).
Proof.
  unfold zseq. apply FinFun.Injective_map_NoDup; [|apply seq_NoDup]. intros a b H. lia.
Qed.
Lemma nodup_two {A} (a b : A) l : NoDup l -> (forall x, In x l -> x = a \/ x = b) -> (length l <= 2)%nat.
Proof.
  intros ND H. assert (Hi : incl l [a; b]) by (intros x Hx; destruct (H x Hx) as [->| ->]; cbn; auto).
  apply (NoDup_incl_length ND Hi).
Qed.
Lemma m3_all_none mk3 : (forall ri, m3_get ri mk3 = None) -> mk3 = [].
Proof. destruct mk3 as [|x r]; [reflexivity|]. intros H. specialize (H (m3_ri x)). cbn in H. now rewrite Nat.eqb_refl in H. Qed.
Lemma wsim_ok3 cur : forall ris mk3, ok3 mk3 -> ok3 (fst (wsim cur mk3 ris)).
Proof.
  induction ris as [|ri r IH]; intros mk3 H; [exact H|]. cbn [wsim]. destruct (m3_get ri mk3) as [[m n0]|] eqn:E.
  - specialize (IH (m3_del ri mk3) (ok3_del mk3 ri H)). destruct (wsim cur (m3_del ri mk3) r). exact IH.
  - apply IH. now apply ok3_snoc.
Qed.

Section Inv.
  Variables (A : Z -> attrs) (rsym_o : nat -> option sym) (tr E : list (Z * Z)) (fl : list frec).
  Notation rlist := (rlist_of tr).
  Hypothesis HW : NoDup (map f_old fl).
  Hypothesis HN : map f_new fl = zseq 0 (length fl).
  Hypothesis Hhead : match fl with r0 :: _ => f_par r0 = None | [] => True end.
  Hypothesis Hpar : forall r, In r (tl fl) -> exists r', In r' fl /\ f_par r = Some (f_old r', f_new r') /\ In (f_old r', f_old r) E
                                                        /\ f_new r' < f_new r.
  (** the contract on the ring transcript *)
  Hypothesis C1 : forall e, In e tr -> fst e <> snd e /\ In (fst e) (map f_old fl) /\ In (snd e) (map f_old fl).
  Hypothesis C2 : nodup_edges tr = true.
  Hypothesis C3 : forall e te, In e tr -> In te E -> same_edge e te = false.

  Definition meets (ri : nat) (r : frec) : bool := memn ri (rlist (f_old r)).
  Definition ms (ri : nat) (P : list frec) : list Z := map f_new (filter (meets ri) P).
  Lemma ms_app ri P Q : ms ri (P ++ Q) = ms ri P ++ ms ri Q.
  Proof. unfold ms. now rewrite filter_app, map_app. Qed.
  Lemma ms_in ri P n : In n (ms ri P) -> exists r0, In r0 P /\ f_new r0 = n /\ In ri (rlist (f_old r0)).
  Proof.
    unfold ms. intros H. apply in_map_iff in H as [r0 [E0 H]]. apply filter_In in H as [H1 H2].
    exists r0. repeat split; [assumption|assumption|]. now apply memn_true.
  Qed.
  Lemma NDnew : NoDup (map f_new fl).
  Proof. rewrite HN. apply zseq_nodup. Qed.

  Lemma pos_facts P r Q : fl = P ++ r :: Q ->
    f_new r = Z.of_nat (length P) /\ map f_new P = zseq 0 (length P)
    /\ (forall r', In r' P -> f_new r' < f_new r) /\ (forall r', In r' fl -> f_new r' < f_new r -> In r' P).
  Proof.
    intros Hfl. pose proof HN as H. rewrite Hfl, map_app, app_length in H. cbn [map length] in H.
    rewrite zseq_app, zseq_cons in H.
    apply app_eq_len in H as [H1 H2]; [|unfold zseq; now rewrite !map_length, seq_length].
    injection H2 as H3 H4.
    assert (Hlt : forall r', In r' P -> f_new r' < f_new r).
    { intros r' Hr'. assert (Hi : In (f_new r') (zseq 0 (length P))) by (rewrite <- H1; now apply in_map). apply zseq_in in Hi. lia. }
    repeat split; try assumption; try lia.
    intros r' Hin Hlt'. rewrite Hfl in Hin. apply in_app_or in Hin as [Hin|[<-|Hin]]; [assumption|lia|].
    exfalso. assert (Hi : In (f_new r') (map f_new Q)) by now apply in_map.
    rewrite H4 in Hi. apply zseq_in in Hi. lia.
  Qed.

  (** the ends of a ring that two different written nodes meet *)
  Lemma two_meet ri r0 r : In r0 fl -> In r fl -> f_old r0 <> f_old r -> In ri (rlist (f_old r0)) -> In ri (rlist (f_old r)) ->
    exists e, In (ri, e) (ring_items_of tr) /\ same_edge e (f_old r0, f_old r) = true.
  Proof.
    intros H0 H1 Hne M0 M1. apply meets_iff in M0 as (a & b & I0 & K0). apply meets_iff in M1 as (a' & b' & I1 & K1).
    pose proof (ring_item_fun tr ri _ _ I0 I1) as Eab. inversion Eab; subst a' b'.
    exists (a, b). split; [assumption|]. unfold same_edge. cbn [fst snd].
    destruct K0 as [K0|K0], K1 as [K1|K1]; try congruence; rewrite K0, K1, !Z.eqb_refl; cbn; now rewrite ?orb_true_r.
  Qed.
  Lemma ms_bound ri : (length (ms ri fl) <= 2)%nat.
  Proof.
    unfold ms. rewrite map_length.
    destruct (filter (meets ri) fl) as [|r0 rest] eqn:Ef; [cbn; lia|].
    assert (H0 : In r0 (filter (meets ri) fl)) by (rewrite Ef; now left).
    apply filter_In in H0 as [H0 M0]. apply memn_true in M0. apply meets_iff in M0 as (a & b & I0 & K0).
    rewrite <- Ef. rewrite <- (map_length f_old).
    apply (nodup_two a b).
    - apply nodup_map_filter'. exact HW.
    - intros x Hx. apply in_map_iff in Hx as [r [<- Hr]]. apply filter_In in Hr as [Hr Mr]. apply memn_true in Mr.
      apply meets_iff in Mr as (a' & b' & I1 & K1). pose proof (ring_item_fun tr ri _ _ I0 I1) as Eab. inversion Eab; subst. exact K1.
  Qed.
  Lemma ms_prefix_bound ri P Q : fl = P ++ Q -> (length (ms ri P) <= 2)%nat.
  Proof. intros H. pose proof (ms_bound ri) as B. rewrite H, ms_app, app_length in B. lia. Qed.

  Definition cl_edge (c : nat * Z * Z) : Z * Z * Z := (snd (fst c), snd c, oord (rsym_o (fst (fst c)))).
  Record Inv (P : list frec) (L : list gop) (mk3 : marks3) : Prop := {
    i_nodes : log_nodes L = map f_new P;
    i_ok3 : ok3 mk3;
    i_tab : forall ri, match ms ri P with
                       | [] => m3_get ri mk3 = None
                       | [n0] => exists m, m3_get ri mk3 = Some (m, n0)
                       | [_; _] => m3_get ri mk3 = None
                       | _ => False
                       end;
    i_sound : forall e, In e (log_edges L) ->
                (exists r p, In r P /\ f_par r = Some p /\ e = (snd p, f_new r, f_pend r))
                \/ (exists ri n0 c, ms ri P = [n0; c] /\ e = (c, n0, oord (rsym_o ri)));
    i_tree : forall r p, In r P -> f_par r = Some p -> In (snd p, f_new r, f_pend r) (log_edges L);
    i_ring : forall ri n0 c, ms ri P = [n0; c] -> In (c, n0, oord (rsym_o ri)) (log_edges L) }.

  Lemma inv_init : Inv [] [] [].
  Proof. constructor; try reflexivity; try (intros; contradiction); try (split; constructor). intros ri n0 c H. discriminate. Qed.

  Lemma same_edge_cur cur n n' : n <> cur -> n' <> cur -> same_edge (cur, n') (cur, n) = Z.eqb n' n.
  Proof.
    intros H1 H2. unfold same_edge. cbn [fst snd]. rewrite Z.eqb_refl. cbn [andb].
    destruct (Z.eqb_spec n' n); [reflexivity|]. destruct (Z.eqb_spec cur n); [congruence|reflexivity].
  Qed.
  Lemma cl_ok_intro cur : forall cl Lx,
    (forall c, In c cl -> snd (fst c) = cur) ->
    (forall c, In c cl -> In (snd c) (log_nodes Lx) /\ snd c <> cur) ->
    (forall c, In c cl -> existsb (edge_hit cur (snd c)) (log_edges Lx) = false) ->
    NoDup (map snd cl) -> cl_ok rsym_o Lx cl = true.
  Proof.
    induction cl as [|c r IH]; intros Lx H1 H2 H3 H4; [reflexivity|]. cbn [cl_ok].
    pose proof (H1 c (or_introl eq_refl)) as E1. destruct (H2 c (or_introl eq_refl)) as [E2 E2'].
    rewrite E1, (H3 c (or_introl eq_refl)). destruct (Z.eqb_spec cur (snd c)) as [Ex|_]; [congruence|].
    rewrite (proj2 (memz_true _ _) E2). cbn [negb andb]. cbn [map] in H4. inversion H4 as [|? ? Hn H4']; subst.
    apply IH.
    - intros c' Hc'. apply H1. now right.
    - intros c' Hc'. destruct (H2 c' (or_intror Hc')). split; [|assumption]. rewrite log_nodes_app. apply in_or_app. now left.
    - intros c' Hc'. rewrite log_edges_app, existsb_app, (H3 c' (or_intror Hc')). cbn [orb log_edges flat_map cl_op existsb app].
      unfold edge_hit. cbn [fst]. rewrite ?E1.
      rewrite same_edge_cur; [| exact E2' | apply (H2 c' (or_intror Hc'))].
      destruct (Z.eqb_spec (snd c') (snd c)) as [Ex|]; [|reflexivity]. exfalso. apply Hn. rewrite <- Ex. now apply in_map.
    - exact H4'.
  Qed.

  (** an opener found in the table is a written node meeting that ring *)
  Lemma tab_opener P L mk3 ri m n0 : Inv P L mk3 -> m3_get ri mk3 = Some (m, n0) ->
    ms ri P = [n0] /\ exists r0, In r0 P /\ f_new r0 = n0 /\ In ri (rlist (f_old r0)).
  Proof.
    intros HI Hg. pose proof (i_tab P L mk3 HI ri) as K.
    destruct (ms ri P) as [|a [|b [|c l]]] eqn:Em; try (rewrite Hg in K; discriminate); try contradiction.
    destruct K as [m' K]. rewrite Hg in K. injection K as _ Ea. subst a. split; [reflexivity|].
    apply (ms_in ri P n0). rewrite Em. now left.
  Qed.

  Lemma par_lt r1 p : In r1 fl -> f_par r1 = Some p ->
    exists r', In r' fl /\ p = (f_old r', f_new r') /\ In (f_old r', f_old r1) E /\ f_new r' < f_new r1.
  Proof.
    intros Hin Hp. assert (Ht : In r1 (tl fl)).
    { destruct fl as [|r0 rest]; [contradiction|]. destruct Hin as [<-|Hin]; [rewrite Hhead in Hp; discriminate|exact Hin]. }
    destruct (Hpar r1 Ht) as [r' (A1 & A2 & A3 & A4)]. exists r'. rewrite Hp in A2. inversion A2. auto.
  Qed.
  Lemma same_edge_touch x y u v : same_edge (x, y) (u, v) = true -> (x = u /\ y = v) \/ (x = v /\ y = u).
  Proof.
    unfold same_edge. cbn [fst snd]. intros H. apply orb_prop in H as [H|H]; apply andb_prop in H as [H1 H2];
      apply Z.eqb_eq in H1; apply Z.eqb_eq in H2; auto.
  Qed.
  Lemma same_edge_trans a b x : same_edge a x = true -> same_edge b x = true -> same_edge a b = true.
  Proof.
    destruct a as [a1 a2], b as [b1 b2], x as [x1 x2]. intros H1 H2.
    apply same_edge_touch in H1. apply same_edge_touch in H2. unfold same_edge. cbn [fst snd].
    destruct H1 as [[-> ->]|[-> ->]], H2 as [[-> ->]|[-> ->]]; rewrite !Z.eqb_refl; cbn; now rewrite ?orb_true_r.
  Qed.
  Lemma nodup_map_transfer {X Y Z'} (f : X -> Y) (g : X -> Z') l : NoDup (map f l) ->
    (forall x y, In x l -> In y l -> g x = g y -> f x = f y) -> NoDup (map g l).
  Proof.
    induction l as [|a l IH]; intros ND H; [constructor|]. cbn in *. inversion ND as [|? ? Hn ND']; subst. constructor.
    - intros Hin. apply in_map_iff in Hin as [y [Ey Hy]]. apply Hn. rewrite <- (H y a); [now apply in_map|now right|now left|exact Ey].
    - apply IH; [exact ND'|]. intros x y Hx Hy. apply H; now right.
  Qed.
  Lemma in_fl_P P r Q x : fl = P ++ r :: Q -> In x P -> In x fl.
  Proof. intros -> H. apply in_or_app. now left. Qed.

  (** facts about the closings the writer predicts at the record [r] *)
  Lemma closing_facts P r Q L mk3 c : fl = P ++ r :: Q -> Inv P L mk3 ->
    In c (snd (wsim (f_new r) mk3 (rlist (f_old r)))) ->
    snd (fst c) = f_new r /\ In (c_ri c) (rlist (f_old r)) /\ ms (c_ri c) P = [snd c]
    /\ exists r0, In r0 P /\ f_new r0 = snd c /\ In (c_ri c) (rlist (f_old r0)).
  Proof.
    intros Hfl HI Hc.
    assert (NDr : NoDup (rlist (f_old r))) by (apply rlist_nodup; intros e He; now apply C1).
    pose proof (wsim_spec (f_new r) (rlist (f_old r)) mk3 NDr) as WS.
    destruct (wsim (f_new r) mk3 (rlist (f_old r))) as [mk3a cl]. cbn [snd] in Hc. destruct WS as (_ & _ & W3 & _).
    destruct (W3 c Hc) as (A1 & A2 & [m A3]). destruct (tab_opener P L mk3 _ _ _ HI A3) as [B1 B2]. auto.
  Qed.

  Lemma no_cur P r Q L mk3 e : fl = P ++ r :: Q -> Inv P L mk3 -> In e (log_edges L) ->
    fst (fst e) <> f_new r /\ snd (fst e) <> f_new r.
  Proof.
    intros Hfl HI He. destruct (pos_facts P r Q Hfl) as (_ & _ & Hlt & _).
    destruct (i_sound _ _ _ HI e He) as [(r1 & p & H1 & H2 & ->)|(ri & n0 & c & H1 & ->)]; cbn [fst snd].
    - pose proof (Hlt r1 H1) as L1. destruct (par_lt r1 p (in_fl_P P r Q r1 Hfl H1) H2) as [r' (_ & -> & _ & L2)]. cbn [snd]. lia.
    - assert (Hn0 : In n0 (ms ri P)) by (rewrite H1; now left). assert (Hc : In c (ms ri P)) by (rewrite H1; right; now left).
      apply ms_in in Hn0 as [ra (Ha & <- & _)]. apply ms_in in Hc as [rb (Hb & <- & _)].
      pose proof (Hlt ra Ha). pose proof (Hlt rb Hb). lia.
  Qed.

  Lemma step_tests P r Q L mk3 : fl = P ++ r :: Q -> Inv P L mk3 ->
    negb (memz (f_new r) (log_nodes L)) = true
    /\ match f_par r with Some p => memz (snd p) (log_nodes L) | None => true end = true
    /\ cl_ok rsym_o (L ++ tree_ops A r) (snd (wsim (f_new r) mk3 (rlist (f_old r)))) = true.
  Proof.
    intros Hfl HI. destruct (pos_facts P r Q Hfl) as (Hcur & HnP & Hlt & Hback).
    assert (Hr_in : In r fl) by (rewrite Hfl; apply in_or_app; right; now left).
    rewrite (i_nodes _ _ _ HI).
    split; [|split].
    - apply negb_true_iff. apply memz_false_iff. intros Hin. apply in_map_iff in Hin as [r' [E' H']]. specialize (Hlt r' H'). lia.
    - destruct (f_par r) as [p|] eqn:Ep; [|reflexivity]. destruct (par_lt r p Hr_in Ep) as [r' (A1 & -> & _ & A4)]. cbn [snd].
      apply memz_true. apply in_map. now apply Hback.
    - apply (cl_ok_intro (f_new r)).
      + intros c Hc. apply (closing_facts P r Q L mk3 c Hfl HI Hc).
      + intros c Hc. destruct (closing_facts P r Q L mk3 c Hfl HI Hc) as (_ & _ & _ & r0 & H0 & <- & _). split.
        * rewrite log_nodes_app, (i_nodes _ _ _ HI). apply in_or_app. left. now apply in_map.
        * specialize (Hlt r0 H0). lia.
      + intros c Hc. destruct (closing_facts P r Q L mk3 c Hfl HI Hc) as (_ & Mr & _ & r0 & H0 & E0 & M0).
        rewrite log_edges_app, existsb_app. apply orb_false_intro.
        * (* no edge of L touches the new node *)
          destruct (existsb (edge_hit (f_new r) (snd c)) (log_edges L)) eqn:Ex; [|reflexivity]. exfalso.
          apply existsb_exists in Ex as [e [He Hh]]. destruct (no_cur P r Q L mk3 e Hfl HI He) as [N1 N2].
          unfold edge_hit in Hh. destruct e as [[u v] o]. cbn [fst snd] in *. apply same_edge_touch in Hh as [[Hu _]|[Hv _]]; congruence.
        * (* the tree edge of r is not a ring edge *)
          unfold tree_ops. cbn [log_edges flat_map app]. destruct (f_par r) as [p|] eqn:Ep; [|reflexivity]. cbn [flat_map app existsb].
          rewrite orb_false_r. unfold edge_hit. cbn [fst].
          destruct (same_edge (f_new r, snd c) (snd p, f_new r)) eqn:Es; [|reflexivity]. exfalso.
          destruct (par_lt r p Hr_in Ep) as [r' (A1 & -> & A3 & A4)]. cbn [snd] in Es.
          apply same_edge_touch in Es as [[Hu _]|[_ Hv]]; [lia|].
          assert (Er : r0 = r') by (apply (nodup_map_inj f_new fl); [exact NDnew|now apply (in_fl_P P r Q)|exact A1|congruence]). subst r'.
          assert (Hne : f_old r0 <> f_old r).
          { intros Eo. assert (r0 = r) by (apply (nodup_map_inj f_old fl); [exact HW|now apply (in_fl_P P r Q)|exact Hr_in|exact Eo]). subst r0.
            specialize (Hlt r H0). lia. }
          destruct (two_meet (c_ri c) r0 r (in_fl_P P r Q r0 Hfl H0) Hr_in Hne M0 Mr) as [e [Ie Se]].
          rewrite (C3 e (f_old r0, f_old r) (ring_item_in tr _ _ Ie) A3) in Se. discriminate.
      + (* two closings at this node have different openers *)
        assert (NDr : NoDup (rlist (f_old r))) by (apply rlist_nodup; intros e He; now apply C1).
        pose proof (wsim_spec (f_new r) (rlist (f_old r)) mk3 NDr) as WS.
        pose proof (closing_facts P r Q L mk3) as CF.
        destruct (wsim (f_new r) mk3 (rlist (f_old r))) as [mk3a cl]. cbn [snd] in *. destruct WS as (_ & _ & _ & W4).
        apply (nodup_map_transfer c_ri snd cl W4). intros c c' Hc Hc' Es.
        destruct (Nat.eq_dec (c_ri c) (c_ri c')) as [Eq|Nq]; [exact Eq|]. exfalso.
        destruct (CF c Hfl HI Hc) as (_ & Mr & _ & r0 & H0 & E0 & M0).
        destruct (CF c' Hfl HI Hc') as (_ & Mr' & _ & r0' & H0' & E0' & M0').
        assert (Er : r0 = r0') by (apply (nodup_map_inj f_new fl); [exact NDnew|now apply (in_fl_P P r Q)|now apply (in_fl_P P r Q)|congruence]). subst r0'.
        assert (Hne : f_old r0 <> f_old r).
        { intros Eo. assert (r0 = r) by (apply (nodup_map_inj f_old fl); [exact HW|now apply (in_fl_P P r Q)|exact Hr_in|exact Eo]). subst r0.
          specialize (Hlt r H0). lia. }
        destruct (two_meet (c_ri c) r0 r (in_fl_P P r Q r0 Hfl H0) Hr_in Hne M0 Mr) as [e [Ie Se]].
        destruct (two_meet (c_ri c') r0 r (in_fl_P P r Q r0 Hfl H0) Hr_in Hne M0' Mr') as [e' [Ie' Se']].
        pose proof (same_edge_trans e e' _ Se Se') as Ht. rewrite (ring_items_distinct tr _ _ e e' C2 Ie Ie' Nq) in Ht. discriminate.
  Qed.

  Lemma cl_ops_nodes cl : log_nodes (map (cl_op rsym_o) cl) = [].
  Proof. induction cl as [|c r IH]; [reflexivity|]. cbn. exact IH. Qed.
  Lemma cl_ops_edges cl : log_edges (map (cl_op rsym_o) cl) = map cl_edge cl.
  Proof. induction cl as [|c r IH]; [reflexivity|]. cbn [map log_edges flat_map cl_op app]. fold (log_edges (map (cl_op rsym_o) r)). now rewrite IH. Qed.
  Lemma tree_ops_nodes r : log_nodes (tree_ops A r) = [f_new r].
  Proof. unfold tree_ops. destruct (f_par r); reflexivity. Qed.
  Lemma ms_snoc ri P r : ms ri (P ++ [r]) = ms ri P ++ (if meets ri r then [f_new r] else []).
  Proof. rewrite ms_app. unfold ms at 2. cbn [filter]. destruct (meets ri r); reflexivity. Qed.

  Lemma inv_step P r Q L mk3 : fl = P ++ r :: Q -> Inv P L mk3 ->
    Inv (P ++ [r]) (L ++ tree_ops A r ++ map (cl_op rsym_o) (snd (wsim (f_new r) mk3 (rlist (f_old r)))))
        (fst (wsim (f_new r) mk3 (rlist (f_old r)))).
  Proof.
    intros Hfl HI.
    assert (Hfl' : fl = (P ++ [r]) ++ Q) by (rewrite <- app_assoc; exact Hfl).
    assert (NDr : NoDup (rlist (f_old r))) by (apply rlist_nodup; intros e He; now apply C1).
    pose proof (wsim_spec (f_new r) (rlist (f_old r)) mk3 NDr) as WS.
    pose proof (closing_facts P r Q L mk3) as CF.
    pose proof (wsim_ok3 (f_new r) (rlist (f_old r)) mk3 (i_ok3 _ _ _ HI)) as Hok.
    destruct (wsim (f_new r) mk3 (rlist (f_old r))) as [mk3a cl]. cbn [fst snd] in *. destruct WS as (W1 & W2 & W3 & W4).
    assert (Bnd : forall ri, (length (ms ri (P ++ [r])) <= 2)%nat) by (intros ri; apply (ms_prefix_bound ri (P ++ [r]) Q Hfl')).
    assert (Mt : forall ri, meets ri r = true <-> In ri (rlist (f_old r))) by (intros ri; apply memn_true).
    constructor.
    - rewrite !log_nodes_app, tree_ops_nodes, cl_ops_nodes, app_nil_r, (i_nodes _ _ _ HI), map_app. reflexivity.
    - exact Hok.
    - intros ri. pose proof (Bnd ri) as B. rewrite ms_snoc in *. pose proof (i_tab _ _ _ HI ri) as K.
      destruct (meets ri r) eqn:Em.
      + specialize (W1 ri (proj1 (Mt ri) Em)).
        destruct (ms ri P) as [|a [|b [|c l]]]; cbn [app] in *; rewrite ?app_length in B; cbn [length] in B; try lia.
        * rewrite K in W1. exact W1.
        * destruct K as [m K]. rewrite K in W1. apply W1.
      + rewrite app_nil_r. rewrite (W2 ri) by (intros H; apply Mt in H; congruence). exact K.
    - intros e He. rewrite !log_edges_app in He. apply in_app_or in He as [He|He]; [|apply in_app_or in He as [He|He]].
      + destruct (i_sound _ _ _ HI e He) as [(r1 & p & H1 & H2 & ->)|(ri & n0 & c & H1 & ->)].
        * left. exists r1, p. split; [apply in_or_app; now left|auto].
        * right. exists ri, n0, c. split; [|reflexivity]. pose proof (Bnd ri) as B. rewrite ms_snoc in *. rewrite H1 in *.
          destruct (meets ri r); [cbn in B; lia|now rewrite app_nil_r].
      + left. unfold tree_ops in He. cbn [log_edges flat_map app] in He. destruct (f_par r) as [p|] eqn:Ep; [|contradiction].
        cbn in He. destruct He as [<-|[]]. exists r, p. split; [apply in_or_app; right; now left|auto].
      + rewrite cl_ops_edges in He. apply in_map_iff in He as [c [<- Hc]].
        destruct (CF c Hfl HI Hc) as (A1 & A2 & A3 & _).
        right. exists (c_ri c), (snd c), (f_new r). split.
        * rewrite ms_snoc, A3, (proj2 (Mt (c_ri c)) A2). reflexivity.
        * unfold cl_edge. now rewrite A1.
    - intros r1 p H1 Hp. rewrite !log_edges_app. apply in_app_or in H1 as [H1|[<-|[]]].
      + apply in_or_app. left. now apply (i_tree _ _ _ HI).
      + apply in_or_app. right. apply in_or_app. left. unfold tree_ops. rewrite Hp. cbn. now left.
    - intros ri n0 c Hm. rewrite !log_edges_app. rewrite ms_snoc in Hm. destruct (meets ri r) eqn:Em.
      + pose proof (i_tab _ _ _ HI ri) as K. specialize (W1 ri (proj1 (Mt ri) Em)).
        destruct (ms ri P) as [|a [|b l]]; cbn [app] in Hm; try discriminate.
        * inversion Hm; subst. destruct K as [m K]. rewrite K in W1. destruct W1 as [_ W1].
          apply in_or_app. right. apply in_or_app. right. rewrite cl_ops_edges. apply in_map_iff. exists (ri, f_new r, n0). split; [reflexivity|exact W1].
        * destruct l; discriminate.
      + rewrite app_nil_r in Hm. apply in_or_app. left. now apply (i_ring _ _ _ HI).
  Qed.

  (** the whole run *)
  Theorem run_inv : forall Q P L mk3, fl = P ++ Q -> Inv P L mk3 ->
    xok A rlist rsym_o L mk3 Q = true
    /\ Inv fl (fst (xlog A rlist rsym_o L mk3 Q)) (snd (xlog A rlist rsym_o L mk3 Q)).
  Proof.
    induction Q as [|r Q IH]; intros P L mk3 Hfl HI.
    - rewrite app_nil_r in Hfl. subst P. split; [reflexivity|exact HI].
    - destruct (step_tests P r Q L mk3 Hfl HI) as (T1 & T2 & T3).
      pose proof (inv_step P r Q L mk3 Hfl HI) as HS.
      cbn [xok xlog]. destruct (wsim (f_new r) mk3 (rlist (f_old r))) as [mk3a cl]. cbn [fst snd] in *.
      rewrite T1, T2, T3. cbn [andb].
      apply (IH (P ++ [r])); [rewrite <- app_assoc; exact Hfl|exact HS].
  Qed.
End Inv.
