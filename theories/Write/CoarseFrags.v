(** CoarseFrags: C08 for a LIST of coarse fragment chains, unbounded.  write_cgsmiles_fragments(smiles_format=False)
    writes "{#name1=text1,#name2=text2,...}" (names in dict order, `,` between the definitions, none after the
    last); the splitting of fragment_iter (the strip component's [fragment_split]) gives back exactly the pairs
    (name_i, text_i) in that order; and every text_i is read by the model of the coarse branch of fragment_iter as
    the chain it was written from ([CoarseChain.coarse_chain_roundtrip]): descriptors of all four kinds, orders 0..4
    (through format_strip_roundtrip's machinery), bonds of order 0..4, any length, any number of fragments. *)
From Coq Require Import String.
From Coq Require Import List Ascii ZArith Bool Lia.
From CGV Require Import Base.PyBase Base.PyVal Base.PyGen Base.NxGraph Gen.WriterGen Dialect.DialectImpl.
From CGV Require Import Write.WriteImpl Write.WriteDefs Write.WriteProofs Write.FormatBondingSpec Write.FormatStripRound Write.CoarseChain.
From CGV Require Import Frag.NDict Frag.StripImpl Frag.FragText Frag.FragProofs.
From CGV Require Import Reader.ReaderImpl Reader.Grammar Write.PathRound Write.FragRead Write.FullDomain.
Import ListNotations.
Open Scope Z_scope.

(** ------------------------------------------------------------------ strings *)
Lemma split_on_sep c : forall a b cur, ~ In c a -> split_on c (a ++ c :: b) cur = (rev cur ++ a) :: split_on c b [].
Proof.
  induction a as [|x a IH]; intros b cur H; cbn [app split_on].
  - rewrite Ascii.eqb_refl. now rewrite app_nil_r.
  - destruct (Ascii.eqb_spec x c) as [->|N]; [exfalso; apply H; now left|].
    rewrite IH by (intros Hin; apply H; now right). cbn [rev]. now rewrite <- app_assoc.
Qed.
Lemma split_join c : forall ts, ts <> [] -> Forall (fun t => ~ In c t) ts -> py_split (join [c] ts) c = ts.
Proof.
  unfold py_split. induction ts as [|t ts IH]; intros Hne H; [contradiction|]. inversion H as [|? ? Ht Hts]; subst.
  destruct ts as [|t2 ts]; cbn [join].
  - now rewrite (split_on_none c t [] Ht).
  - cbn [app]. rewrite (split_on_sep c t _ [] Ht). cbn [rev app]. f_equal. apply IH; [discriminate|exact Hts].
Qed.
Lemma find_char_first c : forall a b i, ~ In c a -> find_char c (a ++ c :: b) i = Some (i + length a)%nat.
Proof.
  induction a as [|x a IH]; intros b i H; cbn [app find_char length].
  - rewrite Ascii.eqb_refl. f_equal. lia.
  - destruct (Ascii.eqb_spec x c) as [->|N]; [exfalso; apply H; now left|].
    rewrite IH by (intros Hin; apply H; now right). f_equal. lia.
Qed.
Lemma removelast_snoc {X} (l : list X) x : removelast (l ++ [x]) = l.
Proof. apply removelast_last. Qed.
Lemma body_join : forall ts : list pystr, removelast (concat (map (fun t => t ++ S ",") ts)) = join (S ",") ts.
Proof.
  induction ts as [|t ts IH]; [reflexivity|]. cbn [map concat].
  destruct ts as [|t2 ts].
  - cbn [map concat join]. rewrite app_nil_r. apply removelast_snoc.
  - change (join (S ",") (t :: t2 :: ts)) with (t ++ S "," ++ join (S ",") (t2 :: ts)). rewrite <- IH.
    set (c := concat (map (fun t0 : list ascii => t0 ++ S ",") (t2 :: ts))).
    assert (Hc : c <> []) by (unfold c; cbn [map concat]; destruct t2; discriminate).
    rewrite <- app_assoc. rewrite removelast_app by (destruct c; discriminate). f_equal.
    destruct c as [|y c']; [contradiction|reflexivity].
Qed.

(** ------------------------------------------------------------------ no comma in what the writer writes for a chain *)
Definition nocomma (s : pystr) : Prop := ~ In ","%char s.
Lemma nocomma_app a b : nocomma a -> nocomma b -> nocomma (a ++ b).
Proof. unfold nocomma. intros Ha Hb H. apply in_app_or in H as [H|H]; auto. Qed.
Lemma alnum_nocomma s : forallb is_alnum s = true -> nocomma s.
Proof. unfold nocomma. intros H Hin. rewrite forallb_forall in H. specialize (H _ Hin). discriminate. Qed.
Lemma fbt_nocomma D : forallb d_ok D = true -> nocomma (fbt D).
Proof.
  induction D as [|[[k lab] o] D IH]; intros H; [intros []|]. cbn [forallb] in H. apply andb_prop in H as [Hd HD].
  unfold fbt, fb_expected. cbn [map concat]. apply nocomma_app; [|exact (IH HD)].
  unfold d_ok in Hd. cbn [fst snd] in Hd. apply andb_prop in Hd as [Hd Ho]. apply andb_prop in Hd as [Hk Hl]. apply Nat.leb_le in Ho.
  unfold fb_item, wrap, d_kl. cbn [fst snd]. apply nocomma_app.
  - unfold symtext, sym_of. assert (C : (o = 0 \/ o = 1 \/ o = 2 \/ o = 3 \/ o = 4)%nat) by lia. destruct C as [->|[->|[->|[->| ->]]]]; cbn; unfold nocomma; cbn; intuition discriminate.
  - apply nocomma_app; [unfold nocomma; cbn; intuition discriminate|]. apply nocomma_app; [|unfold nocomma; cbn; intuition discriminate].
    intros [E|Hin]; [|exact (alnum_nocomma lab Hl Hin)]. subst k. discriminate.
Qed.
Lemma zsym_nocomma o : nocomma (zsym o).
Proof. unfold zsym. destruct (o =? 0); [|destruct (o =? 2); [|destruct (o =? 3); [|destruct (o =? 4)]]]; unfold nocomma; cbn; intuition discriminate. Qed.
Lemma ctext_nocomma : forall l x sprev, nocomma sprev -> nocomma (fst x) -> okx x ->
  Forall (fun y => nocomma (fst (snd y)) /\ okx (snd y)) l -> nocomma (ctext sprev x l).
Proof.
  induction l as [|[[o k] x'] r IH]; intros x sprev Hs Hn Hx Hl; cbn [ctext]; apply nocomma_app; try exact Hs; apply nocomma_app.
  - unfold ntxt. repeat apply nocomma_app; try (unfold nocomma; cbn; intuition discriminate); [exact Hn|now apply fbt_nocomma].
  - intros [].
  - unfold ntxt. repeat apply nocomma_app; try (unfold nocomma; cbn; intuition discriminate); [exact Hn|now apply fbt_nocomma].
  - destruct (Forall_inv Hl) as [H1 H2]. apply IH; [apply zsym_nocomma|exact H1|exact H2|exact (Forall_inv_tail Hl)].
Qed.

(** ------------------------------------------------------------------ a list of coarse chain fragments *)
(** name of the fragment, key of the first node, first node, the rest (bond order, key, node) *)
Definition cfrag := (pystr * Z * nodex * list (Z * Z * nodex))%type.
Definition cf_name (f : cfrag) : pystr := fst (fst (fst f)).
Definition cf_graph (f : cfrag) : graph :=
  let '(nm, k0, x0, l) := f in path_graph k0 (fattrs nm x0) (mk_restx nm l).
Definition cf_text (f : cfrag) : pystr := let '(_, _, x0, l) := f in ctext [] x0 l.
Definition cf_entry (f : cfrag) : frag_entry := (cf_name f, cf_graph f, [], []).
Definition cf_def (f : cfrag) : pystr := S "#" ++ cf_name f ++ S "=" ++ cf_text f.
(** what the writer needs of one fragment *)
Definition cf_wok (f : cfrag) : Prop :=
  let '(nm, k0, x0, l) := f in
  NoDup (k0 :: rest_keys (mk_restx nm l)) /\ (forall k, In k (rest_keys (mk_restx nm l)) -> k0 <= k) /\
  okx x0 /\ Forall (fun y => 0 <= fst (fst y) <= 4 /\ okx (snd y)) l.

Theorem write_coarse_fragments : forall fs, Forall cf_wok fs ->
  write_cgsmiles_fragments false (map cf_entry fs) = Ok (S "{" ++ join (S ",") (map cf_def fs) ++ S "}").
Proof.
  intros fs H. unfold write_cgsmiles_fragments.
  assert (B : write_fragments_body false (map cf_entry fs) = Ok (concat (map (fun t => t ++ S ",") (map cf_def fs)))).
  { induction fs as [|[[[nm k0] x0] l] fs IH]; [reflexivity|]. cbn [map write_fragments_body cf_entry cf_name cf_graph fst].
    destruct (Forall_inv H) as (ND & Hmin & Hx & Hl).
    rewrite (write_chain_frag_dh nm (fun k => memz k []) k0 x0 l ND Hmin Hx Hl). cbn [bind]. rewrite (IH (Forall_inv_tail H)). cbn [bind concat].
    unfold cf_def, cf_name, cf_text. cbn [fst]. now rewrite <- !app_assoc. }
  rewrite B. cbn [bind]. unfold py_drop_last. now rewrite body_join.
Qed.

(** the splitting of fragment_iter gives the definitions back: names in order, texts unchanged *)
Definition cf_sok (f : cfrag) : Prop :=
  let '(nm, k0, x0, l) := f in
  nocomma nm /\ ~ In "="%char nm /\ nocomma (fst x0) /\ okx x0 /\ Forall (fun y => nocomma (fst (snd y)) /\ okx (snd y)) l.
Lemma skipn_past {X} (a : list X) c b : skipn (Datatypes.S (length a)) (a ++ c :: b) = b.
Proof. induction a as [|x a IH]; [reflexivity|exact IH]. Qed.
Lemma firstn_pre {X} (a : list X) b : firstn (length a) (a ++ b) = a.
Proof. induction a as [|x a IH]; [reflexivity|cbn; now rewrite IH]. Qed.
Lemma split_def f : ~ In "="%char (cf_name f) -> split_fragment (cf_def f) = (cf_name f, cf_text f).
Proof.
  intros H. unfold split_fragment, cf_def. cbn [S list_ascii_of_string app].
  cbn [find_char]. change (Ascii.eqb "#" "=") with false. cbv iota.
  rewrite (find_char_first "="%char (cf_name f) (cf_text f) 1 H).
  replace (1 + length (cf_name f))%nat with (Datatypes.S (length (cf_name f))) by lia.
  f_equal.
  - unfold py_slice. cbn [skipn]. replace (Datatypes.S (length (cf_name f)) - 1)%nat with (length (cf_name f)) by lia.
    apply firstn_pre.
  - cbn [skipn]. apply skipn_past.
Qed.
Theorem split_coarse_fragments : forall fs, fs <> [] -> Forall cf_sok fs ->
  fragment_split (S "{" ++ join (S ",") (map cf_def fs) ++ S "}") = map (fun f => (cf_name f, cf_text f)) fs.
Proof.
  intros fs Hne H. unfold fragment_split.
  assert (E : forall B, removelast (skipn 1 (S "{" ++ B ++ S "}")) = B) by (intros B; cbn [S list_ascii_of_string app skipn]; apply removelast_snoc).
  rewrite E. change (S ",") with [","%char].
  rewrite (split_join ","%char (map cf_def fs)).
  - rewrite map_map. apply map_ext_in. intros f Hf. apply split_def.
    rewrite Forall_forall in H. specialize (H f Hf). destruct f as [[[nm k0] x0] l]. unfold cf_name. cbn [fst]. unfold cf_sok in H. tauto.
  - destruct fs; [contradiction|discriminate].
  - apply Forall_forall. intros t Ht. apply in_map_iff in Ht as [f [<- Hf]]. rewrite Forall_forall in H. specialize (H f Hf).
    destruct f as [[[nm k0] x0] l]. destruct H as (N1 & N2 & N3 & Hx & Hl). unfold cf_def, cf_name, cf_text. cbn [fst].
    apply nocomma_app; [unfold nocomma; cbn; intuition discriminate|]. apply nocomma_app; [exact N1|].
    apply nocomma_app; [unfold nocomma; cbn; intuition discriminate|]. apply ctext_nocomma; auto. intros [].
Qed.

(** ------------------------------------------------------------------ writer, then fragment_iter(all_atom=False) *)
(** fragment_iter(fragment_str, all_atom=False): (fragname, graph or exception) per definition, in order *)
Definition read_coarse_fragments (fo : float_oracle) (s : pystr) : list (pystr * res graph) :=
  map (fun nt => (fst nt, read_coarse_fragment fo (fst nt) (snd nt))) (fragment_split s).
(** what one chain is read back as: numbered 0..n, names' attributes, bond orders, its descriptor dict *)
Definition cf_read (A : pystr -> attrs) (a0 : attrs) (f : cfrag) : res graph :=
  let '(nm, _, x0, l) := f in
  let sp := cspec a0 sinit x0 l in
  let g := nx_build A (fst x0) (plainl l) in
  let g1 := set_nodes_from g (S "atomname") (get_node_attributes g (S "fragname")) in
  let g2 := set_nodes_from g1 (S "bonding") (bonding_values (s_desc sp)) in
  let g3 := set_all_nodes g2 (S "fragname") (VStr nm) in
  let g4 := set_all_nodes g3 (S "fragid") (VInt 0) in
  let g5 := set_all_nodes g4 (S "w") (VInt 1) in
  Ok (update_nodes_from g5 (node_updates (s_ann sp))).
Definition cf_ok (fo : float_oracle) (A : pystr -> attrs) (f : cfrag) : Prop :=
  let '(nm, k0, x0, l) := f in
  nocomma nm /\ ~ In "="%char nm
  /\ NoDup (k0 :: rest_keys (mk_restx nm l)) /\ (forall k, In k (rest_keys (mk_restx nm l)) -> k0 <= k)
  /\ okn x0 /\ nocomma (fst x0)
  /\ Forall (fun y => 0 <= fst (fst y) <= 4 /\ okn (snd y) /\ nocomma (fst (snd y))) l
  /\ Forall (fun n => name_ok fo n = true) (path_names (fst x0) (plainl l))
  /\ Forall (fun n => parse_graph_base_node fo n = Ok (A n)) (path_names (fst x0) (plainl l)).

Theorem coarse_fragments_roundtrip : forall fo A a0 (fs : list cfrag),
  fragment_node_parser fo [] = Ok a0 -> fs <> [] -> Forall (cf_ok fo A) fs ->
  exists txt, write_cgsmiles_fragments false (map cf_entry fs) = Ok txt
              /\ txt = S "{" ++ join (S ",") (map cf_def fs) ++ S "}"
              /\ read_coarse_fragments fo txt = map (fun f => (cf_name f, cf_read A a0 f)) fs.
Proof.
  intros fo A a0 fs Hp0 Hne H. eexists. split; [|split; [reflexivity|]].
  - apply write_coarse_fragments. eapply Forall_impl; [|exact H]. intros [[[nm k0] x0] l] (_ & _ & ND & Hmin & [_ Hx] & _ & Hl & _).
    repeat split; try assumption. eapply Forall_impl; [|exact Hl]. intros y (H1 & [_ H2] & _). auto.
  - unfold read_coarse_fragments. rewrite split_coarse_fragments; [|exact Hne|].
    + rewrite map_map. apply map_ext_in. intros [[[nm k0] x0] l] Hf. cbn [fst snd cf_name cf_text]. f_equal.
      rewrite Forall_forall in H. specialize (H _ Hf). destruct H as (_ & _ & ND & Hmin & Hx0 & _ & Hl & Hn & Hpn).
      destruct (coarse_chain_roundtrip fo A a0 nm k0 x0 l Hp0 ND Hmin Hx0) as [txt [W R]]; try assumption.
      { eapply Forall_impl; [|exact Hl]. intros y (H1 & H2 & _). auto. }
      assert (Et : txt = ctext [] x0 l).
      { destruct Hx0 as [_ Hx]. rewrite (write_chain_frag nm k0 x0 l ND Hmin Hx) in W; [now inversion W|].
        eapply Forall_impl; [|exact Hl]. intros y (H1 & [_ H2] & _). auto. }
      subst txt. exact R.
    + eapply Forall_impl; [|exact H]. intros [[[nm k0] x0] l] (N1 & N2 & _ & _ & [_ Hx] & N3 & Hl & _).
      repeat split; try assumption. eapply Forall_impl; [|exact Hl]. intros y (_ & [_ H2] & H3). auto.
Qed.

(** non-vacuity: two fragments, descriptors of the four kinds and of orders 0..4 *)
Definition ex_fs : list cfrag :=
  [(S "X", 3, ex_x0, ex_l); (S "PEO", 0, (S "PEO", [("<"%char, [], 1%nat)]), [(1, 1, (S "PEO", [(">"%char, [], 1%nat)]))])].
Example coarse_fragments_example :
  write_cgsmiles_fragments false (map cf_entry ex_fs) = Ok (S "{#X=[#A][$a]=[>]=[#B].[!x].[#PEO][#A]#[<],#PEO=[#PEO][<][#PEO][>]}")
  /\ map fst (read_coarse_fragments (fun _ => None) (S "{#X=[#A][$a]=[>]=[#B].[!x].[#PEO][#A]#[<],#PEO=[#PEO][<][#PEO][>]}")) = [S "X"; S "PEO"]
  /\ forallb (fun nr => match snd nr with Ok _ => true | Err _ => false end)
             (read_coarse_fragments (fun _ => None) (S "{#X=[#A][$a]=[>]=[#B].[!x].[#PEO][#A]#[<],#PEO=[#PEO][<][#PEO][>]}")) = true.
Proof. repeat split; vm_compute; reflexivity. Qed.
