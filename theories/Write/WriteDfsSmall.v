(** WriteDfsSmall: BOUNDED contract of the Gallina DFS (model of networkx dfs_successors) on the finite
    family [small_all] of Write/WriteRound.v: on every connected graph of the family the DFS from the smallest
    key visits every node exactly once, every tree edge is a graph edge, and every non-root node has exactly
    one predecessor.  (The unbounded statement for arbitrary connected graphs is NOT proved; the writer check
    evaluates [ring_contract] and the connectivity predicate on every case instead.) *)
From Coq Require Import String.
From Coq Require Import List Ascii ZArith Bool Lia.
From CGV Require Import Base.PyBase Base.PyVal Base.NxGraph Write.WriteImpl Write.WriteDefs Write.WriteRound.
Import ListNotations.
Open Scope Z_scope.

Definition dfs_spans (g : graph) : bool :=
  match min_node g with
  | Ok s =>
      match dfs_visited g s, dfs_edges g s with
      | Ok v, Ok t =>
          nodupz v && Nat.eqb (length v) (length g) && forallb (fun k => memz k v) (node_keys g)
          && forallb (fun e => has_edge g (fst e) (snd e)) t
          && Nat.eqb (length t) (length g - 1)
          && forallb (fun k => Z.eqb k s || Nat.eqb (length (filter (fun e => Z.eqb (snd e) k) t)) 1) (node_keys g)
      | _, _ => false
      end
  | Err _ => false
  end.
Lemma dfs_spanning_all : forallb (fun g => negb (wf_C07 g) || dfs_spans g) small_all = true.
Proof. vm_compute. reflexivity. Qed.
Theorem dfs_spanning_small : forall g, In g small_all -> wf_C07 g = true -> dfs_spans g = true.
Proof.
  intros g Hg Hwf. pose proof dfs_spanning_all as H. rewrite forallb_forall in H. specialize (H g Hg).
  rewrite Hwf in H. exact H.
Qed.
