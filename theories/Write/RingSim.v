(** RingSim: the writer's ring-marker table and the reader's ring table stay in step.
    Writer side with a ghost component: [mk3] = ring_idx_to_marker extended by the NEW key of the node that
    opened the ring.  Reader side: the table of the token machine (marker -> (node, order)) is the image [rtof]
    of the writer's table at every moment; an opening item adds the same entry to both, a closing item removes it
    from both and the reader adds the ring edge (closer, opener) with the order recorded at the opening. *)
From Coq Require Import String.
From Coq Require Import List Ascii ZArith Bool Lia.
From CGV Require Import Base.PyBase Base.PyVal Base.PyGen Base.NxGraph Dialect.DialectImpl.
From CGV Require Import Write.WriteImpl Write.TreeDefs Write.TreeWrite Write.RingDefs Write.RingMarkers Write.RingRead
     Write.GraphOps Write.FlatMachine.
From CGV Require Import Reader.Grammar.
Import ListNotations.
Open Scope Z_scope.

Definition marks3 := list (nat * nat * Z).          (* ring index, marker, new key of the opening node *)
Definition m3_ri (x : nat * nat * Z) : nat := fst (fst x).
Definition m3_m (x : nat * nat * Z) : nat := snd (fst x).
Definition m3_n (x : nat * nat * Z) : Z := snd x.
Definition proj3 (mk3 : marks3) : marks := map (fun x => (m3_ri x, m3_m x)) mk3.
Fixpoint m3_get (ri : nat) (mk3 : marks3) : option (nat * Z) :=
  match mk3 with [] => None | x :: r => if Nat.eqb (m3_ri x) ri then Some (m3_m x, m3_n x) else m3_get ri r end.
Definition m3_del (ri : nat) (mk3 : marks3) : marks3 := filter (fun x => negb (Nat.eqb (m3_ri x) ri)) mk3.

Lemma proj3_get ri mk3 : mk_get ri (proj3 mk3) = option_map fst (m3_get ri mk3).
Proof. induction mk3 as [|x r IH]; [reflexivity|]. cbn [proj3 map mk_get m3_get]. destruct (Nat.eqb (m3_ri x) ri); [reflexivity|exact IH]. Qed.
Lemma proj3_del ri mk3 : mk_del ri (proj3 mk3) = proj3 (m3_del ri mk3).
Proof.
  unfold mk_del, m3_del, proj3. induction mk3 as [|x r IH]; [reflexivity|]. cbn [map filter fst].
  destruct (Nat.eqb (m3_ri x) ri); cbn [negb map]; [exact IH|now rewrite IH].
Qed.
Lemma proj3_snd mk3 : map snd (proj3 mk3) = map m3_m mk3.
Proof. unfold proj3. rewrite map_map. reflexivity. Qed.

Lemma filter_all {A} (f : A -> bool) l : (forall x, In x l -> f x = true) -> filter f l = l.
Proof. induction l as [|a l IH]; intros H; [reflexivity|]. cbn. rewrite (H a (or_introl eq_refl)). f_equal. apply IH. intros x Hx. apply H. now right. Qed.

Section Sim.
  Variable rsym_o : nat -> option sym.
  Notation ring_items := (ring_items rsym_o).

  (** writer with ghost: new table and the closings (ring index, closer, opener) of the node [cur] *)
  Fixpoint wsim (cur : Z) (mk3 : marks3) (ris : list nat) : marks3 * list (nat * Z * Z) :=
    match ris with
    | [] => (mk3, [])
    | ri :: r =>
        match m3_get ri mk3 with
        | None => wsim cur (mk3 ++ [(ri, get_ring_marker (map m3_m mk3), cur)]) r
        | Some (m, n0) => let '(mk', cl) := wsim cur (m3_del ri mk3) r in (mk', (ri, cur, n0) :: cl)
        end
    end.
  Lemma wsim_items cur : forall ris a mk3, fst (ring_items a (proj3 mk3) ris) = proj3 (fst (wsim cur mk3 ris)).
  Proof.
    induction ris as [|ri r IH]; intros a mk3; [reflexivity|]. cbn [RingRead.ring_items wsim]. rewrite proj3_get.
    destruct (m3_get ri mk3) as [[m n0]|]; cbn [option_map fst].
    - rewrite proj3_del. specialize (IH (a || (10 <=? m)%nat) (m3_del ri mk3)).
      destruct (ring_items (a || (10 <=? m)%nat) (proj3 (m3_del ri mk3)) r). destruct (wsim cur (m3_del ri mk3) r). exact IH.
    - rewrite proj3_snd. set (a' := a || (10 <=? get_ring_marker (map m3_m mk3))%nat).
      specialize (IH a' (mk3 ++ [(ri, get_ring_marker (map m3_m mk3), cur)])).
      unfold proj3 in IH at 1. rewrite map_app in IH. cbn [map m3_ri m3_m fst snd] in IH. fold (proj3 mk3) in IH.
      destruct (ring_items a' (proj3 mk3 ++ [(ri, get_ring_marker (map m3_m mk3))]) r). exact IH.
  Qed.

  (** the reader's table as the image of the writer's *)
  Definition rtof (mk3 : marks3) : ringtab :=
    map (fun x => (Z.of_nat (m3_m x), (m3_n x, oord (rsym_o (m3_ri x))))) mk3.
  Definition ok3 (mk3 : marks3) : Prop := NoDup (map m3_ri mk3) /\ NoDup (map m3_m mk3).

  Lemma rtof_get_fresh m mk3 : ~ In m (map m3_m mk3) -> rt_get (Z.of_nat m) (rtof mk3) = None.
  Proof.
    induction mk3 as [|x r IH]; intros H; [reflexivity|]. cbn [rtof map rt_get]. fold (rtof r).
    destruct (Z.eqb_spec (Z.of_nat (m3_m x)) (Z.of_nat m)) as [E|N].
    - exfalso. apply H. left. lia.
    - apply IH. intros Hin. apply H. now right.
  Qed.
  Lemma rtof_get ri m n0 mk3 : ok3 mk3 -> m3_get ri mk3 = Some (m, n0) ->
    rt_get (Z.of_nat m) (rtof mk3) = Some (n0, oord (rsym_o ri))
    /\ rt_del (Z.of_nat m) (rtof mk3) = rtof (m3_del ri mk3).
  Proof.
    intros [N1 N2]. induction mk3 as [|x r IH]; [discriminate|]. cbn [m3_get rtof map rt_get rt_del m3_del filter]. fold (rtof r).
    cbn [map] in N1, N2. inversion N1 as [|? ? Hn1 N1']; subst. inversion N2 as [|? ? Hn2 N2']; subst.
    destruct (Nat.eqb_spec (m3_ri x) ri) as [E|N].
    - intros [= <- <-]. rewrite Z.eqb_refl. subst ri. split; [reflexivity|]. cbn [negb].
      symmetry. unfold rtof. f_equal.
      apply filter_all. intros y Hy. apply negb_true_iff. apply Nat.eqb_neq. intros E. apply Hn1. rewrite <- E. now apply in_map.
    - intros Hg. cbn [negb]. 
      assert (Hm : m3_m x <> m).
      { intros E. apply Hn2. rewrite E. clear - Hg. induction r as [|y r IHr]; [discriminate|]. cbn [m3_get] in Hg.
        destruct (Nat.eqb (m3_ri y) ri); [inversion Hg; now left|right; now apply IHr]. }
      destruct (Z.eqb_spec (Z.of_nat (m3_m x)) (Z.of_nat m)) as [E|_]; [exfalso; apply Hm; lia|].
      destruct (IH N1' N2' Hg) as [A B]. split; [exact A|]. cbn [rtof map]. fold (rtof (m3_del ri r)). unfold m3_del in B |- *. now rewrite B.
  Qed.

  (** ---------------------------------------------------------------- the reader on logs *)
  Definition op_ok (seen : list Z) (L : list gop) (op : gop) : Prop :=
    match op with
    | ONode k _ => ~ In k seen /\ ~ In k (log_nodes L)
    | OEdge u v _ => (In u seen \/ In u (log_nodes L)) /\ (In v seen \/ In v (log_nodes L)) /\ u <> v
    end.
  Lemma log_wf_snoc : forall L seen op, log_wf seen L -> op_ok seen L op -> log_wf seen (L ++ [op]).
  Proof.
    induction L as [|o L IH]; intros seen op Hw Hop; cbn [app].
    - destruct op as [k a|u v z]; cbn [log_wf op_ok log_nodes flat_map] in *.
      + split; [tauto|exact I].
      + destruct Hop as ([H1|[]] & [H2|[]] & H3). auto.
    - destruct o as [k0 a0|u0 v0 z0]; cbn [log_wf] in *.
      + destruct Hw as [Hk Hw]. split; [exact Hk|]. apply IH; [exact Hw|].
        destruct op as [k a|u v z]; cbn [op_ok log_nodes flat_map app In] in *; fold (log_nodes L) in *.
        * destruct Hop as [H1 H2]. split; [intros [E|H]; [apply H2; now left|contradiction]|]. intros H. apply H2. now right.
        * destruct Hop as (H1 & H2 & H3). repeat split; [| |exact H3]; [destruct H1 as [H1|[H1|H1]]|destruct H2 as [H2|[H2|H2]]]; auto.
      + destruct Hw as (Hu & Hv & Huv & Hw). repeat split; try assumption. apply IH; [exact Hw|].
        destruct op as [k a|u v z]; cbn [op_ok log_nodes flat_map app] in *; exact Hop.
  Qed.
  Lemma log_nodes_app a b : log_nodes (a ++ b) = log_nodes a ++ log_nodes b.
  Proof. unfold log_nodes. apply flat_map_app. Qed.
  Lemma log_edges_app a b : log_edges (a ++ b) = log_edges a ++ log_edges b.
  Proof. unfold log_edges. apply flat_map_app. Qed.

  Fixpoint ring_log (cur : Z) (L : list gop) (rt : ringtab) (items : list (option sym * marker)) : option (list gop * ringtab) :=
    match items with
    | [] => Some (L, rt)
    | (o, m) :: r =>
        match rt_get (marker_val m) rt with
        | Some (n0, o0) =>
            if existsb (edge_hit cur n0) (log_edges L) || Z.eqb cur n0 || negb (memz n0 (log_nodes L)) then None
            else ring_log cur (L ++ [OEdge cur n0 o0]) (rt_del (marker_val m) rt) r
        | None => ring_log cur L (rt ++ [(marker_val m, (cur, oord o))]) r
        end
    end.
  Lemma gempty_nodes z : has_node gempty z = memz z [].
  Proof. reflexivity. Qed.
  Lemma ring_fold_log cur : forall items L rt L' rt', log_wf [] L -> In cur (log_nodes L) ->
    ring_log cur L rt items = Some (L', rt') ->
    ring_fold cur (replay L gempty) rt items = Ok (replay L' gempty, rt') /\ log_wf [] L' /\ log_nodes L' = log_nodes L.
  Proof.
    induction items as [|[o m] r IH]; intros L rt L' rt' Hw Hc H; cbn [ring_log ring_fold] in *.
    - inversion H; subst. auto.
    - destruct (rt_get (marker_val m) rt) as [[n0 o0]|].
      + destruct (existsb (edge_hit cur n0) (log_edges L)) eqn:E1; [discriminate|].
        destruct (Z.eqb_spec cur n0) as [E2|E2]; [discriminate|].
        destruct (memz n0 (log_nodes L)) eqn:E3; [|discriminate]. cbn [orb negb] in H. apply memz_true in E3.
        rewrite (replay_has_edge L gempty [] cur n0 gempty_nodes Hw), E1. cbn [has_edge gempty gfind orb].
        assert (Hw' : log_wf [] (L ++ [OEdge cur n0 o0])) by (apply log_wf_snoc; [exact Hw|cbn; auto]).
        destruct (IH (L ++ [OEdge cur n0 o0]) (rt_del (marker_val m) rt) L' rt' Hw') as (A & B & C); [|exact H|].
        * rewrite log_nodes_app. apply in_or_app. now left.
        * rewrite replay_app in A. cbn [replay fold_left apply_op] in A. split; [exact A|]. split; [exact B|].
          rewrite C, log_nodes_app. cbn. now rewrite app_nil_r.
      + now apply IH.
  Qed.

  (** writer and reader in step on the ring indices of one node *)
  Definition cl_op (c : nat * Z * Z) : gop := OEdge (snd (fst c)) (snd c) (oord (rsym_o (fst (fst c)))).
  (** the tests the reader makes for the closings of this node, against the log so far *)
  Fixpoint cl_ok (L : list gop) (cl : list (nat * Z * Z)) : bool :=
    match cl with
    | [] => true
    | c :: r => negb (existsb (edge_hit (snd (fst c)) (snd c)) (log_edges L)) && negb (Z.eqb (snd (fst c)) (snd c))
                && memz (snd c) (log_nodes L) && cl_ok (L ++ [cl_op c]) r
    end.
  Lemma ok3_snoc mk3 ri cur : ok3 mk3 -> m3_get ri mk3 = None -> ok3 (mk3 ++ [(ri, get_ring_marker (map m3_m mk3), cur)]).
  Proof.
    intros [N1 N2] Hg. unfold ok3. rewrite !map_app. cbn [map m3_ri m3_m fst snd]. split; apply nodup_snoc; try assumption.
    - clear - Hg. induction mk3 as [|x r IH]; [tauto|]. cbn [m3_get map] in *. destruct (Nat.eqb_spec (m3_ri x) ri); [discriminate|].
      intros [E|H]; [congruence|now apply IH].
    - apply (get_ring_marker_spec (map m3_m mk3)).
  Qed.
  Lemma ok3_del mk3 ri : ok3 mk3 -> ok3 (m3_del ri mk3).
  Proof. intros [N1 N2]. unfold ok3, m3_del. split; now apply nodup_map_filter'. Qed.

  Lemma ring_sync cur : forall ris a mk3 L, ok3 mk3 ->
    let items := snd (ring_items a (proj3 mk3) ris) in
    let '(mk3', cl) := wsim cur mk3 ris in
    cl_ok L cl = true ->
    ring_log cur L (rtof mk3) items = Some (L ++ map cl_op cl, rtof mk3') /\ ok3 mk3'.
  Proof.
    induction ris as [|ri r IH]; intros a mk3 L Hok; cbn [RingRead.ring_items wsim].
    - cbn. intros _. now rewrite app_nil_r.
    - rewrite proj3_get. destruct (m3_get ri mk3) as [[m n0]|] eqn:Hg; cbn [option_map fst].
      + rewrite proj3_del. specialize (IH (a || (10 <=? m)%nat) (m3_del ri mk3) (L ++ [cl_op (ri, cur, n0)]) (ok3_del mk3 ri Hok)).
        destruct (ring_items (a || (10 <=? m)%nat) (proj3 (m3_del ri mk3)) r) as [mk2 it2]. cbn [snd] in *.
        destruct (wsim cur (m3_del ri mk3) r) as [mk3' cl]. cbn [cl_ok fst snd]. intros H.
        apply andb_prop in H as [H H4]. apply andb_prop in H as [H H3]. apply andb_prop in H as [H1 H2].
        cbn [ring_log]. rewrite mrep_val. destruct (rtof_get ri m n0 mk3 Hok Hg) as [G1 G2]. rewrite G1.
        apply negb_true_iff in H1, H2. rewrite H1, H2, H3. cbn [orb negb]. rewrite G2.
        destruct (IH H4) as [A B]. unfold cl_op at 1 in A. cbn [fst snd] in A. rewrite A. split; [|exact B].
        cbn [map]. rewrite <- app_assoc. reflexivity.
      + rewrite proj3_snd. set (a' := a || (10 <=? get_ring_marker (map m3_m mk3))%nat).
        specialize (IH a' (mk3 ++ [(ri, get_ring_marker (map m3_m mk3), cur)]) L (ok3_snoc mk3 ri cur Hok Hg)).
        unfold proj3 in IH at 1. rewrite map_app in IH. cbn [map m3_ri m3_m fst snd] in IH. fold (proj3 mk3) in IH.
        destruct (ring_items a' (proj3 mk3 ++ [(ri, get_ring_marker (map m3_m mk3))]) r) as [mk2 it2]. cbn [snd] in *.
        destruct (wsim cur (mk3 ++ [(ri, get_ring_marker (map m3_m mk3), cur)]) r) as [mk3' cl]. intros H.
        cbn [ring_log]. rewrite mrep_val.
        rewrite rtof_get_fresh by (apply (get_ring_marker_spec (map m3_m mk3))).
        destruct (IH H) as [A B]. split; [|exact B]. rewrite <- A. f_equal.
        unfold rtof. rewrite map_app. reflexivity.
  Qed.
End Sim.
