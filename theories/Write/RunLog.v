(** RunLog: the flat machine run (FlatMachine.run_flat) as a log of graph operations, and the same log computed
    from the WRITER's side alone ([xlog]: nodes, tree edges, and the ring closings the writer's table predicts). *)
From Coq Require Import String.
From Coq Require Import List Ascii ZArith Bool Lia.
From CGV Require Import Base.PyBase Base.PyVal Base.PyGen Base.NxGraph Dialect.DialectImpl.
From CGV Require Import Write.WriteImpl Write.TreeDefs Write.TreeWrite Write.RingDefs Write.RingMarkers Write.RingRead
     Write.GraphOps Write.FlatMachine Write.FlatSpec Write.RingSim.
From CGV Require Import Reader.Grammar.
Import ListNotations.
Open Scope Z_scope.

Section RunLog.
  Variable A : Z -> attrs.
  Variable rlist : Z -> list nat.
  Variable rsym_o : nat -> option sym.

  Definition node_log (L : list gop) (r : frec) : option (list gop) :=
    if memz (f_new r) (log_nodes L) then None
    else match f_par r with
         | Some p => if memz (snd p) (log_nodes L) then Some (L ++ [ONode (f_new r) (A (f_old r)); OEdge (snd p) (f_new r) (f_pend r)]) else None
         | None => Some (L ++ [ONode (f_new r) (A (f_old r))])
         end.
  Fixpoint run_log (L : list gop) (rt : ringtab) (fl : list frec) : option (list gop * ringtab) :=
    match fl with
    | [] => Some (L, rt)
    | r :: rest =>
        match node_log L r with
        | None => None
        | Some L2 => match ring_log (f_new r) L2 rt (f_rings r) with
                     | None => None
                     | Some (L3, rt3) => run_log L3 rt3 rest
                     end
        end
    end.

  Lemma node_log_ok L r L2 : log_wf [] L -> node_log L r = Some L2 ->
    log_wf [] L2 /\ In (f_new r) (log_nodes L2)
    /\ replay L2 gempty = (let g1 := add_node (replay L gempty) (f_new r) (A (f_old r)) in
                           match f_par r with Some p => add_edge g1 (snd p) (f_new r) (eorder (f_pend r)) | None => g1 end).
  Proof.
    intros Hw H. unfold node_log in H. destruct (memz (f_new r) (log_nodes L)) eqn:E; [discriminate|].
    apply memz_false_iff in E. destruct (f_par r) as [p|].
    - destruct (memz (snd p) (log_nodes L)) eqn:Ep; [|discriminate]. apply memz_true in Ep. inversion H; subst L2. clear H.
      change (L ++ [ONode (f_new r) (A (f_old r)); OEdge (snd p) (f_new r) (f_pend r)])
        with (L ++ [ONode (f_new r) (A (f_old r))] ++ [OEdge (snd p) (f_new r) (f_pend r)]).
      rewrite app_assoc. repeat split.
      + apply log_wf_snoc; [apply log_wf_snoc; [exact Hw|cbn; tauto]|]. cbn [op_ok]. rewrite log_nodes_app. cbn [log_nodes flat_map app].
        repeat split.
        * right. apply in_or_app. now left.
        * right. apply in_or_app. right. now left.
        * intros E2. apply E. now rewrite <- E2.
      + rewrite !log_nodes_app. cbn. apply in_or_app. left. apply in_or_app. right. now left.
      + rewrite !replay_app. reflexivity.
    - inversion H; subst L2. repeat split.
      + apply log_wf_snoc; [exact Hw|cbn; tauto].
      + rewrite log_nodes_app. cbn. apply in_or_app. right. now left.
      + rewrite replay_app. reflexivity.
  Qed.

  (** the machine's flat run IS the replay of the log *)
  Theorem run_flat_log : forall fl L rt L' rt', log_wf [] L -> run_log L rt fl = Some (L', rt') ->
    run_flat A (replay L gempty) rt fl = Ok (replay L' gempty, rt') /\ log_wf [] L'.
  Proof.
    induction fl as [|r rest IH]; intros L rt L' rt' Hw H; cbn [run_log run_flat] in *.
    - inversion H; subst. auto.
    - destruct (node_log L r) as [L2|] eqn:E2; [|discriminate].
      destruct (node_log_ok L r L2 Hw E2) as (W2 & C2 & G2).
      destruct (ring_log (f_new r) L2 rt (f_rings r)) as [[L3 rt3]|] eqn:E3; [|discriminate].
      destruct (ring_fold_log (f_new r) (f_rings r) L2 rt L3 rt3 W2 C2 E3) as (F3 & W3 & _).
      cbv zeta in G2. rewrite <- G2, F3. cbn [bind fst snd]. now apply IH.
  Qed.

  (** ---------------------------------------------------------------- the log predicted by the writer *)
  Definition tree_ops (r : frec) : list gop :=
    ONode (f_new r) (A (f_old r)) :: match f_par r with Some p => [OEdge (snd p) (f_new r) (f_pend r)] | None => [] end.
  Fixpoint xlog (L : list gop) (mk3 : marks3) (fl : list frec) : list gop * marks3 :=
    match fl with
    | [] => (L, mk3)
    | r :: rest => let '(mk3a, cl) := wsim (f_new r) mk3 (rlist (f_old r)) in
                   xlog (L ++ tree_ops r ++ map (cl_op rsym_o) cl) mk3a rest
    end.
  (** all the tests of the run, stated on the writer's prediction *)
  Fixpoint xok (L : list gop) (mk3 : marks3) (fl : list frec) : bool :=
    match fl with
    | [] => true
    | r :: rest =>
        negb (memz (f_new r) (log_nodes L))
        && match f_par r with Some p => memz (snd p) (log_nodes L) | None => true end
        && (let '(mk3a, cl) := wsim (f_new r) mk3 (rlist (f_old r)) in
            cl_ok rsym_o (L ++ tree_ops r) cl && xok (L ++ tree_ops r ++ map (cl_op rsym_o) cl) mk3a rest)
    end.

  Theorem run_log_sync : forall fl L mk3, ok3 mk3 ->
    map f_rings fl = fst (rflat rlist rsym_o (proj3 mk3) (map f_old fl)) ->
    xok L mk3 fl = true ->
    run_log L (rtof rsym_o mk3) fl = Some (fst (xlog L mk3 fl), rtof rsym_o (snd (xlog L mk3 fl))).
  Proof.
    induction fl as [|r rest IH]; intros L mk3 Hok Hr Hx; [reflexivity|].
    cbn [map rflat] in Hr. cbn [xok xlog run_log] in *.
    pose proof (wsim_items rsym_o (f_new r) (rlist (f_old r)) false mk3) as Hi.
    pose proof (ring_sync rsym_o (f_new r) (rlist (f_old r)) false mk3 (L ++ tree_ops r) Hok) as Hs. cbv zeta in Hs.
    destruct (ring_items rsym_o false (proj3 mk3) (rlist (f_old r))) as [mk1 rs]. cbn [fst snd] in *.
    destruct (wsim (f_new r) mk3 (rlist (f_old r))) as [mk3a cl]. cbn [fst] in Hi. subst mk1.
    destruct (rflat rlist rsym_o (proj3 mk3a) (map f_old rest)) as [lr mkr] eqn:Er. cbn [fst] in Hr.
    inversion Hr as [[Hr1 Hr2]]. 
    apply andb_prop in Hx as [Hx Hx3]. apply andb_prop in Hx as [Hx1 Hx2]. apply andb_prop in Hx3 as [Hc Hx4].
    apply negb_true_iff in Hx1.
    assert (En : node_log L r = Some (L ++ tree_ops r)).
    { unfold node_log, tree_ops. rewrite Hx1. destruct (f_par r) as [p|]; [rewrite Hx2|]; reflexivity. }
    rewrite En. rewrite Hr1. destruct (Hs Hc) as [S1 S2]. rewrite S1.
    rewrite <- app_assoc. apply IH; [exact S2| |exact Hx4]. rewrite Er. exact Hr2.
  Qed.
End RunLog.
