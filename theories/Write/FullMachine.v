(** FullMachine: the token machine's denotation of the writer's item list, for a DFS tree T with rings:
    it is the replay of a log whose nodes, tree edges and ring edges are exactly those of the transcript. *)
From Coq Require Import String.
From Coq Require Import List Ascii ZArith Bool Lia.
From CGV Require Import Base.PyBase Base.PyVal Base.PyGen Base.NxGraph Dialect.DialectImpl.
From CGV Require Import Write.WriteImpl Write.TreeDefs Write.TreeWrite Write.TreeTables Write.RingDefs Write.RingTables Write.RingMarkers
     Write.RingClose Write.TreeRead Write.RingRead Write.GraphOps Write.FlatMachine Write.FlatSpec Write.RingSim Write.RunLog Write.RingFacts Write.RingInv.
From CGV Require Import Reader.ReaderImpl Reader.Grammar Reader.Lin Reader.ReaderSim.
Import ListNotations.
Open Scope Z_scope.

Section Full.
  Variable fo : float_oracle.
  Variable name : Z -> pystr.
  Variable esym : Z -> Z -> option sym.
  Variable rsym_o : nat -> option sym.
  Variable A : Z -> attrs.
  Variables (T : rtree) (tr : list (Z * Z)).
  Hypothesis Hparse : forall k, parse_graph_base_node fo (name k) = Ok (A k).
  Hypothesis ND : NoDup (rkeys T).
  (** the contract on the ring transcript *)
  Hypothesis C1 : forall e, In e tr -> fst e <> snd e /\ In (fst e) (rkeys T) /\ In (snd e) (rkeys T).
  Hypothesis C2 : nodup_edges tr = true.
  Hypothesis C3 : forall e te, In e tr -> In te (redges T) -> same_edge e te = false.

  Let rlist := rlist_of tr.
  Definition the_flat : list frec := fst (tflat esym rlist rsym_o [] 0 None 1 T).
  Definition the_items : list lin := fst (tlinsR name esym rlist rsym_o false 0 None [] T).
  Definition the_log : list gop := fst (xlog A rlist rsym_o [] [] the_flat).

  Lemma flat_old : map f_old the_flat = worder T.
  Proof. apply (tflat_spec esym rlist rsym_o T [] 0 None 1). Qed.
  Lemma flat_new : map f_new the_flat = zseq 0 (length the_flat).
  Proof.
    destruct (tflat_spec esym rlist rsym_o T [] 0 None 1) as (A1 & A2 & _). unfold the_flat. rewrite A2. f_equal.
    rewrite <- (map_length f_old), A1. symmetry. apply rsize_worder.
  Qed.
  Lemma flat_in_old x : In x (map f_old the_flat) <-> In x (rkeys T).
  Proof. rewrite flat_old. apply worder_in. Qed.

  Lemma flat_hyps :
    NoDup (map f_old the_flat)
    /\ match the_flat with r0 :: _ => f_par r0 = None | [] => True end
    /\ (forall r, In r (tl the_flat) -> exists r', In r' the_flat /\ f_par r = Some (f_old r', f_new r') /\ In (f_old r', f_old r) (redges T)
                                                  /\ f_new r' < f_new r)
    /\ (forall e, In e tr -> fst e <> snd e /\ In (fst e) (map f_old the_flat) /\ In (snd e) (map f_old the_flat)).
  Proof.
    split; [rewrite flat_old; now apply worder_nodup|]. split; [|split].
    - unfold the_flat. destruct (tflat_head esym rlist rsym_o T [] 0 None 1) as [rs [rest ->]]. reflexivity.
    - intros r Hr. destruct (tflat_parents esym rlist rsym_o T [] 0 None 1 r Hr) as [r' (B1 & B2 & B3 & _ & B5)].
      exists r'. auto.
    - intros e He. destruct (C1 e He) as (D1 & D2 & D3). rewrite !flat_in_old. auto.
  Qed.

  (** the run succeeds, leaves no open ring, and is the replay of [the_log] *)
  Theorem machine_full :
    denote_lin fo the_items = Ok (replay the_log gempty)
    /\ log_wf [] the_log
    /\ Inv rsym_o tr the_flat the_log [].
  Proof.
    destruct flat_hyps as (HW & Hh & Hp & HC1).
    destruct (run_inv A rsym_o tr (redges T) the_flat HW flat_new Hh Hp HC1 C2 C3 the_flat [] [] [] eq_refl (inv_init rsym_o tr)) as [Hok HI].
    fold the_log in HI.
    (* no ring stays open *)
    assert (Hmk : snd (xlog A (rlist_of tr) rsym_o [] [] the_flat) = []).
    { apply m3_all_none. intros ri. pose proof (i_tab _ _ _ _ _ HI ri) as K.
      destruct (ms tr ri the_flat) as [|n0 [|c [|d l]]] eqn:Em; try exact K; try contradiction. exfalso.
      (* met once only: impossible, both ends are written *)
      assert (H0 : In n0 (ms tr ri the_flat)) by (rewrite Em; now left).
      apply (ms_in tr ri the_flat n0) in H0 as [r0 (R0 & E0 & M0)]. apply meets_iff in M0 as (a & b & Iab & Kab).
      destruct (HC1 (a, b) (ring_item_in tr ri _ Iab)) as (Dab & Da & Db). cbn [fst snd] in *.
      apply in_map_iff in Da as [ra [Ea Ra]]. apply in_map_iff in Db as [rb [Eb Rb]].
      assert (Ma : meets tr ri ra = true) by (apply memn_true; apply meets_iff; exists a, b; rewrite Ea; auto).
      assert (Mb : meets tr ri rb = true) by (apply memn_true; apply meets_iff; exists a, b; rewrite Eb; auto).
      assert (Hab : ra <> rb) by (intros E; subst rb; congruence).
      assert (Hl : (2 <= length (filter (meets tr ri) the_flat))%nat).
      { clear - Ra Rb Ma Mb Hab. induction the_flat as [|x l IH]; [contradiction|]. cbn [filter].
        destruct Ra as [->|Ra], Rb as [->|Rb]; try congruence.
        - rewrite Ma. cbn [length]. assert (In rb (filter (meets tr ri) l)) by (apply filter_In; auto). destruct (filter (meets tr ri) l); [contradiction|cbn; lia].
        - rewrite Mb. cbn [length]. assert (In ra (filter (meets tr ri) l)) by (apply filter_In; auto). destruct (filter (meets tr ri) l); [contradiction|cbn; lia].
        - specialize (IH Ra Rb). destruct (meets tr ri x); cbn [length]; lia. }
      unfold ms in Em. apply (f_equal (@length Z)) in Em. rewrite map_length in Em. cbn in Em. lia. }
    rewrite Hmk in HI.
    (* the machine *)
    assert (Hr : map f_rings the_flat = fst (rflat (rlist_of tr) rsym_o (proj3 []) (map f_old the_flat))).
    { rewrite flat_old. apply (tflat_spec esym (rlist_of tr) rsym_o T [] 0 None 1). }
    pose proof (run_log_sync A (rlist_of tr) rsym_o the_flat [] [] (conj (NoDup_nil _) (NoDup_nil _)) Hr Hok) as Hs.
    fold the_log in Hs. rewrite Hmk in Hs. cbn [rtof map] in Hs.
    destruct (run_flat_log A the_flat [] [] the_log [] I Hs) as [Hf Hw].
    split; [|split; [exact Hw|exact HI]].
    unfold denote_lin, the_items, rlist. change m_init with (mkm gempty 0 (prevk None) 1 [] []).
    rewrite (machine_flat fo name esym (rlist_of tr) rsym_o A Hparse T false 0%nat None [] gempty 0 None 1 [] [] eq_refl).
    change (fst (tflat esym (rlist_of tr) rsym_o [] 0 None 1 T)) with the_flat. change (replay [] gempty) with gempty in Hf. rewrite Hf. reflexivity.
  Qed.
End Full.
