(** WriteDefs: definitions used by the statements of C07/C08 and by the executable oracle
    (domain predicate, defect-class predicates, isomorphism by witness).  NO proofs. *)
From Coq Require Import String.
From Coq Require Import List Ascii ZArith Bool.
From CGV Require Import Base.PyBase Base.PyVal Base.PyGen Base.NxGraph Gen.WriterGen Write.WriteImpl.
Import ListNotations.
Open Scope Z_scope.

(** ------------------------------------------------------------------ domain of C07 *)
(** names the generators use (Appendix A): non-empty, [A-Za-z0-9_]+ *)
Definition name_char (c : ascii) : bool := is_alnum c || Ascii.eqb c "_"%char.
Definition valid_name (s : pystr) : bool := match s with [] => false | _ => forallb name_char s end.
Definition node_name (g : graph) (k : Z) : option pystr :=
  match node_get g k (S "fragname") with Some (VStr s) => Some s | _ => None end.
Definition int_order (a : attrs) : option Z := match aget (S "order") a with Some (VInt z) => Some z | _ => None end.
(** well-formed networkx graph: distinct node keys, adjacency symmetric with the same attribute
    dict on both sides, neighbours are nodes, no self loops *)
Fixpoint nodupz (l : list Z) : bool := match l with [] => true | x :: r => negb (memz x r) && nodupz r end.
Definition graph_wf (g : graph) : bool :=
  nodupz (node_keys g)
  && forallb (fun n => nodupz (map fst (nadj n))
                       && forallb (fun wa => negb (Z.eqb (fst wa) (nk n))
                                             && match edge_attrs g (fst wa) (nk n) with
                                                | Ok d => attrs_eqb_ordered d (snd wa) | Err _ => false end) (nadj n)) g.
(** C07's quantifier: connected, every node a valid name, every edge an integer order 0..4 *)
Definition wf_C07 (g : graph) : bool :=
  match g with [] => false | _ => true end
  && graph_wf g && connected g
  && forallb (fun n => match aget (S "fragname") (na n) with Some (VStr s) => valid_name s | _ => false end
                       && negb (ahas (S "bonding") (na n))) g
  && forallb (fun e => match int_order (snd e) with Some o => (0 <=? o) && (o <=? 4) | None => false end) (edges_data g).

(** ------------------------------------------------------------------ defect classes (on the input) *)
Definition order_not_single (g : graph) (e : Z * Z) : bool :=
  match edge_order g (fst e) (snd e) with Ok o => negb (num_is o 1) | Err _ => false end.
Definition dfs_tree (g : graph) : list (Z * Z) :=
  match min_node g with
  | Ok start => match dfs_edges g start with Ok t => t | Err _ => [] end
  | Err _ => []
  end.
(** (repaired) former class 1: a BRANCH edge of the DFS tree (a tree edge to a child that is not the first child of
    its parent) has an order other than 1: the writer puts the symbol inside the parenthesis *)
Definition cls_branch_order (g : graph) : bool :=
  existsb (fun ks => existsb (fun c => order_not_single g (fst ks, c)) (tl (snd ks))) (succ_of (dfs_tree g)).
(** (repaired) former class 2: an edge outside the DFS tree (ring-closing edge) has an order other than 1:
    write_graph(smiles_format=False) never writes it *)
Definition cls_ring_order (g : graph) : bool :=
  existsb (order_not_single g) (nontree_edges g (dfs_tree g)).
(** class 3: some node gets a two-digit marker `%nn` directly followed by a one-digit marker
    (the reader reads the digits after `%` greedily: `%103` is marker 103).  Depends on the marker
    allocation, hence on the transcript. *)
Fixpoint pct_then_digit (ms : list nat) : bool :=
  match ms with
  | a :: ((b :: _) as r) => ((10 <=? a)%nat && (b <? 10)%nat) || pct_then_digit r
  | _ => false
  end.
Definition cls_pct_marker (g : graph) (tr : list (Z * Z)) : bool :=
  match write_graph_full false (fun _ => true) g tr with
  | Ok r => existsb (fun km => pct_then_digit (snd km)) (r_mtrace r)
  | Err _ => false
  end.
(** 0 = outside every class.  Classes 1 (branch_edge_order), 2 (ring_edge_order) and 3 (pct_marker_then_digit)
    were REPAIRED in /repo (fix commits be4ff6e, dd9a0c2 and b681517): their predicates above are kept only to
    describe the corpus witnesses; they excuse nothing any more.  No class of C07 is open. *)
Definition class_C07 (g : graph) (tr : list (Z * Z)) : nat := 0%nat.

(** ------------------------------------------------------------------ isomorphism by witness *)
(** what is compared: names of nodes, integer orders of edges *)
Definition named_graph := (list (Z * pystr) * list (Z * Z * Z))%type.
Definition observe_named (g : graph) : option named_graph :=
  let ns := map (fun n => match aget (S "fragname") (na n) with Some (VStr s) => Some (nk n, s) | _ => None end) g in
  let es := map (fun e => match int_order (snd e) with Some o => Some (fst e, o) | None => None end) (edges_data g) in
  if forallb (fun x => match x with Some _ => true | None => false end) ns
     && forallb (fun x => match x with Some _ => true | None => false end) es
  then Some (flat_map (fun x => match x with Some y => [y] | None => [] end) ns,
             flat_map (fun x => match x with Some y => [y] | None => [] end) es)
  else None.
Fixpoint zassoc {A} (k : Z) (l : list (Z * A)) : option A :=
  match l with [] => None | (k', v) :: r => if Z.eqb k k' then Some v else zassoc k r end.
Definition edge_order_in (es : list (Z * Z * Z)) (u v : Z) : option Z :=
  match find (fun e => same_edge (fst e) (u, v)) es with Some e => Some (snd e) | None => None end.
(** [m] maps the nodes of [a] to nodes of [b]: total, injective, name preserving, every edge of [a]
    is an edge of [b] with the same order, and both have the same numbers of nodes and edges
    (so [m] is an isomorphism of simple graphs) *)
Definition iso_by (a b : named_graph) (m : list (Z * Z)) : bool :=
  Nat.eqb (length (fst a)) (length (fst b)) && Nat.eqb (length (snd a)) (length (snd b))
  && nodupz (map fst (fst b)) && nodup_edges (map fst (snd b))
  && nodupz (flat_map (fun kn => match zassoc (fst kn) m with Some x => [x] | None => [] end) (fst a))
  && forallb (fun kn => match zassoc (fst kn) m with
                        | Some x => match zassoc x (fst b) with Some nm => str_eqb nm (snd kn) | None => false end
                        | None => false end) (fst a)
  && forallb (fun e => let '(u, v, o) := e in
                       match zassoc u m, zassoc v m with
                       | Some x, Some y => match edge_order_in (snd b) x y with Some o' => Z.eqb o o' | None => false end
                       | _, _ => false end) (snd a).
(** the numbering a reader gives: nodes in the order they are written *)
Definition canonical_map (visit : list Z) : list (Z * Z) :=
  combine visit (map Z.of_nat (seq 0 (length visit))).
