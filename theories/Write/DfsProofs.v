(** DfsProofs: the Gallina model of networkx dfs_successors ([dfs_visit], WriteImpl.v) on ARBITRARY graphs.
    1. [dfs_shape]: whenever it returns, the transcript is a rose tree T rooted at the start node:
       dfs_edges = redges T, dfs_visited = rkeys T, keys distinct, every tree edge is a graph edge, and the
       visited set is closed under neighbours.
    2. [dfs_total]: on a well-formed graph it always returns (the depth fuel, number of nodes + 1, suffices).
    3. [dfs_spanning]: hence every node reachable from the start is visited exactly once; on a connected graph
       the visited list is a duplicate-free enumeration of all nodes, and every non-root node has exactly one
       predecessor. *)
From Coq Require Import String.
From Coq Require Import List Ascii ZArith Bool Lia.
From CGV Require Import Base.PyBase Base.PyVal Base.PyGen Base.NxGraph Write.WriteImpl Write.TreeDefs Write.TreeWrite Write.TreeTables.
Import ListNotations.
Open Scope Z_scope.

Lemma nodup_app_intro {A} (a b : list A) : NoDup a -> NoDup b -> (forall x, In x a -> ~ In x b) -> NoDup (a ++ b).
Proof.
  induction a as [|x a IH]; intros Ha Hb Hd; [exact Hb|]. cbn. inversion Ha; subst. constructor.
  - intros Hin. apply in_app_or in Hin as [Hin|Hin]; [contradiction|]. apply (Hd x); [now left|assumption].
  - apply IH; [assumption|assumption|]. intros y Hy. apply Hd. now right.
Qed.
Definition fedges (u : Z) (cs : list rtree) : list (Z * Z) := flat_map (fun c => (u, rkey c) :: redges c) cs.
Definition dfs_step (fuel : nat) (g : graph) (u : Z) (acc : res dfs_state) (v : Z) : res dfs_state :=
  st' <- acc ;; if memz v (fst st') then Ok st' else dfs_visit fuel g v (v :: fst st', (u, v) :: snd st').

Lemma dfs_visit_unfold fuel g u st :
  dfs_visit (Datatypes.S fuel) g u st = fold_left (dfs_step fuel g u) (neighbors g u) (Ok st).
Proof. reflexivity. Qed.
Lemma fold_err fuel g u l e : fold_left (dfs_step fuel g u) l (Err e) = Err e.
Proof. induction l as [|v l IH]; [reflexivity|]. cbn [fold_left]. exact IH. Qed.

(** what the children list [cs] of [u] (built from the candidate list [l]) satisfies *)
Definition spec (g : graph) (u : Z) (l : list Z) (vis : list Z) (es : list (Z * Z)) (vis' : list Z) (es' : list (Z * Z))
           (cs : list rtree) : Prop :=
  es' = rev (fedges u cs) ++ es
  /\ vis' = rev (flat_map rkeys cs) ++ vis
  /\ NoDup (flat_map rkeys cs)
  /\ (forall x, In x (flat_map rkeys cs) -> ~ In x vis)
  /\ (forall e, In e (fedges u cs) -> In (snd e) (neighbors g (fst e)))
  /\ (forall x, In x (flat_map rkeys cs) -> forall y, In y (neighbors g x) -> In y vis')
  /\ (forall y, In y l -> In y vis').

Lemma fedges_app u a b : fedges u (a ++ b) = fedges u a ++ fedges u b.
Proof. unfold fedges. apply flat_map_app. Qed.

Theorem dfs_shape_gen g : forall fuel u vis es vis' es',
  dfs_visit fuel g u (vis, es) = Ok (vis', es') -> exists cs, spec g u (neighbors g u) vis es vis' es' cs.
Proof.
  induction fuel as [|fuel IH]; intros u vis es vis' es' H; [discriminate|].
  rewrite dfs_visit_unfold in H.
  (* the fold over the neighbours, generalised *)
  assert (G : forall l, incl l (neighbors g u) -> forall vis es vis' es',
              fold_left (dfs_step fuel g u) l (Ok (vis, es)) = Ok (vis', es') -> exists cs, spec g u l vis es vis' es' cs).
  { clear H vis es vis' es'. induction l as [|v l IHl]; intros Hl vis es vis' es' H.
    - cbn in H. inversion H; subst. exists []. unfold spec, fedges. cbn [flat_map rev app].
      split; [reflexivity|]. split; [reflexivity|]. split; [constructor|].
      split; [intros x []|]. split; [intros e []|]. split; [intros x []|intros y []].
    - assert (Hl' : incl l (neighbors g u)) by (intros y Hy; apply Hl; now right).
      cbn [fold_left] in H. unfold dfs_step at 2 in H. cbn [bind fst snd] in H.
      destruct (memz v vis) eqn:Ev.
      + (* already visited *)
        destruct (IHl Hl' _ _ _ _ H) as [cs (S1 & S2 & S3 & S4 & S5 & S6 & S7)]. exists cs. unfold spec. repeat split; try assumption.
        intros y [<-|Hy]; [|now apply S7]. rewrite S2. apply in_or_app. right. now apply memz_true.
      + (* a new child *)
        destruct (dfs_visit fuel g v (v :: vis, (u, v) :: es)) as [[vis1 es1]|e] eqn:Ec; [|rewrite fold_err in H; discriminate].
        destruct (IH _ _ _ _ _ Ec) as [cs1 (A1 & A2 & A3 & A4 & A5 & A6 & A7)].
        destruct (IHl Hl' _ _ _ _ H) as [cs (S1 & S2 & S3 & S4 & S5 & S6 & S7)].
        apply memz_false_iff in Ev.
        exists (RNode v cs1 :: cs). unfold spec.
        assert (Hsub : forall x, In x vis1 -> In x vis') by (intros x Hx; rewrite S2; apply in_or_app; now right).
        assert (Hv1 : In v vis1) by (rewrite A2; apply in_or_app; right; now left).
        cbn [flat_map rkeys]. change (fedges u (RNode v cs1 :: cs)) with (((u, v) :: fedges v cs1) ++ fedges u cs).
        repeat split.
        * rewrite S1, A1. rewrite rev_app_distr. cbn [rev]. rewrite <- !app_assoc. reflexivity.
        * rewrite S2, A2. rewrite rev_app_distr. cbn [rev]. rewrite <- !app_assoc. reflexivity.
        * (* NoDup (v :: keys cs1 ++ keys cs) *)
          apply NoDup_cons.
          -- intros Hin. apply in_app_or in Hin as [Hin|Hin]; [apply (A4 v Hin); now left|].
             apply (S4 v Hin). exact Hv1.
          -- apply nodup_app_intro; [exact A3|exact S3|].
             intros x Hx Hin. apply (S4 x Hin). rewrite A2. apply in_or_app. left. now apply -> in_rev.
        * intros x [<-|Hx]; [exact Ev|]. apply in_app_or in Hx as [Hx|Hx].
          -- intros Hin. apply (A4 x Hx). now right.
          -- intros Hin. apply (S4 x Hx). rewrite A2. apply in_or_app. right. now right.
        * intros e [<-|He].
          -- cbn [fst snd]. apply Hl. now left.
          -- apply in_app_or in He as [He|He]; [now apply A5|now apply S5].
        * intros x [<-|Hx] y Hy.
          -- apply Hsub. now apply A7.
          -- apply in_app_or in Hx as [Hx|Hx]; [apply Hsub; now apply (A6 x Hx)|now apply (S6 x Hx)].
        * intros y [<-|Hy]; [now apply Hsub|now apply S7]. }
  exact (G _ (incl_refl _) _ _ _ _ H).
Qed.

(** ------------------------------------------------------------------ 1. the transcript is a rose tree *)
Theorem dfs_shape g start es : dfs_edges g start = Ok es ->
  exists T, rkey T = start /\ es = redges T /\ dfs_visited g start = Ok (rkeys T) /\ NoDup (rkeys T)
            /\ (forall e, In e (redges T) -> In (snd e) (neighbors g (fst e)))
            /\ (forall x, In x (rkeys T) -> forall y, In y (neighbors g x) -> In y (rkeys T)).
Proof.
  unfold dfs_edges, dfs_visited. intros H.
  destruct (dfs_visit (Datatypes.S (length g)) g start ([start], [])) as [[vis' es']|e] eqn:E; [|discriminate].
  cbn [bind snd fst] in *. inversion H; subst es. clear H.
  destruct (dfs_shape_gen g _ _ _ _ _ _ E) as [cs (S1 & S2 & S3 & S4 & S5 & S6 & S7)].
  exists (RNode start cs). cbn [rkey rkeys redges]. fold (fedges start cs).
  rewrite S1, S2, app_nil_r, rev_involutive, rev_app_distr, rev_involutive. cbn [rev app].
  repeat split; try assumption.
  - constructor; [|exact S3]. intros Hin. apply (S4 start Hin). now left.
  - intros x [<-|Hx] y Hy.
    + specialize (S7 y Hy). rewrite S2 in S7. apply in_app_or in S7 as [S7|[<-|[]]]; [right; now apply in_rev|now left].
    + specialize (S6 x Hx y Hy). rewrite S2 in S6. apply in_app_or in S6 as [S6|[<-|[]]]; [right; now apply in_rev|now left].
Qed.

(** ------------------------------------------------------------------ 2. the depth fuel suffices *)
Definition adj_closed (g : graph) : Prop := forall x y, In y (neighbors g x) -> In y (node_keys g).

Lemma fedges_snd u cs : map snd (fedges u cs) = flat_map rkeys cs.
Proof.
  unfold fedges. induction cs as [|c r IH]; [reflexivity|]. cbn [flat_map]. rewrite map_app. cbn [map snd].
  rewrite IH, redges_snd. destruct c as [k cc]. reflexivity.
Qed.
Lemma spec_post g u l vis es vis' es' cs : adj_closed g -> spec g u l vis es vis' es' cs ->
  NoDup vis -> incl vis (node_keys g) ->
  NoDup vis' /\ incl vis' (node_keys g) /\ (length vis <= length vis')%nat.
Proof.
  intros Hc (S1 & S2 & S3 & S4 & S5 & S6 & S7) ND Hi. subst vis'. repeat split.
  - apply nodup_app_intro; [now apply NoDup_rev|exact ND|]. intros x Hx. apply S4. now apply in_rev.
  - intros x Hx. apply in_app_or in Hx as [Hx|Hx]; [|now apply Hi]. apply in_rev in Hx.
    rewrite <- (fedges_snd u) in Hx. apply in_map_iff in Hx as [e [<- He]]. apply (Hc (fst e)). now apply S5.
  - rewrite app_length. lia.
Qed.

Theorem dfs_total_gen g : adj_closed g -> NoDup (node_keys g) ->
  forall fuel u vis es, NoDup vis -> incl vis (node_keys g) -> (length (node_keys g) < fuel + length vis)%nat ->
    exists st, dfs_visit fuel g u (vis, es) = Ok st.
Proof.
  intros Hc Hn. induction fuel as [|fuel IH]; intros u vis es ND Hi Hlen.
  - exfalso. pose proof (NoDup_incl_length ND Hi). lia.
  - rewrite dfs_visit_unfold.
    assert (G : forall l, incl l (neighbors g u) -> forall vis es, NoDup vis -> incl vis (node_keys g) ->
                (length (node_keys g) < Datatypes.S fuel + length vis)%nat ->
                exists st, fold_left (dfs_step fuel g u) l (Ok (vis, es)) = Ok st).
    { clear vis es ND Hi Hlen. induction l as [|v l IHl]; intros Hl vis es ND Hi Hlen; [eexists; reflexivity|].
      assert (Hl' : incl l (neighbors g u)) by (intros y Hy; apply Hl; now right).
      cbn [fold_left]. unfold dfs_step at 2. cbn [bind fst snd].
      destruct (memz v vis) eqn:Ev; [now apply IHl|].
      apply memz_false_iff in Ev.
      assert (Hv : In v (node_keys g)) by (apply (Hc u); apply Hl; now left).
      assert (ND1 : NoDup (v :: vis)) by (constructor; assumption).
      assert (Hi1 : incl (v :: vis) (node_keys g)) by (intros x [<-|Hx]; [assumption|now apply Hi]).
      destruct (IH v (v :: vis) ((u, v) :: es) ND1 Hi1) as [[vis1 es1] E]; [cbn [length]; lia|].
      rewrite E.
      destruct (dfs_shape_gen g _ _ _ _ _ _ E) as [cs1 Hs].
      destruct (spec_post g v _ _ _ _ _ cs1 Hc Hs ND1 Hi1) as (ND2 & Hi2 & Hlen2).
      apply IHl; [assumption|assumption|assumption|]. cbn [length] in Hlen2. lia. }
    exact (G _ (incl_refl _) vis es ND Hi Hlen).
Qed.
Theorem dfs_total g start : adj_closed g -> NoDup (node_keys g) -> In start (node_keys g) ->
  exists es, dfs_edges g start = Ok es.
Proof.
  intros Hc Hn Hs. unfold dfs_edges.
  destruct (dfs_total_gen g Hc Hn (Datatypes.S (length g)) start [start] []) as [st E].
  - constructor; [tauto|constructor].
  - intros x [<-|[]]. exact Hs.
  - unfold node_keys. rewrite map_length. cbn [length]. lia.
  - rewrite E. eexists. reflexivity.
Qed.

(** ------------------------------------------------------------------ 3. spanning *)
Inductive reachable (g : graph) (a : Z) : Z -> Prop :=
| reach_refl : reachable g a a
| reach_step : forall b c, reachable g a b -> In c (neighbors g b) -> reachable g a c.

Theorem dfs_reaches_all g start es : dfs_edges g start = Ok es ->
  exists T, rkey T = start /\ es = redges T /\ dfs_visited g start = Ok (rkeys T) /\ NoDup (rkeys T)
            /\ (forall x, reachable g start x -> In x (rkeys T)).
Proof.
  intros H. destruct (dfs_shape g start es H) as [T (A & B & C & D & E & F)]. exists T. repeat split; try assumption.
  induction 1 as [|b c Hb IHb Hc]; [rewrite <- A; apply rkey_in|]. now apply (F b).
Qed.

(** connected (every node reachable from the start), adjacency lists mention only nodes, keys distinct:
    the DFS returns, and visits EVERY node EXACTLY once; every tree edge is a graph edge; every node other
    than the start is the child of exactly one tree edge *)
Theorem dfs_spanning g start : adj_closed g -> NoDup (node_keys g) -> In start (node_keys g) ->
  (forall x, In x (node_keys g) -> reachable g start x) ->
  exists T, rkey T = start /\ dfs_edges g start = Ok (redges T) /\ dfs_visited g start = Ok (rkeys T)
            /\ NoDup (rkeys T)
            /\ (forall x, In x (rkeys T) <-> In x (node_keys g))
            /\ length (rkeys T) = length (node_keys g)
            /\ (forall e, In e (redges T) -> In (snd e) (neighbors g (fst e)))
            /\ map snd (redges T) = tl (rkeys T)
            /\ (forall x, In x (node_keys g) -> x <> start -> exists! p, In (p, x) (redges T)).
Proof.
  intros Hc Hn Hs Hr. destruct (dfs_total g start Hc Hn Hs) as [es E].
  destruct (dfs_shape g start es E) as [T (A & B & C & D & F & G)]. subst es.
  assert (Hall : forall x, In x (node_keys g) -> In x (rkeys T)).
  { intros x Hx. specialize (Hr x Hx). induction Hr as [|b c Hb IHb Hcn]; [rewrite <- A; apply rkey_in|].
    apply (G b); [|assumption]. apply IHb. clear - Hc Hb Hs. induction Hb; [assumption|]. now apply (Hc b). }
  assert (Hsub : forall x, In x (rkeys T) -> In x (node_keys g)).
  { intros x Hx. destruct T as [k cs]. cbn [rkey] in A. subst k. destruct Hx as [<-|Hx]; [assumption|].
    change (flat_map rkeys cs) with (tl (rkeys (RNode start cs))) in Hx. rewrite <- redges_snd in Hx.
    apply in_map_iff in Hx as [e [<- He]]. apply (Hc (fst e)). now apply F. }
  exists T. repeat split; try assumption; try (now apply Hsub); try (now apply Hall).
  - apply Nat.le_antisymm; apply NoDup_incl_length; assumption.
  - apply redges_snd.
  - intros x Hx Hne. apply Hall in Hx.
    assert (Hx' : In x (tl (rkeys T))) by (destruct T as [k cs]; cbn [rkey] in A; subst k; destruct Hx as [E1|Hx]; [congruence|exact Hx]).
    rewrite <- redges_snd in Hx'. apply in_map_iff in Hx' as [[p c] [Ec He]]. cbn in Ec. subst c.
    exists p. split; [assumption|]. intros p' Hp'.
    assert (NDs : NoDup (map snd (redges T))) by (rewrite redges_snd; destruct T as [k cs]; cbn [rkeys tl] in *; now inversion D).
    clear - NDs He Hp'. induction (redges T) as [|e l IH]; [contradiction|]. cbn in NDs. inversion NDs as [|? ? Hn ND']; subst.
    destruct He as [->|He], Hp' as [E|Hp'].
    + now inversion E.
    + exfalso. apply Hn. cbn. change x with (snd (p', x)). now apply in_map.
    + subst e. exfalso. apply Hn. cbn. change x with (snd (p, x)). now apply in_map.
    + now apply IH.
Qed.
