(** WfFacts: what the boolean domain predicates of WriteDefs give to the proofs. *)
From Coq Require Import String.
From Coq Require Import List Ascii ZArith Bool Lia.
From CGV Require Import Base.PyBase Base.PyVal Base.PyGen Base.NxGraph Write.WriteImpl Write.WriteDefs Write.TreeDefs
     Write.TreeWrite Write.TreeTables Write.DfsProofs.
Import ListNotations.
Open Scope Z_scope.

Lemma nodupz_NoDup l : nodupz l = true -> NoDup l.
Proof.
  induction l as [|x l IH]; cbn; intros H; [constructor|]. apply andb_prop in H as [H1 H2].
  constructor; [|auto]. apply negb_true_iff in H1. now apply memz_false_iff.
Qed.
Lemma gfind_some k g n : gfind k g = Some n -> In n g /\ nk n = k.
Proof.
  induction g as [|m g IH]; cbn; [discriminate|]. destruct (Z.eqb_spec (nk m) k) as [E|N].
  - intros [= <-]. split; [now left|assumption].
  - intros H. destruct (IH H). split; [now right|assumption].
Qed.
Lemma gfind_key k g n : gfind k g = Some n -> In k (node_keys g).
Proof. intros H. destruct (gfind_some k g n H) as [Hin <-]. unfold node_keys. now apply in_map. Qed.

Lemma graph_wf_facts g : graph_wf g = true -> adj_closed g /\ NoDup (node_keys g).
Proof.
  unfold graph_wf. intros H. apply andb_prop in H as [H1 H2]. split; [|now apply nodupz_NoDup].
  intros x y Hy. unfold neighbors in Hy. destruct (gfind x g) as [n|] eqn:E; [|contradiction].
  destruct (gfind_some x g n E) as [Hn _]. rewrite forallb_forall in H2. specialize (H2 n Hn).
  apply andb_prop in H2 as [_ H2]. rewrite forallb_forall in H2.
  apply in_map_iff in Hy as [wa [<- Hwa]]. specialize (H2 wa Hwa). apply andb_prop in H2 as [_ H2].
  unfold edge_attrs in H2. destruct (gfind (fst wa) g) as [m|] eqn:E2; [|discriminate]. now apply (gfind_key _ _ m).
Qed.
Lemma min_node_in g k : min_node g = Ok k -> In k (node_keys g) /\ (forall x, In x (node_keys g) -> k <= x).
Proof.
  unfold min_node. destruct (node_keys g) as [|a l]; [discriminate|]. intros [= <-].
  assert (G : forall l a, (In (fold_left Z.min l a) (a :: l)) /\ (forall x, In x (a :: l) -> fold_left Z.min l a <= x)).
  { clear. induction l as [|b l IH]; intros a; cbn [fold_left].
    - split; [now left|]. intros x [<-|[]]. lia.
    - destruct (IH (Z.min a b)) as [H1 H2]. split.
      + destruct H1 as [H1|H1]; [|right; now right]. rewrite <- H1. destruct (Z.min_spec a b) as [[_ E]|[_ E]]; rewrite E; [now left|right; now left].
      + intros x [<-|[<-|Hx]].
        * etransitivity; [apply H2; now left|]. apply Z.le_min_l.
        * etransitivity; [apply H2; now left|]. apply Z.le_min_r.
        * apply H2. now right. }
  apply G.
Qed.
