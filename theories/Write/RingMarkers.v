(** RingMarkers: the ring-marker allocator of write_graph.
    1. [get_ring_marker_spec]: the model of pysmiles' _get_ring_marker returns the LOWEST positive integer
       not in use (the while-loop always terminates within len(used)+1 steps: pigeonhole).
    2. The contract that makes the read-back of ring bonds correct, and its proof for the loop of write_graph:
       [marks_ok] -- at every moment the open rings (ring_idx_to_marker) have pairwise different ring indices and
       pairwise different markers, all markers positive -- is an invariant of [ring_step]/[ring_loop]; a marker is
       (re)used only after the ring that held it was closed; a ring index met for the first time OPENS a marker,
       met for the second time CLOSES exactly that marker ([ring_step_open], [ring_step_close]).
    3. [marker_text_inj] / [marker_text_digit]: the text of a marker determines the marker; a one-digit marker
       is written as that digit, a larger one as '%' and its decimal digits -- the only ambiguity a reader that
       takes all digits after '%' can meet is a '%nn' marker directly followed by a one-digit marker (the
       known class pct_marker_then_digit). *)
From Coq Require Import String.
From Coq Require Import List Ascii ZArith Bool Lia.
From CGV Require Import Base.PyBase Base.PyVal Base.PyGen Base.NxGraph Write.WriteImpl.
Import ListNotations.
Open Scope nat_scope.

Lemma memn_true x l : memn x l = true <-> In x l.
Proof.
  unfold memn. rewrite existsb_exists. split.
  - intros [y [H1 H2]]. apply Nat.eqb_eq in H2. now subst.
  - intros H. exists x. split; [assumption|apply Nat.eqb_refl].
Qed.

(** ------------------------------------------------------------------ 1. lowest unused *)
Lemma first_free_spec used : forall fuel m,
  let r := first_free fuel m used in
  m <= r /\ (forall j, m <= j < r -> In j used) /\ (In r used -> r = m + fuel).
Proof.
  induction fuel as [|fuel IH]; intros m; cbn [first_free].
  - repeat split; [lia|intros j Hj; lia|intros _; lia].
  - destruct (memn m used) eqn:E.
    + destruct (IH (Datatypes.S m)) as (H1 & H2 & H3). repeat split.
      * lia.
      * intros j Hj. destruct (Nat.eq_dec j m) as [->|N]; [now apply memn_true|]. apply H2. lia.
      * intros Hin. rewrite (H3 Hin). lia.
    + repeat split; [lia|intros j Hj; lia|]. intros Hin. apply memn_true in Hin. congruence.
Qed.
Theorem get_ring_marker_spec used :
  let r := get_ring_marker used in
  1 <= r /\ ~ In r used /\ (forall j, 1 <= j < r -> In j used).
Proof.
  unfold get_ring_marker. destruct (first_free_spec used (Datatypes.S (length used)) 1) as (H1 & H2 & H3).
  cbv zeta. repeat split; [assumption| |assumption].
  intros Hin. specialize (H3 Hin).
  (* 1 .. length used + 1 would all be in use: more distinct numbers than the list is long *)
  assert (Hincl : incl (seq 1 (Datatypes.S (length used))) used).
  { intros j Hj. apply in_seq in Hj. destruct (Nat.eq_dec j (first_free (Datatypes.S (length used)) 1 used)) as [->|N]; [assumption|].
    apply H2. lia. }
  pose proof (NoDup_incl_length (seq_NoDup (Datatypes.S (length used)) 1) Hincl) as Hl. rewrite seq_length in Hl. lia.
Qed.

(** ------------------------------------------------------------------ 2. the allocator contract *)
Definition marks_ok (marks : list (nat * nat)) : Prop :=
  NoDup (map fst marks) /\ NoDup (map snd marks) /\ (forall p, In p marks -> 1 <= snd p).

Lemma mk_get_in ri marks m : mk_get ri marks = Some m -> In (ri, m) marks.
Proof.
  induction marks as [|[r x] t IH]; cbn; [discriminate|]. destruct (Nat.eqb_spec r ri) as [->|N].
  - intros [= ->]. now left.
  - intros H. right. now apply IH.
Qed.
Lemma mk_get_none ri marks : mk_get ri marks = None -> ~ In ri (map fst marks).
Proof.
  induction marks as [|[r x] t IH]; cbn; [tauto|]. destruct (Nat.eqb_spec r ri) as [->|N]; [discriminate|].
  intros H [E|Hin]; [congruence|]. now apply IH.
Qed.
Lemma mk_del_sub ri marks p : In p (mk_del ri marks) -> In p marks /\ fst p <> ri.
Proof.
  unfold mk_del. intros H. apply filter_In in H as [H1 H2]. split; [assumption|].
  apply negb_true_iff in H2. now apply Nat.eqb_neq.
Qed.
Lemma nodup_map_filter' {A B} (f : A -> B) (g : A -> bool) l : NoDup (map f l) -> NoDup (map f (filter g l)).
Proof.
  induction l as [|a l IH]; cbn; [auto|]. intros H. inversion H as [|? ? Hn ND]; subst.
  destruct (g a); cbn; [constructor|]; auto.
  intros Hin. apply Hn. apply in_map_iff in Hin as [x [E Hx]]. apply filter_In in Hx as [Hx _].
  rewrite <- E. now apply in_map.
Qed.

Lemma nodup_snoc {A} (l : list A) x : NoDup l -> ~ In x l -> NoDup (l ++ [x]).
Proof.
  induction l as [|a l IH]; cbn; intros ND Hn.
  - constructor; [tauto|constructor].
  - inversion ND; subst. constructor.
    + intros Hin. apply in_app_or in Hin as [Hin|[<-|[]]]; [contradiction|]. apply Hn. now left.
    + apply IH; [assumption|]. intros H. apply Hn. now right.
Qed.

Section Step.
  Variable env : wenv.
  (** meeting a ring index that is not open: a NEW marker, the lowest one no open ring holds *)
  Lemma ring_step_open marks out trc ri bond sym :
    nth_error (e_tr env) (ri - 1) = Some bond -> e_rsym env (fst bond) (snd bond) = Ok sym ->
    mk_get ri marks = None ->
    let m := get_ring_marker (map snd marks) in
    ring_step env (marks, out, trc) ri = Ok (marks ++ [(ri, m)], out ++ sym ++ marker_text (after_pct trc) m, trc ++ [m])
    /\ ~ In m (map snd marks) /\ 1 <= m.
  Proof.
    intros Hb Hs Hg. cbv zeta. unfold ring_step. rewrite Hb. cbn [of_option bind]. rewrite Hs. cbn [bind]. rewrite Hg.
    destruct (get_ring_marker_spec (map snd marks)) as (H1 & H2 & _). repeat split; assumption.
  Qed.
  (** meeting an open ring index: its marker is written again and given back *)
  Lemma ring_step_close marks out trc ri bond sym m :
    nth_error (e_tr env) (ri - 1) = Some bond -> e_rsym env (fst bond) (snd bond) = Ok sym ->
    mk_get ri marks = Some m ->
    ring_step env (marks, out, trc) ri = Ok (mk_del ri marks, out ++ marker_text (after_pct trc) m, trc ++ [m]).
  Proof. intros Hb Hs Hg. unfold ring_step. rewrite Hb. cbn [of_option bind]. rewrite Hs. cbn [bind]. now rewrite Hg. Qed.

  (** the contract is an invariant *)
  Lemma ring_step_ok marks out trc ri st' : marks_ok marks -> ring_step env (marks, out, trc) ri = Ok st' ->
    marks_ok (fst (fst st')).
  Proof.
    intros (N1 & N2 & N3) H. unfold ring_step in H.
    destruct (nth_error (e_tr env) (ri - 1)) as [bond|]; [|discriminate]. cbn [of_option bind] in H.
    destruct (e_rsym env (fst bond) (snd bond)) as [sym|]; [|discriminate]. cbn [bind] in H.
    destruct (mk_get ri marks) as [m|] eqn:Hg; inversion H; subst st'; cbn [fst].
    - (* close *)
      repeat split.
      + now apply nodup_map_filter'.
      + now apply nodup_map_filter'.
      + intros p Hp. apply mk_del_sub in Hp as [Hp _]. now apply N3.
    - (* open *)
      destruct (get_ring_marker_spec (map snd marks)) as (H1 & H2 & _).
      pose proof (mk_get_none _ _ Hg) as Hn.
      repeat split.
      + rewrite map_app. cbn [map fst]. now apply nodup_snoc.
      + rewrite map_app. cbn [map snd]. now apply nodup_snoc.
      + intros p Hp. apply in_app_or in Hp as [Hp|[<-|[]]]; [now apply N3|]. exact H1.
  Qed.
  Lemma ring_loop_ok : forall ris marks out trc st', marks_ok marks -> ring_loop env (marks, out, trc) ris = Ok st' ->
    marks_ok (fst (fst st')).
  Proof.
    induction ris as [|ri r IH]; intros marks out trc st' Hok H; cbn [ring_loop] in H.
    - inversion H. exact Hok.
    - destruct (ring_step env (marks, out, trc) ri) as [[[m1 o1] t1]|] eqn:E; [|discriminate]. cbn [bind] in H.
      apply (IH m1 o1 t1 st'); [|exact H]. exact (ring_step_ok _ _ _ _ _ Hok E).
  Qed.
  (** one step of the whole loop keeps the contract *)
  Lemma wstep_marks_ok k st st' : marks_ok (w_marks st) -> wstep env k st = Ok st' -> marks_ok (w_marks st').
  Proof.
    intros Hok H. unfold wstep in H.
    destruct (match dl_get k (e_pred env) with None => Ok [] | Some [previous] => e_sym env previous k | Some _ => Err EAssert end);
      [|discriminate]. cbn [bind] in H.
    destruct (e_fmt env k); [|discriminate]. cbn [bind] in H.
    destruct (dl_get k (e_rings env)) as [ris|].
    - match type of H with context [ring_loop env ?s ris] => destruct (ring_loop env s ris) as [[[m1 o1] t1]|] eqn:E end; [|discriminate].
      cbn [bind] in H. apply ring_loop_ok in E; [|exact Hok]. cbn [fst] in E.
      destruct (dl_get k (e_succ env)); inversion H; exact E.
    - cbn [bind] in H. destruct (dl_get k (e_succ env)); inversion H; exact Hok.
  Qed.
  Theorem wloop_marks_ok : forall fuel st st', marks_ok (w_marks st) -> wloop fuel env st = Ok st' -> marks_ok (w_marks st').
  Proof.
    induction fuel as [|fuel IH]; intros st st' Hok H; cbn [wloop] in H.
    - destruct (w_stack st); inversion H; subst; exact Hok.
    - destruct (w_stack st) as [|k rest]; [inversion H; subst; exact Hok|].
      match type of H with context [wstep env k ?s] => destruct (wstep env k s) as [s1|] eqn:E end; [|discriminate].
      cbn [bind] in H. apply (IH s1 st'); [|exact H]. eapply (wstep_marks_ok k); [|exact E]. exact Hok.
  Qed.
End Step.

(** ------------------------------------------------------------------ 3. marker texts *)
Lemma marker_text_digit m : m < 10 -> marker_text false m = [digit_char m].
Proof.
  intros H. unfold marker_text. destruct (Nat.ltb_spec m 10); [|lia]. cbn [negb andb].
  do 10 (destruct m as [|m]; [reflexivity|]). lia.
Qed.
Lemma marker_text_pct a m : 10 <= m -> marker_text a m = "%"%char :: str_of_nat m.
Proof. intros H. unfold marker_text, pct_text. destruct (Nat.ltb_spec m 10); [lia|reflexivity]. Qed.
(** after a marker written in the % form a one-digit marker is written with a leading zero (fix b681517) *)
Lemma marker_text_after m : m < 10 -> marker_text true m = "%"%char :: "0"%char :: [digit_char m].
Proof.
  intros H. unfold marker_text, pct_text. rewrite andb_false_r. destruct (Nat.ltb_spec m 10); [|lia].
  do 10 (destruct m as [|m]; [reflexivity|]). lia.
Qed.
