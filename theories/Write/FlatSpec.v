(** FlatSpec: what the per-node records of FlatMachine.tflat are: old keys = the order of writing, new keys =
    consecutive integers, ring items = the writer's allocator threaded over the order of writing, parents = the
    DFS tree's parents with their own (old, new) pair. *)
From Coq Require Import String.
From Coq Require Import List Ascii ZArith Bool Lia Permutation.
From CGV Require Import Base.PyBase Base.PyVal Base.PyGen Base.NxGraph Dialect.DialectImpl.
From CGV Require Import Write.WriteImpl Write.TreeDefs Write.TreeWrite Write.TreeTables Write.RingDefs Write.RingWrite
     Write.RingTables Write.RingMarkers Write.RingClose Write.TreeRead Write.RingRead Write.FlatMachine.
From CGV Require Import Reader.Grammar.
Import ListNotations.
Open Scope Z_scope.

Section Spec.
  Variable esym : Z -> Z -> option sym.
  Variable rlist : Z -> list nat.
  Variable rsym_o : nat -> option sym.
  Notation tflat := (tflat esym rlist rsym_o).
  Notation bflat := (bflat esym rlist rsym_o).
  Notation ring_items := (ring_items rsym_o false).

  (** the writer's ring items, threaded over a list of nodes *)
  Fixpoint rflat (mk : marks) (ks : list Z) : list (list (option sym * marker)) * marks :=
    match ks with
    | [] => ([], mk)
    | k :: r => let '(mk1, rs) := ring_items mk (rlist k) in
                let '(l, mk') := rflat mk1 r in (rs :: l, mk')
    end.
  Lemma rflat_app : forall a b mk, rflat mk (a ++ b) = (let '(la, mka) := rflat mk a in let '(lb, mkb) := rflat mka b in (la ++ lb, mkb)).
  Proof.
    induction a as [|k a IH]; intros b mk; cbn [app rflat].
    - destruct (rflat mk b). reflexivity.
    - destruct (ring_items mk (rlist k)) as [mk1 rs]. rewrite IH. destruct (rflat mk1 a) as [la mka]. destruct (rflat mka b). reflexivity.
  Qed.
  Definition zseq (next : Z) (n : nat) : list Z := map (fun i => next + Z.of_nat i) (seq 0 n).
  Lemma map_seq_shift {B} : forall b (f : nat -> B) a, map f (seq a b) = map (fun i => f (a + i)%nat) (seq 0 b).
  Proof.
    induction b as [|b IH]; intros f a; [reflexivity|]. cbn [seq map]. rewrite Nat.add_0_r. f_equal.
    rewrite (IH f (Datatypes.S a)). rewrite (IH (fun i => f (a + i)%nat) 1%nat). apply map_ext. intros i. f_equal. lia.
  Qed.
  Lemma zseq_app next a b : zseq next (a + b) = zseq next a ++ zseq (next + Z.of_nat a) b.
  Proof.
    unfold zseq. rewrite seq_app, map_app. f_equal. cbn [Nat.add]. rewrite map_seq_shift.
    apply map_ext. intros i. lia.
  Qed.

  Definition Ts (t : rtree) : Prop := forall mk next par pend,
    map f_old (fst (tflat mk next par pend t)) = worder t
    /\ map f_new (fst (tflat mk next par pend t)) = zseq next (rsize t)
    /\ map f_rings (fst (tflat mk next par pend t)) = fst (rflat mk (worder t))
    /\ snd (tflat mk next par pend t) = snd (rflat mk (worder t)).
  Lemma rsize_worder t : length (worder t) = rsize t.
  Proof. unfold rsize. apply Permutation_length. apply worder_perm. Qed.

  Theorem tflat_spec : forall t, Ts t.
  Proof.
    apply rtree_ind2. intros k cs IH. unfold Ts. intros mk next par pend. destruct cs as [|c1 bs].
    - cbn [FlatMachine.tflat worder rflat]. destruct (ring_items mk (rlist k)) as [mk1 rs]. cbn. rewrite Z.add_0_r. auto.
    - rewrite tflat_unfold. cbv zeta. change (worder (RNode k (c1 :: bs))) with (k :: worder_branches bs ++ worder c1).
      cbn [rflat]. destruct (ring_items mk (rlist k)) as [mk1 rs]. rewrite rflat_app.
      assert (B : forall l, Forall Ts l ->
                  map f_old (fst (bflat k next mk1 l)) = worder_branches l
                  /\ map f_new (fst (bflat k next mk1 l)) = zseq (next + 1) (length (flat_map rkeys l))
                  /\ map f_rings (fst (bflat k next mk1 l)) = fst (rflat mk1 (worder_branches l))
                  /\ snd (bflat k next mk1 l) = snd (rflat mk1 (worder_branches l))).
      { induction l as [|c r IHr]; intros Hl; [cbn; auto|]. rewrite bflat_cons.
        change (worder_branches (c :: r)) with (worder_branches r ++ worder c). rewrite rflat_app.
        destruct (IHr (Forall_inv_tail Hl)) as (B1 & B2 & B3 & B4).
        destruct (bflat k next mk1 r) as [l2 mk2]. destruct (rflat mk1 (worder_branches r)) as [la mka]. cbn [fst snd] in *. subst mka.
        destruct (Forall_inv Hl mk2 (next + 1 + Z.of_nat (length (flat_map rkeys r))) (Some (k, next)) (oord (esym k (rkey c)))) as (C1 & C2 & C3 & C4).
        destruct (tflat mk2 (next + 1 + Z.of_nat (length (flat_map rkeys r))) (Some (k, next)) (oord (esym k (rkey c))) c) as [l1 mk3].
        destruct (rflat mk2 (worder c)) as [lb mkb]. cbn [fst snd] in *. subst mkb.
        rewrite !map_app, B1, B2, B3, C1, C2, C3. cbn [flat_map]. rewrite app_length, Nat.add_comm, zseq_app. unfold rsize. repeat split; reflexivity. }
      destruct (B bs (Forall_inv_tail IH)) as (B1 & B2 & B3 & B4).
      destruct (bflat k next mk1 bs) as [lb mkb]. destruct (rflat mk1 (worder_branches bs)) as [la mka]. cbn [fst snd] in *. subst mka.
      destruct (Forall_inv IH mkb (next + 1 + Z.of_nat (length (flat_map rkeys bs))) (Some (k, next)) (oord (esym k (rkey c1)))) as (C1 & C2 & C3 & C4).
      destruct (tflat mkb (next + 1 + Z.of_nat (length (flat_map rkeys bs))) (Some (k, next)) (oord (esym k (rkey c1))) c1) as [lc mkc].
      destruct (rflat mkb (worder c1)) as [lc' mkc']. cbn [fst snd] in *. subst mkc'.
      cbn [map f_old f_new f_rings fst snd]. rewrite !map_app, B1, B2, B3, C1, C2, C3.
      assert (Hs : rsize (RNode k (c1 :: bs)) = (1 + (length (flat_map rkeys bs) + rsize c1))%nat).
      { unfold rsize. cbn [rkeys flat_map length]. rewrite app_length. lia. }
      rewrite Hs, zseq_app, zseq_app. cbn [zseq seq map Z.of_nat]. rewrite Z.add_0_r.
      replace (next + Z.of_nat 1) with (next + 1) by lia.
      replace (next + 1 + Z.of_nat (length (flat_map rkeys bs))) with (next + 1 + Z.of_nat (length (flat_map rkeys bs))) by reflexivity.
      repeat split; reflexivity.
  Qed.

  Lemma tflat_head t mk next par pend : exists rs rest, fst (tflat mk next par pend t) = (rkey t, next, par, pend, rs) :: rest.
  Proof.
    destruct t as [k [|c1 bs]].
    - cbn [FlatMachine.tflat]. destruct (ring_items mk (rlist k)) as [mk1 rs]. eexists. eexists. reflexivity.
    - rewrite tflat_unfold. cbv zeta. destruct (ring_items mk (rlist k)) as [mk1 rs].
      destruct (bflat k next mk1 bs). destruct (tflat m _ _ _ c1). eexists. eexists. reflexivity.
  Qed.

  (** every record but the first hangs on a record of the same list, by a tree edge, with that edge's order *)
  Definition par_ok (t : rtree) (fl : list frec) (r : frec) : Prop :=
    exists r', In r' fl /\ f_par r = Some (f_old r', f_new r') /\ In (f_old r', f_old r) (redges t)
               /\ f_pend r = oord (esym (f_old r') (f_old r)) /\ f_new r' < f_new r.
  Definition Tp (t : rtree) : Prop := forall mk next par pend r,
    In r (tl (fst (tflat mk next par pend t))) -> par_ok t (fst (tflat mk next par pend t)) r.

  Lemma redges_child k cs c e : In c cs -> In e (redges c) -> In e (redges (RNode k cs)).
  Proof. intros Hc He. cbn [redges]. apply in_flat_map. exists c. split; [assumption|now right]. Qed.
  Lemma redges_root k cs c : In c cs -> In (k, rkey c) (redges (RNode k cs)).
  Proof. intros Hc. cbn [redges]. apply in_flat_map. exists c. split; [assumption|now left]. Qed.

  Theorem tflat_parents : forall t, Tp t.
  Proof.
    apply rtree_ind2. intros k cs IH. unfold Tp. intros mk next par pend r Hr. destruct cs as [|c1 bs].
    - cbn [FlatMachine.tflat] in Hr. destruct (ring_items mk (rlist k)). cbn in Hr. contradiction.
    - rewrite tflat_unfold in *. cbv zeta in *. destruct (ring_items mk (rlist k)) as [mk1 rs].
      set (rec0 := (k, next, par, pend, rs) : frec).
      (* a record of a child subtree *)
      assert (Child : forall c mk' n' fl', In c (c1 :: bs) -> Tp c -> next < n' ->
                (forall x, In x (fst (tflat mk' n' (Some (k, next)) (oord (esym k (rkey c))) c)) -> In x fl') -> In rec0 fl' ->
                forall x, In x (fst (tflat mk' n' (Some (k, next)) (oord (esym k (rkey c))) c)) ->
                          par_ok (RNode k (c1 :: bs)) fl' x).
      { intros c mk' n' fl' Hc Hpc Hn' Hsub H0 x Hx.
        destruct (tflat_head c mk' n' (Some (k, next)) (oord (esym k (rkey c)))) as [rs' [rest' E]].
        rewrite E in Hx. destruct Hx as [<-|Hx].
        - exists rec0. split; [exact H0|split; [reflexivity|split; [now apply redges_root|split; [reflexivity|]]]].
          cbn [f_new fst snd rec0]. exact Hn'.
        - assert (Hx' : In x (tl (fst (tflat mk' n' (Some (k, next)) (oord (esym k (rkey c))) c)))) by (rewrite E; exact Hx).
          destruct (Hpc mk' n' (Some (k, next)) (oord (esym k (rkey c))) x Hx') as [r' (A1 & A2 & A3 & A4 & A5)].
          exists r'. split; [now apply Hsub|split; [exact A2|split; [now apply (redges_child k (c1 :: bs) c)|split; [exact A4|exact A5]]]]. }
      assert (B : forall l, (forall c, In c l -> In c (c1 :: bs)) -> Forall Tp l -> forall fl',
                  (forall x, In x (fst (bflat k next mk1 l)) -> In x fl') -> In rec0 fl' ->
                  forall x, In x (fst (bflat k next mk1 l)) -> par_ok (RNode k (c1 :: bs)) fl' x).
      { induction l as [|c r' IHr]; intros Hsubl Hl fl' Hsub H0 x Hx; [contradiction|]. rewrite bflat_cons in *.
        destruct (bflat k next mk1 r') as [l2 mk2].
        destruct (tflat mk2 (next + 1 + Z.of_nat (length (flat_map rkeys r'))) (Some (k, next)) (oord (esym k (rkey c))) c) as [l1 mk3] eqn:E1.
        cbn [fst] in *. apply in_app_or in Hx as [Hx|Hx].
        - apply (IHr (fun c0 H => Hsubl c0 (or_intror H)) (Forall_inv_tail Hl) fl'); [|exact H0|exact Hx].
          intros y Hy. apply Hsub. apply in_or_app. now left.
        - apply (Child c mk2 (next + 1 + Z.of_nat (length (flat_map rkeys r'))) fl' (Hsubl c (or_introl eq_refl)) (Forall_inv Hl) ltac:(lia)); rewrite ?E1; cbn [fst].
          + intros y Hy. apply Hsub. apply in_or_app. now right.
          + exact H0.
          + exact Hx. }
      pose proof (B bs (fun c H => or_intror H) (Forall_inv_tail IH)) as Bb.
      destruct (bflat k next mk1 bs) as [lb mkb].
      pose proof (Child c1 mkb (next + 1 + Z.of_nat (length (flat_map rkeys bs)))) as Cc.
      destruct (tflat mkb (next + 1 + Z.of_nat (length (flat_map rkeys bs))) (Some (k, next)) (oord (esym k (rkey c1))) c1) as [lc mkc].
      cbn [fst tl] in *. apply in_app_or in Hr as [Hr|Hr].
      + apply Bb; [|now left|exact Hr]. intros y Hy. right. apply in_or_app. now left.
      + apply (Cc _ (or_introl eq_refl) (Forall_inv IH) ltac:(lia)); [|now left|exact Hr]. intros y Hy. right. apply in_or_app. now right.
  Qed.
End Spec.
