(** NxGraph: the part of networkx.Graph (3.x, undirected, simple) the CGsmiles code uses,
    INCLUDING iteration order: node insertion order, adjacency insertion order, the rule
    by which [G.edges] enumerates, what [copy], [relabel_nodes(copy=True)] and
    [contracted_nodes] do to those orders.  Validated against networkx by its own
    correspondence stream (tools/props/nx.py). Node keys are integers. *)
From Coq Require Import String.
From Coq Require Import List Ascii ZArith Bool Lia.
From CGV Require Import Base.PyBase Base.PyVal.
Import ListNotations.
Open Scope Z_scope.

Record nrec := { nk : Z; na : attrs; nadj : list (Z * attrs) }.
Definition graph := list nrec.
Definition gempty : graph := [].

Fixpoint gfind (k : Z) (g : graph) : option nrec :=
  match g with [] => None | n :: r => if Z.eqb (nk n) k then Some n else gfind k r end.
Definition has_node (g : graph) (k : Z) : bool := match gfind k g with Some _ => true | None => false end.
Definition node_keys (g : graph) : list Z := map nk g.
Definition nodes_data (g : graph) : list (Z * attrs) := map (fun n => (nk n, na n)) g.
Definition node_attrs (g : graph) (k : Z) : res attrs :=
  match gfind k g with Some n => Ok (na n) | None => Err EKey end.
Definition node_get (g : graph) (k : Z) (a : pystr) : option pyval :=
  match gfind k g with Some n => aget a (na n) | None => None end.

Fixpoint gupdate (k : Z) (f : nrec -> nrec) (g : graph) : graph :=
  match g with [] => [] | n :: r => if Z.eqb (nk n) k then f n :: r else n :: gupdate k f r end.

(** G.add_node(k, **a): create or update attributes *)
Definition add_node (g : graph) (k : Z) (a : attrs) : graph :=
  if has_node g k then gupdate k (fun n => {| nk := nk n; na := aupdate (na n) a; nadj := nadj n |}) g
  else g ++ [{| nk := k; na := a; nadj := [] |}].
Definition set_node_attr (g : graph) (k : Z) (a : pystr) (v : pyval) : graph :=
  gupdate k (fun n => {| nk := nk n; na := aset a v (na n); nadj := nadj n |}) g.
Definition del_node_attr (g : graph) (k : Z) (a : pystr) : graph :=
  gupdate k (fun n => {| nk := nk n; na := adel a (na n); nadj := nadj n |}) g.
(** nx.set_node_attributes(G, value, name) with a scalar value *)
Definition set_all_nodes (g : graph) (a : pystr) (v : pyval) : graph :=
  map (fun n => {| nk := nk n; na := aset a v (na n); nadj := nadj n |}) g.
(** nx.set_node_attributes(G, {node: value}, name); nodes not in G are ignored *)
Definition set_nodes_from (g : graph) (a : pystr) (d : list (Z * pyval)) : graph :=
  fold_left (fun acc kv => set_node_attr acc (fst kv) a (snd kv)) d g.
(** nx.get_node_attributes(G, name): dict in node order *)
Definition get_node_attributes (g : graph) (a : pystr) : list (Z * pyval) :=
  flat_map (fun n => match aget a (na n) with Some v => [(nk n, v)] | None => [] end) g.

Fixpoint adj_get (v : Z) (l : list (Z * attrs)) : option attrs :=
  match l with [] => None | (w, a) :: r => if Z.eqb w v then Some a else adj_get v r end.
Fixpoint adj_set (v : Z) (a : attrs) (l : list (Z * attrs)) : list (Z * attrs) :=
  match l with
  | [] => [(v, a)]
  | (w, b) :: r => if Z.eqb w v then (w, a) :: r else (w, b) :: adj_set v a r
  end.
Definition adj_del (v : Z) (l : list (Z * attrs)) : list (Z * attrs) :=
  filter (fun wa => negb (Z.eqb (fst wa) v)) l.

Definition has_edge (g : graph) (u v : Z) : bool :=
  match gfind u g with
  | Some n => match adj_get v (nadj n) with Some _ => true | None => false end
  | None => false
  end.
Definition edge_attrs (g : graph) (u v : Z) : res attrs :=
  match gfind u g with
  | Some n => match adj_get v (nadj n) with Some a => Ok a | None => Err EKey end
  | None => Err EKey
  end.
Definition edge_get (g : graph) (u v : Z) (a : pystr) : option pyval :=
  match edge_attrs g u v with Ok d => aget a d | Err _ => None end.

(** G.add_edge(u, v, **a): creates missing nodes; updates the shared attribute dict *)
Definition add_edge (g : graph) (u v : Z) (a : attrs) : graph :=
  let g1 := if has_node g u then g else g ++ [{| nk := u; na := []; nadj := [] |}] in
  let g2 := if has_node g1 v then g1 else g1 ++ [{| nk := v; na := []; nadj := [] |}] in
  let old := match edge_attrs g2 u v with Ok d => d | Err _ => [] end in
  let d := aupdate old a in
  let g3 := gupdate u (fun n => {| nk := nk n; na := na n; nadj := adj_set v d (nadj n) |}) g2 in
  gupdate v (fun n => {| nk := nk n; na := na n; nadj := adj_set u d (nadj n) |}) g3.
Definition set_edge_attr (g : graph) (u v : Z) (a : pystr) (x : pyval) : graph :=
  if has_edge g u v then add_edge g u v [(a, x)] else g.

Definition remove_edge (g : graph) (u v : Z) : graph :=
  let g1 := gupdate u (fun n => {| nk := nk n; na := na n; nadj := adj_del v (nadj n) |}) g in
  gupdate v (fun n => {| nk := nk n; na := na n; nadj := adj_del u (nadj n) |}) g1.
Definition remove_node (g : graph) (k : Z) : graph :=
  map (fun n => {| nk := nk n; na := na n; nadj := adj_del k (nadj n) |})
      (filter (fun n => negb (Z.eqb (nk n) k)) g).

Definition neighbors (g : graph) (k : Z) : list Z :=
  match gfind k g with Some n => map fst (nadj n) | None => [] end.
Definition degree (g : graph) (k : Z) : nat := length (neighbors g k).

(** G.edges(data=True): for n in nodes, for nbr in adj[n], if nbr not seen: yield; seen.add(n) *)
Fixpoint edges_from (g : graph) (seen : list Z) : list (Z * Z * attrs) :=
  match g with
  | [] => []
  | n :: r =>
      flat_map (fun wa => if existsb (Z.eqb (fst wa)) seen then [] else [(nk n, fst wa, snd wa)]) (nadj n)
      ++ edges_from r (nk n :: seen)
  end.
Definition edges_data (g : graph) : list (Z * Z * attrs) := edges_from g [].
Definition edges_list (g : graph) : list (Z * Z) := map (fun e => (fst (fst e), snd (fst e))) (edges_data g).
(** G.edges(v, data=True): edges incident to v, reported as (v, nbr, d) *)
Definition edges_of (g : graph) (v : Z) : list (Z * Z * attrs) :=
  match gfind v g with Some n => map (fun wa => (v, fst wa, snd wa)) (nadj n) | None => [] end.

(** G.copy(): nodes in order; then add_edge for every (u, nbr) of the adjacency in order *)
Definition gcopy (g : graph) : graph :=
  let h := fold_left (fun acc n => add_node acc (nk n) (na n)) g gempty in
  fold_left (fun acc n => fold_left (fun acc2 wa => add_edge acc2 (nk n) (fst wa) (snd wa)) (nadj n) acc) g h.

(** nx.relabel_nodes(G, mapping, copy=True) *)
Definition map_get (m : list (Z * Z)) (k : Z) : Z :=
  match find (fun p => Z.eqb (fst p) k) m with Some p => snd p | None => k end.
Definition relabel_copy (g : graph) (m : list (Z * Z)) : graph :=
  let h0 := fold_left (fun acc n => add_node acc (map_get m (nk n)) []) g gempty in
  (* H._node.update((new, d.copy())): replaces the attribute dict, later entries win *)
  let h1 := fold_left (fun acc n =>
               gupdate (map_get m (nk n)) (fun x => {| nk := nk x; na := na n; nadj := nadj x |}) acc) g h0 in
  fold_left (fun acc e => add_edge acc (map_get m (fst (fst e))) (map_get m (snd (fst e))) (snd e))
            (edges_data g) h1.

(** nx.contracted_nodes(G, u, v, self_loops=False, copy=True).  The stored 'contraction'
    node attribute is modelled as the removed node's attribute dict, kept under key
    "contraction" as a VDict {v: <placeholder>}; the model returns [v_data] separately because
    the caller reads it back immediately.  Edge 'contraction' bookkeeping for edges that
    already exist is modelled too (as a VDict entry), since it touches the edge dict. *)
Definition contracted_nodes (g : graph) (u v : Z) : res (graph * attrs) :=
  match gfind v g with
  | None => Err EKey
  | Some nv =>
      if negb (has_node g u) then Err EKey else
      let h := gcopy g in
      let to_remap := edges_of g v in
      let h := remove_node h v in
      let h := fold_left (fun acc e =>
                 let '(pw, px, d) := e in
                 let w := if Z.eqb pw v then u else pw in
                 let x := if Z.eqb px v then u else px in
                 if ((Z.eqb pw u && Z.eqb px v) || (Z.eqb pw v && Z.eqb px u)) then acc
                 else if negb (has_edge acc w x) then add_edge acc w x d
                 else set_edge_attr acc w x (S "contraction") (VDict [(VTup [VInt pw; VInt px], VNone)])) to_remap h in
      let h := set_node_attr h u (S "contraction") (VDict [(VInt v, VNone)]) in
      Ok (h, na nv)
  end.

(** connected: every node reachable from the first (used by generators' wf checks) *)
Fixpoint reach (fuel : nat) (g : graph) (front seen : list Z) : list Z :=
  match fuel with
  | O => seen
  | Datatypes.S f =>
      match front with
      | [] => seen
      | x :: r =>
          let nb := filter (fun y => negb (existsb (Z.eqb y) seen)) (neighbors g x) in
          let nb := nodup Z.eq_dec nb in
          reach f g (r ++ nb) (seen ++ nb)
      end
  end.
Definition connected (g : graph) : bool :=
  match g with
  | [] => true
  | n :: _ => Nat.eqb (length (reach (Datatypes.S (length g * length g)) g [nk n] [nk n])) (length g)
  end.

(** observable form for comparison with the implementation *)
Definition obs_graph := (list (Z * attrs) * list (Z * Z * attrs))%type.
Definition observe (g : graph) : obs_graph := (nodes_data g, edges_data g).
Fixpoint nodes_eqb (a b : list (Z * attrs)) : bool :=
  match a, b with
  | [], [] => true
  | (k, x) :: a', (k', y) :: b' => Z.eqb k k' && attrs_eqb x y && nodes_eqb a' b'
  | _, _ => false
  end.
Fixpoint edges_eqb (a b : list (Z * Z * attrs)) : bool :=
  match a, b with
  | [], [] => true
  | (u, v, x) :: a', (u', v', y) :: b' => Z.eqb u u' && Z.eqb v v' && attrs_eqb x y && edges_eqb a' b'
  | _, _ => false
  end.
Definition obs_eqb (a b : obs_graph) : bool := nodes_eqb (fst a) (fst b) && edges_eqb (snd a) (snd b).
