(** PyBase: the small part of Python's value world the CGsmiles models use.
    Strings are [list ascii]; exceptions are an error monad; no axioms. *)
From Coq Require Import String.
From Coq Require Import List Ascii ZArith Bool Lia.
Import ListNotations.

Definition pystr := list ascii.
Definition S (s : string) : pystr := list_ascii_of_string s.
Definition to_string (s : pystr) : string := string_of_list_ascii s.

(** Exceptions.  [ESyntax tag] / [EType] are the documented errors; everything
    else is an undocumented crash of the implementation. *)
Inductive err :=
| ESyntax (tag : pystr)
| EType
| EIndex | EKey | EValue | EUnbound | ELookup | EIO | EName | EAttr
| EAssert | EStopIter | EZeroDiv
| ENoReturn | EOutOfFuel.

Inductive res (A : Type) := Ok (a : A) | Err (e : err).
Arguments Ok {A}. Arguments Err {A}.
Definition ret {A} (a : A) : res A := Ok a.
Definition bind {A B} (m : res A) (f : A -> res B) : res B :=
  match m with Ok a => f a | Err e => Err e end.
Notation "x <- m ;; k" := (bind m (fun x => k)) (at level 61, m at next level, right associativity).
Notation "' p <- m ;; k" := (bind m (fun p => k)) (at level 61, p pattern, m at next level, right associativity).
Definition is_ok {A} (r : res A) : bool := match r with Ok _ => true | Err _ => false end.
Definition of_option {A} (o : option A) (e : err) : res A :=
  match o with Some a => Ok a | None => Err e end.

(** Decidable equality class used by the translated code. *)
Class PyEq (A : Type) := { pyeqb : A -> A -> bool; pyeqb_spec : forall x y, reflect (x = y) (pyeqb x y) }.

Fixpoint str_eqb (a b : pystr) : bool :=
  match a, b with
  | [], [] => true
  | x :: a', y :: b' => Ascii.eqb x y && str_eqb a' b'
  | _, _ => false
  end.
Lemma str_eqb_spec a : forall b, reflect (a = b) (str_eqb a b).
Proof.
  induction a as [|x a IH]; destruct b as [|y b]; cbn; try (constructor; congruence).
  destruct (Ascii.eqb_spec x y); cbn; [|constructor; congruence].
  destruct (IH b); constructor; congruence.
Qed.
Lemma str_eqb_refl a : str_eqb a a = true.
Proof. destruct (str_eqb_spec a a); congruence. Qed.
Lemma str_eqb_eq a b : str_eqb a b = true <-> a = b.
Proof. destruct (str_eqb_spec a b); split; congruence. Qed.
#[export] Instance PyEq_str : PyEq pystr := {| pyeqb := str_eqb; pyeqb_spec := str_eqb_spec |}.
#[export] Instance PyEq_bool : PyEq bool := {| pyeqb := Bool.eqb; pyeqb_spec := Bool.eqb_spec |}.
#[export] Instance PyEq_Z : PyEq Z := {| pyeqb := Z.eqb; pyeqb_spec := Z.eqb_spec |}.
#[export] Instance PyEq_nat : PyEq nat := {| pyeqb := Nat.eqb; pyeqb_spec := Nat.eqb_spec |}.
Lemma pair_eqb_spec {A B} `{PyEq A} `{PyEq B} (x y : A * B) :
  reflect (x = y) (pyeqb (fst x) (fst y) && pyeqb (snd x) (snd y)).
Proof.
  destruct x as [a b], y as [c d]; cbn.
  destruct (pyeqb_spec a c); cbn; [|constructor; congruence].
  destruct (pyeqb_spec b d); constructor; congruence.
Qed.
#[export] Instance PyEq_pair {A B} `{PyEq A} `{PyEq B} : PyEq (A * B) :=
  {| pyeqb := fun p q => pyeqb (fst p) (fst q) && pyeqb (snd p) (snd q); pyeqb_spec := pair_eqb_spec |}.

(** Monadic helpers for the statement-by-statement translations of py2v. *)
Definition py_eq {A} `{PyEq A} (x y : res A) : res bool := a <- x ;; b <- y ;; ret (pyeqb a b).
Definition py_ne {A} `{PyEq A} (x y : res A) : res bool := a <- x ;; b <- y ;; ret (negb (pyeqb a b)).
Definition pair2 {A B} (x : res A) (y : res B) : res (A * B) := a <- x ;; b <- y ;; ret (a, b).
Definition py_and (a b : res bool) : res bool := x <- a ;; if x then b else ret false.
Definition py_or (a b : res bool) : res bool := x <- a ;; if x then ret true else b.
Definition py_not (a : res bool) : res bool := x <- a ;; ret (negb x).

(** s[i] for a constant index; IndexError outside. *)
Definition py_index (s : pystr) (i : Z) : res pystr :=
  let n := Z.of_nat (length s) in
  let j := if (i <? 0)%Z then (n + i)%Z else i in
  if ((j <? 0) || (n <=? j))%Z then Err EIndex
  else match nth_error s (Z.to_nat j) with Some c => Ok [c] | None => Err EIndex end.
(** character at (possibly negative) index, as a character *)
Definition py_char_at (s : pystr) (i : Z) : res ascii :=
  let n := Z.of_nat (length s) in
  let j := if (i <? 0)%Z then (n + i)%Z else i in
  if ((j <? 0) || (n <=? j))%Z then Err EIndex
  else match nth_error s (Z.to_nat j) with Some c => Ok c | None => Err EIndex end.
Definition py_slice_from (s : pystr) (n : nat) : pystr := skipn n s.
(** s[:-1] *)
Definition py_drop_last (s : pystr) : pystr := removelast s.
(** s[-1] *)
Definition py_last (s : pystr) : res ascii :=
  match rev s with c :: _ => Ok c | [] => Err EIndex end.
(** s[a:b] with 0 <= a, b natural (Python clips) *)
Definition py_slice (s : pystr) (a b : nat) : pystr := firstn (b - a) (skipn a s).

Fixpoint prefixb (p s : pystr) : bool :=
  match p, s with
  | [], _ => true
  | x :: p', y :: s' => Ascii.eqb x y && prefixb p' s'
  | _, [] => false
  end.
Fixpoint substrb (p s : pystr) : bool :=
  prefixb p s || match s with [] => false | _ :: s' => substrb p s' end.
Definition py_in (x s : res pystr) : res bool := a <- x ;; b <- s ;; ret (substrb a b).
Definition py_notin (x s : res pystr) : res bool := b <- py_in x s ;; ret (negb b).
Definition char_in (c : ascii) (s : pystr) : bool := existsb (Ascii.eqb c) s.
Lemma char_in_In c s : char_in c s = true <-> In c s.
Proof.
  unfold char_in. rewrite existsb_exists. split.
  - intros [x [H1 H2]]. apply Ascii.eqb_eq in H2. now subst.
  - intros H. exists c. split; [assumption|apply Ascii.eqb_refl].
Qed.
Definition str_in (x : pystr) (l : list pystr) : bool := existsb (str_eqb x) l.

(** characters *)
Definition is_digit (c : ascii) : bool :=
  let n := nat_of_ascii c in (48 <=? n)%nat && (n <=? 57)%nat.
Definition digit_val (c : ascii) : nat := nat_of_ascii c - 48.
Definition digit_char (d : nat) : ascii := ascii_of_nat (48 + d).
Definition all_digits (s : pystr) : bool := forallb is_digit s.
(** str.isdigit(): non-empty and all digits (ASCII only) *)
Definition py_isdigit (s : pystr) : bool :=
  match s with [] => false | _ => all_digits s end.
Definition is_alpha (c : ascii) : bool :=
  let n := nat_of_ascii c in
  ((65 <=? n) && (n <=? 90) || (97 <=? n) && (n <=? 122))%nat.
Definition is_alnum (c : ascii) : bool := is_alpha c || is_digit c.
Definition is_space (c : ascii) : bool :=
  let n := nat_of_ascii c in (n =? 32)%nat || ((9 <=? n) && (n <=? 13))%nat.

(** int(s) for plain digit strings (the only use in the modelled code: counts after '|' and
    ring markers).  Python's int() also accepts surrounding blanks, a sign and underscores; the
    models call [py_int] only on text they have checked to be digits, anything else is ValueError. *)
Fixpoint digits_val (acc : Z) (s : pystr) : Z :=
  match s with [] => acc | c :: r => digits_val (acc * 10 + Z.of_nat (digit_val c))%Z r end.
Definition py_int (s : pystr) : res Z :=
  if py_isdigit s then Ok (digits_val 0 s) else Err EValue.

(** str(n) for n >= 0 *)
Fixpoint nat_digits (fuel n : nat) (acc : pystr) : pystr :=
  match fuel with
  | O => acc
  | Datatypes.S f =>
      let acc' := digit_char (n mod 10) :: acc in
      if (n <? 10)%nat then acc' else nat_digits f (n / 10) acc'
  end.
Definition str_of_nat (n : nat) : pystr := nat_digits (Datatypes.S n) n [].
Definition str_of_Z (z : Z) : pystr :=
  match z with
  | Zneg _ => "-"%char :: str_of_nat (Z.to_nat (- z))
  | _ => str_of_nat (Z.to_nat z)
  end.

(** s.split(c) for a one-character separator *)
Fixpoint split_on (c : ascii) (s : pystr) (cur : pystr) : list pystr :=
  match s with
  | [] => [rev cur]
  | x :: r => if Ascii.eqb x c then rev cur :: split_on c r [] else split_on c r (x :: cur)
  end.
Definition py_split (s : pystr) (c : ascii) : list pystr := split_on c s [].
Definition py_count (s : pystr) (c : ascii) : nat := length (filter (Ascii.eqb c) s).
(** s.find(c) *)
Fixpoint find_char (c : ascii) (s : pystr) (i : nat) : option nat :=
  match s with [] => None | x :: r => if Ascii.eqb x c then Some i else find_char c r (Datatypes.S i) end.

Fixpoint join (sep : pystr) (l : list pystr) : pystr :=
  match l with
  | [] => []
  | [x] => x
  | x :: r => x ++ sep ++ join sep r
  end.

(** generic list helpers *)
Fixpoint index_of {A} (eqb : A -> A -> bool) (x : A) (l : list A) (i : nat) : option nat :=
  match l with [] => None | y :: r => if eqb x y then Some i else index_of eqb x r (Datatypes.S i) end.
Fixpoint remove_first {A} (eqb : A -> A -> bool) (x : A) (l : list A) : option (list A) :=
  match l with
  | [] => None
  | y :: r => if eqb x y then Some r
              else match remove_first eqb x r with Some r' => Some (y :: r') | None => None end
  end.
Fixpoint zmax_list (l : list Z) (d : Z) : Z :=
  match l with [] => d | x :: r => zmax_list r (Z.max x d) end.
Definition enumerate_from {A} (start : Z) (l : list A) : list (Z * A) :=
  combine (map (fun i => (start + Z.of_nat i)%Z) (seq 0 (length l))) l.
