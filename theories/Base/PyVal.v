(** PyVal: Python values that appear as node/edge attributes, and insertion-ordered
    dictionaries (association lists with dict semantics). *)
From Coq Require Import String.
From Coq Require Import List Ascii ZArith Bool Lia.
From CGV Require Import Base.PyBase.
Import ListNotations.

(** Floats are never computed with in the models that use [pyval]: a float is carried as the
    text Python's repr() gives for it ("1.5", "0.0", "-0.25"). *)
Inductive pyval :=
| VNone
| VBool (b : bool)
| VInt (z : Z)
| VFlt (r : pystr)
| VStr (s : pystr)
| VList (l : list pyval)
| VTup (l : list pyval)
| VDict (d : list (pyval * pyval)).

Fixpoint pyval_eqb (a b : pyval) : bool :=
  let fix list_eqb (l m : list pyval) : bool :=
    match l, m with
    | [], [] => true
    | x :: l', y :: m' => pyval_eqb x y && list_eqb l' m'
    | _, _ => false
    end in
  let fix dict_eqb (l m : list (pyval * pyval)) : bool :=
    match l, m with
    | [], [] => true
    | (k, v) :: l', (k', v') :: m' => pyval_eqb k k' && pyval_eqb v v' && dict_eqb l' m'
    | _, _ => false
    end in
  match a, b with
  | VNone, VNone => true
  | VBool x, VBool y => Bool.eqb x y
  | VInt x, VInt y => Z.eqb x y
  | VFlt x, VFlt y => str_eqb x y
  | VStr x, VStr y => str_eqb x y
  | VList x, VList y => list_eqb x y
  | VTup x, VTup y => list_eqb x y
  | VDict x, VDict y => dict_eqb x y
  | _, _ => false
  end.

(** Insertion-ordered dict with string keys. *)
Definition attrs := list (pystr * pyval).
Fixpoint aget (k : pystr) (a : attrs) : option pyval :=
  match a with [] => None | (k', v) :: r => if str_eqb k k' then Some v else aget k r end.
Fixpoint aset (k : pystr) (v : pyval) (a : attrs) : attrs :=
  match a with
  | [] => [(k, v)]
  | (k', v') :: r => if str_eqb k k' then (k', v) :: r else (k', v') :: aset k v r
  end.
Fixpoint adel (k : pystr) (a : attrs) : attrs :=
  match a with [] => [] | (k', v') :: r => if str_eqb k k' then r else (k', v') :: adel k r end.
Definition ahas (k : pystr) (a : attrs) : bool := match aget k a with Some _ => true | None => false end.
(** dict.update(b) *)
Definition aupdate (a b : attrs) : attrs := fold_left (fun acc kv => aset (fst kv) (snd kv) acc) b a.

Lemma aget_aset_same k v a : aget k (aset k v a) = Some v.
Proof.
  induction a as [|[k' v'] r IH]; cbn.
  - now rewrite str_eqb_refl.
  - destruct (str_eqb k k') eqn:E; cbn; rewrite E; [reflexivity|assumption].
Qed.
Lemma aget_aset_other k k' v a : k <> k' -> aget k (aset k' v a) = aget k a.
Proof.
  intros N. induction a as [|[k2 v2] r IH]; cbn.
  - destruct (str_eqb_spec k k'); [contradiction|reflexivity].
  - destruct (str_eqb_spec k' k2) as [->|N2]; cbn.
    + destruct (str_eqb_spec k k2); [contradiction|reflexivity].
    + destruct (str_eqb k k2); [reflexivity|assumption].
Qed.

(** order-insensitive comparison of two dicts with unique keys: sort by key *)
Fixpoint str_ltb (a b : pystr) : bool :=
  match a, b with
  | [], [] => false
  | [], _ :: _ => true
  | _ :: _, [] => false
  | x :: a', y :: b' =>
      let nx := nat_of_ascii x in let ny := nat_of_ascii y in
      if (nx <? ny)%nat then true else if (ny <? nx)%nat then false else str_ltb a' b'
  end.
Fixpoint ainsert (kv : pystr * pyval) (a : attrs) : attrs :=
  match a with
  | [] => [kv]
  | kv' :: r => if str_ltb (fst kv) (fst kv') then kv :: kv' :: r else kv' :: ainsert kv r
  end.
Definition asort (a : attrs) : attrs := fold_right ainsert [] a.
Fixpoint attrs_eqb_ordered (a b : attrs) : bool :=
  match a, b with
  | [], [] => true
  | (k, v) :: a', (k', v') :: b' => str_eqb k k' && pyval_eqb v v' && attrs_eqb_ordered a' b'
  | _, _ => false
  end.
Definition attrs_eqb (a b : attrs) : bool := attrs_eqb_ordered (asort a) (asort b).

(** projections used by the models; a wrong dynamic type is what Python would raise *)
Definition as_int (v : pyval) : res Z := match v with VInt z => Ok z | VBool b => Ok (if b then 1 else 0)%Z | _ => Err EType end.
Definition as_str (v : pyval) : res pystr := match v with VStr s => Ok s | _ => Err EType end.
Definition as_list (v : pyval) : res (list pyval) := match v with VList l => Ok l | VTup l => Ok l | _ => Err EType end.
Definition truthy (v : pyval) : bool :=
  match v with
  | VNone => false
  | VBool b => b
  | VInt z => negb (Z.eqb z 0)
  | VFlt r => negb (str_eqb r (S "0.0") || str_eqb r (S "-0.0"))
  | VStr s => match s with [] => false | _ => true end
  | VList l | VTup l => match l with [] => false | _ => true end
  | VDict d => match d with [] => false | _ => true end
  end.
