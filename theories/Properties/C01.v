(** Property C01 — cutting a molecule into fragments and resolving gives the molecule back.
    What is PROVED here (for every base graph, table and search order): the WHOLE bonding step.
    If every cut bond is written as a dedicated, uniquely labelled compatible descriptor pair
    and the labels of different base edges differ on every fragment they share, then the
    bond-creation fold over all base edges (each with order = number of its cut bonds) creates
    exactly the cut bonds of the molecule — the created (atom, descriptor, atom, descriptor)
    tuples are a permutation of all cut pairs ([C01_bonding_step]; [C01_bonding_partial] is the
    one-edge version) — and [dedicated_b] / [disjoint_edges_b], the executable tests of these
    hypotheses run on every generated input, are sound.  Together with C03 (orders, no descriptor
    reused), C02 (each coarse node is a copy of its fragment: C02_frag_copy, C02_step_frag_exact),
    C09 (hydrogen completion: C09_rebuild_end_to_end, C09_rebuild_valence_sum) and C13 (descriptor
    stripping for every rendering: C13_partial; the text level "however each fragment's SMILES is
    written": C13_render_parse — the model of pysmiles' tokenizer and base parser builds exactly the
    token-level graph —, C13_index_agrees_with_parser, C01_rendering_independent_partial — ring-digit
    choice, digit vs %nn —, C01_branch_order_partial — order of sibling branches —, all stated in
    Properties/C13.v) this composes to the property; the end-to-end equality
    "resolve(cut M) = H-complete(M) = resolve(single M)" through pysmiles' parser and aromaticity
    perception is NOT a theorem: it is decided by the per-run search (tools/props/c01.py) and is
    labelled so in the evidence.  [C01_bonding_step] is therefore the part proved here. *)
From Coq Require Import String.
From Coq Require Import List Ascii ZArith Bool Permutation.
From CGV Require Import Base.PyBase Base.PyVal Gen.ResolveGen Resolve.Bonding Resolve.BondingDefs
     Resolve.BondingSpec Resolve.BondingProofs Resolve.BondingCheck Resolve.CutCheck Resolve.CutBonding Resolve.CutFold.
From CGV Require Import Base.NxGraph Resolve.GraphOps Hydro.SquashDefs Hydro.HydroDefs.
From CGV Require Hydro.Hydrogens Hydro.Squash.
From CGV Require Import Compose.GraphAdj Compose.CutModel Compose.CutSkeleton.
From CGV Require Compose.Statements Compose.TextCut Compose.TextCutExamples Reader.Grammar Resolve.Pipeline Dialect.DriverFaults.
From CGV Require Compose.AnyCut Compose.TextIso Compose.TextIsoExamples Resolve.PipelineFull Compose.ChainBase Write.PathRound Compose.TextDomain.
Import ListNotations.
Open Scope Z_scope.

Theorem C01_bonding_partial : forall legacy arom L a b s acc s' acc',
  a <> b -> wf_state s -> dedicated legacy (slookup a s) (slookup b s) L ->
  edge_loop legacy arom (length L) a b s acc = Ok (s', acc') ->
  exists new, acc' = acc ++ new /\ Permutation (map bond_cp new) L /\
              Forall (fun bd => b_src bd = a /\ b_tgt bd = b) new.
Proof. exact unique_labels_forced. Qed.

Theorem C01_bonding_step : forall legacy arom ES s acc s' acc',
  wf_state s -> Forall (ded_in legacy s) ES -> ForallOrdPairs disjoint_edges ES ->
  edges_from_bonding legacy arom (map edge_of ES) s acc = Ok (s', acc') ->
  exists new, acc' = acc ++ new /\ Permutation (map bond_cp new) (concat (map ce_L ES)) /\
              Forall (fun bd => exists e, In e ES /\ b_src bd = ce_a e /\ b_tgt bd = ce_b e) new.
Proof. exact forced_fold. Qed.

(** "in whatever order the base graph lists its nodes": the created bonds do not depend on the
    order of the base edges *)
Theorem C01_base_edge_order_independent : forall legacy arom ES ES' s s1 b1 s2 b2,
  Permutation ES ES' -> wf_state s ->
  Forall (ded_in legacy s) ES -> ForallOrdPairs disjoint_edges ES ->
  Forall (ded_in legacy s) ES' -> ForallOrdPairs disjoint_edges ES' ->
  edges_from_bonding legacy arom (map edge_of ES) s [] = Ok (s1, b1) ->
  edges_from_bonding legacy arom (map edge_of ES') s [] = Ok (s2, b2) ->
  Permutation (map bond_cp b1) (map bond_cp b2).
Proof. exact forced_fold_order_independent. Qed.

Theorem C01_disjointness_test_sound : forall es,
  pairwise_b disjoint_edges_b es = true -> ForallOrdPairs disjoint_edges es.
Proof. exact pairwise_b_sound. Qed.

Theorem C01_hypothesis_test_sound : forall legacy sr tg L,
  dedicated_b legacy sr tg L = true -> dedicated legacy sr tg L.
Proof. exact dedicated_b_sound. Qed.

(** non-vacuity: two cuts between the same two fragments with '$' and '<' '>' labels; the
    hypothesis holds and the loop returns both cut pairs although the scan order is ambiguous *)
Example C01_nonvacuous :
  let s := [(0, [(3, [S "$a1"; S ">b2"]); (5, [S "$zz1"])]); (1, [(7, [S "<b2"]); (9, [S "$a1"])])] in
  let L := [(3, S "$a1", 9, S "$a1"); (3, S ">b2", 7, S "<b2")] in
  dedicated_b true (slookup 0 s) (slookup 1 s) L = true /\
  exists s' acc', edge_loop true (fun _ => false) 2 0 1 s [] = Ok (s', acc') /\ length acc' = 2%nat.
Proof. split; [vm_compute; reflexivity|]. eexists. eexists. split; [vm_compute; reflexivity|reflexivity]. Qed.

(** non-vacuity of the fold theorem: three fragments in a row, two cuts on the middle one *)
Example C01_step_nonvacuous :
  let s := [(0, [(1, [S "$a1"])]); (1, [(2, [S "$a1"]); (3, [S ">b2"])]); (2, [(5, [S "<b2"])])] in
  let ES := [(0, 1, [(1, S "$a1", 2, S "$a1")]); (1, 2, [(3, S ">b2", 5, S "<b2")])] in
  forallb (fun e => dedicated_b true (slookup (ce_a e) s) (slookup (ce_b e) s) (ce_L e)) ES = true /\
  pairwise_b disjoint_edges_b ES = true /\
  exists s' acc', edges_from_bonding true (fun _ => false) (map edge_of ES) s [] = Ok (s', acc') /\ length acc' = 2%nat.
Proof. split; [vm_compute; reflexivity|]. split; [vm_compute; reflexivity|]. eexists. eexists. split; [vm_compute; reflexivity|reflexivity]. Qed.


(** * Graph level (theories/Compose): the disconnected step + bonding step of the resolver model on
    (base graph, template graphs) of ANY well-formed cut of a molecule M rebuild M's skeleton — nodes in
    explicit bijection (part, index) -> offset(part)+index, M's attributes, exactly M's bonds with their
    orders (descriptor digit, 1.5 between two aromatic atoms), `bonding` only on cut bonds — with totality
    proved; then no `!` bond (squash is the identity), hydrogen completion (C09) and sorting (C12).
    Legacy matching; templates without E/Z marks.  Text level (pysmiles) stays in C13. *)
Theorem C01_graph_level_skeleton : forall C, wf_cut C -> forall fd, templates_ok C fd -> forall B, is_base C B -> forall aa : bool,
  (aa = true -> forall x, In x (flat C) ->
     (exists e, aget (S "element") (payload C x) = Some e) /\ exists h, aget (S "hcount") (payload C x) = Some (VInt h)) ->
  exists m1 fg1 m2 fg2,
    resolve_disconnected fd B = Ok (m1, fg1) /\ bonding_step true aa B m1 fg1 = Ok (m2, fg2) /\ skeleton C aa m2.
Proof. exact CGV.Compose.Statements.C01_cut_bonding_skeleton. Qed.

Theorem C01_graph_level_all_atom_step : forall C, wf_cut C -> forall fd, templates_ok C fd -> forall B, is_base C B ->
  (forall x, In x (flat C) ->
     (exists e, aget (S "element") (payload C x) = Some e) /\ (exists q, aget (S "charge") (payload C x) = Some q) /\
     (exists h, aget (S "hcount") (payload C x) = Some (VInt h)) /\ Hydrogens.is_H (payload C x) = false) ->
  exists m1 fg1 m2 fg2,
    resolve_disconnected fd B = Ok (m1, fg1) /\ bonding_step true true B m1 fg1 = Ok (m2, fg2) /\
    skeleton C true m2 /\ adj_nodup m2 /\ wf_graph m2 /\ Squash.squash_atoms m2 = Ok m2.
Proof. exact CGV.Compose.Statements.C01_cut_all_atom_step. Qed.

(** hydrogen completion of the skeleton (every atom gets least fitting valence - bond sum hydrogens, heavy
    edges unchanged) and the final relabelling: statements [cut_hydrogens], [cut_sorted] *)
Definition C01_graph_level_hydrogens := CGV.Compose.Statements.C01_cut_hydrogens.
Definition C01_graph_level_sorted := CGV.Compose.Statements.C01_cut_sorted.
(** [cut_sorted] without its two side hypotheses: rebuild_h_atoms preserves wf_graph (symmetry, distinct keys) *)
Definition C09_rebuild_preserves_wf := CGV.Compose.Statements.C09_rebuild_preserves_wf.
Definition C01_graph_level_sorted_total := CGV.Compose.Statements.C01_cut_sorted_total.
(** the per-run tie: when the executable tests pass on the IMPLEMENTATION's own templates, base graph and bonded
    fine graph (clauses 121-123 of the check), the hypotheses of the graph-level theorem hold of those graphs and
    the model run returns the skeleton; [run_fail] = 0 says exactly that all of them passed *)
Definition C01_skeleton_test_sound := CGV.Compose.Statements.C01_skeleton_test_sound.
Definition C01_run_check_sound := CGV.Compose.Statements.C01_run_check_sound.
Definition C01_run_fail_zero := CGV.Compose.Statements.C01_run_fail_zero.
(** "in whatever order the base graph lists its nodes", for the graphs two whole resolve() calls RETURN: two base
    graphs of the same cut that list the parts in different orders ([pperm]) give returned all-atom graphs related
    by an explicit isomorphism - atom phi C1 x -> phi C2 x, i-th fresh hydrogen of x -> i-th fresh hydrogen of x,
    composed with the two sorting permutations - that preserves adjacency, bond orders and the atoms' attributes
    (statement [returned_iso_gen]).  Hypothesis kept: both calls return with the identity aromaticity transcript. *)
Definition C01_base_order_returned := CGV.Compose.Statements.C01_base_order_returned.
Definition C01_base_order_independent := CGV.Compose.Statements.C01_base_order_independent.
Definition C01_returned_graphs_iso := CGV.Compose.Statements.C01_returned_graphs_iso.
Definition C01_completed_iso := CGV.Compose.Statements.C01_completed_iso.
Definition C01_all_atom_step_inv := CGV.Compose.Statements.C01_all_atom_step_inv.
(** the same for ANY aromaticity transcript that Hydro's contract admits ([transcript_ok]: same keys, adjacency and node
    attributes but `aromatic`, networkx dict invariants): hydrogen count = least fitting valence minus the TRANSCRIPT's
    bond sum; the returned graphs of two runs are isomorphic when the two transcripts give the same orders through phi
    ([corr_orders]); the identity transcript is an instance *)
Definition C01_all_atom_step_car := CGV.Compose.Statements.C01_all_atom_step_car.
Definition C01_cut_hydrogens_car := CGV.Compose.Statements.C01_cut_hydrogens_car.
Definition C01_returned_graphs_iso_car := CGV.Compose.Statements.C01_returned_graphs_iso_car.
Definition C01_base_order_returned_car := CGV.Compose.Statements.C01_base_order_returned_car.
Definition C01_transcript_ok_id := CGV.Compose.Statements.C01_transcript_ok_id.
Definition C01_corr_orders_id := CGV.Compose.Statements.C01_corr_orders_id.
(** the label discipline of a well-formed cut meets the hypotheses of C01_bonding_step *)
Definition C01_cut_tables_dedicated := CGV.Compose.Statements.C01_cut_tables_dedicated.
Definition C01_cut_tables_disjoint := CGV.Compose.Statements.C01_cut_tables_disjoint.

(** * Text level (theories/Compose/TextCut.v): the same from the CGsmiles STRING.  A well-formed cut written as
    s = "{base}.{#n1=t1,...,#nk=tk}" - base = the printed form of a base-graph AST of the documented grammar (Reader,
    C04_partial) that denotes a base graph of the cut, every t_i = FragText.render of a token list with descriptors (any
    start atom / branch order / ring digits the renderer admits) that passes the strip component's [part_okb] for every
    part of that name (C13_template_is_template_checked) - is read by the string-level driver model (Pipeline.from_string
    over Reader's read_cgsmiles and [read_fragments_text] = DriverModel.read_fragments_with: fragment_split,
    strip_bonding_descriptors, pysmiles parser model + final template, first definition of a name wins) into a state
    whose only dictionary is a templates_ok dictionary, and the first resolve() - disconnected step, bonding step,
    squash_atoms - returns the SKELETON of the molecule.  Hypotheses kept: the characters find_blocks / fragment_split
    split on do not occur inside a definition / the base text ([def_clean], decided on the text); the base AST has no
    branch multiplier; the base graph carries no `atomname`; the payload has element / charge / integer hcount. *)
Theorem C01_text_level_skeleton : forall fo C a defs B, wf_cut C ->
  Reader.Grammar.wf fo a = true -> Reader.Grammar.has_branch_mult a = false -> ~ In "}"%char (Reader.Grammar.print_chain a) ->
  Reader.Grammar.denote fo a = Ok B -> is_base C B -> get_node_attributes B (S "atomname") = [] ->
  defs <> [] -> CGV.Compose.TextCut.defs_ok fo C defs ->
  (forall x, In x (flat C) ->
     (exists e, aget (S "element") (payload C x) = Some e) /\ (exists q, aget (S "charge") (payload C x) = Some q) /\
     (exists h, aget (S "hcount") (payload C x) = Some (VInt h)) /\ Hydrogens.is_H (payload C x) = false) ->
  exists st fd m1 fg1 m2 fg2,
    CGV.Compose.TextCutDefs.from_text fo (CGV.Compose.TextCut.cut_string a defs) = Ok st /\
    Pipeline.st_mol st = B /\ Pipeline.st_dicts st = [fd] /\ Pipeline.is_all_atom st = true /\ templates_ok C fd /\
    resolve_disconnected fd (CGV.Compose.ComposeFlat.next_meta (Pipeline.st_mol st)) = Ok (m1, fg1) /\
    bonding_step true true (CGV.Compose.ComposeFlat.next_meta (Pipeline.st_mol st)) m1 fg1 = Ok (m2, fg2) /\
    skeleton C true m2 /\ adj_nodup m2 /\ wf_graph m2 /\ Squash.squash_atoms m2 = Ok m2.
Proof. exact CGV.Compose.TextCut.text_level_skeleton. Qed.
(** the fragment block alone: the dictionary read from "{#n1=t1,...}" is a templates_ok dictionary *)
Theorem C01_text_templates_ok : forall fo C defs, defs <> [] -> CGV.Compose.TextCut.defs_ok fo C defs ->
  exists fd, CGV.Compose.TextCutDefs.read_fragments_text fo (Dialect.DriverFaults.block_of (CGV.Compose.TextCut.frag_body defs)) true = Ok fd /\
             templates_ok C fd.
Proof. exact CGV.Compose.TextCut.text_templates_ok. Qed.
Theorem C01_text_defs_test_sound : forall fo C defs, CGV.Compose.TextCut.defs_okb fo C defs = true -> CGV.Compose.TextCut.defs_ok fo C defs.
Proof. exact CGV.Compose.TextCut.defs_okb_sound. Qed.
(** every returned first resolve() of the full step model on the parsed state has the skeleton as bonded graph *)
Definition C01_text_level_step := CGV.Compose.TextCut.text_level_step.
(** non-vacuity: {[#A][#B][#C]}.{#A=O=C(C)[$a],#B=[$a]O[>b],#C=[<b]CC} (ethyl acetate, three fragments, the acid part
    written from the carbonyl oxygen): all hypotheses hold, and the model run on the string returns the six heavy atoms
    with the five bonds of the molecule *)
Example C01_text_level_nonvacuous :
  to_string CGV.Compose.TextCutExamples.ea_string = "{[#A][#B][#C]}.{#A=O=C(C)[$a],#B=[$a]O[>b],#C=[<b]CC}"%string /\
  (exists st fd m1 fg1 m2 fg2,
    CGV.Compose.TextCutDefs.from_text CGV.Compose.TextCutExamples.fo0 CGV.Compose.TextCutExamples.ea_string = Ok st /\
    Pipeline.st_dicts st = [fd] /\ Pipeline.is_all_atom st = true /\ templates_ok CGV.Compose.TextCutExamples.ea_cut fd /\
    resolve_disconnected fd (CGV.Compose.ComposeFlat.next_meta (Pipeline.st_mol st)) = Ok (m1, fg1) /\
    bonding_step true true (CGV.Compose.ComposeFlat.next_meta (Pipeline.st_mol st)) m1 fg1 = Ok (m2, fg2) /\
    skeleton CGV.Compose.TextCutExamples.ea_cut true m2 /\ Squash.squash_atoms m2 = Ok m2).
Proof. split; [exact CGV.Compose.TextCutExamples.ea_string_text|exact CGV.Compose.TextCutExamples.ea_text_level_skeleton]. Qed.

(** "wherever the cuts are placed, however each fragment's SMILES is written and in whatever order the base graph lists
    its nodes" (Compose/AnyCut.v, TextIso.v).  [same_mol C1 C2]: two cuts of ONE molecule - same atoms with the same
    payload but `hcount` (the template's, which depends on the cut placement), same bonds (ends and orders; labels and descriptor kinds may differ), same atom set; partitions,
    order of the parts, order of the atoms inside a part (start atom, branch order) and descriptor orders are free.
    Graph level: the returned molecules of two whole all-atom resolve steps on such cuts are isomorphic by the explicit map
    [iso].  Text level: two STRINGS describing such cuts ([written]: the hypotheses of C01_text_level_skeleton as a record,
    decided by [writtenb]) are parsed by the driver model, and whenever both first resolve() return the returned molecules
    are isomorphic.  Hypotheses kept between the runs: Hydro's contract for the two aromaticity transcripts and
    [corr_orders] (the same bond gets the same order in both). *)
Theorem C01_returned_graphs_iso_any : forall C1 C2 fd1 fd2 prev1 prev2 car1 car2 fo1 fo2 ms1 ms2,
  wf_cut C1 -> CGV.Compose.AnyCut.same_mol C1 C2 -> wf_cut C2 ->
  CGV.Compose.OrderIndep.heavy_payload C1 -> CGV.Compose.OrderIndep.heavy_payload C2 ->
  templates_ok C1 fd1 -> is_base C1 (CGV.Compose.ComposeFlat.next_meta prev1) ->
  templates_ok C2 fd2 -> is_base C2 (CGV.Compose.ComposeFlat.next_meta prev2) ->
  PipelineFull.resolve_step_full true true fd1 prev1 (Some car1) = Ok fo1 ->
  PipelineFull.resolve_step_full true true fd2 prev2 (Some car2) = Ok fo2 ->
  CGV.Compose.Transcript.transcript_ok (PipelineFull.fo_m3 fo1) car1 -> CGV.Compose.Transcript.transcript_ok (PipelineFull.fo_m3 fo2) car2 ->
  CGV.Compose.CutIsoCar.corr_orders C1 C2 car1 car2 ->
  sort_mapping (PipelineFull.fo_m4 fo1) = Ok ms1 -> sort_mapping (PipelineFull.fo_m4 fo2) = Ok ms2 ->
  CGV.Compose.CompletionCar.completion_car C1 car1 (PipelineFull.fo_m4 fo1) /\
  CGV.Compose.CompletionCar.completion_car C2 car2 (PipelineFull.fo_m4 fo2) /\
  CGV.Compose.CutIsoCar.returned_iso_car CGV.Compose.ReturnedIso.after_sort_key C1 C2 car1 (PipelineFull.fo_m4 fo1) car2 (PipelineFull.fo_m4 fo2)
    (PipelineFull.fo_mol fo1) (PipelineFull.fo_mol fo2) ms1 ms2.
Proof. exact CGV.Compose.AnyCut.returned_graphs_iso_any. Qed.
Theorem C01_text_returned_iso : forall fo C1 C2 a1 defs1 B1 a2 defs2 B2,
  wf_cut C1 -> wf_cut C2 -> CGV.Compose.AnyCut.same_mol C1 C2 ->
  CGV.Compose.OrderIndep.heavy_payload C1 -> CGV.Compose.OrderIndep.heavy_payload C2 ->
  CGV.Compose.TextIso.written fo C1 a1 defs1 B1 -> CGV.Compose.TextIso.written fo C2 a2 defs2 B2 ->
  exists st1 fd1 st2 fd2,
    CGV.Compose.TextCutDefs.from_text fo (CGV.Compose.TextCut.cut_string a1 defs1) = Ok st1 /\ Pipeline.st_dicts st1 = [fd1] /\
    CGV.Compose.TextCutDefs.from_text fo (CGV.Compose.TextCut.cut_string a2 defs2) = Ok st2 /\ Pipeline.st_dicts st2 = [fd2] /\
    forall car1 car2 fo1 fo2 ms1 ms2,
      PipelineFull.resolve_step_full (Pipeline.st_legacy st1) (Pipeline.is_all_atom st1) fd1 (Pipeline.st_mol st1) (Some car1) = Ok fo1 ->
      PipelineFull.resolve_step_full (Pipeline.st_legacy st2) (Pipeline.is_all_atom st2) fd2 (Pipeline.st_mol st2) (Some car2) = Ok fo2 ->
      CGV.Compose.Transcript.transcript_ok (PipelineFull.fo_m3 fo1) car1 -> CGV.Compose.Transcript.transcript_ok (PipelineFull.fo_m3 fo2) car2 ->
      CGV.Compose.CutIsoCar.corr_orders C1 C2 car1 car2 ->
      sort_mapping (PipelineFull.fo_m4 fo1) = Ok ms1 -> sort_mapping (PipelineFull.fo_m4 fo2) = Ok ms2 ->
      CGV.Compose.CutIsoCar.returned_iso_car CGV.Compose.ReturnedIso.after_sort_key C1 C2 car1 (PipelineFull.fo_m4 fo1) car2 (PipelineFull.fo_m4 fo2)
        (PipelineFull.fo_mol fo1) (PipelineFull.fo_mol fo2) ms1 ms2.
Proof. exact CGV.Compose.TextIso.text_returned_iso. Qed.
Definition C01_same_mol_test_sound := CGV.Compose.TextIso.same_molb_sound.
Definition C01_written_test_sound := CGV.Compose.TextIso.writtenb_sound.
Definition C01_same_mol_of_pperm := CGV.Compose.AnyCut.same_mol_of_pperm.
(** non-vacuity: ethyl acetate as {[#A][#B][#C]}.{#A=O=C(C)[$a],#B=[$a]O[>b],#C=[<b]CC} and as
    {[#Y][#X]}.{#X=CC(=O)O[$z],#Y=[$z]CC}: all hypotheses hold; both resolve() of the model return with the identity
    transcript and the map (not the identity) preserves adjacency, orders and elements of the 14-atom molecules *)
Definition C01_text_returned_iso_nonvacuous := CGV.Compose.TextIsoExamples.ea_text_returned_iso.
Definition C01_text_returned_iso_hypotheses := CGV.Compose.TextIsoExamples.ea_two_descriptions.
Definition C01_text_returned_iso_executed := CGV.Compose.TextIsoExamples.ea_returned_iso_executed.

(** the base-graph hypothesis DISCHARGED for base graphs written as a chain "{[#n0]s1[#n1]...[#nk]}" (Compose/ChainBase.v):
    when the parts of the cut are named n0..nk along the chain, o_i (0..4, written as nothing = # $ or .) is the number of
    cut bonds between part i-1 and part i, and every cut bond joins consecutive parts ([chain_cut]), the graph the reader
    model returns for the chain text (Write/PathRound.nx_build, through Reader's reader_sim_lin) IS a base graph of the cut,
    so the text theorem holds with no hypothesis on the base graph left to compute.  Node names: accepted by the grammar,
    parsed to attributes with fragname = the name and no atomname ([name_plain]; plain names: PathRound.plain_attrs). *)
Theorem C01_chain_is_base : forall C A nm0 l, wf_cut C -> CGV.Compose.ChainBase.chain_cut C nm0 l ->
  (forall n, In n (Write.PathRound.path_names nm0 l) -> aget (S "fragname") (A n) = Some (VStr n)) ->
  is_base C (Write.PathRound.nx_build A nm0 l).
Proof. exact CGV.Compose.ChainBase.chain_is_base. Qed.
Theorem C01_chain_text_level_skeleton : forall fo A C nm0 l defs, wf_cut C -> CGV.Compose.ChainBase.chain_cut C nm0 l ->
  Forall (fun x => 0 <= fst (fst x) <= 4) l -> Forall (CGV.Compose.ChainBase.name_plain fo A) (Write.PathRound.path_names nm0 l) ->
  defs <> [] -> CGV.Compose.TextCut.defs_ok fo C defs -> CGV.Compose.TextCut.heavy_atoms C ->
  exists st fd m1 fg1 m2 fg2,
    CGV.Compose.TextCutDefs.from_text fo (CGV.Compose.TextCut.cut_string_of (CGV.Compose.ChainBase.chain_body nm0 l) defs) = Ok st /\
    Pipeline.st_mol st = Write.PathRound.nx_build A nm0 l /\ Pipeline.st_dicts st = [fd] /\ Pipeline.is_all_atom st = true /\
    Pipeline.st_legacy st = true /\ templates_ok C fd /\
    resolve_disconnected fd (CGV.Compose.ComposeFlat.next_meta (Pipeline.st_mol st)) = Ok (m1, fg1) /\
    bonding_step true true (CGV.Compose.ComposeFlat.next_meta (Pipeline.st_mol st)) m1 fg1 = Ok (m2, fg2) /\
    skeleton C true m2 /\ adj_nodup m2 /\ wf_graph m2 /\ Squash.squash_atoms m2 = Ok m2.
Proof. exact CGV.Compose.ChainBase.chain_text_level_skeleton. Qed.
(** the same theorem for ANY base text the reader model reads (the AST form above and the chain form are instances) *)
Definition C01_text_level_skeleton_body := CGV.Compose.TextCut.text_level_skeleton_body.
(** non-vacuity: the ethyl acetate string above is the chain A - B - C *)
Definition C01_chain_text_level_nonvacuous := CGV.Compose.ChainBase.ea_chain_text_level_skeleton.

(** ONE executable test for all hypotheses of the text theorem (Compose/TextDomain.v): when [text_domainb fo C body defs]
    computes to true the string "{body}.{#n1=t1,...}" is parsed by the driver model and its first resolve() returns the
    skeleton.  Measured (tools/props/c01.py --text-domain, not part of the check): a Python tokenizer proposes tokens and
    descriptor decoration for every fragment text of a generated cut string, Coq re-renders them, compares with the written
    text and evaluates the test ([td_class] = 0): 600 of 600 generated strings of seeds 0 and 1 are inside the theorem. *)
Theorem C01_text_domain_sound : forall fo C body defs, CGV.Compose.TextDomain.text_domainb fo C body defs = true ->
  exists st fd m1 fg1 m2 fg2,
    CGV.Compose.TextCutDefs.from_text fo (CGV.Compose.TextCut.cut_string_of body defs) = Ok st /\ Pipeline.st_dicts st = [fd] /\
    Pipeline.is_all_atom st = true /\ Pipeline.st_legacy st = true /\ templates_ok C fd /\ is_base C (Pipeline.st_mol st) /\
    resolve_disconnected fd (CGV.Compose.ComposeFlat.next_meta (Pipeline.st_mol st)) = Ok (m1, fg1) /\
    bonding_step true true (CGV.Compose.ComposeFlat.next_meta (Pipeline.st_mol st)) m1 fg1 = Ok (m2, fg2) /\
    skeleton C true m2 /\ adj_nodup m2 /\ wf_graph m2 /\ Squash.squash_atoms m2 = Ok m2.
Proof. exact CGV.Compose.TextDomain.text_domain_sound. Qed.
Definition C01_text_domain_class_zero := CGV.Compose.TextDomain.td_class_zero.

(** ... and ONE executable test for the hypotheses of the text-level isomorphism theorem but the transcript ones
    ([iso_domainb]: both descriptions pass text_domainb and the two cut records are same_mol).  Measured
    (tools/props/c01.py --text-iso): for every generated case whose two strings write the same molecule - the cut string and
    the uncut molecule as a single fragment, "{[#M]}.{#M=...}", another start atom and branch order - the test is true, so
    "the result is the same as resolving the uncut molecule given as a single fragment" holds of the model's returned
    molecules up to the explicit isomorphism whenever both calls return and the aromaticity transcripts agree. *)
Theorem C01_text_iso_domain_sound : forall fo C1 body1 defs1 C2 body2 defs2,
  CGV.Compose.TextDomain.iso_domainb fo C1 body1 defs1 C2 body2 defs2 = true ->
  exists st1 fd1 st2 fd2,
    CGV.Compose.TextCutDefs.from_text fo (CGV.Compose.TextCut.cut_string_of body1 defs1) = Ok st1 /\ Pipeline.st_dicts st1 = [fd1] /\
    CGV.Compose.TextCutDefs.from_text fo (CGV.Compose.TextCut.cut_string_of body2 defs2) = Ok st2 /\ Pipeline.st_dicts st2 = [fd2] /\
    forall car1 car2 fo1 fo2 ms1 ms2,
      PipelineFull.resolve_step_full (Pipeline.st_legacy st1) (Pipeline.is_all_atom st1) fd1 (Pipeline.st_mol st1) (Some car1) = Ok fo1 ->
      PipelineFull.resolve_step_full (Pipeline.st_legacy st2) (Pipeline.is_all_atom st2) fd2 (Pipeline.st_mol st2) (Some car2) = Ok fo2 ->
      CGV.Compose.Transcript.transcript_ok (PipelineFull.fo_m3 fo1) car1 -> CGV.Compose.Transcript.transcript_ok (PipelineFull.fo_m3 fo2) car2 ->
      CGV.Compose.CutIsoCar.corr_orders C1 C2 car1 car2 ->
      sort_mapping (PipelineFull.fo_m4 fo1) = Ok ms1 -> sort_mapping (PipelineFull.fo_m4 fo2) = Ok ms2 ->
      CGV.Compose.CutIsoCar.returned_iso_car CGV.Compose.ReturnedIso.after_sort_key C1 C2 car1 (PipelineFull.fo_m4 fo1) car2 (PipelineFull.fo_m4 fo2)
        (PipelineFull.fo_mol fo1) (PipelineFull.fo_mol fo2) ms1 ms2.
Proof. exact CGV.Compose.TextDomain.iso_domain_sound. Qed.

(** the identity transcript (the aromaticity pass changes nothing) with every cut bond re-created with its own order
    ([faithful]): NO hypothesis between the two runs is left - whenever both first resolve() of the model return with the
    identity transcript, the returned molecules of the two strings are isomorphic *)
Theorem C01_text_returned_iso_id : forall fo C1 C2 a1 defs1 B1 a2 defs2 B2,
  wf_cut C1 -> wf_cut C2 -> CGV.Compose.AnyCut.same_mol C1 C2 ->
  CGV.Compose.OrderIndep.heavy_payload C1 -> CGV.Compose.OrderIndep.heavy_payload C2 ->
  CGV.Compose.TextIso.faithful C1 -> CGV.Compose.TextIso.faithful C2 ->
  CGV.Compose.TextIso.written fo C1 a1 defs1 B1 -> CGV.Compose.TextIso.written fo C2 a2 defs2 B2 ->
  exists st1 fd1 st2 fd2,
    CGV.Compose.TextCutDefs.from_text fo (CGV.Compose.TextCut.cut_string a1 defs1) = Ok st1 /\ Pipeline.st_dicts st1 = [fd1] /\
    CGV.Compose.TextCutDefs.from_text fo (CGV.Compose.TextCut.cut_string a2 defs2) = Ok st2 /\ Pipeline.st_dicts st2 = [fd2] /\
    forall fo1 fo2 ms1 ms2,
      PipelineFull.resolve_step_full (Pipeline.st_legacy st1) (Pipeline.is_all_atom st1) fd1 (Pipeline.st_mol st1) (Some (PipelineFull.fo_m3 fo1)) = Ok fo1 ->
      PipelineFull.resolve_step_full (Pipeline.st_legacy st2) (Pipeline.is_all_atom st2) fd2 (Pipeline.st_mol st2) (Some (PipelineFull.fo_m3 fo2)) = Ok fo2 ->
      sort_mapping (PipelineFull.fo_m4 fo1) = Ok ms1 -> sort_mapping (PipelineFull.fo_m4 fo2) = Ok ms2 ->
      CGV.Compose.CutIsoCar.returned_iso_car CGV.Compose.ReturnedIso.after_sort_key C1 C2 (PipelineFull.fo_m3 fo1) (PipelineFull.fo_m4 fo1)
        (PipelineFull.fo_m3 fo2) (PipelineFull.fo_m4 fo2) (PipelineFull.fo_mol fo1) (PipelineFull.fo_mol fo2) ms1 ms2.
Proof. exact CGV.Compose.TextIso.text_returned_iso_id. Qed.
Definition C01_text_returned_iso_id_nonvacuous := CGV.Compose.TextIsoExamples.ea_text_returned_iso_id.

Print Assumptions C01_bonding_partial.
Print Assumptions C01_bonding_step.
Print Assumptions C01_disjointness_test_sound.
Print Assumptions C01_base_edge_order_independent.
Print Assumptions C01_graph_level_skeleton.
Print Assumptions C01_graph_level_all_atom_step.
Print Assumptions C01_graph_level_hydrogens.
Print Assumptions C01_graph_level_sorted.
Print Assumptions C09_rebuild_preserves_wf.
Print Assumptions C01_graph_level_sorted_total.
Print Assumptions C01_skeleton_test_sound.
Print Assumptions C01_run_check_sound.
Print Assumptions C01_run_fail_zero.
Print Assumptions C01_base_order_returned.
Print Assumptions C01_base_order_independent.
Print Assumptions C01_returned_graphs_iso.
Print Assumptions C01_completed_iso.
Print Assumptions C01_all_atom_step_inv.
Print Assumptions C01_all_atom_step_car.
Print Assumptions C01_cut_hydrogens_car.
Print Assumptions C01_returned_graphs_iso_car.
Print Assumptions C01_base_order_returned_car.
Print Assumptions C01_transcript_ok_id.
Print Assumptions C01_corr_orders_id.
Print Assumptions C01_hypothesis_test_sound.
Print Assumptions C01_text_level_skeleton.
Print Assumptions C01_text_templates_ok.
Print Assumptions C01_text_defs_test_sound.
Print Assumptions C01_text_level_step.
Print Assumptions C01_returned_graphs_iso_any.
Print Assumptions C01_text_returned_iso.
Print Assumptions C01_same_mol_test_sound.
Print Assumptions C01_written_test_sound.
Print Assumptions C01_text_returned_iso_executed.
Print Assumptions C01_chain_is_base.
Print Assumptions C01_chain_text_level_skeleton.
Print Assumptions C01_text_level_skeleton_body.
Print Assumptions C01_chain_text_level_nonvacuous.
Print Assumptions C01_text_domain_sound.
Print Assumptions C01_text_domain_class_zero.
Print Assumptions C01_text_iso_domain_sound.
Print Assumptions C01_text_returned_iso_id.
Print Assumptions C01_text_returned_iso_id_nonvacuous.
