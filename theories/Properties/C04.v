(** Property C04 — the graph reader implements the documented grammar.
    Statements only; proofs live in Reader/ReaderProofs*.v.  [read_cgsmiles] is the Impl model
    (Reader/ReaderImpl.v, tied to /repo by the per-run correspondence), [denote] the grammar's
    denotation (Reader/Grammar.v). *)
From Coq Require Import String.
From Coq Require Import List Ascii ZArith Bool.
From CGV Require Import Base.PyBase Base.PyVal Base.NxGraph Dialect.DialectImpl Reader.ReaderImpl Reader.Grammar
     Reader.ReaderCheck Reader.Lin Reader.ReaderSim Reader.ReaderMult Reader.ReaderAst Reader.ReaderWf Reader.ReaderRing Reader.ReaderEnd
     Gen.ReaderEnumGen Reader.ReaderSmall.
Import ListNotations.
Open Scope Z_scope.

Definition fo0 : float_oracle := fun _ => None.
Definition nd (n : string) : item := Item (S n) [] None None [].

(** repaired (fix 0460546): {[#A]([#B]([#C]))[#D]}, both closings behind C are processed, D is bonded to A *)
Example C04_fixed_double_close :
  let a := [Item (S "A") [] None None [Branch [Item (S "B") [] None None [Branch [nd "C"] None None]] None None]; nd "D"] in
  wf fo0 a = true /\ model_C04 fo0 true a = 0%nat
  /\ exists g, read_cgsmiles fo0 (print true a) = Ok g /\ edge_get g 0 3 (S "order") = Some (VInt 1) /\ edge_get g 1 3 (S "order") = None.
Proof. vm_compute. repeat split. eexists. repeat split. Qed.
(** repaired (fix fd2fb55): [#A]%12[#B][#C]%12, a coarse fragment text without braces ending in a %nn marker,
    is read as the triangle it denotes *)
Example C04_fixed_pct_at_end :
  let a := [Item (S "A") [(None, MPct [1%nat; 2%nat])] None None []; nd "B"; Item (S "C") [(None, MPct [1%nat; 2%nat])] None None []] in
  wf fo0 a = true /\ model_C04 fo0 false a = 0%nat
  /\ exists g, read_cgsmiles fo0 (print false a) = Ok g /\ length (edges_data g) = 3%nat.
Proof. vm_compute. repeat split. eexists. split; reflexivity. Qed.
(** repaired (fix f80d9d3): {[#A]|3=[#B]}, the symbol behind the count is the bond leaving the last copy *)
Example C04_fixed_nodemult_sym :
  let a := [Item (S "A") [] (Some [3%nat]) (Some SDouble) []; nd "B"] in
  wf fo0 a = true /\ model_C04 fo0 true a = 0%nat
  /\ exists g, read_cgsmiles fo0 (print true a) = Ok g /\ edge_get g 2 3 (S "order") = Some (VInt 2) /\ edge_get g 0 1 (S "order") = Some (VInt 1).
Proof. vm_compute. repeat split. eexists. repeat split. Qed.

(** THE HEADLINE, UNBOUNDED, NO EXCLUDED CLASS.  For every base-graph string of the documented grammar
    (well-formed AST: chains, nested branches - also several branches closing behind one node -, every
    bond-symbol position, single-digit and %nn ring bonds with symbols on the opening marker, node
    multipliers with or without a following symbol), printed in braces (base graphs) or without (coarse
    fragment texts, also when they end in a %nn marker), the reader model returns EXACTLY what the
    grammar denotes: the same graph with the same node and edge iteration orders, or the same error
    (dangling ring, duplicate edge, annotation errors).  "Partial" only in that strings with BRANCH
    multipliers are the subject of C05. *)
Theorem C04_partial : forall fo braces a, wf fo a = true -> has_branch_mult a = false ->
  read_cgsmiles fo (print braces a) = denote fo a.
Proof. exact reader_sim_grammar. Qed.
(** the same in the shape the check numbers defect classes (class_C04 is 0 for every AST now) *)
Theorem C04_partial_class : forall fo braces a, wf fo a = true -> has_branch_mult a = false -> class_C04 braces a = 0%nat ->
  read_cgsmiles fo (print braces a) = denote fo a.
Proof. exact reader_sim_C04. Qed.
(** the flat forms the proof goes through: items with any number of closings (Reader/ReaderX.v) and, as
    used by other components, items with at most one closing (Reader/Lin.v) *)
Theorem C04_xflat_strings : forall fo l, xlins_ok fo l = true -> l <> [] ->
  read_cgsmiles fo ("{"%char :: xlins_str l ++ ["}"%char]) = denote_x fo l.
Proof. exact reader_sim_x. Qed.
Theorem C04_flat_strings : forall fo l, lins_ok fo l = true ->
  read_cgsmiles fo ("{"%char :: lins_str l ++ ["}"%char]) = denote_lin fo l.
Proof. exact reader_sim_lin. Qed.
Theorem C04_partial_flat : forall fo a, flat_ok fo a = true -> read_cgsmiles fo (print true a) = denote fo a.
Proof. exact reader_sim_ast. Qed.

(** the ring table is independent of the branch and multiplier logic (used by C20): a graph is only
    returned when the marker trace of the text ends empty, whatever else the text contains *)
Theorem C04_ring_table_invariant : forall fo s g, read_cgsmiles fo s = Ok g -> marker_trace s = Ok [].
Proof. exact ring_table_invariant. Qed.

(** non-vacuity: {[#A;q=1]=%12([#B]|3([#C]-1)$[#D]1)[#F][#E]%12} is in the domain and denotes a graph *)
Example C04_partial_nonvacuous :
  let a := [Item (S "A;q=1") [(Some SDouble, MPct [1%nat; 2%nat])] None None
              [Branch [Item (S "B") [] (Some [3%nat]) None [Branch [Item (S "C") [(Some SSingle, MDigit 1)] None None []] None (Some SQuad)];
                       Item (S "D") [(None, MDigit 1)] None None []] None None];
            nd "F"; Item (S "E") [(None, MPct [1%nat; 2%nat])] None None []] in
  let fo := fo_of_table [(S "1", Some (S "1.0"))] in
  flat_ok fo a = true /\ wf fo a = true /\ exists g, denote fo a = Ok g /\ length (nodes_data g) = 8%nat.
Proof. vm_compute. repeat split. eexists. split; reflexivity. Qed.
(** non-vacuity with three branches closing behind one node: {[#A]([#B]([#C]([#D])))=[#E]} *)
Example C04_partial_nonvacuous_closings :
  let a := [Item (S "A") [] None None
              [Branch [Item (S "B") [] None None [Branch [Item (S "C") [] None None [Branch [nd "D"] None None]] None None]] None (Some SDouble)];
            nd "E"] in
  wf fo0 a = true /\ has_branch_mult a = false /\ xlins_ok fo0 (linearize_x a) = true
  /\ print true a = S "{[#A]([#B]([#C]([#D])))=[#E]}"
  /\ exists g, read_cgsmiles fo0 (print true a) = Ok g /\ edge_get g 0 4 (S "order") = Some (VInt 2).
Proof. vm_compute. repeat split. eexists. split; reflexivity. Qed.
(** non-vacuity with a ring id that is closed and reopened behind the same node (two rings sharing a node):
    {[#A]1[#B][#C]11[#D][#E]1} denotes the ring bonds A-C and C-E *)
Example C04_partial_nonvacuous_ring_reuse :
  let a := [Item (S "A") [(None, MDigit 1)] None None []; nd "B";
            Item (S "C") [(None, MDigit 1); (None, MDigit 1)] None None []; nd "D"; Item (S "E") [(None, MDigit 1)] None None []] in
  wf fo0 a = true /\ has_branch_mult a = false /\ print true a = S "{[#A]1[#B][#C]11[#D][#E]1}"
  /\ exists g, read_cgsmiles fo0 (print true a) = Ok g /\ edge_get g 0 2 (S "order") = Some (VInt 1)
                /\ edge_get g 2 4 (S "order") = Some (VInt 1) /\ length (edges_data g) = 6%nat.
Proof. vm_compute. repeat split. eexists. repeat split. Qed.
Theorem C04_flat_covers_small :
  forallb (fun a => has_branch_mult a || xlins_ok fo_none (linearize_x a)) small_c04 = true.
Proof. exact C04_xflat_small_list. Qed.

(** BOUNDED: every AST of the complete enumerated list [small_c04] (bound = the enumerator parameters
    recorded in Gen/ReaderEnumGen.v and Reader/ReaderSmall.v) is in the grammar, and the model returns
    exactly the denoted graph (same iteration orders); no AST is excluded (class_C04 = 0 everywhere) *)
Theorem C04_small : forallb (fun a => wf fo_none a && c04_ok a) small_c04 = true.
Proof. exact C04_small_list. Qed.
Theorem C04_small_not_vacuous : (5000 <=? length (filter (fun a => Nat.eqb (class_C04 true a) 0) small_c04))%nat = true.
Proof. exact C04_small_nonvacuous. Qed.

Print Assumptions C04_partial_class.
Print Assumptions C04_xflat_strings.
Print Assumptions C04_ring_table_invariant.
Print Assumptions C04_flat_strings.
Print Assumptions C04_partial.
Print Assumptions C04_partial_flat.
Print Assumptions C04_small.
