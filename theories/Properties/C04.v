(** Property C04 — the graph reader implements the documented grammar.
    Statements only; proofs live in Reader/ReaderProofs*.v.  [read_cgsmiles] is the Impl model
    (Reader/ReaderImpl.v, tied to /repo by the per-run correspondence), [denote] the grammar's
    denotation (Reader/Grammar.v). *)
From Coq Require Import String.
From Coq Require Import List Ascii ZArith Bool.
From CGV Require Import Base.PyBase Base.PyVal Base.NxGraph Dialect.DialectImpl Reader.ReaderImpl Reader.Grammar
     Reader.ReaderCheck Gen.ReaderEnumGen Reader.ReaderSmall.
Import ListNotations.
Open Scope Z_scope.

Definition fo0 : float_oracle := fun _ => None.
Definition nd (n : string) : item := Item (S n) [] None None [].

(** FULL STATEMENT (not provable for the current code, see the _refuted theorems):
      forall fo braces a, wf fo a = true -> has_branch_mult a = false ->
        read_cgsmiles fo (print braces a) = denote fo a. *)

(** {[#A]([#B]([#C]))[#D]}: D is attached to B (only one ')' is processed per node) *)
Theorem C04_refuted_double_close : exists a,
  wf fo0 a = true /\ class_C04 true a = 1%nat /\ model_C04 fo0 true a <> 0%nat.
Proof.
  exists [Item (S "A") [] None None [Branch [Item (S "B") [] None None [Branch [nd "C"] None None]] None None]; nd "D"].
  vm_compute. repeat split; discriminate.
Qed.
(** [#A]%12[#B][#C]%12 (a coarse fragment text, no braces): the final %nn marker is never closed *)
Theorem C04_refuted_pct_at_end : exists a,
  wf fo0 a = true /\ class_C04 false a = 2%nat /\ model_C04 fo0 false a <> 0%nat.
Proof.
  exists [Item (S "A") [(None, MPct [1%nat; 2%nat])] None None []; nd "B"; Item (S "C") [(None, MPct [1%nat; 2%nat])] None None []].
  vm_compute. repeat split; discriminate.
Qed.
(** {[#A]|3=[#B]}: ValueError, the symbol is swallowed by the count *)
Theorem C04_refuted_nodemult_sym : exists a,
  wf fo0 a = true /\ class_C04 true a = 3%nat /\ model_C04 fo0 true a <> 0%nat.
Proof.
  exists [Item (S "A") [] (Some [3%nat]) (Some SDouble) []; nd "B"].
  vm_compute. repeat split; discriminate.
Qed.

(** BOUNDED: every AST of the complete enumerated list [small_c04] (bound = the enumerator parameters
    recorded in Gen/ReaderEnumGen.v and Reader/ReaderSmall.v) is in the grammar, and outside the three
    defect classes the model returns exactly the denoted graph (same iteration orders) *)
Theorem C04_small : forallb (fun a => wf fo_none a && c04_ok a) small_c04 = true.
Proof. exact C04_small_list. Qed.
Theorem C04_small_not_vacuous : (5000 <=? length (filter (fun a => Nat.eqb (class_C04 true a) 0) small_c04))%nat = true.
Proof. exact C04_small_nonvacuous. Qed.

Print Assumptions C04_small.
Print Assumptions C04_refuted_double_close.
Print Assumptions C04_refuted_pct_at_end.
Print Assumptions C04_refuted_nodemult_sym.
