(** Property C04 — the graph reader implements the documented grammar.
    Statements only; proofs live in Reader/ReaderProofs*.v.  [read_cgsmiles] is the Impl model
    (Reader/ReaderImpl.v, tied to /repo by the per-run correspondence), [denote] the grammar's
    denotation (Reader/Grammar.v). *)
From Coq Require Import String.
From Coq Require Import List Ascii ZArith Bool.
From CGV Require Import Base.PyBase Base.PyVal Base.NxGraph Dialect.DialectImpl Reader.ReaderImpl Reader.Grammar
     Reader.ReaderCheck Reader.Lin Reader.ReaderSim Reader.ReaderMult Reader.ReaderAst Reader.ReaderWf Reader.ReaderRing Reader.ReaderEnd
     Gen.ReaderEnumGen Reader.ReaderSmall.
Import ListNotations.
Open Scope Z_scope.

Definition fo0 : float_oracle := fun _ => None.
Definition nd (n : string) : item := Item (S n) [] None None [].

(** FULL STATEMENT (not provable for the current code, see the _refuted theorems):
      forall fo braces a, wf fo a = true -> has_branch_mult a = false ->
        read_cgsmiles fo (print braces a) = denote fo a. *)

(** {[#A]([#B]([#C]))[#D]}: D is attached to B (only one ')' is processed per node) *)
Theorem C04_refuted_double_close : exists a,
  wf fo0 a = true /\ class_C04 true a = 1%nat /\ model_C04 fo0 true a <> 0%nat.
Proof.
  exists [Item (S "A") [] None None [Branch [Item (S "B") [] None None [Branch [nd "C"] None None]] None None]; nd "D"].
  vm_compute. repeat split; discriminate.
Qed.
(** [#A]%12[#B][#C]%12 (a coarse fragment text, no braces): the final %nn marker is never closed *)
Theorem C04_refuted_pct_at_end : exists a,
  wf fo0 a = true /\ class_C04 false a = 2%nat /\ model_C04 fo0 false a <> 0%nat.
Proof.
  exists [Item (S "A") [(None, MPct [1%nat; 2%nat])] None None []; nd "B"; Item (S "C") [(None, MPct [1%nat; 2%nat])] None None []].
  vm_compute. repeat split; discriminate.
Qed.
(** {[#A]|3=[#B]}: ValueError, the symbol is swallowed by the count *)
Theorem C04_refuted_nodemult_sym : exists a,
  wf fo0 a = true /\ class_C04 true a = 3%nat /\ model_C04 fo0 true a <> 0%nat.
Proof.
  exists [Item (S "A") [] (Some [3%nat]) (Some SDouble) []; nd "B"].
  vm_compute. repeat split; discriminate.
Qed.

(** UNBOUNDED, partial.  For every flat string of the grammar (Reader/Lin.v: chains, node
    multipliers without a following symbol, nested branches in which no node closes two branches, every
    bond-symbol position, single-digit and %nn ring bonds with symbols on the opening marker; strings in
    braces) the reader model returns EXACTLY what the token machine denotes: the same graph with the same
    node and edge iteration orders, or the same error (dangling ring, duplicate edge, annotation errors).
    Missing from the full statement: the defect classes (refuted below). *)
Theorem C04_flat_strings : forall fo l, lins_ok fo l = true ->
  read_cgsmiles fo ("{"%char :: lins_str l ++ ["}"%char]) = denote_lin fo l.
Proof. exact reader_sim_lin. Qed.
Theorem C04_partial_flat : forall fo a, flat_ok fo a = true -> read_cgsmiles fo (print true a) = denote fo a.
Proof. exact reader_sim_ast. Qed.
(** THE HEADLINE, UNBOUNDED: for every base-graph string of the documented grammar (well-formed AST, printed
    in braces, node multipliers allowed) that lies outside the defect classes double_close and nodemult_sym
    and carries no branch multiplier (those are C05's subject), the reader model returns exactly the denoted
    graph.  This is the full statement of C04 minus the named classes. *)
Theorem C04_partial_wf : forall fo a, wf fo a = true -> has_branch_mult a = false ->
  cls_double_close a = false -> cls_nodemult_sym a = false ->
  read_cgsmiles fo (print true a) = denote fo a.
Proof. intros fo a H1 H2 H3 H4. apply reader_sim_ast. now apply flat_ok_of_wf. Qed.
(** THE SAME FOR BOTH KINDS OF TEXT (base graphs in braces, coarse fragment texts without), with the defect
    classes as the check numbers them: class_C04 = 0 means outside double_close, pct_at_end, nodemult_sym *)
Theorem C04_partial : forall fo braces a, wf fo a = true -> has_branch_mult a = false -> class_C04 braces a = 0%nat ->
  read_cgsmiles fo (print braces a) = denote fo a.
Proof. exact reader_sim_C04. Qed.

(** the ring table is independent of the branch and multiplier logic (used by C20): a graph is only
    returned when the marker trace of the text ends empty, whatever else the text contains *)
Theorem C04_ring_table_invariant : forall fo s g, read_cgsmiles fo s = Ok g -> marker_trace s = Ok [].
Proof. exact ring_table_invariant. Qed.

(** non-vacuity: {[#A;q=1]=%12([#B]|3([#C]-1)$[#D]1)[#F][#E]%12} is in the domain and denotes a graph *)
Example C04_partial_nonvacuous :
  let a := [Item (S "A;q=1") [(Some SDouble, MPct [1%nat; 2%nat])] None None
              [Branch [Item (S "B") [] (Some [3%nat]) None [Branch [Item (S "C") [(Some SSingle, MDigit 1)] None None []] None (Some SQuad)];
                       Item (S "D") [(None, MDigit 1)] None None []] None None];
            nd "F"; Item (S "E") [(None, MPct [1%nat; 2%nat])] None None []] in
  let fo := fo_of_table [(S "1", Some (S "1.0"))] in
  flat_ok fo a = true /\ wf fo a = true /\ exists g, denote fo a = Ok g /\ length (nodes_data g) = 8%nat.
Proof. vm_compute. repeat split. eexists. split; reflexivity. Qed.
Theorem C04_flat_covers_small :
  forallb (fun a => negb (Nat.eqb (class_C04 true a) 0) || flat_ok fo_none a) small_c04 = true.
Proof. exact C04_flat_small_list. Qed.

(** BOUNDED: every AST of the complete enumerated list [small_c04] (bound = the enumerator parameters
    recorded in Gen/ReaderEnumGen.v and Reader/ReaderSmall.v) is in the grammar, and outside the three
    defect classes the model returns exactly the denoted graph (same iteration orders) *)
Theorem C04_small : forallb (fun a => wf fo_none a && c04_ok a) small_c04 = true.
Proof. exact C04_small_list. Qed.
Theorem C04_small_not_vacuous : (5000 <=? length (filter (fun a => Nat.eqb (class_C04 true a) 0) small_c04))%nat = true.
Proof. exact C04_small_nonvacuous. Qed.

Print Assumptions C04_partial_wf.
Print Assumptions C04_ring_table_invariant.
Print Assumptions C04_flat_strings.
Print Assumptions C04_partial.
Print Assumptions C04_partial_flat.
Print Assumptions C04_small.
Print Assumptions C04_refuted_double_close.
Print Assumptions C04_refuted_pct_at_end.
Print Assumptions C04_refuted_nodemult_sym.
