(** Property C15 — stereo information survives fragmentation and renumbering.
    Only statements, each closed by [exact]; proofs in Stereo/EzProofs.v.
    Model: Stereo/EzImpl.v = annotate_ez_isomers_cgsmiles + pysmiles' _annotate_ez_isomers,
    _check_for_ez_conflicts, _interpret_cis_trans_tokens (third-party, modelled and validated against
    the installed library by the per-run correspondence of ./check C15).

    What is and is not proved
    - ez_refs_valid, ez_symmetric, ez_class_table: unbounded, every well-formed graph and marking.
    - ez_order_invariant (the property's "does not depend on the order in which the base graph lists the
      fragments") is REFUTED for the current code: C15_order_refuted.  The defect class is
      [pair_in_class] (the second-enumerated anchor's ligand has the smaller key); C15_order_partial is the
      statement outside the class and C15_class_exact shows the class is not wider than the defect.
    - the same root cause shows when a MARKED SUBSTITUENT IS CUT OFF from its anchor (the mark written at both
      ends of the cut): the key order of ligand and anchor then follows the fragment order, not the written
      order.  C15_table_vs_geom is the general class theorem (kb = key order, wb = written order),
      C15_conflict_spurious / _agrees the same for pysmiles' conflict test, C15_cutoff_order_refuted and
      C15_cutoff_conflict_refuted the witnesses (opposite class; ValueError on consistently marked input).
    - ez_renumber_invariant_partial: invariance under a structure-preserving renumbering that is monotone
      on adjacent pairs; NOT covered: renumberings that change the adjacency/edge enumeration (that is
      where the refutation lives).
    - chiral_stays: for the attribute copy of merge_graphs (GraphOps.merge_node), for the relabelling of
      sort_nodes_by_attr (GraphOps model) and for the annotation step; that the PARSER puts the label on
      the written atom and that hydrogens/squash do not disturb it is decided per run by the generated
      search, clause (b) of EzCheck.prop_fail. *)
From Coq Require Import String.
From Coq Require Import List Ascii ZArith Bool Lia.
From CGV Require Import Base.PyBase Base.PyVal Base.NxGraph Resolve.GraphOps
     Stereo.EzImpl Stereo.EzDefs Stereo.EzWitness Stereo.EzProofs.
From CGV Require Import Resolve.Pipeline Resolve.PipelineFull Resolve.CopyProofs Compose.CutModel Compose.CutTables Compose.CutSkeleton
     Hydro.HydroDefs Dialect.ReturnedAnnot Dialect.DialectImpl Stereo.EzBuilt Stereo.EzReturned Stereo.EzStrings Stereo.EzStringProofs.
From CGV Require Hydro.Hydrogens Resolve.SortGraphProofs Dialect.ReturnedCar.
Import ListNotations.
Open Scope Z_scope.

(** (a) every tuple the step adds is a path ligand - anchor = anchor - ligand of the returned molecule:
    all four keys are nodes, both outer edges exist, the middle edge has order 2, ligands are not anchors *)
Theorem C15_ez_refs_valid : forall g g', wf_graph g -> annotate_ez_isomers_cgsmiles g = Ok g' ->
  forall k v, In v (ez_list g' k) -> In v (ez_list g k) \/ tuple_ok g' k v = true.
Proof. exact ez_refs_valid. Qed.
Theorem C15_refs_ok_preserved : forall g g', wf_graph g -> refs_ok g = true ->
  annotate_ez_isomers_cgsmiles g = Ok g' -> refs_ok g' = true.
Proof. exact refs_ok_preserved. Qed.
Theorem C15_wf_graphb_sound : forall g, wf_graphb g = true -> wf_graph g.
Proof. exact wf_graphb_sound. Qed.

(** each relation is stored on both ligands, mirrored, with one class *)
Theorem C15_ez_symmetric : forall g g', wf_graph g -> annotate_ez_isomers_cgsmiles g = Ok g' ->
  forall k v, is_new g g' k v ->
  exists l1 a1 a2 l2 c, v = ez_tuple l1 a1 a2 l2 c /\ k = l1 /\ (c = v_cis \/ c = v_trans) /\
                        In (ez_tuple l2 a2 a1 l1 c) (ez_list g' l2).
Proof. exact ez_symmetric. Qed.

(** the class is a function of the two tokens and of the single comparison ligand_first < anchor_first *)
Theorem C15_ez_class_table : forall lf af t1 t2, lf <> af -> is_tok t1 = true -> is_tok t2 = true ->
  interpret lf af t1 t2 = Some (table (lf <? af) t1 t2).
Proof. exact interpret_table. Qed.

(** ... which is the geometric meaning of the written marks iff the second ligand follows its anchor *)
Theorem C15_class_iff_wrong : forall p : sub * sub,
  is_tok (s_tok (fst p)) = true -> is_tok (s_tok (snd p)) = true -> s_lig (snd p) <> s_anc (snd p) ->
  table (s_lig (fst p) <? s_anc (fst p)) (s_tok (fst p)) (s_tok (snd p)) =
  (if pair_in_class p then class_val (negb (geom_cis (s_lig (fst p) <? s_anc (fst p)) (s_tok (fst p))
                                                      (s_lig (snd p) <? s_anc (snd p)) (s_tok (snd p))))
   else pair_geom p).
Proof. exact class_iff_wrong. Qed.

(** independence of the base-graph order: refuted (DESIGN 5 row 18), partial outside the class, class exact *)
Theorem C15_order_refuted :
  exists g1 g2 iso r1 r2,
    wf_graphb g1 = true /\ wf_graphb g2 = true /\ same_marked_moleculeb iso g1 g2 = true /\
    annotate_ez_isomers_cgsmiles g1 = Ok r1 /\ annotate_ez_isomers_cgsmiles g2 = Ok r2 /\
    in_class g1 = false /\ in_class g2 = true /\
    exists l1 a1 a2 l2,
      In (ez_tuple l1 a1 a2 l2 v_trans) (ez_list r1 l1) /\
      In (ez_tuple (iso l1) (iso a1) (iso a2) (iso l2) v_cis) (ez_list r2 (iso l1)).
Proof. exact order_refuted. Qed.
Theorem C15_order_partial : forall p p', pair_wf p -> pair_wf p' -> same_substituents p p' ->
  pair_in_class p = false -> pair_in_class p' = false -> pair_result p = pair_result p'.
Proof. exact order_invariant_outside_class. Qed.
Theorem C15_class_exact : forall p p', pair_wf p -> pair_wf p' -> same_substituents p p' ->
  pair_in_class p = true -> pair_in_class p' = false -> pair_result p <> pair_result p'.
Proof. exact class_exact. Qed.

(** a marked substituent cut off from its anchor (the mark written at both ends of the cut, `F/[$]` …
    `[$]/C(Cl)=…`): its key lies before or after the anchor's according to the ORDER OF THE FRAGMENTS in the
    base graph, not according to where it was written.  General form of the class theorem (kb = key order,
    wb = written order), the conflict test in the same terms, and the two refutations. *)
Theorem C15_table_vs_geom : forall kb1 wb1 wb2 t1 t2, is_tok t1 = true -> is_tok t2 = true ->
  table kb1 t1 t2 =
  class_val (if table_broken kb1 wb1 wb2 then negb (geom_cis wb1 t1 wb2 t2) else geom_cis wb1 t1 wb2 t2).
Proof. exact table_vs_geom. Qed.
Theorem C15_conflict_spurious : forall a x y wbx wby, s_lig x <> a -> s_lig y <> a ->
  conflict_free wbx wby (s_tok x) (s_tok y) = true ->
  xorb (negb (Bool.eqb (s_lig x <? a) wbx)) (negb (Bool.eqb (s_lig y <? a) wby)) = true ->
  conflict_check a [x; y] = Err EValue.
Proof. exact conflict_spurious. Qed.
Theorem C15_conflict_agrees : forall a x y wbx wby, s_lig x <> a -> s_lig y <> a ->
  xorb (negb (Bool.eqb (s_lig x <? a) wbx)) (negb (Bool.eqb (s_lig y <? a) wby)) = false ->
  conflict_check a [x; y] = if conflict_free wbx wby (s_tok x) (s_tok y) then Ok tt else Err EValue.
Proof. exact conflict_agrees. Qed.
Theorem C15_cutoff_order_refuted :
  exists g1 g2 iso r1 r2,
    wf_graphb g1 = true /\ wf_graphb g2 = true /\ same_marked_moleculeb iso g1 g2 = true /\
    annotate_ez_isomers_cgsmiles g1 = Ok r1 /\ annotate_ez_isomers_cgsmiles g2 = Ok r2 /\
    in_class g1 = false /\ in_class g2 = false /\
    exists l1 a1 a2 l2,
      In (ez_tuple l1 a1 a2 l2 v_trans) (ez_list r1 l1) /\
      In (ez_tuple (iso l1) (iso a1) (iso a2) (iso l2) v_cis) (ez_list r2 (iso l1)).
Proof. exact cutoff_order_refuted. Qed.
Theorem C15_cutoff_conflict_refuted :
  exists g1 g2 iso r1,
    wf_graphb g1 = true /\ wf_graphb g2 = true /\ same_marked_moleculeb iso g1 g2 = true /\
    annotate_ez_isomers_cgsmiles g1 = Ok r1 /\ annotate_ez_isomers_cgsmiles g2 = Err EValue.
Proof. exact cutoff_conflict_refuted. Qed.
Example C15_conflict_nonvacuous :
  (* [$]/C(/Cl)=… with F/[$] listed second: F (key 5, written before the anchor 0), Cl (key 1, written after) *)
  let x := {| s_lig := 1; s_anc := 0; s_tok := tok_slash |} in
  let y := {| s_lig := 5; s_anc := 0; s_tok := tok_slash |} in
  conflict_free false true (s_tok x) (s_tok y) = true /\
  xorb (negb (Bool.eqb (s_lig x <? 0) false)) (negb (Bool.eqb (s_lig y <? 0) true)) = true /\
  conflict_check 0 [x; y] = Err EValue.
Proof. cbv zeta. repeat split; vm_compute; reflexivity. Qed.

(** renumbering: a renaming of the keys that keeps node order and adjacency order (so every edge is still
    enumerated from the same end) and is monotone on every (neighbour, node) pair yields the same pairs,
    renamed, and the same classes.  PARTIAL: renumberings that re-insert nodes/edges in another order or
    move a ligand to the other side of its anchor are not covered - C15_order_refuted lives there. *)
Theorem C15_ez_renumber_invariant_partial : forall f, injective f -> forall g ez ps,
  mono_adj g f -> all_pairs g ez = Ok ps ->
  all_pairs (rename_graph f g) (rename_ez f ez) = Ok (map (rename_pair f) ps) /\
  forall p, In p ps -> pair_result (rename_pair f p) = pair_result p.
Proof. exact ez_renumber_invariant_partial. Qed.
Example C15_renumber_nonvacuous :
  let f := fun k => 2 * k + 10 in
  injective f /\ mono_adj w_AB f /\
  exists ps, all_pairs w_AB (ez_class_dict w_AB) = Ok ps /\ length ps = 1%nat /\
             all_pairs (rename_graph f w_AB) (rename_ez f (ez_class_dict w_AB)) = Ok (map (rename_pair f) ps).
Proof.
  cbv zeta. split; [intros x y E; lia|]. split.
  - intros n w d In1 In2. cbn in In1.
    repeat (destruct In1 as [<-|In1]; [cbn in In2; repeat (destruct In2 as [[= <- <-]|In2]; [split; reflexivity|]); contradiction|]).
    contradiction.
  - eexists. split; [vm_compute; reflexivity|]. split; vm_compute; reflexivity.
Qed.

(** chirality label: attribute copy of merge_graphs, and the annotation step *)
Theorem C15_chiral_stays_merge : forall off fo a a', merge_node off fo a = Ok a' ->
  aget (S "chiral") a' = aget (S "chiral") a.
Proof. exact chiral_stays_merge. Qed.
Theorem C15_chiral_stays_annotate : forall g g' k, annotate_ez_isomers_cgsmiles g = Ok g' ->
  node_get g' k (S "chiral") = node_get g k (S "chiral") /\ node_keys g' = node_keys g.
Proof. exact chiral_stays_annotate. Qed.

(** ... and the renumbering: sort_nodes_by_attr (GraphOps model: relabel_copy + rewriting of
    'ez_isomer_atoms') delivers every atom's attribute dict, hence its label, at the atom's new key *)
Theorem C15_relabel_copy_attrs : forall g m n, NoDup (map (fun x => map_get m (nk x)) g) -> In n g ->
  node_na (relabel_copy g m) (map_get m (nk n)) = Some (na n).
Proof. exact relabel_copy_attrs. Qed.
Theorem C15_chiral_stays_sort : forall g h m n, sort_mapping g = Ok m -> sort_nodes_by_attr g = Ok h ->
  NoDup (map (fun x => map_get m (nk x)) g) -> In n g ->
  node_get h (map_get m (nk n)) (S "chiral") = aget (S "chiral") (na n).
Proof. exact chiral_stays_sort. Qed.
(** non-vacuity: two fragments merged as F0 [C;x=R]1 | C3 with the first fragment's hydrogen appended as 2
    ... after sorting by (fragid, key) the label is at key 1, the hydrogen at 2 and the old atom 2 at 3 *)
Example C15_sort_nonvacuous :
  let nd := fun k e fid ch => {| nk := k; na := [(S "element", VStr e); (S "fragid", VList [VInt fid])] ++ ch; nadj := [] |} in
  let g := [nd 0 (S "F") 0 []; nd 1 (S "C") 0 [(S "chiral", VStr (S "R"))]; nd 2 (S "C") 1 [(S "chiral", VStr (S "S"))];
            nd 3 (S "H") 0 []] in
  exists m h, sort_mapping g = Ok m /\ sort_nodes_by_attr g = Ok h /\
    NoDup (map (fun x => map_get m (nk x)) g) /\ map_get m 2 = 3 /\
    node_get h 3 (S "chiral") = Some (VStr (S "S")) /\ node_get h 1 (S "chiral") = Some (VStr (S "R")).
Proof.
  cbv zeta. eexists. eexists. split; [vm_compute; reflexivity|]. split; [vm_compute; reflexivity|].
  split; [|repeat split; vm_compute; reflexivity].
  vm_compute. repeat constructor; cbn; intuition discriminate.
Qed.

(** ---- ON THE GRAPH resolve() RETURNS (end-to-end model Resolve/PipelineFull.resolve_step_full: every stage the model
    of its own component, one aromaticity transcript [car]).  Hypothesis kept: the sorted molecule [fo_m5] is a
    well-formed networkx graph (evaluated on every recorded molecule by the check). *)
Theorem C15_returned_refs_valid : forall legacy fd prev car fo, resolve_step_full legacy true fd prev car = Ok fo ->
  wf_graph (fo_m5 fo) ->
  forall k v, In v (ez_list (fo_mol fo) k) -> In v (ez_list (fo_m5 fo) k) \/ tuple_ok (fo_mol fo) k v = true.
Proof. exact returned_refs_valid. Qed.
Theorem C15_returned_symmetric : forall legacy fd prev car fo, resolve_step_full legacy true fd prev car = Ok fo ->
  wf_graph (fo_m5 fo) ->
  forall k v, is_new (fo_m5 fo) (fo_mol fo) k v ->
  exists l1 a1 a2 l2 c, v = ez_tuple l1 a1 a2 l2 c /\ k = l1 /\ (c = v_cis \/ c = v_trans) /\
                        In (ez_tuple l2 a2 a1 l1 c) (ez_list (fo_mol fo) l2).
Proof. exact returned_symmetric. Qed.
(** the hypothesis always holds: relabel_nodes(copy=True), hence sort_nodes_by_attr, builds its result by add_node / add_edge
    from the empty graph, and every graph built that way is well formed (unique keys and adjacency entries, the same
    attribute dict in both directions) - for EVERY input graph and mapping *)
Theorem C15_built_relabel_copy : forall g m, built (relabel_copy g m).
Proof. exact built_relabel_copy. Qed.
Theorem C15_built_wf : forall g, built g -> wf_graph g.
Proof. exact built_wf. Qed.
Theorem C15_sorted_wf : forall g h, sort_nodes_by_attr g = Ok h -> wf_graph h.
Proof. exact sorted_wf. Qed.
Theorem C15_returned_refs_valid_all : forall legacy fd prev car fo, resolve_step_full legacy true fd prev car = Ok fo ->
  forall k v, In v (ez_list (fo_mol fo) k) -> In v (ez_list (fo_m5 fo) k) \/ tuple_ok (fo_mol fo) k v = true.
Proof. exact returned_refs_valid_all. Qed.
Theorem C15_returned_symmetric_all : forall legacy fd prev car fo, resolve_step_full legacy true fd prev car = Ok fo ->
  forall k v, is_new (fo_m5 fo) (fo_mol fo) k v ->
  exists l1 a1 a2 l2 c, v = ez_tuple l1 a1 a2 l2 c /\ k = l1 /\ (c = v_cis \/ c = v_trans) /\
                        In (ez_tuple l2 a2 a1 l1 c) (ez_list (fo_mol fo) l2).
Proof. exact returned_symmetric_all. Qed.
(** every stored class of the returned graph is [pair_result] of a pair of the sorted molecule, so the class theorems
    above (C15_table_vs_geom, C15_class_iff_wrong, C15_order_partial, C15_class_exact) speak about what resolve() returns *)
Theorem C15_returned_class_of_pair : forall legacy fd prev car fo, resolve_step_full legacy true fd prev car = Ok fo ->
  forall k v, is_new (fo_m5 fo) (fo_mol fo) k v ->
  exists ps x y c, all_pairs (fo_m5 fo) (ez_class_dict (fo_m5 fo)) = Ok ps /\ In (x, y) ps /\ pair_result (x, y) = Some c /\
    (v = ez_tuple (s_lig x) (s_anc x) (s_anc y) (s_lig y) c \/ v = ez_tuple (s_lig y) (s_anc y) (s_anc x) (s_lig x) c).
Proof. exact returned_class_of_pair. Qed.
Theorem C15_returned_chiral : forall legacy fd prev car fo k, resolve_step_full legacy true fd prev car = Ok fo ->
  node_get (fo_mol fo) k (S "chiral") = node_get (fo_m5 fo) k (S "chiral").
Proof. exact returned_chiral. Qed.
(** chiral_stays END TO END, for every cut placement and part order (instance of the Dialect component's theorem
    annotation_reaches_returned_graph_any_car for the key `chiral`, over the Compose component's cut model; hypotheses:
    well-formed cut without `!` bonds, templates as the cut says, payload with element/charge/hcount, attribute lists of
    the molecule handed to rebuild_h_atoms are dicts): the returned key of every atom carries exactly the template atom's label *)
Theorem C15_chiral_reaches_returned_graph : forall C, wf_cut C -> forall fd, templates_ok C fd -> wf_dict fd ->
  forall B, is_base C B ->
  (forall x, In x (flat C) ->
     (exists e, aget (S "element") (payload C x) = Some e) /\ (exists q, aget (S "charge") (payload C x) = Some q) /\
     (exists h, aget (S "hcount") (payload C x) = Some (VInt h)) /\ Hydrogens.is_H (payload C x) = false) ->
  forall prev g1 fo, meta_of prev = B -> resolve_step_full true true fd prev (Some g1) = Ok fo -> ReturnedCar.dicts (fo_m3 fo) ->
  exists m, sort_mapping (fo_m4 fo) = Ok m /\ SortGraphProofs.inj_on (map_get m) (node_keys (fo_m4 fo)) /\
    forall p name xs T i x n,
      nth_error (c_parts C) p = Some (name, xs) -> fd_get name fd = Some T ->
      nth_error xs i = Some x -> gfind (Z.of_nat i) T = Some n ->
      node_get (fo_mol fo) (map_get m (phi C x)) (S "chiral") = aget (S "chiral") (na n).
Proof. exact chiral_reaches_returned_graph. Qed.

(** ---- ON CGsmiles STRINGS.  [resolve_string] (Stereo/EzStrings.v) = Reader model of the base graph + Frag models of
    strip_bonding_descriptors / pysmiles' parser / the fragment template + PipelineFull; compared with the implementation on
    every run (EzCheck.frag_ok for every fragment of every case, EzCheck.string_ok for these witnesses).  Bounded: three
    concrete pairs of strings, vm_compute.  In each pair the two strings differ ONLY in the order in which the base graph
    lists the two fragments. *)
Theorem C15_resolve_string_is_step : forall fo s out, resolve_string fo s = Ok out ->
  exists fd prev car, resolve_step_full true true fd prev car = Ok out.
Proof. exact resolve_string_is_step. Qed.
Theorem C15_string_refs_valid : forall fo s out, resolve_string fo s = Ok out -> wf_graph (fo_m5 out) ->
  forall k v, In v (ez_list (fo_mol out) k) -> In v (ez_list (fo_m5 out) k) \/ tuple_ok (fo_mol out) k v = true.
Proof. exact string_refs_valid. Qed.
Theorem C15_string_refs_valid_all : forall fo s out, resolve_string fo s = Ok out ->
  forall k v, In v (ez_list (fo_mol out) k) -> In v (ez_list (fo_m5 out) k) \/ tuple_ok (fo_mol out) k v = true.
Proof. exact string_refs_valid_all. Qed.
Theorem C15_order_refuted_strings :
  exists o1 o2, resolve_string fo0 (S "{[#A][#B]}.{#A=F/C(Cl)=[$],#B=[$]=C(Br)/I}") = Ok o1 /\
                resolve_string fo0 (S "{[#B][#A]}.{#A=F/C(Cl)=[$],#B=[$]=C(Br)/I}") = Ok o2 /\
    keep (fo_m5 o1) = w_AB /\ keep (fo_m5 o2) = w_BA /\
    wf_graphb (fo_m5 o1) = true /\ wf_graphb (fo_m5 o2) = true /\
    In (ez_tuple 0 1 3 5 v_trans) (ez_list (fo_mol o1) 0) /\
    In (ez_tuple (w_iso 0) (w_iso 1) (w_iso 3) (w_iso 5) v_cis) (ez_list (fo_mol o2) (w_iso 0)).
Proof. exact order_refuted_strings. Qed.
Theorem C15_cutoff_order_refuted_strings :
  exists o1 o2, resolve_string fo0 (S "{[#A][#B]}.{#A=F/[$],#B=[$]/C(Cl)=C(/Br)I}") = Ok o1 /\
                resolve_string fo0 (S "{[#B][#A]}.{#A=F/[$],#B=[$]/C(Cl)=C(/Br)I}") = Ok o2 /\
    keep (fo_m5 o1) = w2_AB /\ keep (fo_m5 o2) = w2_BA /\
    In (ez_tuple 0 1 3 4 v_trans) (ez_list (fo_mol o1) 0) /\
    In (ez_tuple (w2_iso 0) (w2_iso 1) (w2_iso 3) (w2_iso 4) v_cis) (ez_list (fo_mol o2) (w2_iso 0)).
Proof. exact cutoff_order_refuted_strings. Qed.
Theorem C15_cutoff_conflict_refuted_strings :
  (exists o1, resolve_string fo0 (S "{[#A][#B]}.{#A=F/[$],#B=[$]/C(/Cl)=C(/Br)I}") = Ok o1 /\ keep (fo_m5 o1) = w3_AB /\
              In (ez_tuple 0 1 3 4 v_trans) (ez_list (fo_mol o1) 0)) /\
  resolve_string fo0 (S "{[#B][#A]}.{#A=F/[$],#B=[$]/C(/Cl)=C(/Br)I}") = Err EValue.
Proof. exact cutoff_conflict_refuted_strings. Qed.

(** ---- the generator's ground truth and its `unambiguous` filter, as a predicate on the molecule the step receives
    ([marks_ok g ms]: the step succeeds and every (tagged neighbour, anchor) it pairs up is an intended mark carrying the
    token of its own bond).  Then every stored class is the one PREDICTED from the sides of the two substituents
    (cis = same side) and the key/written order: the ground truth outside the classes, its negation inside. *)
Theorem C15_class_predicted : forall ms x y mx my, s_lig x <> s_anc x ->
  sub_mark ms x = Some mx -> sub_mark ms y = Some my ->
  s_tok x = tok_of (m_up mx) (m_wb mx) -> s_tok y = tok_of (m_up my) (m_wb my) ->
  pair_result (x, y) = Some (class_val (predicted_cis mx my)).
Proof. exact class_predicted. Qed.
Theorem C15_marks_ok_predicts : forall g g' ms, wf_graph g -> marks_ok g ms = true -> annotate_ez_isomers_cgsmiles g = Ok g' ->
  forall k v, is_new g g' k v ->
  exists x y mx my, sub_mark ms x = Some mx /\ sub_mark ms y = Some my /\
    (v = ez_tuple (s_lig x) (s_anc x) (s_anc y) (s_lig y) (class_val (predicted_cis mx my)) \/
     v = ez_tuple (s_lig y) (s_anc y) (s_anc x) (s_lig x) (class_val (predicted_cis mx my))).
Proof. exact marks_ok_predicts. Qed.
Example C15_marks_nonvacuous :
  (* F/C(Cl)=[$] + [$]=C(Br)/I: F below (written before its anchor), I above (written after) *)
  let msAB := [{| m_lig := 0; m_anc := 1; m_up := false; m_wb := true |}; {| m_lig := 5; m_anc := 3; m_up := true; m_wb := false |}] in
  let msBA := [{| m_lig := 3; m_anc := 4; m_up := false; m_wb := true |}; {| m_lig := 2; m_anc := 0; m_up := true; m_wb := false |}] in
  marks_ok w_AB msAB = true /\ marks_ok w_BA msBA = true /\
  predicted_cis {| m_lig := 0; m_anc := 1; m_up := false; m_wb := true |} {| m_lig := 5; m_anc := 3; m_up := true; m_wb := false |} = false /\
  predicted_cis {| m_lig := 2; m_anc := 0; m_up := true; m_wb := false |} {| m_lig := 3; m_anc := 4; m_up := false; m_wb := true |} = true.
Proof. cbv zeta. repeat split; vm_compute; reflexivity. Qed.

(** non-vacuity: a well-formed molecule with marks on which the step succeeds and stores two tuples;
    two pairs of two variants that satisfy the hypotheses of the partial theorem *)
Example C15_nonvacuous :
  wf_graph w_AB /\ refs_ok w_AB = true /\
  exists g', annotate_ez_isomers_cgsmiles w_AB = Ok g' /\ is_new w_AB g' 0 (ez_tuple 0 1 3 5 v_trans) /\
             refs_ok g' = true.
Proof.
  split; [apply wf_graphb_sound; vm_compute; reflexivity|]. split; [vm_compute; reflexivity|].
  eexists. split; [vm_compute; reflexivity|]. split; [|vm_compute; reflexivity].
  split; [vm_compute; left; reflexivity|vm_compute; tauto].
Qed.
Example C15_partial_nonvacuous :
  (* C(/F)=C/I enumerated from either end: both outside the class, same result *)
  let p := ({| s_lig := 2; s_anc := 1; s_tok := tok_slash |}, {| s_lig := 5; s_anc := 3; s_tok := tok_slash |}) in
  let p' := ({| s_lig := 5; s_anc := 3; s_tok := tok_slash |}, {| s_lig := 2; s_anc := 1; s_tok := tok_slash |}) in
  pair_wf p /\ pair_wf p' /\ same_substituents p p' /\ pair_in_class p = false /\ pair_in_class p' = false /\
  pair_result p = Some v_cis /\ pair_result p' = Some v_cis.
Proof.
  cbv zeta. repeat split; try (vm_compute; reflexivity); try (cbn; discriminate).
  right. repeat split.
Qed.
Example C15_exact_nonvacuous :
  (* F/C=C/I enumerated from the other end puts F (key 0) below its anchor (key 1) in second position *)
  let p := ({| s_lig := 5; s_anc := 3; s_tok := tok_slash |}, {| s_lig := 0; s_anc := 1; s_tok := tok_slash |}) in
  let p' := ({| s_lig := 0; s_anc := 1; s_tok := tok_slash |}, {| s_lig := 5; s_anc := 3; s_tok := tok_slash |}) in
  pair_wf p /\ pair_wf p' /\ same_substituents p p' /\ pair_in_class p = true /\ pair_in_class p' = false /\
  pair_result p = Some v_cis /\ pair_result p' = Some v_trans.
Proof.
  cbv zeta. repeat split; try (vm_compute; reflexivity); try (cbn; discriminate).
  right. repeat split.
Qed.
Example C15_merge_nonvacuous :
  exists a', merge_node 3 1 [(S "element", VStr (S "C")); (S "fragid", VInt 0); (S "chiral", VStr (S "R"))] = Ok a'
             /\ aget (S "chiral") a' = Some (VStr (S "R")).
Proof. eexists. split; vm_compute; reflexivity. Qed.

Print Assumptions C15_ez_refs_valid.
Print Assumptions C15_wf_graphb_sound.
Print Assumptions C15_refs_ok_preserved.
Print Assumptions C15_ez_symmetric.
Print Assumptions C15_ez_class_table.
Print Assumptions C15_class_iff_wrong.
Print Assumptions C15_ez_renumber_invariant_partial.
Print Assumptions C15_order_refuted.
Print Assumptions C15_table_vs_geom.
Print Assumptions C15_conflict_spurious.
Print Assumptions C15_conflict_agrees.
Print Assumptions C15_cutoff_order_refuted.
Print Assumptions C15_cutoff_conflict_refuted.
Print Assumptions C15_order_partial.
Print Assumptions C15_class_exact.
Print Assumptions C15_chiral_stays_merge.
Print Assumptions C15_chiral_stays_annotate.
Print Assumptions C15_relabel_copy_attrs.
Print Assumptions C15_chiral_stays_sort.
Print Assumptions C15_built_relabel_copy.
Print Assumptions C15_built_wf.
Print Assumptions C15_sorted_wf.
Print Assumptions C15_returned_refs_valid_all.
Print Assumptions C15_returned_symmetric_all.
Print Assumptions C15_string_refs_valid_all.
Print Assumptions C15_returned_refs_valid.
Print Assumptions C15_returned_symmetric.
Print Assumptions C15_returned_class_of_pair.
Print Assumptions C15_returned_chiral.
Print Assumptions C15_chiral_reaches_returned_graph.
Print Assumptions C15_class_predicted.
Print Assumptions C15_marks_ok_predicts.
Print Assumptions C15_resolve_string_is_step.
Print Assumptions C15_string_refs_valid.
Print Assumptions C15_order_refuted_strings.
Print Assumptions C15_cutoff_order_refuted_strings.
Print Assumptions C15_cutoff_conflict_refuted_strings.

(** ---- THE ORDER THEOREM THROUGH THE CUT MODEL AND THROUGH THE PARSER (Stereo/EzSortMono.v, EzCut.v, EzStringCut.v).
    No hypothesis on graphs (pair_wf / same_substituents) any more: the molecule is a cut of Compose's model (any atoms,
    bonds, parts, part order), the marks are the `ez_isomer_class` attributes of the fragment templates. *)
From CGV Require Import Resolve.SortProofs Compose.CutPos Compose.OrderIndep Compose.PartPerm Compose.ComposeFlat
     Frag.NDict Frag.FragText Frag.FragProofs Frag.SmilesParse Frag.SmilesSpec Frag.Template Frag.TemplateFinal Frag.TemplateGraph Frag.TemplateCompose
     Reader.ReaderImpl Stereo.EzSortMono Stereo.EzCut Stereo.EzStringCut Stereo.EzStringExamples.

(** sort_nodes_by_attr keeps the key order inside one fragment, and lists the fragments in fragid order *)
Theorem C15_sort_mono : forall g m a b o, sort_mapping g = Ok m -> NoDup (node_keys g) ->
  map fst (get_node_attributes g (S "fragid")) = node_keys g ->
  node_get g a (S "fragid") = Some (VList [VInt o]) -> node_get g b (S "fragid") = Some (VList [VInt o]) ->
  (a <? b) = (map_get m a <? map_get m b).
Proof. exact sort_mono. Qed.
Theorem C15_sort_mono_frag : forall g m a b oa ob, sort_mapping g = Ok m -> NoDup (node_keys g) ->
  map fst (get_node_attributes g (S "fragid")) = node_keys g ->
  node_get g a (S "fragid") = Some (VList [VInt oa]) -> node_get g b (S "fragid") = Some (VList [VInt ob]) ->
  oa < ob -> map_get m a < map_get m b.
Proof. exact sort_mono_frag. Qed.

(** the class resolve() stores, read off the cut: every new tuple is about four atoms lx - ax = ay - ly of the cut ((lx, ax)
    on the first-enumerated anchor = the anchor at the EARLIER position: rebuild_h_atoms appends its hydrogens,
    C15_rebuild_keys_prefix, and G.edges reports an edge from its earlier end), and its class is pysmiles' table applied to the POSITIONS of the atoms in the
    concatenation of the parts ([wb] = comes earlier; the renumbering keeps the position order of any two atoms of the cut).
    Inside one part the position order is the written order: the geometric class of the marks as written, or the opposite
    when the ligand of the second-enumerated anchor is written before it (open class second_anchor_ligand_lower); for a
    ligand cut off from its anchor the position order is the order of the PARTS in the base graph (the root cause of the
    open classes cut_off_ligand_key_order / cut_off_ligand_conflict_error) *)
Theorem C15_returned_class_geom : forall C, wf_cut C -> forall fd, templates_ok C fd -> wf_dict fd -> forall B, is_base C B ->
  heavy_payload C -> numeric_orders C -> forall tok,
  (forall name xs T i x n, In (name, xs) (c_parts C) -> fd_get name fd = Some T ->
     nth_error xs i = Some x -> gfind (Z.of_nat i) T = Some n -> aget ezk (na n) = tok x) ->
  forall prev fo, next_meta prev = B -> resolve_step_full true true fd prev (Some (fo_m3 fo)) = Ok fo ->
  exists m, sort_mapping (fo_m4 fo) = Ok m /\
    SortGraphProofs.inj_on (map_get m) (node_keys (fo_m4 fo)) /\
    (forall x, In x (flat C) -> In (phi C x) (node_keys (fo_m4 fo))) /\
    forall k v, is_new (fo_m5 fo) (fo_mol fo) k v ->
    exists lx ax ay ly tx ty c,
      In lx (flat C) /\ In ax (flat C) /\ In ay (flat C) /\ In ly (flat C) /\
      tok lx = Some tx /\ tok ly = Some ty /\ is_tok tx = true /\ is_tok ty = true /\
      bonded C ax lx = true /\ bonded C ay ly = true /\ bonded C ax ay = true /\ is_two (result_order C ax ay) = true /\
      lx <> ax /\ lx <> ay /\ ly <> ay /\ ly <> ax /\
      (v = ez_tuple (map_get m (phi C lx)) (map_get m (phi C ax)) (map_get m (phi C ay)) (map_get m (phi C ly)) c \/
       v = ez_tuple (map_get m (phi C ly)) (map_get m (phi C ay)) (map_get m (phi C ax)) (map_get m (phi C lx)) c) /\
      phi C ax < phi C ay /\
      c = class_val (if wb C ly ay then negb (geom C lx ax ay ly tx ty) else geom C lx ax ay ly tx ty).
Proof. exact returned_class_geom. Qed.

(** OUTSIDE THE THREE OPEN CLASSES (no ligand cut off, both ligands written after their anchors): the geometric class *)
Theorem C15_written_after_class : forall C, wf_cut C -> forall fd, templates_ok C fd -> wf_dict fd -> forall B, is_base C B ->
  heavy_payload C -> numeric_orders C -> forall tok,
  (forall name xs T i x n, In (name, xs) (c_parts C) -> fd_get name fd = Some T ->
     nth_error xs i = Some x -> gfind (Z.of_nat i) T = Some n -> aget ezk (na n) = tok x) ->
  forall prev fo, next_meta prev = B -> resolve_step_full true true fd prev (Some (fo_m3 fo)) = Ok fo ->
  exists m, sort_mapping (fo_m4 fo) = Ok m /\
    forall lx ax ay ly c k, In lx (flat C) -> In ax (flat C) -> In ay (flat C) -> In ly (flat C) ->
      is_new (fo_m5 fo) (fo_mol fo) k
        (ez_tuple (map_get m (phi C lx)) (map_get m (phi C ax)) (map_get m (phi C ay)) (map_get m (phi C ly)) c) ->
      owner C lx = owner C ax -> owner C ly = owner C ay -> wb C lx ax = false -> wb C ly ay = false ->
      exists tx ty, tok lx = Some tx /\ tok ly = Some ty /\ is_tok tx = true /\ is_tok ty = true /\
        c = class_val (geom_cis false tx false ty).
Proof. exact written_after_class. Qed.

(** ez_order_invariant, outside the three open classes, for EVERY molecule and cut: two resolve() calls on base graphs that
    list the parts of the cut in different orders store the same class for the same four atoms *)
Theorem C15_order_invariant_cut : forall C1 C2 fd B1 B2 tok prev1 prev2 fo1 fo2,
  wf_cut C1 -> pperm C1 C2 -> templates_ok C1 fd -> wf_dict fd -> is_base C1 B1 -> is_base C2 B2 ->
  heavy_payload C1 -> numeric_orders C1 ->
  (forall name xs T i x n, In (name, xs) (c_parts C1) -> fd_get name fd = Some T ->
     nth_error xs i = Some x -> gfind (Z.of_nat i) T = Some n -> aget ezk (na n) = tok x) ->
  next_meta prev1 = B1 -> next_meta prev2 = B2 ->
  resolve_step_full true true fd prev1 (Some (fo_m3 fo1)) = Ok fo1 -> resolve_step_full true true fd prev2 (Some (fo_m3 fo2)) = Ok fo2 ->
  exists m1 m2, sort_mapping (fo_m4 fo1) = Ok m1 /\ sort_mapping (fo_m4 fo2) = Ok m2 /\
    forall lx ax ay ly c1 c2 k1 k2, In lx (flat C1) -> In ax (flat C1) -> In ay (flat C1) -> In ly (flat C1) ->
      owner C1 lx = owner C1 ax -> owner C1 ly = owner C1 ay -> wb C1 lx ax = false -> wb C1 ly ay = false ->
      is_new (fo_m5 fo1) (fo_mol fo1) k1
        (ez_tuple (map_get m1 (phi C1 lx)) (map_get m1 (phi C1 ax)) (map_get m1 (phi C1 ay)) (map_get m1 (phi C1 ly)) c1) ->
      is_new (fo_m5 fo2) (fo_mol fo2) k2
        (ez_tuple (map_get m2 (phi C2 lx)) (map_get m2 (phi C2 ax)) (map_get m2 (phi C2 ay)) (map_get m2 (phi C2 ly)) c2) ->
      c1 = c2.
Proof. exact order_invariant_cut. Qed.

(** ... THROUGH THE PARSER: the fragment read from a text that renders a token list is the strip component's final template,
    a template of every cut that agrees with the token-level reading; the slash token of its node i is the mark of atom i *)
Theorem C15_reading_template : forall fo C name xs toks dc ez T0, frag_reading fo C name xs toks dc ez T0 ->
  marked_template fo name (render (decorate toks dc)) = Ok (tmpl_graph T0) /\ is_template C name xs (tmpl_graph T0) /\
  forall i x n, nth_error xs i = Some x -> gfind (Z.of_nat i) (tmpl_graph T0) = Some n -> aget ezk (na n) = tok_of_ez ez i.
Proof. exact reading_template. Qed.
(** what resolve_string computes for "{base}.{#A=tA,#B=tB}" is one all-atom step on the reader's base graph and the two
    templates (driver: find_blocks, read_fragments = fragment_split + marked_template) *)
Theorem C15_string_is_step : forall fo (base : pystr) mol tA tB TA TB o,
  base <> [] -> ~ In "}"%char base -> read_cgsmiles fo ("{"%char :: base ++ ["}"%char]) = Ok mol ->
  ~ In ","%char tA -> ~ In ","%char tB -> ~ In "}"%char tA -> ~ In "}"%char tB ->
  marked_template fo (S "A") tA = Ok TA -> marked_template fo (S "B") tB = Ok TB ->
  resolve_string fo ("{"%char :: base ++ "}"%char :: "."%char :: block2 tA tB) = Ok o ->
  resolve_step_full true true [(S "A", TA); (S "B", TB)] mol (Some (fo_m3 o)) = Ok o.
Proof. exact string_is_step. Qed.
(** the order theorem on STRINGS: {[#A][#B]}.{#A=tA,#B=tB} against {[#B][#A]}.{#A=tA,#B=tB}, the texts renderings of token
    lists of any size and shape (chains of any length on the substituents, branches, rings), the cut any cut that agrees
    with their token-level reading *)
Theorem C15_order_invariant_strings : forall fo C1 xsA xsB tokA tokB dcA dcB ezA ezB TA0 TB0 o1 o2,
  let tA := render (decorate tokA dcA) in let tB := render (decorate tokB dcB) in let C2 := swap_parts C1 in
  frag_reading fo C1 nA xsA tokA dcA ezA TA0 -> frag_reading fo C1 nB xsB tokB dcB ezB TB0 ->
  c_parts C1 = [(nA, xsA); (nB, xsB)] -> wf_cut C1 -> heavy_payload C1 -> numeric_orders C1 ->
  is_base C1 (next_meta baseAB) -> is_base C2 (next_meta baseBA) ->
  ~ In ","%char tA /\ ~ In ","%char tB /\ ~ In "}"%char tA /\ ~ In "}"%char tB ->
  resolve_string fo (sAB tA tB) = Ok o1 -> resolve_string fo (sBA tA tB) = Ok o2 ->
  exists m1 m2, sort_mapping (fo_m4 o1) = Ok m1 /\ sort_mapping (fo_m4 o2) = Ok m2 /\
    forall lx ax ay ly c1 c2 k1 k2, In lx (flat C1) -> In ax (flat C1) -> In ay (flat C1) -> In ly (flat C1) ->
      owner C1 lx = owner C1 ax -> owner C1 ly = owner C1 ay -> wb C1 lx ax = false -> wb C1 ly ay = false ->
      is_new (fo_m5 o1) (fo_mol o1) k1
        (ez_tuple (map_get m1 (phi C1 lx)) (map_get m1 (phi C1 ax)) (map_get m1 (phi C1 ay)) (map_get m1 (phi C1 ly)) c1) ->
      is_new (fo_m5 o2) (fo_mol o2) k2
        (ez_tuple (map_get m2 (phi C2 lx)) (map_get m2 (phi C2 ax)) (map_get m2 (phi C2 ay)) (map_get m2 (phi C2 ly)) c2) ->
      c1 = c2.
Proof. exact order_invariant_strings. Qed.
(** non-vacuity (all hypotheses of C15_order_invariant_strings, hence of C15_order_invariant_cut / C15_written_after_class /
    C15_returned_class_geom / C15_reading_template / C15_string_is_step, hold; both strings resolve and store `cis`) *)
Example C15_order_invariant_strings_nonvacuous :
  to_string (sAB tA1 tB2) = "{[#A][#B]}.{#A=[$]=C(Cl)/CC,#B=[$]=C(Br)/CCC}"%string /\
  to_string (sBA tA1 tB2) = "{[#B][#A]}.{#A=[$]=C(Cl)/CC,#B=[$]=C(Br)/CCC}"%string /\
  frag_reading EzStringExamples.fo0 C12 nA (keysX 0 1) (toksX "Cl" 1) (dcl 1) ez02 TA1 /\
  frag_reading EzStringExamples.fo0 C12 nB (keysX 1 2) (toksX "Br" 2) (dcl 2) ez02 TB2 /\
  c_parts C12 = [(nA, keysX 0 1); (nB, keysX 1 2)] /\ wf_cut C12 /\ heavy_payload C12 /\ numeric_orders C12 /\
  is_base C12 (next_meta baseAB) /\ is_base (swap_parts C12) (next_meta baseBA) /\
  exists o1 o2, resolve_string EzStringExamples.fo0 (sAB tA1 tB2) = Ok o1 /\ resolve_string EzStringExamples.fo0 (sBA tA1 tB2) = Ok o2 /\
    let m1 := mapping_of_out o1 in let m2 := mapping_of_out o2 in let C2 := swap_parts C12 in
    sort_mapping (fo_m4 o1) = Ok m1 /\ sort_mapping (fo_m4 o2) = Ok m2 /\
    owner C12 4 = owner C12 0 /\ owner C12 5 = owner C12 1 /\ wb C12 4 0 = false /\ wb C12 5 1 = false /\
    is_new (fo_m5 o1) (fo_mol o1) (map_get m1 (phi C12 4))
      (ez_tuple (map_get m1 (phi C12 4)) (map_get m1 (phi C12 0)) (map_get m1 (phi C12 1)) (map_get m1 (phi C12 5)) v_cis) /\
    is_new (fo_m5 o2) (fo_mol o2) (map_get m2 (phi C2 4))
      (ez_tuple (map_get m2 (phi C2 4)) (map_get m2 (phi C2 0)) (map_get m2 (phi C2 1)) (map_get m2 (phi C2 5)) v_cis).
Proof. exact order_invariant_strings_nonvacuous. Qed.
Example C15_sort_mono_nonvacuous :
  (* F0 C1 | C2 with fragment 0's hydrogen appended as key 3: sorted F0 C1 H2 | C3 *)
  let nd := fun k fid => {| nk := k; na := [(S "fragid", VList [VInt fid])]; nadj := [] |} in
  let g := [nd 0 0; nd 1 0; nd 2 1; nd 3 0] in
  exists m, sort_mapping g = Ok m /\ NoDup (node_keys g) /\ map fst (get_node_attributes g (S "fragid")) = node_keys g /\
    (1 <? 3) = (map_get m 1 <? map_get m 3) /\ map_get m 3 < map_get m 2.
Proof.
  cbv zeta. eexists. split; [vm_compute; reflexivity|]. split; [vm_compute; repeat constructor; cbn; intuition discriminate|].
  split; vm_compute; auto.
Qed.


(** ---- chiral_stays FROM THE TEXT (Stereo/EzChiralText.v; instance of the Dialect component's text theorem for the key `chiral`
    = dialect key `x` of a fragment annotation, `[C;x=R]`): the label written on the i-th atom token of the text of fragment
    `name` is the `chiral` attribute of every copy of that atom in the returned all-atom graph, whatever the cut placement and
    part order; an atom whose token carries no such key has none.  Chain: strip_bonding_descriptors (strip_correct), Hydro's
    read_fragment_post on the transcript g0 of pysmiles.read_smiles(clean text), PipelineFull over Compose's cut model, any
    aromaticity transcript Hydro's contract allows. *)
From CGV Require Import Dialect.DialectDefs Dialect.FragAnnot Dialect.TemplateAnnot Dialect.TextAnnot Hydro.Fragments Frag.StripImpl Stereo.EzChiralText.
Theorem C15_chiral_text_reaches_returned_graph : forall fo name toks dc,
  FragText.wf toks dc = true -> excluded toks dc = false ->
  forall clean desc ez ann, strip_bonding_descriptors fo (FragText.render (decorate toks dc)) = Ok (clean, desc, ez, ann) ->
  forall g0 bonding ezl T, NoDup (node_keys g0) -> read_fragment_post g0 name bonding ezl (ann_list ann) = Ok T ->
  forall C, wf_cut C -> forall fd, templates_ok C fd -> wf_dict fd -> fd_get name fd = Some T ->
  forall B, is_base C B ->
  (forall x, In x (flat C) ->
    (exists e, aget (S "element") (payload C x) = Some e) /\ (exists q, aget (S "charge") (payload C x) = Some q) /\
    (exists h, aget (S "hcount") (payload C x) = Some (VInt h)) /\ Hydrogens.is_H (payload C x) = false) ->
  forall prev g1 fo_, meta_of prev = B -> resolve_step_full true true fd prev (Some g1) = Ok fo_ -> ReturnedCar.dicts (fo_m3 fo_) ->
  exists m, sort_mapping (fo_m4 fo_) = Ok m /\ SortGraphProofs.inj_on (map_get m) (node_keys (fo_m4 fo_)) /\
    (forall pre body annot post a v n0,
       decorate toks dc = pre ++ ITok (TBracket body annot) :: post ->
       fragment_node_parser fo (annot_text annot) = Ok a -> In (S "chiral", v) a ->
       gfind (Z.of_nat (atoms_of pre)) g0 = Some n0 ->
       forall p xs x, nth_error (c_parts C) p = Some (name, xs) -> nth_error xs (atoms_of pre) = Some x ->
         node_get (fo_mol fo_) (map_get m (phi C x)) (S "chiral") = Some v) /\
    (forall j n,
       gfind (Z.of_nat j) T = Some n ->
       has_node g0 (Z.of_nat j) = true -> node_get g0 (Z.of_nat j) (S "chiral") = None ->
       (forall a, nd_get j ann = Some a -> aget (S "chiral") a = None /\ aget (S "element") a = None) ->
       (nd_get j ann <> None \/ node_get g0 (Z.of_nat j) (S "element") <> Some (VStr (S "H"))) ->
       forall p xs y, nth_error (c_parts C) p = Some (name, xs) -> nth_error xs j = Some y ->
         node_get (fo_mol fo_) (map_get m (phi C y)) (S "chiral") = None).
Proof. exact chiral_text_reaches_returned_graph. Qed.
Theorem C15_parse_x_R : forall fo, exists a, fragment_node_parser fo (S "x=R") = Ok a /\ In (S "chiral", VStr (S "R")) a.
Proof. exact parse_x_R. Qed.
(** non-vacuity: {[#A][#A]}.{#A=C[C;x=R][$]}: every hypothesis holds, the step returns, the label is at the returned keys 1 and 8
    (the two copies of atom 1) and nowhere else among the heavy atoms *)
Example C15_chiral_text_nonvacuous :
  to_string (FragText.render (decorate cx_toks cx_dc)) = "C[C;x=R][$]"%string /\
  FragText.wf cx_toks cx_dc = true /\ excluded cx_toks cx_dc = false /\
  (exists clean desc ez, strip_bonding_descriptors cx_fo (FragText.render (decorate cx_toks cx_dc)) = Ok (clean, desc, ez, cx_ann)) /\
  NoDup (node_keys cx_g0) /\ read_fragment_post cx_g0 (S "A") [(1, VList [VStr (S "$1")])] [] (ann_list cx_ann) = Ok cx_T /\
  wf_cut cx_cut /\ templates_ok cx_cut cx_fd /\ wf_dict cx_fd /\ fd_get (S "A") cx_fd = Some cx_T /\ is_base cx_cut (base_of cx_cut) /\
  (forall x, In x (flat cx_cut) ->
     (exists e, aget (S "element") (payload cx_cut x) = Some e) /\ (exists q, aget (S "charge") (payload cx_cut x) = Some q) /\
     (exists h, aget (S "hcount") (payload cx_cut x) = Some (VInt h)) /\ Hydrogens.is_H (payload cx_cut x) = false) /\
  meta_of (base_of cx_cut) = base_of cx_cut /\
  (exists a, decorate cx_toks cx_dc = [ITok (TAtom (S "C"))] ++ ITok (TBracket (S "C") (Some (S "x=R"))) :: [IDesc {| d_kind := "$"%char; d_label := []; d_sym := None |}] /\
             fragment_node_parser cx_fo (annot_text (Some (S "x=R"))) = Ok a /\ In (S "chiral", VStr (S "R")) a /\
             atoms_of [ITok (TAtom (S "C"))] = 1%nat) /\
  match cx_m3 with
  | Some m3 =>
      ReturnedExample.dictsb m3 = true /\
      match resolve_step_full true true cx_fd (base_of cx_cut) (Some m3) with
      | Ok fo => map (fun k => node_get (fo_mol fo) k (S "chiral")) [0; 1; 7; 8] = [None; Some (VStr (S "R")); None; Some (VStr (S "R"))]
      | Err _ => False
      end
  | None => False
  end.
Proof. exact chiral_text_nonvacuous. Qed.

Print Assumptions C15_sort_mono.
Print Assumptions C15_sort_mono_frag.
Print Assumptions C15_returned_class_geom.
Print Assumptions C15_written_after_class.
Print Assumptions C15_order_invariant_cut.
Print Assumptions C15_reading_template.
Print Assumptions C15_string_is_step.
Print Assumptions C15_order_invariant_strings.
Print Assumptions C15_chiral_text_reaches_returned_graph.
Print Assumptions C15_parse_x_R.

(** the chain family  A_n = [$]=C(Cl)/C C^n,  B_m = [$]=C(Br)/C C^m  (cut at the stereo double bond, both marked ligands
    written after their anchors): [family_okb n m] is the conjunction of the decidable forms of every hypothesis of
    C15_order_invariant_strings for the cut [chain_cut n m]; a member that passes it has the order property
    (C15_chain_family_member: unbounded in n, m, conditional on the check), and all members with n, m <= 12 pass
    (BOUNDED, vm_compute over 169 instances) *)
Theorem C15_chain_family_member : forall n m o1 o2, family_okb n m = true ->
  let C1 := chain_cut n m in let C2 := swap_parts C1 in
  let tA := FragText.render (decorate (toksX "Cl" n) (dcl n)) in let tB := FragText.render (decorate (toksX "Br" m) (dcl m)) in
  resolve_string EzStringExamples.fo0 (sAB tA tB) = Ok o1 -> resolve_string EzStringExamples.fo0 (sBA tA tB) = Ok o2 ->
  exists m1 m2, sort_mapping (fo_m4 o1) = Ok m1 /\ sort_mapping (fo_m4 o2) = Ok m2 /\
    forall lx ax ay ly c1 c2 k1 k2, In lx (flat C1) -> In ax (flat C1) -> In ay (flat C1) -> In ly (flat C1) ->
      owner C1 lx = owner C1 ax -> owner C1 ly = owner C1 ay -> wb C1 lx ax = false -> wb C1 ly ay = false ->
      is_new (fo_m5 o1) (fo_mol o1) k1
        (ez_tuple (map_get m1 (phi C1 lx)) (map_get m1 (phi C1 ax)) (map_get m1 (phi C1 ay)) (map_get m1 (phi C1 ly)) c1) ->
      is_new (fo_m5 o2) (fo_mol o2) k2
        (ez_tuple (map_get m2 (phi C2 lx)) (map_get m2 (phi C2 ax)) (map_get m2 (phi C2 ay)) (map_get m2 (phi C2 ly)) c2) ->
      c1 = c2.
Proof. exact family_member. Qed.
Theorem C15_chain_family_order_invariant_bounded : forall n m o1 o2, (n <= 12)%nat -> (m <= 12)%nat ->
  let C1 := chain_cut n m in let C2 := swap_parts C1 in
  let tA := FragText.render (decorate (toksX "Cl" n) (dcl n)) in let tB := FragText.render (decorate (toksX "Br" m) (dcl m)) in
  resolve_string EzStringExamples.fo0 (sAB tA tB) = Ok o1 -> resolve_string EzStringExamples.fo0 (sBA tA tB) = Ok o2 ->
  exists m1 m2, sort_mapping (fo_m4 o1) = Ok m1 /\ sort_mapping (fo_m4 o2) = Ok m2 /\
    forall lx ax ay ly c1 c2 k1 k2, In lx (flat C1) -> In ax (flat C1) -> In ay (flat C1) -> In ly (flat C1) ->
      owner C1 lx = owner C1 ax -> owner C1 ly = owner C1 ay -> wb C1 lx ax = false -> wb C1 ly ay = false ->
      is_new (fo_m5 o1) (fo_mol o1) k1
        (ez_tuple (map_get m1 (phi C1 lx)) (map_get m1 (phi C1 ax)) (map_get m1 (phi C1 ay)) (map_get m1 (phi C1 ly)) c1) ->
      is_new (fo_m5 o2) (fo_mol o2) k2
        (ez_tuple (map_get m2 (phi C2 lx)) (map_get m2 (phi C2 ax)) (map_get m2 (phi C2 ay)) (map_get m2 (phi C2 ly)) c2) ->
      c1 = c2.
Proof. exact chain_family_order_invariant_bounded. Qed.
Print Assumptions C15_chain_family_member.
Print Assumptions C15_chain_family_order_invariant_bounded.

(** ---- the stored class as an EXPLICIT function of the cut, and ez_cut_invariant (Stereo/EzRebuildOrder.v, EzCut.v) *)
From CGV Require Import Stereo.EzRebuildOrder.
Theorem C15_rebuild_keys_prefix : forall g g', NoDup (node_keys g) -> Hydrogens.rebuild_h_atoms_default g (Some g) = Ok g' ->
  exists hs, node_keys g' = node_keys g ++ hs.
Proof. exact rebuild_keys_prefix. Qed.
(** for any four atoms of the cut: with tokens that say "side ux / uy" for the position order (inside a part: the tokens
    OpenSMILES prescribes for those sides) the stored class is the TRUE relation (cis iff same side) exactly when the ligand
    of the LATER anchor comes after its anchor ([late_after]), and the opposite otherwise *)
Theorem C15_stored_class_sides : forall C, wf_cut C -> forall fd, templates_ok C fd -> wf_dict fd -> forall B, is_base C B ->
  heavy_payload C -> numeric_orders C -> forall tok,
  (forall name xs T i x n, In (name, xs) (c_parts C) -> fd_get name fd = Some T ->
     nth_error xs i = Some x -> gfind (Z.of_nat i) T = Some n -> aget ezk (na n) = tok x) ->
  forall prev fo, next_meta prev = B -> resolve_step_full true true fd prev (Some (fo_m3 fo)) = Ok fo ->
  exists m, sort_mapping (fo_m4 fo) = Ok m /\
    forall lx ax ay ly ux uy c k, In lx (flat C) -> In ax (flat C) -> In ay (flat C) -> In ly (flat C) ->
      is_new (fo_m5 fo) (fo_mol fo) k
        (ez_tuple (map_get m (phi C lx)) (map_get m (phi C ax)) (map_get m (phi C ay)) (map_get m (phi C ly)) c) ->
      tok lx = Some (tok_of ux (wb C lx ax)) -> tok ly = Some (tok_of uy (wb C ly ay)) ->
      c = class_val (if late_after C lx ax ay ly then Bool.eqb ux uy else negb (Bool.eqb ux uy)).
Proof. exact stored_class_sides. Qed.
(** ez_cut_invariant: ANY two cuts of the molecule (one fragment, cut at the double bond, cut elsewhere; any part order) whose
    tokens say the same sides store the same class - the true relation - for the same four atoms, as long as in each of them
    the ligand of the later anchor comes after its anchor *)
Theorem C15_cut_invariant : forall C1 C2 fd1 fd2 B1 B2 tok1 tok2 prev1 prev2 fo1 fo2,
  wf_cut C1 -> templates_ok C1 fd1 -> wf_dict fd1 -> is_base C1 B1 -> heavy_payload C1 -> numeric_orders C1 ->
  wf_cut C2 -> templates_ok C2 fd2 -> wf_dict fd2 -> is_base C2 B2 -> heavy_payload C2 -> numeric_orders C2 ->
  (forall name xs T i x n, In (name, xs) (c_parts C1) -> fd_get name fd1 = Some T ->
     nth_error xs i = Some x -> gfind (Z.of_nat i) T = Some n -> aget ezk (na n) = tok1 x) ->
  (forall name xs T i x n, In (name, xs) (c_parts C2) -> fd_get name fd2 = Some T ->
     nth_error xs i = Some x -> gfind (Z.of_nat i) T = Some n -> aget ezk (na n) = tok2 x) ->
  next_meta prev1 = B1 -> next_meta prev2 = B2 ->
  resolve_step_full true true fd1 prev1 (Some (fo_m3 fo1)) = Ok fo1 -> resolve_step_full true true fd2 prev2 (Some (fo_m3 fo2)) = Ok fo2 ->
  exists m1 m2, sort_mapping (fo_m4 fo1) = Ok m1 /\ sort_mapping (fo_m4 fo2) = Ok m2 /\
    forall lx ax ay ly ux uy c1 c2 k1 k2,
      In lx (flat C1) -> In ax (flat C1) -> In ay (flat C1) -> In ly (flat C1) ->
      In lx (flat C2) -> In ax (flat C2) -> In ay (flat C2) -> In ly (flat C2) ->
      tok1 lx = Some (tok_of ux (wb C1 lx ax)) -> tok1 ly = Some (tok_of uy (wb C1 ly ay)) ->
      tok2 lx = Some (tok_of ux (wb C2 lx ax)) -> tok2 ly = Some (tok_of uy (wb C2 ly ay)) ->
      late_after C1 lx ax ay ly = true -> late_after C2 lx ax ay ly = true ->
      is_new (fo_m5 fo1) (fo_mol fo1) k1
        (ez_tuple (map_get m1 (phi C1 lx)) (map_get m1 (phi C1 ax)) (map_get m1 (phi C1 ay)) (map_get m1 (phi C1 ly)) c1) ->
      is_new (fo_m5 fo2) (fo_mol fo2) k2
        (ez_tuple (map_get m2 (phi C2 lx)) (map_get m2 (phi C2 ax)) (map_get m2 (phi C2 ay)) (map_get m2 (phi C2 ly)) c2) ->
      c1 = class_val (Bool.eqb ux uy) /\ c2 = class_val (Bool.eqb ux uy).
Proof. exact cut_invariant. Qed.
(** non-vacuity: the molecule of C15_order_invariant_strings_nonvacuous cut at the double bond and cut ELSEWHERE
    ({[#A][#B]}.{#A=C(Cl)(/CC)=C(Br)/CC[$],#B=[$]C}), both through resolve_string: every hypothesis holds, both store `cis` *)
Example C15_cut_invariant_nonvacuous :
  to_string (sAB tP tQ) = "{[#A][#B]}.{#A=C(Cl)(/CC)=C(Br)/CC[$],#B=[$]C}"%string /\
  exists fd1 fd2 o1 o2,
    let tok1 := tok2 (keysX 0 1) (keysX 1 2) ez02 ez02 in let tokp := tok2 xsP [9] ezP [] in
    wf_cut C12 /\ templates_ok C12 fd1 /\ wf_dict fd1 /\ is_base C12 (next_meta baseAB) /\ heavy_payload C12 /\ numeric_orders C12 /\
    wf_cut C12p /\ templates_ok C12p fd2 /\ wf_dict fd2 /\ is_base C12p (next_meta baseAB) /\ heavy_payload C12p /\ numeric_orders C12p /\
    (forall name xs T i x n, In (name, xs) (c_parts C12) -> fd_get name fd1 = Some T ->
       nth_error xs i = Some x -> gfind (Z.of_nat i) T = Some n -> aget ezk (na n) = tok1 x) /\
    (forall name xs T i x n, In (name, xs) (c_parts C12p) -> fd_get name fd2 = Some T ->
       nth_error xs i = Some x -> gfind (Z.of_nat i) T = Some n -> aget ezk (na n) = tokp x) /\
    resolve_string EzStringExamples.fo0 (sAB tA1 tB2) = Ok o1 /\ resolve_string EzStringExamples.fo0 (sAB tP tQ) = Ok o2 /\
    resolve_step_full true true fd1 baseAB (Some (fo_m3 o1)) = Ok o1 /\ resolve_step_full true true fd2 baseAB (Some (fo_m3 o2)) = Ok o2 /\
    let m1 := mapping_of_out o1 in let m2 := mapping_of_out o2 in
    sort_mapping (fo_m4 o1) = Ok m1 /\ sort_mapping (fo_m4 o2) = Ok m2 /\
    tok1 4 = Some (tok_of true (wb C12 4 0)) /\ tok1 5 = Some (tok_of true (wb C12 5 1)) /\
    tokp 4 = Some (tok_of true (wb C12p 4 0)) /\ tokp 5 = Some (tok_of true (wb C12p 5 1)) /\
    late_after C12 4 0 1 5 = true /\ late_after C12p 4 0 1 5 = true /\
    is_new (fo_m5 o1) (fo_mol o1) (map_get m1 (phi C12 4))
      (ez_tuple (map_get m1 (phi C12 4)) (map_get m1 (phi C12 0)) (map_get m1 (phi C12 1)) (map_get m1 (phi C12 5)) v_cis) /\
    is_new (fo_m5 o2) (fo_mol o2) (map_get m2 (phi C12p 4))
      (ez_tuple (map_get m2 (phi C12p 4)) (map_get m2 (phi C12p 0)) (map_get m2 (phi C12p 1)) (map_get m2 (phi C12p 5)) v_cis).
Proof. exact cut_invariant_nonvacuous. Qed.
Print Assumptions C15_rebuild_keys_prefix.
Print Assumptions C15_stored_class_sides.
Print Assumptions C15_cut_invariant.

(** ---- ONE BIT (Stereo/EzCut.v): the stored class of four atoms depends on the cut only through [early_before] = the ligand of
    the EARLIER anchor comes before it; two cuts (any placement, any part order) carrying the same two tokens store the same
    class IF AND ONLY IF they agree on that bit - the exact content of the open classes as far as stored classes go *)
Theorem C15_stored_class_bit : forall C, wf_cut C -> forall fd, templates_ok C fd -> wf_dict fd -> forall B, is_base C B ->
  heavy_payload C -> numeric_orders C -> forall tok,
  (forall name xs T i x n, In (name, xs) (c_parts C) -> fd_get name fd = Some T ->
     nth_error xs i = Some x -> gfind (Z.of_nat i) T = Some n -> aget ezk (na n) = tok x) ->
  forall prev fo, next_meta prev = B -> resolve_step_full true true fd prev (Some (fo_m3 fo)) = Ok fo ->
  exists m, sort_mapping (fo_m4 fo) = Ok m /\
    forall lx ax ay ly c k, In lx (flat C) -> In ax (flat C) -> In ay (flat C) -> In ly (flat C) ->
      is_new (fo_m5 fo) (fo_mol fo) k
        (ez_tuple (map_get m (phi C lx)) (map_get m (phi C ax)) (map_get m (phi C ay)) (map_get m (phi C ly)) c) ->
      exists tx ty, tok lx = Some tx /\ tok ly = Some ty /\ is_tok tx = true /\ is_tok ty = true /\
        c = class_val (negb (xorb (xorb (is_slash tx) (is_slash ty)) (early_before C lx ax ay ly))).
Proof. exact stored_class_bit. Qed.
Theorem C15_order_dependence_exact : forall C1 C2 fd1 fd2 B1 B2 tok1 tok2 prev1 prev2 fo1 fo2,
  wf_cut C1 -> templates_ok C1 fd1 -> wf_dict fd1 -> is_base C1 B1 -> heavy_payload C1 -> numeric_orders C1 ->
  wf_cut C2 -> templates_ok C2 fd2 -> wf_dict fd2 -> is_base C2 B2 -> heavy_payload C2 -> numeric_orders C2 ->
  (forall name xs T i x n, In (name, xs) (c_parts C1) -> fd_get name fd1 = Some T ->
     nth_error xs i = Some x -> gfind (Z.of_nat i) T = Some n -> aget ezk (na n) = tok1 x) ->
  (forall name xs T i x n, In (name, xs) (c_parts C2) -> fd_get name fd2 = Some T ->
     nth_error xs i = Some x -> gfind (Z.of_nat i) T = Some n -> aget ezk (na n) = tok2 x) ->
  next_meta prev1 = B1 -> next_meta prev2 = B2 ->
  resolve_step_full true true fd1 prev1 (Some (fo_m3 fo1)) = Ok fo1 -> resolve_step_full true true fd2 prev2 (Some (fo_m3 fo2)) = Ok fo2 ->
  exists m1 m2, sort_mapping (fo_m4 fo1) = Ok m1 /\ sort_mapping (fo_m4 fo2) = Ok m2 /\
    forall lx ax ay ly c1 c2 k1 k2,
      In lx (flat C1) -> In ax (flat C1) -> In ay (flat C1) -> In ly (flat C1) ->
      In lx (flat C2) -> In ax (flat C2) -> In ay (flat C2) -> In ly (flat C2) ->
      tok1 lx = tok2 lx -> tok1 ly = tok2 ly ->
      is_new (fo_m5 fo1) (fo_mol fo1) k1
        (ez_tuple (map_get m1 (phi C1 lx)) (map_get m1 (phi C1 ax)) (map_get m1 (phi C1 ay)) (map_get m1 (phi C1 ly)) c1) ->
      is_new (fo_m5 fo2) (fo_mol fo2) k2
        (ez_tuple (map_get m2 (phi C2 lx)) (map_get m2 (phi C2 ax)) (map_get m2 (phi C2 ay)) (map_get m2 (phi C2 ly)) c2) ->
      (c1 = c2 <-> early_before C1 lx ax ay ly = early_before C2 lx ax ay ly).
Proof. exact order_dependence_exact. Qed.
(** non-vacuity = the known finding second_anchor_ligand_lower at the level of cuts: the two base orders of
    {#A=F/C(Cl)=[$],#B=[$]=C(Br)/I} disagree on the bit and store trans / cis (both through resolve_string) *)
Example C15_order_dependence_nonvacuous :
  to_string (sAB tF tI) = "{[#A][#B]}.{#A=F/C(Cl)=[$],#B=[$]=C(Br)/I}"%string /\
  to_string (sBA tF tI) = "{[#B][#A]}.{#A=F/C(Cl)=[$],#B=[$]=C(Br)/I}"%string /\
  exists fd o1 o2,
    let tok := tok2 [0; 2; 4] [1; 3; 5] ezF ez02 in let C2 := swap_parts Cw in
    wf_cut Cw /\ templates_ok Cw fd /\ wf_dict fd /\ is_base Cw (next_meta baseAB) /\ heavy_payload Cw /\ numeric_orders Cw /\
    wf_cut C2 /\ templates_ok C2 fd /\ is_base C2 (next_meta baseBA) /\ heavy_payload C2 /\ numeric_orders C2 /\
    (forall name xs T i x n, In (name, xs) (c_parts Cw) -> fd_get name fd = Some T ->
       nth_error xs i = Some x -> gfind (Z.of_nat i) T = Some n -> aget ezk (na n) = tok x) /\
    (forall name xs T i x n, In (name, xs) (c_parts C2) -> fd_get name fd = Some T ->
       nth_error xs i = Some x -> gfind (Z.of_nat i) T = Some n -> aget ezk (na n) = tok x) /\
    resolve_step_full true true fd baseAB (Some (fo_m3 o1)) = Ok o1 /\ resolve_step_full true true fd baseBA (Some (fo_m3 o2)) = Ok o2 /\
    resolve_string EzStringExamples.fo0 (sAB tF tI) = Ok o1 /\ resolve_string EzStringExamples.fo0 (sBA tF tI) = Ok o2 /\
    let m1 := mapping_of_out o1 in let m2 := mapping_of_out o2 in
    sort_mapping (fo_m4 o1) = Ok m1 /\ sort_mapping (fo_m4 o2) = Ok m2 /\
    early_before Cw 0 2 1 5 = true /\ early_before C2 0 2 1 5 = false /\
    is_new (fo_m5 o1) (fo_mol o1) (map_get m1 (phi Cw 0))
      (ez_tuple (map_get m1 (phi Cw 0)) (map_get m1 (phi Cw 2)) (map_get m1 (phi Cw 1)) (map_get m1 (phi Cw 5)) v_trans) /\
    is_new (fo_m5 o2) (fo_mol o2) (map_get m2 (phi C2 0))
      (ez_tuple (map_get m2 (phi C2 0)) (map_get m2 (phi C2 2)) (map_get m2 (phi C2 1)) (map_get m2 (phi C2 5)) v_cis).
Proof. exact order_dependence_nonvacuous. Qed.
Print Assumptions C15_stored_class_bit.
Print Assumptions C15_order_dependence_exact.

(** ez_cut_invariant through the parser, for two-fragment strings (two strings cutting the same molecule at different
    places, e.g. at the stereo double bond and elsewhere) *)
Theorem C15_cut_invariant_strings : forall fo C1 C2 xsA1 xsB1 xsA2 xsB2 tokA1 tokB1 tokA2 tokB2 dcA1 dcB1 dcA2 dcB2 ezA1 ezB1 ezA2 ezB2
        TA1 TB1 TA2 TB2 (base1 base2 : pystr) mol1 mol2 o1 o2,
  let tA1 := FragText.render (decorate tokA1 dcA1) in let tB1 := FragText.render (decorate tokB1 dcB1) in
  let tA2 := FragText.render (decorate tokA2 dcA2) in let tB2 := FragText.render (decorate tokB2 dcB2) in
  let tok1 := tok2 xsA1 xsB1 ezA1 ezB1 in let tok2' := tok2 xsA2 xsB2 ezA2 ezB2 in
  frag_reading fo C1 nA xsA1 tokA1 dcA1 ezA1 TA1 -> frag_reading fo C1 nB xsB1 tokB1 dcB1 ezB1 TB1 -> parts_AB C1 xsA1 xsB1 ->
  frag_reading fo C2 nA xsA2 tokA2 dcA2 ezA2 TA2 -> frag_reading fo C2 nB xsB2 tokB2 dcB2 ezB2 TB2 -> parts_AB C2 xsA2 xsB2 ->
  wf_cut C1 -> heavy_payload C1 -> numeric_orders C1 -> wf_cut C2 -> heavy_payload C2 -> numeric_orders C2 ->
  base1 <> [] -> ~ In "}"%char base1 -> read_cgsmiles fo ("{"%char :: base1 ++ ["}"%char]) = Ok mol1 -> is_base C1 (next_meta mol1) ->
  base2 <> [] -> ~ In "}"%char base2 -> read_cgsmiles fo ("{"%char :: base2 ++ ["}"%char]) = Ok mol2 -> is_base C2 (next_meta mol2) ->
  ~ In ","%char tA1 /\ ~ In ","%char tB1 /\ ~ In "}"%char tA1 /\ ~ In "}"%char tB1 ->
  ~ In ","%char tA2 /\ ~ In ","%char tB2 /\ ~ In "}"%char tA2 /\ ~ In "}"%char tB2 ->
  resolve_string fo ("{"%char :: base1 ++ "}"%char :: "."%char :: block2 tA1 tB1) = Ok o1 ->
  resolve_string fo ("{"%char :: base2 ++ "}"%char :: "."%char :: block2 tA2 tB2) = Ok o2 ->
  exists m1 m2, sort_mapping (fo_m4 o1) = Ok m1 /\ sort_mapping (fo_m4 o2) = Ok m2 /\
    forall lx ax ay ly ux uy c1 c2 k1 k2,
      In lx (flat C1) -> In ax (flat C1) -> In ay (flat C1) -> In ly (flat C1) ->
      In lx (flat C2) -> In ax (flat C2) -> In ay (flat C2) -> In ly (flat C2) ->
      tok1 lx = Some (tok_of ux (wb C1 lx ax)) -> tok1 ly = Some (tok_of uy (wb C1 ly ay)) ->
      tok2' lx = Some (tok_of ux (wb C2 lx ax)) -> tok2' ly = Some (tok_of uy (wb C2 ly ay)) ->
      late_after C1 lx ax ay ly = true -> late_after C2 lx ax ay ly = true ->
      is_new (fo_m5 o1) (fo_mol o1) k1
        (ez_tuple (map_get m1 (phi C1 lx)) (map_get m1 (phi C1 ax)) (map_get m1 (phi C1 ay)) (map_get m1 (phi C1 ly)) c1) ->
      is_new (fo_m5 o2) (fo_mol o2) k2
        (ez_tuple (map_get m2 (phi C2 lx)) (map_get m2 (phi C2 ax)) (map_get m2 (phi C2 ay)) (map_get m2 (phi C2 ly)) c2) ->
      c1 = class_val (Bool.eqb ux uy) /\ c2 = class_val (Bool.eqb ux uy).
Proof. exact cut_invariant_strings. Qed.
(** non-vacuity: the readings of the two strings of C15_cut_invariant_nonvacuous (the remaining hypotheses and the stored
    classes are listed there) *)
Example C15_cut_invariant_strings_nonvacuous :
  (exists T, frag_reading EzStringExamples.fo0 C12 nA (keysX 0 1) (toksX "Cl" 1) (dcl 1) ez02 T) /\
  (exists T, frag_reading EzStringExamples.fo0 C12 nB (keysX 1 2) (toksX "Br" 2) (dcl 2) ez02 T) /\ parts_AB C12 (keysX 0 1) (keysX 1 2) /\
  (exists T, frag_reading EzStringExamples.fo0 C12p nA xsP toksP dcP ezP T) /\
  (exists T, frag_reading EzStringExamples.fo0 C12p nB [9] toksQ dcQ [] T) /\ parts_AB C12p xsP [9] /\
  read_cgsmiles EzStringExamples.fo0 ("{"%char :: S "[#A][#B]" ++ ["}"%char]) = Ok baseAB.
Proof.
  split; [eexists; exact readingA|]. split; [eexists; exact readingB|]. split; [left; reflexivity|].
  split; [exact readingP|]. split; [exact readingQ|]. split; [left; reflexivity|]. exact (read_baseAB _).
Qed.
Print Assumptions C15_cut_invariant_strings.

(** ... and ONE FRAGMENT against a cut in two ({[#A]}.{#A=t} vs {base}.{#A=tA,#B=tB}): with C15_cut_invariant_strings this is
    the property's "the same whether the molecule is one fragment, cut at the double bond, or cut at single bonds elsewhere"
    on strings, through the parsers, outside the open classes *)
Theorem C15_one_vs_two_strings : forall fo C1 C2 xs1 xsA2 xsB2 tok1 tokA2 tokB2 dc1 dcA2 dcB2 ez1 ezA2 ezB2 T1 TA2 TB2 (base2 : pystr) mol2 o1 o2,
  let t1 := FragText.render (decorate tok1 dc1) in
  let tA2 := FragText.render (decorate tokA2 dcA2) in let tB2 := FragText.render (decorate tokB2 dcB2) in
  let tk1 := tok1f xs1 ez1 in let tk2 := tok2 xsA2 xsB2 ezA2 ezB2 in
  frag_reading fo C1 nA xs1 tok1 dc1 ez1 T1 -> c_parts C1 = [(nA, xs1)] ->
  frag_reading fo C2 nA xsA2 tokA2 dcA2 ezA2 TA2 -> frag_reading fo C2 nB xsB2 tokB2 dcB2 ezB2 TB2 -> parts_AB C2 xsA2 xsB2 ->
  wf_cut C1 -> heavy_payload C1 -> numeric_orders C1 -> wf_cut C2 -> heavy_payload C2 -> numeric_orders C2 ->
  is_base C1 (next_meta baseA) ->
  base2 <> [] -> ~ In "}"%char base2 -> read_cgsmiles fo ("{"%char :: base2 ++ ["}"%char]) = Ok mol2 -> is_base C2 (next_meta mol2) ->
  ~ In ","%char t1 -> ~ In "}"%char t1 ->
  ~ In ","%char tA2 /\ ~ In ","%char tB2 /\ ~ In "}"%char tA2 /\ ~ In "}"%char tB2 ->
  resolve_string fo (sA t1) = Ok o1 ->
  resolve_string fo ("{"%char :: base2 ++ "}"%char :: "."%char :: block2 tA2 tB2) = Ok o2 ->
  exists m1 m2, sort_mapping (fo_m4 o1) = Ok m1 /\ sort_mapping (fo_m4 o2) = Ok m2 /\
    forall lx ax ay ly ux uy c1 c2 k1 k2,
      In lx (flat C1) -> In ax (flat C1) -> In ay (flat C1) -> In ly (flat C1) ->
      In lx (flat C2) -> In ax (flat C2) -> In ay (flat C2) -> In ly (flat C2) ->
      tk1 lx = Some (tok_of ux (wb C1 lx ax)) -> tk1 ly = Some (tok_of uy (wb C1 ly ay)) ->
      tk2 lx = Some (tok_of ux (wb C2 lx ax)) -> tk2 ly = Some (tok_of uy (wb C2 ly ay)) ->
      late_after C1 lx ax ay ly = true -> late_after C2 lx ax ay ly = true ->
      is_new (fo_m5 o1) (fo_mol o1) k1
        (ez_tuple (map_get m1 (phi C1 lx)) (map_get m1 (phi C1 ax)) (map_get m1 (phi C1 ay)) (map_get m1 (phi C1 ly)) c1) ->
      is_new (fo_m5 o2) (fo_mol o2) k2
        (ez_tuple (map_get m2 (phi C2 lx)) (map_get m2 (phi C2 ax)) (map_get m2 (phi C2 ay)) (map_get m2 (phi C2 ly)) c2) ->
      c1 = class_val (Bool.eqb ux uy) /\ c2 = class_val (Bool.eqb ux uy).
Proof. exact one_vs_two_strings. Qed.
(** non-vacuity, the one-fragment side (the two-fragment side is C15_cut_invariant_nonvacuous / _strings_nonvacuous):
    {[#A]}.{#A=C(Cl)(/CC)=C(Br)/CCC} resolves and stores `cis` for the same four atoms *)
Example C15_one_vs_two_nonvacuous :
  to_string (sA tS) = "{[#A]}.{#A=C(Cl)(/CC)=C(Br)/CCC}"%string /\
  (exists T0, frag_reading EzStringExamples.fo0 C1s nA xsS toksS dcS ezP T0) /\ c_parts C1s = [(nA, xsS)] /\
  wf_cut C1s /\ heavy_payload C1s /\ numeric_orders C1s /\ is_base C1s (next_meta baseA) /\
  ~ In ","%char tS /\ ~ In "}"%char tS /\
  let tk1 := tok1f xsS ezP in
  tk1 4 = Some (tok_of true (wb C1s 4 0)) /\ tk1 5 = Some (tok_of true (wb C1s 5 1)) /\ late_after C1s 4 0 1 5 = true /\
  exists o1, resolve_string EzStringExamples.fo0 (sA tS) = Ok o1 /\
    let m1 := mapping_of_out o1 in sort_mapping (fo_m4 o1) = Ok m1 /\
    is_new (fo_m5 o1) (fo_mol o1) (map_get m1 (phi C1s 4))
      (ez_tuple (map_get m1 (phi C1s 4)) (map_get m1 (phi C1s 0)) (map_get m1 (phi C1s 1)) (map_get m1 (phi C1s 5)) v_cis).
Proof. exact one_vs_two_nonvacuous. Qed.
Print Assumptions C15_one_vs_two_strings.
