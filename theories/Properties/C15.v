(** Property C15 — stereo information survives fragmentation and renumbering.
    Only statements, each closed by [exact]; proofs in Stereo/EzProofs.v. *)
From Coq Require Import String.
From Coq Require Import List Ascii ZArith Bool.
From CGV Require Import Base.PyBase Base.PyVal Base.NxGraph Stereo.EzImpl Stereo.EzDefs Stereo.EzProofs.
Import ListNotations.
Open Scope Z_scope.

(** the class is a function of the two tokens and of the single comparison ligand_first < anchor_first *)
Theorem C15_ez_class_table : forall lf af t1 t2, lf <> af -> is_tok t1 = true -> is_tok t2 = true ->
  interpret lf af t1 t2 = Some (table (lf <? af) t1 t2).
Proof. exact interpret_table. Qed.

Print Assumptions C15_ez_class_table.
