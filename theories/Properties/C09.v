(** Property C09 — every atom of an atomistic result has a complete, standard valence.
    Only statements, each closed by [exact]; the proofs live in Hydro/HydrogensProofs.v.
    The valence table, the attributes of a fresh hydrogen, copy_attrs and the constants handed to
    pysmiles are the definitions GENERATED in Gen/HydroGen.v (by calling the installed pysmiles and by
    parsing pysmiles_utils.py) on every run.  pysmiles' correct_aromatic_rings is a transcript: the
    theorems speak about the steps after it, for every graph it may leave behind. *)
From Coq Require Import String.
From Coq Require Import List Ascii ZArith Bool.
From CGV Require Import Base.PyBase Base.PyVal Base.NxGraph Gen.HydroGen Hydro.Hydrogens Hydro.HydroDefs
     Hydro.HydrogensProofs.
Import ListNotations.
Open Scope Z_scope.

(** every row of the valence table generated from the installed pysmiles is non-empty, non-negative
    and strictly ascending.  BOUNDED: a finite check over the generated table (14 elements x 5
    charges); the bound is the table. *)
Theorem C09_valence_table_wf_bounded : table_wf valence_table = true.
Proof. exact valence_table_wf. Qed.

(** bonds_missing on a well-formed row, in half units (b2 = twice the bond sum): *)
Theorem C09_bonds_missing_spec : forall val b2, row_wf val = true -> fits val b2 ->
  exists v, least_fitting val b2 v /\ missing_of val b2 = Z.quot (2 * v - b2) 2 /\
            0 <= missing_of val b2 /\
            (Z.even b2 = true -> b2 + 2 * missing_of val b2 = 2 * v) /\
            (Z.even b2 = false -> b2 + 2 * missing_of val b2 = 2 * v - 1).
Proof. exact bonds_missing_spec. Qed.

(** for every (element, charge) row of the generated table and every bond sum within the largest
    valence: stored hydrogens = least fitting valence - bonds, and the orders then add up to it *)
Theorem C09_valence_complete : forall e q val b2, table_row e q = Some (Some val) -> fits val b2 ->
  let h := Z.max (missing_of val b2) 0 in
  exists v, least_fitting val b2 v /\
            (Z.even b2 = true -> 2 * h = 2 * v - b2 /\ b2 + 2 * h = 2 * v) /\
            (Z.even b2 = false -> 2 * h = 2 * v - b2 - 1).
Proof. exact valence_complete. Qed.

(** one step of fill_valence as rebuild_h_atoms runs it (respect_hcount and the reset value are the
    generated constants: an edit of those keywords breaks this proof) *)
Theorem C09_fill_step_spec : forall g k n b val,
  gfind k g = Some n -> is_H (na n) = false ->
  aget (S "hcount") (na n) = Some (VInt rebuild_reset_value) ->
  sum_orders (nadj n) = Ok b -> valence_of (na n) = Ok val ->
  fill_step rebuild_respect_hcount g k
  = Ok (set_node_attr g k (S "hcount") (VInt (Z.max (missing_of val b) 0))).
Proof. exact fill_step_spec. Qed.

(** descriptors contribute no edges: a surplus descriptor leaves valence that is filled with H *)
Theorem C09_unused_descriptor_is_H : forall g j v k,
  bonds_missing (set_node_attr g j (S "bonding") v) k = bonds_missing g k.
Proof. exact unused_descriptor_is_H. Qed.

(** every added hydrogen: exactly one edge, order 1, to its anchor; existing edges untouched *)
Theorem C09_add_h_degree_one : forall g k n idxs,
  gfind k g = Some n -> NoDup idxs -> (forall j, In j idxs -> gfind j g = None) ->
  (forall j, In j idxs -> adj_get j (nadj n) = None) ->
  let g' := attach_h g k idxs in
  (forall j, In j idxs ->
     gfind j g' = Some {| nk := j; na := h_atom_defaults; nadj := [(k, h_edge_attrs)] |}) /\
  gfind k g' = Some {| nk := k; na := na n; nadj := nadj n ++ map (fun j => (j, h_edge_attrs)) idxs |} /\
  (forall i, i <> k -> ~ In i idxs -> gfind i g' = gfind i g).
Proof. exact add_h_degree_one. Qed.
(** … and the keys add_explicit_hydrogens picks satisfy the freshness hypotheses *)
Theorem C09_fresh_keys : forall g h, NoDup (fresh_keys g h) /\ forall j, In j (fresh_keys g h) -> gfind j g = None.
Proof. intros g h. split; [exact (fresh_keys_nodup g h)|exact (fresh_keys_fresh g h)]. Qed.

(** copy_attrs semantics of the inheritance loop *)
Theorem C09_h_inherits : forall copy_attrs g k n anchor rest m,
  gfind k g = Some n -> wants_inherit (na n) = true ->
  neighbors g k = anchor :: rest -> anchor <> k -> gfind anchor g = Some m ->
  exists g', inherit_step copy_attrs g k = Ok g' /\
    (forall j, j <> k -> gfind j g' = gfind j g) /\
    exists n', gfind k g' = Some n' /\ nadj n' = nadj n /\
      forall attr, aget attr (na n') =
        match aget attr (na n) with
        | Some v => Some v
        | None => if str_in attr copy_attrs then Some (getd attr (na m) VNone) else None
        end.
Proof. exact h_inherits. Qed.

(** non-vacuity *)
Example C09_nonvacuous_valence :
  table_row (S "C") 0 = Some (Some [4]) /\ fits [4] 4 /\ missing_of [4] 4 = 2 /\ missing_of [4] 6 = 1 /\
  table_row (S "N") 0 = Some (Some [3; 5]) /\ missing_of [3; 5] 8 = 1 /\ missing_of [3; 5] 9 = 0.
Proof. exact valence_complete_nonvacuous. Qed.

Print Assumptions C09_valence_table_wf_bounded.
Print Assumptions C09_bonds_missing_spec.
Print Assumptions C09_valence_complete.
Print Assumptions C09_fill_step_spec.
Print Assumptions C09_unused_descriptor_is_H.
Print Assumptions C09_add_h_degree_one.
Print Assumptions C09_fresh_keys.
Print Assumptions C09_h_inherits.
