(** Property C09 — every atom of an atomistic result has a complete, standard valence.
    Only statements, each closed by [exact]; proofs live in Hydro/HydrogensProofs.v. *)
From Coq Require Import String.
From Coq Require Import List Ascii ZArith Bool.
From CGV Require Import Base.PyBase Base.PyVal Base.NxGraph Gen.HydroGen Hydro.Hydrogens Hydro.HydroDefs
     Hydro.HydrogensProofs.
Import ListNotations.
Open Scope Z_scope.

(** every row of the valence table generated from the installed pysmiles is non-empty, non-negative
    and strictly ascending (finite check over the generated table: the bound is the table) *)
Theorem C09_valence_table_wf : table_wf valence_table = true.
Proof. exact valence_table_wf. Qed.

Print Assumptions C09_valence_table_wf.
