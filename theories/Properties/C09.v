(** Property C09 — every atom of an atomistic result has a complete, standard valence.
    Only statements, each closed by [exact]; the proofs live in Hydro/HydrogensProofs.v.
    The valence table, the attributes of a fresh hydrogen, copy_attrs and the constants handed to
    pysmiles are the definitions GENERATED in Gen/HydroGen.v (by calling the installed pysmiles and by
    parsing pysmiles_utils.py) on every run.  pysmiles' correct_aromatic_rings is a transcript: the
    theorems speak about the steps after it, for every graph it may leave behind. *)
From Coq Require Import String.
From Coq Require Import List Ascii ZArith Bool.
From CGV Require Import Base.PyBase Base.PyVal Base.NxGraph Gen.HydroGen Hydro.Hydrogens Hydro.HydroDefs
     Hydro.HydrogensProofs Hydro.SquashDefs Hydro.RebuildProofs Hydro.Aromatic Hydro.AromaticProofs Hydro.AromaticOrders Hydro.AromaticClosed Hydro.KeepBonding.
Import ListNotations.
Open Scope Z_scope.

(** every row of the valence table generated from the installed pysmiles is non-empty, non-negative
    and strictly ascending.  BOUNDED: a finite check over the generated table (14 elements x 5
    charges); the bound is the table. *)
Theorem C09_valence_table_wf_bounded : table_wf valence_table = true.
Proof. exact valence_table_wf. Qed.

(** bonds_missing on a well-formed row, in half units (b2 = twice the bond sum): *)
Theorem C09_bonds_missing_spec : forall val b2, row_wf val = true -> fits val b2 ->
  exists v, least_fitting val b2 v /\ missing_of val b2 = Z.quot (2 * v - b2) 2 /\
            0 <= missing_of val b2 /\
            (Z.even b2 = true -> b2 + 2 * missing_of val b2 = 2 * v) /\
            (Z.even b2 = false -> b2 + 2 * missing_of val b2 = 2 * v - 1).
Proof. exact bonds_missing_spec. Qed.

(** for every (element, charge) row of the generated table and every bond sum within the largest
    valence: stored hydrogens = least fitting valence - bonds, and the orders then add up to it *)
Theorem C09_valence_complete : forall e q val b2, table_row e q = Some (Some val) -> fits val b2 ->
  let h := Z.max (missing_of val b2) 0 in
  exists v, least_fitting val b2 v /\
            (Z.even b2 = true -> 2 * h = 2 * v - b2 /\ b2 + 2 * h = 2 * v) /\
            (Z.even b2 = false -> 2 * h = 2 * v - b2 - 1).
Proof. exact valence_complete. Qed.

(** one step of fill_valence as rebuild_h_atoms runs it (respect_hcount and the reset value are the
    generated constants: an edit of those keywords breaks this proof) *)
Theorem C09_fill_step_spec : forall g k n b val,
  gfind k g = Some n -> is_H (na n) = false ->
  aget (S "hcount") (na n) = Some (VInt rebuild_reset_value) ->
  sum_orders (nadj n) = Ok b -> valence_of (na n) = Ok val ->
  fill_step rebuild_respect_hcount g k
  = Ok (set_node_attr g k (S "hcount") (VInt (Z.max (missing_of val b) 0))).
Proof. exact fill_step_spec. Qed.

(** descriptors contribute no edges: a surplus descriptor leaves valence that is filled with H *)
Theorem C09_unused_descriptor_is_H : forall g j v k,
  bonds_missing (set_node_attr g j (S "bonding") v) k = bonds_missing g k.
Proof. exact unused_descriptor_is_H. Qed.

(** every added hydrogen: exactly one edge, order 1, to its anchor; existing edges untouched *)
Theorem C09_add_h_degree_one : forall g k n idxs,
  gfind k g = Some n -> NoDup idxs -> (forall j, In j idxs -> gfind j g = None) ->
  (forall j, In j idxs -> adj_get j (nadj n) = None) ->
  let g' := attach_h g k idxs in
  (forall j, In j idxs ->
     gfind j g' = Some {| nk := j; na := h_atom_defaults; nadj := [(k, h_edge_attrs)] |}) /\
  gfind k g' = Some {| nk := k; na := na n; nadj := nadj n ++ map (fun j => (j, h_edge_attrs)) idxs |} /\
  (forall i, i <> k -> ~ In i idxs -> gfind i g' = gfind i g).
Proof. exact add_h_degree_one. Qed.
(** … and the keys add_explicit_hydrogens picks satisfy the freshness hypotheses *)
Theorem C09_fresh_keys : forall g h, NoDup (fresh_keys g h) /\ forall j, In j (fresh_keys g h) -> gfind j g = None.
Proof. intros g h. split; [exact (fresh_keys_nodup g h)|exact (fresh_keys_fresh g h)]. Qed.

(** copy_attrs semantics of the inheritance loop *)
Theorem C09_h_inherits : forall copy_attrs g k n anchor rest m,
  gfind k g = Some n -> wants_inherit (na n) = true ->
  neighbors g k = anchor :: rest -> anchor <> k -> gfind anchor g = Some m ->
  exists g', inherit_step copy_attrs g k = Ok g' /\
    (forall j, j <> k -> gfind j g' = gfind j g) /\
    exists n', gfind k g' = Some n' /\ nadj n' = nadj n /\
      forall attr, aget attr (na n') =
        match aget attr (na n) with
        | Some v => Some v
        | None => if str_in attr copy_attrs then Some (getd attr (na m) VNone) else None
        end.
Proof. exact h_inherits. Qed.

(** ------------------------------------------------------------------ END TO END (the whole fold)
    For every graph with distinct keys, closed adjacency and no self loops (molecule graphs of the
    resolver and of the sampler; implied by [wf_graph]) and every aromaticity transcript: *)
Theorem C09_rebuild_h_atoms_transcript : forall ca g car g',
  NoDup (node_keys g) -> closed_g g -> noself_g g -> rebuild_h_atoms false ca g car = Ok g' ->
  exists g1, car = Some g1 /\ transcript_contract g g1 = true /\
    NoDup (node_keys g1) /\ closed_g g1 /\ noself_g g1 /\ rebuild_after_car false ca g1 = Ok g'.
Proof. exact rebuild_h_atoms_end_to_end. Qed.

(** … and of the graph [g1] the aromaticity step left and the returned graph [g']:
    1. every non-hydrogen atom gets exactly max(bonds_missing, 0) new hydrogen neighbours with fresh keys,
       appended to its adjacency with order 1; its other attributes are unchanged; each new hydrogen has
       that atom as its ONLY neighbour and carries parse_atom('[H]') plus the anchor's value (None if
       absent) for every attribute of copy_attrs;
    2. every hydrogen that was already there (explicitly written, single-H fragment) keeps its bonds and
       every attribute it had;
    3. nothing else is created: every new node is such a hydrogen of degree one. *)
Theorem C09_rebuild_end_to_end : forall ca g1 g',
  NoDup (node_keys g1) -> closed_g g1 -> noself_g g1 -> (forall i n, gfind i g1 = Some n -> no_rs n) ->
  rebuild_after_car false ca g1 = Ok g' ->
  (forall k n, gfind k g1 = Some n -> is_H (na n) = false ->
     exists val b idxs n', valence_of (na n) = Ok val /\ sum_orders (nadj n) = Ok b /\
       length idxs = Z.to_nat (Z.max (missing_of val b) 0) /\ NoDup idxs /\ (forall j, In j idxs -> gfind j g1 = None) /\
       gfind k g' = Some n' /\ nadj n' = nadj n ++ map (fun j => (j, h_edge_attrs)) idxs /\
       (forall attr, attr <> S "hcount" -> aget attr (na n') = aget attr (na n)) /\
       forall j, In j idxs -> exists h, gfind j g' = Some h /\ nadj h = [(k, h_edge_attrs)] /\ is_H (na h) = true /\
                                        added_h_attrs ca (na n') (na h)) /\
  (forall k n, gfind k g1 = Some n -> is_H (na n) = true ->
     exists n', gfind k g' = Some n' /\ nadj n' = nadj n /\
       forall attr v, attr <> S "hcount" -> aget attr (na n) = Some v -> aget attr (na n') = Some v) /\
  (forall j m, gfind j g1 = None -> gfind j g' = Some m ->
     exists k, gfind k g1 <> None /\ nadj m = [(k, h_edge_attrs)] /\ is_H (na m) = true).
Proof. exact rebuild_end_to_end. Qed.

(** the count of clause 1 in the property's words: least fitting valence minus the bonds, and the orders
    of the completed atom add up to that valence (the bond sum [b] counts every bond present when the
    completion starts, explicit hydrogens included; half-integral sums end half a unit short) *)
Theorem C09_rebuild_valence_sum : forall a val b idxs l' l,
  valence_of a = Ok val -> fits val b -> sum_orders l = Ok b ->
  length idxs = Z.to_nat (Z.max (missing_of val b) 0) -> l' = l ++ map (fun j : Z => (j, h_edge_attrs)) idxs ->
  exists v, least_fitting val b v /\
    (Z.even b = true -> 2 * Z.of_nat (length idxs) = 2 * v - b /\ sum_orders l' = Ok (2 * v)) /\
    (Z.even b = false -> 2 * Z.of_nat (length idxs) = 2 * v - b - 1 /\ sum_orders l' = Ok (2 * v - 1)).
Proof. exact rebuild_valence_sum. Qed.

(** … and WITHOUT the half-unit caveat for every atom that is not flagged aromatic, under the aromaticity
    contract [arom_contractb] (every order is a number; a 1.5 order only joins two atoms flagged aromatic),
    which ./check C09 evaluates on every recorded transcript: such an atom receives exactly
    (least fitting valence - bonds) hydrogens, all of degree one, and its orders add up to that valence *)
Theorem C09_rebuild_valence_exact : forall ca g1 g' k n val b,
  NoDup (node_keys g1) -> closed_g g1 -> noself_g g1 -> (forall i m, gfind i g1 = Some m -> no_rs m) ->
  arom_contractb g1 = true -> rebuild_after_car false ca g1 = Ok g' ->
  gfind k g1 = Some n -> is_H (na n) = false -> is_arom (na n) = false ->
  valence_of (na n) = Ok val -> sum_orders (nadj n) = Ok b -> fits val b ->
  exists v idxs n', least_fitting val b v /\ gfind k g' = Some n' /\
    nadj n' = nadj n ++ map (fun j => (j, h_edge_attrs)) idxs /\
    2 * Z.of_nat (length idxs) = 2 * v - b /\ sum_orders (nadj n') = Ok (2 * v) /\
    forall j, In j idxs -> exists h, gfind j g' = Some h /\ nadj h = [(k, h_edge_attrs)] /\ is_H (na h) = true.
Proof. exact rebuild_valence_exact. Qed.

(** the hypotheses follow from the well-formedness notion C10's squash theorems preserve *)
Theorem C09_wf_graph_structural : forall g, wf_graph g -> NoDup (node_keys g) /\ closed_g g /\ noself_g g.
Proof. exact wf_graph_structural. Qed.

Example C09_end_to_end_nonvacuous :
  wf_graph g_example /\ (forall i n, gfind i g_example = Some n -> no_rs n) /\
  exists g', rebuild_after_car false rebuild_copy_attrs_default g_example = Ok g' /\
    neighbors g' 0 = [1; 2; 3; 4] /\ neighbors g' 1 = [0] /\ neighbors g' 4 = [0] /\
    node_get g' 4 (S "fragname") = Some (VStr (S "A")) /\ node_get g' 4 (S "weight") = Some (VInt 1) /\
    node_get g' 2 (S "weight") = Some (VFlt (S "0.5")) /\ node_get g' 2 (S "fragname") = Some (VStr (S "A")) /\
    node_get g' 3 (S "fragid") = Some (VList [VInt 1]) /\ node_get g' 3 (S "fragname") = None.
Proof. exact rebuild_end_to_end_nonvacuous. Qed.

(** non-vacuity *)
Example C09_nonvacuous_valence :
  table_row (S "C") 0 = Some (Some [4]) /\ fits [4] 4 /\ missing_of [4] 4 = 2 /\ missing_of [4] 6 = 1 /\
  table_row (S "N") 0 = Some (Some [3; 5]) /\ missing_of [3; 5] 8 = 1 /\ missing_of [3; 5] 9 = 0.
Proof. exact valence_complete_nonvacuous. Qed.

(** ------------------------------------------------------------------ THE AROMATICITY STEP, MODELLED
    Hydro/Aromatic.v is an executable model of pysmiles' correct_aromatic_rings / dekekulize (compared on every
    run with the recorded state, ./check C09); only two answers of networkx' enumeration enter as transcripts:
    the kekulisation matching M and the list L of rings dekekulize marked, each under a contract the model
    enforces.  For EVERY graph and EVERY (M, L) on which the modelled function does not raise, its result g1
    honours the contract under which all theorems about the later steps (here, C01_*_car, C06_*_car, C11, C14)
    are stated: same nodes and adjacency in the same order, every node attribute but `aromatic` and every edge
    attribute but `order` untouched, `aromatic` set on every node. *)
Theorem C09_aromatic_model_skeleton : forall strict g M L g1,
  car_model strict g M L = Ok g1 -> transcript_contract g g1 = true.
Proof. exact car_model_skeleton. Qed.

(** ... and, for graphs with distinct keys whose orders are numbers, integral or 1.5: every order of g1 is a number and
    a 1.5 order only joins two atoms flagged aromatic (the hypothesis of C09_rebuild_valence_exact) *)
Theorem C09_aromatic_model_arom : forall strict g M L g1,
  NoDup (node_keys g) -> orders_std g -> car_model strict g M L = Ok g1 ->
  arom_contractb g1 = true /\ NoDup (node_keys g1).
Proof. exact car_model_arom. Qed.

(** rebuild_h_atoms with the aromaticity step computed by the model is rebuild_h_atoms on the computed state *)
Theorem C09_rebuild_through_model : forall kb ca g M L g', rebuild_h_atoms_m kb ca g M L = Ok g' ->
  exists g1, car_model rebuild_strict g M L = Ok g1 /\ transcript_contract g g1 = true /\
             rebuild_h_atoms kb ca g (Some g1) = Ok g' /\ rebuild_after_car kb ca g1 = Ok g'.
Proof. exact rebuild_m_is_rebuild. Qed.

(** the exact valence theorem without any hypothesis about the aromaticity step *)
Theorem C09_rebuild_valence_exact_model : forall ca g M L g',
  NoDup (node_keys g) -> closed_g g -> noself_g g -> orders_std g ->
  rebuild_h_atoms_m false ca g M L = Ok g' ->
  exists g1, car_model rebuild_strict g M L = Ok g1 /\
    transcript_contract g g1 = true /\ arom_contractb g1 = true /\
    NoDup (node_keys g1) /\ closed_g g1 /\ noself_g g1 /\ rebuild_after_car false ca g1 = Ok g' /\
    ((forall i m, gfind i g1 = Some m -> no_rs m) ->
     forall k n val b, gfind k g1 = Some n -> is_H (na n) = false -> is_arom (na n) = false ->
       valence_of (na n) = Ok val -> sum_orders (nadj n) = Ok b -> fits val b ->
       exists v idxs n', least_fitting val b v /\ gfind k g' = Some n' /\
         nadj n' = nadj n ++ map (fun j => (j, h_edge_attrs)) idxs /\
         2 * Z.of_nat (length idxs) = 2 * v - b /\ sum_orders (nadj n') = Ok (2 * v) /\
         forall j, In j idxs -> exists h, gfind j g' = Some h /\ nadj h = [(k, h_edge_attrs)] /\ is_H (na h) = true).
Proof. exact rebuild_m_valence_exact. Qed.

(** WHERE an order changes: the result has the same nodes and adjacency entries in the same order; every entry
    keeps all attributes but `order`, and its `order` is the one it had, or 1 where it was 1.5, or 2 on a bond of the
    matching M, or 1.5 on a bond of a ring of L (whose ends are then flagged aromatic, C09_aromatic_model_arom) *)
Theorem C09_aromatic_model_orders : forall strict g M L g1, car_model strict g M L = Ok g1 ->
  Forall2 (fun n m => nk n = nk m /\
     Forall2 (fun p q => fst p = fst q /\
        adel k_order (snd q) = adel k_order (snd p) /\
        (aget k_order (snd q) = aget k_order (snd p)
         \/ (is_15 (snd p) = true /\ aget k_order (snd q) = Some (VInt 1))
         \/ (aget k_order (snd q) = Some (VInt 2) /\ (In (nk n, fst p) M \/ In (fst p, nk n) M))
         \/ (aget k_order (snd q) = Some v15 /\
             exists c est, In (c, est) L /\ (In (nk n, fst p) (ring_edges c) \/ In (fst p, nk n) (ring_edges c)))))
       (nadj n) (nadj m)) g g1.
Proof. exact car_model_orders. Qed.

(** CLOSED FORM: whenever the modelled step returns, its result is one pass over the input graph - `aromatic` :=
    (the atom lies on a ring of L); `order` := 1.5 on a bond of a ring of L, else 2 on a bond of M that is not
    wildcard-wildcard, else 1 where it was 1.5, else untouched *)
Theorem C09_aromatic_model_closed : forall strict g M L g1, car_model strict g M L = Ok g1 ->
  g1 = rewrite (fun k a => aset k_arom (VBool (memz k (ring_nodes L))) a)
               (fun k w d => if on_list (ring_bonds L) k w then aset k_order v15 d
                             else if on_list (kept (demote (reset_arom g)) M) k w then aset k_order (VInt 2) d
                             else if is_15 d then aset k_order (VInt 1) d else d) g.
Proof. exact car_model_closed. Qed.

(** ... which reads the two transcripts through MEMBERSHIP only: the order in which networkx lists the matching and the
    rings does not matter (nor, C09_aromatic_model_closed_nonvacuous, where a ring starts and in which direction it is
    walked) - what stays a transcript is a SET of bonds and a SET of rings *)
Theorem C09_aromatic_model_order_irrelevant : forall strict strict' g M L M' L' g1 g1',
  Permutation.Permutation M M' -> Permutation.Permutation L L' ->
  car_model strict g M L = Ok g1 -> car_model strict' g M' L' = Ok g1' -> g1 = g1'.
Proof. exact car_model_order_irrelevant. Qed.

Example C09_aromatic_model_closed_nonvacuous :
  exists g1, car_model true benzene [(0, 1); (2, 3); (4, 5)] [([0; 1; 2; 3; 4; 5], false)] = Ok g1 /\
             car_model true benzene [(4, 5); (0, 1); (2, 3)] [([0; 1; 2; 3; 4; 5], false)] = Ok g1 /\
             car_model true benzene [(3, 2); (5, 4); (1, 0)] [([3; 2; 1; 0; 5; 4], false)] = Ok g1 /\
             g1 = car_closed [(0, 1); (2, 3); (4, 5)] [0; 1; 2; 3; 4; 5] (ring_edges [0; 1; 2; 3; 4; 5]) benzene.
Proof. exact car_model_closed_nonvacuous. Qed.

(** keep_bonding=True (never used by the resolver or the sampler; compared per run through direct calls): the extra
    phase between fill_valence and add_explicit_hydrogens, for every graph with distinct keys.  A node WITH descriptors
    has its hydrogen count lowered by the sum of the last characters of its descriptors read as digits; every other
    node, every other attribute, the bonds and the key order are untouched.  PARTIAL: not composed with the
    end-to-end theorem, which is stated for keep_bonding=False. *)
Theorem C09_keep_bonding_phase_partial : forall g g', NoDup (node_keys g) ->
  fold_res keep_bonding_step (get_node_attributes g (S "bonding")) g = Ok g' ->
  node_keys g' = node_keys g /\
  forall i n, gfind i g = Some n ->
    match aget (S "bonding") (na n) with
    | None => gfind i g' = Some n
    | Some ops => exists s h hz, kb_sum ops = Ok s /\ aget (S "hcount") (na n) = Some h /\ as_int h = Ok hz /\
                                 gfind i g' = Some (lowered n (hz - s))
    end.
Proof. exact keep_bonding_phase. Qed.

Example C09_keep_bonding_phase_nonvacuous :
  let g := [{| nk := 0; na := [(S "element", VStr (S "C")); (S "hcount", VInt 3);
                               (S "bonding", VList [VStr (S "$1"); VStr (S ">1"); VStr (S "$a2")])]; nadj := [] |};
            {| nk := 1; na := [(S "element", VStr (S "C")); (S "hcount", VInt 3)]; nadj := [] |}] in
  NoDup (node_keys g) /\
  exists g', fold_res keep_bonding_step (get_node_attributes g (S "bonding")) g = Ok g' /\
             node_get g' 0 (S "hcount") = Some (VInt (-1)) /\ node_get g' 1 (S "hcount") = Some (VInt 3).
Proof. exact keep_bonding_phase_nonvacuous. Qed.

(** non-vacuity: benzene as a fragment writes it (all aromatic, all 1.5) is kekulised and marked again; without a
    marked ring the kekulised state stays; a non-matching, an extendable matching and a non-alternating ring are
    rejected; an odd ring that cannot be kekulised raises SyntaxError exactly when strict *)
Example C09_aromatic_model_nonvacuous :
  orders_std benzene /\ NoDup (node_keys benzene) /\
  (exists g1, car_model true benzene [(0, 1); (2, 3); (4, 5)] [([0; 1; 2; 3; 4; 5], false)] = Ok g1 /\
              arom_of g1 0 = true /\ edge_get g1 0 1 (S "order") = Some v15 /\ edge_get g1 1 0 (S "order") = Some v15 /\
              transcript_contract benzene g1 = true /\ arom_contractb g1 = true) /\
  (exists g1, car_model true benzene [(0, 1); (2, 3); (4, 5)] [] = Ok g1 /\ arom_of g1 0 = false /\
              edge_get g1 0 1 (S "order") = Some (VInt 2) /\ edge_get g1 1 2 (S "order") = Some (VInt 1)) /\
  car_model true benzene [(0, 1); (1, 2)] [] = Err EAssert /\
  car_model true benzene [(0, 1); (2, 3)] [] = Err EAssert /\
  car_model true benzene [(0, 1); (2, 3); (4, 5)] [([0; 1; 2], false)] = Err EAssert /\
  car_model true cp_ring [(0, 1); (2, 3)] [] = Err (ESyntax (S "kekulize")) /\
  (exists g1, car_model false cp_ring [(0, 1); (2, 3)] [] = Ok g1).
Proof. exact car_model_nonvacuous. Qed.

Print Assumptions C09_valence_table_wf_bounded.
Print Assumptions C09_bonds_missing_spec.
Print Assumptions C09_valence_complete.
Print Assumptions C09_fill_step_spec.
Print Assumptions C09_unused_descriptor_is_H.
Print Assumptions C09_add_h_degree_one.
Print Assumptions C09_fresh_keys.
Print Assumptions C09_h_inherits.
Print Assumptions C09_rebuild_h_atoms_transcript.
Print Assumptions C09_rebuild_end_to_end.
Print Assumptions C09_rebuild_valence_sum.
Print Assumptions C09_wf_graph_structural.
Print Assumptions C09_rebuild_valence_exact.
Print Assumptions C09_aromatic_model_skeleton.
Print Assumptions C09_aromatic_model_arom.
Print Assumptions C09_rebuild_through_model.
Print Assumptions C09_rebuild_valence_exact_model.
Print Assumptions C09_aromatic_model_orders.
Print Assumptions C09_aromatic_model_closed.
Print Assumptions C09_aromatic_model_order_irrelevant.
Print Assumptions C09_keep_bonding_phase_partial.
