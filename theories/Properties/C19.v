(** Property C19 (statements only; proofs in Geom/*Proofs.v) -- placeholder while the proofs are written. *)
From Coq Require Import List ZArith Bool.
From CGV Require Import Base.PyBase Geom.Num Geom.Scale.
Import ListNotations.

Theorem C19_one_position_per_node : forall {M} (o : numops M) db lens pos,
  map fst (rescale_with o db lens pos) = map fst pos.
Proof. intros. unfold rescale_with. rewrite map_map. reflexivity. Qed.
Print Assumptions C19_one_position_per_node.
