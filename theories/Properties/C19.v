(** Property C19 — 2D layout gives every node a finite position at the requested scale.
    ONLY statements, each closed by [exact]; proofs in Geom/ScaleProofs.v, ScaleProofsR.v, RotateProofs.v.
    The rescale expressions ([gen_avg_final], [gen_scale_factor], multiplication of every entry) are
    GENERATED from graph_layout.py on every run (Gen/GeomGen.v).

    Claimed as PARTIAL:
    proved      the rescale step (one position per node; bonded nodes stay distinct; squared lengths scale by
                factor^2, over Q; mean bond length = default_bond, over R) and rotate_subgraph (bond lengths
                preserved under the component contract, for any isometry fixing the anchor) and the whole
                check_and_fix_cis_trans loop (only rotates about edges; bond lengths preserved); label independence
                of the update loop.
    NOT proved  (oracle hypotheses, checked on every layout of the run by tools/props/c19.py): Kamada-Kawai /
                Fruchterman-Reingold return finite positions in which bonded nodes do not coincide (so the
                pre-scale mean is non-zero); numpy's norm is within one ulp of sqrt(dx*dx+dy*dy); the numpy
                rotation is an isometry up to rounding; finiteness of IEEE results.
    Axioms: ONLY [C19_rescale_mean*], [C19_mean_nonzero], [C19_returned_mean], [C19_returned_distinct],
    [C19_tail_bond_len], [C19_tail_mean], [C19_align_isometry] (square roots over the standard-library reals). *)
From Coq Require Import List ZArith Bool QArith Reals Permutation.
From CGV Require Import Base.PyBase Geom.Num Gen.GeomGen Geom.IndexMap Geom.Scale Geom.Rotate
     Geom.ScaleProofs Geom.ScaleProofsR Geom.RotateProofs Geom.CisTrans Geom.CisTransProofs
     Geom.Tail Geom.TailProofs Geom.TailProofsR Geom.Layouts Geom.LayoutsProofs.
Import ListNotations.

(** exactly the keys of the pre-scale dict, in the same order: one position per node *)
Theorem C19_one_position_per_node : forall {M} (o : numops M) db lens (pos : list (Z * @vec2 M)),
  map fst (rescale_with o db lens pos) = map fst pos.
Proof. exact @one_position_per_node. Qed.

(** label independence of the update loop *)
Theorem C19_rescale_relabel : forall {M} (o : numops M) (f : Z -> Z) db lens (pos : list (Z * @vec2 M)),
  rescale_with o db lens (map (fun kv => (f (fst kv), snd kv)) pos)
  = map (fun kv => (f (fst kv), snd kv)) (rescale_with o db lens pos).
Proof. exact @rescale_relabel. Qed.
Theorem C19_lens_relabel : forall {M} (o : numops M) sqrt (f : Z -> Z) (posf posf' : Z -> @vec2 M) edges,
  (forall k, posf' (f k) = posf k) ->
  lens_of o sqrt posf' (map (fun e => (f (fst e), f (snd e))) edges) = lens_of o sqrt posf edges.
Proof. exact @lens_relabel. Qed.

(** over Q, axiom-free: squared bond lengths scale by factor^2; distinct stays distinct *)
Theorem C19_rescale_sqlen : forall (p q : @vec2 Q) c,
  (sqlen (v2scale numQ p c) (v2scale numQ q c) == c * c * sqlen p q)%Q.
Proof. exact rescale_sqlen. Qed.
Theorem C19_rescale_preserves_distinct : forall db lens (posf : Z -> @vec2 Q) u v,
  ~ (db == 0)%Q -> ~ (avg_of numQ lens == 0)%Q -> ~ v2eq (posf u) (posf v) ->
  ~ v2eq (v2scale numQ (posf u) (factor_of numQ db lens)) (v2scale numQ (posf v) (factor_of numQ db lens)).
Proof. exact rescale_preserves_distinct. Qed.

(** over R: the mean bond length after rescaling is the requested one *)
Theorem C19_rescale_mean : forall default_bond edges (posf : Z -> @vec2 R),
  (0 <= default_bond)%R -> mean_bond numR sqrt posf edges <> 0%R ->
  mean_bond numR sqrt (fun k => v2scale numR (posf k) (factor_of numR default_bond (lens_of numR sqrt posf edges))) edges
  = default_bond.
Proof. exact rescale_mean_pos. Qed.
Theorem C19_rescale_mean_dict : forall default_bond edges (pos : list (Z * @vec2 R)) d,
  let posf := fun k => plookup d k pos in
  let c := factor_of numR default_bond (lens_of numR sqrt posf edges) in
  (0 <= default_bond)%R -> mean_bond numR sqrt posf edges <> 0%R ->
  mean_bond numR sqrt (fun k => plookup (v2scale numR d c) k (rescale numR sqrt default_bond edges posf pos)) edges
  = default_bond.
Proof. exact rescale_mean_dict. Qed.
(** the hypothesis "pre-scale mean non-zero" follows from one bonded pair that does not coincide *)
Theorem C19_mean_nonzero : forall (posf : Z -> @vec2 R) edges e,
  In e edges -> bond_len numR sqrt posf e <> 0%R -> mean_bond numR sqrt posf edges <> 0%R.
Proof. exact mean_nonzero. Qed.

(** rotate_subgraph: every bond length is preserved *)
Theorem C19_rotate_preserves_bonds : forall {P D : Type} (dist : P -> P -> D) (rot : P -> P -> P),
  (forall o p q, dist (rot o p) (rot o q) = dist p q) -> (forall o, rot o o = o) ->
  forall edges anchor target comps (points : Z -> P) c points',
    rotate_subgraph rot edges anchor target comps points = Ok (c, points') ->
    comp_contract edges anchor target c = true ->
    forall e, In e edges -> dist (points' (fst e)) (points' (snd e)) = dist (points (fst e)) (points (snd e)).
Proof. exact @rotate_preserves_bonds. Qed.
Theorem C19_rotate_moves_only_component : forall {P : Type} (rot : P -> P -> P) edges anchor target comps
    (points : Z -> P) c points' k,
  rotate_subgraph rot edges anchor target comps points = Ok (c, points') -> zmem k c = false -> points' k = points k.
Proof. exact @rotate_moves_only_component. Qed.

(** check_and_fix_cis_trans (model Geom/CisTrans.v; np.isclose and connected_components are transcripts):
    every rotation it executes is about an EDGE anchor-target of the graph ... *)
Theorem C19_fix_rotates_only_about_edges : forall {P : Type} (rotf : Z -> (Z -> P) -> ezitem -> P -> P -> P)
    edges items closes tr pts pts' trace,
  check_and_fix_cis_trans rotf edges items closes tr pts = Ok (pts', trace) -> Forall (call_on_edge edges) trace.
Proof. exact @fix_rotates_only_about_edges. Qed.
(** ... an item that is not skipped and whose n2-n1 is not an edge makes the call fail (networkx raises) ... *)
Theorem C19_fix_fails_off_edge : forall {P : Type} (rotf : Z -> (Z -> P) -> ezitem -> P -> P -> P)
    edges it r closes closes' ang comps tr pts,
  decide it closes = Ok (DRotate ang, closes') -> has_edge edges (ez2 it) (ez1 it) = false ->
  check_and_fix_cis_trans rotf edges (it :: r) closes (comps :: tr) pts = Err ELookup.
Proof. exact @fix_fails_off_edge. Qed.
(** ... and the whole correction preserves every bond length (hypotheses kept: every call's rotation is an isometry
    fixing its origin; every picked component satisfies the connected_components contract) *)
Theorem C19_fix_preserves_bonds : forall {P D : Type} (dist : P -> P -> D) (rotf : Z -> (Z -> P) -> ezitem -> P -> P -> P),
  (forall ang pts it o p q, dist (rotf ang pts it o p) (rotf ang pts it o q) = dist p q) ->
  (forall ang pts it o, rotf ang pts it o o = o) ->
  forall edges items closes tr pts pts' trace,
    check_and_fix_cis_trans rotf edges items closes tr pts = Ok (pts', trace) ->
    Forall (call_contract edges) trace ->
    forall e, In e edges -> dist (pts' (fst e)) (pts' (snd e)) = dist (pts (fst e)) (pts (snd e)).
Proof. exact @fix_preserves_bonds. Qed.

(** ---------- the END of vespr_layout: everything between `pos = check_and_fix_cis_trans(graph, pos)` and `return pos`.
    [gen_vespr_tail] is the GENERATED list of steps (alignment blocks and the rescale; tools/gen_geom.py refuses any other
    statement there), [vespr_tail] runs it on the dict, [al] = cos/sin of the alignment angle (None: align_with is None).
    The statements are about the RETURNED positions. *)
Theorem C19_returned_one_position_per_node : forall {M} (o : numops M) sq d al db edges (pos : list (Z * @vec2 M)),
  map fst (vespr_tail o sq d al db edges pos) = map fst pos.
Proof. exact @vespr_returned_keys. Qed.
Theorem C19_returned_mean : forall d al db edges (pos : list (Z * @vec2 R)) d',
  keys_cover edges pos -> al_ok al -> (0 <= db)%R -> mean_bond numR sqrt (fun k => plookup d k pos) edges <> 0%R ->
  mean_bond numR sqrt (fun k => plookup d' k (vespr_tail numR sqrt d al db edges pos)) edges = db.
Proof. exact vespr_returned_mean. Qed.
Theorem C19_returned_distinct : forall d al db edges (pos : list (Z * @vec2 R)) d' e,
  keys_cover edges pos -> al_ok al -> (0 < db)%R -> In e edges ->
  plookup d (fst e) pos <> plookup d (snd e) pos ->
  plookup d' (fst e) (vespr_tail numR sqrt d al db edges pos) <> plookup d' (snd e) (vespr_tail numR sqrt d al db edges pos).
Proof. exact vespr_returned_distinct. Qed.
(** for ANY list of steps with exactly one rescale (whatever alignments precede or FOLLOW it): every bond length of the
    result is default_bond / mean times the length before the tail, so the mean established by the rescale is preserved
    by everything that follows *)
Theorem C19_tail_bond_len : forall al db edges steps (pf : Z -> @vec2 R) e,
  tail_ok steps = true -> al_ok al -> (0 <= db)%R -> mean_bond numR sqrt pf edges <> 0%R ->
  bond_len numR sqrt (run_tailf numR sqrt al db edges steps pf) e
  = (db / mean_bond numR sqrt pf edges * bond_len numR sqrt pf e)%R.
Proof. exact tail_bond_len. Qed.
Theorem C19_tail_mean : forall al db edges steps (pf : Z -> @vec2 R),
  tail_ok steps = true -> al_ok al -> (0 <= db)%R -> mean_bond numR sqrt pf edges <> 0%R ->
  mean_bond numR sqrt (run_tailf numR sqrt al db edges steps pf) edges = db.
Proof. exact tail_mean. Qed.
Theorem C19_generated_tail_has_one_rescale : tail_ok gen_vespr_tail = true.
Proof. exact gen_tail_ok. Qed.
(** dict and position function agree on every key; relabelling by an injective map commutes with the whole tail *)
Theorem C19_tail_dict_fun : forall {M} (o : numops M) sq d al db edges steps (pos : list (Z * @vec2 M)) d' k,
  keys_cover edges pos -> In k (map fst pos) ->
  plookup d' k (run_tail o sq d al db edges steps pos) = run_tailf o sq al db edges steps (fun k => plookup d k pos) k.
Proof. exact @tail_dict_fun. Qed.
Theorem C19_tail_relabel : forall {M} (o : numops M) sq (f : Z -> Z) d al db edges steps (pos : list (Z * @vec2 M)),
  (forall a b, f a = f b -> a = b) ->
  run_tail o sq d al db (relabel_edges f edges) steps (relabel_pos f pos)
  = relabel_pos f (run_tail o sq d al db edges steps pos).
Proof. exact @tail_relabel. Qed.

(** ---------- the other two LAYOUT_METHODS (models Geom/Layouts.v; statements pinned / classified by tools/gen_geom.py).
    vespr_refined_layout: the optimiser's rows ([opt], scipy) and the key order of the dict of the last vespr_layout
    call ([vkeys]) are transcripts; [al] = cos/sin of the alignment (None: align_with is None). *)
Theorem C19_refined_one_position_per_node : forall {M} (o : numops M) al nodes opt (pos : list (Z * @vec2 M)),
  NoDup nodes -> refined_layout o al nodes opt = Ok pos -> map fst pos = nodes.
Proof. exact @refined_one_position_per_node. Qed.
Theorem C19_refined_own_row : forall {M} (o : numops M) al nodes vkeys rows (pos : list (Z * @vec2 M)) d j k,
  vkeys = nodes -> NoDup nodes -> refined_layout o al nodes (Ok rows) = Ok pos -> nth_error vkeys j = Some k ->
  nth_error (align_rows o al rows) j = Some (plookup d k pos).
Proof. exact @refined_own_row. Qed.
Theorem C19_refined_relabel : forall {M} (o : numops M) (f : Z -> Z) al nodes (opt : res (list (@vec2 M))),
  (forall a b, f a = f b -> a = b) ->
  refined_layout o al (map f nodes) opt = res_map (relabel_pos f) (refined_layout o al nodes opt).
Proof. exact @refined_relabel. Qed.
(** the alignment of the rows (both layouts, and vespr_layout's alignment block) preserves every distance *)
Theorem C19_align_isometry : forall c s (a b : @vec2 R), (c * c + s * s = 1)%R ->
  norm2 numR sqrt (v2sub numR (rot_cs numR (c, s) a) (rot_cs numR (c, s) b)) = norm2 numR sqrt (v2sub numR a b).
Proof. exact rot_norm. Qed.
(** circular_layout: [coords] (numpy) and the find_cycle result are transcripts; a cycle visiting every node exactly
    once (what find_cycle returns on a ring graph) gives one position per node, the j-th visited node the j-th point *)
Theorem C19_circular_one_position_per_node : forall {M} (o : numops M) mode al coords c nodes (pos : list (Z * @vec2 M)),
  NoDup (map fst c) -> Permutation (map fst c) nodes ->
  circular_layout_with o mode al coords (Ok c) = Ok pos -> Permutation (map fst pos) nodes.
Proof. exact @circular_one_position_per_node. Qed.
Theorem C19_circular_ith_coordinate : forall {M} (o : numops M) mode coords c (pos : list (Z * @vec2 M)) d j k,
  NoDup (map fst c) -> circular_layout_with o mode None coords (Ok c) = Ok pos ->
  nth_error (map fst c) j = Some k -> nth_error coords j = Some (plookup d k pos).
Proof. exact @circular_ith_coordinate. Qed.
Theorem C19_circular_relabel : forall {M} (o : numops M) (f : Z -> Z) mode al (coords : list (@vec2 M)) c,
  (forall a b, f a = f b -> a = b) ->
  circular_layout_with o mode al coords (Ok (relabel_edges f c))
  = res_map (relabel_pos f) (circular_layout_with o mode al coords (Ok c)).
Proof. exact @circular_relabel. Qed.
(** circular_layout with align_with given, for the GENERATED classification of its alignment block (now
    CircAlignUnbound: UnboundLocalError for every input - an observation, circular_layout is outside C19's statement); proved for every
    value of the fact, so a repair keeps this file compiling and changes what the statement says *)
Theorem C19_circular_align_status : forall {M} (o : numops M), circ_status o circ_align.
Proof. exact @circular_align_status. Qed.
Theorem C19_circular_align_status_all : forall {M} (o : numops M) mode, circ_status o mode.
Proof. exact @circ_status_all. Qed.

(** ---------- non-vacuity *)
Example C19_nonvacuous_fix :
  let edges := [(0, 1); (1, 2); (2, 3)]%Z in
  let it := {| ez1 := 0; ez2 := 1; ez3 := 2; ez4 := 3; ezty := EzTrans; lt14 := true |}%Z in
  exists pts', check_and_fix_cis_trans (fun _ _ _ o p => 2 * o - p)%Z edges [it] [false] [[[0]; [1; 2; 3]]]%Z (fun k => 10 * k)%Z
               = Ok (pts', [(1, 0, 120, [0])]%Z) /\ pts' 0%Z = 20%Z /\ call_contract edges (1, 0, 120, [0])%Z.
Proof. exact (let '(ex_intro _ p (conj a (conj b (conj _ d)))) := fix_nonvacuous in ex_intro _ p (conj a (conj b d))). Qed.
Example C19_nonvacuous_tail :
  let pos := [(0%Z, (0, 0)%R); (1%Z, (3, 4)%R)] in
  keys_cover [(0, 1)%Z] pos /\ al_ok (Some (0, 1)%R) /\ (0 < 2)%R /\
  mean_bond numR sqrt (fun k => plookup (0, 0)%R k pos) [(0, 1)%Z] <> 0%R /\
  plookup (0, 0)%R 0%Z pos <> plookup (0, 0)%R 1%Z pos /\ tail_ok [TAlign; TRescale; TAlign] = true.
Proof. exact tail_nonvacuous. Qed.
Example C19_nonvacuous_layouts :
  let c := [(10, 11); (11, 12); (12, 10)]%Z in
  NoDup (map fst c) /\ Permutation (map fst c) [12; 10; 11]%Z /\
  circular_layout_with numQ CircAlignIgnored None [(1, 0); (0, 1); (1, 1)]%Q (Ok c)
  = Ok [(10%Z, (1, 0)%Q); (11%Z, (0, 1)%Q); (12%Z, (1, 1)%Q)] /\
  refined_layout numQ None [10; 11; 12]%Z (Ok [(1, 0); (0, 1); (1, 1)]%Q) = Ok [(10%Z, (1, 0)%Q); (11%Z, (0, 1)%Q); (12%Z, (1, 1)%Q)].
Proof. exact layouts_nonvacuous. Qed.
Example C19_nonvacuous_mean :
  let posf := fun k : Z => if Z.eqb k 0 then (0, 0)%R else (3, 4)%R in
  mean_bond numR sqrt posf [(0, 1)%Z] <> 0%R /\ (0 <= 2)%R.
Proof.
  cbn zeta. split; [|apply Rlt_le, Rlt_0_2].
  apply (mean_nonzero _ _ (0, 1)%Z); [left; reflexivity|]. unfold bond_len, norm2. cbn.
  apply Rgt_not_eq. apply sqrt_lt_R0.
  replace ((0 - 3) * (0 - 3) + (0 - 4) * (0 - 4))%R with 25%R by ring. apply (IZR_lt 0 25). reflexivity.
Qed.
Example C19_nonvacuous_distinct :
  let lens := [2; 4]%Q in
  ~ (3 == 0)%Q /\ ~ (avg_of numQ lens == 0)%Q /\ ~ v2eq (0, 0)%Q (1, 0)%Q /\ (factor_of numQ 3 lens == 1)%Q.
Proof. cbn zeta. repeat split; vm_compute; try discriminate. intros [H _]. discriminate. Qed.
Example C19_nonvacuous_rotate :
  let edges := [(0, 1); (1, 2); (2, 3)]%Z in
  exists c pts', rotate_subgraph (fun o p : Z => 2 * o - p)%Z edges 1 2 [[0; 1]; [2; 3]]%Z (fun k => 10 * k)%Z = Ok (c, pts')
                 /\ comp_contract edges 1 2 c = true /\ pts' 3%Z = (-10)%Z.
Proof. cbn. eexists. eexists. repeat split. Qed.

Print Assumptions C19_one_position_per_node.
Print Assumptions C19_rescale_relabel.
Print Assumptions C19_lens_relabel.
Print Assumptions C19_rescale_sqlen.
Print Assumptions C19_rescale_preserves_distinct.
Print Assumptions C19_rescale_mean.
Print Assumptions C19_rescale_mean_dict.
Print Assumptions C19_mean_nonzero.
Print Assumptions C19_rotate_preserves_bonds.
Print Assumptions C19_rotate_moves_only_component.
Print Assumptions C19_fix_rotates_only_about_edges.
Print Assumptions C19_fix_fails_off_edge.
Print Assumptions C19_fix_preserves_bonds.
Print Assumptions C19_returned_one_position_per_node.
Print Assumptions C19_returned_mean.
Print Assumptions C19_returned_distinct.
Print Assumptions C19_tail_bond_len.
Print Assumptions C19_tail_mean.
Print Assumptions C19_generated_tail_has_one_rescale.
Print Assumptions C19_tail_dict_fun.
Print Assumptions C19_tail_relabel.
Print Assumptions C19_refined_one_position_per_node.
Print Assumptions C19_refined_own_row.
Print Assumptions C19_refined_relabel.
Print Assumptions C19_align_isometry.
Print Assumptions C19_circular_one_position_per_node.
Print Assumptions C19_circular_ith_coordinate.
Print Assumptions C19_circular_relabel.
Print Assumptions C19_circular_align_status.
Print Assumptions C19_circular_align_status_all.
