(** Property C20 — malformed input is rejected, never silently resolved.
    Only statements, each closed by [exact]; proofs in Dialect/DialectProofs.v and Dialect/FaultProofs.v. *)
From Coq Require Import String.
From Coq Require Import List Ascii ZArith Bool.
From CGV Require Import Base.PyBase Base.PyVal Gen.DialectGen Dialect.DialectImpl Dialect.DialectDefs
     Dialect.FaultModels Dialect.FaultProofs.
Import ListNotations.
Open Scope Z_scope.

Theorem C20_missing_fragment_rejected : forall (A : Type) dict edges nodes k name (later : res A),
  In (k, name) nodes -> str_in name dict = false -> real_node k edges = true ->
  resolve_step dict edges nodes later = Err (ESyntax (S "no_fragment")).
Proof. exact (@missing_fragment_rejected). Qed.

Print Assumptions C20_missing_fragment_rejected.
