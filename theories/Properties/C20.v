(** Property C20 — malformed input is rejected, never silently resolved.
    Only statements, each closed by [exact]; proofs in Dialect/DialectProofs.v and Dialect/FaultProofs.v.
    Annotation faults: on the dialect model [parse_dialect] (for every float() oracle, every dialect,
    every position of the faulty entry).  Ring faults: on the ring-table fold [ring_model]
    (Dialect/FaultModels.v; an abstraction of the `cycle` dict of read_cgsmiles, tied to the code by the
    per-case correspondence).  Missing fragment: on the loop model [rdm]/[resolve_step] of
    MoleculeResolver.resolve_disconnected_molecule. *)
From Coq Require Import String.
From Coq Require Import List Ascii ZArith Bool.
From CGV Require Import Base.PyBase Base.PyVal Gen.DialectGen Dialect.DialectImpl Dialect.DialectDefs
     Dialect.DialectProofs Dialect.DialectCheck Dialect.FaultModels Dialect.FaultProofs Dialect.FaultCheck.
Import ListNotations.
Close Scope Z_scope.

(** ---- annotations ---- *)
Theorem C20_two_eq_rejected : forall fo dl s e, s <> [] -> In e (py_split s ";"%char) -> 1 < py_count e "="%char ->
  parse_dialect fo dl s = Err (ESyntax (S "toomany_eq")).
Proof. exact two_eq_rejected. Qed.
Theorem C20_two_eq_rejected_at_every_position : forall fo dl es1 e es2,
  Forall (fun x => ~ In ";"%char x) (es1 ++ e :: es2) -> 1 < py_count e "="%char ->
  parse_dialect fo dl (join sep (es1 ++ e :: es2)) = Err (ESyntax (S "toomany_eq")).
Proof. exact two_eq_rejected_at. Qed.
Theorem C20_too_many_positional_rejected : forall fo dl s args kws,
  split_annotation s = Ok (args, kws) -> length (params dl) < length args ->
  parse_dialect fo dl s = Err (ESyntax (S "bind")).
Proof. exact too_many_positional_rejected. Qed.
Theorem C20_bound_twice_rejected : forall fo dl s args kws i p,
  split_annotation s = Ok (args, kws) -> nth_error (params dl) i = Some p -> i < length args ->
  kw_get (pname p) kws <> None -> parse_dialect fo dl s = Err (ESyntax (S "bind")).
Proof. exact bound_twice_rejected. Qed.
Theorem C20_non_numeric_rejected : forall fo dl s args kws bound rest p v,
  split_annotation s = Ok (args, kws) -> bind_params (params dl) args kws = Ok (bound, rest) ->
  accept_kwargs dl = true -> In (p, Some v) bound -> ptype p = TFloat -> fo v = None ->
  parse_dialect fo dl s = Err EType.
Proof. exact non_numeric_rejected. Qed.
(** where the entries of a writing go (so that the three theorems above apply at every position of
    the faulty entry among otherwise valid entries): the text splits into its entries ... *)
Theorem C20_split_render : forall es,
  Forall (fun v => clean v = true) (pos_of es) -> Forall (fun kv => clean_entry kv = true) (kws_of es) ->
  NoDup (keys (kws_of es)) -> es <> [EPos []] ->
  split_annotation (render_ents es) = Ok (pos_of es, kws_of es).
Proof. exact split_render_ents. Qed.
(** ... and every positional / keyword value is bound to its parameter *)
Theorem C20_bound_values : forall ps args kws bound rest,
  bind_params ps args kws = Ok (bound, rest) -> NoDup (map pname ps) ->
  (forall i p v, nth_error ps i = Some p -> nth_error args i = Some v -> In (p, Some v) bound) /\
  (forall p v, In p (skipn (length args) ps) -> kw_get (pname p) kws = Some v -> In (p, Some v) bound).
Proof. exact bind_params_bound. Qed.

Open Scope Z_scope.
(** ---- ring faults (ring-table abstraction) ---- *)
Theorem C20_dangling_rejected : forall m evs, Nat.odd (ring_count m evs) = true ->
  ring_model evs = Err (ESyntax (S "dangling")) \/ ring_model evs = Err (ESyntax (S "double")).
Proof. exact dangling_rejected. Qed.
Theorem C20_duplicate_rejected : forall pre post v m u st,
  ring_run pre rt0 = Ok st -> tbl_get m (r_tbl st) = Some u -> has_edge (r_edges st) v u = true ->
  ring_model (pre ++ EvRing v m :: post) = Err (ESyntax (S "double")).
Proof. exact duplicate_rejected. Qed.

(** ---- missing fragment ---- *)
Theorem C20_missing_fragment_rejected : forall (A : Type) dict edges nodes k name (later : res A),
  In (k, name) nodes -> str_in name dict = false -> real_node k edges = true ->
  resolve_step dict edges nodes later = Err (ESyntax (S "no_fragment")).
Proof. exact (@missing_fragment_rejected). Qed.

(** known finding (class coarse_fragment_nonnumeric_charge): q=abc on a coarse node inside a fragment
    definition is accepted by the code's path (model [annot_model 2], validated on every run) *)
Theorem C20_coarse_fragment_charge_refuted :
  let fo := fo_of_table [(S "abc", None)] in
  fault_present 2 6 fo (S "Y;q=abc") = true /\ coarse_fragment_charge_class 2 6 fo (S "Y;q=abc") = true /\
  exists a, annot_model 2 fo (S "Y;q=abc") = Ok a /\ aget (S "q") a = Some (VStr (S "abc")).
Proof. repeat split. eexists. split; vm_compute; reflexivity. Qed.

(** non-vacuity *)
Example C20_nonvacuous_annotation :
  parse_dialect fo_demo graph_base_dialect (S "A;q=1;a=b=c") = Err (ESyntax (S "toomany_eq")) /\
  parse_dialect fo_demo graph_base_dialect (S "A;+1;+1;+1") = Err (ESyntax (S "bind")) /\
  parse_dialect fo_demo graph_base_dialect (S "A;+1;q=+1") = Err (ESyntax (S "bind")) /\
  parse_dialect fo_demo graph_base_dialect (S "A;foo=bar;q=abc") = Err EType /\
  parse_dialect fo_demo fragment_node_dialect (S "abc") = Err EType.
Proof. exact errors_example. Qed.
Example C20_nonvacuous_ring :
  Nat.odd (ring_count 3 [EvNode 0 None; EvRing 0 1; EvNode 1 (Some 0); EvRing 1 3; EvNode 2 (Some 1); EvRing 2 1]) = true /\
  ring_model [EvNode 0 None; EvRing 0 1; EvNode 1 (Some 0); EvRing 1 3; EvNode 2 (Some 1); EvRing 2 1] = Err (ESyntax (S "dangling")) /\
  ring_model [EvNode 0 None; EvRing 0 1; EvNode 1 (Some 0); EvNode 2 (Some 1); EvRing 2 1] = Ok [(2, 0); (1, 2); (0, 1)].
Proof. exact dangling_example. Qed.
Example C20_nonvacuous_fragment :
  rdm [S "A"] [(0, 1, 1)] [(0, S "A"); (1, S "B")] = Err (ESyntax (S "no_fragment")) /\
  rdm [S "A"] [(0, 1, 0)] [(0, S "A"); (1, S "B")] = Ok tt.
Proof. exact missing_fragment_example. Qed.

(** ======================= the same faults over the OTHER components' models ======================= *)
From CGV Require Import Base.NxGraph Reader.ReaderImpl Reader.ReaderLemmas Reader.ReaderSim Reader.ReaderRing
     Resolve.GraphOps Resolve.Pipeline Frag.NDict Frag.StripImpl Frag.FragText
     Reader.Grammar Reader.Lin Reader.ReaderCheck Reader.ReaderUnit
     Dialect.ReaderFaults Dialect.FragAnnot Dialect.CopyAnnot Dialect.ResolveFaults Dialect.MachineFaults Dialect.MachineInject Dialect.DriverFaults Dialect.DriverAllAtom.
From CGV Require Stereo.EzStrings.

(** ---- the real reader model (Reader/ReaderImpl.v) ---- *)
(** an error inside the loop iteration of ANY node (= any reachable loop state) is the result *)
Theorem C20_reader_error_at : forall fo pattern pc s st pc1 nm rest e,
  reaches fo (last pattern " "%char) pattern init_state pc s st ->
  next_node pc s = Some (pc1, nm, rest) -> node_step fo st pc1 nm rest = Err e ->
  read_cgsmiles fo pattern = Err e.
Proof. exact read_err_at. Qed.
(** an Err of the dialect parser on the text of any node is the result of read_cgsmiles *)
Theorem C20_reader_annotation_error : forall fo pattern pc s st pc1 nm rest e,
  reaches fo (last pattern " "%char) pattern init_state pc s st ->
  next_node pc s = Some (pc1, nm, rest) -> pre_parse_ok st pc1 rest ->
  parse_graph_base_node fo nm = Err e ->
  read_cgsmiles fo pattern = Err e.
Proof. exact annotation_error_propagates. Qed.
(** a ring bond closing over an edge that exists when it is checked: "double", at any node position *)
Theorem C20_reader_duplicate_rejected : forall fo pattern pc s st pc1 nm rest x rs rdx bo n bo' a pre u v o post g',
  reaches fo (last pattern " "%char) pattern init_state pc s st ->
  next_node pc s = Some (pc1, nm, rest) ->
  opened st pc1 = Ok x ->
  ring_scan (s_current st) rest 0 (clean_st (s_cycle st) []) = Ok (rs, rdx) ->
  bond_expr rest rdx = Ok bo -> nmon_expr rest bo = Ok (n, bo') -> 0 < n ->
  parse_graph_base_node fo nm = Ok a -> ahas (S "node_for_adding") a = false ->
  (fst (fst x) = true -> snd (fst x) <> []) ->
  r_ces rs = pre ++ (u, v, o) :: post ->
  add_cycle_edges (graph_at_check st a) pre = Ok g' -> has_edge g' u v = true ->
  read_cgsmiles fo pattern = Err (ESyntax (S "double")).
Proof. exact reader_duplicate_rejected. Qed.
(** a ring index left open (the reader component's theorems, Reader/ReaderRing.v): whenever the marker
    trace of the text does not end empty - wherever the unclosed marker stands, inside branches and
    multiplied units too - no graph is returned, and if the loop runs to its end the error is "dangling" *)
Theorem C20_reader_dangling_never_a_graph : forall fo s, marker_trace s <> Ok [] -> forall g, read_cgsmiles fo s <> Ok g.
Proof. exact open_marker_never_a_graph. Qed.
Theorem C20_reader_dangling_rejected : forall fo s st k ks,
  main_loop (Datatypes.S (length s)) fo (last s " "%char) s init_state = Ok st -> marker_trace s = Ok (k :: ks) ->
  read_cgsmiles fo s = Err (ESyntax (S "dangling")).
Proof. exact open_marker_dangling. Qed.

(** THE HEADLINE for reader faults: every string of the documented grammar (well-formed AST - which asks neither
    for balanced rings nor for valid annotations -, no branch multiplier, outside the reader's own defect classes),
    base graph in braces or coarse fragment text, with the fault at ANY token position.  [toks (expand_branches a)]
    is the token list of the string; the reader model equals the token machine on it (reader component's
    reader_sim_C04), the three faults are decided on the machine (Dialect/MachineFaults.v) *)
Theorem C20_grammar_annotation_error : forall fo braces a, Grammar.wf fo a = true -> has_branch_mult a = false ->
  class_C04 braces a = 0%nat -> forall pre nm n post x e, toks (expand_branches a) = pre ++ TNode nm n :: post ->
  m_run fo pre m_init = Ok x -> parse_graph_base_node fo nm = Err e ->
  read_cgsmiles fo (print braces a) = Err e.
Proof. exact grammar_annotation_error. Qed.
Theorem C20_grammar_duplicate_rejected : forall fo braces a, Grammar.wf fo a = true -> has_branch_mult a = false ->
  class_C04 braces a = 0%nat -> forall pre o m post x cur n0 o0, toks (expand_branches a) = pre ++ TRing o m :: post ->
  m_run fo pre m_init = Ok x -> m_prev x = Some cur -> rt_get m (m_rings x) = Some (n0, o0) ->
  has_edge (m_g x) cur n0 = true ->
  read_cgsmiles fo (print braces a) = Err (ESyntax (S "double")).
Proof. exact grammar_duplicate_rejected. Qed.
Theorem C20_grammar_dangling_rejected : forall fo braces a, Grammar.wf fo a = true -> has_branch_mult a = false ->
  class_C04 braces a = 0%nat -> forall m, Nat.odd (ring_occurrences m (toks (expand_branches a))) = true ->
  (forall g, read_cgsmiles fo (print braces a) <> Ok g) /\
  (forall x, m_run fo (toks (expand_branches a)) m_init = Ok x -> read_cgsmiles fo (print braces a) = Err (ESyntax (S "dangling"))).
Proof. exact grammar_dangling_rejected. Qed.
(** the machine theorems themselves (they also cover flat strings and strings with branch multipliers through
    [C20_flat_read_is_machine] / [C20_units_read_is_machine]) *)
Theorem C20_machine_annotation_error : forall fo pre nm n post x e,
  m_run fo pre m_init = Ok x -> parse_graph_base_node fo nm = Err e ->
  m_finish (m_run fo (pre ++ TNode nm n :: post) m_init) = Err e.
Proof. exact machine_annotation_error. Qed.
Theorem C20_machine_duplicate_rejected : forall fo pre o m post x cur n0 o0,
  m_run fo pre m_init = Ok x -> m_prev x = Some cur -> rt_get m (m_rings x) = Some (n0, o0) ->
  has_edge (m_g x) cur n0 = true ->
  m_finish (m_run fo (pre ++ TRing o m :: post) m_init) = Err (ESyntax (S "double")).
Proof. exact machine_duplicate_rejected. Qed.
Theorem C20_machine_dangling_rejected : forall fo m ts, Nat.odd (ring_occurrences m ts) = true ->
  (forall g, m_finish (m_run fo ts m_init) <> Ok g) /\
  (forall x, m_run fo ts m_init = Ok x -> m_finish (m_run fo ts m_init) = Err (ESyntax (S "dangling"))).
Proof. exact machine_dangling_rejected. Qed.
(** faults INJECTED into a token list that runs (= a valid string): nothing is assumed about the state any more -
    the hypotheses of the three theorems above follow from validity.  A refused node text in the place of any node; a
    fresh ring marker after any node; a ring bond between two chain neighbours anywhere (also inside branches and in
    the longhand tokens of multiplied units) *)
Theorem C20_injected_annotation_error : forall fo ts1 nm n ts2 y nm' e,
  m_run fo (ts1 ++ TNode nm n :: ts2) m_init = Ok y -> parse_graph_base_node fo nm' = Err e ->
  m_finish (m_run fo (ts1 ++ TNode nm' n :: ts2) m_init) = Err e.
Proof. exact injected_annotation_error. Qed.
Theorem C20_injected_dangling_rejected : forall fo ts1 ts2 o m y,
  m_run fo (ts1 ++ ts2) m_init = Ok y -> ring_occurrences m (ts1 ++ ts2) = 0%nat ->
  (forall x1, m_run fo ts1 m_init = Ok x1 -> m_prev x1 <> None) ->
  m_finish (m_run fo (ts1 ++ TRing o m :: ts2) m_init) = Err (ESyntax (S "dangling")).
Proof. exact injected_dangling_rejected. Qed.
Theorem C20_injected_duplicate_neighbours : forall fo ts1 nu o m syms nv o' ts2 x1 au av,
  m_run fo ts1 m_init = Ok x1 -> ring_occurrences m ts1 = 0%nat ->
  parse_graph_base_node fo nu = Ok au -> parse_graph_base_node fo nv = Ok av ->
  Forall (fun t => match t with TSym _ => True | _ => False end) syms ->
  m_finish (m_run fo (ts1 ++ TNode nu 1 :: TRing o m :: syms ++ TNode nv 1 :: TRing o' m :: ts2) m_init)
  = Err (ESyntax (S "double")).
Proof. exact injected_duplicate_neighbours. Qed.
(** ... and on ReaderImpl.read_cgsmiles for grammar strings *)
Theorem C20_grammar_injected_annotation_error : forall fo braces a, Grammar.wf fo a = true -> has_branch_mult a = false ->
  class_C04 braces a = 0%nat -> forall ts1 nm n ts2 y nm' e,
  m_run fo (ts1 ++ TNode nm n :: ts2) m_init = Ok y -> toks (expand_branches a) = ts1 ++ TNode nm' n :: ts2 ->
  parse_graph_base_node fo nm' = Err e -> read_cgsmiles fo (print braces a) = Err e.
Proof. exact grammar_injected_annotation_error. Qed.
Theorem C20_grammar_injected_dangling : forall fo braces a, Grammar.wf fo a = true -> has_branch_mult a = false ->
  class_C04 braces a = 0%nat -> forall ts1 ts2 o m y,
  m_run fo (ts1 ++ ts2) m_init = Ok y -> ring_occurrences m (ts1 ++ ts2) = 0%nat ->
  (forall x1, m_run fo ts1 m_init = Ok x1 -> m_prev x1 <> None) -> toks (expand_branches a) = ts1 ++ TRing o m :: ts2 ->
  read_cgsmiles fo (print braces a) = Err (ESyntax (S "dangling")).
Proof. exact grammar_injected_dangling. Qed.
Theorem C20_grammar_injected_duplicate : forall fo braces a, Grammar.wf fo a = true -> has_branch_mult a = false ->
  class_C04 braces a = 0%nat -> forall ts1 nu o m syms nv o' ts2 x1 au av,
  m_run fo ts1 m_init = Ok x1 -> ring_occurrences m ts1 = 0%nat ->
  parse_graph_base_node fo nu = Ok au -> parse_graph_base_node fo nv = Ok av ->
  Forall (fun t => match t with TSym _ => True | _ => False end) syms ->
  toks (expand_branches a) = ts1 ++ TNode nu 1 :: TRing o m :: syms ++ TNode nv 1 :: TRing o' m :: ts2 ->
  read_cgsmiles fo (print braces a) = Err (ESyntax (S "double")).
Proof. exact grammar_injected_duplicate. Qed.
Theorem C20_flat_read_is_machine : forall fo l, lins_ok fo l = true ->
  read_cgsmiles fo ("{"%char :: lins_str l ++ ["}"%char]) = m_finish (m_run fo (lins_toks l) m_init).
Proof. exact flat_read_is_machine. Qed.
Theorem C20_units_read_is_machine : forall fo l, segs_ok fo l = true ->
  read_cgsmiles fo ("{"%char :: segs_str l ++ ["}"%char]) = m_finish (m_run fo (segs_toks l) m_init).
Proof. exact units_read_is_machine. Qed.
Example C20_nonvacuous_grammar :
  let fo := fo_of_table [] in
  let a := [Item (S "A") [(None, MDigit 1)] None None [Branch [Item (S "B") [(None, MDigit 7)] None None []] None None];
            Item (S "C;q=x=y") [(None, MDigit 1)] None None []] in
  Grammar.wf fo a = true /\ has_branch_mult a = false /\ class_C04 true a = 0%nat /\
  Nat.odd (ring_occurrences 7 (toks (expand_branches a))) = true /\
  read_cgsmiles fo (print true a) = Err (ESyntax (S "toomany_eq")).
Proof. exact grammar_faults_example. Qed.

(** ---- strip_bonding_descriptors (Frag/StripImpl.v) ---- *)
Theorem C20_strip_annotation_error : forall fo toks dc pre body annot post sp e,
  FragText.wf toks dc = true -> excluded toks dc = false ->
  decorate toks dc = pre ++ ITok (TBracket body annot) :: post ->
  spec_run fo sinit pre = Ok sp -> fragment_node_parser fo (annot_text annot) = Err e ->
  strip_bonding_descriptors fo (FragText.render (decorate toks dc)) = Err e.
Proof. exact strip_annotation_error_propagates. Qed.
Theorem C20_strip_machine_error : forall fo pre post m atom attr rec e,
  run fo init pre = Ok m -> m_mode m = MAtom atom attr rec -> fragment_node_parser fo attr = Err e ->
  strip_bonding_descriptors fo (pre ++ "]"%char :: post) = Err e.
Proof. exact strip_machine_error. Qed.

(** ---- the resolver's own model (Resolve/GraphOps.v, Pipeline.v) ---- *)
Theorem C20_resolver_missing_fragment : forall fd pre mn post st fv w d o,
  fold_res (disc_step fd) pre (gempty, []) = Ok st ->
  aget (S "fragname") (na mn) = Some fv -> lookup_fragment fd fv = None ->
  Forall (fun wa => aget (S "order") (snd wa) <> None) (nadj mn) ->
  In (w, d) (nadj mn) -> aget (S "order") d = Some o -> order_is_zero o = false ->
  resolve_disconnected fd (pre ++ mn :: post) = Err (ESyntax (S "nofrag")).
Proof. exact missing_fragment_rejected_at. Qed.
Theorem C20_resolver_error_is_the_result : forall legacy aa fd prev tr e,
  resolve_disconnected fd (set_nodes_from prev (S "fragname") (get_node_attributes prev (S "atomname"))) = Err e ->
  resolve_step legacy aa fd prev tr = Err e.
Proof. exact resolve_step_propagates. Qed.

(** ---- the DRIVER: MoleculeResolver.from_string(s).resolve_all() (Resolve/Pipeline.v; [drive]) ---- *)
(** an error of read_cgsmiles on the first block is what the call raises *)
Theorem C20_driver_base_error : forall rc rf s laa legacy trs e0 rest e,
  find_blocks s = e0 :: rest -> rc e0 = Err e -> drive rc rf s laa legacy trs = Err e.
Proof. exact driver_base_error. Qed.
(** ... an error of read_fragments on ANY later block, the earlier ones being read *)
Theorem C20_driver_fragment_error : forall rc rf s laa legacy trs e0 mol pre x post e,
  find_blocks s = e0 :: pre ++ x :: post -> rc e0 = Ok mol ->
  Forall (fun y => exists d, rf y false = Ok d) pre -> rf x (aa_flag post laa) = Err e ->
  drive rc rf s laa legacy trs = Err e.
Proof. exact driver_fragment_error. Qed.
(** ... an error of the resolve() of ANY level, the earlier ones returning *)
Theorem C20_driver_level_error : forall rc rf s laa legacy trs st k st' trs' e,
  from_string rc rf s laa legacy = Ok st -> returns k st trs st' trs' -> (k < st_res st)%nat ->
  resolve st' (match trs' with t :: _ => t | [] => no_transcript end) = Err e ->
  drive rc rf s laa legacy trs = Err e.
Proof. exact driver_level_error. Qed.
Theorem C20_driver_missing_fragment : forall rc rf s laa legacy trs st k st' trs' fd e,
  from_string rc rf s laa legacy = Ok st -> returns k st trs st' trs' -> (k < st_res st)%nat ->
  nth_error (st_dicts st') (st_counter st') = Some fd ->
  resolve_disconnected fd (set_nodes_from (st_mol st') (S "fragname") (get_node_attributes (st_mol st') (S "atomname"))) = Err e ->
  drive rc rf s laa legacy trs = Err e.
Proof. exact driver_missing_fragment. Qed.
(** ... and from the STRING itself (re.findall of the blocks computed): s = "{body}" ++ tail, s = "{body}.{fbody}" *)
Theorem C20_driver_string_base_error : forall rc rf body tail laa legacy trs e,
  body <> [] -> ~ In "}"%char body -> rc ("{"%char :: body ++ ["}"%char]) = Err e ->
  drive rc rf ("{"%char :: body ++ "}"%char :: tail) laa legacy trs = Err e.
Proof. exact driver_string_base_error. Qed.
Theorem C20_driver_string_fragment_error : forall rc rf body fbody laa legacy trs mol e,
  body <> [] -> ~ In "}"%char body -> fbody <> [] -> ~ In "}"%char fbody ->
  rc ("{"%char :: body ++ ["}"%char]) = Ok mol -> rf ("{"%char :: fbody ++ ["}"%char]) laa = Err e ->
  drive rc rf ("{"%char :: body ++ "}"%char :: "."%char :: "{"%char :: fbody ++ ["}"%char]) laa legacy trs = Err e.
Proof. exact driver_string_fragment_error. Qed.
(** ... any number of blocks "{b0}.{b1}. ... .{bn}" *)
Theorem C20_find_blocks_dotted : forall bodies, Forall (fun body => body <> [] /\ ~ In "}"%char body) bodies ->
  find_blocks (dotted (map block_of bodies)) = map block_of bodies.
Proof. exact find_blocks_dotted. Qed.
Theorem C20_driver_blocks_fragment_error : forall rc rf body preB fb postB laa legacy trs mol e,
  Forall (fun b => b <> [] /\ ~ In "}"%char b) (body :: preB ++ fb :: postB) ->
  rc (block_of body) = Ok mol ->
  Forall (fun b => exists d, rf (block_of b) false = Ok d) preB ->
  rf (block_of fb) (aa_flag (map block_of postB) laa) = Err e ->
  drive rc rf (dotted (map block_of (body :: preB ++ fb :: postB))) laa legacy trs = Err e.
Proof. exact driver_blocks_fragment_error. Qed.
(** read_fragments as `for fragment in split: strip_bonding_descriptors, template construction, first name wins`, for ANY
    template construction [mk] and dict insertion [add]: a fragment text strip_bonding_descriptors refuses, anywhere in the list *)
Theorem C20_fragments_strip_error : forall fo mk add block aa pre nt post e,
  fragment_split block = pre ++ nt :: post ->
  Forall (fun y => exists r g, strip_bonding_descriptors fo (snd y) = Ok r /\ mk aa (fst y) r = Ok g) pre ->
  strip_bonding_descriptors fo (snd nt) = Err e ->
  read_fragments_with fo mk add block aa = Err e.
Proof. exact fragments_strip_error. Qed.
(** the coarse branch of fragment_iter as the writer component models it (Write/FragRead.v) is an instance of that shape *)
Theorem C20_coarse_branch_is_instance : forall fo aa name text,
  (r <- strip_bonding_descriptors fo text ;; mk_coarse fo aa name r) = Write.FragRead.read_coarse_fragment fo name text.
Proof. exact coarse_branch_is_instance. Qed.
Theorem C20_coarse_fragments_strip_error : forall fo add block pre nt post e,
  fragment_split block = pre ++ nt :: post ->
  Forall (fun y => exists g, Write.FragRead.read_coarse_fragment fo (fst y) (snd y) = Ok g) pre ->
  strip_bonding_descriptors fo (snd nt) = Err e ->
  read_fragments_with fo (mk_coarse fo) add block false = Err e.
Proof. exact coarse_fragments_strip_error. Qed.
(** END TO END: a refused annotation on any bracket atom / coarse node of any fragment definition of any block *)
Theorem C20_driver_fragment_annotation_error : forall fo mk add rc s laa legacy trs e0 mol preB x postB preF name postF
    toks dc pre body annot post sp e,
  find_blocks s = e0 :: preB ++ x :: postB -> rc e0 = Ok mol ->
  Forall (fun y => exists d, read_fragments_with fo mk add y false = Ok d) preB ->
  fragment_split x = preF ++ (name, FragText.render (decorate toks dc)) :: postF ->
  Forall (fun y => exists r g, strip_bonding_descriptors fo (snd y) = Ok r /\ mk (aa_flag postB laa) (fst y) r = Ok g) preF ->
  FragText.wf toks dc = true -> excluded toks dc = false ->
  decorate toks dc = pre ++ ITok (TBracket body annot) :: post ->
  spec_run fo sinit pre = Ok sp -> fragment_node_parser fo (annot_text annot) = Err e ->
  drive rc (read_fragments_with fo mk add) s laa legacy trs = Err e.
Proof. exact driver_fragment_annotation_error. Qed.
(** the ALL-ATOM branch of read_fragments as the stereo component models it from strings (Stereo/EzStrings.v: split, strip,
    Frag's SMILES parser and template; compared with the implementation on the string cases of the C15 check) *)
Theorem C20_all_atom_fragments_strip_error : forall fo block pre nt post e,
  fragment_split block = pre ++ nt :: post ->
  Forall (fun y => exists g, EzStrings.marked_template fo (fst y) (snd y) = Ok g) pre ->
  strip_bonding_descriptors fo (snd nt) = Err e ->
  EzStrings.read_fragments_model fo block true = Err e.
Proof. exact aa_fragments_strip_error. Qed.
(** END TO END through both real parser models, two-block all-atom string "{body}.{fbody}" *)
Theorem C20_driver_all_atom_annotation_error : forall fo body fbody legacy trs mol preF name postF toks dc pre b annot post sp e,
  body <> [] -> ~ In "}"%char body -> fbody <> [] -> ~ In "}"%char fbody ->
  read_cgsmiles fo ("{"%char :: body ++ ["}"%char]) = Ok mol ->
  fragment_split ("{"%char :: fbody ++ ["}"%char]) = preF ++ (name, FragText.render (decorate toks dc)) :: postF ->
  Forall (fun y => exists g, EzStrings.marked_template fo (fst y) (snd y) = Ok g) preF ->
  FragText.wf toks dc = true -> excluded toks dc = false ->
  decorate toks dc = pre ++ ITok (TBracket b annot) :: post ->
  spec_run fo sinit pre = Ok sp -> fragment_node_parser fo (annot_text annot) = Err e ->
  drive (read_cgsmiles fo) (EzStrings.read_fragments_model fo)
        ("{"%char :: body ++ "}"%char :: "."%char :: "{"%char :: fbody ++ ["}"%char]) true legacy trs = Err e.
Proof. exact driver_all_atom_annotation_error. Qed.
Example C20_nonvacuous_driver_all_atom :
  let fo := fo_of_table [(S "abc", None); (S "0.5", Some (S "0.5"))] in
  (match drive (read_cgsmiles fo) (EzStrings.read_fragments_model fo) (S "{[#A][#A]}.{#A=[$]C[C;w=abc][$]}") true true [] with
   | Err e => Some e | Ok _ => None end) = Some EType /\
  (match drive (read_cgsmiles fo) (EzStrings.read_fragments_model fo) (S "{[#A][#A]}.{#A=[$]C[C;a=b=c][$]}") true true [] with
   | Err e => Some e | Ok _ => None end) = Some (ESyntax (S "toomany_eq")) /\
  (match from_string (read_cgsmiles fo) (EzStrings.read_fragments_model fo) (S "{[#A][#A]}.{#A=[$]C[C;w=0.5][$]}") true true with
   | Err _ => false | Ok _ => true end) = true.
Proof. exact driver_all_atom_example. Qed.
(** END TO END, base block of the documented grammar read by ReaderImpl.read_cgsmiles: the three injected reader faults *)
Theorem C20_driver_grammar_annotation_error : forall fo rf a, Grammar.wf fo a = true -> has_branch_mult a = false ->
  class_C04 true a = 0%nat -> forall s rest laa legacy trs, find_blocks s = print true a :: rest ->
  forall ts1 nm n ts2 y nm' e,
  m_run fo (ts1 ++ TNode nm n :: ts2) m_init = Ok y -> Grammar.toks (expand_branches a) = ts1 ++ TNode nm' n :: ts2 ->
  parse_graph_base_node fo nm' = Err e -> drive (read_cgsmiles fo) rf s laa legacy trs = Err e.
Proof. exact driver_grammar_annotation_error. Qed.
Theorem C20_driver_grammar_dangling : forall fo rf a, Grammar.wf fo a = true -> has_branch_mult a = false ->
  class_C04 true a = 0%nat -> forall s rest laa legacy trs, find_blocks s = print true a :: rest ->
  forall ts1 ts2 o m y,
  m_run fo (ts1 ++ ts2) m_init = Ok y -> ring_occurrences m (ts1 ++ ts2) = 0%nat ->
  (forall x1, m_run fo ts1 m_init = Ok x1 -> m_prev x1 <> None) -> Grammar.toks (expand_branches a) = ts1 ++ TRing o m :: ts2 ->
  drive (read_cgsmiles fo) rf s laa legacy trs = Err (ESyntax (S "dangling")).
Proof. exact driver_grammar_dangling. Qed.
Theorem C20_driver_grammar_duplicate : forall fo rf a, Grammar.wf fo a = true -> has_branch_mult a = false ->
  class_C04 true a = 0%nat -> forall s rest laa legacy trs, find_blocks s = print true a :: rest ->
  forall ts1 nu o m syms nv o' ts2 x1 au av,
  m_run fo ts1 m_init = Ok x1 -> ring_occurrences m ts1 = 0%nat ->
  parse_graph_base_node fo nu = Ok au -> parse_graph_base_node fo nv = Ok av ->
  Forall (fun t => match t with TSym _ => True | _ => False end) syms ->
  Grammar.toks (expand_branches a) = ts1 ++ TNode nu 1 :: TRing o m :: syms ++ TNode nv 1 :: TRing o' m :: ts2 ->
  drive (read_cgsmiles fo) rf s laa legacy trs = Err (ESyntax (S "double")).
Proof. exact driver_grammar_duplicate. Qed.
(** non-vacuity: the driver on six concrete strings (valid, two '=', dangling, double, non-numeric weight, missing fragment) *)
Example C20_nonvacuous_driver :
  outcome (S "{[#A][#A]}.{#A=[$][#X][$]}") = None /\
  outcome (S "{[#A][#A;a=b=c]}.{#A=[$][#X][$]}") = Some (ESyntax (S "toomany_eq")) /\
  outcome (S "{[#A]1[#A]}.{#A=[$][#X][$]}") = Some (ESyntax (S "dangling")) /\
  outcome (S "{[#A]1[#A]1}.{#A=[$][#X][$]}") = Some (ESyntax (S "double")) /\
  outcome (S "{[#A][#A]}.{#A=[$][#X;w=abc][$]}") = Some EType /\
  outcome (S "{[#A][#B]}.{#A=[$][#X][$]}") = Some (ESyntax (S "nofrag")).
Proof. exact driver_example. Qed.

Example C20_nonvacuous_reader :
  read_cgsmiles (fun _ => None) (S "{[#A]1[#B]([#C]2[#D]2)[#E]1}") = Err (ESyntax (S "double")) /\
  read_cgsmiles (fo_of_table [(S "1", Some (S "1.0"))]) (S "{[#A]([#B;q=1])[#C;q=x=y]}") = Err (ESyntax (S "toomany_eq")) /\
  exists g, read_cgsmiles (fo_of_table [(S "1", Some (S "1.0"))]) (S "{[#A]([#B;q=1])[#C]}") = Ok g.
Proof. exact reader_faults_example. Qed.

Print Assumptions C20_two_eq_rejected.
Print Assumptions C20_two_eq_rejected_at_every_position.
Print Assumptions C20_too_many_positional_rejected.
Print Assumptions C20_bound_twice_rejected.
Print Assumptions C20_non_numeric_rejected.
Print Assumptions C20_split_render.
Print Assumptions C20_bound_values.
Print Assumptions C20_dangling_rejected.
Print Assumptions C20_duplicate_rejected.
Print Assumptions C20_missing_fragment_rejected.
Print Assumptions C20_coarse_fragment_charge_refuted.
Print Assumptions C20_reader_error_at.
Print Assumptions C20_reader_annotation_error.
Print Assumptions C20_reader_duplicate_rejected.
Print Assumptions C20_reader_dangling_never_a_graph.
Print Assumptions C20_strip_annotation_error.
Print Assumptions C20_resolver_missing_fragment.
Print Assumptions C20_grammar_annotation_error.
Print Assumptions C20_grammar_duplicate_rejected.
Print Assumptions C20_grammar_dangling_rejected.
Print Assumptions C20_units_read_is_machine.
Print Assumptions C20_injected_annotation_error.
Print Assumptions C20_injected_dangling_rejected.
Print Assumptions C20_injected_duplicate_neighbours.
Print Assumptions C20_grammar_injected_dangling.
Print Assumptions C20_grammar_injected_duplicate.
Print Assumptions C20_driver_base_error.
Print Assumptions C20_driver_fragment_error.
Print Assumptions C20_driver_level_error.
Print Assumptions C20_driver_missing_fragment.
Print Assumptions C20_fragments_strip_error.
Print Assumptions C20_driver_fragment_annotation_error.
Print Assumptions C20_driver_grammar_annotation_error.
Print Assumptions C20_driver_grammar_dangling.
Print Assumptions C20_driver_grammar_duplicate.
Print Assumptions C20_nonvacuous_driver.
Print Assumptions C20_driver_string_base_error.
Print Assumptions C20_driver_string_fragment_error.
Print Assumptions C20_coarse_branch_is_instance.
Print Assumptions C20_coarse_fragments_strip_error.
Print Assumptions C20_all_atom_fragments_strip_error.
Print Assumptions C20_driver_all_atom_annotation_error.
Print Assumptions C20_nonvacuous_driver_all_atom.
Print Assumptions C20_find_blocks_dotted.
Print Assumptions C20_driver_blocks_fragment_error.

(** ------------------------------------------------------------------------------------------
    A keyword written twice (`[#A;w=1;w=2]`): decided to lie OUTSIDE the property.  The statement lists the annotation
    faults (two '=' in one entry, too many positional values, a non-numeric charge or weight); a repeated keyword is none of
    them, and C14's quantifier ranges over subsets of the keys.  The code keeps keyword entries in a dict, the later value
    replaces the earlier one, the annotation is accepted (bounded statement of what the model - tied to dialects.py on such
    texts on every run of C14 - does); the same key given positionally AND by keyword IS rejected (C20_bound_twice_rejected). *)
From CGV Require Import Dialect.DuplicateKey.
Example C20_duplicate_keyword_last_wins_small :
  parse_dialect fo_demo graph_base_dialect (S "A;w=+1;w=1e-1") =
    Ok [(S "fragname", VStr (S "A")); (S "charge", VFlt (S "0.0")); (S "weight", VFlt (S "0.1"))] /\
  parse_dialect fo_demo graph_base_dialect (S "A;foo=1;bar=2;foo=3") =
    Ok [(S "foo", VStr (S "3")); (S "bar", VStr (S "2")); (S "fragname", VStr (S "A")); (S "charge", VFlt (S "0.0")); (S "weight", VFlt (S "1.0"))] /\
  parse_dialect fo_demo graph_base_dialect (S "A;+1;q=+1") = Err (ESyntax (S "bind")).
Proof. exact duplicate_keyword_last_wins_small. Qed.
Print Assumptions C20_duplicate_keyword_last_wins_small.
