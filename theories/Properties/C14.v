(** Property C14 — annotations mean the same however written and reach the graphs unchanged.
    Only statements, each closed by [exact]; the proofs live in Dialect/DialectProofs.v.
    [parse_dialect] is the Impl model of dialects._parse_dialect_string (tied to /repo by the per-run
    correspondence), [graph_base_dialect]/[fragment_node_dialect] are the tables GENERATED from
    dialects.py, [doc_coarse]/[doc_atomic] the documented tables; every theorem is for every float()
    oracle [fo].  The propagation clauses (coarse node / every copy of a fragment atom) are evaluated at
    run time on the implementation's graphs (Dialect/DialectCheck.v), not proved here. *)
From Coq Require Import String.
From Coq Require Import List Ascii ZArith Bool Permutation.
From CGV Require Import Base.PyBase Base.PyVal Gen.DialectGen Dialect.DialectImpl Dialect.DialectDefs
     Dialect.DialectProofs Dialect.DialectCheck.
Import ListNotations.

(** the tables in the source say what the documentation says, and have the shape assumed below *)
Theorem C14_generated_tables_documented :
  dialect_agrees graph_base_dialect doc_coarse = true /\ dialect_agrees fragment_node_dialect doc_atomic = true.
Proof. exact generated_tables_documented. Qed.
Theorem C14_generated_tables_wf : wf_dialect graph_base_dialect = true /\ wf_dialect fragment_node_dialect = true.
Proof. exact wf_generated. Qed.
Theorem C14_generated_tables_nodup :
  NoDup (pnames graph_base_dialect) /\ NoDup (long_names graph_base_dialect) /\
  NoDup (pnames fragment_node_dialect) /\ NoDup (long_names fragment_node_dialect).
Proof. exact nodup_generated. Qed.
Theorem C14_generated_names_clean :
  forallb clean (pnames graph_base_dialect) = true /\ forallb clean (pnames fragment_node_dialect) = true.
Proof. exact names_clean_generated. Qed.

(** the text of a writing is split into exactly its positional values and keyword pairs *)
Theorem C14_parse_render : forall fo dl es,
  Forall (fun v => clean v = true) (pos_of es) -> Forall (fun kv => clean_entry kv = true) (kws_of es) ->
  NoDup (keys (kws_of es)) -> es <> [EPos []] ->
  parse_dialect fo dl (render_ents es) = bind_cast fo dl (pos_of es) (kws_of es).
Proof. exact parse_render_ents. Qed.

(** positional form = keyword form *)
Theorem C14_bind_pos_kw : forall fo dl vals kws,
  NoDup (pnames dl) -> forallb clean (pnames dl) = true ->
  Forall (fun v => clean v = true) vals -> Forall (fun kv => clean_entry kv = true) kws ->
  length vals <= length (params dl) ->
  NoDup (keys (combine (pnames dl) vals ++ kws)) ->
  vals <> [[]] \/ kws <> [] ->
  parse_dialect fo dl (render vals kws) = parse_dialect fo dl (render [] (combine (pnames dl) vals ++ kws)).
Proof. exact bind_pos_kw. Qed.

(** keyword order is irrelevant *)
Theorem C14_bind_perm : forall fo dl pos kws kws',
  Forall (fun v => clean v = true) pos -> Forall (fun kv => clean_entry kv = true) kws ->
  NoDup (keys kws) -> Permutation kws kws' -> pos <> [[]] \/ kws <> [] ->
  res_equiv (parse_dialect fo dl (render pos kws)) (parse_dialect fo dl (render pos kws')).
Proof. exact bind_perm. Qed.
Theorem C14_bind_cast_perm : forall fo dl args kws kws', Permutation kws kws' -> NoDup (keys kws) ->
  res_equiv (bind_cast fo dl args kws) (bind_cast fo dl args kws').
Proof. exact bind_cast_perm. Qed.

(** omitted reserved keys take the defaults; the generated tables give charge 0.0, weight 1.0 and
    leave fragname / chiral absent *)
Theorem C14_bind_defaults : forall fo dl args kws a p,
  NoDup (pnames dl) -> NoDup (long_names dl) -> bind_cast fo dl args kws = Ok a ->
  In p (skipn (length args) (params dl)) -> kw_get (pname p) kws = None ->
  (pdefault p = None -> ~ In (long_name dl (pname p)) (keys kws)) ->
  aget (long_name dl (pname p)) a = pdefault p.
Proof. exact bind_defaults. Qed.
Theorem C14_defaults_generated : forall fo name,
  bind_cast fo graph_base_dialect [name] [] =
    Ok [(S "fragname", VStr name); (S "charge", VFlt (S "0.0")); (S "weight", VFlt (S "1.0"))] /\
  bind_cast fo fragment_node_dialect [] [] = Ok [(S "weight", VFlt (S "1.0"))].
Proof. exact defaults_generated. Qed.

(** reserved numeric keys are floats (of the oracle's value), reserved text keys and free keys verbatim *)
Theorem C14_bind_numeric : forall fo dl args kws a p v,
  NoDup (pnames dl) -> NoDup (long_names dl) -> bind_cast fo dl args kws = Ok a ->
  (exists i, nth_error (params dl) i = Some p /\ nth_error args i = Some v) \/
  (In p (skipn (length args) (params dl)) /\ kw_get (pname p) kws = Some v) ->
  match ptype p with
  | TFloat => exists r, fo v = Some r /\ aget (long_name dl (pname p)) a = Some (VFlt r)
  | TStr => aget (long_name dl (pname p)) a = Some (VStr v)
  end.
Proof. exact bind_numeric. Qed.
Theorem C14_bind_free : forall fo dl args kws a k v,
  NoDup (long_names dl) -> bind_cast fo dl args kws = Ok a -> NoDup (keys kws) -> In (k, v) kws ->
  ~ In k (pnames dl) -> ~ In k (long_names dl) -> aget k a = Some (VStr v).
Proof. exact bind_free. Qed.

(** known finding (class coarse_fragment_atom_dialect): a coarse node inside a fragment definition is
    annotated through the atom dialect; witness [#X;q=1]: the documentation promises charge 1.0, the code
    (model [coarse_fragment_node], validated against the implementation on every run) keeps q as text *)
Theorem C14_coarse_fragment_refuted :
  let fo := fo_of_table [(S "1", Some (S "1.0"))] in
  exists a e, coarse_fragment_node fo (S "X;q=1") = Ok a /\
              expected fo doc_coarse [(S "fragname", S "X"); (S "q", S "1")] [] = Some e /\
              coarse_fragment_dialect_class {| a_assign := [(S "fragname", S "X"); (S "q", S "1")]; a_free := [];
                                               a_ents := [EPos (S "X"); EKw (S "q") (S "1")] |} = true /\
              aget (S "charge") e = Some (VFlt (S "1.0")) /\
              aget (S "charge") a = Some (VFlt (S "0.0")) /\ aget (S "q") a = Some (VStr (S "1")).
Proof. eexists. eexists. repeat split; vm_compute; reflexivity. Qed.

(** non-vacuity of the implications above *)
Example C14_nonvacuous :
  parse_dialect fo_demo graph_base_dialect (S "A;+1;1e-1;mass=72") =
    Ok [(S "mass", VStr (S "72")); (S "fragname", VStr (S "A")); (S "charge", VFlt (S "1.0")); (S "weight", VFlt (S "0.1"))] /\
  parse_dialect fo_demo graph_base_dialect (S "fragname=A;q=+1;w=1e-1;mass=72") =
    parse_dialect fo_demo graph_base_dialect (S "A;+1;1e-1;mass=72") /\
  render [S "A"; S "+1"; S "1e-1"] [(S "mass", S "72")] = S "A;+1;1e-1;mass=72".
Proof. exact pos_kw_example. Qed.

Print Assumptions C14_generated_tables_documented.
Print Assumptions C14_parse_render.
Print Assumptions C14_bind_pos_kw.
Print Assumptions C14_bind_perm.
Print Assumptions C14_bind_defaults.
Print Assumptions C14_defaults_generated.
Print Assumptions C14_bind_numeric.
Print Assumptions C14_bind_free.
Print Assumptions C14_coarse_fragment_refuted.
