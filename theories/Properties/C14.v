(** Property C14 — annotations mean the same however written and reach the graphs unchanged.
    Only statements, each closed by [exact]; the proofs live in Dialect/DialectProofs.v. *)
From Coq Require Import String.
From Coq Require Import List Ascii ZArith Bool Permutation.
From CGV Require Import Base.PyBase Base.PyVal Gen.DialectGen Dialect.DialectImpl Dialect.DialectDefs Dialect.DialectProofs.
Import ListNotations.

Theorem C14_generated_tables_documented :
  dialect_agrees graph_base_dialect doc_coarse = true /\ dialect_agrees fragment_node_dialect doc_atomic = true.
Proof. exact generated_tables_documented. Qed.
Theorem C14_generated_tables_wf : wf_dialect graph_base_dialect = true /\ wf_dialect fragment_node_dialect = true.
Proof. exact wf_generated. Qed.

Print Assumptions C14_generated_tables_documented.
Print Assumptions C14_generated_tables_wf.
